// dhcpdrv executes action scripts (spec/Dhcp.tla vocabulary) against a real dhcp4_spoofer.Handler
// attached to a real packet.Session over a recording connection. Messages are real DHCP frames built
// by the independent builder vh.DHCP4 and go through Session.Parse -> Handler.ProcessPacket ->
// Session.Notify. After every step the replies (decoded by the independent decoder in vh), the
// lease table (verif hook VerifLeases), the allocation cursors, the session projection and the
// lease file are logged as one ndjson line. The trace is validated by TLC against spec/DhcpTrace.tla.
//
//	dhcpdrv -script s.ndjson -out t.ndjson -dir scratch [-shared] [-frames f.hex]
//	dhcpdrv -c18 plan.json -out results.ndjson -dir scratch        (see c18.go)
package main

import (
	"bufio"
	"encoding/json"
	"flag"
	"fmt"
	"math/rand"
	"net"
	"net/netip"
	"os"
	"path/filepath"
	"sort"
	"strconv"
	"strings"
	"time"

	"github.com/irai/packet"
	"github.com/irai/packet/fastlog"
	dhcp "github.com/irai/packet/handlers/dhcp4_spoofer"
	yaml "gopkg.in/yaml.v2"
	"verifharness/vh"
)

type action map[string]interface{}

func (a action) s(k string) string {
	if v, ok := a[k]; ok {
		switch x := v.(type) {
		case string:
			return x
		case float64:
			return strconv.Itoa(int(x))
		}
	}
	return ""
}
func (a action) i(k string) int {
	if v, ok := a[k].(float64); ok {
		return int(v)
	}
	return vh.DhcpNoA
}
func (a action) b(k string) bool {
	v, _ := a[k].(bool)
	return v
}

// ReplyP is the abstract form of one reply (spec/Dhcp.tla Reply / Nak).
type ReplyP struct {
	T      string `json:"t"`
	MAC    string `json:"mac"`
	XID    string `json:"xid"`
	YI     int    `json:"yi"`
	Mask   int    `json:"mask"`
	Router int    `json:"router"`
	DNS    string `json:"dns"`
	SID    int    `json:"sid"`
	LT     bool   `json:"lt"`
	MBR    bool   `json:"mbr"`
	Dst    string `json:"dst"`
	Seq    []int  `json:"-"` // option codes in wire order (map order of the library: not part of the transcript)
	NOpts  int    `json:"nopts"`
}

type LeaseP struct {
	K     string `json:"k"`
	St    string `json:"st"`
	MAC   string `json:"mac"`
	IP    int    `json:"ip"`
	Offer int    `json:"offer"`
	XID   string `json:"xid"`
	Net   int    `json:"net"`
	Exp   bool   `json:"exp"`
}

type HostP struct {
	A int    `json:"a"`
	M string `json:"m"`
}

type MentP struct {
	M     string `json:"m"`
	Cap   bool   `json:"cap"`
	Offer int    `json:"offer"`
}

type FileRec struct {
	K   string `json:"k"`
	MAC string `json:"mac"`
	IP  int    `json:"ip"`
	XID string `json:"xid"`
	Cur bool   `json:"cur"` // the expiry in the file is the expiry the handler holds in memory for that lease
	exp time.Time
}

type driver struct {
	nw        vh.DhcpNet
	cfg       int
	mode      string
	s         *packet.Session
	conn      *vh.RecConn
	h         *dhcp.Handler
	dir       string
	file      string
	shared    bool
	rx        []byte
	rng       *rand.Rand
	lastOffer map[string]int
	lastAck   map[string]int
	fw        *bufio.Writer
	frames    int
	storm     int
	forged    int
	nonDHCP   int
	oldH      *dhcp.Handler // handler that was replaced by "spawn" and is not closed yet ("closeold")
	failTemp  int       // number of coming writes the connection refuses with a temporary error (action "tempfail")
	tempHit   bool      // a write was refused during the current step
	ackFile   []FileRec // lease file as it was when the last DHCPACK of the step was written to the connection
	ackSeen   bool
	ages      int       // number of "age" actions (6 s each) since the behaviour started
	altDNS    bool      // the handler currently runs with the changed configuration (DhcpAltDNS)
	scribbleP float64   // probability that the shared buffer is scribbled over after a step
	txlog     bool      // log every non-storm frame written during the step (hex) and wait for forged frames
	tx        []string
	txForged  []string  // forged decline / release frames of the current behaviour (written by goroutines)
	fileStamp string    // size/mtime of the lease file when it was last decoded
	fileCache []FileRec // decoded content at that moment
	fileState string
}

func modeOf(s string) dhcp.Mode {
	switch s {
	case "primary":
		return dhcp.ModePrimaryServer
	case "nice":
		return dhcp.ModeSecondaryServerNice
	}
	return dhcp.ModeSecondaryServer
}

func (d *driver) newSession() error {
	if d.s != nil {
		old, oh := d.s, d.h
		if d.oldH != nil {
			d.oldH.Close()
			d.oldH = nil
		}
		if oh != nil {
			oh.Close()
		}
		go old.Close()
	}
	// deadlines at their maximum: the session's own minute ticker never ages anything during a run
	rec := vh.NewRecConn()
	hc := &vh.HookConn{RecConn: rec, Before: func(b []byte) error {
		if m, err := vh.DecodeDHCPFrame(b); d.failTemp > 0 && err == nil && m != nil && m.Op == 2 {
			// the device refuses this write (a server reply: the frames written by goroutines are left alone so that
			// the event is deterministic) with a temporary error
			d.failTemp--
			d.tempHit = true
			return tempErr{}
		}
		d.onWrite(b)
		return nil
	}}
	s, err := packet.Config{Conn: hc, NICInfo: d.nw.Universe().NICInfo(), ProbeDeadline: 30 * vh.Unit,
		OfflineDeadline: 60 * vh.Unit, PurgeDeadline: 24 * 60 * vh.Unit}.NewSession("")
	if err != nil {
		return err
	}
	d.s, d.conn = s, rec
	return nil
}

// dns is the DNS server of the configuration the handler currently runs with.
func (d *driver) dns() netip.Addr {
	if d.altDNS {
		return vh.DhcpAltDNS
	}
	return d.nw.DNS
}

// tempErr is a temporary network error (net.Error with Temporary() == true).
type tempErr struct{}

func (tempErr) Error() string   { return "verif: injected temporary write failure" }
func (tempErr) Timeout() bool   { return false }
func (tempErr) Temporary() bool { return true }

// onWrite runs when the handler hands a frame to the connection: if it is a DHCPACK, the lease file is read at that
// very moment (an acknowledged binding must already be durable when the ACK leaves).
func (d *driver) onWrite(b []byte) {
	m, err := vh.DecodeDHCPFrame(b)
	if err != nil || m == nil || m.Op != 2 || m.Type != 5 {
		return
	}
	recs, _ := d.decodeFile()
	d.ackFile = append([]FileRec{}, recs...)
	d.ackSeen = true
}

func (d *driver) newHandler() (err error) {
	c := dhcp.Config{Mode: modeOf(d.mode), NetfilterIP: d.nw.Netfilter, DNSServer: d.dns(), LeaseFilename: d.file}
	d.h, err = c.New(d.s)
	return err
}

func (d *driver) reset(cfg int, mode string, storm bool) error {
	d.cfg, d.mode = cfg%len(vh.DhcpNets), mode
	d.nw = vh.DhcpNets[d.cfg]
	d.flushFrames()
	if err := d.newSession(); err != nil {
		return err
	}
	os.Remove(d.file)
	d.fileStamp = ""
	d.altDNS = false
	d.failTemp, d.tempHit = 0, false
	d.ackSeen = false
	d.ages = 0
	d.lastOffer, d.lastAck = map[string]int{}, map[string]int{}
	if storm {
		dhcp.VerifResetStorm()
	}
	return d.newHandler()
}

func (d *driver) deliver(b []byte) (packet.Frame, error) {
	if d.shared {
		n := copy(d.rx[:cap(d.rx)], b)
		return d.s.Parse(d.rx[:n])
	}
	cp := make([]byte, len(b), len(b)+64)
	copy(cp, b)
	return d.s.Parse(cp)
}

func (d *driver) scribble() {
	if !d.shared || (d.scribbleP < 1 && d.rng.Float64() >= d.scribbleP) {
		return
	}
	p := byte(d.rng.Intn(256))
	full := d.rx[:cap(d.rx)]
	for i := range full {
		full[i] = p ^ byte(i*13)
	}
}

// resolve turns a symbolic address argument into the address the real server used.
func (d *driver) resolve(sym string, lit int) int {
	if i := strings.IndexByte(sym, ':'); i > 0 {
		var m map[string]int
		switch sym[:i] {
		case "offer":
			m = d.lastOffer
		case "ip":
			m = d.lastAck
		}
		if v, ok := m[sym[i+1:]]; ok && v != vh.DhcpNoA {
			return v
		}
	}
	return lit
}

func prlOpt(prl string) []vh.DHCP4Opt {
	switch prl {
	case "mr":
		return []vh.DHCP4Opt{{Code: 55, Data: []byte{1, 3, 6, 15}}}
	case "rm":
		return []vh.DHCP4Opt{{Code: 55, Data: []byte{3, 1, 6, 15}}}
	case "m": // asks for the mask, not for the router
		return []vh.DHCP4Opt{{Code: 55, Data: []byte{1, 6, 15}}}
	case "r": // asks for the router, not for the mask
		return []vh.DHCP4Opt{{Code: 55, Data: []byte{3, 6, 15}}}
	case "n": // asks for neither
		return []vh.DHCP4Opt{{Code: 55, Data: []byte{6, 15, 12}}}
	}
	return nil
}

// conc maps an abstract address of the script; a value outside the universe is a script error (exit 2).
func (d *driver) conc(v int) netip.Addr {
	a, ok := d.nw.Conc(v)
	if !ok {
		fmt.Fprintf(os.Stderr, "script error: abstract address %d outside the universe of network %s\n", v, d.nw.Name)
		os.Exit(2)
	}
	return a
}

// message builds one client message. sid: us | other | none. src: abstract source address.
func (d *driver) message(mt uint8, k, m string, xid uint32, sid string, ropt, ci, src int, prl string, name string) []byte {
	return d.messageX(mt, k, m, xid, sid, ropt, ci, src, prl, name, vh.DhcpNoA, false)
}

// messageX: gi = relay agent address (giaddr), bflag = BOOTP broadcast flag.
func (d *driver) messageX(mt uint8, k, m string, xid uint32, sid string, ropt, ci, src int, prl string, name string, gi int, bflag bool) []byte {
	mac := vh.DhcpMAC(m)
	opts := []vh.DHCP4Opt{{Code: 53, Data: []byte{mt}}}
	kn, _ := strconv.Atoi(strings.TrimPrefix(k, "c"))
	if !(k == m && kn%2 == 0) {
		opts = append(opts, vh.DHCP4Opt{Code: 61, Data: vh.DhcpCID(k)})
	}
	if ropt != vh.DhcpNoA {
		opts = append(opts, vh.DHCP4Opt{Code: 50, Data: d.conc(ropt).AsSlice()})
	}
	switch sid {
	case "us":
		opts = append(opts, vh.DHCP4Opt{Code: 54, Data: d.nw.HostIP().AsSlice()})
	case "other":
		opts = append(opts, vh.DHCP4Opt{Code: 54, Data: d.nw.Router.AsSlice()})
	}
	if name != "" {
		opts = append(opts, vh.DHCP4Opt{Code: 12, Data: []byte(name)})
	}
	opts = append(opts, prlOpt(prl)...)
	flags := uint16(0)
	if bflag {
		flags = 0x8000
	}
	giaddr := netip.Addr{}
	if gi != vh.DhcpNoA {
		giaddr = d.conc(gi)
	}
	msg := vh.DHCP4(1, xid, flags, d.conc(ci), netip.Addr{}, netip.Addr{}, giaddr, mac, opts)
	if gi != vh.DhcpNoA {
		msg[3] = 1 // hops
		msg[9] = 3 // secs
	}
	sip, dip, dmac := netip.IPv4Unspecified(), netip.AddrFrom4([4]byte{255, 255, 255, 255}), vh.Bcast
	if src != vh.DhcpNoA {
		sip = d.conc(src)
		if src != vh.DhcpBcastA {
			dip, dmac = d.nw.HostIP(), vh.OwnMAC
		}
	}
	return vh.FrameIP4UDP(mac, dmac, sip, dip, 68, 67, msg)
}

func (d *driver) flushFrames() {
	if d.conn == nil {
		return
	}
	d.classify(d.conn.Take())
}

// classify separates replies (BOOTP op 2 to port 68) from the DISCOVER storm and the forged
// decline / release frames (BOOTP op 1), writes every frame to the -frames file.
func (d *driver) classify(frames [][]byte) (replies []ReplyP, storm int) {
	for _, f := range frames {
		d.frames++
		if d.fw != nil {
			fmt.Fprintf(d.fw, "%x\n", f)
		}
		m, err := vh.DecodeDHCPFrame(f)
		if err != nil || m == nil {
			d.nonDHCP++
			continue
		}
		if m.Op != 2 {
			if len(m.CHAddr) == 6 && m.CHAddr[0] == 0xff && m.CHAddr[1] == 0xee && m.CHAddr[2] == 0xdd {
				storm++
				d.storm++
			} else {
				d.forged++
				if d.txlog {
					d.txForged = append(d.txForged, canonFrame(f, m))
				}
			}
			continue
		}
		if d.txlog {
			d.tx = append(d.tx, canonFrame(f, m))
		}
		replies = append(replies, d.abstractReply(m))
	}
	return replies, storm
}

// canonFrame renders a DHCP frame independent of the library's map iteration order: addressing,
// the fixed BOOTP part verbatim, then the options sorted by code (IP id, lengths and checksums left out).
func canonFrame(f []byte, m *vh.DhcpMsg) string {
	var sb strings.Builder
	fmt.Fprintf(&sb, "eth %x>%x ip %s>%s udp %d>%d bootp ", []byte(m.EthSrc), []byte(m.EthDst), m.IPSrc, m.IPDst, m.SrcPort, m.DstPort)
	if len(f) >= 14+20+8+240 {
		ihl := int(f[14]&0x0f) * 4
		if off := 14 + ihl + 8; len(f) >= off+240 {
			fmt.Fprintf(&sb, "%x", f[off:off+240])
		}
	}
	opts := append([]vh.DHCP4Opt{}, m.Opts...)
	sort.SliceStable(opts, func(i, j int) bool { return opts[i].Code < opts[j].Code })
	for _, o := range opts {
		fmt.Fprintf(&sb, " %d=%x", o.Code, o.Data)
	}
	return sb.String()
}

func (d *driver) abstractReply(m *vh.DhcpMsg) ReplyP {
	r := ReplyP{MAC: vh.DhcpMACName(m.CHAddr), XID: vh.DhcpXIDName(m.XID), YI: d.nw.Abs(m.YIAddr),
		Router: vh.DhcpNoA, SID: vh.DhcpNoA, DNS: "none", MBR: true, Seq: []int{}}
	switch m.Type {
	case 2:
		r.T = "offer"
	case 5:
		r.T = "ack"
	case 6:
		r.T = "nak"
	default:
		r.T = "type" + strconv.Itoa(int(m.Type))
	}
	for _, o := range m.Opts {
		r.Seq = append(r.Seq, int(o.Code))
	}
	r.NOpts = len(m.Opts)
	mask, im := m.Opt(1)
	if im >= 0 {
		switch string(mask) {
		case string(d.nw.Mask(1)):
			r.Mask = 1
		case string(d.nw.Mask(2)):
			r.Mask = 2
		default:
			r.Mask = -1
		}
	}
	if v, ir := m.Opt(3); ir >= 0 {
		r.Router = vh.DhcpUnknownA
		if len(v) == 4 {
			r.Router = d.nw.Abs(netip.AddrFrom4([4]byte{v[0], v[1], v[2], v[3]}))
		}
		r.MBR = im >= 0 && im < ir
	}
	if v, i := m.Opt(6); i >= 0 {
		r.DNS = "other"
		if len(v) == 4 {
			switch netip.AddrFrom4([4]byte{v[0], v[1], v[2], v[3]}) {
			case d.dns():
				r.DNS = "cfg"
			case netip.MustParseAddr("1.1.1.3"):
				r.DNS = "fam"
			}
		}
	}
	if v, i := m.Opt(54); i >= 0 {
		r.SID = vh.DhcpUnknownA
		if len(v) == 4 {
			r.SID = d.nw.Abs(netip.AddrFrom4([4]byte{v[0], v[1], v[2], v[3]}))
		}
	}
	// "the lease time" of the statement is the duration configured for the subnet; the driver leaves
	// SubnetConfig.Duration unset in every configuration, so both subnets use the package default of 4 hours
	if v, i := m.Opt(51); i >= 0 && len(v) == 4 && uint32(v[0])<<24|uint32(v[1])<<16|uint32(v[2])<<8|uint32(v[3]) == leaseSeconds {
		r.LT = true
	}
	r.Dst = "ucast"
	if string(m.EthDst) == string(vh.Bcast) {
		r.Dst = "bcast"
	}
	if !(m.SrcPort == 67 && m.DstPort == 68 && m.CookieOK && m.EndSeen && m.UDPLenOK && m.IPLenOK &&
		string(m.EthSrc) == string(vh.OwnMAC) && m.IPSrc == d.nw.HostIP()) {
		r.Dst = "malformed"
	}
	return r
}

func stName(s dhcp.State) string {
	switch s {
	case dhcp.StateAllocated:
		return "allocated"
	case dhcp.StateDiscover:
		return "discover"
	case dhcp.StateFree:
		return "free"
	}
	return "state" + strconv.Itoa(int(s))
}

func (d *driver) leases() []LeaseP {
	out := []LeaseP{}
	for _, l := range d.h.VerifLeases() {
		p := LeaseP{K: vh.DhcpCIDName(l.ClientID), St: stName(l.State), MAC: vh.DhcpMACName(l.MAC), IP: d.nw.Abs(l.IP),
			Offer: d.nw.Abs(l.IPOffer), XID: vh.DhcpXIDName(l.XID), Exp: !l.DHCPExpiry.IsZero()}
		switch l.Subnet {
		case "net1":
			p.Net = 1
		case "net2":
			p.Net = 2
		}
		out = append(out, p)
	}
	sort.Slice(out, func(i, j int) bool { return out[i].K < out[j].K })
	return out
}

func (d *driver) cursors() []int {
	c1, c2 := d.h.VerifCursors()
	f := func(c netip.Addr, first int) int {
		if !c.IsValid() { // never used yet: the first scan finds nothing and restarts at FirstIP
			return first
		}
		return d.nw.Abs(c)
	}
	return []int{f(c1, 1), f(c2, d.nw.Net2Lo()+1)}
}

func (d *driver) session() ([]HostP, []MentP) {
	hosts := []HostP{}
	for ip, h := range d.s.HostTable.Table {
		if !ip.Is4() {
			continue
		}
		hp := HostP{A: d.nw.Abs(ip), M: "mac:nil"}
		if h.MACEntry != nil {
			hp.M = vh.DhcpMACName(h.MACEntry.MAC)
		}
		hosts = append(hosts, hp)
	}
	sort.Slice(hosts, func(i, j int) bool { return hosts[i].A < hosts[j].A })
	ment := []MentP{}
	for _, e := range d.s.MACTable.Table {
		ment = append(ment, MentP{M: vh.DhcpMACName(e.MAC), Cap: e.Captured, Offer: d.nw.Abs(e.IP4Offer)})
	}
	sort.Slice(ment, func(i, j int) bool { return ment[i].M < ment[j].M })
	return hosts, ment
}

type yamlLease struct {
	ClientID []int `yaml:"clientid"`
	State    int   `yaml:"state"`
	Addr     struct {
		MAC []int  `yaml:"mac"`
		IP  string `yaml:"ip"`
	} `yaml:"addr"`
	XID        []int     `yaml:"xid"`
	DHCPExpiry time.Time `yaml:"dhcpexpiry"`
}

func ints2bytes(v []int) []byte {
	b := make([]byte, len(v))
	for i, x := range v {
		b[i] = byte(x)
	}
	return b
}

// fileRecs reads the lease file with an independent YAML pass (generic decoding, no library types).
func (d *driver) fileRecs() ([]FileRec, string) {
	st, err := os.Stat(d.file)
	if err != nil {
		d.fileStamp = ""
		return []FileRec{}, "nofile"
	}
	stamp := strconv.FormatInt(st.Size(), 10) + "/" + strconv.FormatInt(st.ModTime().UnixNano(), 10)
	if stamp == d.fileStamp {
		return d.fileCache, d.fileState
	}
	recs, state := d.decodeFile()
	d.fileStamp, d.fileCache, d.fileState = stamp, recs, state
	return recs, state
}

func (d *driver) decodeFile() ([]FileRec, string) {
	b, err := os.ReadFile(d.file)
	if err != nil {
		return []FileRec{}, "nofile"
	}
	t := struct {
		Net1   map[string]interface{} `yaml:"net1"`
		Net2   map[string]interface{} `yaml:"net2"`
		Leases []yamlLease            `yaml:"leases"`
	}{}
	if err := yaml.Unmarshal(b, &t); err != nil {
		return []FileRec{}, "unparsable"
	}
	out := []FileRec{}
	for _, l := range t.Leases {
		ip, _ := netip.ParseAddr(l.Addr.IP)
		out = append(out, FileRec{K: vh.DhcpCIDName(ints2bytes(l.ClientID)), MAC: vh.DhcpMACName(net.HardwareAddr(ints2bytes(l.Addr.MAC))),
			IP: d.nw.Abs(ip), XID: vh.DhcpXIDName(ints2bytes(l.XID)), Cur: true, exp: l.DHCPExpiry})
	}
	sort.Slice(out, func(i, j int) bool { return out[i].K < out[j].K })
	st := "ok"
	if t.Net1 == nil || t.Net2 == nil {
		st = "nonets"
	}
	return out, st
}

const ageStep = 6 * time.Second

func (d *driver) snapshot(rec map[string]interface{}) {
	rec["leases"] = d.leases()
	rec["next"] = d.cursors()
	rec["hosts"], rec["ment"] = d.session()
	recs, st := d.fileRecs()
	if d.ackSeen {
		// judge durability on the file as it was when the ACK was handed to the connection
		if len(d.ackFile) != len(recs) {
			recs = d.ackFile
		} else {
			for i := range recs {
				if recs[i].K != d.ackFile[i].K || recs[i].IP != d.ackFile[i].IP || recs[i].MAC != d.ackFile[i].MAC || !recs[i].exp.Equal(d.ackFile[i].exp) {
					recs = d.ackFile
					break
				}
			}
		}
	}
	// currency of the persisted expiry: false iff the handler holds the same allocated binding with another expiry
	out := make([]FileRec, len(recs))
	copy(out, recs)
	if d.h != nil {
		for _, l := range d.h.VerifLeases() {
			if l.State != dhcp.StateAllocated {
				continue
			}
			k, ip := vh.DhcpCIDName(l.ClientID), d.nw.Abs(l.IP)
			for i := range out {
				if out[i].K == k && out[i].IP == ip {
					// the age hook moves the in-memory expiry back by whole steps; anything else is a stale file
					same := false
					for n := 0; n <= d.ages && !same; n++ {
						same = out[i].exp.Equal(l.DHCPExpiry.Add(time.Duration(n) * ageStep))
					}
					if !same {
						out[i].Cur = false
					}
				}
			}
		}
	}
	rec["file"], rec["fst"] = out, st
}

func (d *driver) drain() {
	for {
		select {
		case <-d.s.C:
		default:
			return
		}
	}
}

// process hands one frame to the packet loop: Parse -> ProcessPacket -> Notify.
func (d *driver) process(b []byte) string {
	fr, err := d.deliver(b)
	if err != nil {
		return "parse: " + err.Error()
	}
	perr := ""
	if err := d.h.ProcessPacket(fr); err != nil {
		perr = "process: " + err.Error()
	}
	d.s.Notify(fr)
	return perr
}

func (d *driver) step(a action) (rec map[string]interface{}) {
	rec = map[string]interface{}{}
	for k, v := range a {
		rec[k] = v
	}
	defer func() {
		if r := recover(); r != nil {
			rec["panic"] = fmt.Sprint(r)
		}
	}()
	perr := ""
	d.ackSeen = false
	switch a.s("a") {
	case "discover":
		req := d.resolve(a.s("reqs"), a.i("req"))
		rec["req"] = req
		perr = d.process(d.messageX(1, a.s("k"), a.s("m"), vh.DhcpXID(a.s("xid")), "none", req, vh.DhcpNoA, vh.DhcpNoA, a.s("prl"), a.s("name"), a.i("gi"), a.b("bf")))
	case "request":
		ropt, ci := d.resolve(a.s("ropts"), a.i("ropt")), d.resolve(a.s("cis"), a.i("ci"))
		src := vh.DhcpNoA
		switch a.s("srck") {
		case "bcast":
			src = vh.DhcpBcastA
		case "ci":
			src = ci
		}
		rec["ropt"], rec["ci"], rec["src"] = ropt, ci, src
		perr = d.process(d.messageX(3, a.s("k"), a.s("m"), vh.DhcpXID(a.s("xid")), a.s("sid"), ropt, ci, src, a.s("prl"), a.s("name"), a.i("gi"), a.b("bf")))
	case "decline":
		ropt := d.resolve(a.s("ropts"), a.i("ropt"))
		rec["ropt"] = ropt
		perr = d.process(d.message(4, a.s("k"), a.s("m"), 0xA1B200F0, a.s("sid"), ropt, vh.DhcpNoA, vh.DhcpNoA, "none", ""))
	case "release":
		ci := d.resolve(a.s("cis"), a.i("ci"))
		rec["ci"] = ci
		perr = d.process(d.message(7, a.s("k"), a.s("m"), 0xA1B200F1, a.s("sid"), vh.DhcpNoA, ci, ci, "none", ""))
	case "capture":
		if err := d.s.Capture(vh.DhcpMAC(a.s("m"))); err != nil {
			perr = err.Error()
		}
	case "uncapture":
		if err := d.s.Release(vh.DhcpMAC(a.s("m"))); err != nil {
			perr = err.Error()
		}
	case "tick":
		now := time.Now()
		if a.b("far") {
			now = now.Add(1000 * time.Hour)
		}
		d.h.MinuteTicker(now)
	case "foreign":
		ip := d.resolve(a.s("ips"), a.i("ip"))
		rec["ip"] = ip
		mac := vh.DhcpMAC(a.s("m"))
		fr, err := d.deliver(vh.FrameIP4UDP(mac, vh.RouterMAC, d.conc(ip), netip.MustParseAddr("8.8.8.8"), 40000, 123, []byte("ntp-ish payload")))
		if err != nil {
			perr = "parse: " + err.Error()
		} else {
			d.s.Notify(fr)
		}
	case "purge":
		// two ageing passes with a late clock: every host except our own goes offline, then is deleted
		d.s.VerifPurge(time.Now().Add(48 * time.Hour))
		d.s.VerifPurge(time.Now().Add(48 * time.Hour))
	case "restart":
		d.settle()
		d.flushFrames()
		if err := d.newSession(); err != nil {
			panic("session: " + err.Error())
		}
		if err := d.newHandler(); err != nil {
			perr = "new: " + err.Error()
		}
	case "tempfail":
		// environment event (C10 histories only): the next write to the device fails with a temporary error
		d.failTemp = 1
	case "age":
		// a quiet period longer than the validity of an offer (5 s) passes (verif hook, no wall clock wait)
		d.h.VerifAgeOffers(ageStep)
		d.ages++
	case "spawn":
		// hot swap: the replacement handler is built on the same lease file and session while the old one is still open
		d.settle()
		if d.oldH != nil {
			d.oldH.Close()
		}
		d.oldH = d.h
		if err := d.newHandler(); err != nil {
			perr = "new: " + err.Error()
		}
	case "closeold":
		// the handler replaced by the last "spawn" is closed now (Close must not touch the lease file)
		if d.oldH != nil {
			d.oldH.Close()
			d.oldH = nil
		}
	case "reload":
		// a new handler on the same lease file and the same session
		d.settle()
		if d.h != nil {
			d.h.Close()
		}
		if err := d.newHandler(); err != nil {
			perr = "new: " + err.Error()
		}
	case "reconf":
		// process restart with a changed configuration (DNS server) on the surviving lease file
		d.settle()
		d.flushFrames()
		d.altDNS = !d.altDNS
		if err := d.newSession(); err != nil {
			panic("session: " + err.Error())
		}
		if err := d.newHandler(); err != nil {
			perr = "new: " + err.Error()
		}
	default:
		panic("unknown action " + a.s("a"))
	}
	d.scribble()
	d.drain()
	if d.tempHit {
		// a refused write may be retried by the code under test after a back-off: wait for it (after the buffer was scribbled over)
		d.tempHit = false
		time.Sleep(35 * time.Millisecond)
		d.settle()
	}
	if d.txlog {
		d.tx = d.tx[:0]
	}
	replies, storm := d.classify(d.conn.Take())
	if replies == nil {
		replies = []ReplyP{}
	}
	for _, r := range replies {
		k := a.s("k")
		switch r.T {
		case "offer":
			d.lastOffer[k] = r.YI
		case "ack":
			d.lastAck[k] = r.YI
			delete(d.lastOffer, k)
		}
	}
	rec["replies"] = replies
	rec["storm"] = storm
	if d.txlog {
		tx := append([]string{}, d.tx...)
		sort.Strings(tx)
		rec["tx"] = tx
	}
	rec["err"] = perr
	d.snapshot(rec)
	return rec
}

// settle (txlog mode) waits until the recorder has been quiet for 3 ms (at most 100 ms): forged frames are
// written by goroutines.
func (d *driver) settle() {
	if !d.txlog || d.conn == nil {
		return
	}
	for quiet, last, i := 0, -1, 0; quiet < 3 && i < 100; i++ {
		time.Sleep(time.Millisecond)
		if n := d.conn.Len(); n == last {
			quiet++
		} else {
			quiet, last = 0, n
		}
	}
}

// emitForged (txlog mode) closes a behaviour with the sorted list of forged decline / release frames it caused.
func emitForged(d *driver, enc *json.Encoder) {
	if !d.txlog || d.conn == nil {
		return
	}
	d.settle()
	d.classify(d.conn.Take())
	tx := append([]string{}, d.txForged...)
	sort.Strings(tx)
	enc.Encode(map[string]interface{}{"a": "forged", "tx": tx})
	d.txForged = d.txForged[:0]
}

// leaseSeconds is the lease duration every reply must announce (see the decoder of option 51).
const leaseSeconds = 4 * 3600

func main() {
	script := flag.String("script", "", "ndjson action script")
	outp := flag.String("out", "", "ndjson trace output")
	dir := flag.String("dir", "", "scratch directory for lease files")
	shared := flag.Bool("shared", false, "deliver every frame in one shared receive buffer that is scribbled over after each step")
	framesOut := flag.String("frames", "", "write every frame the handler / session wrote (hex, one per line)")
	scribbleP := flag.Float64("scribble", 1.0, "shared mode: probability that the receive buffer is scribbled over after a step (the next frame overwrites it anyway)")
	txlog := flag.Bool("txlog", false, "log the DHCP frames written during each step (hex, storm excluded) in the trace line; waits for forged frames")
	c18 := flag.String("c18", "", "C18 plan (json): fault enumeration on lease files")
	c18worker := flag.Bool("c18worker", false, "internal: restart worker")
	flag.Parse()
	seed, _ := strconv.ParseInt(os.Getenv("VERIF_SEED"), 10, 64)
	vh.Quiet()
	dhcp.Logger.SetLevel(fastlog.LevelError)
	realStdout := os.Stdout
	if null, err := os.OpenFile(os.DevNull, os.O_WRONLY, 0); err == nil {
		os.Stdout = null
	}
	if *dir == "" {
		fmt.Fprintln(os.Stderr, "-dir is required")
		os.Exit(2)
	}
	if *c18worker {
		c18WorkerMain(*dir, realStdout)
		return
	}
	if *c18 != "" {
		c18Main(*c18, *outp, *dir, seed, realStdout)
		return
	}
	in, err := os.Open(*script)
	if err != nil {
		fmt.Fprintln(os.Stderr, err)
		os.Exit(2)
	}
	of, err := os.Create(*outp)
	if err != nil {
		fmt.Fprintln(os.Stderr, err)
		os.Exit(2)
	}
	d := &driver{rng: rand.New(rand.NewSource(seed)), shared: *shared, rx: make([]byte, 0, 2048), dir: *dir,
		file: filepath.Join(*dir, "leases.yaml"), scribbleP: *scribbleP, txlog: *txlog}
	if *framesOut != "" {
		ff, err := os.Create(*framesOut)
		if err != nil {
			fmt.Fprintln(os.Stderr, err)
			os.Exit(2)
		}
		defer ff.Close()
		d.fw = bufio.NewWriterSize(ff, 1<<20)
		defer d.fw.Flush()
	}
	out := bufio.NewWriterSize(of, 1<<20)
	enc := json.NewEncoder(out)
	sc := bufio.NewScanner(in)
	sc.Buffer(make([]byte, 1<<20), 1<<24)
	behaviours, steps, panics, skipping := 0, 0, 0, false
	for sc.Scan() {
		var a action
		if err := json.Unmarshal(sc.Bytes(), &a); err != nil {
			fmt.Fprintln(os.Stderr, "bad script line:", err)
			os.Exit(2)
		}
		if a.s("a") == "reset" {
			emitForged(d, enc)
			mode := a.s("mode")
			if mode == "" {
				mode = "secondary"
			}
			cfg := a.i("cfg")
			if cfg == vh.DhcpNoA {
				cfg = 0
			}
			if err := d.reset(cfg, mode, a.i("storm") == 1); err != nil {
				fmt.Fprintln(os.Stderr, "reset:", err)
				os.Exit(2)
			}
			behaviours++
			skipping = false
			rec := map[string]interface{}{"a": "reset", "cfg": d.cfg, "mode": mode, "id": a["id"], "net": d.nw.Name,
				"replies": []int{}, "storm": 0, "err": "",
				"shape": map[string]int{"N1": d.nw.N1(), "Net2Lo": d.nw.Net2Lo(), "Net2Hi": d.nw.Net2Hi(), "HostA": d.nw.Abs(d.nw.HostIP()), "RouterA": d.nw.Abs(d.nw.Router)}}
			d.conn.Take()
			d.snapshot(rec)
			enc.Encode(rec)
			continue
		}
		if skipping {
			continue
		}
		rec := d.step(a)
		enc.Encode(rec)
		steps++
		if _, bad := rec["panic"]; bad {
			panics++
			skipping = true
		}
	}
	emitForged(d, enc)
	time.Sleep(2 * time.Millisecond) // let forged decline / release goroutines finish
	d.flushFrames()
	out.Flush()
	of.Close()
	res := map[string]interface{}{"behaviours": behaviours, "steps": steps, "panics": panics, "frames_sent": d.frames,
		"storm_frames": d.storm, "forged_frames": d.forged, "non_dhcp_frames": d.nonDHCP}
	b, _ := json.Marshal(res)
	fmt.Fprintln(realStdout, string(b))
}
