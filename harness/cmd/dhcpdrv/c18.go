package main

// C18: fault enumeration on the lease file.
//
//	phase "produce": run histories on a real handler, keep the lease file each one leaves behind,
//	                 report its line structure (tags + byte offsets) and the bindings it holds.
//	phase "exec":    expand every abstract fault case of the TLC plan (spec/DhcpFile.tla) into all
//	                 concrete byte-level faults of its class, restart a real handler on each damaged
//	                 file in a child worker (recover + watchdog), report the table it loads and the
//	                 answers to renew / discover probes.

import (
	"bufio"
	"encoding/hex"
	"encoding/json"
	"fmt"
	"io"
	"math/rand"
	"os"
	"os/exec"
	"os/signal"
	"path/filepath"
	"strings"
	"sync"
	"syscall"
	"time"

	"verifharness/vh"
)

type c18Plan struct {
	Phase       string     `json:"phase"`
	Cfg         int        `json:"cfg"`
	Mode        string     `json:"mode"`
	Histories   [][]action `json:"histories"`
	Files       string     `json:"files"`        // files.ndjson (written by produce, read by exec)
	Plan        string     `json:"plan"`         // abstract cases from TLC (ndjson)
	SubstSample int        `json:"subst_sample"` // concrete substitutions per abstract case (0 = every offset x alphabet)
	FullTags    []string   `json:"full_tags"`    // line tags whose substitutions are never sampled
	Alphabet    string     `json:"alphabet"`
	Workers     int        `json:"workers"`
	TimeoutMs   int        `json:"timeout_ms"`
	Every       int        `json:"every"`  // crash phase: every n-th byte offset is a crash point (1 = all)
	Extra       int        `json:"extra"`  // crash phase: additional seeded random crash points per history
	Points      []int      `json:"points"` // crash phase: explicit crash points (replay)
	Repeat      int        `json:"repeat"` // crash phase: executions per crash point (the block order in the file follows Go map order)
}

type lineInfo struct {
	Tag   string `json:"tag"`
	J     int    `json:"j"` // lease number (1-based), 0 outside the lease list
	N     int    `json:"n"` // item number inside a byte list
	Key   string `json:"key"`
	Start int    `json:"start"`
	Ks    int    `json:"ks"`
	Ke    int    `json:"ke"`
	End   int    `json:"end"`
}

type bindingP struct {
	K   string `json:"k"`
	MAC string `json:"mac"`
	IP  int    `json:"ip"`
}

type fileInfo struct {
	ID     int        `json:"id"`
	Cfg    int        `json:"cfg"`
	Mode   string     `json:"mode"`
	Size   int        `json:"size"`
	Lines  []lineInfo `json:"lines"`
	Leases []bindingP `json:"leases"`
	Hex    string     `json:"hex"`
}

// tagLines assigns every line of a lease file its structural tag and byte offsets.
func tagLines(b []byte) []lineInfo {
	var out []lineInfo
	section, lease, list, item := "", 0, "", 0
	for pos := 0; pos < len(b); {
		end := pos
		for end < len(b) && b[end] != '\n' {
			end++
		}
		if end < len(b) {
			end++
		}
		line := string(b[pos:end])
		body := strings.TrimRight(line, "\n")
		ind := 0
		for ind < len(body) && body[ind] == ' ' {
			ind++
		}
		ks := ind
		dash := false
		if strings.HasPrefix(body[ind:], "- ") || body[ind:] == "-" {
			dash = true
			ks = ind + 2
			if ks > len(body) {
				ks = len(body)
			}
		}
		rest := body[ks:]
		key, ke := "", ks
		if i := strings.IndexByte(rest, ':'); i >= 0 {
			key, ke = rest[:i], ks+i
		}
		li := lineInfo{Start: pos, Ks: pos + ks, Ke: pos + ke, End: end, Key: key}
		switch {
		case ind == 0 && !dash:
			section, lease, list = key, 0, ""
			li.Tag = key
		case section == "net1" || section == "net2":
			li.Tag = map[string]string{"net1": "n1f", "net2": "n2f"}[section]
		case section == "leases":
			if ind == 0 && dash {
				lease++
				list = ""
			}
			li.J = lease
			switch {
			case key == "" && dash: // byte of a list
				item++
				li.N = item
				li.Tag = map[string]string{"clientid": "cidb", "mac": "macb", "xid": "xidb"}[list]
				if li.Tag == "" {
					li.Tag = "otherb"
				}
				li.Ke = li.Ks
			default:
				switch key {
				case "clientid":
					li.Tag, list, item = "cid", key, 0
				case "mac":
					li.Tag, list, item = "mac", key, 0
				case "xid":
					li.Tag, list, item = "xid", key, 0
				case "state", "addr", "ip", "port", "ipoffer", "name":
					li.Tag, list = key, ""
				case "offerexpiry":
					li.Tag, list = "oexp", ""
				case "dhcpexpiry":
					li.Tag, list = "dexp", ""
				default:
					li.Tag, list = "other", ""
				}
			}
		default:
			li.Tag = "other"
		}
		out = append(out, li)
		pos = end
	}
	return out
}

func c18Main(planPath, outPath, dir string, seed int64, stdout *os.File) {
	pb, err := os.ReadFile(planPath)
	if err != nil {
		fmt.Fprintln(os.Stderr, err)
		os.Exit(2)
	}
	var p c18Plan
	if err := json.Unmarshal(pb, &p); err != nil {
		fmt.Fprintln(os.Stderr, "bad plan:", err)
		os.Exit(2)
	}
	switch p.Phase {
	case "produce":
		c18Produce(p, dir, seed, stdout)
	case "exec":
		c18Exec(p, outPath, dir, seed, stdout)
	case "crash":
		c18Crash(p, outPath, dir, seed, stdout)
	default:
		fmt.Fprintln(os.Stderr, "unknown phase", p.Phase)
		os.Exit(2)
	}
}

func c18Produce(p c18Plan, dir string, seed int64, stdout *os.File) {
	d := &driver{rng: rand.New(rand.NewSource(seed)), rx: make([]byte, 0, 2048), dir: dir, file: filepath.Join(dir, "leases.yaml")}
	of, err := os.Create(p.Files)
	if err != nil {
		fmt.Fprintln(os.Stderr, err)
		os.Exit(2)
	}
	enc := json.NewEncoder(of)
	n := 0
	for i, h := range p.Histories {
		if err := d.reset(p.Cfg, p.Mode, false); err != nil {
			fmt.Fprintln(os.Stderr, "reset:", err)
			os.Exit(2)
		}
		bad := false
		for _, a := range h {
			if rec := d.step(a); rec["panic"] != nil {
				bad = true
				break
			}
		}
		if bad {
			continue
		}
		b, err := os.ReadFile(d.file)
		if err != nil {
			continue
		}
		recs, _ := d.decodeFile()
		fi := fileInfo{ID: i + 1, Cfg: d.cfg, Mode: p.Mode, Size: len(b), Lines: tagLines(b), Hex: hex.EncodeToString(b), Leases: []bindingP{}}
		for _, r := range recs {
			fi.Leases = append(fi.Leases, bindingP{K: r.K, MAC: r.MAC, IP: r.IP})
		}
		// lease numbers follow the order of the blocks in the file: re-read them in file order
		fi.Leases = leasesInFileOrder(d, b, fi.Leases)
		enc.Encode(fi)
		n++
	}
	of.Close()
	fmt.Fprintf(stdout, "{\"files\":%d}\n", n)
}

// leasesInFileOrder orders the bindings as their blocks appear in the file (decodeFile sorts by client id).
func leasesInFileOrder(d *driver, b []byte, sorted []bindingP) []bindingP {
	saved := d.file
	tmp := filepath.Join(d.dir, "order.yaml")
	var out []bindingP
	lines := tagLines(b)
	starts := []int{}
	for _, l := range lines {
		if l.J > 0 && (len(starts) < l.J) {
			starts = append(starts, l.Start)
		}
	}
	hdrEnd := len(b)
	if len(starts) > 0 {
		hdrEnd = starts[0]
	}
	for i := range starts {
		end := len(b)
		if i+1 < len(starts) {
			end = starts[i+1]
		}
		one := append(append([]byte{}, b[:hdrEnd]...), b[starts[i]:end]...)
		os.WriteFile(tmp, one, 0o644)
		d.file = tmp
		recs, _ := d.decodeFile()
		if len(recs) == 1 {
			out = append(out, bindingP{K: recs[0].K, MAC: recs[0].MAC, IP: recs[0].IP})
		}
	}
	d.file = saved
	os.Remove(tmp)
	if len(out) != len(sorted) || out == nil {
		return sorted
	}
	return out
}

type c18Case struct {
	File  int    `json:"file"`
	Fault string `json:"fault"`
	Line  int    `json:"line"`
	Part  string `json:"part"`
}

type c18Task struct {
	ID    int    `json:"id"`
	File  int    `json:"file"`
	Cfg   int    `json:"cfg"`
	Mode  string `json:"mode"`
	Fault string `json:"fault"`
	Line  int    `json:"line"`
	Part  string `json:"part"`
	Off   int    `json:"off"`
	Ch    int    `json:"ch"`
	Data  string `json:"data"`
}

type c18Result struct {
	ID    int         `json:"id"`
	File  int         `json:"file"`
	Fault string      `json:"fault"`
	Line  int         `json:"line"`
	Part  string      `json:"part"`
	Off   int         `json:"off"`
	Ch    int         `json:"ch"`
	Panic bool        `json:"panic"`
	Hang  bool        `json:"hang"`
	Msg   string      `json:"msg"`
	Err   string      `json:"err"`
	Table []LeaseP    `json:"table"`
	Renew []c18Probe  `json:"renew"`
	Disc  c18ProbeOne `json:"disc"`
}

type c18Probe struct {
	K   string `json:"k"`
	MAC string `json:"mac"`
	IP  int    `json:"ip"`
	T   string `json:"t"`
	YI  int    `json:"yi"`
}

type c18ProbeOne struct {
	T  string `json:"t"`
	YI int    `json:"yi"`
}

func partOfCut(l lineInfo, o int) string {
	switch {
	case o == l.End:
		return "eol"
	case o <= l.Ks:
		return "bol"
	case o <= l.Ke:
		return "key"
	}
	return "value"
}

func partOfByte(l lineInfo, p int) string {
	switch {
	case p == l.End-1:
		return "eol"
	case p < l.Ks:
		return "bol"
	case p < l.Ke:
		return "key"
	}
	return "value"
}

func c18Exec(p c18Plan, outPath, dir string, seed int64, stdout *os.File) {
	files := map[int]fileInfo{}
	raw := map[int][]byte{}
	fb, err := os.ReadFile(p.Files)
	if err != nil {
		fmt.Fprintln(os.Stderr, err)
		os.Exit(2)
	}
	for _, ln := range strings.Split(string(fb), "\n") {
		if strings.TrimSpace(ln) == "" {
			continue
		}
		var fi fileInfo
		if err := json.Unmarshal([]byte(ln), &fi); err != nil {
			fmt.Fprintln(os.Stderr, "bad files line:", err)
			os.Exit(2)
		}
		files[fi.ID] = fi
		raw[fi.ID], _ = hex.DecodeString(fi.Hex)
	}
	pf, err := os.Open(p.Plan)
	if err != nil {
		fmt.Fprintln(os.Stderr, err)
		os.Exit(2)
	}
	rng := rand.New(rand.NewSource(seed))
	alphabet := []byte(p.Alphabet)
	var tasks []c18Task
	add := func(c c18Case, off, ch int, data []byte) {
		fi := files[c.File]
		tasks = append(tasks, c18Task{ID: len(tasks) + 1, File: c.File, Cfg: fi.Cfg, Mode: fi.Mode, Fault: c.Fault, Line: c.Line, Part: c.Part,
			Off: off, Ch: ch, Data: hex.EncodeToString(data)})
	}
	sc := bufio.NewScanner(pf)
	sc.Buffer(make([]byte, 1<<20), 1<<24)
	cases := 0
	for sc.Scan() {
		var c c18Case
		if err := json.Unmarshal(sc.Bytes(), &c); err != nil {
			continue
		}
		fi, ok := files[c.File]
		if !ok {
			continue
		}
		b := raw[c.File]
		cases++
		switch c.Fault {
		case "intact":
			add(c, len(b), -1, b)
		case "cut":
			if c.Line == 0 {
				add(c, 0, -1, nil)
				continue
			}
			l := fi.Lines[c.Line-1]
			for o := l.Start + 1; o <= l.End; o++ { // every prefix length that ends inside this line
				if partOfCut(l, o) == c.Part {
					add(c, o, -1, b[:o])
				}
			}
		case "del":
			l := fi.Lines[c.Line-1]
			add(c, l.Start, -1, append(append([]byte{}, b[:l.Start]...), b[l.End:]...))
		case "dup":
			l := fi.Lines[c.Line-1]
			add(c, l.Start, -1, append(append(append([]byte{}, b[:l.End]...), b[l.Start:l.End]...), b[l.End:]...))
		case "subst":
			l := fi.Lines[c.Line-1]
			type sub struct{ pos, ch int }
			var all []sub
			for pos := l.Start; pos < l.End; pos++ {
				if partOfByte(l, pos) != c.Part {
					continue
				}
				for _, ch := range alphabet {
					if ch != b[pos] {
						all = append(all, sub{pos, int(ch)})
					}
				}
			}
			full := false
			for _, t := range p.FullTags {
				if t == l.Tag {
					full = true
				}
			}
			if p.SubstSample > 0 && !full && len(all) > p.SubstSample {
				rng.Shuffle(len(all), func(i, j int) { all[i], all[j] = all[j], all[i] })
				all = all[:p.SubstSample]
			}
			for _, s := range all {
				nb := append([]byte{}, b...)
				nb[s.pos] = byte(s.ch)
				add(c, s.pos, s.ch, nb)
			}
		}
	}
	pf.Close()

	of, err := os.Create(outPath)
	if err != nil {
		fmt.Fprintln(os.Stderr, err)
		os.Exit(2)
	}
	out := bufio.NewWriterSize(of, 1<<20)
	var mu sync.Mutex
	results := make([]*c18Result, len(tasks))
	workers := p.Workers
	if workers <= 0 {
		workers = 4
	}
	timeout := time.Duration(p.TimeoutMs) * time.Millisecond
	if timeout <= 0 {
		timeout = 5 * time.Second
	}
	next := 0
	take := func() int {
		mu.Lock()
		defer mu.Unlock()
		if next >= len(tasks) {
			return -1
		}
		next++
		return next - 1
	}
	hangs, respawns := 0, 0
	var wg sync.WaitGroup
	for w := 0; w < workers; w++ {
		wg.Add(1)
		go func(w int) {
			defer wg.Done()
			wd := filepath.Join(dir, fmt.Sprintf("w%d", w))
			os.MkdirAll(wd, 0o755)
			var cmd *exec.Cmd
			var stdin io.WriteCloser
			var rd *bufio.Reader
			served := 0
			start := func() {
				cmd = exec.Command(os.Args[0], "-c18worker", "-dir", wd)
				cmd.Env = os.Environ()
				stdin, _ = cmd.StdinPipe()
				so, _ := cmd.StdoutPipe()
				cmd.Stderr = nil
				if err := cmd.Start(); err != nil {
					fmt.Fprintln(os.Stderr, "worker start:", err)
					os.Exit(2)
				}
				rd = bufio.NewReaderSize(so, 1<<20)
				served = 0
			}
			stop := func() {
				if cmd != nil {
					stdin.Close()
					cmd.Process.Kill()
					cmd.Wait()
					cmd = nil
				}
			}
			defer stop()
			for {
				i := take()
				if i < 0 {
					return
				}
				if cmd == nil || served >= 400 { // keep worker processes short lived (session NIC monitor, goroutine build-up)
					stop()
					start()
				}
				t := tasks[i]
				tb, _ := json.Marshal(t)
				type rl struct {
					line string
					err  error
				}
				ch := make(chan rl, 1)
				go func() {
					stdin.Write(append(tb, '\n'))
					s, err := rd.ReadString('\n')
					ch <- rl{s, err}
				}()
				res := &c18Result{ID: t.ID, File: t.File, Fault: t.Fault, Line: t.Line, Part: t.Part, Off: t.Off, Ch: t.Ch,
					Table: []LeaseP{}, Renew: []c18Probe{}, Disc: c18ProbeOne{T: "none", YI: vh.DhcpNoA}}
				select {
				case r := <-ch:
					if r.err != nil || json.Unmarshal([]byte(r.line), res) != nil {
						// the worker died without an answer: a crash that recover could not catch (fatal error, os.Exit)
						res.Panic, res.Msg = true, "worker died: "+fmt.Sprint(r.err)
						stop()
						mu.Lock()
						respawns++
						mu.Unlock()
					}
				case <-time.After(timeout):
					res.Hang = true
					stop()
					mu.Lock()
					hangs++
					mu.Unlock()
				}
				served++
				results[i] = res
			}
		}(w)
	}
	wg.Wait()
	enc := json.NewEncoder(out)
	panics := 0
	for _, r := range results {
		if r == nil {
			continue
		}
		if r.Panic {
			panics++
		}
		enc.Encode(r)
	}
	out.Flush()
	of.Close()
	fmt.Fprintf(stdout, "{\"cases\":%d,\"tasks\":%d,\"panics\":%d,\"hangs\":%d,\"respawns\":%d}\n", cases, len(tasks), panics, hangs, respawns)
}

// c18WorkerMain: one restart per task line on stdin, one result line on stdout.
func c18WorkerMain(dir string, stdout *os.File) {
	in := bufio.NewReaderSize(os.Stdin, 1<<20)
	w := bufio.NewWriter(stdout)
	d := &driver{rng: rand.New(rand.NewSource(1)), rx: make([]byte, 0, 2048), dir: dir, file: filepath.Join(dir, "leases.yaml")}
	for {
		line, err := in.ReadString('\n')
		if err != nil {
			return
		}
		var t c18Task
		if json.Unmarshal([]byte(line), &t) != nil {
			continue
		}
		res := c18Restart(d, t)
		b, _ := json.Marshal(res)
		w.Write(append(b, '\n'))
		w.Flush()
	}
}

func isClientName(s string) bool {
	if len(s) < 2 || s[0] != 'c' {
		return false
	}
	for _, ch := range s[1:] {
		if ch < '0' || ch > '9' {
			return false
		}
	}
	return true
}

func c18Restart(d *driver, t c18Task) (res *c18Result) {
	res = &c18Result{ID: t.ID, File: t.File, Fault: t.Fault, Line: t.Line, Part: t.Part, Off: t.Off, Ch: t.Ch,
		Table: []LeaseP{}, Renew: []c18Probe{}, Disc: c18ProbeOne{T: "none", YI: vh.DhcpNoA}}
	phase := "new"
	defer func() {
		if r := recover(); r != nil {
			res.Panic, res.Msg = true, phase+": "+fmt.Sprint(r)
		}
	}()
	data, _ := hex.DecodeString(t.Data)
	d.cfg, d.mode = t.Cfg%len(vh.DhcpNets), t.Mode
	d.nw = vh.DhcpNets[d.cfg]
	d.h = nil
	if err := d.newSession(); err != nil {
		res.Err = "session: " + err.Error()
		return res
	}
	d.lastOffer, d.lastAck = map[string]int{}, map[string]int{}
	if err := os.WriteFile(d.file, data, 0o644); err != nil {
		res.Err = "write: " + err.Error()
		return res
	}
	d.fileStamp = ""
	if err := d.newHandler(); err != nil {
		res.Err = "new: " + err.Error()
		d.h = nil
		return res
	}
	phase = "table"
	res.Table = d.leases()
	// probes: every loaded binding of a known client renews; then a new client discovers
	phase = "renew"
	for i, l := range res.Table {
		if i >= 4 || l.St != "allocated" || !isClientName(l.K) || !isClientName(l.MAC) || l.IP < 0 || l.IP >= d.nw.N1() {
			continue
		}
		d.conn.Take()
		d.process(d.message(3, l.K, l.MAC, vh.DhcpXID("x7"), "none", vh.DhcpNoA, l.IP, l.IP, "none", ""))
		rp, _ := d.classify(d.conn.Take())
		pr := c18Probe{K: l.K, MAC: l.MAC, IP: l.IP, T: "none", YI: vh.DhcpNoA}
		if len(rp) > 0 {
			pr.T, pr.YI = rp[0].T, rp[0].YI
		}
		res.Renew = append(res.Renew, pr)
	}
	phase = "discover"
	d.conn.Take()
	d.process(d.message(1, "c9", "c9", vh.DhcpXID("x8"), "none", vh.DhcpNoA, vh.DhcpNoA, vh.DhcpNoA, "none", ""))
	rp, _ := d.classify(d.conn.Take())
	if len(rp) > 0 {
		res.Disc = c18ProbeOne{T: rp[0].T, YI: rp[0].YI}
	}
	d.drain()
	return res
}

// ---- crash during the rewrite of the lease file ------------------------------------------------------------------
//
// The last step of every history is a REQUEST that is acknowledged, i.e. a rewrite of the lease file over its previous
// version. The rewrite is interrupted after k bytes for real: RLIMIT_FSIZE is lowered to k for that one packet (SIGXFSZ
// ignored), so the file system refuses everything beyond offset k exactly as a crash at that point would leave it.
// Whatever the implementation left on disk (HEAD: a prefix of the new content, because WriteFile truncates first) is
// then given to a new handler on a new session, and the table it loads is reported together with every binding that was
// ever acknowledged in the history.

type c18CrashResult struct {
	N     int        `json:"n"`
	Hist  int        `json:"hist"`
	K     int        `json:"k"`
	Size  int        `json:"size"` // size of the file left behind
	Old   int        `json:"old"`  // size of the previous version
	Panic bool       `json:"panic"`
	Hang  bool       `json:"hang"`
	Msg   string     `json:"msg"`
	Acked bool       `json:"acked"` // the interrupted step was acknowledged to the client
	Table []LeaseP   `json:"table"`
	Ever  []bindingP `json:"ever"`
}

func c18Crash(p c18Plan, outPath, dir string, seed int64, stdout *os.File) {
	signal.Ignore(syscall.SIGXFSZ)
	var orig syscall.Rlimit
	if err := syscall.Getrlimit(syscall.RLIMIT_FSIZE, &orig); err != nil {
		fmt.Fprintln(os.Stderr, "getrlimit:", err)
		os.Exit(2)
	}
	limit := func(k int) {
		l := orig
		l.Cur = uint64(k)
		syscall.Setrlimit(syscall.RLIMIT_FSIZE, &l)
	}
	unlimit := func() { syscall.Setrlimit(syscall.RLIMIT_FSIZE, &orig) }
	rng := rand.New(rand.NewSource(seed))
	d := &driver{rng: rand.New(rand.NewSource(seed)), rx: make([]byte, 0, 2048), dir: dir, file: filepath.Join(dir, "leases.yaml")}
	every, repeat := p.Every, p.Repeat
	if every <= 0 {
		every = 1
	}
	if repeat <= 0 {
		repeat = 1
	}
	var results []c18CrashResult
	one := func(hi int, h []action, k int) (res c18CrashResult) {
		res = c18CrashResult{Hist: hi, K: k, Table: []LeaseP{}, Ever: []bindingP{}}
		phase := "history"
		defer func() {
			unlimit()
			if r := recover(); r != nil {
				res.Panic, res.Msg = true, phase+": "+fmt.Sprint(r)
			}
		}()
		if err := d.reset(p.Cfg, p.Mode, false); err != nil {
			panic("reset: " + err.Error())
		}
		ever := map[bindingP]bool{}
		note := func(a action, rec map[string]interface{}) bool {
			acked := false
			if rs, ok := rec["replies"].([]ReplyP); ok {
				for _, r := range rs {
					if r.T == "ack" {
						ever[bindingP{K: a.s("k"), MAC: r.MAC, IP: r.YI}] = true
						acked = true
					}
				}
			}
			return acked
		}
		for _, a := range h[:len(h)-1] {
			rec := d.step(a)
			if rec["panic"] != nil {
				panic(fmt.Sprint(rec["panic"]))
			}
			note(a, rec)
		}
		if st, err := os.Stat(d.file); err == nil {
			res.Old = int(st.Size())
		}
		phase = "interrupted rewrite"
		last := h[len(h)-1]
		limit(k)
		rec := d.step(last)
		unlimit()
		if rec["panic"] != nil {
			panic(fmt.Sprint(rec["panic"]))
		}
		res.Acked = note(last, rec)
		for b := range ever {
			res.Ever = append(res.Ever, b)
		}
		if st, err := os.Stat(d.file); err == nil {
			res.Size = int(st.Size())
		}
		phase = "restart"
		d.h = nil
		if err := d.newSession(); err != nil {
			panic("session: " + err.Error())
		}
		d.fileStamp = ""
		if err := d.newHandler(); err != nil {
			res.Msg = "new: " + err.Error()
			d.h = nil
			return res
		}
		res.Table = d.leases()
		return res
	}
	for hi, h := range p.Histories {
		if len(h) < 2 {
			continue
		}
		// size of the file a complete run leaves (upper bound of the interesting crash points)
		probe := one(hi+1, h, 1<<30)
		max := probe.Size + 8
		pts := map[int]bool{0: true, probe.Size: true}
		for k := 0; k <= max; k += every {
			pts[k] = true
		}
		for _, k := range p.Points {
			pts[k] = true
		}
		for i := 0; i < p.Extra; i++ {
			pts[rng.Intn(max+1)] = true
		}
		for k := range pts {
			for r := 0; r < repeat; r++ {
				res := one(hi+1, h, k)
				res.N = len(results) + 1
				results = append(results, res)
			}
		}
	}
	of, err := os.Create(outPath)
	if err != nil {
		fmt.Fprintln(os.Stderr, err)
		os.Exit(2)
	}
	enc := json.NewEncoder(of)
	panics := 0
	for _, r := range results {
		if r.Panic {
			panics++
		}
		enc.Encode(r)
	}
	of.Close()
	fmt.Fprintf(stdout, "{\"histories\":%d,\"crash_points\":%d,\"panics\":%d}\n", len(p.Histories), len(results), panics)
}
