package main

// Minute-ticker scenario (C09, "Close stops all background goroutines"): the purge started by the
// session's own ticker goroutine is still running when Close is called.  The harness holds the row
// lock of one MAC entry across the tick so that the tick-started purge blocks in its scan, calls
// Close, releases the lock and counts the library's goroutines afterwards.  The period is one real
// minute unless the tree carries the hook of hooks/packet_verif_ticker.patch (build tag verifticker).

import (
	"encoding/json"
	"fmt"
	"os"
	"runtime"
	"strings"
	"sync/atomic"
	"time"

	"github.com/irai/packet"
	"verifharness/vh"
)

var minutePeriod = time.Minute // overridden by minute_hook.go when the hook exists

func purgeRunning() bool {
	buf := make([]byte, 1<<20)
	n := runtime.Stack(buf, true)
	return strings.Contains(string(buf[:n]), "packet.(*Session).purge(")
}

func minuteScenario(stdout *os.File) {
	e, err := newEnv(0)
	if err != nil {
		fmt.Fprintln(os.Stderr, "setup:", err)
		os.Exit(2)
	}
	defer os.RemoveAll(e.dir)
	e.res.Mode = "minute"
	loopDone := make(chan struct{})
	go e.packetLoop(loopDone)
	go func() {
		for range e.s.C {
		}
	}()
	start := time.Now()
	watchdog := time.AfterFunc(minutePeriod+30*time.Second, func() { dumpAndExit("watchdog (minute scenario)") })
	host := vh.FrameIP4UDP(e.mac(1), vh.RouterMAC, e.lan(1), e.u.Cfg.RouterIP, 40000, 123, []byte("minute"))
	router := vh.Ether(vh.OwnMAC, vh.RouterMAC, 0x0800, vh.IP4(e.u.Cfg.RouterIP, e.u.Cfg.HostIP, 1, 64, 7, vh.ICMP4(8, 0, vh.Echo(9, 1, []byte("ping")))))
	var hold int32
	go func() { // traffic: keeps the entries fresh (nothing goes offline: purge has nothing to notify)
		for {
			if atomic.LoadInt32(&hold) == 0 {
				e.conn.Push(append([]byte{}, host...))
			}
			if !e.conn.Push(append([]byte{}, router...)) {
				return
			}
			time.Sleep(minutePeriod / 300)
		}
	}()
	time.Sleep(time.Until(start.Add(minutePeriod - minutePeriod/20)))
	atomic.StoreInt32(&hold, 1)
	time.Sleep(minutePeriod / 100)
	h := e.s.FindIP(e.lan(1))
	if h == nil {
		fmt.Fprintln(os.Stderr, "minute: host not tracked")
		os.Exit(2)
	}
	h.MACEntry.Row.Lock() // an application holding the row lock (hosttable.go:19-24 allows it) across the tick
	deadline := start.Add(minutePeriod + minutePeriod/4)
	for !purgeRunning() && time.Now().Before(deadline) {
		time.Sleep(minutePeriod / 600)
	}
	inPurge := purgeRunning()
	closed := make(chan struct{})
	go func() {
		defer close(closed)
		defer e.guard("close")
		e.arp.Close()
		e.h6.Close()
		e.dhcp.Close()
		e.s.Close()
	}()
	time.Sleep(200 * time.Millisecond) // closeChan is closed by now: the ticker goroutine has left
	h.MACEntry.Row.Unlock()
	<-closed
	select {
	case <-loopDone:
	case <-time.After(3 * time.Second):
		dumpAndExit("packet loop did not end after Close")
	}
	time.Sleep(300 * time.Millisecond)
	for i := 0; i < 12 && len(census()) > 0; i++ {
		time.Sleep(100 * time.Millisecond)
	}
	e.res.Alive = census()
	watchdog.Stop()
	e.res.Replay = map[string]interface{}{"tick_purge_was_running_at_close": inPurge, "period_ms": int(minutePeriod / time.Millisecond)}
	out, _ := json.Marshal(e.res)
	fmt.Fprintln(stdout, string(out))
	_ = packet.ErrTimeout
}
