package main

// Object registry for the normalisation of race reports: the race detector prints addresses, not
// types.  The driver records the address of every Host / MACEntry it gets to see through the query
// API (plus the session and the handlers) and prints, with the memory layout of these types, a map
// address range -> type at the end of the run (CONC-LAYOUT / CONC-OBJECTS lines on stderr), so that
// checks/conc_common.py can name the location of a report as Type.field.

import (
	"encoding/json"
	"fmt"
	"os"
	"reflect"
	"sync"
	"sync/atomic"
	"time"
	"unsafe"

	"github.com/irai/packet"
)

type objRec struct {
	Base uint64 `json:"base"`
	Type string `json:"type"`
}

type registry struct {
	mu   sync.Mutex
	objs map[uintptr]string
}

var reg = &registry{objs: map[uintptr]string{}}

func (r *registry) add(p unsafe.Pointer, typ string) {
	if p == nil {
		return
	}
	r.mu.Lock()
	if _, ok := r.objs[uintptr(p)]; !ok {
		r.objs[uintptr(p)] = typ
	}
	r.mu.Unlock()
}

// sampler is one more API user: it lists the hosts through GetHosts and remembers where they live.
func (e *env) sampler(stop *int32, wg *sync.WaitGroup) {
	defer wg.Done()
	for atomic.LoadInt32(stop) == 0 {
		e.sample()
		time.Sleep(500 * time.Microsecond)
	}
	e.sample()
}

func (e *env) sample() {
	defer func() { recover() }()
	for _, h := range e.s.GetHosts() {
		reg.add(unsafe.Pointer(h), "Host")
		reg.add(unsafe.Pointer(h.MACEntry), "MACEntry") // pointer set once at creation, never changed
	}
	for k := 1; k <= nMAC; k++ {
		reg.add(unsafe.Pointer(e.s.FindMACEntry(e.mac(k))), "MACEntry")
	}
}

type fieldRec struct {
	Off  uintptr `json:"off"`
	Size uintptr `json:"size"`
	Name string  `json:"name"`
}

func layoutOf(t reflect.Type) map[string]interface{} {
	fs := []fieldRec{}
	for i := 0; i < t.NumField(); i++ {
		f := t.Field(i)
		fs = append(fs, fieldRec{Off: f.Offset, Size: f.Type.Size(), Name: f.Name})
	}
	return map[string]interface{}{"size": t.Size(), "fields": fs}
}

// dumpObjects prints the layout of the library's shared types and the objects seen.
func (e *env) dumpObjects() {
	lay := map[string]interface{}{
		"Host":     layoutOf(reflect.TypeOf(packet.Host{})),
		"MACEntry": layoutOf(reflect.TypeOf(packet.MACEntry{})),
		"Session":  layoutOf(reflect.TypeOf(packet.Session{})),
	}
	reg.add(unsafe.Pointer(e.s), "Session")
	if e.arp != nil {
		lay["arp_spoofer.Handler"] = layoutOf(reflect.TypeOf(e.arp).Elem())
		reg.add(unsafe.Pointer(e.arp), "arp_spoofer.Handler")
	}
	if e.h6 != nil {
		lay["icmp_spoofer.Handler6"] = layoutOf(reflect.TypeOf(e.h6).Elem())
		reg.add(unsafe.Pointer(e.h6), "icmp_spoofer.Handler6")
	}
	if e.dhcp != nil {
		lay["dhcp4_spoofer.Handler"] = layoutOf(reflect.TypeOf(e.dhcp).Elem())
		reg.add(unsafe.Pointer(e.dhcp), "dhcp4_spoofer.Handler")
	}
	if e.dns != nil {
		lay["dns_naming.DNSHandler"] = layoutOf(reflect.TypeOf(e.dns).Elem())
		reg.add(unsafe.Pointer(e.dns), "dns_naming.DNSHandler")
	}
	b, _ := json.Marshal(lay)
	fmt.Fprintf(os.Stderr, "\nCONC-LAYOUT %s\n", b)
	reg.mu.Lock()
	objs := make([]objRec, 0, len(reg.objs))
	for p, t := range reg.objs {
		objs = append(objs, objRec{Base: uint64(p), Type: t})
	}
	reg.mu.Unlock()
	b, _ = json.Marshal(objs)
	fmt.Fprintf(os.Stderr, "CONC-OBJECTS %s\n", b)
}
