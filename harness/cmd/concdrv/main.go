// concdrv exercises the concurrency pattern of C09 on the real code, built with -race.
//
//	concdrv -mode stress -seed N [-ms 300] [-mix k] [-procs P]      (B) seeded multi-core stress
//	concdrv -mode replay -schedule file                              (A) schedule replay through packet.VerifGate
//	concdrv -mode gates                                              report whether the tree carries the gate calls
//
// One run = one process: the parent (checks/c09.py) collects the race detector's reports from
// stderr, the goroutine dump on a watchdog expiry, and the JSON summary on the last stdout line.
package main

import (
	"encoding/json"
	"flag"
	"fmt"
	"math/rand"
	"net"
	"net/netip"
	"os"
	"runtime"
	"runtime/debug"
	"strconv"
	"strings"
	"sync"
	"sync/atomic"
	"time"

	"github.com/irai/packet"
	"github.com/irai/packet/handlers/arp_spoofer"
	"github.com/irai/packet/handlers/dhcp4_spoofer"
	"github.com/irai/packet/handlers/dns_naming"
	"github.com/irai/packet/handlers/icmp_spoofer"
	"verifharness/vh"
)

type panicRec struct {
	Where string `json:"where"`
	Msg   string `json:"msg"`
	Top   string `json:"top"`
}

type snapshot struct {
	Phase int        `json:"phase"`
	Hosts []vh.HostP `json:"hosts"`
	Macs  []vh.MacP  `json:"macs"`
}

type result struct {
	Mode      string                 `json:"mode"`
	Seed      int64                  `json:"seed"`
	Mix       int                    `json:"mix"`
	Procs     int                    `json:"procs"`
	Frames    int64                  `json:"frames"`
	Ops       map[string]int64       `json:"ops"`
	Panics    []panicRec             `json:"panics"`
	Snapshots []snapshot             `json:"snapshots"`
	Alive     []string               `json:"alive"`
	Deadlock  string                 `json:"deadlock"`
	Notes     int64                  `json:"notes"`
	Written   int64                  `json:"written"`
	Replay    map[string]interface{} `json:"replay,omitempty"`
}

type env struct {
	u    *vh.Universe
	s    *packet.Session
	conn *vh.FeedConn
	arp  *arp_spoofer.Handler
	h6   *icmp_spoofer.Handler6
	dhcp *dhcp4_spoofer.Handler
	dns  *dns_naming.DNSHandler
	dir  string

	mu        sync.Mutex
	res       result
	processed int64
	notes     int64
	stdout    *os.File
}

var sinkv uint64

//go:noinline
func sinkB(b bool) {
	if b {
		atomic.AddUint64(&sinkv, 1)
	}
}

//go:noinline
func sinkT(t time.Time) { atomic.AddUint64(&sinkv, uint64(t.Nanosecond()&1)) }

//go:noinline
func sinkA(a netip.Addr) { atomic.AddUint64(&sinkv, uint64(a.BitLen()&1)) }

//go:noinline
func sinkS(s string) { atomic.AddUint64(&sinkv, uint64(len(s)&1)) }

//go:noinline
func sinkI(i int) { atomic.AddUint64(&sinkv, uint64(i&1)) }

func (e *env) guard(where string) {
	if r := recover(); r != nil {
		st := string(debug.Stack())
		top := ""
		for _, ln := range strings.Split(st, "\n") {
			if strings.HasPrefix(ln, "github.com/irai/packet") {
				top = shortFunc(strings.TrimSpace(ln))
				break
			}
		}
		e.mu.Lock()
		if len(e.res.Panics) < 20 {
			e.res.Panics = append(e.res.Panics, panicRec{Where: where, Msg: fmt.Sprint(r), Top: top})
		}
		e.mu.Unlock()
	}
}

func shortFunc(s string) string {
	if i := strings.LastIndex(s, "("); i > 0 && strings.HasSuffix(s, ")") {
		s = s[:i]
	}
	s = strings.TrimPrefix(s, "github.com/irai/packet/handlers/")
	s = strings.TrimPrefix(s, "github.com/irai/packet.")
	s = strings.ReplaceAll(s, "(*", "")
	s = strings.ReplaceAll(s, ")", "")
	return s
}

func (e *env) count(op string) {
	e.mu.Lock()
	e.res.Ops[op]++
	e.mu.Unlock()
}

func newEnv(seed int64) (*env, error) {
	e := &env{}
	e.res.Ops = map[string]int64{}
	e.res.Panics, e.res.Snapshots, e.res.Alive = []panicRec{}, []snapshot{}, []string{}
	e.u = &vh.Universe{Cfg: vh.Configs[int(seed)%2*2]} // lan24 or lan16 (room for 6 LAN addresses)
	e.conn = vh.NewFeedConn(64)
	s, err := packet.Config{Conn: e.conn, NICInfo: e.u.NICInfo(), ProbeDeadline: time.Minute,
		OfflineDeadline: 2 * time.Minute, PurgeDeadline: 4 * time.Minute}.NewSession("")
	if err != nil {
		return nil, err
	}
	e.s = s
	if e.arp, err = arp_spoofer.New(s); err != nil {
		return nil, err
	}
	if e.h6, err = icmp_spoofer.New6(s); err != nil {
		return nil, err
	}
	e.dir, err = os.MkdirTemp(os.Getenv("VERIF_TMP"), "concdrv-") // lease file of the DHCP handler
	if err != nil {
		return nil, err
	}
	nf := netip.PrefixFrom(e.u.Cfg.HostIP, 25)
	if e.u.Cfg.HomeLAN.Bits() > 25 {
		nf = netip.PrefixFrom(e.u.Cfg.HostIP, e.u.Cfg.HomeLAN.Bits()+1)
	}
	e.dhcp, err = dhcp4_spoofer.Config{Mode: dhcp4_spoofer.ModeSecondaryServerNice, NetfilterIP: nf,
		DNSServer: e.u.Cfg.RouterIP, LeaseFilename: e.dir + "/leases.yaml"}.New(s)
	if err != nil {
		return nil, err
	}
	e.dns = dns_naming.VerifNew(s)
	return e, nil
}

// ---------------------------------------------------------------------------------------------
// the application's packet loop: ReadFrom -> Parse -> handler -> Notify

func (e *env) packetLoop(done chan struct{}) {
	defer close(done)
	buf := make([]byte, packet.EthMaxSize)
	for {
		n, _, err := e.s.ReadFrom(buf)
		if err != nil {
			return
		}
		e.one(buf[:n])
		atomic.AddInt64(&e.processed, 1)
	}
}

func (e *env) one(b []byte) {
	defer e.guard("loop")
	frame, err := e.s.Parse(b)
	if err != nil {
		return
	}
	switch frame.PayloadID {
	case packet.PayloadARP:
		e.arp.ProcessPacket(frame)
	case packet.PayloadICMP6:
		e.h6.ProcessPacket(frame)
	case packet.PayloadDHCP4:
		e.dhcp.ProcessPacket(frame)
	case packet.PayloadMDNS, packet.PayloadLLMNR:
		v4, v6, _ := e.dns.ProcessMDNS(frame)
		for _, x := range v4 {
			if h := e.s.FindIP(x.Addr.IP); h != nil {
				h.UpdateMDNSName(x.NameEntry)
			}
		}
		for _, x := range v6 {
			if h := e.s.FindIP(x.Addr.IP); h != nil {
				h.UpdateMDNSName(x.NameEntry)
			}
		}
	}
	e.s.Notify(frame)
}

// ---------------------------------------------------------------------------------------------
// traffic

const nMAC, nLAN, nLLA, nGUA = 4, 5, 3, 2

func (e *env) mac(k int) net.HardwareAddr { return e.u.MAC("m" + strconv.Itoa(k)) }
func (e *env) lan(k int) netip.Addr       { return e.u.IP("a" + strconv.Itoa(k)) }
func (e *env) lla(k int) netip.Addr       { return e.u.IP("l" + strconv.Itoa(k)) }
func (e *env) gua(k int) netip.Addr       { return e.u.IP("g" + strconv.Itoa(k)) }

func (e *env) frame(rng *rand.Rand) []byte {
	u := e.u
	k := 1 + rng.Intn(nMAC)
	m := e.mac(k)
	a := e.lan(1 + rng.Intn(nLAN))
	if rng.Intn(3) > 0 {
		a = e.lan(k) // mostly a stable binding, sometimes another address (IP change / duplicate IP)
	}
	switch x := rng.Intn(100); {
	case x < 30:
		return vh.FrameIP4UDP(m, vh.RouterMAC, a, u.Cfg.RouterIP, 40000, 123, []byte("payload"))
	case x < 42:
		op := uint16(1 + rng.Intn(2))
		tpa := u.Cfg.RouterIP
		switch rng.Intn(4) {
		case 0:
			tpa = a // announcement
		case 1:
			return vh.FrameARP(m, vh.Bcast, 1, m, netip.IPv4Unspecified(), vh.ZeroMAC, a) // probe
		}
		return vh.FrameARP(m, vh.Bcast, op, m, a, vh.ZeroMAC, tpa)
	case x < 55:
		l := e.lla(1 + (k-1)%nLLA)
		return vh.FrameIP6UDP(m, vh.AllNodesM6, l, vh.AllNodes6, 5353, 9999, []byte("x"))
	case x < 60:
		g := e.gua(1 + (k-1)%nGUA)
		return vh.FrameIP6UDP(m, vh.RouterMAC, g, e.gua(2), 40000, 443, []byte("x"))
	case x < 70: // router advertisement from the router's LLA
		rl := netip.MustParseAddr("fe80::1")
		body := vh.RouterAdvertisement(vh.RouterMAC, netip.MustParseAddr("2001:db8::"), 1800)
		return vh.Ether(vh.AllNodesM6, vh.RouterMAC, 0x86dd, vh.IP6(rl, vh.AllNodes6, 58, 255, vh.ICMP6(rl, vh.AllNodes6, 134, 0, body)))
	case x < 76:
		l := e.lla(1 + (k-1)%nLLA)
		body := vh.NeighborSolicitation(e.lla(1+rng.Intn(nLLA)), m)
		return vh.Ether(vh.AllNodesM6, m, 0x86dd, vh.IP6(l, vh.AllNodes6, 58, 255, vh.ICMP6(l, vh.AllNodes6, 135, 0, body)))
	case x < 82:
		l := e.lla(1 + (k-1)%nLLA)
		body := vh.NeighborAdvertisement(l, m, 0x20)
		return vh.Ether(vh.AllNodesM6, m, 0x86dd, vh.IP6(l, vh.AllNodes6, 58, 255, vh.ICMP6(l, vh.AllNodes6, 136, 0, body)))
	case x < 90: // DHCP discover / request
		typ := byte(1)
		opts := []vh.DHCP4Opt{{Code: 53, Data: []byte{typ}}, {Code: 61, Data: append([]byte{1}, m...)}, {Code: 12, Data: []byte("host" + strconv.Itoa(k))}}
		if rng.Intn(2) == 0 {
			r := a.As4()
			opts = []vh.DHCP4Opt{{Code: 53, Data: []byte{3}}, {Code: 61, Data: append([]byte{1}, m...)}, {Code: 50, Data: r[:]},
				{Code: 12, Data: []byte("host" + strconv.Itoa(k))}}
		}
		msg := vh.DHCP4(1, uint32(1000+k), 0, netip.Addr{}, netip.Addr{}, netip.Addr{}, netip.Addr{}, m, opts)
		return vh.FrameIP4UDP(m, vh.Bcast, netip.IPv4Unspecified(), netip.MustParseAddr("255.255.255.255"), 68, 67, msg)
	case x < 91: // a DHCP server message addressed to the server port (an OFFER relayed / reflected to port 67)
		y := a.As4()
		opts := []vh.DHCP4Opt{{Code: 53, Data: []byte{byte(2 + 3*rng.Intn(2))}}, {Code: 54, Data: y[:]}}
		msg := vh.DHCP4(2, uint32(2000+k), 0, netip.Addr{}, a, u.Cfg.RouterIP, netip.Addr{}, m, opts)
		return vh.FrameIP4UDP(vh.RouterMAC, vh.Bcast, u.Cfg.RouterIP, netip.MustParseAddr("255.255.255.255"), 68, 67, msg)
	case x < 96: // mDNS response naming the sender
		p := vh.MDNSResponse(0, "dev"+strconv.Itoa(k), a)
		return vh.FrameIP4UDP(m, net.HardwareAddr{0x01, 0, 0x5e, 0, 0, 0xfb}, a, netip.MustParseAddr("224.0.0.251"), 5353, 5353, p)
	default: // echo from the router (keeps the router entry fresh)
		return vh.Ether(vh.OwnMAC, vh.RouterMAC, 0x0800, vh.IP4(u.Cfg.RouterIP, u.Cfg.HostIP, 1, 64, 7, vh.ICMP4(8, 0, vh.Echo(9, 1, []byte("ping")))))
	}
}

func perturb(rng *rand.Rand) {
	switch rng.Intn(8) {
	case 0, 1:
		runtime.Gosched()
	case 2:
		time.Sleep(time.Duration(rng.Intn(200)) * time.Microsecond)
	}
}

// ---------------------------------------------------------------------------------------------
// API callers.  Fields of returned entries are read under the row lock, as hosttable.go:22-24 demands.

//go:noinline
func readHost(h *packet.Host) {
	h.MACEntry.Row.RLock()
	sinkB(h.Online)
	sinkT(h.LastSeen)
	sinkA(h.Addr.IP)
	sinkI(int(h.HuntStage))
	sinkS(h.DHCP4Name.Name)
	sinkS(h.MDNSName.Name)
	sinkB(h.Dirty())
	h.MACEntry.Row.RUnlock()
}

//go:noinline
func readMAC(m *packet.MACEntry) {
	m.Row.RLock()
	sinkB(m.Online)
	sinkB(m.Captured)
	sinkA(m.IP4)
	sinkA(m.IP4Offer)
	sinkA(m.IP6LLA)
	sinkA(m.IP6GUA)
	sinkT(m.LastSeen)
	sinkS(m.DHCP4Name.Name)
	sinkI(len(m.HostList))
	m.Row.RUnlock()
}

//go:noinline
func (e *env) apiFindIP(rng *rand.Rand) {
	if h := e.s.FindIP(e.lan(1 + rng.Intn(nLAN))); h != nil {
		readHost(h)
	}
	if h := e.s.FindIP(e.lla(1 + rng.Intn(nLLA))); h != nil {
		readHost(h)
	}
}

//go:noinline
func (e *env) apiGetHosts(rng *rand.Rand) {
	for _, h := range e.s.GetHosts() {
		readHost(h)
	}
}

//go:noinline
func (e *env) apiIPAddrs(rng *rand.Rand) {
	for _, a := range e.s.IPAddrs(e.mac(1 + rng.Intn(nMAC))) {
		sinkA(a.IP)
	}
}

//go:noinline
func (e *env) apiFindByMAC(rng *rand.Rand) {
	for _, a := range e.s.FindByMAC(e.mac(1 + rng.Intn(nMAC))) {
		sinkA(a.IP)
	}
}

//go:noinline
func (e *env) apiFindMACEntry(rng *rand.Rand) {
	if m := e.s.FindMACEntry(e.mac(1 + rng.Intn(nMAC))); m != nil {
		readMAC(m)
	}
}

//go:noinline
func (e *env) apiPrintTable(rng *rand.Rand) { e.s.PrintTable() }

//go:noinline
func (e *env) apiCapture(rng *rand.Rand) {
	k := 1 + rng.Intn(nMAC)
	e.s.Capture(e.mac(k))
	if k == 1 { // the refused branch (ErrIsRouter) takes and must release the session lock like the others (seeded C09-r1)
		e.s.Capture(e.u.MAC("router"))
	}
}

//go:noinline
func (e *env) apiRelease(rng *rand.Rand) { e.s.Release(e.mac(1 + rng.Intn(nMAC))) }

//go:noinline
func (e *env) apiIsCaptured(rng *rand.Rand) { sinkB(e.s.IsCaptured(e.mac(1 + rng.Intn(nMAC)))) }

//go:noinline
func (e *env) apiDHCPOffer(rng *rand.Rand) { sinkA(e.s.DHCPv4IPOffer(e.mac(1 + rng.Intn(nMAC)))) }

//go:noinline
func (e *env) apiSetDHCPOffer(rng *rand.Rand) {
	k := 1 + rng.Intn(nMAC)
	e.s.SetDHCPv4IPOffer(e.mac(k), e.lan(k), packet.NameEntry{Type: "dhcp", Name: "host" + strconv.Itoa(k)})
}

//go:noinline
func (e *env) apiArpStart(rng *rand.Rand) {
	k := 1 + rng.Intn(nMAC)
	e.arp.StartHunt(packet.Addr{MAC: e.mac(k), IP: e.lan(k)})
}

//go:noinline
func (e *env) apiArpStop(rng *rand.Rand) {
	k := 1 + rng.Intn(nMAC)
	e.arp.StopHunt(packet.Addr{MAC: e.mac(k), IP: e.lan(k)})
}

//go:noinline
func (e *env) apiArpIsHunting(rng *rand.Rand) { sinkB(e.arp.IsHunting(e.lan(1 + rng.Intn(nMAC)))) }

//go:noinline
func (e *env) apiNdpStart(rng *rand.Rand) {
	k := 1 + rng.Intn(nMAC)
	e.h6.StartHunt(packet.Addr{MAC: e.mac(k), IP: e.lla(1 + (k-1)%nLLA)})
}

//go:noinline
func (e *env) apiNdpStop(rng *rand.Rand) {
	k := 1 + rng.Intn(nMAC)
	e.h6.StopHunt(packet.Addr{MAC: e.mac(k), IP: e.lla(1 + (k-1)%nLLA)})
}

//go:noinline
func (e *env) apiDhcpStart(rng *rand.Rand) {
	k := 1 + rng.Intn(nMAC)
	e.dhcp.StartHunt(packet.Addr{MAC: e.mac(k), IP: e.lan(k)})
}

//go:noinline
func (e *env) apiDhcpStop(rng *rand.Rand) {
	k := 1 + rng.Intn(nMAC)
	e.dhcp.StopHunt(packet.Addr{MAC: e.mac(k), IP: e.lan(k)})
}

//go:noinline
func (e *env) apiDhcpMinute(rng *rand.Rand) {
	e.dhcp.MinuteTicker(time.Now().Add(time.Duration(rng.Intn(300)) * time.Minute))
}

type apiOp struct {
	name string
	f    func(*rand.Rand)
}

func (e *env) opsQuery() []apiOp {
	return []apiOp{{"FindIP", e.apiFindIP}, {"GetHosts", e.apiGetHosts}, {"IPAddrs", e.apiIPAddrs}, {"FindByMAC", e.apiFindByMAC},
		{"FindMACEntry", e.apiFindMACEntry}, {"PrintTable", e.apiPrintTable}, {"IsCaptured", e.apiIsCaptured}, {"DHCPv4IPOffer", e.apiDHCPOffer}}
}
func (e *env) opsControl() []apiOp {
	return []apiOp{{"Capture", e.apiCapture}, {"Release", e.apiRelease}, {"SetDHCPv4IPOffer", e.apiSetDHCPOffer}, {"IsCaptured", e.apiIsCaptured},
		{"FindMACEntry", e.apiFindMACEntry}, {"DHCPv4IPOffer", e.apiDHCPOffer}}
}
func (e *env) opsHunt() []apiOp {
	return []apiOp{{"arp.StartHunt", e.apiArpStart}, {"arp.StopHunt", e.apiArpStop}, {"arp.IsHunting", e.apiArpIsHunting},
		{"ndp.StartHunt", e.apiNdpStart}, {"ndp.StopHunt", e.apiNdpStop}, {"dhcp.StartHunt", e.apiDhcpStart}, {"dhcp.StopHunt", e.apiDhcpStop},
		{"dhcp.MinuteTicker", e.apiDhcpMinute}, {"FindIP", e.apiFindIP}}
}

func (e *env) caller(name string, seed int64, ops []apiOp, stop *int32, wg *sync.WaitGroup) {
	defer wg.Done()
	rng := rand.New(rand.NewSource(seed))
	for atomic.LoadInt32(stop) == 0 {
		op := ops[rng.Intn(len(ops))]
		func() {
			defer e.guard(name + ":" + op.name)
			op.f(rng)
		}()
		e.count(op.name)
		perturb(rng)
	}
}

func (e *env) purger(seed int64, stop *int32, wg *sync.WaitGroup) {
	defer wg.Done()
	rng := rand.New(rand.NewSource(seed))
	offs := []time.Duration{0, 70 * time.Second, 130 * time.Second, 250 * time.Second, 10 * time.Minute}
	for atomic.LoadInt32(stop) == 0 {
		func() {
			defer e.guard("purge")
			e.s.VerifPurge(time.Now().Add(offs[rng.Intn(len(offs))]))
		}()
		e.count("purge")
		perturb(rng)
		time.Sleep(time.Duration(rng.Intn(300)) * time.Microsecond)
	}
}

func (e *env) feeder(seed int64, stop *int32, wg *sync.WaitGroup) {
	defer wg.Done()
	rng := rand.New(rand.NewSource(seed))
	for atomic.LoadInt32(stop) == 0 {
		if !e.conn.Push(e.frame(rng)) {
			return
		}
		atomic.AddInt64(&e.res.Frames, 1)
		perturb(rng)
	}
}

// quiesce waits until the packet loop has consumed everything and returns the projected tables.
func (e *env) quiesce(phase int) bool {
	deadline := time.Now().Add(8 * time.Second)
	for !(e.conn.Idle() && atomic.LoadInt64(&e.processed) == atomic.LoadInt64(&e.conn.Taken)) {
		if time.Now().After(deadline) {
			return false
		}
		time.Sleep(200 * time.Microsecond)
	}
	time.Sleep(3 * time.Millisecond) // probe goroutines started by purge
	func() {
		defer e.guard("quiescent:PrintTable")
		e.s.PrintTable() // built-in self check
	}()
	hosts, macs := vh.ProjectTables(e.u, e.s)
	for i := range hosts {
		hosts[i].Seen = 0
		hosts[i].Names = nil
	}
	for i := range macs {
		macs[i].Names = nil
	}
	e.res.Snapshots = append(e.res.Snapshots, snapshot{Phase: phase, Hosts: hosts, Macs: macs})
	return true
}

// census lists functions of the library that still run in some goroutine.
func census() []string {
	buf := make([]byte, 1<<20)
	n := runtime.Stack(buf, true)
	out := []string{}
	for _, g := range strings.Split(string(buf[:n]), "\n\n") {
		if strings.Contains(g, "main.census") {
			continue
		}
		lines := strings.Split(g, "\n")
		for i := len(lines) - 1; i >= 0; i-- {
			ln := strings.TrimSpace(lines[i])
			if strings.HasPrefix(ln, "created by github.com/irai/packet") {
				f := strings.TrimPrefix(ln, "created by ")
				if j := strings.Index(f, " in goroutine"); j > 0 {
					f = f[:j]
				}
				out = append(out, shortFunc(f))
				break
			}
		}
	}
	return out
}

var dumpExtra func() string

func dumpAndExit(why string) {
	if dumpExtra != nil {
		fmt.Fprintf(os.Stderr, "\nCONC-PANICS %s\n", dumpExtra())
	}
	buf := make([]byte, 4<<20)
	n := runtime.Stack(buf, true)
	fmt.Fprintf(os.Stderr, "\nCONC-DEADLOCK %s\n%s\nCONC-DEADLOCK-END\n", why, buf[:n])
	os.Exit(3)
}

func stress(seed int64, ms, mix, procs int, stdout *os.File) {
	runtime.GOMAXPROCS(procs)
	e, err := newEnv(seed)
	if err != nil {
		fmt.Fprintln(os.Stderr, "setup:", err)
		os.Exit(2)
	}
	defer os.RemoveAll(e.dir)
	e.res.Mode, e.res.Seed, e.res.Mix, e.res.Procs = "stress", seed, mix, procs
	dumpExtra = func() string {
		e.dumpObjects()
		e.mu.Lock()
		defer e.mu.Unlock()
		b, _ := json.Marshal(e.res.Panics)
		return string(b)
	}
	loopDone := make(chan struct{})
	go e.packetLoop(loopDone)
	notesDone := make(chan struct{})
	go func() {
		defer close(notesDone)
		for range e.s.C {
			atomic.AddInt64(&e.notes, 1)
		}
	}()
	watchdog := time.AfterFunc(time.Duration(ms)*time.Millisecond*4+20*time.Second, func() { dumpAndExit("watchdog") })
	for phase := 0; phase < 2; phase++ {
		var stop int32
		var wg sync.WaitGroup
		start := func(f func()) { wg.Add(1); go f() }
		base := seed*1000 + int64(phase)*100
		start(func() { e.feeder(base+1, &stop, &wg) })
		start(func() { e.purger(base+2, &stop, &wg) })
		start(func() { e.caller("api1", base+3, e.opsQuery(), &stop, &wg) })
		start(func() { e.sampler(&stop, &wg) })
		switch mix % 4 {
		case 0:
			start(func() { e.caller("api2", base+4, e.opsQuery(), &stop, &wg) })
		case 1:
			start(func() { e.caller("ctl", base+4, e.opsControl(), &stop, &wg) })
		case 2:
			start(func() { e.caller("hunt", base+4, e.opsHunt(), &stop, &wg) })
		case 3:
			start(func() { e.caller("ctl", base+4, e.opsControl(), &stop, &wg) })
			start(func() { e.caller("hunt", base+5, e.opsHunt(), &stop, &wg) })
			start(func() { e.caller("hunt2", base+7, e.opsHunt(), &stop, &wg) })
			start(func() { e.caller("api2", base+6, e.opsQuery(), &stop, &wg) })
		}
		time.Sleep(time.Duration(ms/2) * time.Millisecond)
		atomic.StoreInt32(&stop, 1)
		wg.Wait()
		if !e.quiesce(phase) {
			dumpAndExit("no quiescence")
		}
	}
	// Close.  Odd mixes: the handlers and the session are closed while traffic, purge and API callers
	// are still running (Close is part of the API the statement lists); even mixes: after quiescence,
	// with only the packet loop blocked in ReadFrom.
	if mix%2 == 1 {
		var stop int32
		var wg sync.WaitGroup
		base := seed*1000 + 900
		wg.Add(4)
		go e.sampler(&stop, &wg)
		go e.feeder(base+1, &stop, &wg)
		go e.purger(base+2, &stop, &wg)
		go e.caller("api1", base+3, e.opsQuery(), &stop, &wg)
		if mix%4 == 3 {
			wg.Add(1)
			go e.caller("hunt", base+4, e.opsHunt(), &stop, &wg)
		}
		time.Sleep(time.Duration(20+seed%30) * time.Millisecond)
		closed := make(chan struct{})
		go func() {
			defer close(closed)
			defer e.guard("close")
			e.arp.Close()
			e.h6.Close()
			time.Sleep(time.Duration(seed%20) * time.Millisecond)
			e.dhcp.Close()
			e.s.Close()
		}()
		time.Sleep(60 * time.Millisecond)
		atomic.StoreInt32(&stop, 1)
		wg.Wait()
		<-closed
	} else {
		func() {
			defer e.guard("close")
			e.arp.Close()
			e.h6.Close()
			e.dhcp.Close()
			e.s.Close()
		}()
	}
	select {
	case <-loopDone:
	case <-time.After(3 * time.Second):
		dumpAndExit("packet loop did not end after Close")
	}
	// Close slept 1 s already; give the goroutines of the library up to 1.5 s more of a loaded machine
	time.Sleep(300 * time.Millisecond)
	for i := 0; i < 12 && len(census()) > 0; i++ {
		time.Sleep(100 * time.Millisecond)
	}
	e.res.Alive = census()
	watchdog.Stop()
	e.dumpObjects()
	e.res.Notes = atomic.LoadInt64(&e.notes)
	e.res.Written = atomic.LoadInt64(&e.conn.Written)
	out, _ := json.Marshal(e.res)
	fmt.Fprintln(stdout, string(out))
}

func main() {
	mode := flag.String("mode", "stress", "stress | replay | gates | minute")
	seed := flag.Int64("seed", 1, "seed")
	ms := flag.Int("ms", 300, "stress duration in ms")
	mix := flag.Int("mix", 0, "goroutine mix")
	procs := flag.Int("procs", 4, "GOMAXPROCS")
	sched := flag.String("schedule", "", "schedule file (replay)")
	flag.Parse()
	vh.Quiet()
	realStdout := os.Stdout
	if null, err := os.OpenFile(os.DevNull, os.O_WRONLY, 0); err == nil {
		os.Stdout = null
	}
	switch *mode {
	case "stress":
		stress(*seed, *ms, *mix, *procs, realStdout)
	case "replay":
		replay(*sched, realStdout)
	case "minute":
		minuteScenario(realStdout)
	case "gates":
		fmt.Fprintln(realStdout, gatesReport())
	default:
		os.Exit(2)
	}
}
