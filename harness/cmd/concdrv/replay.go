package main

// Schedule replay (direction A of C09): every behaviour of the gate-granular instance of spec/ConcMC.tla
// is a list of commands "run process p until gate g / until its call returns".  The gates are the
// packet.VerifGate calls of hooks/packet_gates.patch.  The goroutines are held and released through
// plain memory flags read and written by //go:norace functions, so that the replayer itself adds no
// happens-before edge between them: the race detector still sees the unsynchronised accesses of the
// library although the replayer executes them far apart in time.

import (
	"bufio"
	"encoding/json"
	"fmt"
	"net/netip"
	"os"
	"sort"
	"strconv"
	"time"

	"github.com/irai/packet"
	"verifharness/vh"
)

type sstep struct {
	P     string `json:"p"`
	Until string `json:"until"`
	Op    string `json:"op"`
	Mac   int    `json:"mac"`
	IP    int    `json:"ip"`
}

type initHost struct {
	Mac    int  `json:"mac"`
	IP     int  `json:"ip"`
	Online bool `json:"online"`
	Seen   int  `json:"seen"`
}

type absHost struct {
	IP     int  `json:"ip"`
	Mac    int  `json:"mac"`
	Online bool `json:"online"`
	Dirty  bool `json:"dirty"`
}
type absMac struct {
	Mac      int   `json:"mac"`
	Online   bool  `json:"online"`
	IP4      int   `json:"ip4"`
	Captured bool  `json:"captured"`
	Offer    int   `json:"offer"`
	List     []int `json:"list"`
}
type absState struct {
	Hosts []absHost `json:"hosts"`
	Macs  []absMac  `json:"macs"`
}

type schedule struct {
	ID       int        `json:"id"`
	Scenario string     `json:"scenario"`
	Init     []initHost `json:"init"`
	Frames   []struct {
		Mac int `json:"mac"`
		IP  int `json:"ip"`
	} `json:"frames"`
	Sched    []sstep  `json:"sched"`
	Final    absState `json:"final"`
	StaleDel bool     `json:"staleDel"`
	Qbad     int      `json:"qbad"`
}

type replayResult struct {
	ID        int        `json:"id"`
	Pass      string     `json:"pass"`
	Diverged  string     `json:"diverged"`
	Stuck     string     `json:"stuck"`
	Final     absState   `json:"final"`
	C05       []string   `json:"c05"`      // C05 failures at quiescent points: "<index>:<what>"
	StaleDel  bool       `json:"staleDel"` // a host refreshed by the loop after purge's scan was deleted
	Panics    []panicRec `json:"panics"`
	SelfCheck string     `json:"selfcheck"`
}

// ---- flags without happens-before ----------------------------------------------------------

const maxRoles = 8

type flags struct {
	cmd      [maxRoles]int32 // controller -> worker: command sequence number
	arg      [maxRoles]int32
	done     [maxRoles]int32 // worker -> controller: commands completed
	arrived  [maxRoles]int32 // worker -> controller: gate hits
	gate     [maxRoles]int32 // which gate (index into gateNames)
	released [maxRoles]int32 // controller -> worker: gate hits released
}

//go:norace
func ld(p *int32) int32 { return *p }

//go:norace
func st(p *int32, v int32) { *p = v }

//go:norace
func (f *flags) hit(role int, g int32) {
	f.gate[role] = g
	f.arrived[role]++
	for f.released[role] < f.arrived[role] {
		time.Sleep(20 * time.Microsecond)
	}
}

var gateNames = []string{"foc.upgrade", "ot.mid", "notify.write", "purge.delete", "purge.offline"}

// the first four are required for schedule replay; purge.offline (hooks/packet_gates-2.patch) is optional
const baseGates = 4

func gateIndex(name string) int32 {
	for i, g := range gateNames {
		if g == name {
			return int32(i)
		}
	}
	return -1
}

const (
	roleLoop  = 0
	rolePurge = 1
	roleAPI   = 2 // api1 = 2, api2 = 3
	cmdSync   = -1
	cmdQuit   = -2
)

type replayer struct {
	e      *env
	f      *flags
	sc     *schedule
	frames [][]byte
	syncCh chan int
	ackCh  chan int
	role   map[string]int
	parked [maxRoles]bool
	res    *replayResult
	rs     bool // state pass: handshakes at quiescent points
}

// goroutine identity for the gate hook: the gate name decides (purge.delete is only reached by the
// purge goroutine, the other three only by the packet loop in these schedules)
func (r *replayer) gateHook(name string) {
	g := gateIndex(name)
	if g < 0 {
		return
	}
	role := roleLoop
	if name == "purge.delete" || name == "purge.offline" {
		role = rolePurge
	}
	r.f.hit(role, g)
}

func (r *replayer) worker(role int, run func(arg int32)) {
	seen := int32(0)
	for {
		c := ld(&r.f.cmd[role])
		if c == seen {
			time.Sleep(20 * time.Microsecond)
			continue
		}
		seen = c
		a := ld(&r.f.arg[role])
		switch a {
		case cmdQuit:
			r.syncCh <- role
			return
		case cmdSync:
			r.syncCh <- role
			<-r.ackCh
		default:
			run(a)
		}
		st(&r.f.done[role], seen)
	}
}

func (r *replayer) apiRun(op string, mac, ip int) {
	e := r.e
	m := e.mac(mac)
	switch op {
	case "FindIP":
		if h := e.s.FindIP(e.lan(ip)); h != nil {
			readHost(h)
		}
	case "GetHosts":
		for _, h := range e.s.GetHosts() {
			readHost(h)
		}
	case "PrintTable":
		e.s.PrintTable()
	case "IPAddrs":
		for _, a := range e.s.IPAddrs(m) {
			sinkA(a.IP)
		}
	case "FindByMAC":
		for _, a := range e.s.FindByMAC(m) {
			sinkA(a.IP)
		}
	case "FindMACEntry":
		if x := e.s.FindMACEntry(m); x != nil {
			readMAC(x)
		}
	case "IsCaptured":
		sinkB(e.s.IsCaptured(m))
	case "DHCPv4IPOffer":
		sinkA(e.s.DHCPv4IPOffer(m))
	case "Capture":
		e.s.Capture(m)
	case "Release":
		e.s.Release(m)
	case "SetDHCPv4IPOffer":
		e.s.SetDHCPv4IPOffer(m, e.lan(ip), packet.NameEntry{})
	}
}

// abstract projects the real tables on the state of spec/Conc.tla (own and router entries left out).
func (r *replayer) abstract() absState {
	hosts, macs := vh.ProjectTables(r.e.u, r.e.s)
	out := absState{Hosts: []absHost{}, Macs: []absMac{}}
	num := func(s string) int {
		if len(s) >= 2 && (s[0] == 'a' || s[0] == 'm') {
			if k, err := strconv.Atoi(s[1:]); err == nil {
				return k
			}
		}
		if s == "noip" {
			return 0
		}
		return -1
	}
	for _, h := range hosts {
		if h.MAC == "own" || h.MAC == "router" {
			continue
		}
		out.Hosts = append(out.Hosts, absHost{IP: num(h.IP), Mac: num(h.MAC), Online: h.On, Dirty: h.Dirty})
	}
	for _, m := range macs {
		if m.MAC == "own" || m.MAC == "router" {
			continue
		}
		am := absMac{Mac: num(m.MAC), Online: m.On, IP4: num(m.IP4), Captured: m.Cap, Offer: num(m.Offer), List: []int{}}
		for _, x := range m.List {
			am.List = append(am.List, num(x))
		}
		out.Macs = append(out.Macs, am)
	}
	sort.Slice(out.Hosts, func(i, j int) bool { return out.Hosts[i].IP < out.Hosts[j].IP })
	sort.Slice(out.Macs, func(i, j int) bool { return out.Macs[i].Mac < out.Macs[j].Mac })
	return out
}

// c05 evaluates the C05 shape on an abstract state (the check re-validates the snapshots with TLC).
func c05(s absState) []string {
	bad := []string{}
	hostMac := map[int]int{}
	for _, h := range s.Hosts {
		hostMac[h.IP] = h.Mac
	}
	macOn := map[int]bool{}
	listed := map[int]int{}
	nlist := 0
	for _, m := range s.Macs {
		macOn[m.Mac] = m.Online
		for _, ip := range m.List {
			nlist++
			listed[ip]++
			if mm, ok := hostMac[ip]; !ok || mm != m.Mac {
				bad = append(bad, "ListBack")
			}
		}
	}
	for _, h := range s.Hosts {
		if listed[h.IP] != 1 {
			bad = append(bad, "OneMac")
		}
		if h.Online && !macOn[h.Mac] {
			bad = append(bad, "OnlineImpliesMacOnline")
		}
	}
	if nlist != len(s.Hosts) {
		bad = append(bad, "Count")
	}
	return bad
}

func (r *replayer) quiescentCheck(idx int) {
	// real synchronisation with every worker (all of them are between two calls)
	n := 0
	for role := range r.role2name() {
		st(&r.f.arg[role], cmdSync)
		st(&r.f.cmd[role], ld(&r.f.cmd[role])+1)
		n++
	}
	for i := 0; i < n; i++ {
		<-r.syncCh
	}
	func() {
		defer r.guard("quiescent:PrintTable")
		r.e.s.PrintTable()
	}()
	for _, b := range c05(r.abstract()) {
		r.res.C05 = append(r.res.C05, fmt.Sprintf("%d:%s", idx, b))
	}
	for i := 0; i < n; i++ {
		r.ackCh <- 1
	}
	for role := range r.role2name() {
		r.waitDone(role)
	}
}

func (r *replayer) role2name() map[int]string {
	out := map[int]string{}
	for n, k := range r.role {
		out[k] = n
	}
	return out
}

func (r *replayer) guard(where string) {
	if x := recover(); x != nil {
		r.res.Panics = append(r.res.Panics, panicRec{Where: where, Msg: fmt.Sprint(x)})
	}
}

func (r *replayer) waitDone(role int) bool {
	deadline := time.Now().Add(3 * time.Second)
	for ld(&r.f.done[role]) != ld(&r.f.cmd[role]) {
		if time.Now().After(deadline) {
			return false
		}
		time.Sleep(20 * time.Microsecond)
	}
	return true
}

// run executes one step: returns "" or a divergence / stuck description.
func (r *replayer) step(i int, s sstep, nextFrame *int) (string, string) {
	role, ok := r.role[s.P]
	if !ok {
		return "unknown process " + s.P, ""
	}
	f := r.f
	if r.parked[role] {
		r.parked[role] = false
		st(&f.released[role], ld(&f.arrived[role]))
	} else {
		switch {
		case role == roleLoop:
			if *nextFrame >= len(r.frames) {
				return "no frame left", ""
			}
			st(&f.arg[role], int32(*nextFrame))
			*nextFrame++
		case role == rolePurge:
			st(&f.arg[role], 0)
		default:
			st(&f.arg[role], int32(i))
		}
		st(&f.cmd[role], ld(&f.cmd[role])+1)
	}
	deadline := time.Now().Add(3 * time.Second)
	for {
		if a := ld(&f.arrived[role]); a > ld(&f.released[role]) {
			g := gateNames[ld(&f.gate[role])]
			if g == s.Until {
				r.parked[role] = true
				return "", ""
			}
			st(&f.released[role], a) // a gate this schedule does not stop at
			continue
		}
		if ld(&f.done[role]) == ld(&f.cmd[role]) {
			if s.Until == "end" {
				return "", ""
			}
			return fmt.Sprintf("step %d: %s returned before reaching %s", i, s.P, s.Until), ""
		}
		if time.Now().After(deadline) {
			return "", fmt.Sprintf("step %d: %s neither reached %s nor returned", i, s.P, s.Until)
		}
		time.Sleep(20 * time.Microsecond)
	}
}

func (r *replayer) setup() error {
	e := r.e
	now := time.Now()
	parse := func(h initHost) {
		b := vh.FrameIP4UDP(e.mac(h.Mac), vh.RouterMAC, e.lan(h.IP), e.u.Cfg.RouterIP, 40000, 123, []byte("init"))
		fr, err := e.s.Parse(b)
		if err == nil {
			e.s.Notify(fr)
		}
	}
	hs := append([]initHost{}, r.sc.Init...)
	sort.SliceStable(hs, func(i, j int) bool {
		if hs[i].Online != hs[j].Online {
			return !hs[i].Online
		}
		return hs[i].IP < hs[j].IP
	})
	for _, h := range hs {
		parse(h)
	}
	// hosts that must be offline: age them past the offline deadline and let purge mark them
	for _, h := range hs {
		if !h.Online {
			if x := e.s.FindIP(e.lan(h.IP)); x != nil {
				x.LastSeen = now.Add(-3 * time.Minute)
			}
		}
	}
	e.s.VerifPurge(now)
	for _, h := range hs {
		if x := e.s.FindIP(e.lan(h.IP)); x != nil {
			if h.Seen == 0 {
				x.LastSeen = now.Add(-time.Hour)
			} else {
				x.LastSeen = now.Add(-5 * time.Minute)
			}
		}
	}
	for {
		select {
		case <-e.s.C:
			continue
		default:
		}
		break
	}
	time.Sleep(2 * time.Millisecond) // probe goroutine of the setup purge
	return nil
}

func runSchedule(sc *schedule, statePass bool) *replayResult {
	res := &replayResult{ID: sc.ID, Pass: "race", C05: []string{}, Panics: []panicRec{}}
	if statePass {
		res.Pass = "state"
	}
	e, err := newEnv(0)
	if err != nil {
		res.Stuck = "setup: " + err.Error()
		return res
	}
	defer os.RemoveAll(e.dir)
	r := &replayer{e: e, f: &flags{}, sc: sc, syncCh: make(chan int), ackCh: make(chan int), role: map[string]int{"loop": roleLoop, "purge": rolePurge}, res: res, rs: statePass}
	for _, s := range sc.Sched {
		if _, ok := r.role[s.P]; !ok {
			r.role[s.P] = roleAPI + len(r.role) - 2
		}
	}
	r.setup()
	for _, f := range sc.Frames {
		r.frames = append(r.frames, vh.FrameIP4UDP(e.mac(f.Mac), vh.RouterMAC, e.lan(f.IP), e.u.Cfg.RouterIP, 40000, 123, []byte("replay")))
	}
	packet.VerifGate = r.gateHook
	defer func() { packet.VerifGate = nil }()
	// notifications are drained by a consumer as in an application
	go func() {
		for range e.s.C {
		}
	}()
	go r.worker(roleLoop, func(a int32) {
		defer r.guard("loop")
		b := append([]byte{}, r.frames[a]...)
		if fr, err := e.s.Parse(b); err == nil {
			e.s.Notify(fr)
		}
	})
	go r.worker(rolePurge, func(a int32) {
		defer r.guard("purge")
		e.s.VerifPurge(time.Now())
	})
	for name, role := range r.role {
		if role >= roleAPI {
			name := name
			go r.worker(role, func(a int32) {
				defer r.guard(name)
				s := sc.Sched[a]
				r.apiRun(s.Op, s.Mac, s.IP)
			})
		}
	}
	nextFrame := 0
	// which addresses did the loop refresh after purge stopped at its delete gate?
	refreshed := map[int]bool{}
	purgeAtGate := false
	for i, s := range sc.Sched {
		if s.Until == "exit" {
			continue
		}
		if s.P == "loop" && !r.parked[roleLoop] && purgeAtGate && nextFrame < len(sc.Frames) {
			refreshed[sc.Frames[nextFrame].IP] = true
		}
		div, stuck := r.step(i, s, &nextFrame)
		if s.P == "purge" {
			purgeAtGate = (s.Until == "purge.delete" || s.Until == "purge.offline") && div == "" && stuck == "" // scan done, delete pending
		}
		if div != "" || stuck != "" {
			res.Diverged, res.Stuck = div, stuck
			break
		}
		if statePass {
			idle := true
			for role := range r.role2name() {
				if r.parked[role] || ld(&r.f.done[role]) != ld(&r.f.cmd[role]) {
					idle = false
				}
			}
			if idle {
				r.quiescentCheck(i + 1)
			}
		}
	}
	if res.Stuck != "" {
		dumpAndExit("schedule " + strconv.Itoa(sc.ID) + ": " + res.Stuck)
	}
	// let everything run to completion, then join with real synchronisation
	for role := range r.role2name() {
		if r.parked[role] {
			st(&r.f.released[role], 1<<30)
		}
	}
	for role := range r.role2name() {
		if !r.waitDone(role) {
			dumpAndExit("schedule " + strconv.Itoa(sc.ID) + ": worker did not finish")
		}
		st(&r.f.released[role], 1<<30)
		st(&r.f.arg[role], cmdQuit)
		st(&r.f.cmd[role], ld(&r.f.cmd[role])+1)
	}
	for range r.role {
		<-r.syncCh
	}
	time.Sleep(2 * time.Millisecond)
	func() {
		defer r.guard("final:PrintTable")
		e.s.PrintTable()
	}()
	e.sample()
	e.dumpObjects()
	res.Final = r.abstract()
	for _, b := range c05(res.Final) {
		res.C05 = append(res.C05, fmt.Sprintf("%d:%s", len(sc.Sched), b))
	}
	for ip := range refreshed {
		found := false
		for _, h := range res.Final.Hosts {
			if h.IP == ip {
				found = true
			}
		}
		if !found {
			res.StaleDel = true
		}
	}
	go func() {
		e.arp.Close()
		e.h6.Close()
		e.dhcp.Close()
		e.s.Close()
	}()
	return res
}

func replay(path string, stdout *os.File) {
	f, err := os.Open(path)
	if err != nil {
		fmt.Fprintln(os.Stderr, err)
		os.Exit(2)
	}
	if !gatesPresent() {
		fmt.Fprintln(stdout, `{"gates":false}`)
		return
	}
	sc := bufio.NewScanner(f)
	sc.Buffer(make([]byte, 1<<20), 1<<24)
	out := bufio.NewWriter(stdout)
	defer out.Flush()
	n := 0
	for sc.Scan() {
		var s schedule
		if err := json.Unmarshal(sc.Bytes(), &s); err != nil {
			fmt.Fprintln(os.Stderr, "bad schedule:", err)
			os.Exit(2)
		}
		for _, pass := range []bool{false, true} {
			fmt.Fprintf(os.Stderr, "CONC-SCHEDULE %d %v\n", s.ID, pass)
			res := runSchedule(&s, pass)
			b, _ := json.Marshal(res)
			out.Write(b)
			out.WriteByte('\n')
		}
		n++
	}
	out.Flush()
	fmt.Fprintf(stdout, `{"gates":true,"schedules":%d}`+"\n", n)
}

// gatesSeen runs a tiny sequential scenario and reports which gates were passed.
func gatesSeen() map[string]bool {
	seen := map[string]bool{}
	e, err := newEnv(0)
	if err != nil {
		return seen
	}
	defer os.RemoveAll(e.dir)
	packet.VerifGate = func(name string) { seen[name] = true }
	defer func() { packet.VerifGate = nil }()
	b := vh.FrameIP4UDP(e.mac(1), vh.RouterMAC, e.lan(1), e.u.Cfg.RouterIP, 40000, 123, []byte("probe"))
	if fr, err := e.s.Parse(b); err == nil {
		e.s.Notify(fr)
	}
	e.s.VerifPurge(time.Now())
	go e.s.Close()
	return seen
}

// gatesPresent: the four gates schedule replay needs.
func gatesPresent() bool {
	seen := gatesSeen()
	for _, g := range gateNames[:baseGates] {
		if !seen[g] {
			return false
		}
	}
	return true
}

func gatesReport() string {
	seen := gatesSeen()
	base := true
	for _, g := range gateNames[:baseGates] {
		base = base && seen[g]
	}
	b, _ := json.Marshal(map[string]bool{"base": base, "purge.offline": seen["purge.offline"]})
	return string(b)
}

var _ = netip.Addr{}
