//go:build verifticker

package main

import (
	"time"

	"github.com/irai/packet"
)

// With hooks/packet_verif_ticker.patch applied the session's minute ticker can be shortened: the
// scenario of minute.go then takes 2.5 s instead of 65 s (the check builds with this tag when it compiles).
func init() {
	minutePeriod = 2 * time.Second
	packet.VerifMinute = minutePeriod
}
