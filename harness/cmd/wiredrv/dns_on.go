//go:build dnshook

package main

import (
	"github.com/irai/packet"
	"github.com/irai/packet/handlers/dns_naming"
)

// built when the repository carries the hook hooks/dns_naming_verif.patch (dns_naming.VerifNew)
const hasDNSHook = true

func newDNS(s *packet.Session) dnsAPI { return dns_naming.VerifNew(s) }
