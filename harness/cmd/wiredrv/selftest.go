package main

// Self-test of the reference decoder / vh.CheckWellFormed on frames built by the independent builders
// of harness/vh/build.go: the kinds of frames other families record (DHCP server replies, forged ARP
// replies and announcements, NA spoof frames, echo requests, NS probes) must be accepted, and each
// single corruption must be rejected with the expected reason.  `wiredrv -selftest` prints one JSON
// line {"cases": n, "failed": [...]}; the checks treat a failure as an infrastructure error.

import (
	"encoding/binary"
	"encoding/json"
	"fmt"
	"net"
	"net/netip"

	"verifharness/vh"
)

type stCase struct {
	name  string
	frame []byte
	want  string // "" = accepted, else RefError key
	kind  string
}

func ndpOpt(t uint8, mac net.HardwareAddr) []byte { return append([]byte{t, 1}, mac...) }

func selftestCases() []stCase {
	host := net.HardwareAddr{0x02, 0, 0, 0, 0, 0x01}
	cli := net.HardwareAddr{0x02, 0, 0, 0, 1, 0x07}
	hostIP, cliIP, routerIP := netip.MustParseAddr("192.168.0.129"), netip.MustParseAddr("192.168.0.23"), netip.MustParseAddr("192.168.0.1")
	bc4 := netip.MustParseAddr("255.255.255.255")
	hostLLA, cliLLA, routerLLA := netip.MustParseAddr("fe80::ff:1"), netip.MustParseAddr("fe80::1:7"), netip.MustParseAddr("fe80::1")
	gua := netip.MustParseAddr("2001:db8::2:7")
	sol := netip.MustParseAddr("ff02::1:ff01:7")
	solMAC := net.HardwareAddr{0x33, 0x33, 0xff, 0x01, 0x00, 0x07}
	sid := hostIP.As4()
	mask := []byte{255, 255, 255, 0}
	rt := routerIP.As4()
	reply := func(mt byte, yi netip.Addr, dmac net.HardwareAddr, dip netip.Addr, opts ...vh.DHCP4Opt) []byte {
		o := append([]vh.DHCP4Opt{{Code: 53, Data: []byte{mt}}, {Code: 54, Data: sid[:]}}, opts...)
		msg := vh.DHCP4(2, 0x11223344, 0, netip.Addr{}, yi, netip.Addr{}, netip.Addr{}, cli, o)
		return vh.FrameIP4UDP(host, dmac, hostIP, dip, 67, 68, msg)
	}
	na := func(src netip.Addr, dmac net.HardwareAddr, dst, target netip.Addr, hop uint8, tlla net.HardwareAddr) []byte {
		t := target.As16()
		body := append(append([]byte{0x20, 0, 0, 0}, t[:]...), ndpOpt(2, tlla)...)
		return vh.Ether(dmac, host, 0x86dd, vh.IP6(src, dst, 58, hop, vh.ICMP6(src, dst, 136, 0, body)))
	}
	ns := func(dmac net.HardwareAddr, dst, target netip.Addr, opt uint8) []byte {
		t := target.As16()
		body := append(append([]byte{0, 0, 0, 0}, t[:]...), ndpOpt(opt, host)...)
		return vh.Ether(dmac, host, 0x86dd, vh.IP6(hostLLA, dst, 58, 255, vh.ICMP6(hostLLA, dst, 135, 0, body)))
	}
	lease := []vh.DHCP4Opt{{Code: 51, Data: []byte{0, 0, 14, 16}}, {Code: 1, Data: mask}, {Code: 3, Data: rt[:]}, {Code: 6, Data: rt[:]}}
	cases := []stCase{
		{"dhcp offer broadcast", reply(2, cliIP, vh.Bcast, bc4, lease...), "", "dhcp4"},
		{"dhcp ack unicast", reply(5, cliIP, cli, cliIP, lease...), "", "dhcp4"},
		{"dhcp nak", reply(6, netip.IPv4Unspecified(), vh.Bcast, bc4), "", "dhcp4"},
		{"arp forged reply (router ip at host mac)", vh.FrameARP(host, cli, 2, host, routerIP, cli, cliIP), "", "arpreply"},
		{"arp announcement", vh.FrameARP(host, vh.Bcast, 1, host, cliIP, vh.Bcast, cliIP), "", "arpreq"},
		{"arp probe", vh.FrameARP(host, vh.Bcast, 1, host, netip.IPv4Unspecified(), vh.ZeroMAC, cliIP), "", "arpreq"},
		{"arp request padded to 60", append(vh.FrameARP(host, vh.Bcast, 1, host, hostIP, vh.Bcast, cliIP), make([]byte, 18)...), "", "arpreq"},
		{"na spoof unicast (router lla at host mac)", na(routerLLA, cli, cliLLA, routerLLA, 255, host), "", "na"},
		{"na to all nodes", na(hostLLA, vh.AllNodesM6, vh.AllNodes6, hostLLA, 255, host), "", "na"},
		{"ns to solicited node", ns(solMAC, sol, cliLLA, 1), "", "ns"},
		{"echo4 request", vh.Ether(cli, host, 0x0800, vh.IP4(hostIP, cliIP, 1, 50, 0, vh.ICMP4(8, 0, vh.Echo(7, 1, []byte("HELLO-NETFILTER"))))), "", "echoreq"},
		{"echo6 request to gua", vh.Ether(cli, host, 0x86dd, vh.IP6(hostLLA, gua, 58, 64, vh.ICMP6(hostLLA, gua, 128, 0, vh.Echo(7, 0, []byte("x"))))), "", "echoreq"},
		{"echo6 to all nodes", vh.Ether(vh.AllNodesM6, host, 0x86dd, vh.IP6(hostLLA, vh.AllNodes6, 58, 255, vh.ICMP6(hostLLA, vh.AllNodes6, 128, 0, vh.Echo(99, 1, nil)))), "", "echoreq"},
		{"mdns query", vh.FrameIP4UDP(host, vh.Bcast, hostIP, netip.MustParseAddr("224.0.0.251"), 5353, 5353,
			[]byte{0, 0, 0, 0, 0, 1, 0, 0, 0, 0, 0, 0, 4, 'h', 'o', 's', 't', 5, 'l', 'o', 'c', 'a', 'l', 0, 0, 255, 0, 255}), "", "mdns"},
		// rejections
		{"foreign ethernet source", vh.FrameARP(cli, vh.Bcast, 1, host, hostIP, vh.Bcast, cliIP), "ethsrc", ""},
		{"na link-local with hop 64", na(routerLLA, cli, cliLLA, routerLLA, 64, host), "ndphop", ""},
		{"na to all nodes on wrong mac", na(hostLLA, vh.Bcast, vh.AllNodes6, hostLLA, 255, host), "mcast6mac", ""},
		{"short frame", []byte{1, 2, 3}, "ether.short", ""},
		{"unknown ethertype", vh.Ether(cli, host, 0x88cc, make([]byte, 46)), "ether.type", ""},
	}
	corrupt := func(name string, b []byte, off int, want string) {
		c := append([]byte{}, b...)
		c[off] ^= 0x5a
		cases = append(cases, stCase{name, c, want, ""})
	}
	offer := reply(2, cliIP, vh.Bcast, bc4, lease...)
	corrupt("ip4 header checksum", offer, 14+8, "ip4.checksum")
	corrupt("dhcp cookie", offer, 14+20+8+236, "dhcp.cookie")
	e4 := cases[10].frame
	corrupt("icmp4 checksum", e4, len(e4)-1, "icmp4.checksum")
	e6 := cases[11].frame
	corrupt("icmp6 checksum", e6, len(e6)-1, "icmp6.checksum")
	arp := vh.FrameARP(host, vh.Bcast, 1, host, hostIP, vh.Bcast, cliIP)
	corrupt("arp hlen", arp, 14+4, "arp.hlenplen")
	ul := append([]byte{}, offer...)
	binary.BigEndian.PutUint16(ul[14+20+4:], 20)
	cases = append(cases, stCase{"udp length field", ul, "udp.len", ""})
	tl := append([]byte{}, e4...)
	binary.BigEndian.PutUint16(tl[16:18], uint16(len(e4)))
	binary.BigEndian.PutUint16(tl[24:26], 0)
	binary.BigEndian.PutUint16(tl[24:26], vh.Cksum(tl[14:34]))
	cases = append(cases, stCase{"ip4 total length beyond the frame", tl, "ip4.totallen", ""})
	noend := vh.DHCP4(2, 1, 0, netip.Addr{}, cliIP, netip.Addr{}, netip.Addr{}, cli, []vh.DHCP4Opt{{Code: 53, Data: []byte{2}}})
	for i := 240; i < len(noend); i++ {
		if noend[i] == 255 {
			noend[i] = 0
		}
	}
	cases = append(cases, stCase{"dhcp without end", vh.FrameIP4UDP(host, vh.Bcast, hostIP, bc4, 67, 68, noend), "dhcp.noend", ""})
	zopt := na(hostLLA, cli, cliLLA, hostLLA, 255, host)
	zopt[len(zopt)-7] = 0 // option length 0
	binary.BigEndian.PutUint16(zopt[14+40+2:], 0)
	ph := make([]byte, 40)
	copy(ph, zopt[14+8:14+40])
	binary.BigEndian.PutUint32(ph[32:], uint32(len(zopt)-54))
	ph[39] = 58
	binary.BigEndian.PutUint16(zopt[14+40+2:], vh.Cksum(ph, zopt[54:]))
	cases = append(cases, stCase{"ndp option of length zero", zopt, "ndp.option.zero", ""})
	return cases
}

func selftestMode() {
	host := net.HardwareAddr{0x02, 0, 0, 0, 0, 0x01}
	failed := []string{}
	cases := selftestCases()
	for _, c := range cases {
		abs, err := vh.CheckWellFormed(c.frame, host)
		got := ""
		if err != nil {
			got = "decode"
			if re, ok := err.(*vh.RefError); ok {
				got = re.Key
			}
		}
		switch {
		case got != c.want:
			failed = append(failed, fmt.Sprintf("%s: verdict %q, want %q (%v)", c.name, got, c.want, err))
		case c.kind != "" && (abs == nil || abs.Kind != c.kind):
			failed = append(failed, fmt.Sprintf("%s: kind %v, want %s", c.name, abs, c.kind))
		}
	}
	b, _ := json.Marshal(jmap{"cases": len(cases), "failed": failed})
	fmt.Fprintln(realStdout, string(b))
}
