package main

// Directed values for the echo send functions (spec/Wire.tla, EchoIdClasses): identifiers / addresses for
// which the one's complement sum needs its second fold (NeedsSecondFold), and the sweep over all identifiers.

import (
	"encoding/binary"
	"fmt"
	"math/rand"
	"net/netip"

	"github.com/irai/packet"
	"verifharness/vh"
)

// wordSum is the plain 32 bit sum S of the 16 bit words of the concatenated parts, accumulated
// big endian or little endian (an odd trailing byte is padded with zero on the right).
func wordSum(le bool, parts ...[]byte) uint64 {
	var b []byte
	for _, p := range parts {
		b = append(b, p...)
	}
	if len(b)%2 == 1 {
		b = append(b, 0)
	}
	var s uint64
	for i := 0; i < len(b); i += 2 {
		if le {
			s += uint64(binary.LittleEndian.Uint16(b[i:]))
		} else {
			s += uint64(binary.BigEndian.Uint16(b[i:]))
		}
	}
	return s
}

// needsSecondFold is NeedsSecondFold of the specification: Fold(S) itself reaches 2^16.
func needsSecondFold(s uint64) bool { return s>>16+s&0xffff >= 0x10000 }

const echoData = "HELLO-NETFILTER"

func echoMsg(v6 bool, id, seq uint16) []byte {
	t := byte(8)
	if v6 {
		t = 128
	}
	m := []byte{t, 0, 0, 0, byte(id >> 8), byte(id), byte(seq >> 8), byte(seq)}
	return append(m, echoData...)
}

func echoSumParts(v6 bool, src, dst netip.Addr, id, seq uint16) [][]byte {
	m := echoMsg(v6, id, seq)
	if !v6 {
		return [][]byte{m}
	}
	s, d := src.As16(), dst.As16()
	ph := make([]byte, 8)
	binary.BigEndian.PutUint32(ph[0:4], uint32(len(m)))
	ph[7] = 58
	return [][]byte{s[:], d[:], ph, m}
}

func ip4HeaderOfEcho(src, dst netip.Addr) []byte {
	h := make([]byte, 20)
	h[0], h[1] = 0x45, 0xc0
	binary.BigEndian.PutUint16(h[2:4], uint16(20+8+len(echoData)))
	h[8], h[9] = 50, 1
	s, d := src.As4(), dst.As4()
	copy(h[12:16], s[:])
	copy(h[16:20], d[:])
	return h
}

// directedEcho chooses id / seq / destination according to the identifier class of the vector.
func directedEcho(idc string, v6 bool, nic vh.WireNIC, e *vh.WireEnv, src, dst packet.Addr, id, seq uint16, out *outcome) (uint16, uint16, packet.Addr) {
	set := func(i, q uint16) {
		e.Args["arg.id"], e.Args["arg.seq"] = fmt.Sprint(i), fmt.Sprint(q)
	}
	switch idc {
	case "carryLE", "carryBE":
		le := idc == "carryLE"
		for q := 0; q < 64; q++ {
			sq := seq + uint16(q)
			start := int(id)
			for k := 0; k < 65536; k++ {
				i := uint16(start + k)
				if needsSecondFold(wordSum(le, echoSumParts(v6, src.IP, dst.IP, i, sq)...)) {
					set(i, sq)
					out.directed = idc + ".hit"
					return i, sq, dst
				}
			}
		}
		out.directed = idc + ".nohit"
	case "carryHdr":
		// IPv4 header of the frame: search the destination inside the home LAN
		bits := 32 - nic.HomeLAN.Bits()
		base := nic.HomeLAN.Masked().Addr().As4()
		b0 := binary.BigEndian.Uint32(base[:])
		cur := dst.IP.As4()
		start := binary.BigEndian.Uint32(cur[:]) - b0
		n := uint32(1)<<bits - 2
		for k := uint32(0); k < n; k++ {
			off := (start+k)%n + 1
			var a [4]byte
			binary.BigEndian.PutUint32(a[:], b0+off)
			cand := netip.AddrFrom4(a)
			if cand == nic.HostIP || cand == nic.RouterIP {
				continue
			}
			h := ip4HeaderOfEcho(src.IP, cand)
			if needsSecondFold(wordSum(true, h)) || needsSecondFold(wordSum(false, h)) {
				e.IPs["lan4"] = cand
				dst.IP = cand
				out.directed = "carryHdr.hit"
				return id, seq, dst
			}
		}
		out.directed = "carryHdr.nohit"
	}
	return id, seq, dst
}

// sweepEcho calls the echo send function with every identifier 0..65535 and checks each frame with the
// reference decoder (checksums, lengths, Ethernet source) and the identifier / sequence number it carries.
func (s *sender) sweepEcho(c *nicCtx, e *vh.WireEnv, call jmap, rng *rand.Rand, r *result) {
	v6 := jstr(call, "f") == "ICMP6SendEchoRequest"
	src := addrOf(e, jobj(call, "src"))
	var dst packet.Addr
	if v6 {
		dst = dst6(e, jstr(call, "dst"))
	} else {
		dst = addrOf(e, jobj(call, "dst"))
	}
	seq := uint16(rng.Intn(65536))
	bad, first := 0, ""
	for i := 0; i < 65536; i++ {
		id := uint16(i)
		c.conn.Take()
		var err error
		if v6 {
			err = c.sess.ICMP6SendEchoRequest(src, dst, id, seq)
		} else {
			err = c.sess.ICMP4SendEchoRequest(src, dst, id, seq)
		}
		frames := c.conn.Take()
		why := ""
		switch {
		case err != nil:
			why = "returned " + err.Error()
		case len(frames) != 1:
			why = fmt.Sprintf("%d frames", len(frames))
		default:
			abs, werr := vh.CheckWellFormed(frames[0], c.nic.HostMAC)
			if werr != nil {
				why = werr.Error()
			} else if abs.ICMP == nil || abs.ICMP.ID != id || abs.ICMP.Seq != seq || abs.Kind != "echoreq" {
				why = "echo fields differ"
			}
		}
		if why != "" {
			if bad == 0 {
				first = fmt.Sprintf("id=%#04x seq=%#04x %s -> %s: %s", id, seq, src.IP, dst.IP, why)
				if len(frames) > 0 {
					r.Frame = fmt.Sprintf("%x", frames[0])
				}
			}
			bad++
		}
		if i%4096 == 0 {
			c.sess.Parse(vh.FrameIP4UDP(c.nic.RouterMAC, c.nic.HostMAC, c.nic.RouterIP, c.nic.HostIP, 53, 40000, []byte("hb")))
		}
	}
	r.Steps = 65536
	if bad > 0 {
		r.add("prop", "C07:"+jstr(call, "f")+":sweep", "%d of 65536 echo identifiers give a frame that is not well formed; first: %s", bad, first)
	}
}
