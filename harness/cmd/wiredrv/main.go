// wiredrv binds spec/Wire.tla to the real encoders and send functions of irai/packet (C03, C07).
//
//	wiredrv -build v.ndjson -out r.ndjson [-k 3]    execute TLC build sequences / DHCP layout vectors
//	wiredrv -concurrent v.ndjson -out r.ndjson [-par 6] [-dur 2]   the same cases on -par goroutines at once (no shared state)
//	wiredrv -send  v.ndjson -out r.ndjson [-k 2]    call every send function with concretised parameter classes
//	wiredrv -frames f.hex [-mac 02:00:00:00:00:01] [-flat] -out r.ndjson   check recorded frames
//
// A line of the frames file is either a hex frame (as written by `hostsdrv -frames`) or a JSON object
// {"frame": "<hex>", "mac": "<host NIC MAC, optional>", "tag": "<free text, optional>",
// "expect": {"<field of AbsFrame.Flatten>": "<text>", ...}} so that other families can state what a
// recorded frame must be (kind, ethDst, ipSrc, f.spa, f.yiaddr, f.opt54 ...).  With -flat the abstract
// frame of every line is written to the result file.
//
// Every result line carries `findings`: {level: prop|mech|note, key, what}.  prop = the real code
// contradicts a property-level predicate of the specification; mech = it departs from the mechanism
// model only (DRIFT); the Python check reproduces and reports.
package main

import (
	"bufio"
	"encoding/hex"
	"encoding/json"
	"flag"
	"fmt"
	"net"
	"os"
	"sort"
	"strconv"
	"strings"
	"time"

	"verifharness/vh"
)

type finding struct {
	Level string `json:"level"`
	Key   string `json:"key"`
	What  string `json:"what"`
}

type result struct {
	ID       int               `json:"id"`
	Inst     int               `json:"inst"`
	Seed     int64             `json:"seed"`
	Part     string            `json:"part"`
	Func     string            `json:"f,omitempty"`
	Findings []finding         `json:"findings"`
	Frame    string            `json:"frame,omitempty"`
	Flat     map[string]string `json:"flat,omitempty"`
	Steps    int               `json:"steps,omitempty"`
	Skipped  string            `json:"skipped,omitempty"`
	Digest   string            `json:"digest,omitempty"`
}

func (r *result) add(level, key, format string, a ...interface{}) {
	r.Findings = append(r.Findings, finding{Level: level, Key: key, What: fmt.Sprintf(format, a...)})
}

type jmap = map[string]interface{}

func jstr(m jmap, k string) string {
	switch v := m[k].(type) {
	case string:
		return v
	case float64:
		return strconv.Itoa(int(v))
	case bool:
		if v {
			return "true"
		}
		return "false"
	}
	return ""
}
func jint(m jmap, k string) int {
	if v, ok := m[k].(float64); ok {
		return int(v)
	}
	return 0
}
func jbool(m jmap, k string) bool { v, _ := m[k].(bool); return v }
func jobj(m jmap, k string) jmap {
	if v, ok := m[k].(map[string]interface{}); ok {
		return v
	}
	return jmap{}
}
func jlist(m jmap, k string) []interface{} {
	v, _ := m[k].([]interface{})
	return v
}
func jints(m jmap, k string) []int {
	out := []int{}
	for _, x := range jlist(m, k) {
		if f, ok := x.(float64); ok {
			out = append(out, int(f))
		}
	}
	return out
}

var realStdout *os.File

func readVectors(path string) []jmap {
	f, err := os.Open(path)
	if err != nil {
		fmt.Fprintln(os.Stderr, err)
		os.Exit(2)
	}
	defer f.Close()
	sc := bufio.NewScanner(f)
	sc.Buffer(make([]byte, 1<<20), 1<<26)
	var out []jmap
	for sc.Scan() {
		if len(strings.TrimSpace(sc.Text())) == 0 {
			continue
		}
		var m jmap
		if err := json.Unmarshal(sc.Bytes(), &m); err != nil {
			fmt.Fprintln(os.Stderr, "bad vector line:", err)
			os.Exit(2)
		}
		out = append(out, m)
	}
	return out
}

type sink struct {
	w      *bufio.Writer
	enc    *json.Encoder
	counts map[string]int
	cases  int
	insts  int
	sweep  int // calls made by identifier sweeps (send mode)
}

func newSink(path string) *sink {
	f, err := os.Create(path)
	if err != nil {
		fmt.Fprintln(os.Stderr, err)
		os.Exit(2)
	}
	w := bufio.NewWriterSize(f, 1<<20)
	return &sink{w: w, enc: json.NewEncoder(w), counts: map[string]int{}}
}

func (s *sink) put(r *result) {
	if r.Findings == nil {
		r.Findings = []finding{}
	}
	s.insts++
	if r.Part == "send" {
		s.sweep += r.Steps
	}
	for _, f := range r.Findings {
		s.counts[f.Level+" "+f.Key]++
	}
	s.enc.Encode(r)
}

func (s *sink) finish(extra jmap) {
	s.w.Flush()
	keys := make([]string, 0, len(s.counts))
	for k := range s.counts {
		keys = append(keys, k)
	}
	sort.Strings(keys)
	sum := jmap{"cases": s.cases, "instances": s.insts, "findings": s.counts, "sweep_calls": s.sweep}
	for k, v := range extra {
		sum[k] = v
	}
	b, _ := json.Marshal(sum)
	fmt.Fprintln(realStdout, string(b))
}

func framesMode(path, mac, out string, flatAll bool) {
	hostMAC, err := net.ParseMAC(mac)
	if err != nil {
		fmt.Fprintln(os.Stderr, "bad -mac:", err)
		os.Exit(2)
	}
	f, err := os.Open(path)
	if err != nil {
		fmt.Fprintln(os.Stderr, err)
		os.Exit(2)
	}
	defer f.Close()
	sk := newSink(out)
	sc := bufio.NewScanner(f)
	sc.Buffer(make([]byte, 1<<20), 1<<24)
	kinds := map[string]int{}
	n := 0
	for sc.Scan() {
		line := strings.TrimSpace(sc.Text())
		if line == "" {
			continue
		}
		lineMAC := hostMAC
		var expect jmap
		tag := ""
		if strings.HasPrefix(line, "{") {
			var m jmap
			if err := json.Unmarshal([]byte(line), &m); err != nil {
				fmt.Fprintln(os.Stderr, "bad json line", n+1, err)
				os.Exit(2)
			}
			line, expect, tag = jstr(m, "frame"), jobj(m, "expect"), jstr(m, "tag")
			if s := jstr(m, "mac"); s != "" {
				if lineMAC, err = net.ParseMAC(s); err != nil {
					fmt.Fprintln(os.Stderr, "bad mac on line", n+1)
					os.Exit(2)
				}
			}
		}
		b, err := hex.DecodeString(line)
		if err != nil {
			fmt.Fprintln(os.Stderr, "bad hex line", n+1)
			os.Exit(2)
		}
		n++
		r := &result{ID: n, Part: "frames", Frame: line, Func: tag}
		abs, err := vh.CheckWellFormed(b, lineMAC)
		if abs != nil {
			r.Flat = abs.Flatten()
			kinds[abs.Kind]++
			for _, note := range abs.Notes {
				r.add("note", "wire."+note, "%s", note)
			}
		}
		if err != nil {
			re, _ := err.(*vh.RefError)
			key := "decode"
			if re != nil {
				key = re.Key
			}
			r.add("prop", "frame:"+key, "%v", err)
		}
		for field := range expect {
			want := jstr(expect, field)
			got, has := r.Flat[field]
			if want == "absent" && !has {
				continue
			}
			if !has || got != want {
				if !has {
					got = "(absent)"
				}
				r.add("prop", "frame:expect:"+field, "%s = %s, expected %s", field, got, want)
			}
		}
		if !flatAll && !hasLevel(r, "prop") {
			r.Flat, r.Frame = nil, "" // keep the output small
		}
		sk.cases++
		sk.put(r)
	}
	sk.finish(jmap{"kinds": kinds})
}

func hasLevel(r *result, level string) bool {
	for _, f := range r.Findings {
		if f.Level == level {
			return true
		}
	}
	return false
}

func main() {
	build := flag.String("build", "", "ndjson file of build behaviours / dhcp vectors exported by TLC (WireMC)")
	conc := flag.String("concurrent", "", "ndjson file of build / dhcp / alias cases executed by -par goroutines for -dur seconds")
	par := flag.Int("par", 6, "-concurrent: number of goroutines")
	dur := flag.Float64("dur", 2, "-concurrent: seconds")
	send := flag.String("send", "", "ndjson file of send vectors exported by TLC (WireMC)")
	frames := flag.String("frames", "", "file of hex frames, one per line")
	mac := flag.String("mac", "02:00:00:00:00:01", "host NIC MAC for -frames")
	out := flag.String("out", "", "ndjson result file")
	k := flag.Int("k", 2, "concrete instances per abstract case")
	flatAll := flag.Bool("flat", false, "-frames: write the abstract frame of every line, not only of rejected ones")
	tmp := flag.String("tmp", os.TempDir(), "directory for lease files")
	sendconc := flag.Bool("sendconc", false, "concurrent send stage after the error-path vector (-par goroutines, -dur seconds)")
	selftest := flag.Bool("selftest", false, "check the reference decoder against frames of the independent builders")
	flag.Parse()
	seed, _ := strconv.ParseInt(os.Getenv("VERIF_SEED"), 10, 64)
	vh.Quiet()
	realStdout = os.Stdout
	if null, err := os.OpenFile(os.DevNull, os.O_WRONLY, 0); err == nil {
		os.Stdout = null
	}
	if *selftest {
		selftestMode()
		return
	}
	if *out == "" {
		fmt.Fprintln(os.Stderr, "missing -out")
		os.Exit(2)
	}
	switch {
	case *sendconc:
		sendConcMode(*out, *par, time.Duration(*dur*float64(time.Second)), seed, *tmp)
	case *conc != "":
		concurrentMode(readVectors(*conc), *out, *par, time.Duration(*dur*float64(time.Second)), seed)
	case *build != "":
		buildMode(readVectors(*build), *out, *k, seed)
	case *send != "":
		sendMode(readVectors(*send), *out, *k, seed, *tmp)
	case *frames != "":
		framesMode(*frames, *mac, *out, *flatAll)
	default:
		fmt.Fprintln(os.Stderr, "one of -build, -send, -frames is required")
		os.Exit(2)
	}
}
