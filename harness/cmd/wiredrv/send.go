package main

// Part C of spec/Wire.tla: call every exported send function with concretised parameter classes on a
// session over a recording connection and compare the recorded frames, decoded by the independent
// reference decoder, with the expectation (property level) and the mechanism model of the specification.

import (
	"encoding/hex"
	"errors"
	"fmt"
	"math/rand"
	"net"
	"net/netip"
	"os"
	"path/filepath"
	"runtime"
	"strconv"
	"strings"
	"time"

	"github.com/irai/packet"
	"github.com/irai/packet/handlers/arp_spoofer"
	"github.com/irai/packet/handlers/dhcp4_spoofer"
	"verifharness/vh"
)

// dnsAPI is the part of dns_naming.DNSHandler used here; nil when the hook dns_naming.VerifNew is absent.
type dnsAPI interface {
	SendMDNSQuery(name string) error
	SendLLMNRQuery(name string) error
	SendSleepProxyResponse(srcAddr packet.Addr, dstAddr packet.Addr, id uint16, name string) error
	SendNBNSQuery(srcAddr packet.Addr, dstAddr packet.Addr, name string) error
	SendNBNSNodeStatus() error
	SendSSDPSearch() error
}

type nicCtx struct {
	nic  vh.WireNIC
	sess *packet.Session
	conn *vh.WireConn
	arp  *arp_spoofer.Handler
	dns  dnsAPI
}

type sender struct {
	wf    string // write-failure class armed right before the action under test: none | temp1 | perm1 | temp2
	fill  string // "ee" (default) | "zero" | "prev": see call
	ctx   map[string]*nicCtx
	tmp   string
	nfile int
	calls int
}

func (s *sender) get(nic string) *nicCtx {
	if c, ok := s.ctx[nic]; ok {
		return c
	}
	n, ok := vh.WireNICs[nic]
	if !ok {
		panic("unknown nic " + nic)
	}
	sess, conn, err := vh.NewWireSession(n)
	if err != nil {
		panic(err)
	}
	c := &nicCtx{nic: n, sess: sess, conn: conn}
	if c.arp, err = arp_spoofer.New(sess); err != nil {
		panic(err)
	}
	c.dns = newDNS(sess)
	s.ctx[nic] = c
	return c
}

func addrOf(e *vh.WireEnv, m jmap) packet.Addr {
	return packet.Addr{MAC: e.MAC(jstr(m, "mac")), IP: e.IP(jstr(m, "ip"))}
}

func dst6(e *vh.WireEnv, name string) packet.Addr {
	switch name {
	case "lib:allnodes":
		return packet.IP6AllNodesAddr
	case "lib:allrouters":
		return packet.IP6AllRoutersAddr
	case "lib:solnode":
		return packet.IPv6SolicitedNode(e.IP("lla1"))
	case "lib:solnode:gua":
		return packet.IPv6SolicitedNode(e.IP("gua1"))
	case "u:hostlla":
		return packet.Addr{MAC: e.MAC("hostmac"), IP: e.IP("hostlla")}
	}
	if strings.HasPrefix(name, "u:") {
		return packet.Addr{MAC: e.MAC("mac1"), IP: e.IP(name[2:])}
	}
	panic("dst name " + name)
}

func errText(err error) string {
	switch {
	case err == nil:
		return "nil"
	case errors.Is(err, packet.ErrInvalidIP):
		return "ErrInvalidIP"
	case errors.Is(err, packet.ErrTimeout):
		return "ErrTimeout"
	case errors.Is(err, packet.ErrPayloadTooBig):
		return "ErrPayloadTooBig"
	}
	return "error: " + err.Error()
}

// reference NetBIOS first-level encoding (RFC 1001 section 14.1) of a name padded to 16 bytes
func nbnsLabel(name string) string {
	for len(name) < 16 {
		name += " "
	}
	var sb strings.Builder
	for i := 0; i < 16; i++ {
		sb.WriteByte('A' + name[i]>>4)
		sb.WriteByte('A' + name[i]&0x0f)
	}
	return sb.String() + "."
}

func ip4hex(a netip.Addr) string { b := a.As4(); return hex.EncodeToString(b[:]) }

type outcome struct {
	directed string // how a directed value was chosen ("" = not asked for)
	frames   [][]byte
	err      string
	primary  func(f *vh.AbsFrame) bool // selects the frame the vector is about (nil: the only one)
	skipped  string
}

// clientPort is the UDP source port of the client messages of the running scenario (68 unless the vector says otherwise)
var clientPort uint16 = 68

func dhcpClientFrame(e *vh.WireEnv, srcIP, dstIP netip.Addr, dstMAC net.HardwareAddr, xid uint32, flags uint16, ci netip.Addr, opts []vh.DHCP4Opt) []byte {
	msg := vh.DHCP4(1, xid, flags, ci, netip.Addr{}, netip.Addr{}, netip.Addr{}, e.MAC("mac1"), opts)
	return vh.FrameIP4UDP(e.MAC("mac1"), dstMAC, srcIP, dstIP, clientPort, 67, msg)
}

func (s *sender) newDHCP(c *nicCtx) (*packet.Session, *vh.WireConn, *dhcp4_spoofer.Handler) {
	sess, conn, err := vh.NewWireSession(c.nic)
	if err != nil {
		panic(err)
	}
	s.nfile++
	nf := netip.PrefixFrom(c.nic.HostIP, c.nic.HomeLAN.Bits()+1)
	h, err := dhcp4_spoofer.Config{Mode: dhcp4_spoofer.ModeSecondaryServer, NetfilterIP: nf, DNSServer: c.nic.RouterIP,
		LeaseFilename: filepath.Join(s.tmp, fmt.Sprintf("wire-leases-%d-%d.yaml", os.Getpid(), s.nfile))}.New(sess)
	if err != nil {
		panic(fmt.Sprintf("dhcp4 handler: %v", err))
	}
	return sess, conn, h
}

func deliverDHCP(sess *packet.Session, h *dhcp4_spoofer.Handler, b []byte) error {
	buf := make([]byte, len(b), 2048)
	copy(buf, b)
	fr, err := sess.Parse(buf)
	if err != nil {
		return err
	}
	return h.ProcessPacket(fr)
}

func lastDHCP(frames [][]byte, sport uint16, mt int) *vh.AbsFrame {
	var out *vh.AbsFrame
	for _, b := range frames {
		if f, err := vh.RefDecode(b); err == nil && f.DHCP != nil && f.UDP.Sport == sport && (mt == 0 || f.DHCP.MsgType == mt) {
			out = f
		}
	}
	return out
}

func (s *sender) dhcpScenario(c *nicCtx, e *vh.WireEnv, call jmap, rng *rand.Rand) outcome {
	sess, conn, h := s.newDHCP(c)
	defer func() { go sess.Close() }()
	f := jstr(call, "f")
	xid := rng.Uint32()
	e.Args["arg.xid"] = fmt.Sprintf("%08x", xid)
	e.Args["arg.clientid"] = hex.EncodeToString(e.MAC("mac1"))
	e.Args["arg.yiaddr"] = "any"
	zero, bc := netip.IPv4Unspecified(), e.IP("bcast4")
	var cid []vh.DHCP4Opt // client identifier option of every message of this client
	if jstr(call, "cid") == "long" {
		id := append([]byte{0}, randBytes(rng, 59)...) // 60 bytes: replies that echo it pass 300 bytes
		cid = []vh.DHCP4Opt{{Code: 61, Data: id}}
		e.Args["arg.clientid"] = hex.EncodeToString(id)
	}
	with := func(o ...vh.DHCP4Opt) []vh.DHCP4Opt { return append(append([]vh.DHCP4Opt{}, o...), cid...) }
	discover := func() (netip.Addr, error) {
		if err := deliverDHCP(sess, h, dhcpClientFrame(e, zero, bc, e.MAC("bcast"), xid, 0, zero, with(vh.DHCP4Opt{Code: 53, Data: []byte{1}}, vh.DHCP4Opt{Code: 55, Data: []byte{1, 3, 6}}))); err != nil {
			return netip.Addr{}, err
		}
		o := lastDHCP(conn.Take(), 67, 2)
		if o == nil {
			return netip.Addr{}, fmt.Errorf("no offer")
		}
		return o.DHCP.YI, nil
	}
	selectReq := func(ip, server netip.Addr) error {
		a, sv := ip.As4(), server.As4()
		return deliverDHCP(sess, h, dhcpClientFrame(e, zero, bc, e.MAC("bcast"), xid, 0, zero,
			with(vh.DHCP4Opt{Code: 53, Data: []byte{3}}, vh.DHCP4Opt{Code: 50, Data: a[:]}, vh.DHCP4Opt{Code: 54, Data: sv[:]}, vh.DHCP4Opt{Code: 55, Data: []byte{1, 3, 6}})))
	}
	var err error
	out := outcome{}
	clientPort = 68
	if jstr(call, "sp") == "other" {
		clientPort = uint16(1024 + rng.Intn(60000))
		if clientPort == 67 || clientPort == 68 {
			clientPort = 4011
		}
	}
	defer func() { clientPort = 68 }()
	arm := func() { conn.PlanFor(s.wf) } // the write failures hit the action under test, not the preparation
	defer conn.Plan()
	switch f {
	case "dhcp4.ServerReply":
		mt, _ := strconv.Atoi(jstr(call, "mt"))
		switch {
		case mt == 2:
			arm()
			err = deliverDHCP(sess, h, dhcpClientFrame(e, zero, bc, e.MAC("bcast"), xid, 0x8000*uint16(rng.Intn(2)), zero,
				with(vh.DHCP4Opt{Code: 53, Data: []byte{1}}, vh.DHCP4Opt{Code: 55, Data: []byte{3, 1, 6}})))
		case mt == 6:
			arm()
			err = selectReq(e.IP("lan4"), c.nic.RouterIP)
			e.Args["arg.yiaddr"] = "0.0.0.0"
		default:
			var offered netip.Addr
			if offered, err = discover(); err != nil {
				break
			}
			if jbool(call, "bcast") {
				arm()
			}
			if err = selectReq(offered, c.nic.HostIP); err != nil {
				break
			}
			e.Args["arg.yiaddr"] = offered.String()
			if !jbool(call, "bcast") { // renewing: unicast request from the leased address
				conn.Take()
				arm()
				err = deliverDHCP(sess, h, dhcpClientFrame(e, offered, c.nic.HostIP, c.nic.HostMAC, rng.Uint32(), 0, offered, with(vh.DHCP4Opt{Code: 53, Data: []byte{3}})))
				e.Args["arg.xid"] = "any"
			}
		}
		out.primary = func(a *vh.AbsFrame) bool { return a.DHCP != nil && a.UDP.Sport == 67 }
	case "dhcp4.ForgedDecline":
		offered, sv := e.IP("lan4").As4(), c.nic.RouterIP.As4()
		e.Args["arg.server"], e.Args["arg.offered"] = hex.EncodeToString(sv[:]), hex.EncodeToString(offered[:])
		msg := vh.DHCP4(2, xid, 0, zero, e.IP("lan4"), netip.Addr{}, netip.Addr{}, e.MAC("mac1"),
			with(vh.DHCP4Opt{Code: 53, Data: []byte{2}}, vh.DHCP4Opt{Code: 54, Data: sv[:]}, vh.DHCP4Opt{Code: 51, Data: []byte{0, 0, 14, 16}}))
		arm()
		err = deliverDHCP(sess, h, vh.FrameIP4UDP(c.nic.RouterMAC, e.MAC("bcast"), c.nic.RouterIP, bc, 67, 68, msg))
		conn.Settle(1, 500*time.Millisecond, s.wf != "none")
		out.primary = func(a *vh.AbsFrame) bool { return a.DHCP != nil && a.DHCP.MsgType == 4 }
	case "dhcp4.ForgedDeclinePair":
		// OFFER A (client mac1) and OFFER B (client mac2) from the LAN's DHCP server, delivered through ONE receive
		// buffer that is overwritten with B as soon as ProcessPacket(A) returns; one processor, so that the goroutine
		// that forges the DECLINE for A runs after B is in the buffer
		offered, sv := e.IP("lan4").As4(), c.nic.RouterIP.As4()
		e.Args["arg.server"], e.Args["arg.offered"] = hex.EncodeToString(sv[:]), hex.EncodeToString(offered[:])
		mk := func(mac net.HardwareAddr, x uint32, yi netip.Addr, id []vh.DHCP4Opt) []byte {
			o := append([]vh.DHCP4Opt{{Code: 53, Data: []byte{2}}, {Code: 54, Data: sv[:]}, {Code: 51, Data: []byte{0, 0, 14, 16}}}, id...)
			return vh.FrameIP4UDP(c.nic.RouterMAC, e.MAC("bcast"), c.nic.RouterIP, bc, 67, 68, vh.DHCP4(2, x, 0, zero, yi, netip.Addr{}, netip.Addr{}, mac, o))
		}
		var cidB []vh.DHCP4Opt
		if len(cid) > 0 {
			cidB = []vh.DHCP4Opt{{Code: 61, Data: append([]byte{0}, randBytes(rng, 59)...)}}
		}
		fa, fb := mk(e.MAC("mac1"), xid, e.IP("lan4"), cid), mk(e.MAC("mac2"), xid^0x5a5a5a5a, c.nic.RouterIP.Next().Next(), cidB)
		buf := make([]byte, 0, 2048)
		arm()
		prev := runtime.GOMAXPROCS(1)
		for _, f := range [][]byte{fa, fb} {
			buf = buf[:len(f)]
			copy(buf, f)
			fr, perr := sess.Parse(buf)
			if perr == nil {
				perr = h.ProcessPacket(fr)
			}
			if perr != nil && err == nil {
				err = perr
			}
		}
		full := buf[:cap(buf)]
		for i := range full {
			full[i] = 0xEE // the capture buffer moves on
		}
		runtime.GOMAXPROCS(prev)
		conn.Settle(2, 500*time.Millisecond, s.wf != "none")
		wantXID := fmt.Sprintf("%08x", xid)
		out.primary = func(a *vh.AbsFrame) bool {
			return a.DHCP != nil && a.DHCP.MsgType == 4 && hex.EncodeToString(a.DHCP.XID) == wantXID
		}
	case "dhcp4.ForgedRelease":
		var offered netip.Addr
		if offered, err = discover(); err == nil {
			if err = selectReq(offered, c.nic.HostIP); err == nil {
				conn.Take()
				e.Args["arg.leased"] = offered.String()
				arm()
				err = h.StartHunt(packet.Addr{MAC: e.MAC("mac1"), IP: offered})
				conn.Settle(1, 500*time.Millisecond, s.wf != "none")
			}
		}
		out.primary = func(a *vh.AbsFrame) bool { return a.DHCP != nil && a.DHCP.MsgType == 7 }
	}
	time.Sleep(2 * time.Millisecond)
	out.frames, out.err = conn.Take(), errText(err)
	return out
}

func (s *sender) purgeScenario(c *nicCtx, e *vh.WireEnv, call jmap) outcome {
	sess, conn, err := vh.NewWireSession(c.nic)
	if err != nil {
		panic(err)
	}
	defer func() { go sess.Close() }()
	ip := e.IP(jstr(call, "host"))
	var fr []byte
	if ip.Is4() {
		fr = vh.FrameIP4UDP(e.MAC("mac1"), c.nic.RouterMAC, ip, c.nic.RouterIP, 40000, 123, []byte("x"))
	} else {
		fr = vh.FrameIP6UDP(e.MAC("mac1"), vh.AllNodesM6, ip, vh.AllNodes6, 5353, 5353, make([]byte, 12))
	}
	f, err := sess.Parse(append(make([]byte, 0, 256), fr...))
	if err != nil || f.Host == nil {
		return outcome{err: "error: host not created: " + fmt.Sprint(err)}
	}
	now := time.Now()
	f.Host.LastSeen = now.Add(-90 * time.Second)
	conn.PlanFor(s.wf)
	defer conn.Plan()
	err = sess.VerifPurge(now)
	conn.Settle(1, time.Second, s.wf != "none")
	time.Sleep(2 * time.Millisecond)
	return outcome{frames: conn.Take(), err: errText(err)}
}

// dirtyPool fills the buffers the send paths are about to take from packet.EtherBufferPool with a
// fixed pattern: a field the encoder forgets to write then shows up deterministically (0xEE)
// instead of depending on what the previous frame left behind.
func dirtyPool() { fillPool(0xEE) }

func fillPool(pattern byte) {
	var bufs [6]*[packet.EthMaxSize]byte
	for i := range bufs {
		bufs[i] = packet.EtherBufferPool.Get().(*[packet.EthMaxSize]byte)
		for j := range bufs[i] {
			bufs[i][j] = pattern
		}
	}
	for i := range bufs {
		packet.EtherBufferPool.Put(bufs[i])
	}
}

// call executes one vector on the real code.
func (s *sender) call(c *nicCtx, e *vh.WireEnv, call jmap, rng *rand.Rand) (out outcome) {
	f := jstr(call, "f")
	id, seq := uint16(rng.Intn(65536)), uint16(rng.Intn(65536))
	switch rng.Intn(6) { // boundary values of the 16 bit fields now and then
	case 0:
		id, seq = 0, 0xffff
	case 1:
		id, seq = 0xffff, 0
	}
	e.Args["arg.id"], e.Args["arg.seq"] = strconv.Itoa(int(id)), strconv.Itoa(int(seq))
	e.Args["arg.mtu"] = strconv.Itoa(c.nic.MTU)
	var err error
	sess := c.sess
	c.conn.Take()
	c.conn.PlanFor(s.wf)
	defer c.conn.Plan()
	switch s.fill { // content of the pooled buffers the call is about to take
	case "zero":
		fillPool(0)
	case "prev": // whatever the previous frame left there
	default:
		dirtyPool()
	}
	switch f {
	case "PurgeProbe":
		return s.purgeScenario(c, e, call)
	case "dhcp4.ServerReply", "dhcp4.ForgedDecline", "dhcp4.ForgedDeclinePair", "dhcp4.ForgedRelease":
		return s.dhcpScenario(c, e, call, rng)
	case "dhcp4.SendDiscoverPacket":
		dsess, conn, h := s.newDHCP(c)
		defer func() { go dsess.Close() }()
		xid := randBytes(rng, 4)
		e.Args["arg.xid"] = hex.EncodeToString(xid)
		name := ""
		switch jstr(call, "name") {
		case "short":
			name = "host-" + strconv.Itoa(rng.Intn(1000))
		case "long": // 60 characters: the option area passes 60 bytes, the message 300
			name = strings.Repeat("n", 50) + fmt.Sprintf("-%09d", rng.Intn(1000000000))
		}
		e.Args["arg.name"] = hex.EncodeToString([]byte(name))
		conn.PlanFor(s.wf)
		err = h.SendDiscoverPacket(e.MAC(jstr(call, "ch")), e.IP(jstr(call, "ci")), xid, name)
		return outcome{frames: conn.Take(), err: errText(err)}
	case "ICMP4SendEchoRequest":
		src, dst := addrOf(e, jobj(call, "src")), addrOf(e, jobj(call, "dst"))
		id, seq, dst = directedEcho(jstr(call, "idc"), false, c.nic, e, src, dst, id, seq, &out)
		err = sess.ICMP4SendEchoRequest(src, dst, id, seq)
	case "ICMP6SendEchoRequest":
		src, dst := addrOf(e, jobj(call, "src")), dst6(e, jstr(call, "dst"))
		id, seq, dst = directedEcho(jstr(call, "idc"), true, c.nic, e, src, dst, id, seq, &out)
		err = sess.ICMP6SendEchoRequest(src, dst, id, seq)
	case "ICMP6SendNeighborAdvertisement":
		err = sess.ICMP6SendNeighborAdvertisement(addrOf(e, jobj(call, "src")), dst6(e, jstr(call, "dst")), addrOf(e, jobj(call, "tgt")))
	case "ICMP6SendNeighbourSolicitation":
		err = sess.ICMP6SendNeighbourSolicitation(addrOf(e, jobj(call, "src")), dst6(e, jstr(call, "dst")), e.IP(jstr(call, "ip")))
	case "ICMP6SendRouterSolicitation":
		err = sess.ICMP6SendRouterSolicitation()
	case "ICMP6SendRouterAdvertisement":
		var prefixes []packet.PrefixInformation
		for i := 0; i < jint(call, "np"); i++ {
			p := net.IP{0x20, 0x01, 0x0d, 0xb8, byte(rng.Intn(256)), byte(rng.Intn(256)), 0, byte(i + 1), 0, 0, 0, 0, 0, 0, 0, 0}
			prefixes = append(prefixes, packet.PrefixInformation{PrefixLength: 64, Prefix: p})
			a, _ := netip.AddrFromSlice(p)
			e.Args["arg.prefix"+strconv.Itoa(i+1)] = a.String() + "/64"
		}
		var rdnss *packet.RecursiveDNSServer
		if jbool(call, "rdnss") {
			srv := rand6(rng)
			rdnss = &packet.RecursiveDNSServer{Lifetime: 30 * time.Minute, Servers: []net.IP{net.IP(srv.AsSlice())}}
			e.Args["arg.rdnss"] = srv.String()
		}
		err = sess.ICMP6SendRouterAdvertisement(prefixes, rdnss, dst6(e, jstr(call, "dst")))
	case "Ping":
		err = sess.Ping(addrOf(e, jobj(call, "dst")), time.Millisecond)
	case "Ping6":
		err = sess.Ping6(addrOf(e, jobj(call, "src")), dst6(e, jstr(call, "dst")), time.Millisecond)
	case "arp.Request":
		err = c.arp.Request(e.IP(jstr(call, "ip")))
	case "arp.RequestTo":
		err = c.arp.RequestTo(e.MAC(jstr(call, "mac")), e.IP(jstr(call, "ip")))
	case "arp.Probe":
		err = c.arp.Probe(e.IP(jstr(call, "ip")))
	case "arp.AnnounceTo":
		err = c.arp.AnnounceTo(e.MAC(jstr(call, "mac")), e.IP(jstr(call, "ip")))
	case "arp.RequestRaw":
		err = c.arp.RequestRaw(e.MAC(jstr(call, "mac")), addrOf(e, jobj(call, "src")), addrOf(e, jobj(call, "dst")))
	case "arp.Reply":
		err = c.arp.Reply(e.MAC(jstr(call, "mac")), addrOf(e, jobj(call, "src")), addrOf(e, jobj(call, "dst")))
	case "dns.SendMDNSQuery", "dns.SendLLMNRQuery", "dns.SendSSDPSearch", "dns.SendSleepProxyResponse", "dns.SendNBNSQuery", "dns.SendNBNSNodeStatus":
		if c.dns == nil {
			return outcome{skipped: "hook dns_naming.VerifNew absent"}
		}
		name := "host" + strconv.Itoa(rng.Intn(1000)) + ".local."
		e.Args["arg.name"] = name
		nb := "PC" + strconv.Itoa(rng.Intn(100000))
		e.Args["arg.nbname"] = nbnsLabel(nb)
		switch f {
		case "dns.SendMDNSQuery":
			err = c.dns.SendMDNSQuery(name)
		case "dns.SendLLMNRQuery":
			err = c.dns.SendLLMNRQuery(name)
		case "dns.SendSSDPSearch":
			err = c.dns.SendSSDPSearch()
		case "dns.SendSleepProxyResponse":
			src, dst := addrOf(e, jobj(call, "src")), addrOf(e, jobj(call, "dst"))
			dst.Port = 5353
			err = c.dns.SendSleepProxyResponse(src, dst, id, name)
		case "dns.SendNBNSQuery":
			err = c.dns.SendNBNSQuery(addrOf(e, jobj(call, "src")), addrOf(e, jobj(call, "dst")), nb)
		case "dns.SendNBNSNodeStatus":
			e.Args["arg.nbname"] = nbnsLabel("*")
			err = c.dns.SendNBNSNodeStatus()
		}
	default:
		panic("unknown send function " + f)
	}
	out.frames, out.err = c.conn.Take(), errText(err)
	return out
}

// primaryFlat is the abstract form of the frame a call is about (nil if there is none).
func primaryFlat(out outcome) map[string]string {
	for _, b := range out.frames {
		a, _ := vh.RefDecode(b)
		if a == nil {
			continue
		}
		if out.primary == nil || out.primary(a) {
			return a.Flatten()
		}
	}
	return nil
}

func flatKeys(a, b map[string]string) []string {
	seen := map[string]bool{}
	var out []string
	for k := range a {
		seen[k] = true
		out = append(out, k)
	}
	for k := range b {
		if !seen[k] {
			out = append(out, k)
		}
	}
	sortStrings(out)
	return out
}

// volatileField: values that legitimately differ between two calls with the same arguments (process-wide counters,
// crypto/rand transaction ids)
func volatileField(fn, k string) bool {
	if k == "f.codes" { // options not named in the requested order follow Go's map iteration order; f.codeset is compared
		return true
	}
	switch fn {
	case "Ping", "Ping6", "dns.SendNBNSQuery", "dns.SendNBNSNodeStatus":
		return k == "f.id"
	case "dhcp4.ForgedRelease":
		return k == "f.xid"
	case "PurgeProbe":
		return k == "f.id" // the IPv6 echo probe takes its identifier from the clock
	}
	return false
}

func frameFields(m jmap) map[string]interface{} {
	out := map[string]interface{}{}
	for k, v := range m {
		if k == "f" {
			for fk, fv := range v.(map[string]interface{}) {
				out["f."+fk] = fv
			}
			continue
		}
		out[k] = v
	}
	return out
}

// want resolves one expected value to the canonical text of Flatten; ok=false: not constrained.
func wantText(e *vh.WireEnv, field string, v interface{}) (string, bool) {
	switch x := v.(type) {
	case float64:
		if x < 0 {
			return "", false
		}
		return strconv.Itoa(int(x)), true
	case string:
		if x == "any" || x == "none" {
			return "", false
		}
		t := e.Resolve(x)
		if t == "any" {
			return "", false
		}
		if strings.HasPrefix(field, "f.opt") {
			if a, err := netip.ParseAddr(t); err == nil && a.Is4() {
				return ip4hex(a), true
			}
			if m, err := net.ParseMAC(t); err == nil {
				return hex.EncodeToString(m), true
			}
		}
		return t, true
	}
	return "", false
}

func matches(flat map[string]string, field, want string) bool {
	got, has := flat[field]
	if want == "absent" {
		return !has
	}
	return has && got == want
}

func (s *sender) runVector(v jmap, inst int, seed int64, r *result) {
	call := jobj(v, "call")
	r.Func = jstr(call, "f")
	c := s.get(jstr(v, "nic"))
	rng := rand.New(rand.NewSource(seed))
	e := vh.NewWireEnv(c.nic, rng)
	if jstr(call, "idc") == "sweep" {
		if inst == 0 {
			s.sweepEcho(c, e, call, rng, r)
		}
		return
	}
	s.calls++
	if s.calls%50 == 0 { // keep the NIC monitors of the long-lived sessions quiet
		for _, x := range s.ctx {
			x.sess.Parse(vh.FrameIP4UDP(x.nic.RouterMAC, x.nic.HostMAC, x.nic.RouterIP, x.nic.HostIP, 53, 40000, []byte("hb")))
		}
	}
	guarded := func(e *vh.WireEnv, call jmap, rng *rand.Rand) (out outcome) {
		defer func() {
			if x := recover(); x != nil {
				out.err = "panic: " + fmt.Sprint(x)
			}
		}()
		return s.call(c, e, call, rng)
	}
	// reference pass: the same call with the same concrete arguments on zero-filled pooled buffers, no write failure
	s.fill, s.wf = "zero", "none"
	rngA := rand.New(rand.NewSource(seed))
	eA := vh.NewWireEnv(c.nic, rngA)
	base := guarded(eA, call, rngA)
	baseFlat := primaryFlat(base)
	// judged pass: after the previous send of a pair (if any), on buffers filled with 0xEE or left as they are
	s.fill = "ee"
	if prev := jobj(v, "prev"); len(prev) > 0 {
		guarded(e, prev, rand.New(rand.NewSource(seed+1)))
		if jstr(v, "dirty") == "prev" {
			s.fill = "prev"
		}
	}
	if w := jstr(v, "wf"); w != "" {
		s.wf = w // the first write(s) of the action under test fail; frames that reach the wire are judged as usual
	}
	out := guarded(e, call, rng)
	s.fill, s.wf = "ee", "none"
	if out.skipped != "" {
		r.Skipped = out.skipped
		return
	}
	// the emitted frame is a function of the parameters only, not of the buffer's previous content
	if judged := primaryFlat(out); baseFlat != nil && judged != nil && jbool(v, "clean") { // invalid arguments: outside the statement
		for _, k := range flatKeys(baseFlat, judged) {
			if volatileField(r.Func, k) || baseFlat[k] == judged[k] {
				continue
			}
			how := "pooled buffers pre-filled with 0xEE"
			if s := jstr(jobj(v, "prev"), "f"); s != "" {
				how = "sent after " + s + " (" + jstr(v, "dirty") + ")"
			}
			r.add("prop", "C07:pool:"+r.Func+":"+k, "%s: %s = %q on zero-filled pooled buffers but %q when %s: the frame depends on the previous content of the buffer",
				r.Func, k, baseFlat[k], judged[k], how)
			break
		}
	}
	if out.directed != "" {
		r.add("note", "directed."+out.directed, "%s", out.directed)
	}
	exp, mech := jobj(v, "exp"), jobj(v, "mech")
	clean := jbool(v, "clean")
	fn := r.Func
	if strings.HasPrefix(out.err, "panic:") {
		level := "prop"
		if !clean {
			level = "note"
		}
		key := "C07:" + fn + ":panic"
		if jint(exp, "n") == 0 && fn == "ICMP6SendRouterAdvertisement" {
			key = "C07:KF_ICMP6SendTooBigPanics" // the defect fixed by 1b8de3f, should it return
		}
		if jstr(mech, "err") == "panic" { // a labelled deviation of the mechanism model
			for _, x := range jlist(mech, "kf") {
				key = "C07:" + jstr(x.(map[string]interface{}), "label")
			}
		}
		r.add(level, key, "%s panicked: %s", fn, out.err)
		return
	}
	if jint(exp, "n") == 0 && clean {
		// the statement demands that nothing is transmitted (the request cannot be carried by one frame)
		if len(out.frames) > 0 {
			r.add("prop", "C07:"+fn+":unexpected-frame", "%s emitted %d frame(s) for a request that does not fit a frame", fn, len(out.frames))
		}
		if ee := jstr(exp, "err"); ee != "any" && ee != out.err {
			r.add("prop", "C07:"+fn+":error", "%s returned %s, expected %s", fn, out.err, ee)
		}
		if me := jstr(mech, "err"); me != "any" && me != out.err {
			r.add("mech", "send."+fn+".err", "returned %s, model %s", out.err, me)
		}
		return
	}
	// select the primary frame
	var primary []byte
	var others [][]byte
	for _, b := range out.frames {
		if out.primary == nil {
			if primary == nil {
				primary = b
			} else {
				others = append(others, b)
			}
			continue
		}
		a, _ := vh.RefDecode(b)
		if a != nil && primary == nil && out.primary(a) {
			primary = b
		} else {
			others = append(others, b)
		}
	}
	for _, b := range others {
		if _, err := vh.CheckWellFormed(b, c.nic.HostMAC); err != nil {
			key := "decode"
			if re, ok := err.(*vh.RefError); ok {
				key = re.Key
			}
			r.add("prop", "C07:"+fn+":secondary:"+key, "another frame emitted during the call is not well formed: %v (%x)", err, b)
			break
		}
	}
	// mechanism level: error value and number of frames
	if me := jstr(mech, "err"); me != "any" && me != out.err {
		r.add("mech", "send."+fn+".err", "returned %s, model %s", out.err, me)
	}
	if mn := jint(mech, "n"); mn >= 0 && (mn == 1) != (primary != nil) {
		r.add("mech", "send."+fn+".frames", "emitted %d frame(s), model %d", len(out.frames), mn)
	}
	if !clean {
		// arguments outside the domain of the statement: nothing is demanded; look anyway
		for _, b := range out.frames {
			if _, err := vh.CheckWellFormed(b, c.nic.HostMAC); err != nil {
				r.add("note", "badargs."+fn, "frame emitted for an invalid argument is not well formed: %v", err)
				break
			}
		}
		return
	}
	if jint(exp, "n") == 1 {
		if ee := jstr(exp, "err"); ee != "any" && ee != out.err && !(ee == "nil" && out.err == "ErrTimeout") {
			r.add("prop", "C07:"+fn+":error", "%s returned %s for valid arguments (expected %s)", fn, out.err, ee)
		}
		if primary == nil {
			r.add("prop", "C07:"+fn+":noframe", "%s emitted no frame of the intended kind (%d frames recorded, returned %s)", fn, len(out.frames), out.err)
			return
		}
	}
	if primary == nil {
		return
	}
	r.Frame = hex.EncodeToString(primary)
	abs, derr := vh.RefDecode(primary)
	flat := map[string]string{}
	if abs != nil {
		flat = abs.Flatten()
	}
	flat["sound"] = "ok"
	if derr != nil {
		flat["sound"] = "decode"
		if re, ok := derr.(*vh.RefError); ok {
			flat["sound"] = re.Key
		}
	}
	r.Flat = flat
	if abs != nil {
		for _, n := range abs.Notes {
			r.add("note", "wire."+n, "%s: %s", fn, n)
		}
	}
	kf := map[string]string{}
	for _, x := range jlist(mech, "kf") {
		m := x.(map[string]interface{})
		kf[jstr(m, "field")] = jstr(m, "label")
	}
	ef, mf := frameFields(jobj(exp, "fr")), frameFields(jobj(mech, "fr"))
	reported := map[string]bool{}
	fields := make([]string, 0, len(ef))
	for k := range ef {
		fields = append(fields, k)
	}
	sortStrings(fields)
	// a frame of another kind (labelled deviation) has none of the kind specific fields
	kindLabel := ""
	if label, has := kf["kind"]; has {
		w, ok1 := wantText(e, "kind", ef["kind"])
		mw, ok2 := wantText(e, "kind", mf["kind"])
		if ok1 && ok2 && !matches(flat, "kind", w) && matches(flat, "kind", mw) {
			kindLabel = label
		}
	}
	for _, field := range fields {
		want, ok := wantText(e, field, ef[field])
		if !ok || matches(flat, field, want) {
			continue
		}
		reported[field] = true
		key := "C07:" + fn + ":" + field
		if label, has := kf[field]; has {
			if mw, ok := wantText(e, field, mf[field]); ok && matches(flat, field, mw) {
				key = "C07:" + label
			}
		} else if kindLabel != "" && strings.HasPrefix(field, "f.") {
			key = "C07:" + kindLabel
		}
		got, has := flat[field]
		if !has {
			got = "(absent)"
		}
		r.add("prop", key, "%s: %s = %s, the caller asked for %s", fn, field, got, want)
	}
	if len(reported) == 0 {
		// predicates that do not depend on the call: 33:33 mapping, NDP hop limit, Ethernet source
		if _, err := vh.CheckWellFormed(primary, c.nic.HostMAC); err != nil {
			key := "wf"
			if re, ok := err.(*vh.RefError); ok {
				key = re.Key
			}
			r.add("prop", "C07:"+fn+":"+key, "%v", err)
		}
	}
	for field, v := range mf {
		if reported[field] {
			continue
		}
		if want, ok := wantText(e, field, v); ok && !matches(flat, field, want) {
			got := flat[field]
			r.add("mech", "send."+fn+"."+field, "%s = %s, mechanism model %s", field, got, want)
		}
	}
}

func sortStrings(s []string) {
	for i := 1; i < len(s); i++ {
		for j := i; j > 0 && s[j] < s[j-1]; j-- {
			s[j], s[j-1] = s[j-1], s[j]
		}
	}
}

func sendMode(vecs []jmap, out string, k int, seed int64, tmp string) {
	sk := newSink(out)
	dir, err := os.MkdirTemp(tmp, "wiredrv-")
	if err != nil {
		panic(err)
	}
	defer os.RemoveAll(dir)
	s := &sender{ctx: map[string]*nicCtx{}, tmp: dir}
	skipped := map[string]int{}
	for _, v := range vecs {
		sk.cases++
		id := jint(v, "id")
		for inst := 0; inst < k; inst++ {
			sd := seed*1000003 + int64(id)*131 + int64(inst)
			r := &result{ID: id, Inst: inst, Seed: sd, Part: "send"}
			s.runVector(v, inst, sd, r)
			if r.Skipped != "" {
				skipped[r.Skipped]++
			}
			if len(r.Findings) == 0 {
				r.Frame, r.Flat = "", nil
			}
			sk.put(r)
		}
	}
	for _, c := range s.ctx {
		go c.sess.Close()
	}
	sk.finish(jmap{"skipped": skipped, "dnshook": hasDNSHook})
}
