//go:build !dnshook

package main

import "github.com/irai/packet"

// the constructor of dns_naming binds multicast sockets; without the verif hook the DNS send
// functions are skipped (recorded in the evidence)
const hasDNSHook = false

func newDNS(s *packet.Session) dnsAPI { return nil }
