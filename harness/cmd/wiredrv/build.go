package main

// Part A / B of spec/Wire.tla: execute build sequences and DHCP layout vectors on the real encoders.

import (
	"bytes"
	"encoding/binary"
	"encoding/hex"
	"fmt"
	"math/rand"
	"net"
	"net/netip"
	"strings"
	"sync"
	"time"

	"github.com/irai/packet"
	"verifharness/vh"
)

const guardLen = 96

func guardByte(i int) byte { return byte(0xA5 ^ (i * 29)) }

type buffer struct {
	backing []byte
	cap     int
}

func newBuffer(c int) *buffer {
	b := &buffer{backing: make([]byte, c+guardLen), cap: c}
	for i := range b.backing {
		b.backing[i] = guardByte(i)
	}
	return b
}

func (b *buffer) guardOK() bool {
	for i := b.cap; i < len(b.backing); i++ {
		if b.backing[i] != guardByte(i) {
			return false
		}
	}
	return true
}

type dhcpSup struct {
	op      packet.DHCP4OpCode
	mt      packet.DHCP4MessageType
	chaddr  net.HardwareAddr
	ci, yi  netip.Addr
	xid     []byte
	bcast   bool
	options map[uint8][]byte
	order   []byte
}

func randBytes(r *rand.Rand, n int) []byte {
	b := make([]byte, n)
	r.Read(b)
	return b
}

func rand4(r *rand.Rand) netip.Addr {
	return netip.AddrFrom4([4]byte{byte(1 + r.Intn(222)), byte(r.Intn(256)), byte(r.Intn(256)), byte(1 + r.Intn(254))})
}

func rand6(r *rand.Rand) netip.Addr {
	var a [16]byte
	r.Read(a[:])
	a[0] = 0x20 | a[0]&0x0f
	return netip.AddrFrom16(a)
}

func newDhcpSup(r *rand.Rand, v jmap) *dhcpSup {
	s := &dhcpSup{op: packet.DHCP4OpCode(1 + r.Intn(2)), mt: packet.DHCP4MessageType(1 + r.Intn(8)), chaddr: randBytes(r, 6),
		ci: rand4(r), yi: rand4(r), xid: randBytes(r, 4), bcast: r.Intn(2) == 0, options: map[uint8][]byte{}}
	lens := map[int]int{}
	for _, x := range jlist(v, "optlens") {
		m := x.(map[string]interface{})
		lens[jint(m, "c")] = jint(m, "n")
	}
	for _, c := range jints(v, "opts") {
		s.options[uint8(c)] = randBytes(r, lens[c])
	}
	for _, c := range jints(v, "order") {
		s.order = append(s.order, byte(c))
	}
	return s
}

func (s *dhcpSup) encode(b []byte) packet.DHCP4 {
	opts := packet.DHCP4Options{}
	for c, val := range s.options {
		opts[packet.DHCP4OptionCode(c)] = append([]byte{}, val...)
	}
	var order []byte
	if s.order != nil {
		order = append(make([]byte, 0, len(s.order)), s.order...) // cap == len: the encoder appends to it
	}
	return packet.EncodeDHCP4(b, s.op, s.mt, s.chaddr, s.ci, s.yi, s.xid, s.bcast, opts, order)
}

func isPrefixInts(p, q []int) bool {
	if len(p) > len(q) {
		return false
	}
	for i := range p {
		if p[i] != q[i] {
			return false
		}
	}
	return true
}

func indexOf(q []int, x int) int {
	for i, v := range q {
		if v == x {
			return i
		}
	}
	return -1
}

// checkDHCP compares a DHCP message produced by EncodeDHCP4 with the supplied values (reference
// decoder and library views) and with the layout computed by the specification.
func checkDHCP(r *result, msg []byte, s *dhcpSup, exp jmap) {
	d, err := vh.RefDHCP4(msg)
	if err != nil {
		r.add("prop", "C03:DHCP4.refdecode", "reference decoder rejects the encoded message: %v", err)
		return
	}
	chk := func(name string, got, want interface{}) {
		if fmt.Sprint(got) != fmt.Sprint(want) {
			r.add("prop", "C03:DHCP4."+name, "reference decoder reads %s=%v, supplied %v", name, got, want)
		}
	}
	chk("op", d.Op, uint8(s.op))
	chk("msgtype", d.MsgType, int(s.mt))
	chk("chaddr", d.CHAddr, net.HardwareAddr(s.chaddr))
	chk("ciaddr", d.CI, s.ci)
	chk("yiaddr", d.YI, s.yi)
	chk("siaddr", d.SI, "0.0.0.0")
	chk("giaddr", d.GI, "0.0.0.0")
	chk("xid", hex.EncodeToString(d.XID), hex.EncodeToString(s.xid))
	wantFlags := 0
	if s.bcast {
		wantFlags = 0x8000
	}
	chk("flags", int(d.Flags), wantFlags)
	chk("hops", d.Hops, 0)
	chk("secs", d.Secs, 0)
	if !bytes.Equal(d.CHPad, make([]byte, 10)) || !bytes.Equal(d.SName, make([]byte, 64)) || !bytes.Equal(d.File, make([]byte, 128)) {
		r.add("prop", "C03:DHCP4.legacyfields", "chaddr padding / sname / file are not zero")
	}
	if len(d.Dups) > 0 {
		r.add("prop", "C03:DHCP4.duplicate", "option(s) %v occur more than once", d.Dups)
	}
	got := map[uint8][]byte{} // RFC 3396 reading: instances of one code are concatenated
	for c, val := range d.Concat {
		got[c] = val
	}
	for c, val := range s.options {
		if c == 53 {
			continue
		}
		if g, ok := got[c]; !ok || !bytes.Equal(g, val) {
			r.add("prop", "C03:DHCP4.option", "supplied option %d=%x decoded as %x (present=%v)", c, val, g, ok)
		}
	}
	for c := range got {
		if _, ok := s.options[c]; !ok && c != 53 {
			r.add("prop", "C03:DHCP4.option", "option %d was not supplied", c)
		}
	}
	if d.PadBeforeEnd != 0 {
		r.add("mech", "DHCP4.padbeforeend", "%d pad bytes before End", d.PadBeforeEnd)
	}
	if d.Len < 300 {
		r.add("prop", "C03:DHCP4.pad300", "message of %d bytes is shorter than the BOOTP minimum of 300", d.Len)
	}
	if want := jint(exp, "len"); d.Len != want {
		r.add("prop", "C03:DHCP4.len", "message length %d, specification %d", d.Len, want)
	}
	codes := d.Codes()
	req := jints(exp, "req")
	if !isPrefixInts(req, codes) {
		r.add("prop", "C03:DHCP4.order.requested", "requested-parameter order %v is not honoured: wire order %v", req, codes)
	}
	if i, j := indexOf(codes, 1), indexOf(codes, 3); i >= 0 && j >= 0 && !jbool(exp, "conflict") && i > j {
		r.add("prop", "C03:DHCP4.order.maskfirst", "router option before subnet mask: wire order %v", codes)
	}
	if pre := jints(exp, "prefix"); !isPrefixInts(pre, codes) {
		r.add("mech", "DHCP4.prefix", "wire order %v does not start with the model's prefix %v", codes, pre)
	}
	// the library's own view
	p := packet.DHCP4(msg)
	if err := p.IsValid(); err != nil {
		r.add("prop", "C03:view.DHCP4.IsValid", "library view rejects the message it encoded: %v", err)
		return
	}
	vchk := func(name string, got, want interface{}) {
		if fmt.Sprint(got) != fmt.Sprint(want) {
			r.add("prop", "C03:view.DHCP4."+name, "library view reads %s=%v, supplied %v", name, got, want)
		}
	}
	vchk("OpCode", p.OpCode(), s.op)
	vchk("CHAddr", p.CHAddr(), net.HardwareAddr(s.chaddr))
	vchk("CIAddr", p.CIAddr(), s.ci)
	vchk("YIAddr", p.YIAddr(), s.yi)
	vchk("XId", hex.EncodeToString(p.XId()), hex.EncodeToString(s.xid))
	vchk("Broadcast", p.Broadcast(), s.bcast)
	po := p.ParseOptions()
	if t := po[packet.DHCP4OptionDHCPMessageType]; len(t) != 1 || t[0] != byte(s.mt) {
		vchk("MessageType", t, []byte{byte(s.mt)})
	}
	for c, val := range s.options {
		if c != 53 && !bytes.Equal(po[packet.DHCP4OptionCode(c)], val) {
			vchk("option"+fmt.Sprint(c), po[packet.DHCP4OptionCode(c)], val)
		}
	}
	if len(po) != len(got) {
		vchk("optioncount", len(po), len(got))
	}
}

func runDhcpVec(v jmap, rng *rand.Rand, r *result) {
	c := jint(v, "cap")
	exp := jobj(v, "exp")
	buf := newBuffer(c)
	s := newDhcpSup(rng, v)
	b := buf.backing[:c:c]
	if rng.Intn(2) == 0 {
		b = buf.backing[:0:c]
	}
	msg := s.encode(b)
	if !buf.guardOK() {
		r.add("prop", "C03:DHCP4.overwrite", "EncodeDHCP4 wrote past the capacity %d of its buffer", c)
	}
	if jstr(exp, "res") == "nil" {
		if msg != nil {
			r.add("prop", "C03:DHCP4.mincap", "EncodeDHCP4 accepted a buffer of capacity %d (< 300)", c)
		}
		return
	}
	if msg == nil {
		r.add("prop", "C03:DHCP4.nil", "EncodeDHCP4 returned nil for capacity %d although the encoding (%d bytes) fits", c, jint(exp, "len"))
		return
	}
	r.Frame = hex.EncodeToString(msg)
	checkDHCP(r, msg, s, exp)
}

// makeName returns a wire-format DNS name of exactly n bytes (n = 1 or n >= 3).
func makeName(r *rand.Rand, n int) []byte {
	out := []byte{}
	body := n - 1
	for body > 0 {
		l := body - 1
		if l > 63 {
			l = 63
		}
		if body-1-l == 1 { // never leave a single byte: it cannot hold a label
			l--
		}
		out = append(out, byte(l))
		for i := 0; i < l; i++ {
			out = append(out, byte('a'+r.Intn(26)))
		}
		body -= 1 + l
	}
	return append(out, 0)
}

type builder struct {
	hist []interface{}
	r    *result
	rng  *rand.Rand
	buf  *buffer
	sess *packet.Session

	ether        packet.Ether
	ip4          packet.IP4
	ip6          packet.IP6
	udp          packet.UDP
	child        []byte // innermost in-place child slice not yet attached
	net          string // ip4 | ip6 | arp
	leaf         string // kind of the innermost payload: raw echo dhcp dns ns na arp none ip4ext
	leafAt       string // layer the leaf hangs on: udp | ip
	hasUDP       bool
	ipPayloadSet bool

	// supplied values
	ethSrc, ethDst           net.HardwareAddr
	etype                    uint16
	ipSrc, ipDst             netip.Addr
	hop                      uint8
	proto                    uint8
	sport, dport             uint16
	raw                      []byte
	echoType                 uint8
	echoID, echoSeq          uint16
	echoData                 []byte
	arpOp                    uint16
	arpS, arpT               packet.Addr
	dhcp                     *dhcpSup
	dhcpExp                  jmap
	dnsID, dnsFlags, dnsType uint16
	dnsName                  []byte
	ndTarget                 netip.Addr
	ndMAC                    net.HardwareAddr
	naR, naS, naO            bool
	extpkt                   []byte
}

func (b *builder) stepCheck(a jmap, what string, gotLen int, gotLF int) {
	exp := jobj(a, "exp")
	if want := jint(exp, "len"); gotLen != want {
		b.r.add("mech", "build."+what+".len", "%s: slice length %d, specification %d", what, gotLen, want)
	}
	if _, has := exp["lf"]; has && gotLF >= 0 {
		if want := jint(exp, "lf"); want >= 0 && gotLF != want {
			b.r.add("mech", "build."+what+".lengthfield", "%s: length field %d, specification %d", what, gotLF, want)
		}
	}
}

func (b *builder) ipPayload() []byte {
	if b.net == "ip4" {
		return b.ip4.Payload()
	}
	return b.ip6.Payload()
}

func ports(class string, r *rand.Rand) (uint16, uint16) {
	switch class {
	case "dhcp":
		return 68, 67
	case "mdns":
		return 5353, 5353
	case "nbns":
		return 137, 137
	case "ssdp":
		return 1900, 1900
	case "llmnr":
		return 5355, 5355
	}
	return uint16(40000 + r.Intn(9000)), uint16(50000 + r.Intn(9000))
}

// step executes one action of the behaviour; returns false when the behaviour ends here.
func (b *builder) step(a jmap) bool {
	r, rng := b.r, b.rng
	exp := jobj(a, "exp")
	want := jstr(exp, "res")
	switch jstr(a, "a") {
	case "ether":
		b.ethSrc, b.ethDst = randBytes(rng, 6), randBytes(rng, 6)
		b.ethSrc[0] &^= 1
		b.net = jstr(a, "et")
		b.etype = map[string]uint16{"ip4": 0x0800, "ip6": 0x86dd, "arp": 0x0806}[b.net]
		b.ether = packet.EncodeEther(b.buf.backing[:b.buf.cap:b.buf.cap], b.etype, b.ethSrc, b.ethDst)
		b.stepCheck(a, "EncodeEther", len(b.ether), -1)
	case "ip4":
		b.ipSrc, b.ipDst, b.hop = rand4(rng), rand4(rng), uint8(1+rng.Intn(255))
		if r.Inst%3 != 0 { // instance 1: little-endian accumulation, instance 2: big-endian
			b.directIP4Header(r.Inst%3 == 1)
		}
		b.ip4 = packet.EncodeIP4(b.ether.Payload(), b.hop, b.ipSrc, b.ipDst)
		b.stepCheck(a, "EncodeIP4", len(b.ip4), b.ip4.TotalLen())
		b.leaf = "none"
	case "ip6":
		b.ipSrc, b.ipDst, b.hop = rand6(rng), rand6(rng), uint8(1+rng.Intn(255))
		b.ip6 = packet.EncodeIP6(b.ether.Payload(), b.hop, b.ipSrc, b.ipDst)
		b.stepCheck(a, "EncodeIP6", len(b.ip6), int(b.ip6.PayloadLen()))
		if len(b.ip6) > 0 && &b.ip6[0] != &b.buf.backing[14] {
			r.add("prop", "C03:EncodeIP6.detached", "EncodeIP6 did not encode into the buffer it was given (capacity %d)", b.buf.cap-14)
		}
		b.leaf = "none"
	case "arp":
		b.arpOp = uint16(1 + rng.Intn(2))
		b.arpS = packet.Addr{MAC: randBytes(rng, 6), IP: rand4(rng)}
		b.arpT = packet.Addr{MAC: randBytes(rng, 6), IP: rand4(rng)}
		panicked := false
		var arp packet.ARP
		func() {
			defer func() {
				if recover() != nil {
					panicked = true
				}
			}()
			arp = packet.EncodeARP(b.ether.Payload(), b.arpOp, b.arpS, b.arpT)
		}()
		if want == "panic" {
			if !panicked {
				r.add("mech", "build.EncodeARP.mincap", "EncodeARP accepted a buffer of capacity %d (< 28)", b.buf.cap-14)
			}
			return false
		}
		if panicked {
			r.add("prop", "C03:EncodeARP.panic", "EncodeARP panicked with capacity %d", b.buf.cap-14)
			return false
		}
		b.child, b.leaf = arp, "arp"
		b.stepCheck(a, "EncodeARP", len(arp), -1)
	case "udp":
		b.sport, b.dport = ports(jstr(a, "ports"), rng)
		b.udp = packet.EncodeUDP(b.ipPayload(), b.sport, b.dport)
		if want == "nil" {
			if b.udp != nil {
				r.add("prop", "C03:EncodeUDP.mincap", "EncodeUDP accepted a buffer with %d bytes of capacity", cap(b.ipPayload()))
			}
			return false
		}
		if b.udp == nil {
			r.add("prop", "C03:EncodeUDP.nil", "EncodeUDP returned nil with %d bytes of capacity", cap(b.ipPayload()))
			return false
		}
		b.hasUDP, b.proto = true, 17
		b.child = b.udp
		b.leaf = "none"
		b.stepCheck(a, "EncodeUDP", len(b.udp), int(b.udp.Len()))
	case "echoin":
		n := jint(a, "n")
		b.newEcho(n)
		e := packet.EncodeICMPEcho(b.ipPayload(), b.echoType, 0, b.echoID, b.echoSeq, b.echoData)
		if want == "nil" {
			if e != nil {
				r.add("prop", "C03:EncodeICMPEcho.mincap", "EncodeICMPEcho accepted %d data bytes with capacity %d", n, cap(b.ipPayload()))
			}
			return false
		}
		if e == nil {
			r.add("prop", "C03:EncodeICMPEcho.nil", "EncodeICMPEcho returned nil for %d data bytes with capacity %d", n, cap(b.ipPayload()))
			return false
		}
		b.child, b.leaf, b.leafAt = e, "echo", "ip"
		b.stepCheck(a, "EncodeICMPEcho", len(e), -1)
	case "rawin":
		n := jint(a, "n")
		b.raw = randBytes(rng, n)
		var dst []byte
		if b.hasUDP {
			dst, b.leafAt = b.udp.Payload()[:n], "udp"
		} else {
			dst, b.leafAt = b.ipPayload()[:n], "ip"
			b.proto = 253
		}
		copy(dst, b.raw)
		b.child, b.leaf = dst, "raw"
	case "dhcpin":
		b.dhcp, b.dhcpExp = newDhcpSup(rng, a), exp
		msg := b.dhcp.encode(b.udp.Payload())
		if want == "nil" {
			if msg != nil {
				r.add("prop", "C03:DHCP4.mincap", "EncodeDHCP4 accepted a buffer of capacity %d (< 300)", cap(b.udp.Payload()))
			}
			return false
		}
		if msg == nil {
			r.add("prop", "C03:DHCP4.nil", "EncodeDHCP4 returned nil with capacity %d", cap(b.udp.Payload()))
			return false
		}
		b.child, b.leaf, b.leafAt = msg, "dhcp", "udp"
		b.stepCheck(a, "EncodeDHCP4", len(msg), -1)
	case "appext":
		return b.appendExt(a, exp, want)
	case "etherappext":
		return b.etherAppendExt(a, exp, want)
	case "attach":
		b.attach(a)
	default:
		panic("unknown build action " + jstr(a, "a"))
	}
	if !b.buf.guardOK() {
		r.add("prop", "C03:overwrite", "%s wrote past the buffer capacity %d", jstr(a, "a"), b.buf.cap)
		return false
	}
	return true
}

// directIP4Header chooses the destination address so that the one's complement sum of the FINAL IPv4 header (total
// length and protocol as the rest of the behaviour will set them) needs its second fold (NeedsSecondFold of
// spec/Wire.tla), under little- or big-endian accumulation: a header checksum routine that folds once is wrong
// for about 1 header in 27 000 only.
func (b *builder) directIP4Header(le bool) {
	total, proto := -1, 253
	for _, h := range b.hist {
		m := h.(map[string]interface{})
		switch jstr(m, "a") {
		case "udp":
			proto = 17
		case "echoin":
			proto = 1
		case "appext":
			if jstr(m, "layer") == "ip4" && jstr(m, "kind") == "echo" {
				proto = 1
			}
		}
		if a := jstr(m, "a"); (a == "attach" || a == "appext") && jstr(m, "layer") == "ip4" && jstr(jobj(m, "exp"), "res") == "ok" && total < 0 {
			total = jint(jobj(m, "exp"), "lf")
		}
	}
	if total < 20 {
		return
	}
	hdr := make([]byte, 20)
	hdr[0], hdr[1] = 0x45, 0xc0
	binary.BigEndian.PutUint16(hdr[2:4], uint16(total))
	hdr[8], hdr[9] = b.hop, byte(proto)
	s, d := b.ipSrc.As4(), b.ipDst.As4()
	copy(hdr[12:16], s[:])
	start := int(d[2])<<8 | int(d[3])
	for k := 0; k < 65536; k++ {
		v := (start + k) & 0xffff
		d[2], d[3] = byte(v>>8), byte(v)
		copy(hdr[16:20], d[:])
		if needsSecondFold(wordSum(le, hdr)) {
			b.ipDst = netip.AddrFrom4(d)
			b.r.add("note", "directed.ip4hdr.hit", "destination %s chosen: the header sum needs the second fold", b.ipDst)
			return
		}
	}
	b.r.add("note", "directed.ip4hdr.nohit", "no destination found")
}

func (b *builder) newEcho(n int) {
	if b.net == "ip4" {
		b.echoType, b.proto = 8, 1
	} else {
		b.echoType, b.proto = 128, 58
	}
	b.echoID, b.echoSeq, b.echoData = uint16(b.rng.Intn(65536)), uint16(b.rng.Intn(65536)), randBytes(b.rng, n)
}

func (b *builder) appendExt(a, exp jmap, want string) bool {
	r, rng := b.r, b.rng
	kind, n := jstr(a, "kind"), jint(a, "n")
	var ext []byte
	var proto uint8
	switch kind {
	case "raw":
		b.raw = randBytes(rng, n)
		ext = b.raw
		if jstr(a, "layer") != "udp" {
			proto = 253
		}
	case "dns":
		b.dnsID, b.dnsFlags, b.dnsType = uint16(rng.Intn(65536)), uint16(rng.Intn(65536)), uint16(1+rng.Intn(255))
		b.dnsName = makeName(rng, n-16)
		ext = packet.EncodeDNSQuery(b.dnsID, b.dnsFlags, b.dnsName, b.dnsType)
	case "echo":
		b.newEcho(n - 8)
		ext, proto = packet.EncodeICMPEcho(make([]byte, n), b.echoType, 0, b.echoID, b.echoSeq, b.echoData), b.proto
	case "ns":
		b.ndTarget, b.ndMAC = rand6(rng), randBytes(rng, 6)
		ext, _ = packet.ICMP6NeighborSolicitationMarshal(b.ndTarget, b.ndMAC)
		proto = 58
	case "na":
		b.ndTarget, b.ndMAC = rand6(rng), randBytes(rng, 6)
		b.naR, b.naS, b.naO = rng.Intn(2) == 0, rng.Intn(2) == 0, rng.Intn(2) == 0
		ext = packet.ICMP6NeighborAdvertisementMarshal(b.naR, b.naS, b.naO, packet.Addr{MAC: b.ndMAC, IP: b.ndTarget})
		proto = 58
	}
	if len(ext) != n {
		r.add("prop", "C03:"+kind+".len", "encoder of %s produced %d bytes, specification %d", kind, len(ext), n)
		return false
	}
	if jbool(exp, "stable") || want == "ErrPayloadTooBig" {
		// the result belongs to the caller: encode decoys (same goroutine and another one) and look again
		if why := b.stableProbe(kind, ext); why != "" {
			r.add("prop", "C03:stable."+kind, "%s", why)
			return false
		}
	}
	if proto != 0 {
		b.proto = proto
	}
	var err error
	var gotLen, gotLF int
	layer := jstr(a, "layer")
	switch layer {
	case "udp":
		var u packet.UDP
		u, err = b.udp.AppendPayload(ext)
		if err == nil {
			b.udp, b.child = u, u
			gotLen, gotLF = len(u), int(u.Len())
		} else {
			gotLen, gotLF = len(b.udp), int(b.udp.Len())
		}
		b.leafAt = "udp"
	case "ip4":
		var p packet.IP4
		p, err = b.ip4.AppendPayload(ext, b.proto)
		if err == nil {
			b.ip4 = p
		}
		gotLen, gotLF = len(b.ip4), b.ip4.TotalLen()
		b.leafAt, b.ipPayloadSet = "ip", true
	case "ip6":
		var p packet.IP6
		p, err = b.ip6.AppendPayload(ext, b.proto)
		if err == nil {
			b.ip6 = p
		}
		gotLen, gotLF = len(b.ip6), int(b.ip6.PayloadLen())
		b.leafAt, b.ipPayloadSet = "ip", true
	}
	if !b.buf.guardOK() {
		r.add("prop", "C03:AppendPayload."+layer+".overwrite", "%s.AppendPayload(%d bytes) wrote past the buffer capacity", layer, n)
		return false
	}
	if want == "ErrPayloadTooBig" {
		if err != packet.ErrPayloadTooBig {
			r.add("prop", "C03:AppendPayload."+layer+".toobig", "%s.AppendPayload of %d bytes beyond the remaining capacity returned %v, want ErrPayloadTooBig", layer, n, err)
		}
		return false
	}
	if err != nil {
		r.add("prop", "C03:AppendPayload."+layer+".spurious", "%s.AppendPayload of %d bytes that fit returned %v", layer, n, err)
		return false
	}
	b.leaf = kind
	b.stepCheck(a, layer+".AppendPayload", gotLen, gotLF)
	return true
}

// stableProbe re-runs the encoder that produced ext with other values, on this goroutine and concurrently
// on a second one, and reports if the bytes of the earlier result changed.
func (b *builder) stableProbe(kind string, ext []byte) string {
	if kind != "dns" && kind != "ns" && kind != "na" {
		return ""
	}
	snap := append([]byte{}, ext...)
	decoy := func(rng *rand.Rand) {
		switch kind {
		case "dns":
			packet.EncodeDNSQuery(uint16(rng.Intn(65536)), uint16(rng.Intn(65536)), makeName(rng, 1+3*rng.Intn(40)+2), uint16(1+rng.Intn(255)))
		case "ns":
			packet.ICMP6NeighborSolicitationMarshal(rand6(rng), randBytes(rng, 6))
		case "na":
			packet.ICMP6NeighborAdvertisementMarshal(true, true, true, packet.Addr{MAC: randBytes(rng, 6), IP: rand6(rng)})
		}
	}
	seed := b.rng.Int63()
	done := make(chan struct{})
	go func() {
		r2 := rand.New(rand.NewSource(seed))
		for i := 0; i < 4; i++ {
			decoy(r2)
		}
		close(done)
	}()
	for i := 0; i < 4; i++ {
		decoy(b.rng)
	}
	<-done
	if !bytes.Equal(snap, ext) {
		name := map[string]string{"dns": "EncodeDNSQuery", "ns": "ICMP6NeighborSolicitationMarshal", "na": "ICMP6NeighborAdvertisementMarshal"}[kind]
		return fmt.Sprintf("the %d bytes returned by %s changed after later calls of %s: was %x.., is %x..", len(ext), name, name, snap[:min(len(snap), 12)], ext[:min(len(ext), 12)])
	}
	return ""
}

func min(a, b int) int {
	if a < b {
		return a
	}
	return b
}

func (b *builder) etherAppendExt(a, exp jmap, want string) bool {
	r, rng := b.r, b.rng
	n, slack := jint(a, "n"), jint(a, "slack")
	b.ipSrc, b.ipDst, b.hop, b.proto = rand4(rng), rand4(rng), uint8(1+rng.Intn(255)), 253
	b.raw = randBytes(rng, n-20)
	pkt := vh.IP4(b.ipSrc, b.ipDst, b.proto, b.hop, uint16(rng.Intn(65536)), b.raw)
	ext := make([]byte, n, n+slack)
	copy(ext, pkt)
	b.extpkt = ext
	var e packet.Ether
	var err error
	panicked := ""
	func() {
		defer func() {
			if x := recover(); x != nil {
				panicked = fmt.Sprint(x)
			}
		}()
		e, err = b.ether.AppendPayload(ext)
	}()
	if !b.buf.guardOK() {
		r.add("prop", "C03:AppendPayload.ether.overwrite", "Ether.AppendPayload(%d bytes) wrote past the buffer capacity", n)
		return false
	}
	if panicked != "" {
		key := "C03:AppendPayload.ether.panic"
		if jbool(exp, "capover") { // the defect fixed by ca70b93: destination sliced by cap(payload)
			key = "C03:KF_EtherAppendCap"
		}
		r.add("prop", key, "Ether.AppendPayload panicked for a payload of %d bytes (slice capacity %d) and a buffer of capacity %d: %s", n, n+slack, b.buf.cap, panicked)
		return false
	}
	if want == "ErrPayloadTooBig" {
		if err != packet.ErrPayloadTooBig {
			r.add("prop", "C03:AppendPayload.ether.toobig", "Ether.AppendPayload of %d bytes into capacity %d returned %v", n, b.buf.cap, err)
		}
		return false
	}
	if err != nil {
		r.add("prop", "C03:AppendPayload.ether.spurious", "Ether.AppendPayload of %d bytes that fit returned %v", n, err)
		return false
	}
	b.ether, b.net, b.leaf, b.leafAt, b.ipPayloadSet = e, "ip4", "raw", "ip", true
	b.stepCheck(a, "Ether.AppendPayload", len(e), -1)
	return true
}

func (b *builder) attach(a jmap) {
	mode, layer := jstr(a, "mode"), jstr(a, "layer")
	var err error
	switch layer {
	case "udp":
		if mode == "set" {
			b.udp = b.udp.SetPayload(b.child)
		} else {
			b.udp, err = b.udp.AppendPayload(b.child)
		}
		if err == nil {
			b.stepCheck(a, "UDP."+mode, len(b.udp), int(b.udp.Len()))
			b.child = b.udp
		}
	case "ip4":
		if mode == "set" {
			b.ip4 = b.ip4.SetPayload(b.child, b.proto)
		} else {
			b.ip4, err = b.ip4.AppendPayload(b.child, b.proto)
		}
		if err == nil {
			b.stepCheck(a, "IP4."+mode, len(b.ip4), b.ip4.TotalLen())
			b.ipPayloadSet = true
		}
	case "ip6":
		if mode == "set" {
			b.ip6 = b.ip6.SetPayload(b.child, b.proto)
		} else {
			b.ip6, err = b.ip6.AppendPayload(b.child, b.proto)
		}
		if err == nil {
			b.stepCheck(a, "IP6."+mode, len(b.ip6), int(b.ip6.PayloadLen()))
			b.ipPayloadSet = true
		}
	case "ether":
		var inner []byte
		switch b.net {
		case "ip4":
			inner = b.ip4
		case "ip6":
			inner = b.ip6
		default:
			inner = b.child
		}
		if mode == "set" {
			b.ether, err = b.ether.SetPayload(inner)
		} else {
			b.ether, err = b.ether.AppendPayload(inner)
		}
		if err == nil {
			b.stepCheck(a, "Ether."+mode, len(b.ether), -1)
		}
	}
	if err != nil {
		b.r.add("prop", "C03:attach."+layer+".spurious", "%s.%sPayload of a payload built in place returned %v", layer, mode, err)
		panic(stopBehaviour{})
	}
}

type stopBehaviour struct{}

// patchICMP writes a reference checksum into a copy of the frame (the encoders leave it to the send path).
func patchICMP(frame []byte, v6 bool, ipOff, icmpOff, icmpLen int) {
	m := frame[icmpOff : icmpOff+icmpLen]
	m[2], m[3] = 0, 0
	var c uint16
	if v6 {
		ph := make([]byte, 40)
		copy(ph[0:32], frame[ipOff+8:ipOff+40])
		binary.BigEndian.PutUint32(ph[32:36], uint32(icmpLen))
		ph[39] = 58
		c = vh.Cksum(ph, m)
	} else {
		c = vh.Cksum(m)
	}
	binary.BigEndian.PutUint16(m[2:4], c)
}

func (b *builder) finalCheck(classify string) {
	r := b.r
	frame := append([]byte{}, b.ether...)
	r.Frame = hex.EncodeToString(frame)
	ipOff := 14
	hl := map[string]int{"ip4": 20, "ip6": 40}[b.net]
	icmpLeaf := b.leaf == "echo" || b.leaf == "ns" || b.leaf == "na"
	if icmpLeaf {
		n := len(frame) - ipOff - hl
		if b.net == "ip4" {
			n = int(binary.BigEndian.Uint16(frame[16:18])) - 20
		}
		if n >= 4 && ipOff+hl+n <= len(frame) {
			patchICMP(frame, b.net == "ip6", ipOff, ipOff+hl, n)
		}
	}
	f, err := vh.RefDecode(frame)
	if err != nil {
		re, _ := err.(*vh.RefError)
		key := ""
		if re != nil {
			key = re.Key
		}
		// the application decoder is chosen by port: it only has to accept what was really encoded
		app := (strings.HasPrefix(key, "dhcp.") && b.leaf != "dhcp") || (strings.HasPrefix(key, "dns.") && b.leaf != "dns") || strings.HasPrefix(key, "ssdp.")
		switch {
		case (key == "ip4.proto" || key == "ip6.next") && (b.leaf == "raw" || b.leaf == "none") && b.leafAt != "udp":
		case app:
		case key == "ip4.checksum" && !b.ipPayloadSet: // EncodeIP4 documents checksum 0 until SetPayload
			r.add("note", "ip4.headeronly", "header-only IPv4 packet has no checksum yet")
			return
		default:
			r.add("prop", "C03:refdecode."+key, "reference decoder rejects the built frame: %v", err)
			return
		}
	}
	r.Flat = f.Flatten()
	chk := func(name string, got, want interface{}) {
		if fmt.Sprint(got) != fmt.Sprint(want) {
			r.add("prop", "C03:roundtrip."+name, "reference decoder reads %s=%v, supplied %v", name, got, want)
		}
	}
	vchk := func(name string, got, want interface{}) {
		if fmt.Sprint(got) != fmt.Sprint(want) {
			r.add("prop", "C03:view."+name, "library view reads %s=%v, supplied %v", name, got, want)
		}
	}
	chk("ethSrc", f.EthSrc, net.HardwareAddr(b.ethSrc))
	chk("ethDst", f.EthDst, net.HardwareAddr(b.ethDst))
	chk("etherType", f.EtherType, b.etype)
	ev := packet.Ether(b.ether)
	vchk("Ether.Src", ev.Src(), net.HardwareAddr(b.ethSrc))
	vchk("Ether.Dst", ev.Dst(), net.HardwareAddr(b.ethDst))
	vchk("Ether.EtherType", ev.EtherType(), b.etype)
	var payload []byte // what the IP layer carries according to its length field
	switch b.net {
	case "arp":
		if f.ARP == nil {
			return
		}
		chk("arp.op", f.ARP.Op, b.arpOp)
		chk("arp.sha", f.ARP.SHA, b.arpS.MAC)
		chk("arp.spa", f.ARP.SPA, b.arpS.IP)
		chk("arp.tha", f.ARP.THA, b.arpT.MAC)
		chk("arp.tpa", f.ARP.TPA, b.arpT.IP)
		av := packet.ARP(ev.Payload())
		if err := av.IsValid(); err != nil {
			vchk("ARP.IsValid", err, nil)
		} else {
			vchk("ARP.Operation", av.Operation(), b.arpOp)
			vchk("ARP.SrcMAC", av.SrcMAC(), b.arpS.MAC)
			vchk("ARP.SrcIP", av.SrcIP(), b.arpS.IP)
			vchk("ARP.DstMAC", av.DstMAC(), b.arpT.MAC)
			vchk("ARP.DstIP", av.DstIP(), b.arpT.IP)
		}
	case "ip4", "ip6":
		if f.IP == nil {
			return
		}
		chk("ip.src", f.IP.Src, b.ipSrc)
		chk("ip.dst", f.IP.Dst, b.ipDst)
		chk("ip.hop", f.IP.Hop, b.hop)
		wantProto := b.proto
		if !b.ipPayloadSet {
			wantProto = map[string]uint8{"ip4": 0, "ip6": 59}[b.net]
		}
		chk("ip.proto", f.IP.Proto, wantProto)
		if b.net == "ip4" {
			payload = frame[14+f.IP.IHL : 14+f.IP.LenField]
			v := packet.IP4(ev.Payload())
			if err := v.IsValid(); err != nil {
				vchk("IP4.IsValid", err, nil)
			} else {
				vchk("IP4.Src", v.Src(), b.ipSrc)
				vchk("IP4.Dst", v.Dst(), b.ipDst)
				vchk("IP4.TTL", v.TTL(), b.hop)
				vchk("IP4.Protocol", v.Protocol(), wantProto)
				vchk("IP4.TotalLen", v.TotalLen(), 20+len(payload))
				vchk("IP4.Payload", hex.EncodeToString(v.Payload()), hex.EncodeToString(b.ether[34:34+len(payload)]))
			}
		} else {
			payload = frame[54 : 54+f.IP.LenField]
			v := packet.IP6(ev.Payload())
			if f.Pad == 0 {
				if err := v.IsValid(); err != nil {
					vchk("IP6.IsValid", err, nil)
				}
			}
			vchk("IP6.Src", v.Src(), b.ipSrc)
			vchk("IP6.Dst", v.Dst(), b.ipDst)
			vchk("IP6.HopLimit", v.HopLimit(), b.hop)
			vchk("IP6.NextHeader", v.NextHeader(), wantProto)
			vchk("IP6.PayloadLen", v.PayloadLen(), len(payload))
		}
	}
	inner := payload
	if b.hasUDP && f.UDP != nil {
		chk("udp.sport", f.UDP.Sport, b.sport)
		chk("udp.dport", f.UDP.Dport, b.dport)
		chk("udp.len", f.UDP.Len, len(payload))
		inner = payload[8:]
		uv := packet.UDP(b.ether[len(b.ether)-f.Pad-len(payload) : len(b.ether)-f.Pad])
		vchk("UDP.SrcPort", uv.SrcPort(), b.sport)
		vchk("UDP.DstPort", uv.DstPort(), b.dport)
		vchk("UDP.Len", uv.Len(), len(payload))
		vchk("UDP.Payload", len(uv.Payload()), len(inner))
	}
	libInner := b.ether[len(b.ether)-f.Pad-len(inner) : len(b.ether)-f.Pad]
	switch b.leaf {
	case "raw":
		chk("payload", hex.EncodeToString(inner), hex.EncodeToString(b.raw))
	case "none":
		chk("payload.len", len(inner), 0)
	case "echo":
		if f.ICMP != nil {
			chk("echo.type", f.ICMP.Type, b.echoType)
			chk("echo.id", f.ICMP.ID, b.echoID)
			chk("echo.seq", f.ICMP.Seq, b.echoSeq)
			chk("echo.data", hex.EncodeToString(f.ICMP.Data), hex.EncodeToString(b.echoData))
		}
		v := packet.ICMPEcho(libInner)
		if err := v.IsValid(); err != nil {
			vchk("ICMPEcho.IsValid", err, nil)
		} else {
			vchk("ICMPEcho.Type", v.Type(), b.echoType)
			vchk("ICMPEcho.EchoID", v.EchoID(), b.echoID)
			vchk("ICMPEcho.EchoSeq", v.EchoSeq(), b.echoSeq)
			vchk("ICMPEcho.EchoData", hex.EncodeToString(v.EchoData()), hex.EncodeToString(b.echoData))
		}
	case "dhcp":
		checkDHCP(r, inner, b.dhcp, b.dhcpExp)
	case "dns":
		if f.DNS == nil || err != nil {
			d, derr := vh.RefDNS(inner)
			if derr != nil {
				r.add("prop", "C03:refdecode.dns", "reference decoder rejects the DNS query: %v", derr)
				return
			}
			f.DNS = d
		}
		chk("dns.id", f.DNS.ID, b.dnsID)
		chk("dns.flags", f.DNS.Flags, b.dnsFlags)
		chk("dns.qd", f.DNS.QD, 1)
		chk("dns.records", f.DNS.AN+f.DNS.NS+f.DNS.AR, 0)
		chk("dns.qname", hex.EncodeToString(f.DNS.QNameRaw), hex.EncodeToString(b.dnsName))
		chk("dns.qtype", f.DNS.QType, b.dnsType)
		chk("dns.qclass", f.DNS.QClass, 1)
		chk("dns.trailing", f.DNS.Rest, 0)
		v := packet.DNS(libInner)
		vchk("DNS.TransactionID", v.TransactionID(), b.dnsID)
		vchk("DNS.QDCount", v.QDCount(), 1)
		vchk("DNS.ANCount", v.ANCount(), 0)
		if q, _, err := packet.DecodeQuestion(v, 12, make([]byte, 0, 64)); err != nil {
			if len(b.dnsName) > 1 { // the root name is outside what DecodeQuestion supports
				vchk("DNS.DecodeQuestion", err, nil)
			}
		} else {
			vchk("DNS.Question.Type", q.Type, b.dnsType)
			vchk("DNS.Question.Class", q.Class, 1)
		}
	case "ns", "na":
		if f.ICMP == nil {
			return
		}
		chk(b.leaf+".target", f.ICMP.Target, b.ndTarget)
		wantType := uint8(1) // RFC 4861 4.3: source link-layer address option in a solicitation
		if b.leaf == "na" {
			wantType = 2 // RFC 4861 4.4: target link-layer address option in an advertisement
			chk("na.flags", fmt.Sprint(f.ICMP.R, f.ICMP.S, f.ICMP.O), fmt.Sprint(b.naR, b.naS, b.naO))
		}
		if len(f.ICMP.Opts) != 1 || len(f.ICMP.Opts[0].Value) != 6 || !bytes.Equal(f.ICMP.Opts[0].Value, b.ndMAC) {
			r.add("prop", "C03:roundtrip."+b.leaf+".lla", "link-layer address option does not carry the supplied MAC %s: %+v", net.HardwareAddr(b.ndMAC), f.ICMP.Opts)
		} else if f.ICMP.Opts[0].Type != wantType {
			key := "C03:roundtrip." + b.leaf + ".optiontype"
			if b.leaf == "ns" {
				key = "C03:KF_NSMarshalOptionType"
			}
			r.add("prop", key, "%s carries its link-layer address in option type %d, RFC 4861 demands type %d", strings.ToUpper(b.leaf), f.ICMP.Opts[0].Type, wantType)
		}
		if b.leaf == "ns" {
			v := packet.ICMP6NeighborSolicitation(libInner)
			vchk("NS.TargetAddress", v.TargetAddress(), b.ndTarget)
			if got := v.SourceLLA(); !bytes.Equal(got, b.ndMAC) {
				r.add("prop", "C03:KF_NSMarshalOptionType", "library view ICMP6NeighborSolicitation.SourceLLA() reads %v from the message marshalled with %s", got, net.HardwareAddr(b.ndMAC))
			}
		} else {
			v := packet.ICMP6NeighborAdvertisement(libInner)
			vchk("NA.TargetAddress", v.TargetAddress(), b.ndTarget)
			vchk("NA.TargetLLA", v.TargetLLA(), net.HardwareAddr(b.ndMAC))
			vchk("NA.flags", fmt.Sprint(v.Router(), v.Solicited(), v.Override()), fmt.Sprint(b.naR, b.naS, b.naO))
		}
	}
	// Parse classification of the composed frame
	if classify != "" && classify != "none" {
		cp := append(make([]byte, 0, len(frame)+32), frame...)
		fr, err := b.sess.Parse(cp)
		got := strings.TrimPrefix(fr.PayloadID.String(), "Payload")
		level := "prop" // the statement speaks about composed Ethernet/IP/UDP frames
		if !b.hasUDP {
			level = "mech"
		}
		if err != nil {
			r.add(level, map[string]string{"prop": "C03:Parse.error", "mech": "build.Parse.error"}[level], "Parse rejects the composed frame (%s expected): %v", classify, err)
		} else if got != classify {
			r.add(level, map[string]string{"prop": "C03:Parse.classify", "mech": "build.Parse.classify"}[level], "Parse classifies the composed frame as %s, encoded was %s", got, classify)
		}
	}
}

func runBuild(v jmap, rng *rand.Rand, r *result, sess *packet.Session) {
	hist := jlist(v, "hist")
	b := &builder{r: r, rng: rng, sess: sess, buf: newBuffer(jint(v, "cap")), hist: hist}
	func() {
		defer func() {
			if x := recover(); x != nil {
				if _, ok := x.(stopBehaviour); ok {
					return
				}
				r.add("prop", "C03:panic", "encoder panicked at step %d: %v", r.Steps, x)
			}
		}()
		for _, h := range hist[1:] {
			r.Steps++
			hm := h.(map[string]interface{})
			if jstr(hm, "a") == "rewrite" {
				b.rewrite(hm)
				continue
			}
			if !b.step(hm) {
				return
			}
		}
		if f := jstr(v, "final"); f == "done" || f == "rewritten" {
			b.finalCheck(jstr(v, "classify"))
		}
	}()
	if !b.buf.guardOK() {
		r.add("prop", "C03:overwrite", "bytes behind the buffer capacity %d were modified", b.buf.cap)
	}
}

// runCase executes one exported case (build sequence, DHCP layout vector, alias case) with the values drawn from rng.
func runCase(v jmap, rng *rand.Rand, r *result, sess *packet.Session) {
	switch r.Part {
	case "alias":
		func() {
			defer func() {
				if x := recover(); x != nil {
					r.add("prop", "C03:alias.panic", "%s panicked with aliased arguments: %v", r.Func, x)
				}
			}()
			runAliasVec(v, rng, r)
		}()
	case "dhcp":
		func() {
			defer func() {
				if x := recover(); x != nil {
					r.add("prop", "C03:DHCP4.panic", "EncodeDHCP4 panicked: %v", x)
				}
			}()
			runDhcpVec(v, rng, r)
		}()
	default:
		runBuild(v, rng, r, sess)
	}
	if len(r.Findings) == 0 {
		r.Frame, r.Flat = "", nil
	}
}

func buildMode(vecs []jmap, out string, k int, seed int64) {
	sk := newSink(out)
	sess, _, err := vh.NewWireSession(vh.WireNICs["nicA"])
	if err != nil {
		fmt.Println(err)
		panic(err)
	}
	for _, v := range vecs {
		sk.cases++
		id := jint(v, "id")
		for inst := 0; inst < k; inst++ {
			s := seed*1000003 + int64(id)*131 + int64(inst)
			r := &result{ID: id, Inst: inst, Seed: s, Part: jstr(v, "part")}
			runCase(v, rand.New(rand.NewSource(s)), r, sess)
			sk.put(r)
		}
	}
	go sess.Close()
	sk.finish(nil)
}

// concurrentMode: "encoders are functions of their arguments and the destination buffer only" (spec/Wire.tla,
// section "No shared state").  par goroutines execute the exported cases -- each with its own generator, its own
// buffers and its own session -- in a tight loop for a bounded time; every result is decoded and compared with
// the values THAT goroutine supplied, exactly as in the sequential stage.  A finding that the sequential stage
// does not show is interference between concurrent encoder calls.
func concurrentMode(vecs []jmap, out string, par int, dur time.Duration, seed int64) {
	sk := newSink(out)
	var mu sync.Mutex
	var wg sync.WaitGroup
	total := 0
	deadline := time.Now().Add(dur)
	for g := 0; g < par; g++ {
		wg.Add(1)
		go func(g int) {
			defer wg.Done()
			sess, _, err := vh.NewWireSession(vh.WireNICs["nicA"])
			if err != nil {
				panic(err)
			}
			defer func() { go sess.Close() }()
			pick := rand.New(rand.NewSource(seed*7919 + int64(g)))
			n := 0
			for round := 0; time.Now().Before(deadline); round++ {
				v := vecs[pick.Intn(len(vecs))]
				s := seed*1000003 + int64(jint(v, "id"))*131 + int64(g)*1000033 + int64(round)
				r := &result{ID: jint(v, "id"), Inst: g, Seed: s, Part: jstr(v, "part")}
				runCase(v, rand.New(rand.NewSource(s)), r, sess)
				n++
				if len(r.Findings) > 0 {
					mu.Lock()
					sk.put(r)
					mu.Unlock()
				}
			}
			mu.Lock()
			total += n
			mu.Unlock()
		}(g)
	}
	wg.Wait()
	sk.cases = len(vecs)
	sk.finish(jmap{"executions": total, "goroutines": par, "seconds": dur.Seconds()})
}
