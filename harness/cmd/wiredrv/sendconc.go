package main

// Concurrent send stage (spec/Wire.tla, "The pool is write-only"): a pooled frame buffer belongs to exactly one send
// action between Get and Put -- also on the error paths.  After the error-path vector (an ICMPv6 message refused as
// too big) several goroutines send NA / NS / echo / ARP / DHCP frames through their own sessions, which share only the
// process-wide packet.EtherBufferPool; every recorded frame is decoded by the reference decoder and compared with
// what THAT goroutine asked for.  A buffer handed out twice shows as torn frames.

import (
	"encoding/hex"
	"fmt"
	"math/rand"
	"net"
	"net/netip"
	"os"
	"path/filepath"
	"sync"
	"time"

	"github.com/irai/packet"
	"github.com/irai/packet/handlers/arp_spoofer"
	"github.com/irai/packet/handlers/dhcp4_spoofer"
	"verifharness/vh"
)

func refusedOversizedRA(sess *packet.Session, rng *rand.Rand) {
	defer func() { recover() }()
	var prefixes []packet.PrefixInformation
	for i := 0; i < 46; i++ {
		prefixes = append(prefixes, packet.PrefixInformation{PrefixLength: 64,
			Prefix: net.IP{0x20, 0x01, 0x0d, 0xb8, byte(rng.Intn(256)), byte(rng.Intn(256)), 0, byte(i + 1), 0, 0, 0, 0, 0, 0, 0, 0}})
	}
	sess.ICMP6SendRouterAdvertisement(prefixes, nil, packet.IP6AllNodesAddr)
}

func prefixPlusOne(n vh.WireNIC) netip.Prefix { return netip.PrefixFrom(n.HostIP, n.HomeLAN.Bits()+1) }

func sendConcMode(out string, par int, dur time.Duration, seed int64, tmp string) {
	sk := newSink(out)
	dir, err := os.MkdirTemp(tmp, "wiredrv-conc-")
	if err != nil {
		panic(err)
	}
	defer os.RemoveAll(dir)
	nics := []string{"nicA", "nicB", "nicC"}
	// error path first: every refusal is one chance to return the buffer twice
	s0, _, err := vh.NewWireSession(vh.WireNICs["nicA"])
	if err != nil {
		panic(err)
	}
	r0 := rand.New(rand.NewSource(seed))
	for i := 0; i < 8; i++ {
		refusedOversizedRA(s0, r0)
	}
	var mu sync.Mutex
	var wg sync.WaitGroup
	total := 0
	ops := map[string]int{}
	deadline := time.Now().Add(dur)
	for g := 0; g < par; g++ {
		wg.Add(1)
		go func(g int) {
			defer wg.Done()
			nic := vh.WireNICs[nics[g%len(nics)]]
			sess, conn, err := vh.NewWireSession(nic)
			if err != nil {
				panic(err)
			}
			defer func() { go sess.Close() }()
			arp, err := arp_spoofer.New(sess)
			if err != nil {
				panic(err)
			}
			dh, err := dhcp4_spoofer.Config{Mode: dhcp4_spoofer.ModeSecondaryServer, NetfilterIP: prefixPlusOne(nic), DNSServer: nic.RouterIP,
				LeaseFilename: filepath.Join(dir, fmt.Sprintf("conc-%d.yaml", g))}.New(sess)
			if err != nil {
				panic(err)
			}
			rng := rand.New(rand.NewSource(seed*7919 + int64(g)))
			e := vh.NewWireEnv(nic, rng)
			host := packet.Addr{MAC: nic.HostMAC, IP: nic.HostLLA}
			n := 0
			local := map[string]int{}
			for round := 0; time.Now().Before(deadline); round++ {
				if g == 0 && round%64 == 0 {
					refusedOversizedRA(sess, rng) // the error path keeps occurring while the others send
					conn.Take()
				}
				if round%256 == 0 {
					sess.Parse(vh.FrameIP4UDP(nic.RouterMAC, nic.HostMAC, nic.RouterIP, nic.HostIP, 53, 40000, []byte("hb")))
				}
				id, seq := uint16(rng.Intn(65536)), uint16(rng.Intn(65536))
				target := rand6(rng)
				tip := e.IP("lan4")
				xid := randBytes(rng, 4)
				conn.Take()
				var op string
				var cerr error
				want := map[string]string{}
				func() {
					defer func() {
						if x := recover(); x != nil {
							cerr = fmt.Errorf("panic: %v", x)
						}
					}()
					switch rng.Intn(7) {
					case 0:
						op = "ICMP6SendNeighborAdvertisement"
						cerr = sess.ICMP6SendNeighborAdvertisement(host, packet.Addr{MAC: e.MAC("mac1"), IP: e.IP("lla1")}, packet.Addr{MAC: nic.HostMAC, IP: target})
						want = map[string]string{"kind": "na", "f.target": target.String(), "f.tlla": nic.HostMAC.String(), "f.router": "0", "f.solicited": "0", "f.override": "1", "hop": "255"}
					case 1:
						op = "ICMP6SendNeighbourSolicitation"
						cerr = sess.ICMP6SendNeighbourSolicitation(host, packet.IPv6SolicitedNode(e.IP("lla1")), target)
						want = map[string]string{"kind": "ns", "f.target": target.String(), "f.slla": nic.HostMAC.String()}
					case 2:
						op = "ICMP6SendEchoRequest"
						cerr = sess.ICMP6SendEchoRequest(host, packet.Addr{MAC: e.MAC("mac1"), IP: e.IP("gua1")}, id, seq)
						want = map[string]string{"kind": "echoreq", "proto": "icmp6", "f.id": fmt.Sprint(id), "f.seq": fmt.Sprint(seq), "ipDst": e.IP("gua1").String()}
					case 3:
						op = "ICMP4SendEchoRequest"
						cerr = sess.ICMP4SendEchoRequest(packet.Addr{MAC: nic.HostMAC, IP: nic.HostIP}, packet.Addr{MAC: e.MAC("mac1"), IP: tip}, id, seq)
						want = map[string]string{"kind": "echoreq", "proto": "icmp4", "f.id": fmt.Sprint(id), "f.seq": fmt.Sprint(seq), "ipDst": tip.String()}
					case 4:
						op = "arp.Request"
						cerr = arp.Request(tip)
						want = map[string]string{"kind": "arpreq", "f.tpa": tip.String(), "f.spa": nic.HostIP.String(), "f.sha": nic.HostMAC.String()}
					case 5:
						op = "arp.Reply"
						cerr = arp.Reply(e.MAC("mac1"), packet.Addr{MAC: nic.HostMAC, IP: nic.RouterIP}, packet.Addr{MAC: e.MAC("mac1"), IP: tip})
						want = map[string]string{"kind": "arpreply", "f.spa": nic.RouterIP.String(), "f.tpa": tip.String(), "f.tha": e.MAC("mac1").String(), "ethDst": e.MAC("mac1").String()}
					default:
						op = "dhcp4.SendDiscoverPacket"
						cerr = dh.SendDiscoverPacket(e.MAC("mac2"), tip, xid, "conc")
						want = map[string]string{"kind": "dhcp4", "f.msgtype": "1", "f.xid": hex.EncodeToString(xid), "f.chaddr": e.MAC("mac2").String(), "f.ciaddr": tip.String()}
					}
				}()
				frames := conn.Take()
				n++
				local[op]++
				why, fr := "", ""
				switch {
				case cerr != nil:
					why = "returned " + cerr.Error()
				case len(frames) != 1:
					why = fmt.Sprintf("%d frames recorded", len(frames))
				default:
					fr = hex.EncodeToString(frames[0])
					abs, werr := vh.CheckWellFormed(frames[0], nic.HostMAC)
					if werr != nil {
						why = werr.Error()
					} else {
						flat := abs.Flatten()
						for k, v := range want {
							if flat[k] != v {
								why = fmt.Sprintf("%s = %q, this goroutine asked for %q", k, flat[k], v)
								break
							}
						}
					}
				}
				if why != "" {
					r := &result{ID: round, Inst: g, Seed: seed, Part: "sendconc", Func: op, Frame: fr}
					r.add("prop", "C07:sendconc:"+op, "%s on goroutine %d while %d others send through the shared buffer pool: %s", op, g, par-1, why)
					mu.Lock()
					if sk.insts < 200 {
						sk.put(r)
					}
					mu.Unlock()
				}
			}
			mu.Lock()
			total += n
			for k, v := range local {
				ops[k] += v
			}
			mu.Unlock()
		}(g)
	}
	wg.Wait()
	go s0.Close()
	sk.finish(jmap{"executions": total, "goroutines": par, "seconds": dur.Seconds(), "ops": ops})
}
