package main

// Aliased arguments and in-place rewriting (spec/Wire.tla: AliasCases, BRewrite).

import (
	"bytes"
	"encoding/binary"
	"fmt"
	"math/rand"
	"net"
	"net/netip"

	"github.com/irai/packet"
	"verifharness/vh"
)

func cp(b []byte) []byte { return append([]byte{}, b...) }

// runAliasVec hands an encoder views of the very buffer it encodes into; the value supplied is the value the
// view had before the call.
func runAliasVec(v jmap, rng *rand.Rand, r *result) {
	enc, pat, supported := jstr(v, "enc"), jstr(v, "pat"), jbool(v, "supported")
	r.Func = enc + ":" + pat
	var bad []string
	chk := func(name string, got, want interface{}) {
		if fmt.Sprint(got) != fmt.Sprint(want) {
			bad = append(bad, fmt.Sprintf("%s = %v, supplied (value of the view before the call) %v", name, got, want))
		}
	}
	switch enc {
	case "ether":
		buf := make([]byte, 64)
		rng.Read(buf)
		oldDst, oldSrc := net.HardwareAddr(cp(buf[0:6])), net.HardwareAddr(cp(buf[6:12]))
		fresh := net.HardwareAddr(randBytes(rng, 6))
		var wantSrc, wantDst net.HardwareAddr
		var e packet.Ether
		switch pat {
		case "dst=oldsrc": // turn a received frame into its reply in place
			wantSrc, wantDst = fresh, oldSrc
			e = packet.EncodeEther(buf, 0x0800, fresh, packet.Ether(buf).Src())
		case "same":
			wantSrc, wantDst = oldSrc, oldDst
			e = packet.EncodeEther(buf, 0x0800, packet.Ether(buf).Src(), packet.Ether(buf).Dst())
		case "src=olddst":
			wantSrc, wantDst = oldDst, fresh
			e = packet.EncodeEther(buf, 0x0800, packet.Ether(buf).Dst(), fresh)
		}
		chk("Ethernet destination", net.HardwareAddr(e[0:6]), wantDst)
		chk("Ethernet source", net.HardwareAddr(e[6:12]), wantSrc)
	case "arp":
		osha, otha := net.HardwareAddr(randBytes(rng, 6)), net.HardwareAddr(randBytes(rng, 6))
		ospa, otpa := rand4(rng), rand4(rng)
		buf := append(vh.ARP(1, osha, ospa, otha, otpa), make([]byte, 8)...)
		fresh, fip := net.HardwareAddr(randBytes(rng, 6)), rand4(rng)
		view := packet.ARP(buf[:28])
		var s, t packet.Addr
		var ws, wt net.HardwareAddr
		switch pat {
		case "same":
			s, t, ws, wt = packet.Addr{MAC: view.SrcMAC(), IP: ospa}, packet.Addr{MAC: view.DstMAC(), IP: otpa}, osha, otha
		case "tha=oldsha": // reply in place: the old sender becomes the target
			s, t, ws, wt = packet.Addr{MAC: fresh, IP: fip}, packet.Addr{MAC: view.SrcMAC(), IP: ospa}, fresh, osha
		case "sha=oldtha":
			s, t, ws, wt = packet.Addr{MAC: view.DstMAC(), IP: otpa}, packet.Addr{MAC: fresh, IP: fip}, otha, fresh
		}
		a := packet.EncodeARP(buf, 2, s, t)
		chk("ARP sender hardware address", net.HardwareAddr(a[8:14]), ws)
		chk("ARP target hardware address", net.HardwareAddr(a[18:24]), wt)
		chk("ARP sender protocol address", netip.AddrFrom4([4]byte{a[14], a[15], a[16], a[17]}), s.IP)
		chk("ARP target protocol address", netip.AddrFrom4([4]byte{a[24], a[25], a[26], a[27]}), t.IP)
	case "dhcp":
		chaddr, xid := net.HardwareAddr(randBytes(rng, 6)), rng.Uint32()
		cid := append([]byte{1}, randBytes(rng, 6)...)
		prl := []byte{6, 3, 1, 15}
		opts := []vh.DHCP4Opt{{Code: 53, Data: []byte{3}}, {Code: 61, Data: cid}, {Code: 55, Data: prl}, {Code: 12, Data: []byte("host")}}
		if pat == "both:adjacent" {
			opts = []vh.DHCP4Opt{{Code: 53, Data: []byte{3}}, {Code: 55, Data: prl}, {Code: 61, Data: cid}, {Code: 12, Data: []byte("host")}}
		}
		ci := rand4(rng)
		msg := vh.DHCP4(1, xid, 0, ci, netip.Addr{}, netip.Addr{}, netip.Addr{}, chaddr, opts)
		buf := make([]byte, len(msg), 1500)
		copy(buf, msg)
		req := packet.DHCP4(buf)
		views := req.ParseOptions() // what the handlers pass on: slices of the request buffer
		cidView, prlView := views[packet.DHCP4OptionClientIdentifier], views[packet.DHCP4OptionParameterRequestList]
		if !bytes.Equal(cidView, cid) || !bytes.Equal(prlView, prl) || len(cidView) == 0 || &cidView[0] == &cid[0] {
			panic("alias: request views are not what the layout says")
		}
		sid, yi := rand4(rng), rand4(rng)
		s4 := sid.As4()
		var out packet.DHCP4
		var wantPrefix []int
		wantCid := true
		switch pat {
		case "nak:cid=view": // nakPacket: options echo the client identifier of the request, no order
			out = packet.EncodeDHCP4(req, packet.DHCP4BootReply, packet.DHCP4NAK, nil, packet.IPv4zero, packet.IPv4zero, nil, false,
				packet.DHCP4Options{packet.DHCP4OptionServerIdentifier: s4[:], packet.DHCP4OptionClientIdentifier: cidView}, nil)
			yi = packet.IPv4zero
		case "offer:order=view": // handleDiscover / handleRequest: fresh options, order = the request's parameter list
			out = packet.EncodeDHCP4(req, packet.DHCP4BootReply, packet.DHCP4Offer, nil, netip.Addr{}, yi, nil, false,
				packet.DHCP4Options{1: {255, 255, 255, 0}, 3: s4[:], 6: s4[:], 51: {0, 0, 14, 16}, 54: s4[:]}, prlView)
			wantPrefix, wantCid = []int{6, 3, 1}, false
		default:
			out = packet.EncodeDHCP4(req, packet.DHCP4BootReply, packet.DHCP4ACK, nil, netip.Addr{}, yi, nil, false,
				packet.DHCP4Options{1: {255, 255, 255, 0}, 3: s4[:], 54: s4[:], packet.DHCP4OptionClientIdentifier: cidView}, prlView)
			wantPrefix = []int{3, 1}
		}
		d, err := vh.RefDHCP4(out)
		if err != nil {
			bad = append(bad, "reference decoder rejects the reply: "+err.Error())
			break
		}
		chk("op", d.Op, 2)
		chk("chaddr (kept from the request)", d.CHAddr, chaddr)
		chk("xid (kept from the request)", binary.BigEndian.Uint32(d.XID), xid)
		chk("yiaddr", d.YI, yi)
		if got, ok := d.Opt(54); !ok || !bytes.Equal(got, s4[:]) {
			chk("server identifier", got, s4[:])
		}
		if wantCid {
			got, _ := d.Opt(61)
			chk("client identifier (view of the request)", fmt.Sprintf("%x", got), fmt.Sprintf("%x", cid))
		}
		if wantPrefix != nil && !isPrefixInts(wantPrefix, d.Codes()) {
			chk("option order (parameter list view of the request)", d.Codes(), wantPrefix)
		}
		if len(d.Dups) > 0 {
			chk("duplicate options", d.Dups, "none")
		}
	case "ns", "na":
		frame := vh.Ether(randBytes(rng, 6), randBytes(rng, 6), 0x86dd, make([]byte, 40))
		want := net.HardwareAddr(cp(frame[6:12]))
		target := rand6(rng)
		var m []byte
		if enc == "ns" {
			m, _ = packet.ICMP6NeighborSolicitationMarshal(target, packet.Ether(frame).Src())
		} else {
			m = packet.ICMP6NeighborAdvertisementMarshal(false, true, true, packet.Addr{MAC: packet.Ether(frame).Src(), IP: target})
		}
		rng.Read(frame) // the receive buffer is reused for the next frame
		chk("link-layer address option", net.HardwareAddr(m[26:32]), want)
		chk("target", netip.AddrFrom16(*(*[16]byte)(m[8:24])), target)
	default:
		panic("alias: unknown encoder " + enc)
	}
	switch {
	case supported && len(bad) > 0:
		r.add("prop", "C03:alias."+enc+"."+pat, "%s with aliased arguments (%s): %s", enc, pat, bad[0])
	case !supported && len(bad) > 0:
		r.add("note", "alias.unsupported."+enc+"."+pat, "as the write order of the encoder predicts: %s", bad[0])
	case !supported:
		r.add("mech", "alias."+enc+"."+pat, "the model's write order predicts a clobbered argument, the real encoder copes")
	}
}

// rewrite replaces the innermost in-place payload of the finished frame and applies SetPayload / AppendPayload
// to views that already carry a payload.
func (b *builder) rewrite(a jmap) {
	r := b.r
	exp := jobj(a, "exp")
	n2, mu, mi, via := jint(a, "n"), jstr(a, "mu"), jstr(a, "mi"), jstr(a, "via")
	hl := map[string]int{"ip4": 20, "ip6": 40}[b.net]
	ip4, ip6, udp := b.ip4, b.ip6, b.udp
	if via == "parsed" {
		fr, err := b.sess.Parse(b.ether)
		if err != nil {
			r.add("note", "rewrite.parse", "Parse rejects the frame to be rewritten: %v", err)
		} else {
			if v := fr.IP4(); v != nil {
				ip4 = v
			}
			if v := fr.IP6(); v != nil {
				ip6 = v
			}
			if b.hasUDP {
				if v := fr.UDP(); v != nil {
					udp = v
				}
			}
		}
	}
	leafOff := 14 + hl
	if b.hasUDP {
		leafOff += 8
	}
	b.raw = randBytes(b.rng, n2)
	dst := b.buf.backing[leafOff : leafOff+n2 : b.buf.cap]
	copy(dst, b.raw)
	inner := []byte(dst)
	var err error
	if b.hasUDP {
		if mu == "set" {
			udp = udp.SetPayload(inner)
		} else {
			udp, err = udp.AppendPayload(inner)
		}
		if err != nil {
			r.add("prop", "C03:rewrite.udp."+mu+".error", "UDP.%sPayload of %d bytes that fit returned %v", mu, n2, err)
			panic(stopBehaviour{})
		}
		inner = udp
	}
	var ipLen, ipLF int
	if b.net == "ip4" {
		if mi == "set" {
			ip4 = ip4.SetPayload(inner, b.proto)
		} else {
			ip4, err = ip4.AppendPayload(inner, b.proto)
		}
		if err == nil {
			ipLen, ipLF = len(ip4), ip4.TotalLen()-20
			b.ip4 = ip4
			b.ether, _ = b.ether.SetPayload(ip4)
		}
	} else {
		if mi == "set" {
			ip6 = ip6.SetPayload(inner, b.proto)
		} else {
			ip6, err = ip6.AppendPayload(inner, b.proto)
		}
		if err == nil {
			ipLen, ipLF = len(ip6), int(ip6.PayloadLen())
			b.ip6 = ip6
			b.ether, _ = b.ether.SetPayload(ip6)
		}
	}
	if err != nil {
		r.add("prop", "C03:rewrite."+b.net+"."+mi+".error", "%s.%sPayload of a payload that fits returned %v", b.net, mi, err)
		panic(stopBehaviour{})
	}
	kf := map[string]bool{}
	for _, x := range jlist(exp, "kf") {
		kf[fmt.Sprint(x)] = true
	}
	ideal := jobj(exp, "ideal")
	label := func(layer, mode string) string {
		if mode == "set" {
			return "KF_SetPayloadOnPayload." + layer
		}
		return "KF_AppendPayloadOnPayload." + layer
	}
	report := func(layer, mode string, gotLen, mechLen, wantLen, field, wantField int) {
		key := "C03:rewrite." + layer + "." + mode
		if l := label(layer, mode); kf[l] && gotLen == mechLen {
			key = "C03:" + l
		}
		r.add("prop", key, "%s.%sPayload on a %s view that already carries a payload (%s): the returned slice has %d bytes, its length field announces %d (consistent would be %d / %d)",
			layer, mode, layer, via, gotLen, field, wantLen, wantField)
	}
	clean := true
	if b.hasUDP {
		if len(udp) != jint(ideal, "udp") || int(udp.Len()) != 8+n2 {
			report("udp", mu, len(udp), jint(exp, "udplen"), jint(ideal, "udp"), int(udp.Len()), 8+n2)
			clean = false
		}
		b.udp = udp
	}
	wantPay := n2
	if b.hasUDP {
		wantPay = 8 + n2
	}
	if clean && (ipLen != jint(ideal, "ip") || ipLF != wantPay) {
		report(b.net, mi, ipLen, jint(exp, "iplen"), jint(ideal, "ip"), ipLF, wantPay)
		clean = false
	}
	if clean && len(b.ether) != 14+jint(ideal, "ip") {
		r.add("prop", "C03:rewrite.ether", "Ether.SetPayload gives %d bytes for an IP packet of %d", len(b.ether), jint(ideal, "ip"))
		clean = false
	}
	if len(b.ether) != jint(exp, "etherlen") && clean {
		r.add("mech", "build.rewrite.etherlen", "frame of %d bytes, model %d", len(b.ether), jint(exp, "etherlen"))
	}
	b.leaf, b.ipPayloadSet = "raw", true
	if !clean {
		panic(stopBehaviour{})
	}
}
