package main

// X05 (a): Session.ValidateDefaultRouter executed against the behaviours of spec/RouterCheck.tla.
//
// One behaviour = one call.  Its plan lists, per ping of the call, whether the connection refuses the frame, the
// messages the environment hands to Session.Parse while the ping is outstanding ("inline": from inside the
// connection's WriteTo, in the caller's goroutine; "after": from another goroutine once the frame is recorded) and how
// the ping ends.  A ping that the specification lets time out simply waits for the code's own two second timer; a
// message is injected at once when the frame is seen, and a behaviour in which an injection was completed later than
// one second after the send is reported as inconclusive instead of being compared (no verdict depends on a race).
//
// Behaviours without a timeout run one after the other first (identifiers are then exactly table.id, table.id+1, ..);
// the others run concurrently, each with its own client address on a shared session (the hook finds the behaviour by
// the destination address of the frame), so the real time spent is about the longest behaviour (6 s), not the sum.

import (
	"bytes"
	"encoding/binary"
	"encoding/json"
	"errors"
	"flag"
	"fmt"
	"net"
	"net/netip"
	"sync"
	"time"

	"github.com/irai/packet"
	"verifharness/vh"
)

type vdrEv struct {
	Kind string `json:"kind"`
	When string `json:"when"`
}
type vdrPing struct {
	K    int     `json:"k"`
	Fail bool    `json:"fail"`
	Evs  []vdrEv `json:"evs"`
	End  string  `json:"end"`
}
type vdrBeh struct {
	I    int       `json:"i"`
	Plan []vdrPing `json:"plan"`
}
type vdrFrame struct {
	Src   string `json:"src"`
	DstOK bool   `json:"dst_ok"`
	ID    int    `json:"id"`
	Seq   int    `json:"seq"`
	TTL   int    `json:"ttl"`
	Data  string `json:"data"`
	Kind  string `json:"kind"`
	WF    string `json:"wf"`
}
type vdrOut struct {
	I            int        `json:"i"`
	Mode         string     `json:"mode"`
	Res          string     `json:"res"`
	Panic        string     `json:"panic,omitempty"`
	Frames       []vdrFrame `json:"frames"`
	RelIDs       []int      `json:"rel_ids"`  // seq mode: identifiers relative to table.id before the call (first = 1)
	Spent        int        `json:"spent"`    // seq mode: identifiers consumed by the call
	Distinct     bool       `json:"distinct"` // identifiers pairwise distinct
	Left         []int      `json:"left"`     // identifiers of the call still registered after it returned
	ElapsedMs    int        `json:"elapsed_ms"`
	Inconclusive string     `json:"inconclusive,omitempty"`
	Extra        int        `json:"extra"` // sends beyond the plan
}

type vdrGroup struct {
	u     *vh.Universe
	s     *packet.Session
	conn  *vh.HookConn
	mu    sync.Mutex // slots
	slots map[netip.Addr]*vdrRun
	pmu   sync.Mutex // one message at a time through Session.Parse (the library has one reader goroutine)
}

type vdrRun struct {
	g       *vdrGroup
	b       vdrBeh
	k       int // client number
	ip      netip.Addr
	mac     net.HardwareAddr
	mu      sync.Mutex
	sends   int
	frames  [][]byte
	ids     []uint16
	late    string
	extra   int
	pending sync.WaitGroup
}

var errRefused = errors.New("verif: connection refuses the frame")

func newVdrGroup() (*vdrGroup, error) {
	u := &vh.Universe{Cfg: vh.Configs[0]}
	conn := vh.NewHookConn()
	s, err := packet.Config{Conn: conn, NICInfo: u.NICInfo(), ProbeDeadline: 2 * vh.Unit, OfflineDeadline: 5 * vh.Unit,
		PurgeDeadline: 60 * vh.Unit}.NewSession("")
	if err != nil {
		return nil, err
	}
	g := &vdrGroup{u: u, s: s, conn: conn, slots: map[netip.Addr]*vdrRun{}}
	find := func(frame []byte) *vdrRun {
		if len(frame) < 42 || binary.BigEndian.Uint16(frame[12:14]) != 0x0800 {
			return nil
		}
		var a [4]byte
		copy(a[:], frame[30:34])
		g.mu.Lock()
		defer g.mu.Unlock()
		return g.slots[netip.AddrFrom4(a)]
	}
	conn.Before = func(frame []byte) error {
		r := find(frame)
		if r == nil {
			return nil
		}
		r.mu.Lock()
		defer r.mu.Unlock()
		r.sends++
		if r.sends <= len(r.b.Plan) && r.b.Plan[r.sends-1].Fail {
			return errRefused
		}
		return nil
	}
	conn.OnWrite = func(frame []byte) {
		r := find(frame)
		if r == nil {
			return
		}
		r.sent(frame)
	}
	return g, nil
}

func (g *vdrGroup) parse(b []byte) {
	g.pmu.Lock()
	defer g.pmu.Unlock()
	guarded(func() { g.s.Parse(b) })
}

const helloData = "HELLO-NETFILTER"

// message builds the frame of one environment message for the request `req` (the frame as written by the library).
func (r *vdrRun) message(kind string, req []byte, prev uint16) []byte {
	u := r.g.u
	id := binary.BigEndian.Uint16(req[38:40])
	var a [4]byte
	copy(a[:], req[26:30])
	reqSrc := netip.AddrFrom4(a)
	echo := func(typ uint8, id uint16) []byte { return vh.ICMP4(typ, 0, vh.Echo(id, 1, []byte(helloData))) }
	switch kind {
	case "match":
		return vh.Ether(vh.OwnMAC, r.mac, 0x0800, vh.IP4(r.ip, reqSrc, 1, 64, 7, echo(0, id)))
	case "othersrc":
		return vh.Ether(vh.OwnMAC, vh.RouterMAC, 0x0800, vh.IP4(u.Cfg.RouterIP, u.Cfg.HostIP, 1, 64, 7, echo(0, id)))
	case "v6":
		src := u.IP(fmt.Sprintf("l%d", r.k))
		return vh.Ether(vh.OwnMAC, r.mac, 0x86dd, vh.IP6(src, vh.HostLLA, 58, 64, vh.ICMP6(src, vh.HostLLA, 129, 0, vh.Echo(id, 1, []byte(helloData)))))
	case "foreign":
		return vh.Ether(vh.OwnMAC, r.mac, 0x0800, vh.IP4(r.ip, reqSrc, 1, 64, 7, echo(0, id+0x4000)))
	case "request":
		return vh.Ether(vh.OwnMAC, r.mac, 0x0800, vh.IP4(r.ip, reqSrc, 1, 64, 7, echo(8, id)))
	case "late":
		return vh.Ether(vh.OwnMAC, r.mac, 0x0800, vh.IP4(r.ip, reqSrc, 1, 64, 7, echo(0, prev)))
	}
	panic("unknown message kind " + kind)
}

// sent runs inside the connection's WriteTo, in the goroutine of the caller of ValidateDefaultRouter.
func (r *vdrRun) sent(frame []byte) {
	t0 := time.Now()
	r.mu.Lock()
	j := r.sends
	r.frames = append(r.frames, frame)
	id := binary.BigEndian.Uint16(frame[38:40])
	var prev uint16
	if len(r.ids) > 0 {
		prev = r.ids[len(r.ids)-1]
	}
	r.ids = append(r.ids, id)
	if j > len(r.b.Plan) {
		r.extra++
		r.mu.Unlock()
		return
	}
	evs := r.b.Plan[j-1].Evs
	r.mu.Unlock()
	n := 0
	for n < len(evs) && evs[n].When == "inline" {
		r.g.parse(r.message(evs[n].Kind, frame, prev))
		n++
	}
	r.check(t0)
	if n < len(evs) {
		rest := evs[n:]
		r.pending.Add(1)
		go func() {
			defer r.pending.Done()
			for _, e := range rest {
				r.g.parse(r.message(e.Kind, frame, prev))
			}
			r.check(t0)
		}()
	}
}

func (r *vdrRun) check(t0 time.Time) {
	if d := time.Since(t0); d > time.Second {
		r.mu.Lock()
		r.late = fmt.Sprintf("an injection was completed %v after the send", d)
		r.mu.Unlock()
	}
}

func errName(err error) string {
	switch {
	case err == nil:
		return "nil"
	case errors.Is(err, packet.ErrTimeout):
		return "timeout"
	case errors.Is(err, packet.ErrNotRedirected):
		return "notredirected"
	case errors.Is(err, packet.ErrNotFound):
		return "notfound"
	case errors.Is(err, packet.ErrInvalidIP):
		return "invalidip"
	case errors.Is(err, errRefused):
		return "err"
	}
	return "err:" + err.Error()
}

func (g *vdrGroup) run(b vdrBeh, k int, seq bool) vdrOut {
	r := &vdrRun{g: g, b: b, k: k, ip: g.u.IP(fmt.Sprintf("a%d", k)), mac: g.u.MAC(fmt.Sprintf("m%d", k))}
	g.mu.Lock()
	g.slots[r.ip] = r
	g.mu.Unlock()
	out := vdrOut{I: b.I, Mode: "par", Frames: []vdrFrame{}, Left: []int{}}
	var base uint16
	if seq {
		out.Mode = "seq"
		_, base = packet.VerifPingWaiters()
	}
	t0 := time.Now()
	var err error
	out.Panic = guarded(func() { err = g.s.ValidateDefaultRouter(packet.Addr{MAC: r.mac, IP: r.ip}) })
	out.ElapsedMs = int(time.Since(t0) / time.Millisecond)
	if out.Panic != "" {
		out.Res = "panic"
	} else {
		out.Res = errName(err)
	}
	r.pending.Wait()
	if seq {
		_, next := packet.VerifPingWaiters()
		out.Spent = int(next - base)
	}
	// replies for every identifier of the call, now that it has returned: nobody waits for them
	r.mu.Lock()
	frames, ids := r.frames, r.ids
	out.Inconclusive, out.Extra = r.late, r.extra
	r.mu.Unlock()
	// the table is looked at when the call has returned, and again after the late replies
	reg := map[uint16]bool{}
	for _, id := range packet.VerifPingWaiterIDs() {
		reg[id] = true
	}
	for i, f := range frames {
		g.parse(r.message("late", f, ids[i]))
	}
	for _, id := range packet.VerifPingWaiterIDs() {
		reg[id] = true
	}
	out.Distinct = true
	seen := map[uint16]bool{}
	for _, id := range ids {
		if reg[id] {
			out.Left = append(out.Left, int(id))
		}
		if seen[id] {
			out.Distinct = false
		}
		seen[id] = true
		if seq {
			out.RelIDs = append(out.RelIDs, int(id-base)+1)
		}
	}
	for _, f := range frames {
		out.Frames = append(out.Frames, describeEcho(g.u, f, r))
	}
	g.mu.Lock()
	delete(g.slots, r.ip)
	g.mu.Unlock()
	return out
}

func describeEcho(u *vh.Universe, f []byte, r *vdrRun) vdrFrame {
	d := vdrFrame{}
	af, err := vh.CheckWellFormed(f, vh.OwnMAC)
	if err != nil {
		d.WF = err.Error()
	}
	if af == nil || af.IP == nil || af.ICMP == nil {
		if d.WF == "" {
			d.WF = "not an ICMP frame"
		}
		return d
	}
	d.Kind = af.Kind
	d.Src = u.IPName(af.IP.Src)
	d.DstOK = af.IP.Dst == r.ip && bytes.Equal(af.EthDst, r.mac)
	d.ID, d.Seq, d.TTL, d.Data = int(af.ICMP.ID), int(af.ICMP.Seq), int(af.IP.Hop), string(af.ICMP.Data)
	return d
}

func cmdVdr(args []string) (map[string]interface{}, error) {
	fs := flag.NewFlagSet("vdr", flag.ContinueOnError)
	in := fs.String("in", "", "behaviours (ndjson)")
	outp := fs.String("out", "", "results (ndjson)")
	par := fs.Int("par", 300, "behaviours in flight")
	if err := fs.Parse(args); err != nil {
		return nil, err
	}
	lines, err := readLines(*in)
	if err != nil {
		return nil, err
	}
	var seqB, parB []vdrBeh
	for _, l := range lines {
		var b vdrBeh
		if err := json.Unmarshal(l, &b); err != nil {
			return nil, err
		}
		slow := false
		for _, p := range b.Plan {
			if p.End == "timeout" {
				slow = true
			}
		}
		if slow {
			parB = append(parB, b)
		} else {
			seqB = append(seqB, b)
		}
	}
	w, err := newResultWriter(*outp)
	if err != nil {
		return nil, err
	}
	defer w.close()
	g0, err := newVdrGroup()
	if err != nil {
		return nil, err
	}
	for i, b := range seqB {
		w.put(g0.run(b, 1+i%100, true))
	}
	go g0.s.Close()
	// concurrent part: groups of 100 clients per session
	const perGroup = 100
	for start := 0; start < len(parB); start += *par {
		end := start + *par
		if end > len(parB) {
			end = len(parB)
		}
		wave := parB[start:end]
		var wg sync.WaitGroup
		var groups []*vdrGroup
		for i, b := range wave {
			if i%perGroup == 0 {
				g, err := newVdrGroup()
				if err != nil {
					return nil, err
				}
				groups = append(groups, g)
			}
			g := groups[len(groups)-1]
			wg.Add(1)
			go func(b vdrBeh, k int) {
				defer wg.Done()
				w.put(g.run(b, k, false))
			}(b, 1+i%perGroup)
		}
		wg.Wait()
		for _, g := range groups {
			go g.s.Close()
		}
	}
	n, next := packet.VerifPingWaiters()
	return map[string]interface{}{"behaviours": len(lines), "sequential": len(seqB), "concurrent": len(parB),
		"waiters_at_end": n, "next_id": int(next)}, nil
}
