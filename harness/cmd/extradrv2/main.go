// extradrv2 binds the X05 / X06 specifications (small request/reply protocols and the router-advertisement server,
// components of /repo that no listed property covers) to the real code.
//
//	extradrv2 vdr    -in behaviours.ndjson -out results.ndjson      spec/RouterCheck.tla  Session.ValidateDefaultRouter
//	extradrv2 whois  -in behaviours.ndjson -out results.ndjson      spec/ArpQuery.tla     arp_spoofer.Handler.WhoIs
//	extradrv2 scan   -in vectors.ndjson    -out results.ndjson      spec/ArpQuery.tla     arp_spoofer.Handler.Scan
//	extradrv2 radvs  -in cases.ndjson      -out results.ndjson      spec/Radvs.tla        icmp_spoofer RADVS
//
// Every sub-command prints one JSON summary line on stdout; everything else goes to stderr.  The drivers report what
// the real code did; the comparison with the specification's expectation is made by the check (checks/x05.py, x06.py).
package main

import (
	"bufio"
	"encoding/json"
	"fmt"
	"os"
	"strconv"
	"sync"

	"verifharness/vh"
)

var realStdout *os.File

func main() {
	if len(os.Args) < 2 {
		fmt.Fprintln(os.Stderr, "usage: extradrv2 vdr|whois|scan|radvs [flags]")
		os.Exit(2)
	}
	vh.Quiet()
	realStdout = os.Stdout
	if os.Getenv("VERIF_STDOUT") == "" {
		if f, err := os.OpenFile(os.DevNull, os.O_WRONLY, 0); err == nil {
			os.Stdout = f
		}
	}
	cmd, args := os.Args[1], os.Args[2:]
	var sum map[string]interface{}
	var err error
	switch cmd {
	case "vdr":
		sum, err = cmdVdr(args)
	case "whois":
		sum, err = cmdWhoIs(args)
	case "scan":
		sum, err = cmdScan(args)
	case "radvs":
		sum, err = cmdRadvs(args)
	case "radvsworker":
		sum, err = cmdRadvsWorker(args)
	default:
		err = fmt.Errorf("unknown sub-command %q", cmd)
	}
	if err != nil {
		fmt.Fprintln(os.Stderr, "extradrv2:", err)
		os.Exit(2)
	}
	b, _ := json.Marshal(sum)
	fmt.Fprintln(realStdout, string(b))
}

func seed() int64 {
	if s, err := strconv.ParseInt(os.Getenv("VERIF_SEED"), 10, 64); err == nil {
		return s
	}
	return 1
}

// readLines reads an ndjson file, one raw JSON document per line.
func readLines(path string) ([][]byte, error) {
	f, err := os.Open(path)
	if err != nil {
		return nil, err
	}
	defer f.Close()
	sc := bufio.NewScanner(f)
	sc.Buffer(make([]byte, 1<<20), 1<<26)
	var out [][]byte
	for sc.Scan() {
		if len(sc.Bytes()) == 0 {
			continue
		}
		out = append(out, append([]byte{}, sc.Bytes()...))
	}
	return out, sc.Err()
}

// resultWriter writes one JSON document per line, from any goroutine.
type resultWriter struct {
	mu sync.Mutex
	f  *os.File
	w  *bufio.Writer
	n  int
}

func newResultWriter(path string) (*resultWriter, error) {
	f, err := os.Create(path)
	if err != nil {
		return nil, err
	}
	return &resultWriter{f: f, w: bufio.NewWriter(f)}, nil
}

func (r *resultWriter) put(v interface{}) {
	b, _ := json.Marshal(v)
	r.mu.Lock()
	r.w.Write(b)
	r.w.WriteByte('\n')
	r.n++
	r.mu.Unlock()
}

func (r *resultWriter) close() {
	r.mu.Lock()
	r.w.Flush()
	r.f.Close()
	r.mu.Unlock()
}

// guarded runs f under recover.
func guarded(f func()) (panicked string) {
	defer func() {
		if r := recover(); r != nil {
			panicked = fmt.Sprint(r)
		}
	}()
	f()
	return ""
}
