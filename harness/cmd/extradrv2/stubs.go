package main

func cmdRadvs(args []string) (map[string]interface{}, error)       { return nil, nil }
func cmdRadvsWorker(args []string) (map[string]interface{}, error) { return nil, nil }
