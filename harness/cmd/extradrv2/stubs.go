package main

func cmdWhoIs(args []string) (map[string]interface{}, error)       { return nil, nil }
func cmdScan(args []string) (map[string]interface{}, error)        { return nil, nil }
func cmdRadvs(args []string) (map[string]interface{}, error)       { return nil, nil }
func cmdRadvsWorker(args []string) (map[string]interface{}, error) { return nil, nil }
