package main

// X06: the router-advertisement server of handlers/icmp_spoofer against spec/Radvs.tla.
//
// Vectors ("cfg"): one configuration each; StartRADVS, one synchronous SendRA, Stop; the frames on the recording connection
// are decoded by the harness' reference decoder (vh.CheckWellFormed / RefDecode) and by the option decoders below, which
// share no code with the library, and are reported field by field in the shape of the specification's record.
// Behaviours ("steps"): start / sendra / stop / rs / hclose / tick on one fresh Handler6, with the advertisements written and
// the number of live loop goroutines (counted in a stack dump) after every call.  A call the specification lets block is
// watched for 50 ms and again at the end of the behaviour; a call that must return is waited for 10 s.

import (
	"bytes"
	"encoding/binary"
	"encoding/json"
	"flag"
	"fmt"
	"net"
	"net/netip"
	"os"
	"runtime"
	"strings"
	"time"

	"github.com/irai/packet"
	"github.com/irai/packet/handlers/icmp_spoofer"
	"verifharness/vh"
)

type rvPrefix struct {
	ID     string `json:"id"`
	Prefix string `json:"prefix"`
	Plen   int    `json:"plen"`
	OnLink bool   `json:"onlink"`
	Auto   bool   `json:"auto"`
	Valid  int    `json:"valid"`
	Pref   int    `json:"pref"`
}
type rvRdnss struct {
	ID      string   `json:"id"`
	Life    int      `json:"life"`
	Servers []string `json:"servers"`
}
type rvCfg struct {
	ID       string     `json:"id"`
	Managed  bool       `json:"managed"`
	Other    bool       `json:"other"`
	Prefixes []rvPrefix `json:"prefixes"`
	Rdnss    rvRdnss    `json:"rdnss"`
	MTU      int        `json:"mtu"`
}
type rvStep struct {
	A string `json:"a"`
	X string `json:"x"`
	I int    `json:"i"`
}
type rvCase struct {
	I     int              `json:"i"`
	Cfg   *rvCfg           `json:"cfg"`
	Steps []rvStep         `json:"steps"`
	Cfgs  map[string]rvCfg `json:"cfgs"`
	exp   []rvExp
}

type rvOpt map[string]interface{}
type rvRA struct {
	WF   string                 `json:"wf"`
	Hdr  map[string]interface{} `json:"hdr"`
	Opts []rvOpt                `json:"opts"`
}
type rvStepOut struct {
	Res  string  `json:"res"`
	RAs  []rvRA  `json:"ras"`
	Live int     `json:"live"`
	Ms   float64 `json:"ms"`
}
type rvOut struct {
	I      int         `json:"i"`
	Start  string      `json:"start,omitempty"`
	SendRA string      `json:"sendra,omitempty"`
	RAs    []rvRA      `json:"ras,omitempty"`
	Steps  []rvStepOut `json:"steps,omitempty"`
	Leak   int         `json:"leak"`
	Still  []int       `json:"still_blocked,omitempty"` // steps whose call has not returned at the end of the behaviour
}

type rvEnv struct {
	u    *vh.Universe
	s    *packet.Session
	conn *vh.RecConn
	held []rvRA
}

func newRvEnv() (*rvEnv, error) {
	u := &vh.Universe{Cfg: vh.Configs[0]}
	nic := u.NICInfo()
	nic.IFI = &net.Interface{Index: 2, MTU: 1500, Name: "verif0", HardwareAddr: append(net.HardwareAddr{}, vh.OwnMAC...)}
	conn := vh.NewRecConn()
	s, err := packet.Config{Conn: conn, NICInfo: nic, ProbeDeadline: 2 * vh.Unit, OfflineDeadline: 5 * vh.Unit, PurgeDeadline: 60 * vh.Unit}.NewSession("")
	if err != nil {
		return nil, err
	}
	return &rvEnv{u: u, s: s, conn: conn}, nil
}

var stackBuf = make([]byte, 1<<18)

// liveLoops counts the goroutines created by startRADVS (a goroutine that has not run yet shows only its creator);
// settled is true when every one of them is parked in the select of its loop, i.e. has made its first send.
func loopState() (live int, settled bool) {
	for {
		n := runtime.Stack(stackBuf, true)
		if n < len(stackBuf) {
			settled = true
			for _, g := range bytes.Split(stackBuf[:n], []byte("\n\n")) {
				if !bytes.Contains(g, []byte("created by github.com/irai/packet/handlers/icmp_spoofer.(*Handler6).startRADVS")) {
					continue
				}
				live++
				head := g
				if i := bytes.IndexByte(g, '\n'); i >= 0 {
					head = g[:i]
				}
				if !bytes.Contains(head, []byte("[select")) || !bytes.Contains(g, []byte("sendAdvertistementLoop")) {
					settled = false
				}
			}
			return live, settled
		}
		stackBuf = make([]byte, 2*len(stackBuf))
	}
}

func liveLoops() int {
	n, _ := loopState()
	return n
}

// After three waits that ran into the deadline the code under test evidently does not end its loops (or does not start
// them): later waits are cut to 20 ms, then to a single look, so that the run still ends and reports what it saw.
var slowWaits int

func patience() time.Duration {
	if slowWaits >= 10 {
		return 0
	}
	if slowWaits >= 3 {
		return 20 * time.Millisecond
	}
	return 10 * time.Second
}

func waitLive(want int) int {
	deadline := time.Now().Add(patience())
	for {
		n, settled := loopState()
		if n == want && settled {
			return n
		}
		if time.Now().After(deadline) {
			slowWaits++
			if os.Getenv("VERIF_DEBUG") != "" {
				k := runtime.Stack(stackBuf, true)
				fmt.Fprintf(os.Stderr, "waitLive: want %d have %d\n%s\n", want, n, stackBuf[:k])
			}
			return n
		}
		runtime.Gosched()
		time.Sleep(200 * time.Microsecond)
	}
}

func (c rvCfg) args() ([]packet.PrefixInformation, *packet.RecursiveDNSServer) {
	var ps []packet.PrefixInformation
	for _, p := range c.Prefixes {
		ps = append(ps, packet.PrefixInformation{PrefixLength: uint8(p.Plen), OnLink: p.OnLink, AutonomousAddressConfiguration: p.Auto,
			ValidLifetime: time.Duration(p.Valid) * time.Second, PreferredLifetime: time.Duration(p.Pref) * time.Second,
			Prefix: net.ParseIP(p.Prefix).To16()})
	}
	var rd *packet.RecursiveDNSServer
	if c.Rdnss.ID != "none" {
		rd = &packet.RecursiveDNSServer{Lifetime: time.Duration(c.Rdnss.Life) * time.Second}
		for _, s := range c.Rdnss.Servers {
			rd.Servers = append(rd.Servers, net.ParseIP(s).To16())
		}
	}
	return ps, rd
}

func addr16(b []byte) string {
	var a [16]byte
	copy(a[:], b)
	return netip.AddrFrom16(a).String()
}

// decodeRA: independent decoding of one emitted frame into the record shape of spec/Radvs.tla.
func decodeRA(frame []byte) rvRA {
	ra := rvRA{Hdr: map[string]interface{}{}, Opts: []rvOpt{}}
	af, err := vh.CheckWellFormed(frame, vh.OwnMAC)
	if err != nil {
		ra.WF = err.Error()
	}
	if af == nil || af.IP == nil || af.ICMP == nil || af.Kind != "ra" {
		if ra.WF == "" {
			ra.WF = "not a router advertisement"
		}
		return ra
	}
	m := af.ICMP
	name := func(ip netip.Addr) string {
		if ip == vh.HostLLA {
			return "hostlla"
		}
		return ip.String()
	}
	mac := func(b []byte) string {
		if bytes.Equal(b, vh.OwnMAC) {
			return "own"
		}
		return net.HardwareAddr(b).String()
	}
	ra.Hdr = map[string]interface{}{"curhop": int(m.CurHop), "managed": m.RAFlags&0x80 != 0, "other": m.RAFlags&0x40 != 0,
		"prf": int(m.RAFlags >> 3 & 3), "lifetime": int(m.Lifetime), "reach": int(m.Reach), "retrans": int(m.Retrans),
		"ipsrc": name(af.IP.Src), "ipdst": af.IP.Dst.String(), "hop": int(af.IP.Hop), "ethdst": af.EthDst.String(), "ethsrc": mac(af.EthSrc)}
	if m.RAFlags&0x27 != 0 {
		ra.Hdr["otherflags"] = int(m.RAFlags & 0x27)
	}
	for _, o := range m.Opts {
		v := o.Value
		switch {
		case o.Type == 1 && len(v) == 6:
			ra.Opts = append(ra.Opts, rvOpt{"t": "slla", "mac": mac(v)})
		case o.Type == 5 && len(v) == 6:
			ra.Opts = append(ra.Opts, rvOpt{"t": "mtu", "mtu": int(binary.BigEndian.Uint32(v[2:6]))})
		case o.Type == 3 && len(v) == 30:
			ra.Opts = append(ra.Opts, rvOpt{"t": "prefix", "plen": int(v[0]), "onlink": v[1]&0x80 != 0, "auto": v[1]&0x40 != 0,
				"valid": int(binary.BigEndian.Uint32(v[2:6])), "pref": int(binary.BigEndian.Uint32(v[6:10])), "prefix": addr16(v[14:30])})
		case o.Type == 25 && len(v) >= 6 && (len(v)-6)%16 == 0:
			srv := []string{}
			for i := 6; i < len(v); i += 16 {
				srv = append(srv, addr16(v[i:i+16]))
			}
			ra.Opts = append(ra.Opts, rvOpt{"t": "rdnss", "life": int(binary.BigEndian.Uint32(v[2:6])), "servers": srv})
		case o.Type == 31 && len(v) >= 6:
			doms := []string{}
			p := v[6:]
			var labels []string
			for len(p) > 0 {
				l := int(p[0])
				p = p[1:]
				if l == 0 {
					if len(labels) > 0 {
						doms = append(doms, strings.Join(labels, "."))
					}
					labels = nil
					continue
				}
				if l > len(p) {
					doms = append(doms, "<truncated>")
					break
				}
				labels = append(labels, string(p[:l]))
				p = p[l:]
			}
			ra.Opts = append(ra.Opts, rvOpt{"t": "dnssl", "life": int(binary.BigEndian.Uint32(v[2:6])), "domains": doms})
		default:
			ra.Opts = append(ra.Opts, rvOpt{"t": fmt.Sprintf("type%d", o.Type), "len": len(v) + 2})
		}
	}
	return ra
}

// takeRAs decodes the IPv6 frames written since the last call.  The session itself writes ARP probes for its router entry
// when the minute ticker finds it silent for the probe deadline (behaviours with the two minute ticker): not the server's.
func (e *rvEnv) takeRAs() []rvRA {
	out := e.held
	e.held = nil
	if out == nil {
		out = []rvRA{}
	}
	for _, f := range e.conn.Take() {
		if len(f) >= 14 && binary.BigEndian.Uint16(f[12:14]) == 0x86dd {
			out = append(out, decodeRA(f))
		}
	}
	return out
}

// countRAs moves what was written so far into the held list and returns its length.
func (e *rvEnv) countRAs() int {
	e.held = e.takeRAs()
	return len(e.held)
}

func callName(panicked string, err error) string {
	switch {
	case panicked != "":
		return "panic:" + panicked
	case err == nil:
		return "ok"
	}
	return "error"
}

func (e *rvEnv) runVector(c rvCase) rvOut {
	out := rvOut{I: c.I}
	base := liveLoops()
	e.s.NICInfo.IFI.MTU = c.Cfg.MTU
	h, _ := icmp_spoofer.New6(e.s)
	e.conn.Take()
	e.held = nil
	ps, rd := c.Cfg.args()
	var r *icmp_spoofer.RADVS
	var err error
	p := guarded(func() { r, err = h.StartRADVS(c.Cfg.Managed, c.Cfg.Other, ps, rd) })
	out.Start = callName(p, err)
	if p != "" || err != nil || r == nil {
		return out
	}
	p = guarded(func() { err = r.SendRA() })
	out.SendRA = callName(p, err)
	r.Stop()
	// the loop has made its first send before it looks at the stop channel: once it is gone, nothing more is written
	out.Leak = waitLive(base) - base
	out.RAs = e.takeRAs()
	h.Close()
	return out
}

func (e *rvEnv) rsFrame() []byte {
	src := e.u.IP("l1")
	dst := netip.MustParseAddr("ff02::2")
	body := append([]byte{0, 0, 0, 0, 1, 1}, e.u.MAC("m1")...)
	return vh.Ether(net.HardwareAddr{0x33, 0x33, 0, 0, 0, 2}, e.u.MAC("m1"), 0x86dd, vh.IP6(src, dst, 58, 255, vh.ICMP6(src, dst, 133, 0, body)))
}

func (e *rvEnv) runBehaviour(c rvCase) rvOut {
	out := rvOut{I: c.I}
	base := liveLoops()
	e.s.NICInfo.IFI.MTU = 1500
	h, _ := icmp_spoofer.New6(e.s)
	e.conn.Take()
	e.held = nil
	var inst []*icmp_spoofer.RADVS
	type pend struct {
		step int
		done chan struct{}
	}
	var blocked []pend
	for n, st := range c.Steps {
		so := rvStepOut{RAs: []rvRA{}}
		t0 := time.Now()
		want := -1 // advertisements to wait for
		expLive, expRAs := c.expect(n)
		switch st.A {
		case "start":
			cfg := c.Cfgs[st.X]
			ps, rd := cfg.args()
			var r *icmp_spoofer.RADVS
			var err error
			p := guarded(func() { r, err = h.StartRADVS(cfg.Managed, cfg.Other, ps, rd) })
			so.Res = callName(p, err)
			inst = append(inst, r)
		case "sendra":
			var err error
			p := guarded(func() { err = inst[st.I-1].SendRA() })
			so.Res = callName(p, err)
		case "stop":
			done := make(chan struct{})
			r := inst[st.I-1]
			go func() {
				guarded(func() { r.Stop() })
				close(done)
			}()
			select {
			case <-done:
				so.Res = "ok"
			case <-time.After(50 * time.Millisecond):
				// either it blocks for ever (what the specification may say) or the machine is slow: give it the long wait
				// only when the behaviour goes on; the final look at the end of the behaviour decides
				so.Res = "blocked"
				blocked = append(blocked, pend{n, done})
			}
		case "rs":
			var err error
			p := guarded(func() {
				var f packet.Frame
				if f, err = e.s.Parse(e.rsFrame()); err == nil {
					err = h.ProcessPacket(f)
				}
			})
			so.Res = callName(p, err)
		case "hclose":
			var err error
			p := guarded(func() { err = h.Close() })
			so.Res = callName(p, err)
		case "tick":
			// wait for the loops' own two minute ticker; keep the session's NIC monitor fed meanwhile
			want = expRAs
			deadline := time.Now().Add(135 * time.Second)
			for e.countRAs() < want && time.Now().Before(deadline) {
				time.Sleep(500 * time.Millisecond)
				if int(time.Since(t0)/time.Second)%20 == 0 {
					e.s.Parse(e.rsFrame())
				}
			}
			so.Res = "ok"
		}
		// settle: loop goroutines as the specification says, advertisements written
		so.Live = waitLive(base+expLive) - base
		if want < 0 {
			if !e.conn.WaitLen(expRAs, patience()) {
				slowWaits++
			}
			if expRAs == 0 {
				time.Sleep(2 * time.Millisecond)
			}
		}
		so.RAs = e.takeRAs()
		so.Ms = float64(time.Since(t0)) / float64(time.Millisecond)
		out.Steps = append(out.Steps, so)
	}
	for _, p := range blocked {
		select {
		case <-p.done:
			out.Steps[p.step].Res = "ok" // it did return, late
		default:
			out.Still = append(out.Still, p.step)
		}
	}
	// clean up: end the loops that are still running
	for _, r := range inst {
		if r != nil {
			r := r
			go guarded(func() { r.Stop() })
		}
	}
	out.Leak = waitLive(base) - base
	h.Close()
	e.conn.Take()
	return out
}

// expect reads the specification's expectation for step n out of the raw case (live loops, advertisements).
func (c rvCase) expect(n int) (live, ras int) {
	if n < len(c.exp) {
		return c.exp[n].Live, len(c.exp[n].Exp.RAs)
	}
	return 0, 0
}

type rvExp struct {
	Live int `json:"live"`
	Exp  struct {
		RAs []string `json:"ras"`
	} `json:"exp"`
}

func cmdRadvs(args []string) (map[string]interface{}, error) {
	fs := flag.NewFlagSet("radvs", flag.ContinueOnError)
	in := fs.String("in", "", "cases (ndjson): {i, cfg} vectors and {i, steps, cfgs} behaviours")
	outp := fs.String("out", "", "results (ndjson)")
	if err := fs.Parse(args); err != nil {
		return nil, err
	}
	lines, err := readLines(*in)
	if err != nil {
		return nil, err
	}
	w, err := newResultWriter(*outp)
	if err != nil {
		return nil, err
	}
	defer w.close()
	e, err := newRvEnv()
	if err != nil {
		return nil, err
	}
	t0 := time.Now()
	nv, nb := 0, 0
	for _, l := range lines {
		if time.Since(t0) > 100*time.Second { // a session's NIC monitor ends the process after three minutes without IP traffic
			go e.s.Close()
			if e, err = newRvEnv(); err != nil {
				return nil, err
			}
			t0 = time.Now()
		}
		var c rvCase
		if err := json.Unmarshal(l, &c); err != nil {
			return nil, err
		}
		if c.Cfg != nil {
			w.put(e.runVector(c))
			nv++
			continue
		}
		var raw struct {
			Steps []rvExp `json:"steps"`
		}
		json.Unmarshal(l, &raw)
		c.exp = raw.Steps
		tb := time.Now()
		w.put(e.runBehaviour(c))
		if d := time.Since(tb); d > 500*time.Millisecond {
			fmt.Fprintf(os.Stderr, "radvs: behaviour %d took %v\n", c.I, d)
		}
		nb++
	}
	return map[string]interface{}{"vectors": nv, "behaviours": nb, "live_at_end": liveLoops()}, nil
}

func cmdRadvsWorker(args []string) (map[string]interface{}, error) { return cmdRadvs(args) }
