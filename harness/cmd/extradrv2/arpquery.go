package main

// X05 (b): arp_spoofer.Handler.WhoIs and Handler.Scan executed against the behaviours / vectors of spec/ArpQuery.tla.
//
// WhoIs: one behaviour = one call for one target address.  The messages of a round are handed to Session.Parse from
// inside the connection's WriteTo of that round's request ("inline") or by another goroutine as soon as the request is
// recorded ("after": the code then sleeps at least 50 ms; a behaviour whose injection was completed later than 25 ms
// after the write is reported as inconclusive and is not compared).  Behaviours run concurrently on shared sessions,
// one target address each; the hook finds the behaviour by the target address of the request.
//
// Scan: one vector = one NIC configuration (prefix length, host and router position) and a fault script (temporary /
// permanent write error at the k-th write attempt, Close from inside the k-th write); each on its own session.

import (
	"bytes"
	"encoding/binary"
	"encoding/json"
	"flag"
	"fmt"
	"net"
	"net/netip"
	"sync"
	"time"

	"github.com/irai/packet"
	"github.com/irai/packet/handlers/arp_spoofer"
	"verifharness/vh"
)

type wiInit struct {
	Target string `json:"target"`
	State  string `json:"state"`
}
type wiRound struct {
	Fail bool    `json:"fail"`
	Evs  []vdrEv `json:"evs"`
}
type wiBeh struct {
	I    int       `json:"i"`
	Init wiInit    `json:"init"`
	Plan []wiRound `json:"plan"`
}
type wiOut struct {
	I            int     `json:"i"`
	Res          string  `json:"res"`
	MAC          string  `json:"mac"`
	IPOK         bool    `json:"ip_ok"`
	Panic        string  `json:"panic,omitempty"`
	Sent         int     `json:"sent"`
	WF           string  `json:"wf"`   // first frame that is not the expected broadcast request
	Gaps         []int   `json:"gaps"` // ms between consecutive requests
	TableAfter   string  `json:"table_after"`
	Pre          string  `json:"pre,omitempty"` // precondition that could not be established
	Inconclusive string  `json:"inconclusive,omitempty"`
	ElapsedMs    float64 `json:"elapsed_ms"`
}

type wiGroup struct {
	u     *vh.Universe
	s     *packet.Session
	h     *arp_spoofer.Handler
	conn  *vh.HookConn
	mu    sync.Mutex
	slots map[netip.Addr]*wiRun
	pmu   sync.Mutex
}

type wiRun struct {
	g          *wiGroup
	b          wiBeh
	k          int
	ip         netip.Addr
	mac1, mac2 net.HardwareAddr
	mu         sync.Mutex
	attempts   int
	frames     [][]byte
	times      []time.Time
	late       string
	pending    sync.WaitGroup
}

func (g *wiGroup) parse(b []byte) {
	g.pmu.Lock()
	defer g.pmu.Unlock()
	guarded(func() { g.s.Parse(b) })
}

func newWiGroup() (*wiGroup, error) {
	u := &vh.Universe{Cfg: vh.Configs[0]}
	conn := vh.NewHookConn()
	s, err := packet.Config{Conn: conn, NICInfo: u.NICInfo(), ProbeDeadline: 2 * vh.Unit, OfflineDeadline: 5 * vh.Unit,
		PurgeDeadline: 60 * vh.Unit}.NewSession("")
	if err != nil {
		return nil, err
	}
	h, err := arp_spoofer.New(s)
	if err != nil {
		return nil, err
	}
	g := &wiGroup{u: u, s: s, h: h, conn: conn, slots: map[netip.Addr]*wiRun{}}
	find := func(frame []byte) *wiRun {
		// a broadcast request written by Handler.Request: op 1, sender = the NIC's addresses
		if len(frame) < 42 || binary.BigEndian.Uint16(frame[12:14]) != 0x0806 || binary.BigEndian.Uint16(frame[20:22]) != 1 {
			return nil
		}
		var a [4]byte
		copy(a[:], frame[38:42])
		g.mu.Lock()
		defer g.mu.Unlock()
		return g.slots[netip.AddrFrom4(a)]
	}
	conn.Before = func(frame []byte) error {
		r := find(frame)
		if r == nil {
			return nil
		}
		r.mu.Lock()
		defer r.mu.Unlock()
		r.attempts++
		if r.attempts <= len(r.b.Plan) && r.b.Plan[r.attempts-1].Fail {
			return errRefused
		}
		return nil
	}
	conn.OnWrite = func(frame []byte) {
		if r := find(frame); r != nil {
			r.sent(frame)
		}
	}
	return g, nil
}

func (r *wiRun) message(kind string) []byte {
	u := r.g.u
	host := u.Cfg.HostIP
	switch kind {
	case "reply":
		return vh.FrameARP(r.mac1, vh.OwnMAC, 2, r.mac1, r.ip, vh.OwnMAC, host)
	case "reply2":
		return vh.FrameARP(r.mac2, vh.OwnMAC, 2, r.mac2, r.ip, vh.OwnMAC, host)
	case "request":
		return vh.FrameARP(r.mac1, vh.Bcast, 1, r.mac1, r.ip, vh.ZeroMAC, host)
	case "ip":
		return vh.FrameIP4UDP(r.mac1, vh.OwnMAC, r.ip, host, 40000, 9, []byte("x05"))
	case "other":
		return vh.FrameARP(r.mac2, vh.OwnMAC, 2, r.mac2, u.IP(fmt.Sprintf("a%d", 100+r.k)), vh.OwnMAC, host)
	case "probe":
		return vh.FrameARP(r.mac1, vh.Bcast, 1, r.mac1, netip.IPv4Unspecified(), vh.ZeroMAC, r.ip)
	}
	panic("unknown message kind " + kind)
}

func (r *wiRun) sent(frame []byte) {
	t0 := time.Now()
	r.mu.Lock()
	j := r.attempts
	r.frames = append(r.frames, frame)
	r.times = append(r.times, t0)
	if j > len(r.b.Plan) {
		r.mu.Unlock()
		return
	}
	evs := r.b.Plan[j-1].Evs
	r.mu.Unlock()
	n := 0
	for n < len(evs) && evs[n].When == "inline" {
		r.g.parse(r.message(evs[n].Kind))
		n++
	}
	if n < len(evs) {
		rest := evs[n:]
		r.pending.Add(1)
		go func() {
			defer r.pending.Done()
			for _, e := range rest {
				r.g.parse(r.message(e.Kind))
			}
			if d := time.Since(t0); d > 25*time.Millisecond {
				r.mu.Lock()
				r.late = fmt.Sprintf("an injection was completed %v after the request was written", d)
				r.mu.Unlock()
			}
		}()
	}
}

func (g *wiGroup) macName(r *wiRun, mac net.HardwareAddr) string {
	switch {
	case mac == nil:
		return "none"
	case bytes.Equal(mac, r.mac1):
		return "m1"
	case bytes.Equal(mac, r.mac2):
		return "m2"
	}
	return g.u.MACName(mac)
}

func (g *wiGroup) newRun(b wiBeh, k int) *wiRun {
	r := &wiRun{g: g, b: b, k: k, mac1: g.u.MAC(fmt.Sprintf("m%d", k)), mac2: g.u.MAC(fmt.Sprintf("m%d", 100+k))}
	switch b.Init.Target {
	case "lan":
		r.ip = g.u.IP(fmt.Sprintf("a%d", k))
	case "own":
		r.ip = g.u.Cfg.HostIP
	case "router":
		r.ip = g.u.Cfg.RouterIP
	case "ext":
		r.ip = g.u.IP(fmt.Sprintf("x%d", k))
	case "v6":
		r.ip = g.u.IP(fmt.Sprintf("l%d", k))
	}
	return r
}

func (g *wiGroup) exec(r *wiRun) wiOut {
	out := wiOut{I: r.b.I, Gaps: []int{}}
	// precondition
	host := g.s.FindIP(r.ip)
	switch {
	case r.b.Init.Target == "lan" && r.b.Init.State == "absent" && host != nil:
		out.Pre = "the target is already in the table"
	case r.b.Init.State == "online" && (host == nil || !host.Online):
		out.Pre = "the target is not online"
	case r.b.Init.State == "offline" && (host == nil || host.Online):
		out.Pre = "the target is not offline"
	}
	if out.Pre != "" {
		return out
	}
	g.mu.Lock()
	g.slots[r.ip] = r
	g.mu.Unlock()
	var addr packet.Addr
	var err error
	t0 := time.Now()
	out.Panic = guarded(func() { addr, err = g.h.WhoIs(r.ip) })
	out.ElapsedMs = float64(time.Since(t0)) / float64(time.Millisecond)
	r.pending.Wait()
	g.mu.Lock()
	delete(g.slots, r.ip)
	g.mu.Unlock()
	out.Res = errName(err)
	if out.Panic != "" {
		out.Res = "panic"
	}
	out.MAC = g.macName(r, addr.MAC)
	out.IPOK = (err == nil && addr.IP == r.ip) || (err != nil && !addr.IP.IsValid())
	r.mu.Lock()
	defer r.mu.Unlock()
	out.Inconclusive = r.late
	out.Sent = len(r.frames)
	for i, f := range r.frames {
		if i > 0 {
			out.Gaps = append(out.Gaps, int(r.times[i].Sub(r.times[i-1])/time.Millisecond))
		}
		if w := checkWhoHas(f, g.u.Cfg.HostIP, r.ip); w != "" && out.WF == "" {
			out.WF = fmt.Sprintf("request %d: %s", i+1, w)
		}
	}
	out.TableAfter = "absent"
	if h := g.s.FindIP(r.ip); h != nil {
		out.TableAfter = g.macName(r, h.MACEntry.MAC)
	}
	return out
}

// checkWhoHas: the frame is the broadcast request "who has target, tell hostIP" of the NIC.
func checkWhoHas(f []byte, hostIP, target netip.Addr) string {
	af, err := vh.CheckWellFormed(f, vh.OwnMAC)
	if err != nil {
		return err.Error()
	}
	a := af.ARP
	switch {
	case a == nil || af.Kind != "arpreq":
		return "not an ARP request: " + af.Kind
	case !bytes.Equal(af.EthDst, vh.Bcast):
		return "Ethernet destination " + af.EthDst.String() + " is not the broadcast address"
	case !bytes.Equal(a.SHA, vh.OwnMAC) || a.SPA != hostIP:
		return fmt.Sprintf("sender %s %s is not the NIC", a.SHA, a.SPA)
	case a.TPA != target:
		return fmt.Sprintf("target address %s, want %s", a.TPA, target)
	case a.HType != 1 || a.PType != 0x0800 || a.HLen != 6 || a.PLen != 4:
		return "hardware / protocol type or length fields"
	}
	return ""
}

func cmdWhoIs(args []string) (map[string]interface{}, error) {
	fs := flag.NewFlagSet("whois", flag.ContinueOnError)
	in := fs.String("in", "", "behaviours (ndjson)")
	outp := fs.String("out", "", "results (ndjson)")
	if err := fs.Parse(args); err != nil {
		return nil, err
	}
	lines, err := readLines(*in)
	if err != nil {
		return nil, err
	}
	w, err := newResultWriter(*outp)
	if err != nil {
		return nil, err
	}
	defer w.close()
	var behs []wiBeh
	for _, l := range lines {
		var b wiBeh
		if err := json.Unmarshal(l, &b); err != nil {
			return nil, err
		}
		behs = append(behs, b)
	}
	// client numbers 1..99 without 19 (a119 is the NIC's own address in this universe)
	var ks []int
	for k := 1; k < 100; k++ {
		if k != 19 {
			ks = append(ks, k)
		}
	}
	var wg sync.WaitGroup
	groups := 0
	for start := 0; start < len(behs); start += len(ks) {
		end := start + len(ks)
		if end > len(behs) {
			end = len(behs)
		}
		g, err := newWiGroup()
		if err != nil {
			return nil, err
		}
		groups++
		var runs []*wiRun
		for i, b := range behs[start:end] {
			runs = append(runs, g.newRun(b, ks[i]))
		}
		// initial table: bind the targets that start offline, age them, then bind those that start online
		for _, r := range runs {
			if r.b.Init.State == "offline" {
				g.parse(r.message("reply"))
			}
		}
		if err := g.s.VerifPurge(time.Now().Add(6 * vh.Unit)); err != nil {
			return nil, err
		}
		time.Sleep(20 * time.Millisecond) // the probes of the ageing pass are written by goroutines of their own
		for _, r := range runs {
			if r.b.Init.State == "online" {
				g.parse(r.message("reply"))
			}
		}
		wg.Add(1)
		go func(g *wiGroup, runs []*wiRun) {
			defer wg.Done()
			var w2 sync.WaitGroup
			for _, r := range runs {
				w2.Add(1)
				go func(r *wiRun) {
					defer w2.Done()
					w.put(g.exec(r))
				}(r)
			}
			w2.Wait()
			go g.s.Close()
		}(g, runs)
	}
	wg.Wait()
	return map[string]interface{}{"behaviours": len(behs), "sessions": groups}, nil
}

// ---------------------------------------------------------------------------------------------------------------------

type scFault struct {
	At   int    `json:"at"`
	Kind string `json:"kind"`
}
type scVec struct {
	I   int `json:"i"`
	Cfg struct {
		Bits   int `json:"bits"`
		Host   int `json:"host"`
		Router int `json:"router"`
	} `json:"cfg"`
	Faults []scFault `json:"faults"`
}
type scOut struct {
	I          int    `json:"i"`
	Res        string `json:"res"`
	Panic      string `json:"panic,omitempty"`
	Sent       []int  `json:"sent"`
	WF         string `json:"wf"`
	MinGapMs   int    `json:"min_gap_ms"`
	AfterClose int    `json:"after_close"` // frames written after Close returned, beyond the one being written
	Setup      string `json:"setup,omitempty"`
}

type tempErr struct{}

func (tempErr) Error() string   { return "verif: temporary write failure" }
func (tempErr) Timeout() bool   { return false }
func (tempErr) Temporary() bool { return true }

var _ net.Error = tempErr{}

func runScan(v scVec) scOut {
	out := scOut{I: v.I, Sent: []int{}, MinGapMs: -1}
	base := netip.MustParseAddr("10.20.30.0")
	if v.Cfg.Bits > 24 {
		base = netip.MustParseAddr("10.20.30.64")
	}
	add := func(n int) netip.Addr {
		b := base.As4()
		x := binary.BigEndian.Uint32(b[:]) + uint32(n)
		binary.BigEndian.PutUint32(b[:], x)
		return netip.AddrFrom4(b)
	}
	router := netip.MustParseAddr("10.99.0.1")
	if v.Cfg.Router > 0 {
		router = add(v.Cfg.Router)
	}
	hostIP := add(v.Cfg.Host)
	nic := &packet.NICInfo{HomeLAN4: netip.PrefixFrom(base, v.Cfg.Bits),
		HostAddr4:   packet.Addr{MAC: append(net.HardwareAddr{}, vh.OwnMAC...), IP: hostIP},
		RouterAddr4: packet.Addr{MAC: append(net.HardwareAddr{}, vh.RouterMAC...), IP: router},
		HostLLA:     netip.PrefixFrom(vh.HostLLA, 64)}
	conn := vh.NewHookConn()
	s, err := packet.Config{Conn: conn, NICInfo: nic, ProbeDeadline: 2 * vh.Unit, OfflineDeadline: 5 * vh.Unit, PurgeDeadline: 60 * vh.Unit}.NewSession("")
	if err != nil {
		out.Setup = "NewSession: " + err.Error()
		return out
	}
	defer func() { go s.Close() }()
	h, err := arp_spoofer.New(s)
	if err != nil {
		out.Setup = "arp_spoofer.New: " + err.Error()
		return out
	}
	var mu sync.Mutex
	attempts := 0
	limit := 8
	if v.Cfg.Bits < 32 {
		limit += 1 << uint(32-v.Cfg.Bits)
	}
	var last time.Time
	closedAt := -1
	fault := func(at int) string {
		for _, f := range v.Faults {
			if f.At == at {
				return f.Kind
			}
		}
		return ""
	}
	conn.Before = func(frame []byte) error {
		mu.Lock()
		defer mu.Unlock()
		attempts++
		if attempts > limit { // a walk that leaves the LAN: stop it, the list of requests written shows it
			return errRefused
		}
		switch fault(attempts) {
		case "temp":
			return tempErr{}
		case "perm":
			return errRefused
		}
		return nil
	}
	conn.OnWrite = func(frame []byte) {
		now := time.Now()
		mu.Lock()
		at := attempts
		if len(frame) >= 42 {
			var a [4]byte
			copy(a[:], frame[38:42])
			if w := checkWhoHas(frame, hostIP, netip.AddrFrom4(a)); w != "" && out.WF == "" {
				out.WF = fmt.Sprintf("request %d: %s", len(out.Sent)+1, w)
			}
			off := int(binary.BigEndian.Uint32(frame[38:42])) - int(binary.BigEndian.Uint32(base.AsSlice()))
			out.Sent = append(out.Sent, off)
		}
		if !last.IsZero() {
			if g := int(now.Sub(last) / time.Millisecond); out.MinGapMs < 0 || g < out.MinGapMs {
				out.MinGapMs = g
			}
		}
		last = now
		if closedAt >= 0 {
			out.AfterClose++
		}
		doClose := fault(at) == "close"
		mu.Unlock()
		if doClose {
			h.Close()
			mu.Lock()
			closedAt = at
			mu.Unlock()
		}
	}
	var rerr error
	out.Panic = guarded(func() { rerr = h.Scan() })
	time.Sleep(30 * time.Millisecond)
	mu.Lock()
	defer mu.Unlock()
	conn.OnWrite, conn.Before = nil, nil
	switch {
	case out.Panic != "":
		out.Res = "panic"
	case rerr == nil:
		out.Res = "nil"
	default:
		out.Res = "err"
		if rerr != errRefused {
			out.Res = "err:" + rerr.Error()
		}
	}
	h.Close()
	return out
}

func cmdScan(args []string) (map[string]interface{}, error) {
	fs := flag.NewFlagSet("scan", flag.ContinueOnError)
	in := fs.String("in", "", "vectors (ndjson)")
	outp := fs.String("out", "", "results (ndjson)")
	par := fs.Int("par", 48, "vectors in flight")
	if err := fs.Parse(args); err != nil {
		return nil, err
	}
	lines, err := readLines(*in)
	if err != nil {
		return nil, err
	}
	w, err := newResultWriter(*outp)
	if err != nil {
		return nil, err
	}
	defer w.close()
	sem := make(chan struct{}, *par)
	var wg sync.WaitGroup
	for _, l := range lines {
		var v scVec
		if err := json.Unmarshal(l, &v); err != nil {
			return nil, err
		}
		wg.Add(1)
		sem <- struct{}{}
		go func(v scVec) {
			defer wg.Done()
			defer func() { <-sem }()
			w.put(runScan(v))
		}(v)
	}
	wg.Wait()
	return map[string]interface{}{"vectors": len(lines)}, nil
}
