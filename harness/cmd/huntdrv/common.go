//go:build hunthooks

package main

import (
	"bufio"
	"encoding/json"
	"fmt"
	"net"
	"os"
	"runtime"
	"strconv"
	"sync"
	"sync/atomic"
	"time"

	"github.com/irai/packet"
)

type action map[string]interface{}

func (a action) s(k string) string {
	if v, ok := a[k]; ok {
		switch x := v.(type) {
		case string:
			return x
		case float64:
			return strconv.Itoa(int(x))
		}
	}
	return ""
}
func (a action) i(k string) int {
	switch v := a[k].(type) {
	case float64:
		return int(v)
	case int:
		return v
	}
	return 0
}
func (a action) has(k string) bool { _, ok := a[k]; return ok }

// evt is one entry of the unified, totally ordered log of hook events and written frames.
type evt struct {
	kind  string
	loop  int // process-global loop id
	addr  packet.Addr
	tgt   packet.Addr
	b1    bool
	b2    bool
	b3    bool
	frame []byte
	gor   uint64 // goroutine that wrote the frame
	epoch int    // session (behaviour) the frame was written on
}

// lp is the harness view of one spoof loop goroutine.
type lp struct {
	gid     int // process-global id
	local   int // number inside the current behaviour (1..)
	addr    packet.Addr
	pos     string // "new" | "check" | "act" | "wait" | "done"
	gate    chan struct{}
	tick    chan time.Time
	free    bool // abandoned: gates are open
	gor     uint64
	hunting bool // result of the last membership check
	closed  bool
	router  bool
	tgt     packet.Addr
	arrived int // number of gate arrivals
	sleeps  int // number of times the loop entered its select (ICMPv6)
	wakeDue bool // the channel the loop captured at its check has been closed while it was between check and select
}

// ctl is the scheduler of the loops and the event log. One per process (the hooks are package globals).
type ctl struct {
	mu     sync.Mutex
	cond   *sync.Cond
	events []evt
	loops  map[int]*lp
	order  []*lp // loops of the current behaviour in order of appearance
	gated  bool
	rt     func(e evt) // real-time mode: called under mu for every event
	bygor  map[uint64]*lp
	epoch  int // current behaviour: frames of abandoned sessions are ignored
	// send-overlap stage
	holdArmed   bool
	holding     bool
	holdRelease chan struct{}
}

func newCtl() *ctl {
	c := &ctl{loops: map[int]*lp{}, bygor: map[uint64]*lp{}}
	c.cond = sync.NewCond(&c.mu)
	go func() { // wake waiters periodically so that deadlines are honoured
		for {
			time.Sleep(2 * time.Millisecond)
			c.cond.Broadcast()
		}
	}()
	return c
}

func goid() uint64 {
	var buf [64]byte
	n := runtime.Stack(buf[:], false)
	// "goroutine 123 [running]:"
	var id uint64
	for _, ch := range buf[10:n] {
		if ch < '0' || ch > '9' {
			break
		}
		id = id*10 + uint64(ch-'0')
	}
	return id
}

func (c *ctl) add(e evt) {
	c.events = append(c.events, e)
	if c.rt != nil {
		c.rt(e)
	}
	c.cond.Broadcast()
}

// loopStart / loopDone / gate are called from the loop goroutines through the hooks.
func (c *ctl) loopStart(id int, addr packet.Addr) {
	c.mu.Lock()
	defer c.mu.Unlock()
	l := &lp{gid: id, addr: packet.Addr{MAC: packet.CopyMAC(addr.MAC), IP: addr.IP}, pos: "new",
		gate: make(chan struct{}), tick: make(chan time.Time), gor: goid()}
	c.loops[id] = l
	c.order = append(c.order, l)
	l.local = len(c.order)
	c.bygor[l.gor] = l
	c.add(evt{kind: "loop", loop: id, addr: l.addr})
}

func (c *ctl) loopDone(id int) {
	c.mu.Lock()
	defer c.mu.Unlock()
	if l := c.loops[id]; l != nil {
		l.pos = "done"
		delete(c.bygor, l.gor)
	}
	c.add(evt{kind: "done", loop: id})
}

func (c *ctl) gate(name string, id int) {
	c.mu.Lock()
	l := c.loops[id]
	if l == nil || !c.gated {
		c.mu.Unlock()
		return
	}
	if l.free {
		// a loop of an abandoned behaviour that is still running after its handler was closed: park it
		// for good (it must not spin or write into the log of the next behaviour)
		c.mu.Unlock()
		select {}
	}
	l.pos = name
	l.arrived++
	ch := l.gate
	c.cond.Broadcast()
	c.mu.Unlock()
	<-ch
}

// abandon opens every gate of the loops of the finished behaviour and starts a new epoch.
func (c *ctl) abandon() {
	c.mu.Lock()
	defer c.mu.Unlock()
	c.epoch++
	for _, l := range c.order {
		if !l.free {
			l.free = true
			close(l.gate)
		}
	}
	c.order = nil
}

// waitFor waits until pred (evaluated under mu) holds or the deadline passes.
func (c *ctl) waitFor(d time.Duration, pred func() bool) bool {
	deadline := time.Now().Add(d)
	c.mu.Lock()
	defer c.mu.Unlock()
	for !pred() {
		if time.Now().After(deadline) {
			return false
		}
		c.cond.Wait()
	}
	return true
}

func (c *ctl) local(n int) *lp {
	c.mu.Lock()
	defer c.mu.Unlock()
	if n < 1 || n > len(c.order) {
		return nil
	}
	return c.order[n-1]
}

func (c *ctl) nLoops() int {
	c.mu.Lock()
	defer c.mu.Unlock()
	return len(c.order)
}

func (c *ctl) nEvents() int {
	c.mu.Lock()
	defer c.mu.Unlock()
	return len(c.events)
}

// framesSince returns the frames logged at index >= from.
func (c *ctl) framesSince(from int) [][]byte {
	c.mu.Lock()
	defer c.mu.Unlock()
	var out [][]byte
	for _, e := range c.events[from:] {
		if e.kind == "frame" && e.epoch == c.epoch {
			out = append(out, e.frame)
		}
	}
	return out
}

func (c *ctl) countSince(from int, kind string) int {
	c.mu.Lock()
	defer c.mu.Unlock()
	n := 0
	for _, e := range c.events[from:] {
		if e.kind == kind {
			n++
		}
	}
	return n
}

// countSinceB1 counts the events of that kind whose first flag is set.
func (c *ctl) countSinceB1(from int, kind string) int {
	c.mu.Lock()
	defer c.mu.Unlock()
	n := 0
	for _, e := range c.events[from:] {
		if e.kind == kind && e.b1 {
			n++
		}
	}
	return n
}

// concurrently runs f in n goroutines released together and joins them; returns how many returned true.
// While they run *stress is positive.
func concurrently(n int, stress *int32, f func() bool) int {
	var wg sync.WaitGroup
	var bad int32
	gate := make(chan struct{})
	atomic.AddInt32(stress, 1)
	for i := 0; i < n; i++ {
		wg.Add(1)
		go func() {
			defer wg.Done()
			<-gate
			if f() {
				atomic.AddInt32(&bad, 1)
			}
		}()
	}
	runtime.Gosched()
	close(gate)
	wg.Wait()
	atomic.AddInt32(stress, -1)
	return int(bad)
}

// stall is called from the event sink under the handler mutex: during a stress step it holds the critical
// section open for a moment, so that calls which already passed an earlier (separate) check pile up behind it.
func stall(stress *int32) {
	if atomic.LoadInt32(stress) > 0 {
		time.Sleep(150 * time.Microsecond)
	}
}

// release lets a loop parked at a gate continue.
func (c *ctl) release(l *lp) bool {
	select {
	case l.gate <- struct{}{}:
		return true
	case <-time.After(2 * time.Second):
		return false
	}
}

// pcs lists the observed positions of the loops of the current behaviour.
func (c *ctl) pcs() []string {
	c.mu.Lock()
	defer c.mu.Unlock()
	out := make([]string, 0, len(c.order))
	for _, l := range c.order {
		out = append(out, l.pos)
	}
	return out
}

// seqConn records every written frame in the unified log.
type seqConn struct {
	c     *ctl
	epoch int
}

func (s *seqConn) WriteTo(b []byte, addr net.Addr) (int, error) {
	// send-overlap stage: the first write after arming is held BEFORE the frame is read, the way a slow
	// device would; whatever happens to the caller's buffer meanwhile ends up on the wire
	held := false
	s.c.mu.Lock()
	if s.c.holdArmed {
		s.c.holdArmed, s.c.holding, held = false, true, true
		rel := s.c.holdRelease
		s.c.cond.Broadcast()
		s.c.mu.Unlock()
		<-rel
	} else {
		s.c.mu.Unlock()
	}
	cp := make([]byte, len(b))
	copy(cp, b)
	g := goid()
	s.c.mu.Lock()
	e := evt{kind: "frame", frame: cp, gor: g, epoch: s.epoch, b3: held}
	if l := s.c.bygor[g]; l != nil {
		e.loop = l.gid
	}
	s.c.add(e)
	s.c.mu.Unlock()
	return len(b), nil
}
func (s *seqConn) ReadFrom(b []byte) (int, net.Addr, error)  { select {} }
func (s *seqConn) Close() error                              { return nil }
func (s *seqConn) LocalAddr() net.Addr                       { return nil }
func (s *seqConn) SetDeadline(t time.Time) error             { return nil }
func (s *seqConn) SetReadDeadline(t time.Time) error         { return nil }
func (s *seqConn) SetWriteDeadline(t time.Time) error        { return nil }

// ---- output helpers

type traceWriter struct {
	mu  sync.Mutex
	w   *bufio.Writer
	f   *os.File
	n   int
	fw  *bufio.Writer // hex dump of emitted frames (-frames)
	ff  *os.File
	nfr int
}

func newTraceWriter(path, frames string) *traceWriter {
	f, err := os.Create(path)
	if err != nil {
		fmt.Fprintln(os.Stderr, err)
		os.Exit(2)
	}
	t := &traceWriter{w: bufio.NewWriterSize(f, 1<<20), f: f}
	if frames != "" {
		ff, err := os.Create(frames)
		if err != nil {
			fmt.Fprintln(os.Stderr, err)
			os.Exit(2)
		}
		t.ff, t.fw = ff, bufio.NewWriterSize(ff, 1<<20)
	}
	return t
}

func (t *traceWriter) line(rec map[string]interface{}) {
	b, err := json.Marshal(rec)
	if err != nil {
		panic(err)
	}
	t.mu.Lock()
	t.w.Write(b)
	t.w.WriteByte('\n')
	t.n++
	t.mu.Unlock()
}

func (t *traceWriter) frames(fs [][]byte) {
	t.mu.Lock()
	defer t.mu.Unlock()
	t.nfr += len(fs)
	if t.fw != nil {
		for _, f := range fs {
			fmt.Fprintf(t.fw, "%x\n", f)
		}
	}
}

func (t *traceWriter) close() {
	t.mu.Lock()
	defer t.mu.Unlock()
	t.w.Flush()
	t.f.Close()
	if t.fw != nil {
		t.fw.Flush()
		t.ff.Close()
	}
}

func readScript(path string, fn func(a action)) {
	in, err := os.Open(path)
	if err != nil {
		fmt.Fprintln(os.Stderr, err)
		os.Exit(2)
	}
	defer in.Close()
	sc := bufio.NewScanner(in)
	sc.Buffer(make([]byte, 1<<20), 1<<24)
	for sc.Scan() {
		if len(sc.Bytes()) == 0 {
			continue
		}
		var a action
		if err := json.Unmarshal(sc.Bytes(), &a); err != nil {
			fmt.Fprintln(os.Stderr, "bad script line:", err)
			os.Exit(2)
		}
		fn(a)
	}
}
