//go:build hunthooks

package main

import (
	"bytes"
	"flag"
	"fmt"
	"math/rand"
	"os"
	"runtime"
	"sort"
	"time"

	"github.com/irai/packet"
	arp "github.com/irai/packet/handlers/arp_spoofer"
	"verifharness/vh"
)

// arpDriver executes action scripts (spec/ArpHunt.tla vocabulary) on a real arp_spoofer.Handler.
type arpDriver struct {
	c      *ctl
	u      *vh.Universe
	s      *packet.Session
	h      *arp.Handler
	tw     *traceWriter
	rng    *rand.Rand
	mark   int // index into c.events of the first event not yet reported
	closed bool
	panics int
	steps  int
	infra  string // harness-level failure (not a verdict)
	stress int32  // > 0 while overlapping API calls are in flight: the event sink then dawdles under the handler mutex
}

func (d *arpDriver) install() {
	c := d.c
	arp.VerifEmit = func(ev string, kv ...interface{}) {
		switch ev {
		case "arp.loop":
			c.loopStart(kv[0].(int), kv[1].(packet.Addr))
		case "arp.done":
			c.loopDone(kv[0].(int))
		case "arp.check": // under arpMutex
			c.mu.Lock()
			tgt := kv[2].(packet.Addr)
			tgt.MAC = packet.CopyMAC(tgt.MAC)
			if l := c.loops[kv[0].(int)]; l != nil {
				l.hunting, l.tgt = kv[3].(bool), tgt
			}
			c.add(evt{kind: "check", loop: kv[0].(int), addr: kv[1].(packet.Addr), tgt: tgt, b1: kv[3].(bool)})
			c.mu.Unlock()
		case "arp.start": // under arpMutex
			stall(&d.stress)
			c.mu.Lock()
			a := kv[0].(packet.Addr)
			c.add(evt{kind: "start", addr: packet.Addr{MAC: packet.CopyMAC(a.MAC), IP: a.IP}, b1: kv[1].(bool)})
			c.mu.Unlock()
		case "arp.stop": // under arpMutex
			c.mu.Lock()
			a := kv[0].(packet.Addr)
			c.add(evt{kind: "stop", addr: packet.Addr{MAC: packet.CopyMAC(a.MAC), IP: a.IP}, b1: kv[1].(bool)})
			c.mu.Unlock()
		}
	}
	arp.VerifGate = c.gate
	arp.VerifTicker = func(ch <-chan time.Time, loop int) <-chan time.Time {
		c.mu.Lock()
		defer c.mu.Unlock()
		if l := c.loops[loop]; l != nil && c.gated {
			return l.tick
		}
		return ch
	}
}

func (d *arpDriver) reset(cfg int) error {
	if d.h != nil {
		func() {
			defer func() { recover() }()
			d.h.Close()
		}()
		d.c.abandon()
		old := d.s
		go old.Close()
	}
	d.u = &vh.Universe{Cfg: vh.Configs[cfg%len(vh.Configs)]}
	s, _, err := vh.NewSession(d.u, 1, 2, 4)
	if err != nil {
		return err
	}
	s.Conn = &seqConn{c: d.c, epoch: d.c.epoch}
	h, err := arp.New(s)
	if err != nil {
		return err
	}
	d.s, d.h, d.closed = s, h, false
	// keep the NIC monitor of the session quiet
	s.Parse(vh.FrameIP4UDP(vh.RouterMAC, vh.OwnMAC, d.u.Cfg.RouterIP, d.u.Cfg.HostIP, 1000, 2000, []byte("x")))
	d.mark = d.c.nEvents()
	return nil
}

type huntEntry struct {
	Mac string `json:"mac"`
	IP  string `json:"ip"`
}

func (d *arpDriver) huntList() []huntEntry {
	out := []huntEntry{}
	for _, a := range d.h.VerifHuntList() {
		out = append(out, huntEntry{d.u.HuntMACName(a.MAC), d.u.HuntIPName(a.IP)})
	}
	sort.Slice(out, func(i, j int) bool { return out[i].Mac < out[j].Mac })
	return out
}

// observe completes a record with everything observable after the step.
func (d *arpDriver) observe(rec map[string]interface{}) {
	raw := d.c.framesSince(d.mark)
	d.mark = d.c.nEvents()
	d.tw.frames(raw)
	fs := []vh.ArpFrame{}
	for _, b := range raw {
		fs = append(fs, d.u.DecodeARP(b))
	}
	rec["frames"] = fs
	rec["hunt"] = d.huntList()
	rec["pcs"] = d.c.pcs()
}

const stepWait = 3 * time.Second

// settle waits for a freshly spawned loop to park at its first gate.
func (d *arpDriver) settle(n0 int, expectNew bool) int {
	if expectNew {
		d.c.waitFor(stepWait, func() bool { return len(d.c.order) > n0 && d.c.order[len(d.c.order)-1].pos == "check" })
	} else {
		time.Sleep(300 * time.Microsecond) // an illegitimate loop would announce itself now
	}
	d.c.waitFor(stepWait, func() bool {
		for _, l := range d.c.order[n0:] {
			if l.pos == "new" {
				return false
			}
		}
		return true
	})
	return d.c.nLoops() - n0
}

func (d *arpDriver) addr(a action) packet.Addr {
	if !a.has("ip") {
		return packet.Addr{MAC: d.u.HuntMAC(a.s("mac"))}
	}
	return packet.Addr{MAC: d.u.HuntMAC(a.s("mac")), IP: d.u.HuntIP(a.s("ip"))}
}

// step executes one action; returns nil when the action does not apply in the current state.
func (d *arpDriver) step(a action) (rec map[string]interface{}) {
	rec = d.perform(a)
	if rec != nil {
		if _, bad := rec["panic"]; !bad {
			d.observe(rec)
		}
	}
	return rec
}

// overlap runs action `first` with its frame write held inside the connection, runs `second` to completion
// meanwhile, then lets the held write finish (send-overlap stage: every pair of send paths of the handler).
// Two ordinary trace lines result: first (with the frame as it finally left) and second.
func (d *arpDriver) overlap(first, second action) []map[string]interface{} {
	c := d.c
	// the goroutine that will write the first action's frame: the loop's for a loop action, else a goroutine of its own
	var la *lp
	if first.s("a") == "act" {
		la = c.local(first.i("l"))
	}
	c.mu.Lock()
	c.holdArmed, c.holding, c.holdRelease = true, false, make(chan struct{})
	rel := c.holdRelease
	start := len(c.events)
	c.mu.Unlock()
	var recA map[string]interface{}
	var gorA uint64
	if la != nil {
		gorA = la.gor
	}
	doneA := make(chan struct{})
	ready := make(chan struct{})
	go func() {
		defer close(doneA)
		if la == nil {
			gorA = goid()
		}
		close(ready)
		recA = d.perform(first)
	}()
	<-ready
	holding := c.waitFor(stepWait, func() bool { return c.holding })
	var recB map[string]interface{}
	if holding {
		recB = d.perform(second)
	}
	c.mu.Lock()
	c.holdArmed = false
	c.mu.Unlock()
	close(rel)
	<-doneA
	// quiescence of the first sender: a received packet is done when ProcessPacket has returned; a loop action is
	// done when the loop has written its frame or has ended
	if la != nil {
		c.waitFor(stepWait, func() bool {
			if la.pos == "done" {
				return true
			}
			for _, e := range c.events[start:] {
				if e.kind == "frame" && e.gor == gorA {
					return true
				}
			}
			return false
		})
		if ed, _ := recA["done"].(bool); !ed { // the loop may end right after a restoring frame
			w := 2 * time.Millisecond
			if c.wroteRestore(start, gorA) {
				w = stepWait
			}
			c.waitFor(w, func() bool { return la.pos == "done" })
			c.mu.Lock()
			if la.pos == "done" {
				recA["done"] = true
			}
			c.mu.Unlock()
		}
	}
	if !holding { // the first action wrote nothing (or too late to be held): plain sequence
		recB = d.perform(second)
	}
	// fixed attribution: the frames written by the first sender's goroutine belong to the first action, all others to the second
	c.mu.Lock()
	var fa, fb []vh.ArpFrame
	var raw [][]byte
	for _, e := range c.events[d.mark:] {
		if e.kind == "frame" && e.epoch == c.epoch {
			raw = append(raw, e.frame)
			if e.gor == gorA {
				fa = append(fa, d.u.DecodeARP(e.frame))
			} else {
				fb = append(fb, d.u.DecodeARP(e.frame))
			}
		}
	}
	d.mark = len(c.events)
	c.mu.Unlock()
	d.tw.frames(raw)
	out := []map[string]interface{}{}
	if recA != nil {
		if fa == nil {
			fa = []vh.ArpFrame{}
		}
		recA["frames"] = fa
		recA["held"] = holding
		sec := map[string]interface{}{}
		for k, v := range second {
			sec[k] = v
		}
		recA["ovb"] = sec // lets the check rebuild the overlap when it re-executes this history
		out = append(out, recA)
	}
	if recB != nil {
		if fb == nil {
			fb = []vh.ArpFrame{}
		}
		recB["frames"], recB["hunt"], recB["pcs"] = fb, d.huntList(), d.c.pcs()
		out = append(out, recB)
	}
	return out
}

// perform executes one action without reading the observables; nil when the action does not apply.
func (d *arpDriver) perform(a action) (rec map[string]interface{}) {
	rec = map[string]interface{}{}
	for k, v := range a {
		rec[k] = v
	}
	defer func() {
		if r := recover(); r != nil {
			rec["panic"] = fmt.Sprint(r)
		}
	}()
	c := d.c
	switch a.s("a") {
	case "start":
		n0, e0 := c.nLoops(), c.nEvents()
		_, err := d.h.StartHunt(d.addr(a))
		isNew := false
		c.mu.Lock()
		for _, e := range c.events[e0:] {
			if e.kind == "start" && e.b1 {
				isNew = true
			}
		}
		c.mu.Unlock()
		rec["err"] = err != nil
		rec["spawned"] = d.settle(n0, isNew)
	case "cstart": // n overlapping StartHunt calls for one address, released together
		n0, e0 := c.nLoops(), c.nEvents()
		n := a.i("n")
		if n < 2 {
			n = 2
		}
		addr := d.addr(a)
		errs := concurrently(n, &d.stress, func() bool { _, err := d.h.StartHunt(addr); return err != nil })
		isNew := c.countSince(e0, "loop") > 0 || c.countSinceB1(e0, "start") > 0
		rec["n"], rec["errs"] = n, errs
		time.Sleep(time.Millisecond) // every goroutine the calls spawned has announced itself by now
		rec["spawned"] = d.settle(n0, isNew)
	case "capture": // Session.Capture / Release: a per-MAC flag of the application, independent of the hunt list
		if err := d.s.Capture(d.u.HuntMAC(a.s("mac"))); err != nil {
			rec["cerr"] = err.Error()
		}
	case "release":
		d.s.Release(d.u.HuntMAC(a.s("mac")))
	case "stop":
		d.h.StopHunt(d.addr(a))
	case "close":
		d.h.Close()
		d.closed = true
		stuck := []int{}
		for i := 1; i <= c.nLoops(); i++ {
			l := c.local(i)
			c.mu.Lock()
			waiting := l.pos == "wait"
			c.mu.Unlock()
			if waiting && !c.waitFor(1500*time.Millisecond, func() bool { return l.pos != "wait" }) {
				stuck = append(stuck, i)
			}
		}
		rec["stuck"] = stuck
	case "offer":
		d.s.SetDHCPv4IPOffer(d.u.HuntMAC(a.s("mac")), d.u.HuntIP(a.s("ip")), packet.NameEntry{})
	case "tick", "wake":
		l := c.local(a.i("l"))
		if l == nil {
			return nil
		}
		c.mu.Lock()
		pos := l.pos
		c.mu.Unlock()
		if pos != "wait" || a.s("a") == "wake" {
			return nil // already woken by Close, or not sleeping: nothing to do
		}
		select {
		case l.tick <- time.Now():
		case <-time.After(stepWait):
			d.infra = fmt.Sprintf("loop %d did not take its tick", l.local)
			return nil
		}
		if !c.waitFor(stepWait, func() bool { return l.pos == "check" || l.pos == "done" }) {
			d.infra = fmt.Sprintf("loop %d did not reach its check after a tick", l.local)
			return nil
		}
		rec["a"] = "tick"
	case "check":
		l := c.local(a.i("l"))
		if l == nil {
			return nil
		}
		c.mu.Lock()
		pos := l.pos
		c.mu.Unlock()
		if pos != "check" {
			return nil
		}
		if !c.release(l) || !c.waitFor(stepWait, func() bool { return l.pos == "act" || l.pos == "done" }) {
			d.infra = fmt.Sprintf("loop %d did not complete its check", l.local)
			return nil
		}
		c.mu.Lock()
		l.closed = d.closed // the loop reads `closed` under the mutex together with its membership lookup
		rec["hunting"], rec["tgt"] = l.hunting, "nilmac"
		if l.hunting {
			rec["tgt"] = d.u.HuntMACName(l.tgt.MAC)
		}
		c.mu.Unlock()
	case "act":
		l := c.local(a.i("l"))
		if l == nil {
			return nil
		}
		c.mu.Lock()
		pos, expectDone := l.pos, !l.hunting || l.closed
		c.mu.Unlock()
		if pos != "act" {
			return nil
		}
		e0 := c.nEvents()
		if !c.release(l) {
			d.infra = fmt.Sprintf("loop %d did not leave its gate", l.local)
			return nil
		}
		// a continuing loop writes one frame and goes to sleep, an ending loop writes at most its corrective
		// frame and returns: wait for the first sign of either, then give the other a moment to show
		c.waitFor(stepWait, func() bool { return l.pos == "done" || c.framesAfter(e0) > 0 })
		wait := 500 * time.Microsecond
		if expectDone {
			wait = 200 * time.Millisecond
			if c.wroteRestore(e0, l.gor) { // a loop that has sent its corrective request returns next: wait for it
				wait = stepWait
			}
		}
		done := c.waitFor(wait, func() bool { return l.pos == "done" })
		if !done {
			c.mu.Lock()
			if l.pos == "act" {
				l.pos = "wait"
			}
			c.mu.Unlock()
		}
		rec["done"] = done
	case "recv":
		tm := vh.ZeroMAC
		if a.has("tm") {
			tm = d.u.HuntMAC(a.s("tm"))
		}
		sm := d.u.HuntMAC(a.s("sm"))
		es := sm // Ethernet source; a relay forwarding another station's request has es != sm
		if a.has("es") {
			es = d.u.HuntMAC(a.s("es"))
		} else {
			rec["es"] = a.s("sm")
		}
		ed := vh.Bcast
		if a.i("op") == 2 {
			ed, tm = vh.OwnMAC, vh.OwnMAC
		}
		b := vh.FrameARP(es, ed, uint16(a.i("op")), sm, d.u.HuntIP(a.s("si")), tm, d.u.HuntIP(a.s("ti")))
		cp := make([]byte, len(b), len(b)+d.rng.Intn(32))
		copy(cp, b)
		fr, err := d.s.Parse(cp)
		if err != nil {
			rec["perr"] = err.Error()
		} else if err := d.h.ProcessPacket(fr); err != nil {
			rec["perr"] = err.Error()
		}
	default:
		panic("unknown action " + a.s("a"))
	}
	return rec
}

// wroteRestore reports whether goroutine g has written (since event index from) an ARP frame whose sender
// hardware address is not ours, i.e. the corrective request a loop sends just before it returns.
func (c *ctl) wroteRestore(from int, g uint64) bool {
	c.mu.Lock()
	defer c.mu.Unlock()
	for _, e := range c.events[from:] {
		if e.kind == "frame" && e.gor == g && len(e.frame) >= 42 && !bytes.Equal(e.frame[22:28], vh.OwnMAC) {
			return true
		}
	}
	return false
}

func (c *ctl) framesAfter(from int) int {
	n := 0
	for _, e := range c.events[from:] {
		if e.kind == "frame" && e.epoch == c.epoch {
			n++
		}
	}
	return n
}

// advance performs the next step of loop number k (generic action "step" of the random scripts).
func (d *arpDriver) advance(k int) map[string]interface{} {
	n := d.c.nLoops()
	if n == 0 {
		return nil
	}
	l := d.c.local(1 + k%n)
	d.c.mu.Lock()
	pos := l.pos
	d.c.mu.Unlock()
	switch pos {
	case "wait":
		return d.step(action{"a": "tick", "l": l.local})
	case "check":
		return d.step(action{"a": "check", "l": l.local})
	case "act":
		return d.step(action{"a": "act", "l": l.local})
	}
	return nil
}

func arpMain(args []string) {
	fs := flag.NewFlagSet("arp", flag.ExitOnError)
	script := fs.String("script", "", "ndjson action script")
	outp := fs.String("out", "", "ndjson trace output")
	framesOut := fs.String("frames", "", "write every emitted frame (hex, one per line)")
	procs := fs.Int("procs", 0, "GOMAXPROCS for the run (1 for the send-overlap stage: sync.Pool then hands a returned buffer straight to the next sender)")
	rtN := fs.Int("realtime", -1, "run one real-time scenario variant (genuine 6 s ticker) instead of a script")
	fs.Parse(args)
	if *procs > 0 {
		runtime.GOMAXPROCS(*procs)
	}
	stdout := quiet()
	d := &arpDriver{c: newCtl(), tw: newTraceWriter(*outp, *framesOut), rng: rand.New(rand.NewSource(seed()))}
	d.install()
	if *rtN >= 0 {
		d.realtime(*rtN)
		d.tw.close()
		fmt.Fprintf(stdout, "{\"behaviours\":1,\"steps\":%d,\"panics\":%d,\"frames_sent\":%d,\"infra\":%q}\n", d.tw.n, d.panics, d.tw.nfr, d.infra)
		return
	}
	d.c.gated = true
	behaviours, skipping := 0, false
	readScript(*script, func(a action) {
		if d.infra != "" {
			return
		}
		if a.s("a") == "reset" {
			if err := d.reset(a.i("cfg")); err != nil {
				fmt.Fprintln(os.Stderr, "session:", err)
				os.Exit(2)
			}
			behaviours++
			skipping = false
			d.tw.line(map[string]interface{}{"a": "reset", "cfg": a.i("cfg"), "id": a["id"]})
			return
		}
		if skipping {
			return
		}
		var recs []map[string]interface{}
		switch a.s("a") {
		case "step":
			recs = append(recs, d.advance(a.i("k")))
		case "overlap":
			recs = d.overlap(action(a["first"].(map[string]interface{})), action(a["second"].(map[string]interface{})))
		default:
			recs = append(recs, d.step(a))
		}
		for _, rec := range recs {
			if rec == nil {
				continue
			}
			d.tw.line(rec)
			d.steps++
			if _, bad := rec["panic"]; bad {
				d.panics++
				skipping = true
			}
		}
	})
	if d.h != nil {
		d.c.abandon()
		d.h.Close()
	}
	d.tw.close()
	fmt.Fprintf(stdout, "{\"behaviours\":%d,\"steps\":%d,\"panics\":%d,\"frames_sent\":%d,\"infra\":%q}\n", behaviours, d.steps, d.panics, d.tw.nfr, d.infra)
	if d.infra != "" {
		os.Exit(4)
	}
}
