//go:build hunthooks

// huntdrv drives the real ARP and ICMPv6 spoofing handlers of irai/packet for the checks C13 / C14.
//
//	huntdrv arp -script s.ndjson -out t.ndjson [-frames f.hex]      harness-driven replay (spec/ArpHunt.tla vocabulary)
//	huntdrv arp -realtime N -out t.ndjson                           one scenario with the genuine 6 s ticker
//	huntdrv ndp -script s.ndjson -out t.ndjson [-frames f.hex]      harness-driven replay (spec/Ndp6Hunt.tla vocabulary)
//	huntdrv ndp -realtime N -out t.ndjson                           one scenario with the genuine 2.0-2.8 s timer
//	huntdrv ra  -vectors v.ndjson -out r.ndjson [-shared]           router learning from generated RA option lists
//
// The result summary is one JSON line on stdout; everything else goes to stderr.
package main

import (
	"fmt"
	"os"
	"strconv"

	"verifharness/vh"
)

func seed() int64 {
	s, _ := strconv.ParseInt(os.Getenv("VERIF_SEED"), 10, 64)
	return s
}

// quiet silences the library and returns the real stdout.
func quiet() *os.File {
	vh.Quiet()
	real := os.Stdout
	if null, err := os.OpenFile(os.DevNull, os.O_WRONLY, 0); err == nil {
		os.Stdout = null
	}
	return real
}

func main() {
	if len(os.Args) < 2 {
		fmt.Fprintln(os.Stderr, "usage: huntdrv arp|ndp|ra ...")
		os.Exit(2)
	}
	switch os.Args[1] {
	case "arp":
		arpMain(os.Args[2:])
	case "ndp":
		ndpMain(os.Args[2:])
	case "ra":
		raMain(os.Args[2:])
	default:
		fmt.Fprintln(os.Stderr, "unknown subcommand", os.Args[1])
		os.Exit(2)
	}
}
