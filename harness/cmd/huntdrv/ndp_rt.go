//go:build hunthooks

package main

import (
	"time"

	"github.com/irai/packet"
	"verifharness/vh"
)

// realtime runs one scenario with the genuine 2.0-2.8 s timer and RA wake-ups (no gates, no injected
// delay) and logs the hook events in the order of the handler mutex plus every written frame.
func (d *ndpDriver) realtime(variant int) {
	c := d.c
	c.gated = false
	if err := d.reset(variant); err != nil {
		d.infra = err.Error()
		return
	}
	t0 := time.Now()
	stopAt := map[string]time.Time{}
	d.tw.line(map[string]interface{}{"a": "reset", "cfg": variant, "id": "rt"})
	local := func(gid int) int {
		if l := c.loops[gid]; l != nil {
			return l.local
		}
		return 0
	}
	none := []vh.NAFrame{}
	c.mu.Lock()
	c.rt = func(e evt) { // under c.mu
		ms := time.Since(t0).Milliseconds()
		switch e.kind {
		case "start":
			sp := 0
			if e.b1 {
				sp = 1
			}
			delete(stopAt, string(e.addr.MAC))
			d.tw.line(map[string]interface{}{"a": "rt.start", "mac": d.u.HuntMACName(e.addr.MAC), "ip": d.u.HuntIPName(e.addr.IP), "err": false, "spawned": sp, "frames": none, "t": ms})
		case "stop":
			stopAt[string(e.addr.MAC)] = time.Now()
			d.tw.line(map[string]interface{}{"a": "rt.stop", "mac": d.u.HuntMACName(e.addr.MAC), "ip": d.u.HuntIPName(e.addr.IP), "frames": none, "t": ms})
		case "loop":
			d.tw.line(map[string]interface{}{"a": "rt.loop", "l": local(e.loop), "mac": d.u.HuntMACName(e.addr.MAC), "frames": none, "t": ms})
		case "check":
			d.tw.line(map[string]interface{}{"a": "rt.check", "l": local(e.loop), "hunting": e.b1, "closed": e.b2, "router": e.b3,
				"done": !e.b1 || e.b2, "frames": none, "t": ms})
		case "learn":
			d.tw.line(map[string]interface{}{"a": "rt.learn", "ip": d.u.HuntIPName(e.addr.IP), "mac": d.u.HuntMACName(e.addr.MAC), "frames": none, "t": ms})
		case "frame":
			if e.epoch != c.epoch {
				return
			}
			d.tw.frames([][]byte{e.frame})
			d.tw.line(map[string]interface{}{"a": "rt.frame", "l": local(e.loop), "frames": []vh.NAFrame{d.u.DecodeICMP6(e.frame)}, "t": ms})
		case "done":
			rec := map[string]interface{}{"a": "rt.done", "l": local(e.loop), "frames": none, "t": ms}
			if l := c.loops[e.loop]; l != nil {
				if at, ok := stopAt[string(l.addr.MAC)]; ok {
					rec["delay_ms"] = time.Since(at).Milliseconds()
				}
			}
			d.tw.line(rec)
		}
	}
	c.mu.Unlock()
	u := d.u
	sleepUntil := func(ms int) { time.Sleep(time.Until(t0.Add(time.Duration(ms) * time.Millisecond))) }
	// loop numbers are given in the order the loop goroutines announce themselves: wait for the loop of an effective
	// StartHunt before the next call, so that the numbering follows the call order even on a loaded machine
	startHunt := func(a packet.Addr) {
		n0, e0 := c.nLoops(), c.nEvents()
		d.h.StartHunt(a)
		if c.countSinceB1(e0, "start") > 0 {
			c.waitFor(5*time.Second, func() bool { return len(c.order) > n0 })
		}
	}
	ra := func(src, rmac string) {
		for i := 0; i < 4; i++ { // every 4th RA of the process is processed
			rec := map[string]interface{}{}
			func() {
				defer func() {
					if r := recover(); r != nil {
						d.panics++
					}
				}()
				d.deliver(d.raFrame(action{"src": src, "rmac": rmac, "kind": "ok"}), rec)
			}()
		}
	}
	a1 := packet.Addr{MAC: u.HuntMAC("m1"), IP: u.HuntIP("l1")}
	a2 := packet.Addr{MAC: u.HuntMAC("m2")} // address-less
	startHunt(a1) // no router yet: nothing may be sent
	sleepUntil(300)
	ra("r1", "rm1")
	sleepUntil(500)
	startHunt(a2)
	startHunt(a1) // idempotent
	startHunt(packet.Addr{MAC: u.HuntMAC("m3"), IP: u.HuntIP("g1")}) // ignored
	sleepUntil(3600 + 200*(variant%3))
	if variant%2 == 1 {
		ra("r2", "rm2")
	}
	d.h.StopHunt(a1)
	sleepUntil(7000)
	d.h.StopHunt(packet.Addr{MAC: u.HuntMAC("m2"), IP: u.HuntIP("g1")}) // ignored by the filter: m2 stays hunted
	sleepUntil(7200)
	ra("r1", "rm1") // wakes every loop: they all check within milliseconds ...
	sleepUntil(7600)
	// ... so that no loop is near its next check now
	c.mu.Lock()
	d.tw.line(map[string]interface{}{"a": "rt.close", "stuck": []int{}, "frames": none, "t": time.Since(t0).Milliseconds()})
	c.mu.Unlock()
	d.h.Close()
	alive := func() int {
		n := 0
		for _, l := range c.order {
			if l.pos != "done" {
				n++
			}
		}
		return n
	}
	if !c.waitFor(2*time.Second, func() bool { return alive() == 0 }) {
		c.mu.Lock()
		for _, l := range c.order {
			if l.pos != "done" {
				d.tw.line(map[string]interface{}{"a": "rt.stuck", "l": l.local, "frames": none})
			}
		}
		c.mu.Unlock()
	}
	c.mu.Lock()
	c.rt = nil
	c.mu.Unlock()
	go d.s.Close()
}
