//go:build hunthooks

package main

import (
	"flag"
	"fmt"
	"math/rand"
	"net/netip"
	"os"
	"sort"
	"time"

	"github.com/irai/packet"
	icmp "github.com/irai/packet/handlers/icmp_spoofer"
	"verifharness/vh"
)

// ndpDriver executes action scripts (spec/Ndp6Hunt.tla vocabulary) on a real icmp_spoofer.Handler6.
type ndpDriver struct {
	c      *ctl
	u      *vh.Universe
	s      *packet.Session
	h      *icmp.Handler6
	tw     *traceWriter
	rng    *rand.Rand
	mark   int
	panics int
	steps  int
	infra  string
	known  []string // loop positions as of the last logged line
	stress int32    // > 0 while overlapping API calls are in flight
}

func copyAddr(a packet.Addr) packet.Addr { return packet.Addr{MAC: packet.CopyMAC(a.MAC), IP: a.IP} }

func (d *ndpDriver) install() {
	c := d.c
	icmp.VerifEmit = func(ev string, kv ...interface{}) {
		switch ev {
		case "ndp.loop":
			c.loopStart(kv[0].(int), kv[1].(packet.Addr))
		case "ndp.done":
			c.loopDone(kv[0].(int))
		case "ndp.check": // under the handler mutex
			c.mu.Lock()
			if l := c.loops[kv[0].(int)]; l != nil {
				l.hunting, l.closed, l.router = kv[2].(bool), kv[3].(bool), kv[4].(bool)
			}
			c.add(evt{kind: "check", loop: kv[0].(int), addr: copyAddr(kv[1].(packet.Addr)), b1: kv[2].(bool), b2: kv[3].(bool), b3: kv[4].(bool)})
			c.mu.Unlock()
		case "ndp.start":
			stall(&d.stress)
			c.mu.Lock()
			c.add(evt{kind: "start", addr: copyAddr(kv[0].(packet.Addr)), b1: kv[1].(bool)})
			c.mu.Unlock()
		case "ndp.stop":
			c.mu.Lock()
			c.add(evt{kind: "stop", addr: copyAddr(kv[0].(packet.Addr)), b1: kv[1].(bool)})
			c.mu.Unlock()
		case "ndp.wake":
			c.mu.Lock()
			c.add(evt{kind: "wake"})
			c.mu.Unlock()
		case "ndp.learn":
			c.mu.Lock()
			c.add(evt{kind: "learn", addr: copyAddr(kv[0].(packet.Addr))})
			c.mu.Unlock()
		}
	}
	icmp.VerifGate = c.gate
	icmp.VerifWake = func(loop int) <-chan time.Time {
		// evaluated when the loop enters its select, after it has read the wake channel
		c.mu.Lock()
		defer c.mu.Unlock()
		l := c.loops[loop]
		if l == nil || l.free || !c.gated {
			return nil
		}
		l.pos = "sleep"
		l.sleeps++
		c.cond.Broadcast()
		return l.tick
	}
}

func (d *ndpDriver) reset(cfg int) error {
	if d.h != nil {
		func() {
			defer func() { recover() }()
			d.h.Close()
		}()
		d.c.abandon()
		old := d.s
		go old.Close()
	}
	d.u = &vh.Universe{Cfg: vh.Configs[cfg%len(vh.Configs)]}
	s, _, err := vh.NewSession(d.u, 1, 2, 4)
	if err != nil {
		return err
	}
	s.Conn = &seqConn{c: d.c, epoch: d.c.epoch}
	h, err := icmp.New6(s)
	if err != nil {
		return err
	}
	d.s, d.h, d.known = s, h, nil
	s.Parse(vh.FrameIP4UDP(vh.RouterMAC, vh.OwnMAC, d.u.Cfg.RouterIP, d.u.Cfg.HostIP, 1000, 2000, []byte("x")))
	d.mark = d.c.nEvents()
	return nil
}

func (d *ndpDriver) huntList() []huntEntry {
	out := []huntEntry{}
	for _, a := range d.h.VerifHuntList() {
		out = append(out, huntEntry{d.u.HuntMACName(a.MAC), d.u.HuntIPName(a.IP)})
	}
	return out
}

func (d *ndpDriver) routers() []huntEntry {
	out := []huntEntry{}
	d.h.Lock()
	for ip, r := range d.h.LANRouters {
		e := huntEntry{Mac: d.u.HuntMACName(r.Addr.MAC), IP: d.u.HuntIPName(ip)}
		if r.Addr.IP != ip {
			e.IP = "ip:key-differs-" + e.IP
		}
		out = append(out, e)
	}
	d.h.Unlock()
	sort.Slice(out, func(i, j int) bool { return out[i].IP < out[j].IP })
	return out
}

func (d *ndpDriver) observe(rec map[string]interface{}) {
	raw := d.c.framesSince(d.mark)
	d.mark = d.c.nEvents()
	d.tw.frames(raw)
	fs := []vh.NAFrame{}
	for _, b := range raw {
		fs = append(fs, d.u.DecodeICMP6(b))
	}
	rec["frames"] = fs
	rec["hunt"] = d.huntList()
	rec["routers"] = d.routers()
	d.known = d.c.pcs()
	rec["pcs"] = d.known
}

// spontaneous logs the loops whose genuine 2.0-2.8 s timer fired since the last logged line (possible when the
// machine stalls the driver for seconds): the timer expiry is a step of its own in the specification.
func (d *ndpDriver) spontaneous() {
	now := d.c.pcs()
	for i := range d.known {
		if i < len(now) && d.known[i] == "sleep" && now[i] == "check" {
			d.tw.line(map[string]interface{}{"a": "timeout", "l": i + 1, "spontaneous": true, "frames": []vh.NAFrame{},
				"hunt": d.huntList(), "routers": d.routers()})
			d.known[i] = "check"
		}
	}
}

func (d *ndpDriver) addr(a action) packet.Addr {
	return packet.Addr{MAC: d.u.HuntMAC(a.s("mac")), IP: d.u.HuntIP(a.s("ip"))}
}

// waitSleepers waits for every loop observed asleep to reach its next check; returns those that did not.
// Loops between their check and their select hold the channel that was just closed (it is read under the
// mutex at the check): they will find it closed as soon as they reach the select.
func (d *ndpDriver) waitSleepers() []int {
	c := d.c
	stuck := []int{}
	c.mu.Lock()
	for _, l := range c.order {
		if l.pos == "act" {
			l.wakeDue = true
		}
	}
	c.mu.Unlock()
	for i := 1; i <= c.nLoops(); i++ {
		l := c.local(i)
		c.mu.Lock()
		sleeping := l.pos == "sleep"
		c.mu.Unlock()
		if sleeping && !c.waitFor(1500*time.Millisecond, func() bool { return l.pos != "sleep" }) {
			stuck = append(stuck, i)
		}
	}
	return stuck
}

func (d *ndpDriver) raFrame(a action) []byte {
	u := d.u
	rmac := u.HuntMAC(a.s("rmac"))
	src := u.HuntIP(a.s("src"))
	hdr := vh.RAHeader{HopLimit: 64, Lifetime: 1800, Prf: 0}
	pfx := netip.MustParseAddr("2001:db8:1::")
	switch a.s("kind") {
	case "badopts": // a prefix information option of 24 bytes: the parser rejects the advertisement
		return vh.FrameRA(rmac, src, hdr, append(vh.OptLLA(1, rmac, 1), vh.OptPrefix(64, true, true, 7200, 1800, pfx, 3)...))
	case "nohost": // a global source address behind the IPv4 router's MAC: Session.Parse creates no host
		return vh.FrameRA(vh.RouterMAC, u.IP("g1"), hdr, vh.OptLLA(1, vh.RouterMAC, 1))
	}
	opts := append(vh.OptLLA(1, rmac, 1), vh.OptPrefix(64, true, true, 7200, 1800, pfx, 4)...)
	opts = append(opts, vh.OptMTU(1500, 1)...)
	return vh.FrameRA(rmac, src, hdr, opts)
}

func (d *ndpDriver) otherFrame(kind string) []byte {
	u := d.u
	m := u.HuntMAC("m5")
	lla := u.HuntIP("l4")
	switch kind {
	case "ns-lla":
		return vh.FrameNS(m, lla, u.HuntIP("l1"))
	case "ns-gua":
		return vh.FrameNS(m, lla, u.HuntIP("g2"))
	case "na":
		return vh.FrameNA(m, lla, true)
	case "rs":
		return vh.FrameRS(m, lla)
	default:
		return vh.FrameEcho6(m, lla)
	}
}

func (d *ndpDriver) deliver(b []byte, rec map[string]interface{}) {
	cp := make([]byte, len(b), len(b)+d.rng.Intn(32))
	copy(cp, b)
	fr, err := d.s.Parse(cp)
	if err != nil {
		rec["perr"] = err.Error()
		rec["err"] = true
		return
	}
	if err := d.h.ProcessPacket(fr); err != nil {
		rec["err"] = true
		rec["errtext"] = err.Error()
	}
}

func (d *ndpDriver) step(a action) (rec map[string]interface{}) {
	rec = map[string]interface{}{}
	for k, v := range a {
		rec[k] = v
	}
	c := d.c
	defer func() {
		if r := recover(); r != nil {
			rec["panic"] = fmt.Sprint(r)
			d.observe(rec)
		}
	}()
	switch a.s("a") {
	case "start":
		n0, e0 := c.nLoops(), c.nEvents()
		_, err := d.h.StartHunt(d.addr(a))
		isNew := false
		c.mu.Lock()
		for _, e := range c.events[e0:] {
			if e.kind == "start" && e.b1 {
				isNew = true
			}
		}
		c.mu.Unlock()
		rec["err"] = err != nil
		if isNew {
			c.waitFor(stepWait, func() bool { return len(c.order) > n0 && c.order[len(c.order)-1].pos == "check" })
		} else {
			time.Sleep(300 * time.Microsecond)
		}
		c.waitFor(stepWait, func() bool {
			for _, l := range c.order[n0:] {
				if l.pos == "new" {
					return false
				}
			}
			return true
		})
		rec["spawned"] = c.nLoops() - n0
	case "cstart": // n overlapping StartHunt calls for one address, released together
		n0 := c.nLoops()
		n := a.i("n")
		if n < 2 {
			n = 2
		}
		addr := d.addr(a)
		rec["errs"] = concurrently(n, &d.stress, func() bool { _, err := d.h.StartHunt(addr); return err != nil })
		rec["n"] = n
		time.Sleep(time.Millisecond) // every goroutine the calls spawned has announced itself by now
		c.waitFor(stepWait, func() bool {
			for _, l := range c.order[n0:] {
				if l.pos == "new" {
					return false
				}
			}
			return true
		})
		rec["spawned"] = c.nLoops() - n0
	case "capture": // Session.Capture / Release: a per-MAC flag of the application, independent of the hunt list
		if err := d.s.Capture(d.u.HuntMAC(a.s("mac"))); err != nil {
			rec["cerr"] = err.Error()
		}
	case "release":
		d.s.Release(d.u.HuntMAC(a.s("mac")))
	case "stop":
		d.h.StopHunt(d.addr(a))
	case "close":
		d.h.Close()
		rec["stuck"] = d.waitSleepers()
	case "timeout", "wake":
		l := c.local(a.i("l"))
		if l == nil {
			return nil
		}
		c.mu.Lock()
		pos := l.pos
		c.mu.Unlock()
		if pos != "sleep" || a.s("a") == "wake" {
			return nil
		}
		select {
		case l.tick <- time.Now():
		case <-time.After(stepWait):
			// the genuine timer may have fired first: then the loop is already at its check
		}
		if !c.waitFor(stepWait, func() bool { return l.pos == "check" || l.pos == "done" }) {
			d.infra = fmt.Sprintf("loop %d did not reach its check after its sleep", l.local)
			return nil
		}
		rec["a"] = "timeout"
	case "check":
		l := c.local(a.i("l"))
		if l == nil {
			return nil
		}
		c.mu.Lock()
		pos := l.pos
		c.mu.Unlock()
		if pos != "check" {
			return nil
		}
		c.mu.Lock()
		a0, s0 := l.arrived, l.sleeps
		l.wakeDue = false
		c.mu.Unlock()
		// after the check the loop ends, parks at its next gate or enters its select: wait for whichever shows first
		if !c.release(l) || !c.waitFor(stepWait, func() bool { return l.pos == "done" || l.arrived > a0 || l.sleeps > s0 }) {
			d.infra = fmt.Sprintf("loop %d did not perform its check", l.local)
			return nil
		}
		c.mu.Lock()
		hunting, closed, router := l.hunting, l.closed, l.router
		c.mu.Unlock()
		c.mu.Lock()
		rec["hunting"], rec["closed"], rec["router"], rec["done"] = hunting, closed, router, l.pos == "done"
		c.mu.Unlock()
	case "act":
		l := c.local(a.i("l"))
		if l == nil {
			return nil
		}
		c.mu.Lock()
		pos := l.pos
		c.mu.Unlock()
		if pos != "act" {
			return nil
		}
		if !c.release(l) || !c.waitFor(stepWait, func() bool { return l.pos != "act" }) {
			d.infra = fmt.Sprintf("loop %d did not finish its send round", l.local)
			return nil
		}
		c.mu.Lock()
		due := l.wakeDue
		l.wakeDue = false
		c.mu.Unlock()
		if due { // its wake channel is already closed: the select returns at once
			c.waitFor(stepWait, func() bool { return l.pos == "check" || l.pos == "done" })
		}
	case "ra":
		rec["err"] = false
		e0 := c.nEvents()
		d.deliver(d.raFrame(a), rec)
		if c.countSince(e0, "wake") > 0 {
			d.waitSleepers()
		}
	case "pause": // self-test of the driver: let the genuine timers run
		time.Sleep(time.Duration(a.i("ms")) * time.Millisecond)
		return nil
	case "other":
		rec["err"] = false
		d.deliver(d.otherFrame(a.s("kind")), rec)
	default:
		panic("unknown action " + a.s("a"))
	}
	d.observe(rec)
	return rec
}

func (d *ndpDriver) advance(k int) map[string]interface{} {
	n := d.c.nLoops()
	if n == 0 {
		return nil
	}
	l := d.c.local(1 + k%n)
	d.c.mu.Lock()
	pos := l.pos
	d.c.mu.Unlock()
	switch pos {
	case "sleep":
		return d.step(action{"a": "timeout", "l": l.local})
	case "check":
		return d.step(action{"a": "check", "l": l.local})
	case "act":
		return d.step(action{"a": "act", "l": l.local})
	}
	return nil
}

func ndpMain(args []string) {
	fs := flag.NewFlagSet("ndp", flag.ExitOnError)
	script := fs.String("script", "", "ndjson action script")
	outp := fs.String("out", "", "ndjson trace output")
	framesOut := fs.String("frames", "", "write every emitted frame (hex, one per line)")
	rtN := fs.Int("realtime", -1, "run one real-time scenario (genuine 2.0-2.8 s timer) instead of a script")
	fs.Parse(args)
	stdout := quiet()
	d := &ndpDriver{c: newCtl(), tw: newTraceWriter(*outp, *framesOut), rng: rand.New(rand.NewSource(seed()))}
	d.install()
	if *rtN >= 0 {
		d.realtime(*rtN)
		d.tw.close()
		fmt.Fprintf(stdout, "{\"behaviours\":1,\"steps\":%d,\"panics\":%d,\"frames_sent\":%d,\"infra\":%q}\n", d.tw.n, d.panics, d.tw.nfr, d.infra)
		return
	}
	d.c.gated = true
	behaviours, skipping := 0, false
	readScript(*script, func(a action) {
		if d.infra != "" {
			return
		}
		if a.s("a") == "reset" {
			if err := d.reset(a.i("cfg")); err != nil {
				fmt.Fprintln(os.Stderr, "session:", err)
				os.Exit(2)
			}
			behaviours++
			skipping = false
			d.tw.line(map[string]interface{}{"a": "reset", "cfg": a.i("cfg"), "id": a["id"]})
			return
		}
		if skipping {
			return
		}
		d.spontaneous()
		var rec map[string]interface{}
		if a.s("a") == "step" {
			rec = d.advance(a.i("k"))
		} else {
			rec = d.step(a)
		}
		if rec == nil {
			return
		}
		d.tw.line(rec)
		d.steps++
		if _, bad := rec["panic"]; bad {
			d.panics++
			skipping = true
		}
	})
	if d.h != nil {
		d.c.abandon()
		func() {
			defer func() { recover() }()
			d.h.Close()
		}()
	}
	d.tw.close()
	fmt.Fprintf(stdout, "{\"behaviours\":%d,\"steps\":%d,\"panics\":%d,\"frames_sent\":%d,\"infra\":%q}\n", behaviours, d.steps, d.panics, d.tw.nfr, d.infra)
	if d.infra != "" {
		os.Exit(4)
	}
}
