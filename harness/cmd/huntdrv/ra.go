//go:build hunthooks

package main

import (
	"bufio"
	"encoding/json"
	"flag"
	"fmt"
	"math/rand"
	"net"
	"net/netip"
	"os"
	"sort"
	"strconv"
	"time"

	"github.com/irai/packet"
	icmp "github.com/irai/packet/handlers/icmp_spoofer"
	"verifharness/vh"
)

// raDriver feeds router advertisements built from the abstract vectors of spec/Ndp6RaVec.tla to a real
// Handler6 (four times each: only every 4th RA of the process is processed) and reports what
// FindRouter / LANRouters say afterwards.
type raDriver struct {
	u      *vh.Universe
	s      *packet.Session
	h      *icmp.Handler6
	rng    *rand.Rand
	shared bool
	keep   bool // shared mode without scribbling: the next frame simply overwrites the previous one (a real receive loop)
	rx     []byte
	used   int
}

type item map[string]interface{}

func (it item) s(k string) string { v, _ := it[k].(string); return v }
func (it item) n(k string) uint32 {
	if v, ok := it[k].(float64); ok {
		return uint32(v)
	}
	return 0
}
func (it item) b(k string) bool { v, _ := it[k].(bool); return v }
func (it item) list(k string) []string {
	out := []string{}
	if l, ok := it[k].([]interface{}); ok {
		for _, x := range l {
			out = append(out, x.(string))
		}
	}
	return out
}

// encodeOpts turns abstract option items into bytes with the harness's own encoders.
func encodeOpts(items []interface{}, rng *rand.Rand) []byte {
	var out []byte
	for _, x := range items {
		it := item(x.(map[string]interface{}))
		units := int(it.n("units"))
		switch it.s("kind") {
		case "prefix":
			out = append(out, vh.OptPrefix(uint8(it.n("plen")), it.b("onlink"), it.b("auto"), it.n("valid"), it.n("pref"), netip.MustParseAddr(it.s("prefix")), units)...)
		case "mtu":
			out = append(out, vh.OptMTU(it.n("mtu"), units)...)
		case "rdnss":
			var srv []netip.Addr
			for _, s := range it.list("servers") {
				srv = append(srv, netip.MustParseAddr(s))
			}
			out = append(out, vh.OptRDNSS(it.n("life"), srv, units)...)
		case "dnssl":
			out = append(out, vh.OptDNSSL(it.n("life"), it.list("domains"), units)...)
		case "route":
			out = append(out, vh.OptRoute(uint8(it.n("plen")), uint8(it.n("prf")), it.n("life"), netip.MustParseAddr(it.s("prefix")), units)...)
		case "slla":
			mac, _ := net.ParseMAC(it.s("mac"))
			out = append(out, vh.OptLLA(1, mac, units)...)
		case "unknown":
			body := make([]byte, 8*units)
			for i := range body {
				body[i] = byte(rng.Intn(256))
			}
			out = append(out, vh.NDPOpt(uint8(it.n("type")), units, body)...)
		default:
			panic("unknown option kind " + it.s("kind"))
		}
	}
	return out
}

func header(h map[string]interface{}) vh.RAHeader {
	it := item(h)
	return vh.RAHeader{HopLimit: uint8(it.n("hop")), Managed: it.b("managed"), Other: it.b("other"), Prf: uint8(it.n("prf")),
		Lifetime: uint16(it.n("life")), Reachable: it.n("reach"), Retrans: it.n("retrans")}
}

func (d *raDriver) fresh() error {
	if d.s != nil {
		old := d.s
		go old.Close()
	}
	d.u = &vh.Universe{Cfg: vh.Configs[0]}
	s, _, err := vh.NewSession(d.u, 1, 2, 4)
	if err != nil {
		return err
	}
	h, err := icmp.New6(s)
	if err != nil {
		return err
	}
	d.s, d.h, d.used = s, h, 0
	return nil
}

// feed delivers the frame four times; returns the error texts and a panic text.
func (d *raDriver) feed(b []byte) (errs []string, pan string) {
	defer func() {
		if r := recover(); r != nil {
			pan = fmt.Sprint(r)
		}
	}()
	for i := 0; i < 4; i++ {
		var fr packet.Frame
		var err error
		if d.shared {
			n := copy(d.rx[:cap(d.rx)], b)
			fr, err = d.s.Parse(d.rx[:n])
		} else {
			cp := make([]byte, len(b), len(b)+d.rng.Intn(48))
			copy(cp, b)
			fr, err = d.s.Parse(cp)
		}
		if err == nil {
			err = d.h.ProcessPacket(fr)
		}
		if err != nil {
			errs = append(errs, err.Error())
		}
	}
	if d.shared && !d.keep { // the receive buffer is reused by the next packet
		p := byte(d.rng.Intn(256))
		full := d.rx[:cap(d.rx)]
		for i := range full {
			full[i] = p ^ byte(i*13)
		}
	}
	return errs, pan
}

func secs(x time.Duration) int64 { return int64(x / time.Second) }

type pfxRec struct {
	Plen   int    `json:"plen"`
	Onlink bool   `json:"onlink"`
	Auto   bool   `json:"auto"`
	Valid  int64  `json:"valid"`
	Pref   int64  `json:"pref"`
	Prefix string `json:"prefix"`
}

func pfxs(l []packet.PrefixInformation) []pfxRec {
	out := []pfxRec{}
	for _, p := range l {
		s := "nil"
		if a, ok := netip.AddrFromSlice(p.Prefix); ok {
			s = a.String()
		}
		out = append(out, pfxRec{int(p.PrefixLength), p.OnLink, p.AutonomousAddressConfiguration, secs(p.ValidLifetime), secs(p.PreferredLifetime), s})
	}
	return out
}

func ips(l []net.IP) []string {
	out := []string{}
	for _, x := range l {
		if a, ok := netip.AddrFromSlice(x); ok {
			out = append(out, a.String())
		} else {
			out = append(out, "bad")
		}
	}
	return out
}

// project reads the router record through the exported accessor.
func (d *raDriver) project(ip netip.Addr) (bool, map[string]interface{}) {
	r := d.h.FindRouter(ip)
	if !r.Addr.IP.IsValid() {
		return false, nil
	}
	rec := map[string]interface{}{
		"managed": r.ManagedFlag, "other": r.OtherCondigFlag, "prf": int(r.Preference), "hop": int(r.CurHopLimit),
		"life": secs(r.DefaultLifetime), "reach": r.ReacheableTime, "retrans": r.RetransTimer,
		"prefixes": pfxs(r.Prefixes), "oprefixes": pfxs(r.Options.Prefixes), "mtu": int64(r.Options.MTU),
		"rdnss": map[string]interface{}{"life": secs(r.Options.RDNSS.Lifetime), "servers": ips(r.Options.RDNSS.Servers)},
		"dnssl": map[string]interface{}{"life": secs(r.Options.DNSSearchList.Lifetime), "domains": append([]string{}, r.Options.DNSSearchList.DomainNames...)},
		"slla":  macText(r.Options.SourceLLA.MAC), "addrmac": macText(r.Addr.MAC), "addrip": r.Addr.IP.String(),
	}
	return true, rec
}

func macText(m net.HardwareAddr) string {
	if len(m) == 0 {
		return ""
	}
	return m.String()
}

func (d *raDriver) lan() []string {
	out := []string{}
	d.h.Lock()
	for ip := range d.h.LANRouters {
		out = append(out, ip.String())
	}
	d.h.Unlock()
	sort.Strings(out)
	return out
}

func raMain(args []string) {
	fs := flag.NewFlagSet("ra", flag.ExitOnError)
	vectors := fs.String("vectors", "", "ndjson vectors printed by TLC (spec/Ndp6RaVec.tla)")
	outp := fs.String("out", "", "ndjson results")
	shared := fs.Bool("shared", false, "deliver every frame in one shared receive buffer that is scribbled over after each step")
	overwrite := fs.Bool("overwrite", false, "with -shared: do not scribble, the next frame simply overwrites the previous one")
	framesOut := fs.String("frames", "", "write the generated RA frames (hex, one per line)")
	fs.Parse(args)
	stdout := quiet()
	d := &raDriver{rng: rand.New(rand.NewSource(seed())), shared: *shared, keep: *overwrite, rx: make([]byte, 0, 2048)}
	of, err := os.Create(*outp)
	if err != nil {
		fmt.Fprintln(os.Stderr, err)
		os.Exit(2)
	}
	w := bufio.NewWriterSize(of, 1<<20)
	var fw *bufio.Writer
	if *framesOut != "" {
		ff, err := os.Create(*framesOut)
		if err != nil {
			fmt.Fprintln(os.Stderr, err)
			os.Exit(2)
		}
		defer ff.Close()
		fw = bufio.NewWriterSize(ff, 1<<20)
		defer fw.Flush()
	}
	n, panics := 0, 0
	learnedRecs := map[string]string{} // routers learned by the current handler -> their record when last seen
	readScript(*vectors, func(a action) {
		if many := a.i("many"); many > 0 {
			// n distinct routers advertise the same content to a fresh handler; report every record afterwards
			if err := d.fresh(); err != nil {
				fmt.Fprintln(os.Stderr, "session:", err)
				os.Exit(2)
			}
			d.used = 1000
			learnedRecs = map[string]string{}
			res := map[string]interface{}{"i": n, "many": many}
			var pan string
			for k := 1; k <= many && pan == ""; k++ {
				smac := d.u.HuntMAC("rm" + strconv.Itoa(k))
				b := vh.FrameRA(smac, d.u.HuntIP("r"+strconv.Itoa(k)), header(a["h"].(map[string]interface{})), encodeOpts(a["opts"].([]interface{}), d.rng))
				if fw != nil {
					fmt.Fprintf(fw, "%x\n", b)
				}
				_, pan = d.feed(b)
			}
			if pan != "" {
				res["panic"] = pan
				panics++
			}
			recs := []interface{}{}
			for k := 1; k <= many; k++ {
				ok, rec := d.project(d.u.HuntIP("r" + strconv.Itoa(k)))
				recs = append(recs, map[string]interface{}{"learned": ok, "rec": rec, "ethsrc": d.u.HuntMAC("rm" + strconv.Itoa(k)).String()})
			}
			res["recs"], res["lan"] = recs, len(d.lan())
			if def, ok := d.h.VerifDefaultRouter(); ok {
				res["default"] = map[string]string{"ip": def.IP.String(), "mac": def.MAC.String()}
			}
			b, _ := json.Marshal(res)
			w.Write(b)
			w.WriteByte('\n')
			n++
			return
		}
		if d.s == nil || d.used >= 100 {
			if err := d.fresh(); err != nil {
				fmt.Fprintln(os.Stderr, "session:", err)
				os.Exit(2)
			}
			learnedRecs = map[string]string{}
		}
		d.used++
		k := d.used
		src := d.u.HuntIP("r" + strconv.Itoa(k))
		smac := d.u.HuntMAC("rm" + strconv.Itoa(k))
		res := map[string]interface{}{"i": n, "ethsrc": smac.String()}
		build := func(h map[string]interface{}, opts []interface{}) []byte {
			b := vh.FrameRA(smac, src, header(h), encodeOpts(opts, d.rng))
			if fw != nil {
				fmt.Fprintf(fw, "%x\n", b)
			}
			return b
		}
		if first, ok := a["first"].(map[string]interface{}); ok && first["h"] != nil {
			fb := build(first["h"].(map[string]interface{}), first["opts"].([]interface{}))
			if perm, _ := a["perm"].(bool); perm {
				// by construction the second advertisement has the same length and the same ICMPv6 checksum
				sb := vh.FrameRA(smac, src, header(a["h"].(map[string]interface{})), encodeOpts(a["opts"].([]interface{}), d.rng))
				res["perm_ok"] = len(fb) == len(sb) && fb[56] == sb[56] && fb[57] == sb[57] && string(fb) != string(sb)
			}
			errs, pan := d.feed(fb)
			res["first_errs"] = errs
			if pan != "" {
				res["panic"] = pan
			}
			ok, rec := d.project(src)
			res["first_learned"], res["first_rec"] = ok, rec
		}
		if mc, _ := a["macChange"].(bool); mc { // the router's Ethernet source changes between the two advertisements
			smac = d.u.HuntMAC("rm" + strconv.Itoa(k+100))
			res["ethsrc2"] = smac.String()
		}
		errs, pan := d.feed(build(a["h"].(map[string]interface{}), a["opts"].([]interface{})))
		res["errs"] = errs
		if pan != "" {
			res["panic"] = pan
			panics++
			d.used = 1000 // a fresh handler after a panic
		}
		learned, rec := d.project(src)
		res["learned"], res["rec"] = learned, rec
		res["lan"] = len(d.lan())
		// every router this handler learned earlier must still be in the table with the record it had
		lost := 0
		for ip, was := range learnedRecs {
			if ip == src.String() {
				continue
			}
			ok, r := d.project(netip.MustParseAddr(ip))
			now, _ := json.Marshal(r)
			if !ok || string(now) != was {
				lost++
			}
		}
		res["lost"] = lost
		if learned {
			now, _ := json.Marshal(rec)
			learnedRecs[src.String()] = string(now)
		}
		res["lan_expected"] = len(learnedRecs)
		res["lan_has"] = func() bool {
			for _, x := range d.lan() {
				if x == src.String() {
					return true
				}
			}
			return false
		}()
		b, _ := json.Marshal(res)
		w.Write(b)
		w.WriteByte('\n')
		n++
	})
	w.Flush()
	of.Close()
	fmt.Fprintf(stdout, "{\"vectors\":%d,\"panics\":%d}\n", n, panics)
}
