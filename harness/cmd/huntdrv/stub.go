//go:build !hunthooks

// huntdrv needs the verification hooks of hooks/arp_spoofer_verif.patch and
// hooks/icmp_spoofer_verif.patch in the repository under test. Without the build tag
// `hunthooks` (set by checks/hunt_common.py once it has found the hooks) only this stub is built,
// so that `go build ./...` of the harness module works on a tree without the hooks.
package main

import (
	"fmt"
	"os"
)

func main() {
	fmt.Fprintln(os.Stderr, "huntdrv: built without -tags hunthooks (verification hooks of arp_spoofer / icmp_spoofer missing)")
	os.Exit(3)
}
