//go:build hunthooks

package main

import (
	"time"

	"github.com/irai/packet"
	"verifharness/vh"
)

// realtime runs one scenario with the genuine 6 s ticker (no gates, no injected ticker) and logs
// the hook events in the order of the handler mutex plus every written frame (rt.* vocabulary).
func (d *arpDriver) realtime(variant int) {
	c := d.c
	c.gated = false
	if err := d.reset(variant); err != nil {
		d.infra = err.Error()
		return
	}
	t0 := time.Now()
	stopAt := map[string]time.Time{}
	d.tw.line(map[string]interface{}{"a": "reset", "cfg": variant, "id": "rt"})
	local := func(gid int) int {
		if l := c.loops[gid]; l != nil {
			return l.local
		}
		return 0
	}
	c.mu.Lock()
	c.rt = func(e evt) { // under c.mu
		ms := time.Since(t0).Milliseconds()
		none := []vh.ArpFrame{}
		switch e.kind {
		case "start":
			sp := 0
			if e.b1 {
				sp = 1
			}
			delete(stopAt, string(e.addr.MAC))
			d.tw.line(map[string]interface{}{"a": "rt.start", "mac": d.u.HuntMACName(e.addr.MAC), "ip": d.u.HuntIPName(e.addr.IP), "err": false, "spawned": sp, "frames": none, "t": ms})
		case "stop":
			stopAt[string(e.addr.MAC)] = time.Now()
			d.tw.line(map[string]interface{}{"a": "rt.stop", "mac": d.u.HuntMACName(e.addr.MAC), "frames": none, "t": ms})
		case "loop":
			d.tw.line(map[string]interface{}{"a": "rt.loop", "l": local(e.loop), "mac": d.u.HuntMACName(e.addr.MAC), "frames": none, "t": ms})
		case "check":
			tgt := "nilmac"
			if e.b1 {
				tgt = d.u.HuntMACName(e.tgt.MAC)
			}
			d.tw.line(map[string]interface{}{"a": "rt.check", "l": local(e.loop), "hunting": e.b1, "tgt": tgt, "frames": none, "t": ms})
		case "frame":
			d.tw.frames([][]byte{e.frame})
			d.tw.line(map[string]interface{}{"a": "rt.frame", "l": local(e.loop), "frames": []vh.ArpFrame{d.u.DecodeARP(e.frame)}, "t": ms})
		case "done":
			rec := map[string]interface{}{"a": "rt.done", "l": local(e.loop), "frames": none, "t": ms}
			if l := c.loops[e.loop]; l != nil {
				if at, ok := stopAt[string(l.addr.MAC)]; ok {
					rec["delay_ms"] = time.Since(at).Milliseconds()
				}
			}
			d.tw.line(rec)
		}
	}
	c.mu.Unlock()
	u := d.u
	a1 := packet.Addr{MAC: u.HuntMAC("m1"), IP: u.HuntIP("a1")}
	second := "a2"
	if variant%2 == 1 {
		second = "a1" // two MACs sharing an address (DESIGN #23)
	}
	a2 := packet.Addr{MAC: u.HuntMAC("m2"), IP: u.HuntIP(second)}
	sleepUntil := func(ms int) { time.Sleep(time.Until(t0.Add(time.Duration(ms) * time.Millisecond))) }
	// loop numbers are given in the order the loop goroutines announce themselves: wait for the loop of an effective
	// StartHunt before the next call, so that the numbering follows the call order even on a loaded machine
	startHunt := func(a packet.Addr) {
		n0, e0 := c.nLoops(), c.nEvents()
		d.h.StartHunt(a)
		if c.countSinceB1(e0, "start") > 0 {
			c.waitFor(5*time.Second, func() bool { return len(c.order) > n0 })
		}
	}
	if variant >= 100 {
		// "stop all": 2-4 hosts hunted at distinct addresses, all stopped after one second; every loop must end
		// (and restore its target) within one genuine 6 s cycle of its own -- rt.done carries the delay
		n := 2 + variant%3
		addrs := []packet.Addr{}
		for k := 1; k <= n; k++ {
			addrs = append(addrs, packet.Addr{MAC: u.HuntMAC("m" + string(rune('0'+k))), IP: u.HuntIP("a" + string(rune('0'+k)))})
		}
		for k, a := range addrs {
			startHunt(a)
			sleepUntil(60 * (k + 1))
		}
		sleepUntil(1000)
		for _, a := range addrs {
			d.h.StopHunt(a)
		}
		sleepUntil(9800) // the cycles that started at 0..240 ms end at 6.0-6.3 s; 3.5 s of slack
	} else {
	startHunt(a1)
	sleepUntil(100)
	startHunt(a2)
	sleepUntil(150)
	startHunt(a1) // idempotent
	sleepUntil(6500 + 300*(variant%3))
	d.h.StopHunt(a1)
	sleepUntil(13000)
	d.h.StopHunt(packet.Addr{MAC: u.HuntMAC("m3"), IP: u.HuntIP("a3")}) // not hunted
	sleepUntil(14000)
	startHunt(a1)
	sleepUntil(16000) // 4 s and 2 s after the last ticks of the two generations: no loop is between check and act
	}
	c.mu.Lock()
	d.tw.line(map[string]interface{}{"a": "rt.close", "stuck": []int{}, "frames": []vh.ArpFrame{}, "t": time.Since(t0).Milliseconds()})
	c.mu.Unlock()
	d.h.Close()
	alive := func() int {
		n := 0
		for _, l := range c.order {
			if l.pos != "done" {
				n++
			}
		}
		return n
	}
	if !c.waitFor(2*time.Second, func() bool { return alive() == 0 }) {
		c.mu.Lock()
		for _, l := range c.order {
			if l.pos != "done" {
				d.tw.line(map[string]interface{}{"a": "rt.stuck", "l": l.local, "frames": []vh.ArpFrame{}})
			}
		}
		c.mu.Unlock()
	}
	c.mu.Lock()
	c.rt = nil
	c.mu.Unlock()
	go d.s.Close()
}
