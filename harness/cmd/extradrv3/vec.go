package main

import "fmt"

func cmdVec(args []string) (map[string]interface{}, error) { return nil, fmt.Errorf("not yet") }
