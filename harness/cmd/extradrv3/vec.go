package main

// X09: vectors enumerated by TLC from spec/SmallVec.tla executed on the real helper functions.

import (
	"encoding/json"
	"flag"
	"fmt"
	"net"
	"net/netip"
	"time"

	"github.com/irai/packet"
	"github.com/irai/packet/fastlog"
)

type write struct {
	Off int   `json:"off"`
	B   []int `json:"b"`
}

type hdrGet struct {
	Op     int   `json:"op"`
	HType  int   `json:"htype"`
	HLen   int   `json:"hlen"`
	Hops   int   `json:"hops"`
	XID    []int `json:"xid"`
	Secs   []int `json:"secs"`
	Flags  []int `json:"flags"`
	Bcast  bool  `json:"bcast"`
	CIAddr []int `json:"ciaddr"`
	YIAddr []int `json:"yiaddr"`
	SIAddr []int `json:"siaddr"`
	GIAddr []int `json:"giaddr"`
	CHAddr []int `json:"chaddr"`
	SName  []int `json:"sname"`
	File   []int `json:"file"`
	Cookie []int `json:"cookie"`
}

type logOp struct {
	O string `json:"o"`
	V int    `json:"v"`
	W string `json:"w"`
}

type logObs struct {
	Level int  `json:"level"`
	Info  bool `json:"info"`
	Debug bool `json:"debug"`
}

type svec struct {
	K      string          `json:"k"`
	F      string          `json:"f"`
	Fill   int             `json:"fill"`
	Arg    []int           `json:"arg"`
	ArgK   string          `json:"argk"`
	Writes []write         `json:"writes"`
	Get    hdrGet          `json:"get"`
	Obs    string          `json:"obs"`
	Neg    bool            `json:"neg"`
	Hi     int             `json:"hi"`
	Lo     int             `json:"lo"`
	Ns     int             `json:"ns"`
	MAC    []int           `json:"mac"`
	IP     []int           `json:"ip"`
	Subnet []int           `json:"subnet"`
	Init   int             `json:"init"`
	Ops    []logOp         `json:"ops"`
	W      string          `json:"w"`
	Doc    int             `json:"documented"`
	Exp    json.RawMessage `json:"exp"`
}

func bytesOf(v []int) []byte {
	b := make([]byte, len(v))
	for i, x := range v {
		b[i] = byte(x)
	}
	return b
}

func eqBytes(b []byte, v []int) bool {
	if len(b) != len(v) {
		return false
	}
	for i := range b {
		if int(b[i]) != v[i] {
			return false
		}
	}
	return true
}

func addrOf(kind string, v []int) netip.Addr {
	switch kind {
	case "ip4":
		return netip.AddrFrom4([4]byte{byte(v[0]), byte(v[1]), byte(v[2]), byte(v[3])})
	case "ip16":
		var a [16]byte
		copy(a[:], bytesOf(v))
		return netip.AddrFrom16(a)
	}
	return netip.Addr{}
}

func runHdr(i int, v svec) (string, string) {
	const n = 240
	buf := make([]byte, n+16) // 16 guard bytes behind the header
	for j := range buf {
		buf[j] = byte(v.Fill)
	}
	p := packet.DHCP4(buf[:n:n])
	arg := bytesOf(v.Arg)
	if i%2 == 0 && len(arg) == 0 && v.ArgK == "bytes" {
		arg = nil
	}
	keep := append([]byte{}, arg...)
	switch v.F {
	case "op":
		p.SetOpCode(packet.DHCP4OpCode(arg[0]))
	case "htype":
		p.SetHType(arg[0])
	case "hlen":
		p.SetHLen(arg[0])
	case "hops":
		p.SetHops(arg[0])
	case "xid":
		p.SetXId(arg)
	case "secs":
		p.SetSecs(uint16(arg[0])<<8 | uint16(arg[1]))
	case "flags":
		p.SetFlags(uint16(arg[0])<<8 | uint16(arg[1]))
	case "bcast":
		p.SetFlags(uint16(arg[1])<<8 | uint16(arg[2]))
		p.SetBroadcast(arg[0] == 1)
	case "ciaddr":
		p.SetCIAddr(addrOf(v.ArgK, v.Arg))
	case "yiaddr":
		p.SetYIAddr(addrOf(v.ArgK, v.Arg))
	case "siaddr":
		p.SetSIAddr(addrOf(v.ArgK, v.Arg))
	case "giaddr":
		p.SetGIAddr(addrOf(v.ArgK, v.Arg))
	case "chaddr":
		p.SetCHAddr(net.HardwareAddr(arg))
	case "sname":
		p.SetSName(arg)
	case "file":
		p.SetFile(arg)
	case "cookie":
		p.SetCookie(arg)
	default:
		return "driver", "unknown header field " + v.F
	}
	want := make([]byte, n+16)
	for j := range want {
		want[j] = byte(v.Fill)
	}
	for _, w := range v.Writes {
		copy(want[w.Off:], bytesOf(w.B))
	}
	for j := range want {
		if buf[j] != want[j] {
			return "layout", fmt.Sprintf("Set%s(%v) on a header filled with %d: byte %d is %d, the reference says %d", v.F, v.Arg, v.Fill, j, buf[j], want[j])
		}
	}
	if string(keep) != string(arg) {
		return "modified", "the setter modified its argument"
	}
	g := v.Get
	c4 := func(a netip.Addr) []byte { x := a.As4(); return x[:] }
	checks := []struct {
		name string
		ok   bool
	}{
		{"OpCode", int(p.OpCode()) == g.Op}, {"HType", int(p.HType()) == g.HType}, {"HLen", int(p.HLen()) == g.HLen}, {"Hops", int(p.Hops()) == g.Hops},
		{"XId", eqBytes(p.XId(), g.XID)}, {"Secs", int(p.Secs()) == g.Secs[0]<<8|g.Secs[1]}, {"Flags", int(p.Flags()) == g.Flags[0]<<8|g.Flags[1]},
		{"Broadcast", p.Broadcast() == g.Bcast}, {"CIAddr", eqBytes(c4(p.CIAddr()), g.CIAddr)}, {"YIAddr", eqBytes(c4(p.YIAddr()), g.YIAddr)},
		{"SIAddr", eqBytes(c4(p.SIAddr()), g.SIAddr)}, {"GIAddr", eqBytes(c4(p.GIAddr()), g.GIAddr)}, {"CHAddr", eqBytes(p.CHAddr(), g.CHAddr)},
		{"SName", eqBytes(p.SName(), g.SName)}, {"File", eqBytes(p.File(), g.File)}, {"Cookie", eqBytes(p.Cookie(), g.Cookie)},
		{"Options", p.Options() == nil},
	}
	for _, c := range checks {
		if !c.ok {
			return "getter", fmt.Sprintf("after Set%s(%v): %s() does not read the field back", v.F, v.Arg, c.name)
		}
	}
	return "", ""
}

func u32(hi, lo int) uint64 { return uint64(hi)*65536 + uint64(lo) }

func runSmall(i int, v svec) (aspect, what string) {
	defer func() {
		if r := recover(); r != nil {
			aspect, what = "panic", fmt.Sprintf("%s: panic: %v", v.K, r)
		}
	}()
	switch v.K {
	case "hdr":
		return runHdr(i, v)
	case "lease":
		var exp []int
		json.Unmarshal(v.Exp, &exp)
		d := time.Duration(int64(u32(v.Hi, v.Lo))*int64(time.Second) + int64(v.Ns))
		if v.Neg {
			d = -d
		}
		got := packet.OptionsLeaseTime(d)
		if !eqBytes(got, exp) {
			return "value", fmt.Sprintf("OptionsLeaseTime(%v) = %v, reference %v", d, got, exp)
		}
	case "mtu":
		var exp struct {
			Code int   `json:"code"`
			Be   []int `json:"be"`
		}
		json.Unmarshal(v.Exp, &exp)
		val := uint32(u32(v.Hi, v.Lo))
		m := packet.NewMTU(val)
		if m == nil || uint32(*m) != val || int(m.Code()) != exp.Code {
			return "value", fmt.Sprintf("NewMTU(%d): value %v code %d", val, m, m.Code())
		}
		be := []byte{byte(uint32(*m) >> 24), byte(uint32(*m) >> 16), byte(uint32(*m) >> 8), byte(uint32(*m))}
		if !eqBytes(be, exp.Be) {
			return "value", fmt.Sprintf("NewMTU(%d) holds %v, reference %v", val, be, exp.Be)
		}
	case "lla":
		var exp []int
		json.Unmarshal(v.Exp, &exp)
		mac := net.HardwareAddr(bytesOf(v.MAC))
		if len(mac) == 0 && i%2 == 0 {
			mac = nil
		}
		keep := append([]byte{}, mac...)
		got := packet.IPv6NewLLA(mac)
		if !eqBytes(got, exp) {
			return "value", fmt.Sprintf("IPv6NewLLA(%v) = %v, reference %v", []byte(mac), []byte(got), exp)
		}
		if string(keep) != string(mac) {
			return "modified", "IPv6NewLLA modified its argument"
		}
	case "ula":
		var exp struct {
			OK     bool  `json:"ok"`
			First  int   `json:"first"`
			Subnet []int `json:"subnet"`
			Ones   int   `json:"ones"`
		}
		json.Unmarshal(v.Exp, &exp)
		var mac net.HardwareAddr // the empty address of the reference is the nil MAC ("no seed")
		if len(v.MAC) > 0 {
			mac = net.HardwareAddr(bytesOf(v.MAC))
		}
		sn := uint16(v.Subnet[0])<<8 | uint16(v.Subnet[1])
		n, err := packet.IPv6NewULA(mac, sn)
		if (err == nil) != exp.OK {
			return "error", fmt.Sprintf("IPv6NewULA(%v, %d): error %v, reference ok=%v", []byte(mac), sn, err, exp.OK)
		}
		if err == nil {
			ones, bits := n.Mask.Size()
			ip := n.IP.To16()
			if ip == nil || int(ip[0]) != exp.First || !eqBytes(ip[6:8], exp.Subnet) || ones != exp.Ones || bits != 128 ||
				string(ip[8:16]) != string(make([]byte, 8)) {
				return "value", fmt.Sprintf("IPv6NewULA(%v, %d) = %v: not fd00::/8 + global id + subnet %v as a /64", []byte(mac), sn, n, exp.Subnet)
			}
		}
	case "solnode":
		var exp struct {
			IP  []int `json:"ip"`
			MAC []int `json:"mac"`
		}
		json.Unmarshal(v.Exp, &exp)
		var a netip.Addr
		if len(v.IP) == 4 {
			a = addrOf("ip4", v.IP)
		} else {
			a = addrOf("ip16", v.IP)
		}
		got := packet.IPv6SolicitedNode(a)
		var gip []byte
		if got.IP.IsValid() {
			x := got.IP.As16()
			gip = x[:]
		}
		if !eqBytes(gip, exp.IP) || !eqBytes(got.MAC, exp.MAC) {
			return "value", fmt.Sprintf("IPv6SolicitedNode(%v) = %v %v, reference %v %v", a, got.IP, []byte(got.MAC), exp.IP, exp.MAC)
		}
	case "ucast":
		var exp struct {
			Panic   bool `json:"panic"`
			Unicast bool `json:"unicast"`
		}
		json.Unmarshal(v.Exp, &exp)
		mac := net.HardwareAddr(bytesOf(v.MAC))
		if len(mac) == 0 && i%2 == 0 {
			mac = nil
		}
		var got bool
		panicked := func() (p bool) {
			defer func() {
				if recover() != nil {
					p = true
				}
			}()
			got = packet.IsUnicastMAC(mac)
			return false
		}()
		if panicked != exp.Panic {
			if panicked {
				return "panic", fmt.Sprintf("IsUnicastMAC(%v) panics", []byte(mac))
			}
			return "nopanic", fmt.Sprintf("IsUnicastMAC(%v) = %v: the recorded panic on the empty address is gone", []byte(mac), got)
		}
		if !panicked && got != exp.Unicast {
			return "value", fmt.Sprintf("IsUnicastMAC(%v) = %v, reference %v", []byte(mac), got, exp.Unicast)
		}
	case "log":
		var exp []logObs
		json.Unmarshal(v.Exp, &exp)
		l := fastlog.New("x09")
		l.SetLevel(fastlog.LogLevel(v.Init))
		for j, op := range v.Ops {
			switch op.O {
			case "set":
				l.SetLevel(fastlog.LogLevel(op.V))
			case "setstr":
				l.SetLevelString(op.W)
			case "disable":
				l.Disable()
			case "einfo":
				l.EnableInfo()
			case "edebug":
				l.EnableDebug()
			default:
				return "driver", "unknown log operation " + op.O
			}
			if int(l.Level()) != exp[j].Level || l.IsInfo() != exp[j].Info || l.IsDebug() != exp[j].Debug {
				return "level", fmt.Sprintf("logger at level %d after %v: Level %d IsInfo %v IsDebug %v, reference %+v", v.Init, v.Ops[:j+1],
					l.Level(), l.IsInfo(), l.IsDebug(), exp[j])
			}
		}
	case "str2level":
		var exp int
		json.Unmarshal(v.Exp, &exp)
		got := int(fastlog.Str2LogLevel(v.W))
		if got != exp {
			if got == v.Doc {
				return "documented", fmt.Sprintf("Str2LogLevel(%q) = %d as documented (recorded: %d)", v.W, got, exp)
			}
			return "value", fmt.Sprintf("Str2LogLevel(%q) = %d, reference %d", v.W, got, exp)
		}
	default:
		return "driver", "unknown family " + v.K
	}
	return "", ""
}

func cmdVec(args []string) (map[string]interface{}, error) {
	fs := flag.NewFlagSet("vec", flag.ExitOnError)
	in := fs.String("in", "", "vectors (ndjson)")
	out := fs.String("out", "", "results (ndjson): failing vectors only")
	fs.Parse(args)
	lines, err := readLines(*in)
	if err != nil {
		return nil, err
	}
	w, err := newNDWriter(*out)
	if err != nil {
		return nil, err
	}
	bad := 0
	fam, sites := map[string]int{}, map[string]int{}
	siteEx := map[string]int{}
	for i, ln := range lines {
		var v svec
		if err := json.Unmarshal(ln, &v); err != nil {
			return nil, fmt.Errorf("vector %d: %v", i, err)
		}
		fam[v.K]++
		asp, what := runSmall(i, v)
		if asp == "driver" {
			return nil, fmt.Errorf("vector %d: %s", i, what)
		}
		if asp != "" {
			bad++
			w.write(map[string]interface{}{"i": i, "aspect": asp, "what": what, "obs": v.Obs})
		} else if v.Obs != "" {
			sites[v.Obs]++
			if _, ok := siteEx[v.Obs]; !ok {
				siteEx[v.Obs] = i
			}
		}
	}
	if err := w.close(); err != nil {
		return nil, err
	}
	return map[string]interface{}{"vectors": len(lines), "differ": bad, "families": fam, "sites": sites, "site_examples": siteEx}, nil
}
