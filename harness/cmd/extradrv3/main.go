// extradrv3 binds the X08 / X09 specifications (components of /repo that no listed property covers) to the real code.
//
//	extradrv3 modes -in behaviours.ndjson -out results.ndjson -dir scratch [-cfg 3] [-slow]   (spec/DhcpModes.tla)
//	extradrv3 vec   -in vectors.ndjson -out results.ndjson                                    (spec/SmallVec.tla)
//
// Every sub-command prints one JSON summary line on stdout; everything else goes to stderr.
package main

import (
	"bufio"
	"encoding/json"
	"fmt"
	"os"
	"strconv"

	"verifharness/vh"
)

var realStdout *os.File

func main() {
	if len(os.Args) < 2 {
		fmt.Fprintln(os.Stderr, "usage: extradrv3 modes|vec [flags]")
		os.Exit(2)
	}
	vh.Quiet()
	realStdout = os.Stdout
	if os.Getenv("VERIF_STDOUT") == "" {
		if f, err := os.OpenFile(os.DevNull, os.O_WRONLY, 0); err == nil {
			os.Stdout = f
		}
	}
	cmd, args := os.Args[1], os.Args[2:]
	var sum map[string]interface{}
	var err error
	switch cmd {
	case "modes":
		sum, err = cmdModes(args)
	case "vec":
		sum, err = cmdVec(args)
	default:
		err = fmt.Errorf("unknown sub-command %q", cmd)
	}
	if err != nil {
		fmt.Fprintln(os.Stderr, "extradrv3:", err)
		os.Exit(2)
	}
	b, _ := json.Marshal(sum)
	fmt.Fprintln(realStdout, string(b))
}

func seed() int64 {
	if s, err := strconv.ParseInt(os.Getenv("VERIF_SEED"), 10, 64); err == nil {
		return s
	}
	return 1
}

// readLines reads an ndjson file, one raw JSON document per line.
func readLines(path string) ([][]byte, error) {
	f, err := os.Open(path)
	if err != nil {
		return nil, err
	}
	defer f.Close()
	sc := bufio.NewScanner(f)
	sc.Buffer(make([]byte, 1<<20), 1<<26)
	var out [][]byte
	for sc.Scan() {
		b := sc.Bytes()
		if len(b) == 0 {
			continue
		}
		out = append(out, append([]byte{}, b...))
	}
	return out, sc.Err()
}

type ndWriter struct {
	f *os.File
	w *bufio.Writer
}

func newNDWriter(path string) (*ndWriter, error) {
	f, err := os.Create(path)
	if err != nil {
		return nil, err
	}
	return &ndWriter{f: f, w: bufio.NewWriterSize(f, 1<<20)}, nil
}

func (n *ndWriter) write(v interface{}) {
	b, err := json.Marshal(v)
	if err != nil {
		panic(err)
	}
	n.w.Write(b)
	n.w.WriteByte('\n')
}

func (n *ndWriter) close() error {
	if err := n.w.Flush(); err != nil {
		return err
	}
	return n.f.Close()
}
