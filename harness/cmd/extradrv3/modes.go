package main

// X08: behaviours exported by TLC from spec/DhcpModesMC.tla executed on a real dhcp4_spoofer.Handler attached to a real
// packet.Session over a recording connection.  Messages are real frames built by the independent builder vh.DHCP4 and go
// through Session.Parse -> Handler.ProcessPacket -> Session.Notify; everything the handler writes is decoded by the
// independent decoder vh.DecodeDHCPFrame and projected onto the abstract frame records of the specification; the lease table
// is read through the existing hook VerifLeases.  After every step the projection is compared with the specification's.

import (
	"encoding/json"
	"flag"
	"fmt"
	"net"
	"net/netip"
	"os"
	"path/filepath"
	"sort"
	"time"

	"github.com/irai/packet"
	"github.com/irai/packet/fastlog"
	dhcp "github.com/irai/packet/handlers/dhcp4_spoofer"
	"verifharness/vh"
)

type replyP struct {
	K   string `json:"k"`
	C   string `json:"c"`
	Sid string `json:"sid"`
	Yi  string `json:"yi"`
	Net int    `json:"net"`
	Xid string `json:"xid"`
}

type forgedP struct {
	K   string `json:"k"`
	C   string `json:"c"`
	Sid string `json:"sid"`
	Ci  string `json:"ci"`
	Rq  string `json:"rq"`
	Xid string `json:"xid"`
	To  string `json:"to"`
}

type outP struct {
	Reply  []replyP  `json:"reply"`
	Forged []forgedP `json:"forged"`
	Storm  bool      `json:"storm"`
}

type leaseP struct {
	St  string `json:"st"`
	Net int    `json:"net"`
	IP  bool   `json:"ip"`
	Off bool   `json:"off"`
	Xid string `json:"xid"`
	Exp bool   `json:"exp"`
}

type postP struct {
	Mode   string            `json:"mode"`
	Cap    map[string]bool   `json:"cap"`
	Ls     map[string]leaseP `json:"ls"`
	Armed  bool              `json:"armed"`
	Closed bool              `json:"closed"`
}

type stepP struct {
	Act  map[string]interface{} `json:"act"`
	Exp  outP                   `json:"exp"`
	Post postP                  `json:"post"`
	Kf   []string               `json:"kf"`
}

type behaviour struct {
	Init  string  `json:"init"`
	Steps []stepP `json:"steps"`
}

var clients = []string{"c1", "c2"}

var (
	srv2MAC = net.HardwareAddr{0x02, 0x00, 0x00, 0x00, 0x03, 0x01}
	fakeMAC = net.HardwareAddr{0xff, 0xee, 0xdd, 0xcc, 0xbb, 0x07}
)

type mdriver struct {
	nw      vh.DhcpNet
	base    int // offset of the block of home-only addresses the driver uses for message arguments
	s       *packet.Session
	conn    *vh.RecConn
	h       *dhcp.Handler
	file    string
	slow    bool
	snap    map[string]dhcp.VerifLease // lease table after the last step, by client token
	extra   []string                   // lease keys that belong to no client token
	msgAddr netip.Addr                 // the address carried by the message of the current step
	nonDHCP int
	frames  int
	stormN  int
	forgedN int
}

func modeOf(s string) dhcp.Mode {
	switch s {
	case "primary":
		return dhcp.ModePrimaryServer
	case "nice":
		return dhcp.ModeSecondaryServerNice
	}
	return dhcp.ModeSecondaryServer
}

func modeName(m dhcp.Mode) string {
	switch m {
	case dhcp.ModePrimaryServer:
		return "primary"
	case dhcp.ModeSecondaryServer:
		return "secondary"
	case dhcp.ModeSecondaryServerNice:
		return "nice"
	}
	return fmt.Sprintf("mode%d", int(m))
}

func (d *mdriver) abs(off int) netip.Addr {
	a, ok := d.nw.Conc(d.base + off)
	if !ok {
		panic("address outside the universe")
	}
	return a
}

func cnum(c string) int {
	if c == "c2" {
		return 1
	}
	return 0
}

// addresses used as message arguments (all in the part of the home LAN that is outside the netfilter subnet)
func (d *mdriver) addr1(c string) netip.Addr  { return d.abs(50 + 10*cnum(c)) }
func (d *mdriver) addr2(c string) netip.Addr  { return d.abs(51 + 10*cnum(c)) }
func (d *mdriver) huntOther() netip.Addr      { return d.abs(70) }
func (d *mdriver) yOther(c string) netip.Addr { return d.abs(80 + cnum(c)) } // what the other server offers to c
func (d *mdriver) srv2IP() netip.Addr         { return d.abs(100) }

func (d *mdriver) serverIP(name string) netip.Addr {
	switch name {
	case "us":
		return d.nw.HostIP()
	case "router":
		return d.nw.Router
	case "srv2":
		return d.srv2IP()
	}
	panic("unknown server " + name)
}

func (d *mdriver) serverMAC(name string) net.HardwareAddr {
	switch name {
	case "us":
		return vh.OwnMAC
	case "router":
		return vh.RouterMAC
	case "srv2":
		return srv2MAC
	}
	panic("unknown server " + name)
}

func (d *mdriver) serverName(ip netip.Addr) string {
	switch ip {
	case d.nw.HostIP():
		return "us"
	case d.nw.Router:
		return "router"
	case d.srv2IP():
		return "srv2"
	}
	return "ip:" + ip.String()
}

func macTarget(mac net.HardwareAddr) string {
	switch string(mac) {
	case string(vh.Bcast):
		return "bcast"
	case string(vh.RouterMAC):
		return "router"
	case string(srv2MAC):
		return "srv2"
	case string(vh.OwnMAC):
		return "us"
	}
	return "mac:" + mac.String()
}

func (d *mdriver) reset(mode string) error {
	if d.s != nil {
		old, oh := d.s, d.h
		if oh != nil {
			oh.Close()
		}
		go old.Close()
	}
	rec := vh.NewRecConn()
	s, err := packet.Config{Conn: rec, NICInfo: d.nw.Universe().NICInfo(), ProbeDeadline: 30 * vh.Unit,
		OfflineDeadline: 60 * vh.Unit, PurgeDeadline: 24 * 60 * vh.Unit}.NewSession("")
	if err != nil {
		return err
	}
	d.s, d.conn = s, rec
	os.Remove(d.file)
	dhcp.VerifResetStorm()
	c := dhcp.Config{Mode: modeOf(mode), NetfilterIP: d.nw.Netfilter, DNSServer: d.nw.DNS, LeaseFilename: d.file}
	d.h, err = c.New(d.s)
	d.snap = map[string]dhcp.VerifLease{}
	d.extra = nil
	return err
}

func (d *mdriver) readLeases() {
	d.snap = map[string]dhcp.VerifLease{}
	d.extra = nil
	for _, l := range d.h.VerifLeases() {
		k := vh.DhcpCIDName(l.ClientID)
		if k == "c1" || k == "c2" {
			d.snap[k] = l
		} else {
			d.extra = append(d.extra, k)
		}
	}
	sort.Strings(d.extra)
}

func valid(a netip.Addr) bool { return a.IsValid() && !a.IsUnspecified() }

func (d *mdriver) leaseAbs(c string) leaseP {
	l, ok := d.snap[c]
	if !ok {
		return leaseP{St: "none", Xid: "nox"}
	}
	p := leaseP{IP: valid(l.IP), Off: valid(l.IPOffer), Xid: vh.DhcpXIDName(l.XID), Exp: !l.DHCPExpiry.IsZero()}
	switch l.State {
	case dhcp.StateFree:
		p.St = "free"
	case dhcp.StateDiscover:
		p.St = "disc"
	case dhcp.StateAllocated:
		p.St = "alloc"
	default:
		p.St = fmt.Sprintf("state%d", int(l.State))
	}
	switch l.Subnet {
	case "net1":
		p.Net = 1
	case "net2":
		p.Net = 2
	default:
		p.Net = -1
	}
	return p
}

// resolve turns the abstract address class of an action into a concrete address, using the real lease table as it was
// before the step.  what: "offer-or-ip" (a REQUEST that selects us) or "ip".
func (d *mdriver) resolve(c, rq, what string) netip.Addr {
	l, ok := d.snap[c]
	if rq == "match" && ok {
		if what == "offer-or-ip" && l.State == dhcp.StateDiscover && valid(l.IPOffer) {
			return l.IPOffer
		}
		if valid(l.IP) {
			return l.IP
		}
		if what == "offer-or-ip" && valid(l.IPOffer) {
			return l.IPOffer
		}
	}
	a := d.addr1(c)
	if ok && (l.IP == a || l.IPOffer == a) {
		a = d.addr2(c)
	}
	return a
}

// clientMsg builds one client message (BOOTP op 1).  sid "" = no server identifier; ropt / ci invalid = absent / zero.
func (d *mdriver) clientMsg(mt uint8, c, xid, sid string, ropt, ci netip.Addr, unicast bool) []byte {
	mac := vh.DhcpMAC(c)
	opts := []vh.DHCP4Opt{{Code: 53, Data: []byte{mt}}}
	if c == "c1" { // c1 sends option 61 (type 1 + MAC); c2 is identified by its chaddr
		opts = append(opts, vh.DHCP4Opt{Code: 61, Data: vh.DhcpCID(c)})
	}
	if ropt.IsValid() {
		opts = append(opts, vh.DHCP4Opt{Code: 50, Data: ropt.AsSlice()})
	}
	if sid != "" {
		opts = append(opts, vh.DHCP4Opt{Code: 54, Data: d.serverIP(sid).AsSlice()})
	}
	opts = append(opts, vh.DHCP4Opt{Code: 55, Data: []byte{1, 3, 6, 15}})
	msg := vh.DHCP4(1, vh.DhcpXID(xid), 0, ci, netip.Addr{}, netip.Addr{}, netip.Addr{}, mac, opts)
	sip, dip, dmac := netip.IPv4Unspecified(), netip.AddrFrom4([4]byte{255, 255, 255, 255}), vh.Bcast
	if unicast {
		sip, dip, dmac = ci, d.nw.HostIP(), vh.OwnMAC
	}
	return vh.FrameIP4UDP(mac, dmac, sip, dip, 68, 67, msg)
}

// serverMsg builds a message of a DHCP server to a client (BOOTP op 2, port 67 -> 68, broadcast).
func (d *mdriver) serverMsg(k, from, c, xid string) []byte {
	mt := map[string]uint8{"offer": 2, "ack": 5, "nak": 6}[k]
	var ch net.HardwareAddr
	opts := []vh.DHCP4Opt{{Code: 53, Data: []byte{mt}}, {Code: 54, Data: d.serverIP(from).AsSlice()}}
	yi := netip.Addr{}
	if c == "fake" {
		ch = fakeMAC
		yi = d.abs(90)
	} else {
		ch = vh.DhcpMAC(c)
		yi = d.yOther(c)
		if c == "c1" { // RFC 6842: the server echoes the client identifier
			opts = append(opts, vh.DHCP4Opt{Code: 61, Data: vh.DhcpCID(c)})
		}
	}
	if k == "nak" {
		yi = netip.Addr{}
	} else {
		opts = append(opts, vh.DHCP4Opt{Code: 51, Data: []byte{0, 0, 0x0e, 0x10}}, vh.DHCP4Opt{Code: 1, Data: d.nw.Mask(1)},
			vh.DHCP4Opt{Code: 3, Data: d.nw.Router.AsSlice()})
	}
	d.msgAddr = yi
	msg := vh.DHCP4(2, vh.DhcpXID(xid), 0, netip.Addr{}, yi, netip.Addr{}, netip.Addr{}, ch, opts)
	return vh.FrameIP4UDP(d.serverMAC(from), vh.Bcast, d.serverIP(from), netip.AddrFrom4([4]byte{255, 255, 255, 255}), 67, 68, msg)
}

func (d *mdriver) process(b []byte) string {
	cp := make([]byte, len(b), len(b)+64)
	copy(cp, b)
	fr, err := d.s.Parse(cp)
	if err != nil {
		return "parse: " + err.Error()
	}
	perr := ""
	if err := d.h.ProcessPacket(fr); err != nil {
		perr = "process: " + err.Error()
	}
	d.s.Notify(fr)
	return perr
}

func (d *mdriver) drain() {
	for {
		select {
		case <-d.s.C:
		default:
			return
		}
	}
}

func str(a map[string]interface{}, k string) string {
	s, _ := a[k].(string)
	return s
}

// exec performs one action on the real handler / session; returns the error text of the call (informational).
func (d *mdriver) exec(a map[string]interface{}) (perr string) {
	c, xid, rq, from := str(a, "c"), str(a, "xid"), str(a, "rq"), str(a, "from")
	d.msgAddr = netip.Addr{}
	switch str(a, "a") {
	case "discover":
		ropt := netip.Addr{}
		if rq == "addr" {
			ropt = d.addr1(c)
			d.msgAddr = ropt
		}
		perr = d.process(d.clientMsg(1, c, xid, "", ropt, netip.Addr{}, false))
	case "selus":
		d.msgAddr = d.resolve(c, rq, "offer-or-ip")
		perr = d.process(d.clientMsg(3, c, xid, "us", d.msgAddr, netip.Addr{}, false))
	case "selother":
		d.msgAddr = d.yOther(c)
		perr = d.process(d.clientMsg(3, c, xid, from, d.msgAddr, netip.Addr{}, false))
	case "reboot":
		d.msgAddr = d.resolve(c, rq, "ip")
		perr = d.process(d.clientMsg(3, c, xid, "", d.msgAddr, netip.Addr{}, false))
	case "renew":
		d.msgAddr = d.resolve(c, rq, "ip")
		perr = d.process(d.clientMsg(3, c, xid, "", netip.Addr{}, d.msgAddr, true))
	case "decline":
		d.msgAddr = d.resolve(c, rq, "ip")
		perr = d.process(d.clientMsg(4, c, "x9", from, d.msgAddr, netip.Addr{}, false))
	case "release":
		d.msgAddr = d.resolve(c, rq, "ip")
		perr = d.process(d.clientMsg(7, c, "x9", from, netip.Addr{}, d.msgAddr, true))
	case "srv":
		perr = d.process(d.serverMsg(str(a, "k"), from, c, xid))
	case "setmode":
		d.h.SetMode(modeOf(str(a, "m")))
	case "capture":
		if err := d.s.Capture(vh.DhcpMAC(c)); err != nil {
			perr = err.Error()
		}
	case "uncapture":
		if err := d.s.Release(vh.DhcpMAC(c)); err != nil {
			perr = err.Error()
		}
	case "tick":
		now := time.Now()
		if far, _ := a["far"].(bool); far {
			now = now.Add(1000 * time.Hour)
		}
		if err := d.h.MinuteTicker(now); err != nil {
			perr = err.Error()
		}
	case "rearm":
		dhcp.VerifResetStorm()
	case "starthunt":
		ip := d.huntOther()
		if l, ok := d.snap[c]; ok && rq == "match" && valid(l.IP) {
			ip = l.IP
		}
		d.msgAddr = ip
		if err := d.h.StartHunt(packet.Addr{MAC: vh.DhcpMAC(c), IP: ip}); err != nil {
			perr = err.Error()
		}
	case "stophunt":
		ip := d.huntOther()
		if l, ok := d.snap[c]; ok && valid(l.IP) {
			ip = l.IP
		}
		if err := d.h.StopHunt(packet.Addr{MAC: vh.DhcpMAC(c), IP: ip}); err != nil {
			perr = err.Error()
		}
	case "close":
		if err := d.h.Close(); err != nil {
			perr = err.Error()
		}
	default:
		panic("unknown action " + str(a, "a"))
	}
	return perr
}

func opt4(m *vh.DhcpMsg, code uint8) (netip.Addr, bool) {
	v, i := m.Opt(code)
	if i < 0 || len(v) != 4 {
		return netip.Addr{}, false
	}
	return netip.AddrFrom4([4]byte{v[0], v[1], v[2], v[3]}), true
}

func (d *mdriver) clientOfMAC(mac net.HardwareAddr) string { return vh.DhcpMACName(mac) }

func addrTok(a netip.Addr) string {
	if !valid(a) {
		return "zero"
	}
	return "ip:" + a.String()
}

// projectReply maps a frame written to a client (BOOTP op 2) onto the specification's reply record.  The lease table
// must have been read after the step.
func (d *mdriver) projectReply(m *vh.DhcpMsg) replyP {
	r := replyP{C: d.clientOfMAC(m.CHAddr), Xid: vh.DhcpXIDName(m.XID), Sid: "none", Yi: addrTok(m.YIAddr)}
	switch m.Type {
	case 2:
		r.K = "offer"
	case 5:
		r.K = "ack"
	case 6:
		r.K = "nak"
	default:
		r.K = fmt.Sprintf("type%d", m.Type)
	}
	if sid, ok := opt4(m, 54); ok {
		r.Sid = d.serverName(sid)
	}
	if l, ok := d.snap[r.C]; ok && valid(m.YIAddr) {
		switch {
		case r.K == "offer" && m.YIAddr == l.IPOffer:
			r.Yi = "offer"
		case r.K == "ack" && m.YIAddr == l.IP:
			r.Yi = "ip"
		}
	}
	if r.K == "offer" || r.K == "ack" {
		mask, _ := m.Opt(1)
		gw, _ := opt4(m, 3)
		switch {
		case string(mask) == string(d.nw.Mask(1)) && gw == d.nw.Router && d.nw.Home.Masked().Contains(m.YIAddr) &&
			!d.nw.Netfilter.Masked().Contains(m.YIAddr):
			r.Net = 1
		case string(mask) == string(d.nw.Mask(2)) && gw == d.nw.HostIP() && d.nw.Netfilter.Masked().Contains(m.YIAddr):
			r.Net = 2
		default:
			r.Net = -1
		}
	}
	if !(m.SrcPort == 67 && m.DstPort == 68 && m.CookieOK && m.EndSeen && m.UDPLenOK && m.IPLenOK &&
		string(m.EthSrc) == string(vh.OwnMAC) && m.IPSrc == d.nw.HostIP()) {
		r.K = "malformed-" + r.K
	}
	return r
}

// projectForged maps a forged client-to-server frame (BOOTP op 1, not a storm frame) onto the specification's record.
func (d *mdriver) projectForged(m *vh.DhcpMsg) forgedP {
	f := forgedP{C: d.clientOfMAC(m.CHAddr), Sid: "none", Ci: addrTok(m.CIAddr), Rq: "none", Xid: vh.DhcpXIDName(m.XID),
		To: macTarget(m.EthDst)}
	switch m.Type {
	case 4:
		f.K = "decline"
	case 7:
		f.K = "release"
	default:
		f.K = fmt.Sprintf("type%d", m.Type)
	}
	if sid, ok := opt4(m, 54); ok {
		f.Sid = d.serverName(sid)
	}
	if l, ok := d.snap[f.C]; ok && valid(m.CIAddr) && m.CIAddr == l.IP {
		f.Ci = "ip"
	}
	if rq, ok := opt4(m, 50); ok {
		f.Rq = addrTok(rq)
		if rq == d.msgAddr {
			f.Rq = "msg"
		}
	} else if _, i := m.Opt(50); i >= 0 {
		f.Rq = "badlen"
	}
	if f.K == "release" && len(f.Xid) > 4 && f.Xid[:4] == "xid:" {
		f.Xid = "rand" // a RELEASE forged by StartHunt carries a random transaction id
	}
	// the client identifier must be the identifier of the client the frame speaks for
	if cid, i := m.Opt(61); i < 0 || (f.C == "c1" || f.C == "c2") && string(cid) != string(vh.DhcpCID(f.C)) {
		f.K = "badcid-" + f.K
	}
	// a client-to-server message from our NIC; the IP destination goes with the Ethernet destination
	okDst := (f.To == "router" && m.IPDst == d.nw.Router) || (f.To == "srv2" && m.IPDst == d.srv2IP()) ||
		(f.To == "bcast" && m.IPDst == netip.AddrFrom4([4]byte{255, 255, 255, 255}))
	if !(m.Op == 1 && m.SrcPort == 68 && m.DstPort == 67 && m.CookieOK && m.EndSeen && m.UDPLenOK && m.IPLenOK &&
		string(m.EthSrc) == string(vh.OwnMAC) && okDst && !valid(m.YIAddr) && m.Flags == 0) {
		f.K = "malformed-" + f.K
	}
	return f
}

// isStorm: a DISCOVER for one of the invented clients ff:ee:dd:cc:bb:xx.
func isStorm(m *vh.DhcpMsg) bool {
	return m.Op == 1 && len(m.CHAddr) == 6 && m.CHAddr[0] == 0xff && m.CHAddr[1] == 0xee && m.CHAddr[2] == 0xdd && m.CHAddr[3] == 0xcc
}

// collect classifies the frames written during a step.
func (d *mdriver) collect(frames [][]byte) (out outP, stormWhat string) {
	out = outP{Reply: []replyP{}, Forged: []forgedP{}}
	var storm []*vh.DhcpMsg
	for _, b := range frames {
		d.frames++
		m, err := vh.DecodeDHCPFrame(b)
		if err != nil || m == nil {
			d.nonDHCP++
			continue
		}
		switch {
		case m.Op == 2:
			out.Reply = append(out.Reply, d.projectReply(m))
		case isStorm(m):
			storm = append(storm, m)
			d.stormN++
		default:
			out.Forged = append(out.Forged, d.projectForged(m))
			d.forgedN++
		}
	}
	sort.Slice(out.Forged, func(i, j int) bool { return fmt.Sprint(out.Forged[i]) < fmt.Sprint(out.Forged[j]) })
	if len(storm) > 0 {
		out.Storm = true
		// 256 DISCOVERs, one per invented client, to the default gateway
		seen := map[byte]bool{}
		for _, m := range storm {
			ok := m.Type == 1 && m.CHAddr[4] == 0xbb && len(m.XID) == 4 && m.XID[0] == 0xff && m.XID[1] == 0xee && m.XID[2] == 0xdd &&
				m.XID[3] == m.CHAddr[5] && m.SrcPort == 68 && m.DstPort == 67 && string(m.EthSrc) == string(vh.OwnMAC) &&
				string(m.EthDst) == string(vh.RouterMAC) && m.IPDst == d.nw.Router && m.CookieOK && m.EndSeen && m.UDPLenOK && m.IPLenOK &&
				!valid(m.CIAddr) && !valid(m.YIAddr)
			if !ok {
				stormWhat = "a storm frame is not a well-formed DISCOVER of an invented client sent to the gateway"
			}
			seen[m.CHAddr[5]] = true
		}
		if len(storm) != 256 || len(seen) != 256 {
			stormWhat = fmt.Sprintf("storm of %d frames for %d invented clients (256 / 256 expected)", len(storm), len(seen))
		}
	}
	return out, stormWhat
}

func sameForged(a, b []forgedP) bool {
	if len(a) != len(b) {
		return false
	}
	x := append([]forgedP{}, a...)
	y := append([]forgedP{}, b...)
	sort.Slice(x, func(i, j int) bool { return fmt.Sprint(x[i]) < fmt.Sprint(x[j]) })
	sort.Slice(y, func(i, j int) bool { return fmt.Sprint(y[i]) < fmt.Sprint(y[j]) })
	for i := range x {
		if x[i] != y[i] {
			return false
		}
	}
	return true
}

// sameForgedButDestination: the frames differ only in where they were sent, and every real frame went to the broadcast
// address or to the server it names.
func sameForgedButDestination(got, exp []forgedP) bool {
	g := append([]forgedP{}, got...)
	e := append([]forgedP{}, exp...)
	for i := range g {
		if g[i].To != "bcast" && g[i].To != g[i].Sid {
			return false
		}
		g[i].To = "*"
	}
	for i := range e {
		e[i].To = "*"
	}
	return sameForged(g, e)
}

var drifts int

func sameReply(a, b []replyP) bool {
	if len(a) != len(b) {
		return false
	}
	for i := range a {
		if a[i] != b[i] {
			return false
		}
	}
	return true
}

type mismatch struct {
	I      int                    `json:"i"`
	Step   int                    `json:"step"`
	Aspect string                 `json:"aspect"`
	What   string                 `json:"what"`
	Act    map[string]interface{} `json:"act"`
	Exp    interface{}            `json:"exp"`
	Got    interface{}            `json:"got"`
	Kf     []string               `json:"kf"`
	Mode   string                 `json:"mode"`
}

// wait lets the goroutines that write forged frames finish: until the expected number of frames is there (bounded),
// then a grace period in which surplus frames can show up.
func (d *mdriver) wait(need int, spawns bool) {
	deadline := time.Now().Add(300 * time.Millisecond)
	for d.conn.Len() < need && time.Now().Before(deadline) {
		time.Sleep(50 * time.Microsecond)
	}
	if d.slow {
		time.Sleep(4 * time.Millisecond)
	} else if spawns {
		time.Sleep(120 * time.Microsecond)
	}
}

func (d *mdriver) run(i int, b behaviour, w *ndWriter, sites map[string]int, siteEx map[string][2]int) (bad int, steps int) {
	if err := d.reset(b.Init); err != nil {
		w.write(mismatch{I: i, Step: -1, Aspect: "new", What: "Config.New failed: " + err.Error()})
		return 1, 0
	}
	d.conn.Take()
	if got := modeName(d.h.Mode()); got != b.Init {
		w.write(mismatch{I: i, Step: -1, Aspect: "mode", What: "Mode() after New = " + got + ", configured " + b.Init})
		bad++
	}
	emit := func(k int, st stepP, aspect, what string, exp, got interface{}, modeBefore string) {
		bad++
		w.write(mismatch{I: i, Step: k, Aspect: aspect, What: what, Act: st.Act, Exp: exp, Got: got, Kf: st.Kf, Mode: modeBefore})
	}
	for k, st := range b.Steps {
		steps++
		modeBefore := modeName(d.h.Mode())
		var perr string
		panicked := ""
		func() {
			defer func() {
				if r := recover(); r != nil {
					panicked = fmt.Sprint(r)
				}
			}()
			perr = d.exec(st.Act)
		}()
		if panicked != "" {
			emit(k, st, "panic", "the call panicked: "+panicked, nil, nil, modeBefore)
			return bad, steps
		}
		need := len(st.Exp.Reply) + len(st.Exp.Forged)
		if st.Exp.Storm {
			need += 256
		}
		a := str(st.Act, "a")
		spawns := a == "discover" || a == "reboot" || a == "srv" || a == "starthunt" || a == "selother" || a == "selus" || a == "renew"
		d.wait(need, spawns)
		d.drain()
		frames := d.conn.Take()
		d.readLeases()
		got, stormWhat := d.collect(frames)
		okStep, driftStep := true, false
		if perr != "" { // no call of the alphabet is documented to fail (Close is idempotent, StartHunt / StopHunt / MinuteTicker return nil)
			okStep = false
			emit(k, st, "err", "the call returned an error: "+perr, "", perr, modeBefore)
		}
		if !sameReply(got.Reply, st.Exp.Reply) {
			okStep = false
			emit(k, st, "reply", fmt.Sprintf("replies differ (call error %q)", perr), st.Exp.Reply, got.Reply, modeBefore)
		}
		if !sameForged(got.Forged, st.Exp.Forged) {
			if sameForgedButDestination(got.Forged, st.Exp.Forged) {
				// the statement allows "broadcast or the server named"; the specification records the gateway: DRIFT, the behaviour goes on
				drifts++
				driftStep = true
				if drifts <= 50 {
					w.write(mismatch{I: i, Step: k, Aspect: "drift-forged-to", What: "forged frame sent to another permitted destination", Act: st.Act,
						Exp: st.Exp.Forged, Got: got.Forged, Kf: st.Kf, Mode: modeBefore})
				}
			} else {
				okStep = false
				emit(k, st, "forged", "forged frames differ", st.Exp.Forged, got.Forged, modeBefore)
			}
		}
		if got.Storm != st.Exp.Storm {
			okStep = false
			emit(k, st, "storm", "DISCOVER storm differs", st.Exp.Storm, got.Storm, modeBefore)
		} else if stormWhat != "" {
			okStep = false
			emit(k, st, "stormform", stormWhat, nil, nil, modeBefore)
		}
		for _, c := range clients {
			if la := d.leaseAbs(c); la != st.Post.Ls[c] {
				okStep = false
				emit(k, st, "lease", "lease of "+c+" differs", st.Post.Ls[c], la, modeBefore)
			}
			if l, ok := d.snap[c]; ok {
				in := func(a netip.Addr) bool {
					if !valid(a) {
						return true
					}
					if l.Subnet == "net2" {
						return d.nw.Netfilter.Masked().Contains(a)
					}
					return d.nw.Home.Masked().Contains(a)
				}
				if !in(l.IP) || !in(l.IPOffer) {
					okStep = false
					emit(k, st, "subnet", "lease of "+c+" holds an address outside its subnet", nil, fmt.Sprint(l.IP, " ", l.IPOffer, " ", l.Subnet), modeBefore)
				}
			}
			if cap := d.s.IsCaptured(vh.DhcpMAC(c)); cap != st.Post.Cap[c] {
				okStep = false
				emit(k, st, "cap", "capture flag of "+c+" differs", st.Post.Cap[c], cap, modeBefore)
			}
		}
		if len(d.extra) > 0 {
			okStep = false
			emit(k, st, "lease", "lease table holds entries of no client", nil, d.extra, modeBefore)
		}
		if m := modeName(d.h.Mode()); m != st.Post.Mode {
			okStep = false
			emit(k, st, "mode", "Mode() differs", st.Post.Mode, m, modeBefore)
		}
		if okStep {
			for _, site := range st.Kf {
				if driftStep && site == "KF_ForgedMissesServer" {
					continue // the real frame went where the statement wants it
				}
				sites[site]++
				if _, ok := siteEx[site]; !ok {
					siteEx[site] = [2]int{i, k}
				}
			}
		} else {
			return bad, steps // the rest of the behaviour runs from a state the specification does not predict
		}
	}
	// stragglers: frames written after the step that caused them was closed
	if d.slow {
		time.Sleep(10 * time.Millisecond)
	} else {
		time.Sleep(500 * time.Microsecond)
	}
	if late := d.conn.Take(); len(late) > 0 {
		d.readLeases()
		got, _ := d.collect(late)
		if len(got.Reply)+len(got.Forged) > 0 || got.Storm {
			bad++
			w.write(mismatch{I: i, Step: len(b.Steps), Aspect: "late", What: "frames written after the last step was observed", Got: got})
		}
	}
	return bad, steps
}

func cmdModes(args []string) (map[string]interface{}, error) {
	fs := flag.NewFlagSet("modes", flag.ExitOnError)
	in := fs.String("in", "", "behaviours (ndjson, one {init, steps} per line)")
	out := fs.String("out", "", "results (ndjson): one line per difference")
	dir := fs.String("dir", "", "scratch directory (lease file)")
	cfg := fs.Int("cfg", 3, "network configuration: 3 = home /24 + netfilter /25 (upper half), 4 = home /24 + netfilter /26 (middle)")
	slow := fs.Bool("slow", false, "wait 4 ms after every step (precise attribution of frames written by goroutines)")
	maxBad := fs.Int("maxbad", 40, "stop after this many differing behaviours")
	fs.Parse(args)
	if *dir == "" {
		return nil, fmt.Errorf("-dir is required")
	}
	dhcp.Logger.SetLevel(fastlog.LevelError)
	lines, err := readLines(*in)
	if err != nil {
		return nil, err
	}
	w, err := newNDWriter(*out)
	if err != nil {
		return nil, err
	}
	d := &mdriver{file: filepath.Join(*dir, "x08-leases.yaml"), slow: *slow}
	switch *cfg {
	case 3:
		d.nw, d.base = vh.DhcpNets[3], 0
	case 4:
		d.nw, d.base = vh.DhcpNets[4], 128
	default:
		return nil, fmt.Errorf("unsupported network configuration %d", *cfg)
	}
	sites, siteEx := map[string]int{}, map[string][2]int{}
	behaviours, steps, badB, skipped := 0, 0, 0, 0
	for i, ln := range lines {
		var b behaviour
		if err := json.Unmarshal(ln, &b); err != nil {
			return nil, fmt.Errorf("behaviour %d: %v", i, err)
		}
		if badB >= *maxBad {
			skipped++
			continue
		}
		behaviours++
		nb, ns := d.run(i, b, w, sites, siteEx)
		steps += ns
		if nb > 0 {
			badB++
		}
	}
	if d.h != nil {
		d.h.Close()
	}
	if err := w.close(); err != nil {
		return nil, err
	}
	return map[string]interface{}{"behaviours": behaviours, "steps": steps, "differ": badB, "skipped": skipped,
		"frames": d.frames, "storm_frames": d.stormN, "forged_frames": d.forgedN, "non_dhcp_frames": d.nonDHCP,
		"sites": sites, "site_examples": siteEx, "net": d.nw.Name, "drift_forged_to": drifts}, nil
}
