package main

// X04: spec/ExtraVec.tla vectors executed on packet.FindManufacturer and packet.CopyIP / CopyMAC / CopyBytes.

import (
	"encoding/json"
	"flag"
	"fmt"
	"net"

	"github.com/irai/packet"
)

type xvec struct {
	K   string `json:"k"`
	F   string `json:"f"`
	MAC []int  `json:"mac"`
	Src []int  `json:"src"`
	Exp struct {
		Vendor int   `json:"vendor"`
		Bytes  []int `json:"bytes"`
	} `json:"exp"`
}

func toBytes(v []int, nilIfEmpty bool) []byte {
	if len(v) == 0 && nilIfEmpty {
		return nil
	}
	b := make([]byte, len(v))
	for i, x := range v {
		b[i] = byte(x)
	}
	return b
}

func sameBytes(b []byte, v []int) bool {
	if len(b) != len(v) {
		return false
	}
	for i := range b {
		if int(b[i]) != v[i] {
			return false
		}
	}
	return true
}

func runVec(i int, v xvec, names map[int]string) (aspect, what string) {
	defer func() {
		if r := recover(); r != nil {
			aspect, what = "panic", fmt.Sprint(r)
		}
	}()
	switch v.K {
	case "oui":
		want := ""
		if v.Exp.Vendor >= 0 {
			n, ok := names[v.Exp.Vendor]
			if !ok {
				return "driver", fmt.Sprintf("no name for line %d", v.Exp.Vendor)
			}
			want = n
		}
		mac := net.HardwareAddr(toBytes(v.MAC, i%2 == 0))
		keep := append([]byte{}, mac...)
		got := packet.FindManufacturer(mac)
		if got != want {
			return "vendor", fmt.Sprintf("FindManufacturer(%v) = %q, want %q", []byte(mac), got, want)
		}
		if string(keep) != string(mac) {
			return "modified", "FindManufacturer modified its argument"
		}
	case "copy":
		src := toBytes(v.Src, i%2 == 0)
		var dst []byte
		switch v.F {
		case "ip":
			dst = packet.CopyIP(net.IP(src))
		case "mac":
			dst = packet.CopyMAC(net.HardwareAddr(src))
		case "bytes":
			dst = packet.CopyBytes(src)
		}
		if !sameBytes(dst, v.Exp.Bytes) {
			return "bytes", fmt.Sprintf("Copy%s(%v) = %v, want %v", v.F, src, dst, v.Exp.Bytes)
		}
		// independence in both directions
		for j := range src {
			src[j] ^= 0xff
		}
		if !sameBytes(dst, v.Exp.Bytes) {
			return "alias", fmt.Sprintf("Copy%s: the result changes with the source (%d bytes)", v.F, len(src))
		}
		for j := range dst {
			dst[j] ^= 0x55
		}
		for j := range src {
			if int(src[j]^0xff) != v.Src[j] {
				return "alias", fmt.Sprintf("Copy%s: the source changes with the result (%d bytes)", v.F, len(src))
			}
		}
	default:
		return "driver", "unknown family " + v.K
	}
	return "", ""
}

func cmdVec(args []string) (map[string]interface{}, error) {
	fs := flag.NewFlagSet("vec", flag.ExitOnError)
	in := fs.String("in", "", "vectors (ndjson)")
	table := fs.String("table", "", "vendor names by line number (ndjson {i, name})")
	out := fs.String("out", "", "results (ndjson): failing vectors only")
	fs.Parse(args)
	names := map[int]string{}
	if *table != "" {
		lines, err := readLines(*table)
		if err != nil {
			return nil, err
		}
		for _, ln := range lines {
			var e struct {
				I    int    `json:"i"`
				Name string `json:"name"`
			}
			if err := json.Unmarshal(ln, &e); err != nil {
				return nil, err
			}
			names[e.I] = e.Name
		}
	}
	lines, err := readLines(*in)
	if err != nil {
		return nil, err
	}
	w, err := newNDWriter(*out)
	if err != nil {
		return nil, err
	}
	bad, vendors := 0, 0
	fam := map[string]int{}
	for i, ln := range lines {
		var v xvec
		if err := json.Unmarshal(ln, &v); err != nil {
			return nil, fmt.Errorf("vector %d: %v", i, err)
		}
		fam[v.K]++
		if v.K == "oui" && v.Exp.Vendor >= 0 {
			vendors++
		}
		asp, what := runVec(i, v, names)
		if asp == "driver" {
			return nil, fmt.Errorf("vector %d: %s", i, what)
		}
		if asp != "" {
			bad++
			w.write(map[string]interface{}{"i": i, "aspect": asp, "what": what})
		}
	}
	if err := w.close(); err != nil {
		return nil, err
	}
	return map[string]interface{}{"vectors": len(lines), "differ": bad, "families": fam, "with_vendor": vendors}, nil
}
