package main

// X03: spec/Lifecycle.tla (behaviours of LifecycleMC, configuration vectors) executed on real packet.Session values.
//
// A behaviour is a sequence of API calls on one session built over the repository's in-memory pipe ("mem") or over the
// harness' well-behaved recording connection ("rec").  Calls run under recover; a behaviour for which the specification
// predicts a process crash (or any behaviour, with -isolate) runs in a child process (`extradrv lifeworker`) under a watchdog.

import (
	"bufio"
	"encoding/binary"
	"encoding/json"
	"errors"
	"flag"
	"fmt"
	"net"
	"net/netip"
	"os"
	"os/exec"
	"runtime"
	"sort"
	"strings"
	"sync"
	"time"

	"github.com/irai/packet"
	"verifharness/vh"
)

type lcNote struct {
	H  string `json:"h"`
	On bool   `json:"on"`
}
type lcOut struct {
	Res   string   `json:"res"`
	Err   string   `json:"err"`
	Host  string   `json:"host"`
	Flag  bool     `json:"flag"`
	Notes []lcNote `json:"notes"`
	Wire  []string `json:"wire"`
	Msg   string   `json:"msg,omitempty"`
}
type lcStep struct {
	A   string   `json:"a"`
	X   string   `json:"x"`
	Exp lcOut    `json:"exp"`
	Kf  []string `json:"kf"`
}
type lcBeh struct {
	Conn  string   `json:"conn"`
	Steps []lcStep `json:"steps"`
}

type lcRead struct {
	n   int
	err error
}

type lcEnv struct {
	u    *vh.Universe
	s    *packet.Session
	kind string
	peer net.PacketConn
	rec  *vh.RecConn
	mu   sync.Mutex
	wire []string
	rd   chan lcRead
	// the purge pass stopped at the scheduling gate "purge.offline" (worker processes only: the gate is a package variable)
	reached chan struct{}
	release chan struct{}
	pdone   chan [2]string
	h1mac   net.HardwareAddr
	h1ip    netip.Addr
}

func (e *lcEnv) ipName(ip netip.Addr) string {
	switch ip {
	case e.h1ip:
		return "h1"
	case e.u.Cfg.RouterIP:
		return "router"
	case e.u.Cfg.HostIP:
		return "own"
	}
	return ip.String()
}

func (e *lcEnv) classify(b []byte) string {
	if len(b) < 14 {
		return fmt.Sprintf("short:%d", len(b))
	}
	et := binary.BigEndian.Uint16(b[12:14])
	switch {
	case et == 0x0806 && len(b) >= 14+28:
		op := binary.BigEndian.Uint16(b[20:22])
		tpa, _ := netip.AddrFromSlice(b[38:42])
		if op == 1 {
			return "arp:" + e.ipName(tpa)
		}
		return fmt.Sprintf("arpop%d:%s", op, e.ipName(tpa))
	case et == 0x0800 && len(b) >= 14+20+8:
		ihl := int(b[14]&0x0f) * 4
		dst, _ := netip.AddrFromSlice(b[30:34])
		if b[23] == 1 && len(b) >= 14+ihl+8 && b[14+ihl] == 8 {
			return "echo4:" + e.ipName(dst)
		}
		return fmt.Sprintf("ip4proto%d:%s", b[23], e.ipName(dst))
	}
	return fmt.Sprintf("ether:%04x", et)
}

func newEnv(kind string) (*lcEnv, error) {
	e := &lcEnv{u: &vh.Universe{Cfg: vh.Configs[0]}, kind: kind}
	e.h1mac = e.u.MAC("m1")
	e.h1ip = e.u.IP("a1")
	var conn net.PacketConn
	switch kind {
	case "mem":
		a, b := packet.TestNewBufferedConn()
		conn, e.peer = a, b
		go func() { // everything the session writes
			buf := make([]byte, 2048)
			for {
				n, _, err := b.ReadFrom(buf[:cap(buf)])
				if err != nil || n == 0 {
					return
				}
				k := e.classify(buf[:n])
				e.mu.Lock()
				e.wire = append(e.wire, k)
				e.mu.Unlock()
			}
		}()
	case "rec":
		e.rec = vh.NewRecConn()
		conn = e.rec
	default:
		return nil, fmt.Errorf("unknown connection kind %q", kind)
	}
	s, err := packet.Config{Conn: conn, NICInfo: e.u.NICInfo()}.NewSession("")
	if err != nil {
		return nil, err
	}
	e.s = s
	return e, nil
}

// takeWire waits until at least n frames were written by the session (n = 0: no wait) and returns them sorted.
func (e *lcEnv) takeWire(n int) []string {
	deadline := time.Now().Add(longWait)
	for {
		var out []string
		if e.kind == "rec" {
			if e.rec.Len() >= n || time.Now().After(deadline) {
				for _, f := range e.rec.Take() {
					out = append(out, e.classify(f))
				}
				sort.Strings(out)
				return out
			}
		} else {
			e.mu.Lock()
			if len(e.wire) >= n || time.Now().After(deadline) {
				out = e.wire
				e.wire = nil
				e.mu.Unlock()
				sort.Strings(out)
				return out
			}
			e.mu.Unlock()
		}
		time.Sleep(200 * time.Microsecond)
	}
}

func hostState(h *packet.Host) string {
	if h == nil {
		return "absent"
	}
	if h.Online {
		return "online"
	}
	return "offline"
}

func (e *lcEnv) addr(x string) packet.Addr {
	if x == "router" {
		return packet.Addr{MAC: append(net.HardwareAddr{}, vh.RouterMAC...), IP: e.u.Cfg.RouterIP}
	}
	return packet.Addr{MAC: append(net.HardwareAddr{}, e.h1mac...), IP: e.h1ip}
}

// guarded runs f under recover; it runs in its own goroutine so that a call that never returns is seen as "hang".
func guarded(f func()) (res string, msg string) {
	done := make(chan struct{})
	go func() {
		defer close(done)
		defer func() {
			if r := recover(); r != nil {
				res, msg = "panic", fmt.Sprint(r)
			}
		}()
		f()
	}()
	select {
	case <-done:
		if res == "" {
			res = "ok"
		}
		return
	case <-time.After(longWait):
		return "hang", ""
	}
}

func (e *lcEnv) step(st lcStep) lcOut {
	o := lcOut{Res: "ok", Notes: []lcNote{}, Wire: []string{}}
	s := e.s
	expectWire := len(st.Exp.Wire)
	switch st.A {
	case "parse", "pnotify":
		a := e.addr("h1")
		fr := vh.FrameIP4UDP(a.MAC, vh.RouterMAC, a.IP, e.u.Cfg.RouterIP, 5000, 53, []byte("x03"))
		o.Res, o.Msg = guarded(func() {
			f, err := s.Parse(fr)
			if err != nil {
				o.Err = "parse:" + err.Error()
				return
			}
			o.Host = hostState(f.Host)
			if st.A == "pnotify" {
				s.Notify(f)
			}
		})
		if o.Res == "panic" {
			o.Host = ""
		}
	case "drain":
	loop:
		for {
			select {
			case n, ok := <-s.C:
				if !ok {
					o.Flag = true
					break loop
				}
				o.Notes = append(o.Notes, lcNote{H: e.ipName(n.Addr.IP), On: n.Online})
			default:
				break loop
			}
		}
	case "findip":
		o.Res, o.Msg = guarded(func() { o.Host = hostState(s.FindIP(e.addr(st.X).IP)) })
	case "iscaptured":
		o.Res, o.Msg = guarded(func() { o.Flag = s.IsCaptured(e.addr("h1").MAC) })
	case "capture":
		o.Res, o.Msg = guarded(func() {
			err := s.Capture(e.addr(st.X).MAC)
			switch {
			case err == nil:
			case errors.Is(err, packet.ErrIsRouter):
				o.Err = "isrouter"
			default:
				o.Err = "other:" + err.Error()
			}
		})
	case "ping":
		o.Res, o.Msg = guarded(func() {
			err := s.Ping(e.addr("h1"), 5*time.Millisecond)
			switch {
			case err == nil:
			case errors.Is(err, packet.ErrTimeout):
				o.Err = "timeout"
			default:
				o.Err = "other:" + err.Error()
			}
		})
	case "purge":
		o.Res, o.Msg = guarded(func() { s.VerifPurge(time.Now().Add(2 * time.Hour)) })
	case "purgestart":
		e.reached, e.release, e.pdone = make(chan struct{}), make(chan struct{}), make(chan [2]string, 1)
		armed := true
		reached, release := e.reached, e.release
		packet.VerifGate = func(name string) {
			if name == "purge.offline" && armed {
				armed = false
				close(reached)
				<-release
			}
		}
		go func(done chan [2]string) {
			res, msg := "ok", ""
			defer func() {
				if r := recover(); r != nil {
					res, msg = "panic", fmt.Sprint(r)
				}
				done <- [2]string{res, msg}
			}()
			s.VerifPurge(time.Now().Add(2 * time.Hour))
		}(e.pdone)
		select {
		case <-e.reached:
		case r := <-e.pdone:
			o.Res, o.Msg = "ended:"+r[0], r[1]
		case <-time.After(longWait):
			o.Res = "hang"
		}
	case "purgeend":
		if e.release == nil {
			o.Res, o.Msg = "driver", "purgeend without purgestart"
			break
		}
		close(e.release)
		e.release = nil
		select {
		case r := <-e.pdone:
			o.Res, o.Msg = r[0], r[1]
		case <-time.After(longWait):
			o.Res = "hang"
		}
	case "readblock":
		e.rd = make(chan lcRead, 1)
		go func(ch chan lcRead) {
			buf := make([]byte, 2048)
			n, _, err := s.ReadFrom(buf)
			ch <- lcRead{n, err}
		}(e.rd)
		wait := graceWait
		if st.Exp.Res != "blocked" {
			wait = longWait
		}
		select {
		case r := <-e.rd:
			e.rd = nil
			o.Err = readErr(r)
		case <-time.After(wait):
			o.Res = "blocked"
		}
	case "close":
		o.Res, o.Msg = guarded(func() { s.Close() })
		if e.rd != nil {
			wait := time.Duration(0)
			if st.Exp.Flag {
				wait = longWait
			}
			select {
			case r := <-e.rd:
				e.rd = nil
				o.Flag = true
				o.Err = readErr(r)
			case <-time.After(wait):
			}
		}
	default:
		o.Res, o.Msg = "driver", "unknown call "+st.A
	}
	if w := e.takeWire(expectWire); len(w) > 0 {
		o.Wire = w
	}
	return o
}

func readErr(r lcRead) string {
	switch {
	case r.err == nil:
		return fmt.Sprintf("returned:%d", r.n)
	case errors.Is(r.err, packet.ErrHandlerClosed):
		return "closed"
	}
	return "other:" + r.err.Error()
}

// lcSame: notifications are compared per host (the order between hosts inside one purge pass is the map's), frames as a multiset
func lcSame(exp, act lcOut) bool {
	// a call that dies: only the fact is compared.  "crash" (the library's own goroutine panics: the process is gone) may
	// show as a recovered panic of the caller when the process ends before that goroutine ran.
	if exp.Res == "panic" || exp.Res == "crash" {
		return act.Res == exp.Res || (exp.Res == "crash" && act.Res == "panic")
	}
	if exp.Res != act.Res || exp.Err != act.Err || exp.Host != act.Host || exp.Flag != act.Flag ||
		len(exp.Notes) != len(act.Notes) || len(exp.Wire) != len(act.Wire) {
		return false
	}
	for _, h := range []string{"h1", "router"} {
		var a, b []bool
		for _, n := range exp.Notes {
			if n.H == h {
				a = append(a, n.On)
			}
		}
		for _, n := range act.Notes {
			if n.H == h {
				b = append(b, n.On)
			}
		}
		if len(a) != len(b) {
			return false
		}
		for i := range a {
			if a[i] != b[i] {
				return false
			}
		}
	}
	ew := append([]string{}, exp.Wire...)
	sort.Strings(ew)
	for i := range ew {
		if ew[i] != act.Wire[i] {
			return false
		}
	}
	return true
}

// execLife runs the behaviour in this process; emit receives every actual outcome as it is known.
func execLife(b lcBeh, emit func(k int, o lcOut)) (int, *lcOut, error) {
	e, err := newEnv(b.Conn)
	if err != nil {
		return 0, nil, err
	}
	closed := false
	defer func() {
		if !closed {
			go func() {
				defer func() { recover() }()
				e.s.Close()
			}()
		}
	}()
	for k, st := range b.Steps {
		o := e.step(st)
		if st.A == "close" && o.Res == "ok" {
			closed = true
		}
		if emit != nil {
			emit(k, o)
		}
		if !lcSame(st.Exp, o) {
			return k, &o, nil
		}
	}
	// whatever is still blocked must still be blocked
	if e.rd != nil {
		time.Sleep(graceWait)
		select {
		case r := <-e.rd:
			o := lcOut{Res: "ok", Err: "spurious-read-return:" + readErr(r), Notes: []lcNote{}, Wire: []string{}}
			return len(b.Steps) - 1, &o, nil
		default:
		}
	}
	return -1, nil, nil
}

// runIsolated executes the behaviour in a child process. The child prints one line per completed step.
func runIsolated(b lcBeh) (int, *lcOut, int, error) {
	js, _ := json.Marshal(b)
	cmd := exec.Command(os.Args[0], "lifeworker", "-beh", string(js))
	stdout, err := cmd.StdoutPipe()
	if err != nil {
		return 0, nil, 0, err
	}
	var stderr strings.Builder
	cmd.Stderr = &stderr
	if err := cmd.Start(); err != nil {
		return 0, nil, 0, err
	}
	timer := time.AfterFunc(60*time.Second, func() { cmd.Process.Kill() })
	defer timer.Stop()
	sc := bufio.NewScanner(stdout)
	sc.Buffer(make([]byte, 1<<16), 1<<22)
	last := -1
	leak := 0
	done := false
	var diffK = -1
	var diff *lcOut
	for sc.Scan() {
		var rec struct {
			K    int    `json:"k"`
			Out  *lcOut `json:"out"`
			Done bool   `json:"done"`
			Leak int    `json:"leak"`
		}
		if json.Unmarshal(sc.Bytes(), &rec) != nil {
			continue
		}
		if rec.Done {
			done, leak = true, rec.Leak
			continue
		}
		if rec.Out == nil {
			continue
		}
		last = rec.K
		if diffK < 0 && rec.K < len(b.Steps) && !lcSame(b.Steps[rec.K].Exp, *rec.Out) {
			diffK, diff = rec.K, rec.Out
		}
	}
	werr := cmd.Wait()
	if diffK >= 0 {
		return diffK, diff, leak, nil
	}
	if !done {
		// the process died inside step last+1
		k := last + 1
		if k >= len(b.Steps) {
			k = len(b.Steps) - 1
		}
		res := "crash"
		if werr != nil && strings.Contains(werr.Error(), "killed") {
			res = "hang"
		}
		tail := stderr.String()
		if i := strings.Index(tail, "panic:"); i >= 0 {
			tail = tail[i:]
		} else if i := strings.Index(tail, "fatal error:"); i >= 0 {
			tail = tail[i:]
		}
		if len(tail) > 300 {
			tail = tail[:300]
		}
		o := lcOut{Res: res, Notes: []lcNote{}, Wire: []string{}, Msg: tail}
		if !lcSame(b.Steps[k].Exp, o) {
			return k, &o, 0, nil
		}
		return -1, nil, 0, nil
	}
	return -1, nil, leak, nil
}

func cmdLifeWorker(args []string) (map[string]interface{}, error) {
	fs := flag.NewFlagSet("lifeworker", flag.ExitOnError)
	beh := fs.String("beh", "", "one behaviour (JSON)")
	fs.Parse(args)
	var b lcBeh
	if err := json.Unmarshal([]byte(*beh), &b); err != nil {
		return nil, err
	}
	base := runtime.NumGoroutine()
	w := bufio.NewWriter(realStdout)
	closed, blocked := false, false
	k, _, err := execLifeTracked(b, func(k int, o lcOut) {
		js, _ := json.Marshal(map[string]interface{}{"k": k, "out": o})
		w.Write(js)
		w.WriteByte('\n')
		w.Flush()
	}, &closed, &blocked)
	if err != nil {
		return nil, err
	}
	leak := 0
	if closed && k < 0 {
		// Close has returned (it sleeps a second for its goroutines): nothing of the session may be left but a blocked ReadFrom
		time.Sleep(50 * time.Millisecond)
		extra := 0
		if blocked {
			extra = 1
		}
		leak = runtime.NumGoroutine() - base - extra
	}
	js, _ := json.Marshal(map[string]interface{}{"done": true, "leak": leak})
	w.Write(js)
	w.WriteByte('\n')
	w.Flush()
	return map[string]interface{}{"worker": true}, nil
}

// execLifeTracked is execLife plus what the goroutine accounting of the worker needs.
func execLifeTracked(b lcBeh, emit func(int, lcOut), closed, blocked *bool) (int, *lcOut, error) {
	e, err := newEnv(b.Conn)
	if err != nil {
		return 0, nil, err
	}
	for k, st := range b.Steps {
		o := e.step(st)
		if st.A == "close" && o.Res == "ok" {
			*closed = true
		}
		emit(k, o)
		if !lcSame(st.Exp, o) {
			return k, &o, nil
		}
	}
	*blocked = e.rd != nil
	if e.release != nil { // a pass still waits at the gate: let it finish (it may panic on the closed channel: recovered there)
		close(e.release)
		e.release = nil
		select {
		case <-e.pdone:
		case <-time.After(longWait):
		}
	}
	if !*closed {
		go func() {
			defer func() { recover() }()
			e.s.Close()
		}()
	}
	return -1, nil, nil
}

// ---- (L1) configuration vectors

type cfgVec struct {
	Cfg   []int  `json:"cfg"`
	Res   string `json:"res"`
	Which string `json:"which"`
	Eff   []int  `json:"eff"`
}

func runCfg(v cfgVec) string {
	u := &vh.Universe{Cfg: vh.Configs[0]}
	a, _ := packet.TestNewBufferedConn()
	min := func(i int) time.Duration { return time.Duration(v.Cfg[i]) * time.Minute }
	var s *packet.Session
	var err error
	res, msg := guarded(func() {
		s, err = packet.Config{Conn: a, NICInfo: u.NICInfo(), ProbeDeadline: min(0), OfflineDeadline: min(1), PurgeDeadline: min(2)}.NewSession("")
	})
	if res != "ok" {
		return "NewSession " + res + ": " + msg
	}
	if err != nil {
		if v.Res != "err" {
			return "unexpected error: " + err.Error()
		}
		if s != nil {
			return "error with a non-nil session"
		}
		if !errors.Is(err, packet.ErrInvalidParam) {
			return "error is not ErrInvalidParam: " + err.Error()
		}
		if !strings.Contains(strings.ToLower(err.Error()), v.Which+"deadline") {
			return "error names the wrong deadline: " + err.Error() + " want " + v.Which
		}
		return ""
	}
	defer func() {
		go func() {
			defer func() { recover() }()
			s.Close()
		}()
	}()
	if v.Res != "ok" {
		return fmt.Sprintf("accepted (probe=%v offline=%v purge=%v), the rule rejects it (%s)", s.ProbeDeadline, s.OfflineDeadline, s.PurgeDeadline, v.Which)
	}
	eff := func(i int) time.Duration { return time.Duration(v.Eff[i]) * time.Minute }
	if s.ProbeDeadline != eff(0) || s.OfflineDeadline != eff(1) || s.PurgeDeadline != eff(2) {
		return fmt.Sprintf("effective deadlines %v %v %v, want %v %v %v", s.ProbeDeadline, s.OfflineDeadline, s.PurgeDeadline, eff(0), eff(1), eff(2))
	}
	if cap(s.C) != 128 || len(s.C) != 0 {
		return fmt.Sprintf("notification channel cap=%d len=%d", cap(s.C), len(s.C))
	}
	if len(s.HostTable.Table) != 2 || len(s.MACTable.Table) != 2 {
		return fmt.Sprintf("initial tables: %d hosts, %d MAC entries (want the NIC's own address and the router)", len(s.HostTable.Table), len(s.MACTable.Table))
	}
	own, rt := s.FindIP(u.Cfg.HostIP), s.FindIP(u.Cfg.RouterIP)
	switch {
	case own == nil || rt == nil:
		return "own or router host entry missing"
	case !own.Online || !own.MACEntry.Online || own.MACEntry.IP4 != u.Cfg.HostIP || own.MACEntry.IsRouter:
		return "own host entry: wrong flags"
	case !own.LastSeen.After(time.Now().Add(300 * 24 * time.Hour)):
		return "own host entry expires"
	case string(own.MACEntry.MAC) != string(vh.OwnMAC) || own.MACEntry.IP6LLA != vh.HostLLA:
		return "own MAC entry: wrong MAC or link local address"
	case !rt.Online || !rt.MACEntry.Online || !rt.MACEntry.IsRouter || rt.MACEntry.IP4 != u.Cfg.RouterIP:
		return "router host entry: wrong flags"
	case string(rt.MACEntry.MAC) != string(vh.RouterMAC):
		return "router MAC entry: wrong MAC"
	case rt.LastSeen.After(time.Now().Add(time.Minute)):
		return "router entry never expires"
	case len(s.Statistics) != 32:
		return "statistics table size"
	}
	return ""
}

func cmdLifecycle(args []string) (map[string]interface{}, error) {
	fs := flag.NewFlagSet("lifecycle", flag.ExitOnError)
	in := fs.String("in", "", "behaviours (ndjson: {conn, steps})")
	cfgs := fs.String("cfg", "", "configuration vectors (ndjson)")
	out := fs.String("out", "", "results (ndjson): differing behaviours / vectors only")
	par := fs.Int("par", 96, "sessions alive concurrently")
	isolate := fs.Int("isolate", 0, "besides the behaviours that must crash, run every k-th behaviour in a child process (1 = all)")
	fs.Parse(args)
	w, err := newNDWriter(*out)
	if err != nil {
		return nil, err
	}
	var mu sync.Mutex
	sum := map[string]interface{}{}
	if *cfgs != "" {
		lines, err := readLines(*cfgs)
		if err != nil {
			return nil, err
		}
		var wg sync.WaitGroup
		sem := make(chan struct{}, *par)
		bad := 0
		for i, ln := range lines {
			var v cfgVec
			if err := json.Unmarshal(ln, &v); err != nil {
				return nil, err
			}
			wg.Add(1)
			sem <- struct{}{}
			go func(i int, v cfgVec) {
				defer wg.Done()
				defer func() { <-sem }()
				if what := runCfg(v); what != "" {
					mu.Lock()
					bad++
					w.write(map[string]interface{}{"kind": "cfg", "i": i, "what": what})
					mu.Unlock()
				}
			}(i, v)
		}
		wg.Wait()
		sum["cfg_vectors"], sum["cfg_differ"] = len(lines), bad
	}
	if *in != "" {
		lines, err := readLines(*in)
		if err != nil {
			return nil, err
		}
		var wg sync.WaitGroup
		sem := make(chan struct{}, *par)
		isoSem := make(chan struct{}, 8)
		steps, differ, isolated, leaks := 0, 0, 0, 0
		var firstErr error
		for i, ln := range lines {
			var b lcBeh
			if err := json.Unmarshal(ln, &b); err != nil {
				return nil, fmt.Errorf("behaviour %d: %v", i, err)
			}
			iso := *isolate > 0 && i%*isolate == 0
			for _, st := range b.Steps {
				if st.Exp.Res == "crash" || st.A == "purgestart" {
					iso = true
				}
			}
			wg.Add(1)
			sem <- struct{}{}
			go func(i int, b lcBeh, iso bool) {
				defer wg.Done()
				defer func() { <-sem }()
				var k int
				var o *lcOut
				var err error
				leak := 0
				if iso {
					isoSem <- struct{}{}
					k, o, leak, err = runIsolated(b)
					<-isoSem
				} else {
					k, o, err = execLife(b, nil)
				}
				mu.Lock()
				defer mu.Unlock()
				if err != nil {
					if firstErr == nil {
						firstErr = err
					}
					return
				}
				steps += len(b.Steps)
				if iso {
					isolated++
				}
				if k >= 0 {
					differ++
					w.write(map[string]interface{}{"kind": "behaviour", "i": i, "step": k, "actual": o})
				} else if leak != 0 {
					leaks++
					w.write(map[string]interface{}{"kind": "leak", "i": i, "leak": leak})
				}
			}(i, b, iso)
		}
		wg.Wait()
		if firstErr != nil {
			return nil, firstErr
		}
		sum["behaviours"], sum["steps"], sum["differ"], sum["isolated"], sum["leaks"] = len(lines), steps, differ, isolated, leaks
	}
	if err := w.close(); err != nil {
		return nil, err
	}
	return sum, nil
}
