package main

// X01: spec/MemConn.tla executed on packet.TestNewBufferedConn().
//
// Timing rule (no verdict depends on a tight timing):
//   - an operation that is expected to complete is waited for `long` (10 s); only when it has not completed by then it
//     is recorded as "hang" / "blocked";
//   - an operation that is expected to block is looked at after `grace` and again at the end of the behaviour: a wrong
//     completion can only be missed by this, never invented.

import (
	"encoding/json"
	"flag"
	"fmt"
	"math/rand"
	"net"
	"sync"
	"sync/atomic"
	"time"

	"github.com/irai/packet"
)

const (
	fillByte     = 0xEE
	scribbleBase = 4000000
	noID         = -1
)

var (
	longWait  = 10 * time.Second
	graceWait = 15 * time.Millisecond
)

// content identity: bytes 0..2 carry the identity (base 200), 12..13 an EtherType that is not a VLAN tag,
// every other byte depends on identity and position; no data byte equals fillByte.
func patByte(id, j int) byte {
	switch j {
	case 0:
		return byte(id % 200)
	case 1:
		return byte(id / 200 % 200)
	case 2:
		return byte(id / 40000 % 200)
	case 12:
		return 0x08
	case 13:
		return 0x00
	}
	return byte((id*7 + j*13 + 3) % 200)
}

func pattern(id, n int) []byte {
	b := make([]byte, n)
	for j := range b {
		b[j] = patByte(id, j)
	}
	return b
}

func matches(id int, content []byte) bool {
	for j, x := range content {
		if x != patByte(id, j) {
			return false
		}
	}
	return true
}

// candidates returns the identities (datagram ids below maxID, or their scribble twins) whose pattern starts with content.
func candidates(content []byte, maxID int) []int {
	out := []int{}
	if len(content) == 0 {
		return out
	}
	if len(content) >= 3 {
		id := int(content[0]) + 200*int(content[1]) + 40000*int(content[2])
		if content[0] < 200 && content[1] < 200 && content[2] < 200 && matches(id, content) {
			out = append(out, id)
		}
		return out
	}
	for id := 0; id < maxID; id++ {
		if matches(id, content) {
			out = append(out, id)
		}
		if matches(id+scribbleBase, content) {
			out = append(out, id+scribbleBase)
		}
	}
	return out
}

// ---------------------------------------------------------------------------------------------
// raw operations on one pair of endpoints

type rawRead struct {
	n        int
	err      bool
	panicked string
	full     []byte // the whole capacity of the reader's buffer after the call
	l, c     int
}

func (r rawRead) content() []byte {
	n := r.n
	if n > r.c {
		n = r.c
	}
	if n < 0 {
		n = 0
	}
	return r.full[:n]
}

// tailOK: every byte of the buffer beyond the n returned bytes still holds the fill pattern
func (r rawRead) tailOK() bool {
	n := r.n
	if n < 0 {
		n = 0
	}
	for j := n; j < r.c; j++ {
		if r.full[j] != fillByte {
			return false
		}
	}
	return true
}

type pending struct {
	done     chan struct{}
	results  []rawRead
	progress int32
	l, c     int
}

func (p *pending) finished() bool {
	select {
	case <-p.done:
		return true
	default:
		return false
	}
}

type loopRun struct {
	done chan struct{}
	st   string // "ret" | "panic" (valid after done)
	msg  string
}

type pair struct {
	conn [2]net.PacketConn
	ops  [2]chan func()
	pend [2]*pending
	loop [2]*loopRun
	dead bool // a worker hung: the pair is abandoned
}

func newPair() *pair {
	a, b := packet.TestNewBufferedConn()
	p := &pair{}
	p.conn[0], p.conn[1] = a, b
	for i := 0; i < 2; i++ {
		ch := make(chan func())
		p.ops[i] = ch
		go func() {
			for f := range ch {
				f()
			}
		}()
	}
	return p
}

func (p *pair) release() {
	for i := 0; i < 2; i++ {
		if !p.dead {
			close(p.ops[i])
		}
	}
	// release blocked readers where the code allows it (best effort, recovered): close both ends
	for i := 0; i < 2; i++ {
		func() {
			defer func() { recover() }()
			p.conn[i].Close()
		}()
	}
}

// run executes f on the worker goroutine of endpoint e; false if it did not complete within longWait.
func (p *pair) run(e int, f func()) bool {
	if p.dead {
		return false
	}
	done := make(chan struct{})
	select {
	case p.ops[e] <- func() { f(); close(done) }:
	case <-time.After(longWait):
		p.dead = true
		return false
	}
	select {
	case <-done:
		return true
	case <-time.After(longWait):
		p.dead = true
		return false
	}
}

type rawWrite struct {
	res string // ok | panic | err
	n   int
	msg string
}

// writeOne performs one WriteTo with fresh content and then overwrites the caller's buffer (copy semantics).
func writeOne(c net.PacketConn, id, n int) (w rawWrite) {
	buf := pattern(id, n)
	func() {
		defer func() {
			if r := recover(); r != nil {
				w.res, w.msg = "panic", fmt.Sprint(r)
			}
		}()
		rn, err := c.WriteTo(buf, nil)
		w.n = rn
		w.res = "ok"
		if err != nil {
			w.res, w.msg = "err", err.Error()
		}
	}()
	copy(buf, pattern(id+scribbleBase, n))
	return w
}

func readOne(c net.PacketConn, l, cp int) (r rawRead) {
	r.full = make([]byte, cp)
	for j := range r.full {
		r.full[j] = fillByte
	}
	r.l, r.c = l, cp
	b := r.full[:l]
	func() {
		defer func() {
			if x := recover(); x != nil {
				r.panicked = fmt.Sprint(x)
			}
		}()
		n, _, err := c.ReadFrom(b)
		r.n, r.err = n, err != nil
	}()
	return r
}

// startReads starts `count` consecutive ReadFrom calls with fresh (l, cp) buffers on endpoint e in a goroutine.
func (p *pair) startReads(e, l, cp, count int) *pending {
	pd := &pending{done: make(chan struct{}), results: make([]rawRead, count), l: l, c: cp}
	c := p.conn[e]
	go func() {
		for j := 0; j < count; j++ {
			pd.results[j] = readOne(c, l, cp)
			atomic.AddInt32(&pd.progress, 1)
		}
		close(pd.done)
	}()
	p.pend[e] = pd
	return pd
}

func (p *pair) startLoop(e int) *loopRun {
	lr := &loopRun{done: make(chan struct{})}
	c := p.conn[e]
	go func() {
		defer close(lr.done)
		defer func() {
			if x := recover(); x != nil {
				lr.st, lr.msg = "panic", fmt.Sprint(x)
			}
		}()
		packet.TestReadAndDiscardLoop(c)
		lr.st = "ret"
	}()
	p.loop[e] = lr
	return lr
}

func closeOne(c net.PacketConn) (res string, msg string) {
	defer func() {
		if r := recover(); r != nil {
			res, msg = "panic", fmt.Sprint(r)
		}
	}()
	if err := c.Close(); err != nil {
		return "err", err.Error()
	}
	return "ok", ""
}

func waitDone(ch chan struct{}, d time.Duration) bool {
	select {
	case <-ch:
		return true
	case <-time.After(d):
		return false
	}
}

// ---------------------------------------------------------------------------------------------
// direction A: behaviours generated by TLC (MemConnMC), executed at block scale

type wakeRec struct {
	E    string `json:"e"`
	N    int    `json:"n"`
	ID   int    `json:"id"`
	Over bool   `json:"over"`
}
type loopRec struct {
	E  string `json:"e"`
	St string `json:"st"`
}
type outcome struct {
	Res  string    `json:"res"`
	N    int       `json:"n"`
	ID   int       `json:"id"`
	Over bool      `json:"over"`
	Wake []wakeRec `json:"wake"`
	Loop []loopRec `json:"loop"`
	Note string    `json:"note,omitempty"` // what has no counterpart in a conforming outcome: alias, content, order, tail, err, mixed, hang, spurious
}
type mstep struct {
	A   string   `json:"a"`
	E   string   `json:"e"`
	N   int      `json:"n"`
	ID  int      `json:"id"`
	Len int      `json:"len"`
	Cap int      `json:"cap"`
	Kf  []string `json:"kf"`
	Exp outcome  `json:"exp"`
}

func endIdx(e string) int {
	if e == "b" {
		return 1
	}
	return 0
}
func endName(i int) string { return [2]string{"a", "b"}[i] }

func sameOutcome(a, b outcome) bool {
	if a.Res != b.Res || a.N != b.N || a.ID != b.ID || a.Over != b.Over || a.Note != b.Note ||
		len(a.Wake) != len(b.Wake) || len(a.Loop) != len(b.Loop) {
		return false
	}
	for i := range a.Wake {
		if a.Wake[i] != b.Wake[i] {
			return false
		}
	}
	for i := range a.Loop {
		if a.Loop[i] != b.Loop[i] {
			return false
		}
	}
	return true
}

// normRead maps the raw results of a block of reads to model terms. expID: the model identity the block must carry
// (noID if the model expects n = 0); scale: block size.
func normRead(rs []rawRead, expID, scale int) (n, id int, over bool, note string) {
	id = noID
	for j, r := range rs {
		var jn, jid int
		var jover bool
		jnote := ""
		jid = noID
		jn = r.n
		jover = r.n > r.l
		if r.panicked != "" {
			jnote = "panic:" + r.panicked
		} else if r.err {
			jnote = "err"
		} else if !r.tailOK() {
			jnote = "tail"
		} else if r.n > r.c || r.n < 0 {
			jnote = "count"
		} else if r.n > 0 {
			c := r.content()
			if expID != noID && matches(expID*scale+j, c) {
				jid = expID
			} else {
				cand := candidates(c, 1<<20)
				switch {
				case len(cand) == 0:
					jid, jnote = -2, "content"
				case cand[0] >= scribbleBase:
					jid, jnote = (cand[0]-scribbleBase)/scale, "alias"
				default:
					jid, jnote = cand[0]/scale, "order"
				}
			}
		}
		if j == 0 {
			n, id, over, note = jn, jid, jover, jnote
			continue
		}
		if jn != n || jid != id || jover != over || jnote != note {
			return jn, jid, jover, fmt.Sprintf("mixed(sub-read %d of the block differs: %s)", j, jnote)
		}
	}
	return
}

// execBehaviour runs one TLC behaviour; returns the index of the first step whose outcome differs (-1: none) and the
// actual outcome of that step.
func execBehaviour(steps []mstep, scale int) (int, outcome, map[string]int) {
	p := newPair()
	defer p.release()
	kf := map[string]int{}
	pendExp := [2]int{noID, noID} // not used for identity: identity comes with the wake record
	_ = pendExp
	for k, st := range steps {
		e := endIdx(st.E)
		exp := st.Exp
		act := outcome{Res: "ok", ID: noID, Wake: []wakeRec{}, Loop: []loopRec{}}
		switch st.A {
		case "write":
			outs := make([]rawWrite, scale)
			ok := p.run(e, func() {
				for j := 0; j < scale; j++ {
					outs[j] = writeOne(p.conn[e], st.ID*scale+j, st.N)
				}
			})
			if !ok {
				act.Res, act.Note = "hang", "hang"
				return k, act, kf
			}
			act.Res, act.N = outs[0].res, outs[0].n
			for j := range outs {
				if outs[j].res != act.Res || outs[j].n != act.N {
					act.Note = fmt.Sprintf("mixed(sub-write %d of the block: %s n=%d)", j, outs[j].res, outs[j].n)
					break
				}
			}
		case "read":
			pd := p.startReads(e, st.Len, st.Cap, scale)
			if exp.Res == "blocked" {
				time.Sleep(graceWait)
				if atomic.LoadInt32(&pd.progress) == 0 {
					act.Res = "blocked"
				} else {
					// completed although the model says it blocks: wait for the block and report what it read
					waitDone(pd.done, longWait)
				}
			} else if !waitDone(pd.done, longWait) {
				if atomic.LoadInt32(&pd.progress) == 0 {
					act.Res = "blocked"
				} else {
					act.Res, act.Note = "blocked", fmt.Sprintf("mixed(%d of %d reads of the block completed)", pd.progress, scale)
				}
				p.pend[e] = nil // abandoned
				return k, act, kf
			}
			if act.Res != "blocked" {
				act.N, act.ID, act.Over, act.Note = normRead(pd.results, exp.ID, scale)
				p.pend[e] = nil
			}
		case "close":
			var res string
			ok := p.run(e, func() { res, _ = closeOne(p.conn[e]) })
			if !ok {
				act.Res, act.Note = "hang", "hang"
				return k, act, kf
			}
			act.Res = res
		case "loop":
			p.startLoop(e)
		}
		// completions triggered by this step: expected ones are waited for, others are polled
		for i := 0; i < 2; i++ {
			if pd := p.pend[i]; pd != nil && !(st.A == "read" && i == e) {
				expected := len(exp.Wake) > 0 && exp.Wake[0].E == endName(i)
				if expected {
					waitDone(pd.done, longWait)
				}
				if pd.finished() {
					expID := noID
					if expected {
						expID = exp.Wake[0].ID
					}
					n, id, over, note := normRead(pd.results, expID, scale)
					act.Wake = append(act.Wake, wakeRec{E: endName(i), N: n, ID: id, Over: over})
					if note != "" {
						act.Note = note
					}
					p.pend[i] = nil
				} else if atomic.LoadInt32(&pd.progress) != 0 {
					act.Note = fmt.Sprintf("mixed(%d of %d reads of the blocked block completed)", pd.progress, scale)
				}
			}
			if lr := p.loop[i]; lr != nil {
				expected := len(exp.Loop) > 0 && exp.Loop[0].E == endName(i)
				if expected {
					waitDone(lr.done, longWait)
				}
				select {
				case <-lr.done:
					act.Loop = append(act.Loop, loopRec{E: endName(i), St: lr.st})
					p.loop[i] = nil
				default:
				}
			}
		}
		if !sameOutcome(act, exp) {
			return k, act, kf
		}
		for _, x := range st.Kf {
			kf[x]++
		}
	}
	// end of behaviour: whatever the model leaves blocked must still be blocked after a grace period
	if p.pend[0] != nil || p.pend[1] != nil || p.loop[0] != nil || p.loop[1] != nil {
		time.Sleep(graceWait)
		for i := 0; i < 2; i++ {
			if pd := p.pend[i]; pd != nil && atomic.LoadInt32(&pd.progress) != 0 {
				waitDone(pd.done, longWait)
				n, id, over, _ := normRead(pd.results[:atomic.LoadInt32(&pd.progress)], noID, scale)
				return len(steps) - 1, outcome{Res: "ok", ID: noID, Note: "spurious", Wake: []wakeRec{{E: endName(i), N: n, ID: id, Over: over}}, Loop: []loopRec{}}, kf
			}
			if lr := p.loop[i]; lr != nil {
				select {
				case <-lr.done:
					return len(steps) - 1, outcome{Res: "ok", ID: noID, Note: "spurious", Wake: []wakeRec{}, Loop: []loopRec{{E: endName(i), St: lr.st}}}, kf
				default:
				}
			}
		}
	}
	return -1, outcome{}, kf
}

type behResult struct {
	I      int      `json:"i"`
	Step   int      `json:"step"`
	Actual *outcome `json:"actual,omitempty"`
}

func cmdMemConn(args []string) (map[string]interface{}, error) {
	fs := flag.NewFlagSet("memconn", flag.ExitOnError)
	in := fs.String("in", "", "behaviours (ndjson, one list of steps per line)")
	out := fs.String("out", "", "results (ndjson, only behaviours with a differing step)")
	scale := fs.Int("scale", 256, "block size: real datagrams per model datagram (512 / Cap)")
	par := fs.Int("par", 6, "behaviours executed concurrently")
	maxDiff := fs.Int("maxdiff", 6, "stop starting new behaviours once this many differ (each hang costs the long wait)")
	fs.Parse(args)
	lines, err := readLines(*in)
	if err != nil {
		return nil, err
	}
	w, err := newNDWriter(*out)
	if err != nil {
		return nil, err
	}
	var mu sync.Mutex
	kfTotal := map[string]int{}
	steps, diffs, skipped := 0, 0, 0
	var wg sync.WaitGroup
	sem := make(chan struct{}, *par)
	var firstErr error
	for i, ln := range lines {
		var b []mstep
		if err := json.Unmarshal(ln, &b); err != nil {
			return nil, fmt.Errorf("behaviour %d: %v", i, err)
		}
		wg.Add(1)
		sem <- struct{}{}
		mu.Lock()
		stop := diffs >= *maxDiff
		mu.Unlock()
		if stop {
			wg.Done()
			<-sem
			skipped++
			continue
		}
		go func(i int, b []mstep) {
			defer wg.Done()
			defer func() { <-sem }()
			k, act, kf := execBehaviour(b, *scale)
			mu.Lock()
			defer mu.Unlock()
			steps += len(b)
			for x, c := range kf {
				kfTotal[x] += c
			}
			if k >= 0 {
				diffs++
				a := act
				w.write(behResult{I: i, Step: k, Actual: &a})
			}
		}(i, b)
	}
	wg.Wait()
	if err := w.close(); err != nil {
		return nil, err
	}
	if firstErr != nil {
		return nil, firstErr
	}
	return map[string]interface{}{"behaviours": len(lines), "steps": steps, "differ": diffs, "skipped": skipped, "kf": kfTotal, "scale": *scale}, nil
}

// ---------------------------------------------------------------------------------------------
// direction B: seeded random histories, recorded for TLC trace validation (spec/MemConnTrace.tla, Cap = 512)

type revWake struct {
	E    string `json:"e"`
	N    int    `json:"n"`
	IDs  []int  `json:"ids"`
	Over bool   `json:"over"`
	Bad  string `json:"bad"` // "" or what no conforming outcome shows: err, tail, count, panic
}
type event struct {
	A    string    `json:"a"`
	E    string    `json:"e"`
	N    int       `json:"n"`   // write: datagram length
	ID   int       `json:"id"`  // write: content identity
	Len  int       `json:"len"` // read: buffer
	Cap  int       `json:"cap"`
	Res  string    `json:"res"`
	RN   int       `json:"rn"`
	IDs  []int     `json:"ids"`
	Over bool      `json:"over"`
	Bad  string    `json:"bad"`
	Wake []revWake `json:"wake"`
	B    int       `json:"b"` // behaviour number
}

func obsRead(r rawRead, maxID int) (n int, ids []int, over bool, bad string) {
	n, over = r.n, r.n > r.l
	ids = []int{}
	switch {
	case r.panicked != "":
		bad = "panic"
	case r.err:
		bad = "err"
	case r.n < 0 || r.n > r.c:
		bad = "count"
	case !r.tailOK():
		bad = "tail"
	default:
		ids = candidates(r.content(), maxID)
	}
	return
}

var (
	randLens = []int{0, 1, 2, 3, 13, 14, 40, 60, 200, 1500, 2100}
	randBufs = [][2]int{{2048, 2048}, {64, 64}, {2, 2}, {2, 8}, {0, 0}, {0, 3}, {10, 2048}, {1500, 1500}}
)

type caller struct {
	p *pair
	// shadow bookkeeping: used ONLY to choose how long to wait for an operation, never for what is recorded
	cnt    [2]int
	closed [2]bool
	nid    int
	lines  int
	b      int
	w      *ndWriter
}

func newCaller(b int, w *ndWriter) *caller {
	c := &caller{p: newPair(), b: b, w: w}
	c.emit(event{A: "reset"})
	return c
}

func (c *caller) emit(ev event) {
	ev.B = c.b
	if ev.IDs == nil {
		ev.IDs = []int{}
	}
	if ev.Wake == nil {
		ev.Wake = []revWake{}
	}
	c.w.write(ev)
	c.lines++
}

func (c *caller) collect(ev *event, expectWake int) {
	for i := 0; i < 2; i++ {
		pd := c.p.pend[i]
		if pd == nil {
			continue
		}
		if i == expectWake {
			waitDone(pd.done, longWait)
		}
		if pd.finished() {
			n, ids, over, bad := obsRead(pd.results[0], c.nid)
			ev.Wake = append(ev.Wake, revWake{E: endName(i), N: n, IDs: ids, Over: over, Bad: bad})
			c.p.pend[i] = nil
		}
	}
}

func (c *caller) write(e, n int) bool {
	var o rawWrite
	id := c.nid
	c.nid++
	if !c.p.run(e, func() { o = writeOne(c.p.conn[e], id, n) }) {
		c.emit(event{A: "write", E: endName(e), N: n, ID: id, Res: "hang"})
		return false
	}
	ev := event{A: "write", E: endName(e), N: n, ID: id, Res: o.res, RN: o.n}
	expectWake := -1
	if o.res == "ok" && c.p.pend[1-e] != nil {
		expectWake = 1 - e
	} else if o.res == "ok" && o.n == n && c.cnt[e] < 512 && !c.closed[e] {
		c.cnt[e]++
	}
	c.collect(&ev, expectWake)
	c.emit(ev)
	return true
}

func (c *caller) read(e, l, cp int) {
	if c.p.pend[e] != nil {
		return
	}
	pd := c.p.startReads(e, l, cp, 1)
	wait := graceWait
	if c.cnt[1-e] > 0 || c.closed[1-e] {
		wait = longWait
	}
	ev := event{A: "read", E: endName(e), Len: l, Cap: cp}
	if waitDone(pd.done, wait) {
		n, ids, over, bad := obsRead(pd.results[0], c.nid)
		ev.Res, ev.RN, ev.IDs, ev.Over, ev.Bad = "ok", n, ids, over, bad
		c.p.pend[e] = nil
		if c.cnt[1-e] > 0 {
			c.cnt[1-e]--
		}
	} else {
		ev.Res = "blocked"
	}
	c.emit(ev)
}

func (c *caller) close(e int) bool {
	var res string
	if !c.p.run(e, func() { res, _ = closeOne(c.p.conn[e]) }) {
		c.emit(event{A: "close", E: endName(e), Res: "hang"})
		return false
	}
	ev := event{A: "close", E: endName(e), Res: res}
	expectWake := -1
	if res == "ok" && c.p.pend[1-e] != nil {
		expectWake = 1 - e
	}
	if res == "ok" {
		c.closed[e] = true
	}
	c.collect(&ev, expectWake)
	c.emit(ev)
	return true
}

// idle: a final look at what is still blocked
func (c *caller) idle() {
	if c.p.pend[0] != nil || c.p.pend[1] != nil {
		time.Sleep(graceWait)
		ev := event{A: "idle"}
		c.collect(&ev, -1)
		c.emit(ev)
	}
}

func randomBehaviour(rng *rand.Rand, b, length int, burst bool, w *ndWriter) int {
	c := newCaller(b, w)
	defer c.p.release()
	if burst {
		// fill one direction to the brim and beyond, drain part of it, fill again: the boundary at 512
		e := rng.Intn(2)
		k := 505 + rng.Intn(12)
		for j := 0; j < k; j++ {
			if !c.write(e, randLens[rng.Intn(len(randLens))]) {
				return c.lines
			}
		}
		for j := 0; j < 5+rng.Intn(10); j++ {
			bf := randBufs[rng.Intn(len(randBufs))]
			c.read(1-e, bf[0], bf[1])
		}
		for j := 0; j < 20; j++ {
			if !c.write(e, 14+rng.Intn(50)) {
				return c.lines
			}
		}
		if rng.Intn(2) == 0 {
			c.close(e)
		}
		for j := 0; j < 530; j++ {
			c.read(1-e, 64, 64)
			if c.p.pend[1-e] != nil {
				break
			}
		}
	}
	pclose := 0.02 + 0.05*rng.Float64()
	for s := 0; s < length; s++ {
		e := rng.Intn(2)
		x := rng.Float64()
		switch {
		case x < 0.45:
			if !c.write(e, randLens[rng.Intn(len(randLens))]) {
				return c.lines
			}
		case x < 1-pclose:
			bf := randBufs[rng.Intn(len(randBufs))]
			c.read(e, bf[0], bf[1])
		default:
			if !c.close(e) {
				return c.lines
			}
		}
	}
	c.idle()
	return c.lines
}

// replayCalls re-executes the calls of recorded behaviours (arguments only).
func replayCalls(path string, w *ndWriter) (int, error) {
	lines, err := readLines(path)
	if err != nil {
		return 0, err
	}
	var c *caller
	total, b := 0, 0
	finish := func() {
		if c != nil {
			c.idle()
			total += c.lines
			c.p.release()
		}
	}
	for _, ln := range lines {
		var ev event
		if err := json.Unmarshal(ln, &ev); err != nil {
			return 0, err
		}
		if c == nil || ev.A == "reset" {
			finish()
			c = newCaller(b, w)
			b++
			if ev.A == "reset" {
				continue
			}
		}
		ok := true
		switch ev.A {
		case "write":
			ok = c.write(endIdx(ev.E), ev.N)
		case "read":
			c.read(endIdx(ev.E), ev.Len, ev.Cap)
		case "close":
			ok = c.close(endIdx(ev.E))
		}
		if !ok {
			break
		}
	}
	finish()
	return total, nil
}

func cmdMemRand(args []string) (map[string]interface{}, error) {
	fs := flag.NewFlagSet("memrand", flag.ExitOnError)
	out := fs.String("out", "", "trace (ndjson)")
	n := fs.Int("n", 100, "behaviours")
	length := fs.Int("len", 60, "steps per behaviour")
	bursts := fs.Int("bursts", 4, "behaviours that start with a burst around the capacity")
	argsFile := fs.String("args", "", "replay the calls of this recorded trace instead of generating random ones")
	fs.Parse(args)
	w, err := newNDWriter(*out)
	if err != nil {
		return nil, err
	}
	if *argsFile != "" {
		n, err := replayCalls(*argsFile, w)
		if err != nil {
			return nil, err
		}
		if err := w.close(); err != nil {
			return nil, err
		}
		return map[string]interface{}{"lines": n, "replayed": true}, nil
	}
	rng := rand.New(rand.NewSource(seed()*7919 + 17))
	lines := 0
	for b := 0; b < *n; b++ {
		lines += randomBehaviour(rng, b, *length, b < *bursts, w)
	}
	if err := w.close(); err != nil {
		return nil, err
	}
	return map[string]interface{}{"behaviours": *n, "lines": lines}, nil
}
