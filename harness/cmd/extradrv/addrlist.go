package main

// X02: spec/AddrList.tla (behaviours of AddrListMC) and spec/AddrVec.tla (vectors) executed on packet.AddrList / packet.Addr.

import (
	"encoding/json"
	"flag"
	"fmt"
	"net"
	"net/netip"
	"strconv"
	"strings"
	"sync"
	"time"

	"github.com/irai/packet"
)

type alEntry struct {
	MAC string `json:"mac"`
	IP  string `json:"ip"`
}
type alObs struct {
	List []alEntry      `json:"list"`
	Len  int            `json:"len"`
	Idx  map[string]int `json:"idx"`
	Err  string         `json:"err,omitempty"`
}
type alStep struct {
	A   string `json:"a"`
	MAC string `json:"mac"`
	IP  string `json:"ip"`
	Exp alObs  `json:"exp"`
}

var alMACs = map[string]net.HardwareAddr{
	"m1": {0x02, 0x00, 0x00, 0x00, 0x01, 0x01},
	"m2": {0x02, 0x00, 0x00, 0x00, 0x01, 0x02},
	"m3": {0x02, 0x00, 0x00, 0x00, 0x02, 0x01}, // differs from m1 in one byte only
	"m4": {0x02, 0x00, 0x00, 0x00, 0x01},       // a 5-byte prefix of m1: a key of its own
}
var alIPs = map[string]netip.Addr{
	"i1": netip.MustParseAddr("192.168.0.7"),
	"i2": netip.MustParseAddr("fe80::7"),
	"i3": {},
}

// alMAC returns a fresh slice for the key; m0 is the nil MAC or the empty MAC (the same key for bytes.Equal).
func alMAC(name string, variant int) net.HardwareAddr {
	if name == "m0" {
		if variant%2 == 0 {
			return nil
		}
		return net.HardwareAddr{}
	}
	m, ok := alMACs[name]
	if !ok {
		panic("unknown mac " + name)
	}
	return append(net.HardwareAddr{}, m...)
}

func alMACName(m net.HardwareAddr) string {
	if len(m) == 0 {
		return "m0"
	}
	for k, v := range alMACs {
		if string(v) == string(m) {
			return k
		}
	}
	return "mac:" + m.String()
}

func alIPName(ip netip.Addr) string {
	for k, v := range alIPs {
		if v == ip {
			return k
		}
	}
	return "ip:" + ip.String()
}

func alObserve(l *packet.AddrList, macs []string, variant int) (o alObs) {
	defer func() {
		if r := recover(); r != nil {
			o.Err = "panic: " + fmt.Sprint(r)
		}
	}()
	o.List = []alEntry{}
	for _, a := range l.VerifList() {
		o.List = append(o.List, alEntry{MAC: alMACName(a.MAC), IP: alIPName(a.IP)})
	}
	o.Len = l.Len()
	o.Idx = map[string]int{}
	for _, m := range macs {
		o.Idx[m] = l.Index(alMAC(m, variant+1))
	}
	return o
}

func alSame(a, b alObs) string {
	if a.Err != b.Err {
		return "err"
	}
	if len(a.List) != len(b.List) {
		return "list"
	}
	for i := range a.List {
		if a.List[i] != b.List[i] {
			return "list"
		}
	}
	if a.Len != b.Len {
		return "len"
	}
	for k, v := range b.Idx {
		if a.Idx[k] != v {
			return "idx"
		}
	}
	return ""
}

func alExec(steps []alStep, variant int) (int, *alObs, string) {
	var l packet.AddrList
	macs := []string{}
	if len(steps) > 0 {
		for m := range steps[0].Exp.Idx {
			macs = append(macs, m)
		}
	}
	for k, st := range steps {
		addr := packet.Addr{MAC: alMAC(st.MAC, variant+k), IP: alIPs[st.IP], Port: uint16((variant + k) % 3)}
		errText := ""
		func() {
			defer func() {
				if r := recover(); r != nil {
					errText = "panic: " + fmt.Sprint(r)
				}
			}()
			var err error
			switch st.A {
			case "add":
				err = l.Add(addr)
			case "del":
				err = l.Del(addr)
			}
			if err != nil {
				errText = "error: " + err.Error()
			}
		}()
		o := alObserve(&l, macs, variant+k)
		if errText != "" {
			o.Err = errText
		}
		if asp := alSame(o, st.Exp); asp != "" {
			return k, &o, asp
		}
	}
	return -1, nil, ""
}

// ---- Addr text vectors

type avVec struct {
	MAC     string   `json:"mac"`
	IP      string   `json:"ip"`
	Port    int      `json:"port"`
	Network string   `json:"network"`
	Text    []string `json:"text"`
}

var avMACs = map[string]struct {
	v    net.HardwareAddr
	text string
}{
	"nil":       {nil, ""},
	"empty":     {net.HardwareAddr{}, ""},
	"len1":      {net.HardwareAddr{0x02}, ""},
	"len5":      {net.HardwareAddr{2, 0, 0, 0, 1}, ""},
	"len6":      {net.HardwareAddr{0x02, 0x1a, 0xff, 0x00, 0x09, 0xa0}, "02:1a:ff:00:09:a0"},
	"len6zero":  {net.HardwareAddr{0, 0, 0, 0, 0, 0}, "00:00:00:00:00:00"},
	"len6bcast": {net.HardwareAddr{0xff, 0xff, 0xff, 0xff, 0xff, 0xff}, "ff:ff:ff:ff:ff:ff"},
	"len7":      {net.HardwareAddr{2, 0, 0, 0, 1, 1, 1}, ""},
	"len8":      {net.HardwareAddr{2, 0, 0, 0, 1, 1, 1, 1}, ""},
	"len20":     {make(net.HardwareAddr, 20), ""},
}
var avIPs = map[string]struct {
	v    netip.Addr
	text string
}{
	"invalid": {netip.Addr{}, ""},
	"v4":      {netip.AddrFrom4([4]byte{192, 168, 0, 7}), "192.168.0.7"},
	"v4zero":  {netip.AddrFrom4([4]byte{}), "0.0.0.0"},
	"v4bcast": {netip.AddrFrom4([4]byte{255, 255, 255, 255}), "255.255.255.255"},
	"v6":      {netip.AddrFrom16([16]byte{0x20, 0x01, 0x0d, 0xb8, 0, 0, 0, 0, 0, 0, 0, 0, 0, 0, 0, 1}), "2001:db8::1"},
	"v6zero":  {netip.AddrFrom16([16]byte{}), "::"},
	"v6zone":  {netip.AddrFrom16([16]byte{0xfe, 0x80, 0, 0, 0, 0, 0, 0, 0, 0, 0, 0, 0, 0, 0, 1}).WithZone("eth0"), "fe80::1%eth0"},
	"v4in6":   {netip.AddrFrom16([16]byte{0, 0, 0, 0, 0, 0, 0, 0, 0, 0, 0xff, 0xff, 10, 0, 0, 1}), "::ffff:10.0.0.1"},
}

func avExpected(v avVec) string {
	var sb strings.Builder
	for _, t := range v.Text {
		switch t {
		case "MAC":
			sb.WriteString(avMACs[v.MAC].text)
		case "IP":
			sb.WriteString(avIPs[v.IP].text)
		case "PORT":
			sb.WriteString(strconv.Itoa(v.Port))
		default:
			sb.WriteString(t)
		}
	}
	return sb.String()
}

func avRun(v avVec) (got map[string]string) {
	got = map[string]string{}
	m, ok1 := avMACs[v.MAC]
	ip, ok2 := avIPs[v.IP]
	if !ok1 || !ok2 {
		got["err"] = "unknown kind"
		return
	}
	a := packet.Addr{MAC: m.v, IP: ip.v, Port: uint16(v.Port)}
	call := func(name string, f func() string) {
		defer func() {
			if r := recover(); r != nil {
				got[name] = "panic: " + fmt.Sprint(r)
			}
		}()
		got[name] = f()
	}
	call("string", func() string { return a.String() })
	call("ptrstring", func() string { return (&a).String() })
	call("network", func() string { return a.Network() })
	call("fastlog", func() string { return a.FastLog(packet.Logger.Msg("")).ToString() })
	return
}

func cmdAddrList(args []string) (map[string]interface{}, error) {
	fs := flag.NewFlagSet("addrlist", flag.ExitOnError)
	in := fs.String("in", "", "behaviours of AddrListMC (ndjson)")
	vec := fs.String("vec", "", "vectors of AddrVec (ndjson)")
	out := fs.String("out", "", "results (ndjson): differing behaviours / vectors only")
	race := fs.Bool("race", false, "concurrent Add/Del/Index from several goroutines (meaningful in a -race build)")
	fs.Parse(args)
	if *race {
		return addrRace(), nil
	}
	w, err := newNDWriter(*out)
	if err != nil {
		return nil, err
	}
	sum := map[string]interface{}{}
	if *in != "" {
		lines, err := readLines(*in)
		if err != nil {
			return nil, err
		}
		steps, differ := 0, 0
		for i, ln := range lines {
			var b []alStep
			if err := json.Unmarshal(ln, &b); err != nil {
				return nil, fmt.Errorf("behaviour %d: %v", i, err)
			}
			steps += len(b)
			if k, o, asp := alExec(b, i); k >= 0 {
				differ++
				w.write(map[string]interface{}{"kind": "behaviour", "i": i, "step": k, "actual": o, "aspect": asp})
			}
		}
		sum["behaviours"], sum["steps"], sum["differ"] = len(lines), steps, differ
	}
	if *vec != "" {
		lines, err := readLines(*vec)
		if err != nil {
			return nil, err
		}
		bad := 0
		for i, ln := range lines {
			var v avVec
			if err := json.Unmarshal(ln, &v); err != nil {
				return nil, fmt.Errorf("vector %d: %v", i, err)
			}
			want := avExpected(v)
			got := avRun(v)
			asp := ""
			switch {
			case got["err"] != "":
				return nil, fmt.Errorf("vector %d: %s", i, got["err"])
			case got["string"] != want:
				asp = "string"
			case got["ptrstring"] != want:
				asp = "ptrstring"
			case got["fastlog"] != want:
				asp = "fastlog"
			case got["network"] != v.Network:
				asp = "network"
			}
			if asp != "" {
				bad++
				w.write(map[string]interface{}{"kind": "vector", "i": i, "aspect": asp, "want": want, "got": got})
			}
		}
		sum["vectors"], sum["vectors_differ"] = len(lines), bad
	}
	// observed, not part of the statement: does the list keep the caller's MAC slice?
	var l packet.AddrList
	buf := alMAC("m1", 0)
	l.Add(packet.Addr{MAC: buf, IP: alIPs["i1"]})
	buf[5] ^= 0xff
	sum["retains_caller_mac_slice"] = l.Index(alMAC("m1", 0)) == -1
	if err := w.close(); err != nil {
		return nil, err
	}
	return sum, nil
}

// addrRace: several goroutines use one AddrList without any lock (the type's comment calls it goroutine safe).
// In a -race build the detector reports the unsynchronised accesses and the process exits with its race exit code.
func addrRace() map[string]interface{} {
	var l packet.AddrList
	var wg sync.WaitGroup
	stop := time.Now().Add(300 * time.Millisecond)
	panics := 0
	var mu sync.Mutex
	for g := 0; g < 4; g++ {
		wg.Add(1)
		go func(g int) {
			defer wg.Done()
			defer func() {
				if r := recover(); r != nil {
					mu.Lock()
					panics++
					mu.Unlock()
				}
			}()
			names := []string{"m1", "m2", "m3"}
			for i := 0; time.Now().Before(stop); i++ {
				a := packet.Addr{MAC: alMAC(names[(i+g)%3], 0), IP: alIPs["i1"]}
				switch (i + g) % 3 {
				case 0:
					l.Add(a)
				case 1:
					l.Del(a)
				default:
					l.Index(a.MAC)
					l.Len()
				}
			}
		}(g)
	}
	wg.Wait()
	return map[string]interface{}{"race_run": true, "panics": panics}
}
