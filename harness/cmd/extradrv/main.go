// extradrv binds the X-specifications (components of /repo that no listed property covers) to the real code.
//
//	extradrv memconn   -in behaviours.ndjson -out results.ndjson -scale 256   (spec/MemConn.tla, TLC-generated behaviours)
//	extradrv memrand   -out trace.ndjson -n 200 -len 60                      (random histories recorded for spec/MemConnTrace.tla)
//	extradrv addrlist  -in behaviours.ndjson -out results.ndjson             (spec/AddrList.tla)
//	extradrv lifecycle -in behaviours.ndjson -out results.ndjson             (spec/Lifecycle.tla)
//	extradrv vec       -in vectors.ndjson -out results.ndjson                (spec/ExtraVec.tla)
//
// Every sub-command prints one JSON summary line on stdout; everything else goes to stderr.
package main

import (
	"bufio"
	"encoding/json"
	"fmt"
	"os"
	"strconv"

	"verifharness/vh"
)

var realStdout *os.File

func main() {
	if len(os.Args) < 2 {
		fmt.Fprintln(os.Stderr, "usage: extradrv memconn|memrand|addrlist|lifecycle|vec [flags]")
		os.Exit(2)
	}
	vh.Quiet()
	// the library prints with fmt.Printf in a few places (memconn "writing is full", session tables)
	realStdout = os.Stdout
	if os.Getenv("VERIF_STDOUT") == "" {
		if f, err := os.OpenFile(os.DevNull, os.O_WRONLY, 0); err == nil {
			os.Stdout = f
		}
	}
	cmd, args := os.Args[1], os.Args[2:]
	var sum map[string]interface{}
	var err error
	switch cmd {
	case "memconn":
		sum, err = cmdMemConn(args)
	case "memrand":
		sum, err = cmdMemRand(args)
	case "addrlist":
		sum, err = cmdAddrList(args)
	case "lifecycle":
		sum, err = cmdLifecycle(args)
	case "lifeworker":
		sum, err = cmdLifeWorker(args)
	case "vec":
		sum, err = cmdVec(args)
	default:
		err = fmt.Errorf("unknown sub-command %q", cmd)
	}
	if err != nil {
		fmt.Fprintln(os.Stderr, "extradrv:", err)
		os.Exit(2)
	}
	b, _ := json.Marshal(sum)
	fmt.Fprintln(realStdout, string(b))
}

func seed() int64 {
	if s, err := strconv.ParseInt(os.Getenv("VERIF_SEED"), 10, 64); err == nil {
		return s
	}
	return 1
}

// readLines reads an ndjson file, one raw JSON document per line.
func readLines(path string) ([][]byte, error) {
	f, err := os.Open(path)
	if err != nil {
		return nil, err
	}
	defer f.Close()
	sc := bufio.NewScanner(f)
	sc.Buffer(make([]byte, 1<<20), 1<<26)
	var out [][]byte
	for sc.Scan() {
		b := sc.Bytes()
		if len(b) == 0 {
			continue
		}
		out = append(out, append([]byte{}, b...))
	}
	return out, sc.Err()
}

type ndWriter struct {
	f *os.File
	w *bufio.Writer
}

func newNDWriter(path string) (*ndWriter, error) {
	f, err := os.Create(path)
	if err != nil {
		return nil, err
	}
	return &ndWriter{f: f, w: bufio.NewWriterSize(f, 1<<20)}, nil
}

func (n *ndWriter) write(v interface{}) {
	b, err := json.Marshal(v)
	if err != nil {
		panic(err)
	}
	n.w.Write(b)
	n.w.WriteByte('\n')
}

func (n *ndWriter) close() error {
	if err := n.w.Flush(); err != nil {
		return err
	}
	return n.f.Close()
}
