// hostsdrv executes action scripts (spec/Hosts.tla vocabulary) against a real packet.Session and
// records, after every step, the projected tables, the API view and the notifications drained
// from Session.C.  The trace is validated by TLC against spec/HostsTrace.tla (mechanism mode)
// and spec/HostsTraceP.tla (property mode).
//
//	hostsdrv -script s.ndjson -out t.ndjson [-shared] [-stutter 0.3]
package main

import (
	"bufio"
	"encoding/binary"
	"encoding/json"
	"flag"
	"fmt"
	"math/rand"
	"net"
	"net/netip"
	"os"
	"sort"
	"strconv"
	"time"

	"github.com/irai/packet"
	"github.com/irai/packet/fastlog"
	"verifharness/vh"
)

type action map[string]interface{}

func (a action) s(k string) string {
	if v, ok := a[k]; ok {
		switch x := v.(type) {
		case string:
			return x
		case float64:
			return strconv.Itoa(int(x))
		}
	}
	return ""
}
func (a action) i(k string) int {
	if v, ok := a[k].(float64); ok {
		return int(v)
	}
	return 0
}

type driver struct {
	u       *vh.Universe
	s       *packet.Session
	conn    *vh.RecConn
	vnow    int
	rng     *rand.Rand // frame contents and stutter choices: identical in fresh and shared mode
	brng    *rand.Rand // buffer capacities and scribble patterns
	shared  bool
	nodrain bool   // the caller never reads Session.C (Notify and C are optional): notifications pile up
	rx      []byte // shared receive buffer (shared mode)
	last    packet.Frame
	hasFr   bool
	out     *bufio.Writer
	frames  int // frames written by the session (probes), cumulative
	steps   int
	sent    [][]byte
}

func (d *driver) reset(cfg int, probe, offline, purge int) error {
	if d.s != nil {
		old := d.s
		go old.Close()
	}
	d.u = &vh.Universe{Cfg: vh.Configs[cfg%len(vh.Configs)]}
	s, conn, err := vh.NewSession(d.u, probe, offline, purge)
	if err != nil {
		return err
	}
	d.s, d.conn, d.vnow, d.hasFr = s, conn, 0, false
	d.patch()
	return nil
}

// patch rewrites stamps written with the real clock to the virtual clock.
func (d *driver) patch() {
	for _, h := range d.s.HostTable.Table {
		if vh.Stamp(h.LastSeen) == -1 {
			h.LastSeen = vh.VTime(d.vnow)
		}
	}
	for _, e := range d.s.MACTable.Table {
		if vh.Stamp(e.LastSeen) == -1 {
			e.LastSeen = vh.VTime(d.vnow)
		}
	}
}

// deliver hands a frame to Session.Parse the way the packet loop would.
func (d *driver) deliver(b []byte) (packet.Frame, error) {
	if d.shared {
		n := copy(d.rx[:cap(d.rx)], b) // the previous frame is dead once the loop reads the next one
		return d.s.Parse(d.rx[:n])
	}
	cp := make([]byte, len(b), len(b)+d.brng.Intn(64))
	copy(cp, b)
	return d.s.Parse(cp)
}

// scribble overwrites the shared receive buffer after a step is complete.
// The buffer stays intact while a parsed frame is still waiting for its Notify (the frame's
// views point into it: that is the documented zero-copy contract, not retained state).
func (d *driver) scribble() {
	if !d.shared || d.hasFr {
		return
	}
	// half of the time the buffer is simply left as it is: the next frame overwrites its beginning,
	// as in a real receive loop ("overwrite only"); otherwise it is filled with a pattern
	if d.brng.Intn(2) == 0 {
		return
	}
	d.scribbleNow()
}

func (d *driver) scribbleNow() {
	if !d.shared {
		return
	}
	p := byte(d.brng.Intn(256))
	full := d.rx[:cap(d.rx)]
	for i := range full {
		full[i] = p ^ byte(i*7)
	}
}

func (d *driver) ipFrame(src, key, ipn string, variant int) []byte {
	u := d.u
	smac := u.MAC(src)
	ip := u.IP(ipn)
	pad := func(b []byte) []byte { // Ethernet padding to the 60 byte minimum, sometimes a longer trailer
		if d.rng.Intn(3) == 0 {
			for len(b) < 60 {
				b = append(b, 0)
			}
			if d.rng.Intn(4) == 0 {
				b = append(b, 0xde, 0xad, 0xbe, 0xef)
			}
		}
		return b
	}
	if ip.Is4() {
		dst := u.Cfg.RouterIP
		switch variant % 8 {
		case 0:
			return pad(vh.FrameIP4UDP(smac, vh.RouterMAC, ip, dst, 40000+uint16(d.rng.Intn(1000)), 123, []byte("ntp-ish payload")))
		case 1:
			return pad(vh.Ether(vh.RouterMAC, smac, 0x0800, vh.IP4(ip, netip.MustParseAddr("8.8.8.8"), 1, 64, 7, vh.ICMP4(8, 0, vh.Echo(9, 1, []byte("ping"))))))
		case 2:
			tcp := make([]byte, 20)
			tcp[12] = 5 << 4
			return pad(vh.Ether(vh.RouterMAC, smac, 0x0800, vh.IP4(ip, netip.MustParseAddr("1.2.3.4"), 6, 64, 7, tcp)))
		case 3: // IPv4 header with options (IHL 6)
			b := vh.IP4(ip, dst, 17, 64, 9, vh.UDP(5000, 6000, []byte{1, 2, 3, 4}))
			opt := append(append([]byte{}, b[:20]...), 1, 1, 1, 0)
			opt = append(opt, b[20:]...)
			opt[0] = 0x46
			binary.BigEndian.PutUint16(opt[2:4], uint16(len(opt)))
			opt[10], opt[11] = 0, 0
			binary.BigEndian.PutUint16(opt[10:12], vh.Cksum(opt[:24]))
			return pad(vh.Ether(vh.RouterMAC, smac, 0x0800, opt))
		case 4: // a later fragment (offset != 0) of some datagram
			b := vh.IP4(ip, dst, 17, 64, 11, []byte{1, 2, 3, 4, 5, 6, 7, 8})
			b[6], b[7] = 0x20, 0x10
			b[10], b[11] = 0, 0
			binary.BigEndian.PutUint16(b[10:12], vh.Cksum(b[:20]))
			return pad(vh.Ether(vh.RouterMAC, smac, 0x0800, b))
		case 5: // DHCP renew from the client's own address (host is tracked, payload is DHCP4)
			if !u.Cfg.HomeLAN.Contains(ip) {
				// off-LAN source: no host, and Notify would take the DHCP offer path, which the
				// script vocabulary expresses with the separate "dhcpframe" action
				return pad(vh.FrameIP4UDP(smac, vh.RouterMAC, ip, dst, 68, 1067, []byte("x")))
			}
			msg := vh.DHCP4(1, d.rng.Uint32(), 0, ip, netip.Addr{}, netip.Addr{}, netip.Addr{}, smac, []vh.DHCP4Opt{{Code: 53, Data: []byte{8}}})
			return vh.FrameIP4UDP(smac, vh.RouterMAC, ip, dst, 68, 67, msg)
		case 6: // IGMP membership report
			return pad(vh.Ether(net.HardwareAddr{0x01, 0, 0x5e, 0, 0, 0x16}, smac, 0x0800, vh.IP4(ip, netip.MustParseAddr("224.0.0.22"), 2, 1, 3, []byte{0x22, 0, 0, 0, 0, 0, 0, 0})))
		default:
			return pad(vh.FrameIP4UDP(smac, vh.Bcast, ip, netip.MustParseAddr("255.255.255.255"), 5000, 6000, []byte{1, 2, 3}))
		}
	}
	switch variant % 4 {
	case 0:
		return pad(vh.FrameIP6UDP(smac, vh.AllNodesM6, ip, vh.AllNodes6, 5353, 5353, make([]byte, 12)))
	case 1: // hop-by-hop extension header in front of an ICMPv6 message (MLD style)
		icmp := vh.ICMP6(ip, vh.AllNodes6, 143, 0, []byte{0, 0, 0, 0})
		hbh := append([]byte{58, 0, 5, 2, 0, 0, 1, 0}, icmp...)
		return pad(vh.Ether(vh.AllNodesM6, smac, 0x86dd, vh.IP6(ip, vh.AllNodes6, 0, 1, hbh)))
	case 2: // neighbour solicitation
		ns := append(make([]byte, 4), vh.AllNodes6.AsSlice()...)
		return pad(vh.Ether(vh.AllNodesM6, smac, 0x86dd, vh.IP6(ip, vh.AllNodes6, 58, 255, vh.ICMP6(ip, vh.AllNodes6, 135, 0, ns))))
	default:
		return pad(vh.Ether(vh.AllNodesM6, smac, 0x86dd, vh.IP6(ip, vh.AllNodes6, 58, 255, vh.ICMP6(ip, vh.AllNodes6, 128, 0, vh.Echo(3, 1, []byte("x"))))))
	}
}

func (d *driver) arpFrame(src, key, ipn string) []byte {
	u := d.u
	op := uint16(1 + d.rng.Intn(2))
	tpa := u.Cfg.RouterIP
	tha := vh.ZeroMAC
	dst := vh.Bcast
	if op == 2 {
		tha, dst = vh.RouterMAC, vh.RouterMAC
	}
	return vh.FrameARP(u.MAC(src), dst, op, u.MAC(key), u.IP(ipn), tha, tpa)
}

func (d *driver) dhcpFrame(mac string) []byte {
	m := d.u.MAC(mac)
	msg := vh.DHCP4(1, d.rng.Uint32(), 0, netip.Addr{}, netip.Addr{}, netip.Addr{}, netip.Addr{}, m,
		[]vh.DHCP4Opt{{Code: 53, Data: []byte{3}}, {Code: 61, Data: append([]byte{1}, m...)}})
	return vh.FrameIP4UDP(m, vh.Bcast, netip.IPv4Unspecified(), netip.MustParseAddr("255.255.255.255"), 68, 67, msg)
}

// untracked frames: every class the statement of C04 says must not create a host.
var untrackedKinds = []string{"wfail", "vlan-ip4", "unspec-ip6-src", "loopback-ip6-src", "own-src-arp-forged", "own-src-ip4", "own-src-ip6", "own-src-arp", "mcast-src", "bcast-src", "offlan-ip4", "zero-ip4",
	"router-gua", "8023", "unknown-ethertype", "bad-ip4", "short", "mcast-ip6-src", "lldp", "arp-offlan", "arp-zero"}

func (d *driver) untrackedFrame(kind string) []byte {
	u := d.u
	m1 := u.MAC("m" + strconv.Itoa(1+d.rng.Intn(3)))
	lanip := u.IP("a" + strconv.Itoa(1+d.rng.Intn(3)))
	switch kind {
	case "vlan-ip4": // 802.1Q tagged frame carrying a complete IPv4 packet: documented as PayloadEther, not decoded
		inner := vh.IP4(lanip, u.Cfg.RouterIP, 17, 64, 1, vh.UDP(1000, 2000, []byte("x")))
		return vh.Ether(vh.RouterMAC, m1, 0x8100, append([]byte{0, 5, 0x08, 0x00}, inner...))
	case "unspec-ip6-src": // duplicate address detection: source ::
		ns := append(make([]byte, 4), u.IP("l1").AsSlice()...)
		return vh.Ether(vh.AllNodesM6, m1, 0x86dd, vh.IP6(netip.IPv6Unspecified(), vh.AllNodes6, 58, 255, vh.ICMP6(netip.IPv6Unspecified(), vh.AllNodes6, 135, 0, ns)))
	case "loopback-ip6-src":
		return vh.FrameIP6UDP(m1, vh.AllNodesM6, netip.MustParseAddr("::1"), vh.AllNodes6, 1000, 2000, []byte("x"))
	case "own-src-ip4":
		return vh.FrameIP4UDP(vh.OwnMAC, vh.RouterMAC, lanip, u.Cfg.RouterIP, 1000, 2000, []byte("x"))
	case "own-src-ip6":
		return vh.FrameIP6UDP(vh.OwnMAC, vh.AllNodesM6, u.IP("l1"), vh.AllNodes6, 1000, 2000, []byte("x"))
	case "own-src-arp":
		return vh.FrameARP(vh.OwnMAC, vh.Bcast, 1, vh.OwnMAC, lanip, vh.ZeroMAC, u.Cfg.RouterIP)
	case "own-src-arp-forged": // what our own ARP spoofer emits: our Ethernet source, a client's / the router's sender fields
		if d.rng.Intn(2) == 0 {
			return vh.FrameARP(vh.OwnMAC, m1, 2, vh.RouterMAC, u.Cfg.RouterIP, m1, lanip)
		}
		return vh.FrameARP(vh.OwnMAC, vh.Bcast, 1, m1, lanip, vh.ZeroMAC, u.Cfg.RouterIP)
	case "mcast-src":
		return vh.FrameIP4UDP(net.HardwareAddr{0x01, 0, 0x5e, 0, 0, 1}, vh.RouterMAC, lanip, u.Cfg.RouterIP, 1000, 2000, []byte("x"))
	case "bcast-src":
		return vh.FrameARP(vh.Bcast, vh.Bcast, 1, m1, lanip, vh.ZeroMAC, u.Cfg.RouterIP)
	case "offlan-ip4":
		return vh.FrameIP4UDP(m1, vh.RouterMAC, u.IP("x"+strconv.Itoa(1+d.rng.Intn(3))), u.Cfg.RouterIP, 1000, 2000, []byte("x"))
	case "zero-ip4":
		return vh.FrameIP4UDP(m1, vh.Bcast, netip.IPv4Unspecified(), netip.MustParseAddr("255.255.255.255"), 1000, 2000, []byte("x"))
	case "router-gua":
		return vh.FrameIP6UDP(vh.RouterMAC, m1, u.IP("g"+strconv.Itoa(1+d.rng.Intn(3))), u.IP("g9"), 443, 50000, []byte("x"))
	case "8023":
		return vh.Ether(vh.Bcast, m1, uint16(d.rng.Intn(1500)), append([]byte{0xaa, 0xaa, 0x03}, make([]byte, 40)...))
	case "unknown-ethertype":
		return vh.Ether(vh.Bcast, m1, 0x88b5, make([]byte, 46))
	case "bad-ip4":
		b := vh.FrameIP4UDP(m1, vh.RouterMAC, lanip, u.Cfg.RouterIP, 1000, 2000, []byte("x"))
		b[16], b[17] = 0xff, 0xff // IPv4 total length far beyond the frame: length-inconsistent header
		return b
	case "short":
		return vh.FrameIP4UDP(m1, vh.RouterMAC, lanip, u.Cfg.RouterIP, 1000, 2000, []byte("x"))[:14+d.rng.Intn(19)]
	case "mcast-ip6-src":
		return vh.FrameIP6UDP(m1, vh.AllNodesM6, netip.MustParseAddr("ff02::fb"), vh.AllNodes6, 1000, 2000, []byte("x"))
	case "lldp":
		return vh.Ether(net.HardwareAddr{0x01, 0x80, 0xc2, 0, 0, 0x0e}, m1, 0x88cc, []byte{2, 7, 4, 0, 1, 2, 3, 4, 5, 4, 2, 7, 49, 6, 2, 0, 120, 0, 0})
	case "arp-offlan":
		return vh.FrameARP(m1, vh.Bcast, 1, m1, u.IP("x1"), vh.ZeroMAC, u.Cfg.RouterIP)
	case "arp-zero":
		return vh.FrameARP(m1, vh.Bcast, 1, m1, netip.IPv4Unspecified(), vh.ZeroMAC, lanip) // ARP probe
	}
	panic("unknown untracked kind " + kind)
}

// nameEntry builds the NameEntry of a step; "exp" (hours, 0 = none) is the expiry a name source attaches
// to its announcement: it is not part of what C04-C06 talk about (a notification reports a CHANGED name).
func (d *driver) nameEntry(typ, name string, a action) packet.NameEntry {
	n := packet.NameEntry{Type: typ, Name: vh.NameValue(name)}
	if e := a.i("exp"); e > 0 {
		n.Expire = vh.VTime(d.vnow).Add(time.Duration(e) * time.Hour)
	}
	return n
}

func (d *driver) updateName(h *packet.Host, slot, name string, a action) {
	n := d.nameEntry(slot, name, a)
	switch slot {
	case "dhcp":
		h.UpdateDHCP4Name(n)
	case "mdns":
		h.UpdateMDNSName(n)
	case "ssdp":
		h.UpdateSSDPName(n)
	case "llmnr":
		h.UpdateLLMNRName(n)
	case "nbns":
		h.UpdateNBNSName(n)
	default:
		panic("slot " + slot)
	}
}

func (d *driver) drain() []vh.NoteP {
	notes := []vh.NoteP{}
	for {
		select {
		case n := <-d.s.C:
			notes = append(notes, vh.ProjectNote(d.u, n))
		default:
			return notes
		}
	}
}

// step executes one action and returns the record to log.
func (d *driver) step(a action) (rec map[string]interface{}) {
	rec = map[string]interface{}{}
	for k, v := range a {
		rec[k] = v
	}
	defer func() {
		if r := recover(); r != nil {
			rec["panic"] = fmt.Sprint(r)
		}
	}()
	u := d.u
	perr := ""
	switch a.s("a") {
	case "ip", "arp", "fip", "farp":
		var b []byte
		if a.s("a") == "ip" || a.s("a") == "fip" {
			// the frame variant is part of the recorded step, so that a replay sends the same kind of frame
			variant := d.rng.Intn(8)
			if _, ok := a["v"]; ok {
				variant = a.i("v")
			}
			rec["v"] = variant
			b = d.ipFrame(a.s("src"), a.s("key"), a.s("ip"), variant)
		} else {
			b = d.arpFrame(a.s("src"), a.s("key"), a.s("ip"))
		}
		fr, err := d.deliver(b)
		if err != nil {
			perr = err.Error()
		}
		d.last, d.hasFr = fr, err == nil
		if a.s("a")[0] == 'f' && err == nil {
			if nm := a.s("name"); nm != "" && nm != "noname" && fr.Host != nil {
				d.updateName(fr.Host, a.s("slot"), nm, a)
			}
			d.s.Notify(fr)
			d.hasFr = false
		}
	case "untracked":
		if a.s("kind") == "wfail" {
			// not a frame: the network device refuses the next writes (probes are best effort; what the
			// session tracks and reports is a function of what it received and of the clock only)
			d.conn.SetFail(1 + d.rng.Intn(4))
			d.hasFr = false
			break
		}
		fr, err := d.deliver(d.untrackedFrame(a.s("kind")))
		if err != nil {
			perr = err.Error()
			d.hasFr = false
		} else {
			if fr.Host != nil {
				rec["tracked"] = u.IPName(fr.Host.Addr.IP)
			}
			d.last, d.hasFr = fr, true
			if a.i("notify") == 1 {
				d.s.Notify(fr)
				d.hasFr = false
			}
		}
	case "dhcpframe":
		fr, err := d.deliver(d.dhcpFrame(a.s("mac")))
		if err != nil {
			perr = err.Error()
		}
		d.last, d.hasFr = fr, err == nil
	case "dhcpack":
		fr, err := d.deliver(d.dhcpFrame(a.s("mac")))
		if err != nil {
			perr = err.Error()
		} else {
			if e := d.s.DHCPv4Update(u.MAC(a.s("mac")), u.IP(a.s("ip")), d.nameEntry("dhcp", a.s("name"), a)); e != nil {
				perr = e.Error()
			}
			d.s.Notify(fr)
		}
		d.hasFr = false
	case "notify":
		if d.hasFr {
			d.s.Notify(d.last)
		}
		d.hasFr = false
	case "dhcpupd":
		if e := d.s.DHCPv4Update(u.MAC(a.s("mac")), u.IP(a.s("ip")), d.nameEntry("dhcp", a.s("name"), a)); e != nil {
			perr = e.Error()
		}
	case "offer":
		d.s.SetDHCPv4IPOffer(u.MAC(a.s("mac")), u.IP(a.s("ip")), d.nameEntry("dhcp", a.s("name"), a))
	case "capture":
		if e := d.s.Capture(u.MAC(a.s("mac"))); e != nil {
			perr = e.Error()
		}
	case "release":
		if e := d.s.Release(u.MAC(a.s("mac"))); e != nil {
			perr = e.Error()
		}
	case "name":
		if h := d.s.FindIP(u.IP(a.s("ip"))); h != nil {
			d.updateName(h, a.s("slot"), a.s("name"), a)
		} else {
			rec["nohost"] = 1
		}
	case "adv":
		d.vnow += a.i("d")
		d.hasFr = false
	case "purge":
		d.s.VerifPurge(vh.VTime(d.vnow))
		d.hasFr = false
	default:
		panic("unknown action " + a.s("a"))
	}
	d.scribble()
	d.patch()
	d.s.PrintTable() // built-in self check (panics when the tables disagree)
	hosts, macs := vh.ProjectTables(u, d.s)
	rec["hosts"], rec["macs"] = hosts, macs
	rec["api"] = vh.ProjectAPI(u, d.s)
	notes := []vh.NoteP{}
	if d.nodrain {
		rec["nd"] = len(d.s.C) // pending, unread notifications
	} else {
		notes = d.drain()
	}
	if a.s("a") == "purge" {
		// purge walks a Go map: the emission order of its offline notifications is unspecified
		// (the specification treats them as a set), so log them in a canonical order
		sort.Slice(notes, func(i, j int) bool { return notes[i].IP < notes[j].IP })
	}
	rec["notes"] = notes
	rec["now"] = d.vnow
	rec["err"] = perr
	if a.s("a") == "purge" {
		// probes are sent from a goroutine; give it a moment and keep the frames for C07
		time.Sleep(200 * time.Microsecond)
	}
	return rec
}

func main() {
	script := flag.String("script", "", "ndjson action script")
	outp := flag.String("out", "", "ndjson trace output")
	shared := flag.Bool("shared", false, "deliver every frame in one shared receive buffer that is scribbled over after each step")
	stutter := flag.Float64("stutter", 0, "probability of an untracked frame before each step")
	framesOut := flag.String("frames", "", "write frames sent by the session (hex, one per line)")
	flag.Parse()
	seed, _ := strconv.ParseInt(os.Getenv("VERIF_SEED"), 10, 64)
	vh.Quiet()
	// the library prints tables with fmt.Printf: send stdout to /dev/null, results go to -out
	realStdout := os.Stdout
	if null, err := os.OpenFile(os.DevNull, os.O_WRONLY, 0); err == nil {
		os.Stdout = null
	}
	in, err := os.Open(*script)
	if err != nil {
		fmt.Fprintln(os.Stderr, err)
		os.Exit(2)
	}
	of, err := os.Create(*outp)
	if err != nil {
		fmt.Fprintln(os.Stderr, err)
		os.Exit(2)
	}
	d := &driver{rng: rand.New(rand.NewSource(seed)), brng: rand.New(rand.NewSource(seed + 7919)), shared: *shared, rx: make([]byte, 0, 2048), out: bufio.NewWriterSize(of, 1<<20)}
	var fw *bufio.Writer
	if *framesOut != "" {
		ff, err := os.Create(*framesOut)
		if err != nil {
			fmt.Fprintln(os.Stderr, err)
			os.Exit(2)
		}
		defer ff.Close()
		fw = bufio.NewWriterSize(ff, 1<<20)
		defer fw.Flush()
	}
	enc := json.NewEncoder(d.out)
	sc := bufio.NewScanner(in)
	sc.Buffer(make([]byte, 1<<20), 1<<24)
	behaviours, steps, panics, skipping := 0, 0, 0, false
	flushFrames := func() {
		if d.conn == nil {
			return
		}
		for _, f := range d.conn.Take() {
			d.frames++
			if fw != nil {
				fmt.Fprintf(fw, "%x\n", f)
			}
		}
	}
	for sc.Scan() {
		var a action
		if err := json.Unmarshal(sc.Bytes(), &a); err != nil {
			fmt.Fprintln(os.Stderr, "bad script line:", err)
			os.Exit(2)
		}
		if a.s("a") == "reset" {
			flushFrames()
			probe, offline, purge := 1, 2, 4
			if a.i("offline") != 0 {
				probe, offline, purge = a.i("probe"), a.i("offline"), a.i("purge")
			}
			d.nodrain = a.i("nodrain") == 1
			// the process-global log level must not influence tracking: vary it per behaviour (output is discarded)
			switch d.brng.Intn(4) {
			case 0:
				packet.Logger.SetLevel(fastlog.LevelInfo)
			case 1:
				packet.Logger.SetLevel(fastlog.LevelDebug)
			default:
				packet.Logger.SetLevel(fastlog.LevelError)
			}
			if err := d.reset(a.i("cfg"), probe, offline, purge); err != nil {
				fmt.Fprintln(os.Stderr, "session:", err)
				os.Exit(2)
			}
			behaviours++
			skipping = false
			hosts, macs := vh.ProjectTables(d.u, d.s)
			enc.Encode(map[string]interface{}{"a": "reset", "cfg": a.i("cfg"), "id": a["id"], "hosts": hosts, "macs": macs,
				"api": vh.ProjectAPI(d.u, d.s), "notes": []int{}, "now": 0, "err": "", "probe": probe, "offline": offline, "purge": purge, "nodrain": a.i("nodrain")})
			continue
		}
		if skipping {
			continue
		}
		if *stutter > 0 && d.rng.Float64() < *stutter {
			k := untrackedKinds[d.rng.Intn(len(untrackedKinds))]
			rec := d.step(action{"a": "untracked", "kind": k, "notify": float64(d.rng.Intn(2))})
			enc.Encode(rec)
			steps++
		}
		rec := d.step(a)
		enc.Encode(rec)
		steps++
		if _, bad := rec["panic"]; bad {
			panics++
			skipping = true // state after a panic is undefined: skip to the next behaviour
		}
	}
	flushFrames()
	d.out.Flush()
	of.Close()
	res := map[string]interface{}{"behaviours": behaviours, "steps": steps, "panics": panics, "frames_sent": d.frames}
	b, _ := json.Marshal(res)
	fmt.Fprintln(realStdout, string(b))
}
