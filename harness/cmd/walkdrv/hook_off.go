//go:build !dnshook

package main

import (
	"github.com/irai/packet"
	"github.com/irai/packet/handlers/dns_naming"
)

// the tree under test has no socket-free DNSHandler constructor: the dns_naming handler entry
// points are skipped (counted in Summary.Skipped)
const dnsHookPresent = false

func newDNS(s *packet.Session) *dns_naming.DNSHandler { return nil }
