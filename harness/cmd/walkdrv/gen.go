package main

import (
	"strings"

	"encoding/binary"
	"gitlab.com/golang-commonmark/puny"
	"math/rand"
	"net"
	"net/netip"

	"verifharness/vh"
)

// Case is one concrete execution: an entry point and its input.
type Case struct {
	Entry    string // entry point name
	Group    string // mechanism group (key of Vector.Mech) the entry point belongs to
	Payload  []byte // payload-level input
	Frame    []byte // frame-level input (wrapped payload)
	Mut      bool   // seeded byte mutation of a generated input
	NeedHook bool   // needs dns_naming.VerifNew
	NeedAge  bool   // needs dns_naming.VerifAgeMDNSCache
	vec      *Vector
	Run      func(e *env, c *Case, res *Result)
	Exp      *dnsExp // C17 expectation (nil: totality only)
	wrap     wrapInfo
}

var u0 = &vh.Universe{Cfg: vh.Configs[0]}

func letters(r *rand.Rand, n int) []byte {
	b := make([]byte, n)
	for i := range b {
		b[i] = byte('a' + r.Intn(26))
	}
	return b
}
func randBytes(r *rand.Rand, n int) []byte {
	b := make([]byte, n)
	r.Read(b)
	return b
}

func netipPrefix(a netip.Addr, bits int) netip.Prefix { return netip.PrefixFrom(a, bits) }

// genCases expands one vector into its concrete cases. Deterministic in (seed, vector id).
func genCases(v *Vector, seed int64, K, M int) []*Case {
	var out []*Case
	for k := 0; k < K; k++ {
		r := rand.New(rand.NewSource(seed*1000003 + int64(v.ID)*7919 + int64(k)))
		var cs []*Case
		switch v.W {
		case "ndp":
			cs = genNDP(v, r, k)
		case "lldp":
			cs = genLLDP(v, r, k)
		case "hbh":
			cs = genHBH(v, r, k)
		case "dhcp":
			cs = genDHCP(v, r, k)
		case "nbns":
			cs = genNBNS(v, r, k)
		case "icmp4":
			cs = genICMP4(v, r, k)
		case "ssdp":
			cs = genSSDP(v, r, k)
		case "name":
			cs = genName(v, r, k)
		case "dnsmsg":
			cs = genMsg(v, r, k)
		case "arp":
			cs = genARP(v, r, k)
		case "llc":
			cs = genLLC(v, r, k)
		case "mcache":
			cs = genMcache(v, r, k)
		case "ping":
			cs = genPing(v, r, k)
		}
		for _, c := range cs {
			c.vec = v
		}
		out = append(out, cs...)
		if k == 0 && v.W != "mcache" && v.W != "ping" {
			// seeded byte mutations of the first encoding of every entry point (round robin)
			for m := 0; m < M && len(cs) > 0; m++ {
				base := cs[(m+v.ID)%len(cs)]
				mc := *base
				mc.Mut = true
				mc.Exp = nil
				mr := rand.New(rand.NewSource(seed*2000003 + int64(v.ID)*104729 + int64(m)))
				if base.Frame != nil && base.Payload != nil {
					mc.Payload = mutate(mr, base.Payload)
					mc.Frame = rewrap(base, mc.Payload)
				} else if base.Frame != nil {
					mc.Frame = mutateFrom(mr, base.Frame, 14)
				} else {
					mc.Payload = mutate(mr, base.Payload)
				}
				out = append(out, &mc)
			}
		}
	}
	return out
}

// mutate applies 1-3 random byte level edits.
func mutate(r *rand.Rand, in []byte) []byte { return mutateFrom(r, in, 0) }

func mutateFrom(r *rand.Rand, in []byte, from int) []byte {
	b := append([]byte{}, in...)
	n := 1 + r.Intn(3)
	for i := 0; i < n; i++ {
		if len(b) <= from {
			break
		}
		p := from + r.Intn(len(b)-from)
		switch r.Intn(7) {
		case 0:
			b[p] = 0
		case 1:
			b[p] = 0xff
		case 2:
			b[p] ^= 1 << uint(r.Intn(8))
		case 3:
			b[p] = byte(r.Intn(256))
		case 4:
			b = b[:p] // truncate
		case 5:
			b[p] = 0xc0 // looks like a compression pointer / big length
		default:
			if p+1 < len(b) {
				b[p], b[p+1] = b[p+1], b[p]
			}
		}
	}
	return b
}

// wrapping -------------------------------------------------------------------------------------

type wrapKind int

const (
	wrapNone wrapKind = iota
	wrapUDP4
	wrapICMP6
	wrapICMP4
	wrapEther
)

type wrapInfo struct {
	kind         wrapKind
	sport, dport uint16
	smac, dmac   net.HardwareAddr
	sip, dip     netip.Addr
	etype        uint16
}

// rewrap rebuilds the frame of a case around a new payload (lengths and checksums are recomputed:
// the mutation targets the protocol under test, not the layers below it, which belong to C01).
func rewrap(c *Case, payload []byte) []byte {
	w := c.wrap
	return w.build(payload)
}

func (w wrapInfo) build(payload []byte) []byte {
	switch w.kind {
	case wrapUDP4:
		return vh.FrameIP4UDP(w.smac, w.dmac, w.sip, w.dip, w.sport, w.dport, payload)
	case wrapICMP6:
		// payload is the whole ICMPv6 message; recompute the checksum
		p := append([]byte{}, payload...)
		if len(p) >= 4 {
			p[2], p[3] = 0, 0
			s, d := w.sip.As16(), w.dip.As16()
			ph := make([]byte, 8)
			binary.BigEndian.PutUint32(ph[0:4], uint32(len(p)))
			ph[7] = 58
			binary.BigEndian.PutUint16(p[2:4], vh.Cksum(s[:], d[:], ph, p))
		}
		return vh.Ether(w.dmac, w.smac, 0x86dd, vh.IP6(w.sip, w.dip, 58, 255, p))
	case wrapICMP4:
		p := append([]byte{}, payload...)
		if len(p) >= 4 {
			p[2], p[3] = 0, 0
			binary.BigEndian.PutUint16(p[2:4], vh.Cksum(p))
		}
		return vh.Ether(w.dmac, w.smac, 0x0800, vh.IP4(w.sip, w.dip, 1, 64, 9, p))
	case wrapEther:
		return vh.Ether(w.dmac, w.smac, w.etype, payload)
	}
	return nil
}

func udp4(sm, dm net.HardwareAddr, sip, dip netip.Addr, sp, dp uint16) wrapInfo {
	return wrapInfo{kind: wrapUDP4, smac: sm, dmac: dm, sip: sip, dip: dip, sport: sp, dport: dp}
}

var (
	cliMAC  = u0.MAC("m1")
	cliIP   = u0.IP("a1")
	cliLLA  = u0.IP("l1")
	bcastIP = netip.MustParseAddr("255.255.255.255")
	mdnsIP  = netip.MustParseAddr("224.0.0.251")
	mdnsMAC = net.HardwareAddr{0x01, 0x00, 0x5e, 0x00, 0x00, 0xfb}
)

// ---------------------------------------------------------------------------------------------
// NDP options

func ndpOption(r *rand.Rand, e map[string]interface{}, k int) []byte {
	t, l, p := num(e, "t"), num(e, "l"), str(e, "p")
	if p == "hdr1" {
		return []byte{byte(t)}
	}
	if p == "body" {
		want := 8*l - 2
		have := r.Intn(14)
		if have >= want {
			have = want - 1
		}
		return append([]byte{byte(t), byte(l)}, randBytes(r, have)...)
	}
	if l == 0 {
		b := []byte{byte(t), 0}
		if k%2 == 1 {
			b = append(b, randBytes(r, 6)...)
		}
		return b
	}
	body := make([]byte, 8*l-2)
	if k%2 == 1 {
		r.Read(body)
		return append([]byte{byte(t), byte(l)}, body...)
	}
	switch t {
	case 1, 2:
		copy(body, cliMAC)
	case 3:
		if len(body) >= 30 {
			body[0], body[1] = 64, 0xc0
			binary.BigEndian.PutUint32(body[2:6], 86400)
			binary.BigEndian.PutUint32(body[6:10], 14400)
			copy(body[14:30], []byte{0x20, 0x01, 0x0d, 0xb8, 0, 1, 0, 2})
		}
	case 5:
		binary.BigEndian.PutUint32(body[2:6], 1500)
	case 24:
		pl := []int{0, 0, 64, 128, 64, 0}[l%6]
		body[0] = byte(pl)
		body[1] = 0x08
		binary.BigEndian.PutUint32(body[2:6], 1800)
		if len(body) > 6 {
			copy(body[6:], []byte{0x20, 0x01, 0x0d, 0xb8})
		}
	case 25:
		binary.BigEndian.PutUint32(body[2:6], 600)
		for i := 6; i+16 <= len(body); i += 16 {
			copy(body[i:], []byte{0x20, 0x01, 0x48, 0x60, 0x48, 0x60, 0, 0, 0, 0, 0, 0, 0, 0, 0x88, byte(i)})
		}
	case 31:
		binary.BigEndian.PutUint32(body[2:6], 600)
		label := "lan"
		switch str(e, "c") {
		case "puny.long": // decodes to more octets than the wire form
			label = puny.ToASCII(strings.Repeat("ä", 10+r.Intn(4)))
		case "puny.short": // decodes to fewer octets
			label = puny.ToASCII("m" + "ü" + "nchen")
		case "puny.bad":
			label = "xn--" + string(letters(r, 3)) + "-" + "9999"
		}
		dn := append([]byte{byte(len(label))}, label...)
		dn = append(dn, 3, 'l', 'a', 'n', 0)
		if len(body) >= 6+len(dn) {
			copy(body[6:], dn)
		} else if len(body) >= 6+5 {
			copy(body[6:], []byte{3, 'l', 'a', 'n', 0})
		}
	default:
		r.Read(body)
	}
	return append([]byte{byte(t), byte(l)}, body...)
}

func genNDP(v *Vector, r *rand.Rand, k int) []*Case {
	var opts []byte
	for _, e := range v.Seq {
		opts = append(opts, ndpOption(r, e, k)...)
	}
	mk := func(entry, group string, typ byte, hdr int, run func(*env, *Case, *Result)) *Case {
		p := make([]byte, hdr)
		p[0] = typ
		if typ == 134 {
			p[4], p[5] = 64, 0x40
			binary.BigEndian.PutUint16(p[6:8], 1800)
		}
		if typ == 135 || typ == 136 || typ == 137 {
			t := netip.MustParseAddr("fe80::1:5").As16()
			if typ == 135 && k%2 == 1 {
				t = netip.MustParseAddr("2001:db8::5").As16()
			}
			copy(p[8:24], t[:])
			if typ == 136 {
				p[4] = 0x20 // override, unsolicited
			}
		}
		p = append(p, opts...)
		c := &Case{Entry: entry, Group: group, Payload: p, Run: run}
		return c
	}
	w := wrapInfo{kind: wrapICMP6, smac: cliMAC, dmac: vh.AllNodesM6, sip: cliLLA, dip: vh.AllNodes6}
	var out []*Case
	add := func(c *Case, frame bool) {
		if frame {
			c.wrap = w
			c.Frame = w.build(c.Payload)
			c.Run = runFrame
		}
		out = append(out, c)
	}
	add(mk("RA.Options", "opts", 134, 16, runRA), false)
	add(mk("RS.Options", "opts", 133, 8, runRS), false)
	add(mk("ND.views", "view", 136, 24, runNDViews), false)
	add(mk("H6.RA", "opts", 134, 16, nil), true)
	if k == 0 {
		add(mk("H6.NS", "h6", 135, 24, nil), true)
		add(mk("H6.NA", "h6", 136, 24, nil), true)
		add(mk("H6.RS", "h6", 133, 8, nil), true)
		add(mk("H6.Redirect", "h6", 137, 40, nil), true)
	}
	return out
}

// ---------------------------------------------------------------------------------------------
// LLDP

func genLLDP(v *Vector, r *rand.Rand, k int) []*Case {
	var b []byte
	for _, e := range v.Seq {
		t, l, p := num(e, "t"), num(e, "l"), str(e, "p")
		if p == "hdr1" {
			b = append(b, byte(t<<1))
			continue
		}
		b = append(b, byte(t<<1)|byte(l>>8), byte(l))
		n := l
		if p == "body" {
			n = l - 1
		}
		for i := 0; i < n; i++ {
			b = append(b, 0xfe|byte(i&1)) // value octets that never look like a short TLV header
		}
	}
	for i := 0; i < num(v.Aux, "trail"); i++ {
		b = append(b, 0)
	}
	w := wrapInfo{kind: wrapEther, smac: cliMAC, dmac: net.HardwareAddr{0x01, 0x80, 0xc2, 0, 0, 0x0e}, etype: 0x88cc}
	c1 := &Case{Entry: "LLDP.views", Group: "tlv", Payload: b, Run: runLLDP}
	c2 := &Case{Entry: "Parse.LLDP", Group: "tlv", Payload: b, Frame: w.build(b), Run: runFrame, wrap: w}
	if k > 0 {
		return nil // the encoding has no free octets
	}
	return []*Case{c1, c2}
}

// ---------------------------------------------------------------------------------------------
// hop-by-hop options

func genHBH(v *Vector, r *rand.Rand, k int) []*Case {
	var area []byte
	for _, e := range v.Seq {
		n := num(e, "n")
		switch str(e, "k") {
		case "pad1":
			area = append(area, 0)
		case "padn":
			area = append(area, 1, byte(n))
			area = append(area, make([]byte, n)...)
		case "ralert":
			area = append(area, 5, 2, 0, byte(k%3))
		case "unk":
			area = append(area, 0x1e, byte(n))
			area = append(area, randBytes(r, n)...)
		case "lencut":
			area = append(area, 0x1e)
		case "ralertcut":
			area = append(area, 5, 2, 0)
		case "over":
			area = append(area, 0x1e, byte(n))
		}
	}
	// the options area of a header is 8m+6 octets: put padding in front so that a cut element ends it
	pad := (6 - len(area)%8 + 8) % 8
	var front []byte
	if pad == 1 {
		front = []byte{0}
	} else if pad >= 2 {
		front = append([]byte{1, byte(pad - 2)}, make([]byte, pad-2)...)
	}
	area = append(front, area...)
	hdr := []byte{58, byte((2+len(area))/8 - 1)}
	p := append(hdr, area...)
	// IsValid demands two octets more than the header covers: the ICMPv6 message that follows
	rest := []byte{128, 0, 0, 0, 0, 1, 0, 1}
	p = append(p, rest...)
	c1 := &Case{Entry: "HBH.parse", Group: "all", Payload: p, Run: runHBH}
	fr := vh.Ether(vh.AllNodesM6, cliMAC, 0x86dd, vh.IP6(cliLLA, vh.AllNodes6, 0, 1, p))
	c2 := &Case{Entry: "Parse.IP6hbh", Group: "all", Frame: fr, Run: runFrame}
	if k > 0 {
		return []*Case{c1}
	}
	return []*Case{c1, c2}
}

// ---------------------------------------------------------------------------------------------
// DHCPv4

func genDHCP(v *Vector, r *rand.Rand, k int) []*Case {
	op, port := num(v.Aux, "op"), num(v.Aux, "port")
	b := make([]byte, 240)
	b[0], b[1], b[2] = byte(op), 1, 6
	r.Read(b[4:8])
	if k%2 == 1 {
		b[10] = 0x80
	}
	copy(b[28:34], cliMAC)
	copy(b[236:240], []byte{99, 130, 83, 99})
	for _, e := range v.Seq {
		c, n := num(e, "c"), num(e, "n")
		switch str(e, "k") {
		case "pad":
			b = append(b, 0)
		case "end":
			b = append(b, 255)
		case "lencut":
			b = append(b, byte(c))
		case "bodycut":
			b = append(b, byte(c), byte(n))
			have := r.Intn(3)
			if have >= n {
				have = n - 1
			}
			b = append(b, randBytes(r, have)...)
		default:
			b = append(b, byte(c), byte(n))
			data := make([]byte, n)
			switch c {
			case 53:
				if n >= 1 {
					data[0] = byte(num(e, "v"))
				}
			case 50:
				ip := u0.IP("a5").As4()
				copy(data, ip[:])
			case 54:
				ip := u0.Cfg.HostIP.As4()
				if k%2 == 1 {
					ip = u0.Cfg.RouterIP.As4()
				}
				copy(data, ip[:])
			case 12:
				copy(data, "laptop7")
			case 61:
				if n > 0 {
					data[0] = 1
					copy(data[1:], cliMAC)
				}
			case 55:
				copy(data, []byte{1, 3, 6, 15, 121, 33, 42})
			default:
				r.Read(data)
			}
			b = append(b, data...)
		}
	}
	if k%2 == 1 && len(b) < 300 && (len(v.Seq) == 0 || str(v.Seq[len(v.Seq)-1], "k") == "end") {
		b = append(b, make([]byte, 300-len(b))...)
	}
	var w wrapInfo
	if port == 67 {
		w = udp4(cliMAC, vh.Bcast, netip.IPv4Unspecified(), bcastIP, 68, 67)
		if k%2 == 1 {
			w = udp4(cliMAC, vh.OwnMAC, cliIP, u0.Cfg.HostIP, 68, 67)
		}
	} else {
		w = udp4(vh.RouterMAC, vh.Bcast, u0.Cfg.RouterIP, bcastIP, 67, 68)
	}
	c1 := &Case{Entry: "DHCP4.views", Group: "all", Payload: b, Run: runDHCPViews}
	c2 := &Case{Entry: "H.dhcp", Group: "all", Payload: b, Frame: w.build(b), Run: runFrame, wrap: w}
	return []*Case{c1, c2}
}

// ---------------------------------------------------------------------------------------------
// ICMPv4

func genICMP4(v *Vector, r *rand.Rand, k int) []*Case {
	if len(v.Seq) == 0 {
		return nil
	}
	o := v.Seq[0]
	p := []byte{byte(num(o, "ty")), byte(num(o, "code")), 0, 0, 0, 0, 0, 0}
	if num(o, "ty") == 0 || num(o, "ty") == 8 {
		p[4], p[5], p[6], p[7] = 0x12, 0x34, 0, 1
	}
	if len(v.Seq) == 2 {
		ip := func(b0 byte, tot int, proto byte, n int) []byte {
			x := make([]byte, n)
			if n > 0 {
				x[0] = b0
			}
			if n >= 20 {
				binary.BigEndian.PutUint16(x[2:4], uint16(tot))
				x[8], x[9] = 64, proto
				s, d := cliIP.As4(), netip.MustParseAddr("8.8.8.8").As4()
				copy(x[12:16], s[:])
				copy(x[16:20], d[:])
			}
			if n > 20 {
				r.Read(x[20:])
			}
			return x
		}
		var emb []byte
		switch str(v.Seq[1], "c") {
		case "short":
			emb = ip(0x45, 28, 17, 12)
		case "ok.udp":
			emb = ip(0x45, 28, 17, 28)
		case "ok.tcp":
			emb = ip(0x45, 40, 6, 40)
		case "ok.other":
			emb = ip(0x45, 28, 1, 28)
		case "ihl0":
			emb = ip(0x40, 28, 17, 28)
		case "ihl>len":
			emb = ip(0x4f, 28, 17, 28)
		case "tot<ihl.udp":
			emb = ip(0x45, 10, 17, 28)
		case "tot<ihl.tcp":
			emb = ip(0x45, 12, 6, 40)
		case "tot<ihl.other":
			emb = ip(0x45, 10, 1, 28)
		case "tot>len":
			emb = ip(0x45, 100, 17, 28)
		case "udp.short":
			emb = ip(0x45, 24, 17, 24)
		case "tcp.short":
			emb = ip(0x45, 30, 6, 30)
		}
		p = append(p, emb...)
	}
	w := wrapInfo{kind: wrapICMP4, smac: vh.RouterMAC, dmac: cliMAC, sip: u0.Cfg.RouterIP, dip: cliIP}
	if k%2 == 1 {
		w = wrapInfo{kind: wrapICMP4, smac: cliMAC, dmac: vh.RouterMAC, sip: cliIP, dip: u0.Cfg.RouterIP}
	}
	c1 := &Case{Entry: "H4", Group: "h4", Payload: p, Frame: w.build(p), Run: runFrame, wrap: w}
	c2 := &Case{Entry: "ICMP.views", Group: "view", Payload: p, Run: runICMPViews}
	if k > 0 {
		return []*Case{c1}
	}
	return []*Case{c1, c2}
}

// ---------------------------------------------------------------------------------------------
// SSDP

func genSSDP(v *Vector, r *rand.Rand, k int) []*Case {
	if len(v.Seq) == 0 {
		return nil
	}
	var s string
	switch str(v.Seq[0], "v") {
	case "notify":
		s = "NOTIFY * HTTP/1.1\r\nHOST: 239.255.255.250:1900\r\n"
	case "msearch":
		s = "M-SEARCH * HTTP/1.1\r\nHOST: 239.255.255.250:1900\r\n"
	case "resp200":
		s = "HTTP/1.1 200 OK\r\n"
	case "resp404":
		s = "HTTP/1.1 404 Not Found\r\n"
	default:
		s = string(letters(r, 9)) + "\r\n"
	}
	for _, e := range v.Seq[1:] {
		switch str(e, "v") {
		case "nts.alive":
			s += "NTS: ssdp:alive\r\n"
		case "nts.byebye":
			s += "NTS: ssdp:byebye\r\n"
		case "nts.other":
			s += "NTS: ssdp:update\r\n"
		case "cc.maxage=N":
			s += "CACHE-CONTROL: max-age=1800\r\n"
		case "cc.maxage":
			s += "CACHE-CONTROL: max-age\r\n"
		case "cc.x=maxage":
			s += "CACHE-CONTROL: x=max-age\r\n"
		case "cc.a=b=c":
			s += "CACHE-CONTROL: max-age=b=c\r\n"
		case "cc.maxage = N":
			s += "CACHE-CONTROL: max-age = 1800\r\n"
		case "man.ok":
			s += "MAN: \"ssdp:discover\"\r\n"
		case "man.bad":
			s += "MAN: ssdp:nothing\r\n"
		case "ua.iphone":
			s += "USER-AGENT: My App/4 (iPhone; iOS 12.4) CocoaSSDP/0.1.0/1\r\n"
		case "ua.windows":
			s += "USER-AGENT: Microsoft Edge/91.0.864.64 Windows\r\n"
		case "loc":
			s += "LOCATION: http://192.168.0.1:49152/desc.xml\r\n"
		}
	}
	if str(v.Aux, "term") == "crlf2" {
		s += "\r\n"
	}
	if k > 0 {
		return nil
	}
	p := []byte(s)
	w := udp4(cliMAC, mdnsMAC, cliIP, netip.MustParseAddr("239.255.255.250"), 50000, 1900)
	c1 := &Case{Entry: "SSDP.process", Group: "ssdp", Payload: p, Run: runSSDP, NeedHook: true}
	c2 := &Case{Entry: "H.ssdp", Group: "ssdp", Payload: p, Frame: w.build(p), Run: runFrame, NeedHook: true, wrap: w}
	return []*Case{c1, c2}
}

// ---------------------------------------------------------------------------------------------
// ARP and 802.3/LLC (class products, one element)

func genARP(v *Vector, r *rand.Rand, k int) []*Case {
	if len(v.Seq) == 0 || k > 0 {
		return nil
	}
	e := v.Seq[0]
	sip, tip := cliIP, u0.Cfg.RouterIP
	switch str(e, "kind") {
	case "probe":
		sip, tip = netip.IPv4Unspecified(), u0.IP("a7")
	case "announce":
		tip = sip
	case "lla":
		sip = netip.MustParseAddr("169.254.3.4")
	case "offlan":
		sip = netip.MustParseAddr("8.8.4.4")
	}
	b := vh.ARP(uint16(num(e, "op")), cliMAC, sip, vh.ZeroMAC, tip)
	b[4], b[5] = byte(num(e, "hlen")), byte(num(e, "plen"))
	if !boolean(e, "eth") {
		b[0], b[1] = 0, 6
	}
	n := num(e, "len")
	for len(b) < n {
		b = append(b, 0)
	}
	b = b[:n]
	w := wrapInfo{kind: wrapEther, smac: cliMAC, dmac: vh.Bcast, etype: 0x0806}
	return []*Case{{Entry: "H.arp", Group: "all", Payload: b, Frame: w.build(b), Run: runFrame, wrap: w}}
}

func genLLC(v *Vector, r *rand.Rand, k int) []*Case {
	if len(v.Seq) == 0 || k > 0 {
		return nil
	}
	e := v.Seq[0]
	var b []byte
	switch str(e, "sap") {
	case "stp":
		b = []byte{0x42, 0x42}
	case "snap":
		b = []byte{0xaa, 0xaa}
	case "ipx":
		b = []byte{0xe0, 0xe0}
	default:
		b = []byte{0x06, 0x06}
	}
	n := num(e, "len")
	b = append(b, byte(num(e, "ctl")))
	b = append(b, randBytes(r, n)...)
	b = b[:n]
	fr := vh.Ether(net.HardwareAddr{0x01, 0x80, 0xc2, 0, 0, 0}, cliMAC, uint16(n), b)
	return []*Case{{Entry: "H.8023", Group: "all", Payload: b, Frame: fr, Run: runFrame, wrap: wrapInfo{kind: wrapEther, smac: cliMAC, dmac: vh.Bcast, etype: uint16(n)}}}
}
