package main

import (
	"bufio"
	"encoding/json"
	"fmt"
	"net"
	"net/netip"
	"os"
	"time"

	"github.com/irai/packet"
	"verifharness/vh"
)

// names mode: spec/Names.tla against packet.NameEntry.Merge and Host.Update*Name.

type entryJ struct {
	Name         string `json:"Name"`
	Model        string `json:"Model"`
	OS           string `json:"OS"`
	Manufacturer string `json:"Manufacturer"`
}

// concrete spellings of the abstract values: the variants of a differ in letter case, trailing blank / tab / CR LF / dot;
// "sp" is a value that consists of one blank
var concrete = map[string]string{"": "", "a": "host-a", "A": "HOST-A", "a.": "host-a.", "b": "host-b",
	"a_sp": "host-a ", "sp": " ", "a_tab": "host-a\t", "a_crlf": "host-a\r\n"}
var abstract = func() map[string]string {
	m := map[string]string{}
	for k, v := range concrete {
		m[v] = k
	}
	return m
}()

func conc(s string) string {
	if c, ok := concrete[s]; ok {
		return c
	}
	return s
}
func abst(s string) string {
	if a, ok := abstract[s]; ok {
		return a
	}
	return "?" + s
}

func (e entryJ) real(typ string) packet.NameEntry {
	return packet.NameEntry{Type: typ, Name: conc(e.Name), Model: conc(e.Model), OS: conc(e.OS), Manufacturer: conc(e.Manufacturer)}
}
func proj(n packet.NameEntry) entryJ {
	return entryJ{Name: abst(n.Name), Model: abst(n.Model), OS: abst(n.OS), Manufacturer: abst(n.Manufacturer)}
}
func (e entryJ) attrs() [4]string { return [4]string{e.Name, e.Model, e.OS, e.Manufacturer} }

type pairJ struct {
	E entryJ `json:"e"`
	N entryJ `json:"n"`
	R entryJ `json:"r"`
	M bool   `json:"m"`
}

type stepJ struct {
	A   string `json:"a"`
	H   string `json:"h"`
	S   string `json:"s"`
	N   entryJ `json:"n"`
	Exp struct {
		Host  entryJ `json:"host"`
		Mac   entryJ `json:"mac"`
		Dirty bool   `json:"dirty"`
		Mod   bool   `json:"mod"`
	} `json:"exp"`
}

// NameFinding is one contradiction. Level "property": a lemma of the statement fails on the real
// code; level "mechanism": the real result differs from the reference definition only.
type NameFinding struct {
	Kind  string      `json:"kind"`  // pair | hist
	Level string      `json:"level"` // property | mechanism
	Lemma string      `json:"lemma"`
	Case  interface{} `json:"case"`
	Step  int         `json:"step,omitempty"`
	Got   interface{} `json:"got"`
}

func noErase(before, after entryJ) bool {
	b, a := before.attrs(), after.attrs()
	for i := range b {
		if b[i] != "" && a[i] == "" {
			return false
		}
	}
	return true
}

func checkPair(p pairJ) []NameFinding {
	var out []NameFinding
	e, n := p.E.real("x"), p.N.real("y")
	n.Expire = time.Unix(1700000000, 0)
	r, m := e.Merge(n)
	got := map[string]interface{}{"r": proj(r), "m": m}
	if !noErase(p.E, proj(r)) {
		out = append(out, NameFinding{Kind: "pair", Level: "property", Lemma: "NoErase", Case: p, Got: got})
	}
	if m != (proj(r) != p.E) {
		out = append(out, NameFinding{Kind: "pair", Level: "property", Lemma: "ChangeIff", Case: p, Got: got})
	}
	r2, m2 := r.Merge(n)
	if m2 || proj(r2) != proj(r) {
		out = append(out, NameFinding{Kind: "pair", Level: "property", Lemma: "Idempotent", Case: p, Got: map[string]interface{}{"r": proj(r), "r2": proj(r2), "m2": m2}})
	}
	if len(out) == 0 && (proj(r) != p.R || m != p.M) {
		out = append(out, NameFinding{Kind: "pair", Level: "mechanism", Lemma: "Merge", Case: p, Got: got})
	}
	return out
}

var uN = &vh.Universe{Cfg: vh.Configs[2]} // 172.20.0.0/16

type nameEnv struct {
	s   *packet.Session
	seq int
}

func slot(h *packet.Host, s string) *packet.NameEntry {
	switch s {
	case "DHCP4":
		return &h.DHCP4Name
	case "MDNS":
		return &h.MDNSName
	case "SSDP":
		return &h.SSDPName
	case "LLMNR":
		return &h.LLMNRName
	}
	return &h.NBNSName
}
func macSlot(m *packet.MACEntry, s string) *packet.NameEntry {
	switch s {
	case "DHCP4":
		return &m.DHCP4Name
	case "MDNS":
		return &m.MDNSName
	case "SSDP":
		return &m.SSDPName
	case "LLMNR":
		return &m.LLMNRName
	}
	return &m.NBNSName
}
func update(h *packet.Host, s string, n packet.NameEntry) {
	switch s {
	case "DHCP4":
		h.UpdateDHCP4Name(n)
	case "MDNS":
		h.UpdateMDNSName(n)
	case "SSDP":
		h.UpdateSSDPName(n)
	case "LLMNR":
		h.UpdateLLMNRName(n)
	default:
		h.UpdateNBNSName(n)
	}
}

// checkHist executes one update history on two real hosts (IPv4 and IPv6 address of one MAC).
func (ne *nameEnv) checkHist(hist []stepJ) []NameFinding {
	ne.seq++
	mac := net.HardwareAddr{0x02, 0x10, byte(ne.seq >> 24), byte(ne.seq >> 16), byte(ne.seq >> 8), byte(ne.seq)}
	// a /16 LAN: every history of a session gets an address of its own (a re-used address would make
	// the session re-link the host and print its whole table)
	ip4 := uN.IP("a1")
	b4 := ip4.As4()
	b4[2], b4[3] = byte(8+(ne.seq%2000)/250), byte(1+(ne.seq%2000)%250)
	ip4 = netip.AddrFrom4(b4)
	lla := u0.IP("l1").As16()
	lla[10], lla[11], lla[12], lla[13] = mac[2], mac[3], mac[4], mac[5]
	f4 := vh.FrameIP4UDP(mac, vh.RouterMAC, ip4, uN.Cfg.RouterIP, 4000, 123, []byte("x"))
	f6 := vh.FrameIP6UDP(mac, vh.AllNodesM6, netip.AddrFrom16(lla), vh.AllNodes6, 4000, 123, []byte("x"))
	hosts := map[string]*packet.Host{}
	frames := map[string][]byte{"h1": f4, "h2": f6}
	// a MAC seen before under this IPv4 address would be re-linked: make room
	for name, f := range frames {
		fr, err := ne.s.Parse(append([]byte{}, f...))
		if err != nil || fr.Host == nil {
			return []NameFinding{{Kind: "hist", Level: "infra", Lemma: "setup", Case: hist, Got: fmt.Sprint(err)}}
		}
		ne.s.Notify(fr)
		hosts[name] = fr.Host
	}
	drain(ne.s)
	var out []NameFinding
	known := map[string]map[int]bool{}
	changed := map[string]bool{}
	for i, st := range hist {
		h := hosts[st.H]
		if st.A == "notify" {
			fr, err := ne.s.Parse(append([]byte{}, frames[st.H]...))
			if err == nil {
				ne.s.Notify(fr)
			}
			drain(ne.s)
			changed[st.H] = false
			if h.Dirty() {
				out = append(out, NameFinding{Kind: "hist", Level: "property", Lemma: "DirtyClearedByNotify", Case: hist, Step: i})
			}
			continue
		}
		before := proj(*slot(h, st.S))
		update(h, st.S, st.N.real("t"))
		after := proj(*slot(h, st.S))
		macAfter := proj(*macSlot(h.MACEntry, st.S))
		got := map[string]interface{}{"host": after, "mac": macAfter, "dirty": h.Dirty()}
		// property level
		k := st.H + "/" + st.S
		if known[k] == nil {
			known[k] = map[int]bool{}
		}
		na := st.N.attrs()
		for j := range na {
			if na[j] != "" {
				known[k][j] = true
			}
		}
		aa, ma := after.attrs(), macAfter.attrs()
		for j := range known[k] {
			if aa[j] == "" || ma[j] == "" {
				out = append(out, NameFinding{Kind: "hist", Level: "property", Lemma: "NoErase", Case: hist, Step: i, Got: got})
				break
			}
		}
		if after != before {
			changed[st.H] = true
		}
		if !noErase(before, after) {
			out = append(out, NameFinding{Kind: "hist", Level: "property", Lemma: "NoErase", Case: hist, Step: i, Got: got})
		}
		if h.Dirty() != changed[st.H] {
			out = append(out, NameFinding{Kind: "hist", Level: "property", Lemma: "ChangeIff(dirty)", Case: hist, Step: i, Got: got})
		}
		if len(out) == 0 && (after != st.Exp.Host || macAfter != st.Exp.Mac || h.Dirty() != st.Exp.Dirty) {
			out = append(out, NameFinding{Kind: "hist", Level: "mechanism", Lemma: "Update", Case: hist, Step: i, Got: got})
		}
		if len(out) > 0 {
			break
		}
	}
	return out
}

func drain(s *packet.Session) {
	for {
		select {
		case <-s.C:
		default:
			return
		}
	}
}

func runNames() {
	vh.Quiet()
	real := os.Stdout
	if f, err := os.OpenFile(os.DevNull, os.O_WRONLY, 0); err == nil {
		os.Stdout = f
	}
	out, err := os.Create(*fOut)
	if err != nil {
		fmt.Fprintln(os.Stderr, err)
		os.Exit(2)
	}
	w := bufio.NewWriter(out)
	defer w.Flush()
	sum := map[string]int{}
	emit := func(fs []NameFinding) {
		for _, f := range fs {
			sum["findings_"+f.Level]++
			if sum["findings_"+f.Level] <= 200 {
				j, _ := json.Marshal(f)
				w.Write(j)
				w.WriteByte('\n')
			}
		}
	}
	if *fPairs != "" {
		f, err := os.Open(*fPairs)
		if err != nil {
			fmt.Fprintln(os.Stderr, err)
			os.Exit(2)
		}
		sc := bufio.NewScanner(f)
		sc.Buffer(make([]byte, 1<<20), 1<<26)
		for sc.Scan() {
			var p pairJ
			if err := json.Unmarshal(sc.Bytes(), &p); err != nil {
				fmt.Fprintln(os.Stderr, "bad pair:", err)
				os.Exit(2)
			}
			sum["pairs"]++
			emit(checkPair(p))
		}
		f.Close()
	}
	if *fHosts != "" {
		s, _, err := vh.NewSession(uN, 1, 2, 4)
		if err != nil {
			fmt.Fprintln(os.Stderr, err)
			os.Exit(2)
		}
		ne := &nameEnv{s: s}
		f, err := os.Open(*fHosts)
		if err != nil {
			fmt.Fprintln(os.Stderr, err)
			os.Exit(2)
		}
		sc := bufio.NewScanner(f)
		sc.Buffer(make([]byte, 1<<20), 1<<26)
		t0 := time.Now()
		for sc.Scan() {
			var h []stepJ
			if err := json.Unmarshal(sc.Bytes(), &h); err != nil {
				fmt.Fprintln(os.Stderr, "bad history:", err)
				os.Exit(2)
			}
			sum["histories"]++
			sum["steps"] += len(h)
			emit(ne.checkHist(h))
			if sum["histories"]%2000 == 0 {
				// the tables would grow without bound: start over with a new session
				go s.Close()
				if s, _, err = vh.NewSession(uN, 1, 2, 4); err != nil {
					fmt.Fprintln(os.Stderr, err)
					os.Exit(2)
				}
				ne.s = s
			}
			if time.Since(t0) > 150*time.Second {
				fmt.Fprintln(os.Stderr, "walkdrv names: too slow")
				os.Exit(2)
			}
		}
		f.Close()
		go s.Close()
	}
	j, _ := json.Marshal(sum)
	fmt.Fprintln(real, string(j))
}
