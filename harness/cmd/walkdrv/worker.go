package main

import (
	"bufio"
	"encoding/hex"
	"encoding/json"
	"fmt"
	"math/rand"
	"os"
	"path/filepath"
	"regexp"
	"runtime"
	"runtime/debug"
	"strings"
	"sync/atomic"
	"time"

	"github.com/irai/packet"
	"github.com/irai/packet/handlers/arp_spoofer"
	"github.com/irai/packet/handlers/dhcp4_spoofer"
	"github.com/irai/packet/handlers/icmp_spoofer"
	"verifharness/vh"
)

// env is what a worker process owns: one session with the public handlers attached.
type env struct {
	u    *vh.Universe
	s    *packet.Session
	conn *vh.RecConn
	fc   *failConn
	arp  *arp_spoofer.Handler
	dhcp *dhcp4_spoofer.Handler
	h4   *icmp_spoofer.Handler4
	h6   *icmp_spoofer.Handler6
	tmp  string
	rx   []byte // receive buffer (capacity of the packet loop's buffer)
}

// scratchDir is where temporary files go: the directory of the output / case file, which lies in the
// check's scratch directory and is removed with it (workers that are killed cannot clean up themselves).
var scratchDir = ""

func newEnv() (*env, error) {
	switch {
	case *fOut != "":
		scratchDir = filepath.Dir(*fOut)
	case *fCase != "":
		scratchDir = filepath.Dir(*fCase)
	}
	vh.Quiet()
	if os.Getenv("VERIF_STDOUT") == "" {
		if f, err := os.OpenFile(os.DevNull, os.O_WRONLY, 0); err == nil {
			os.Stdout = f
		}
	}
	e := &env{u: &vh.Universe{Cfg: vh.Configs[0]}}
	var err error
	if e.s, e.conn, err = vh.NewSession(e.u, 1, 2, 4); err != nil {
		return nil, err
	}
	e.fc = &failConn{inner: e.conn}
	e.s.Conn = e.fc // every frame the library sends goes through the failure injector
	if e.arp, err = arp_spoofer.New(e.s); err != nil {
		return nil, err
	}
	if e.tmp, err = os.MkdirTemp(scratchDir, "walkdrv-lease-"); err != nil {
		return nil, err
	}
	cfg := dhcp4_spoofer.Config{Mode: dhcp4_spoofer.ModeSecondaryServer, DNSServer: e.u.Cfg.RouterIP,
		NetfilterIP: netipPrefix(e.u.Cfg.HostIP, 25), LeaseFilename: e.tmp + "/leases.yaml"}
	if e.dhcp, err = cfg.New(e.s); err != nil {
		return nil, err
	}
	if e.h4, err = icmp_spoofer.New4(e.s); err != nil {
		return nil, err
	}
	if e.h6, err = icmp_spoofer.New6(e.s); err != nil {
		return nil, err
	}
	e.rx = make([]byte, packet.EthMaxSize)
	return e, nil
}

func (e *env) close() {
	os.RemoveAll(e.tmp)
}

// deliver copies a frame into the receive buffer and parses it the way the packet loop does.
func (e *env) deliver(b []byte) (packet.Frame, error) {
	if len(b) > len(e.rx) {
		b = b[:len(e.rx)]
	}
	n := copy(e.rx, b)
	for i := n; i < len(e.rx); i++ { // what lies behind the frame in the loop's buffer: made deterministic
		e.rx[i] = 0
	}
	e.conn.Take()
	return e.s.Parse(e.rx[:n])
}

var siteRE = regexp.MustCompile(`(?m)^(github\.com/irai/packet[^\s(]*(?:\([^)]*\))?[^\s(]*)\(`)

// siteOf extracts the innermost function of the library from a stack dump of one goroutine.
func cleanSite(full string) string {
	if strings.Contains(full, "verifharness") {
		return ""
	}
	f := strings.TrimPrefix(full, "github.com/irai/packet/handlers/")
	f = strings.TrimPrefix(f, "github.com/irai/packet")
	f = strings.TrimPrefix(f, ".")
	if f == "" {
		return ""
	}
	if !strings.Contains(full, "/handlers/") {
		f = "packet." + f
	}
	return f
}

func siteOf(stack string) string {
	for _, m := range siteRE.FindAllStringSubmatch(stack, -1) {
		if f := cleanSite(m[1]); f != "" {
			return f
		}
	}
	return ""
}

// mainFrames returns the library frames of goroutine 1, outermost first.
func mainFrames() []string {
	buf := make([]byte, 1<<20)
	n := runtime.Stack(buf, true)
	stack := string(buf[:n])
	if i := strings.Index(stack, "goroutine 1 ["); i >= 0 {
		stack = stack[i:]
		if j := strings.Index(stack[1:], "\ngoroutine "); j >= 0 {
			stack = stack[:j+1]
		}
	}
	var out []string
	for _, m := range siteRE.FindAllStringSubmatch(stack, -1) {
		// logging frames come and go inside a spinning loop: they never are the loop itself
		if f := cleanSite(m[1]); f != "" && !strings.Contains(f, "/fastlog.") {
			out = append([]string{f}, out...)
		}
	}
	return out
}

// spinSite samples the main goroutine a few times: the function that spins is the innermost frame
// common to all samples (frames below it come and go).
func spinSite() string {
	for try := 0; try < 3; try++ {
		if s := spinSite1(); s != "" {
			return s
		}
	}
	return ""
}

func spinSite1() string {
	var common []string
	for k := 0; k < 8; k++ {
		fr := mainFrames()
		if k == 0 {
			common = fr
		} else {
			n := 0
			for n < len(common) && n < len(fr) && common[n] == fr[n] {
				n++
			}
			common = common[:n]
		}
		time.Sleep(4 * time.Millisecond)
	}
	if len(common) > 0 {
		return common[len(common)-1]
	}
	if os.Getenv("VERIF_DEBUG") != "" {
		buf := make([]byte, 1<<20)
		fmt.Fprintln(os.Stderr, string(buf[:runtime.Stack(buf, true)]))
	}
	return ""
}

type runner struct {
	e        *env
	out      *bufio.Writer
	outF     *os.File
	cur      *os.File
	sum      *Summary
	started  int64 // unix nanos of the running call, 0 when idle
	curRes   atomic.Value
	watchdog time.Duration
	skip     map[string]bool
}

func (r *runner) emit(res *Result) {
	j, _ := json.Marshal(res)
	r.out.Write(j)
	r.out.WriteByte('\n')
}

func (r *runner) finish() {
	j, _ := json.Marshal(map[string]interface{}{"summary": r.sum})
	r.out.Write(j)
	r.out.WriteByte('\n')
	r.out.Flush()
	r.outF.Sync()
}

// watch runs in its own goroutine: when a call exceeds the deadline it reports the case as hung,
// with the place where the main goroutine is spinning, and terminates the process.
func (r *runner) watch() {
	for {
		time.Sleep(r.watchdog / 6)
		st := atomic.LoadInt64(&r.started)
		if st == 0 || time.Since(time.Unix(0, st)) < r.watchdog {
			continue
		}
		res, _ := r.curRes.Load().(*Result)
		if res == nil {
			continue
		}
		site := spinSite()
		if atomic.LoadInt64(&r.started) != st { // the call returned meanwhile
			continue
		}
		res.Outcome = "hang"
		res.Site = site
		r.sum.Outcomes[res.W+"/"+res.Entry+"/hang"]++
		r.sum.Cases++
		r.notePred(res)
		r.emit(res)
		r.finish()
		os.Exit(3)
	}
}

func (r *runner) notePred(res *Result) {
	if res.Pred != "" && !res.Mut {
		obs := res.Outcome
		if obs == "ret" {
			obs = "ok"
		}
		r.sum.Pred[res.W+"/"+res.Group+"/"+res.Pred+"/"+obs]++
	}
}

// prepare normalises the input: a byte string has no spare capacity behind it.
func prepare(c *Case) {
	if c.Payload != nil {
		exact := make([]byte, len(c.Payload))
		copy(exact, c.Payload)
		c.Payload = exact
	}
}

// exec runs one case under recover; the watchdog goroutine handles hangs.
func (r *runner) exec(v *Vector, ci int, c *Case) {
	res := &Result{V: v.ID, C: ci, W: v.W, Cls: v.Cls, Entry: c.Entry, Group: c.Group, Mut: c.Mut, Pred: v.Mech[c.Group]}
	if c.Mut {
		res.Cls = "mut"
	}
	if c.Frame != nil {
		res.Hex = hex.EncodeToString(c.Frame)
	} else {
		res.Hex = hex.EncodeToString(c.Payload)
	}
	// hang budget: a class of inputs on which the code is known (predicted) to spin is exercised
	// only a bounded number of times per run; the same bound applies to unpredicted hangs per class
	switch {
	case c.Mut:
		res.HKey = "mut:" + res.W + ":" + res.Group
	case res.Pred == "hang":
		res.HKey = "pred:" + res.W + ":" + res.Group
	default:
		res.HKey = res.W + "." + res.Cls + ":" + res.Group
	}
	if r.skip[res.HKey] {
		r.sum.Skipped[res.HKey]++
		return
	}
	prepare(c)
	if c.NeedHook && !dnsHookPresent {
		r.sum.Skipped["nohook:"+c.Entry]++
		return
	}
	if c.NeedAge && !dnsAgePresent {
		r.sum.Skipped["noagehook:"+c.Entry]++
		return
	}
	// rate limiters and "log once" guards of the library hide code paths from a long running worker:
	// re-arm them so that every case executes the guarded path (STP log line every 5 minutes, DISCOVER storm
	// every 20 s; "every 4th RA" is handled by calling the handler four times; the mDNS cache by fresh handlers)
	resetSTP()
	if v.W == "dhcp" {
		resetStorm()
	}
	fmt.Fprintf(r.cur, "%-10d%-10d", v.ID, ci)
	r.cur.Seek(0, 0)
	r.curRes.Store(res)
	atomic.StoreInt64(&r.started, time.Now().UnixNano())
	func() {
		defer func() {
			if p := recover(); p != nil {
				atomic.StoreInt64(&r.started, 0)
				res.Outcome = "panic"
				res.Msg = fmt.Sprint(p)
				st := string(debug.Stack())
				// frames above the panic call belong to the runtime; the site is the first library frame
				if i := strings.Index(st, "panic("); i >= 0 {
					st = st[i:]
				}
				res.Site = siteOf(st)
			}
		}()
		c.Run(r.e, c, res)
		atomic.StoreInt64(&r.started, 0)
		if res.Outcome == "" {
			res.Outcome = "ret"
		}
	}()
	r.sum.Cases++
	if res.Outcome == "parsepanic" { // Session.Parse itself panicked: property C01, not C08
		r.sum.ParsePanic++
		return
	}
	r.sum.Outcomes[res.W+"/"+res.Entry+"/"+res.Outcome]++
	r.notePred(res)
	if c.Exp != nil && res.Outcome == "ret" {
		r.sum.Compared[res.W+"/"+res.Entry]++
	}
	// differences where the statement does not decide are only counted (drift)
	var strict []Cmp
	for _, x := range res.Cmp {
		if x.Strict {
			strict = append(strict, x)
			r.sum.Strict++
		} else {
			r.sum.Drift[res.W+"/"+res.Entry+"/"+x.What+"/"+x.Against]++
		}
	}
	res.Cmp = strict
	bad := res.Outcome != "ret" || len(res.Cmp) > 0
	if res.Outcome == "ret" && res.Pred != "" && res.Pred != "ok" && !c.Mut {
		bad = true // predicted failure did not happen: reported so that the check can record the drift
		res.Msg = "predicted " + res.Pred
	}
	if bad {
		r.emit(res)
	}
}

func runWorker() {
	e, err := newEnv()
	if err != nil {
		fmt.Fprintln(os.Stderr, "walkdrv worker:", err)
		os.Exit(2)
	}
	defer e.close()
	vs, err := readVectors(*fVectors, *fFrom, *fTo)
	if err != nil {
		fmt.Fprintln(os.Stderr, "walkdrv worker:", err)
		os.Exit(2)
	}
	f, err := os.Create(*fOut)
	if err != nil {
		fmt.Fprintln(os.Stderr, err)
		os.Exit(2)
	}
	cur, err := os.OpenFile(*fCur, os.O_WRONLY|os.O_CREATE, 0o644)
	if err != nil {
		fmt.Fprintln(os.Stderr, err)
		os.Exit(2)
	}
	r := &runner{e: e, out: bufio.NewWriterSize(f, 1<<16), outF: f, cur: cur, sum: newSummary(), watchdog: *fWatchdog, skip: map[string]bool{}}
	for _, k := range strings.Split(*fSkipKeys, ",") {
		if k != "" {
			r.skip[k] = true
		}
	}
	go r.watch()
	t0 := time.Now()
	for i := range vs {
		v := &vs[i]
		cases := genCases(v, seed(), *fK, *fMut)
		first := 0
		if i == 0 {
			first = *fSkip
		}
		if first == 0 {
			r.sum.Vectors++
		}
		for ci := first; ci < len(cases); ci++ {
			r.exec(v, ci, cases[ci])
		}
		if time.Since(t0) > 100*time.Second { // keep worker processes short (NIC monitor of the session)
			keepAlive(e)
			t0 = time.Now()
		}
	}
	r.finish()
	go e.s.Close()
	time.Sleep(5 * time.Millisecond)
}

// keepAlive feeds one IP frame so that the session's NIC monitor stays quiet.
func keepAlive(e *env) {
	fr := vh.FrameIP4UDP(e.u.MAC("m9"), vh.RouterMAC, e.u.IP("a9"), e.u.Cfg.RouterIP, 4000, 123, []byte("x"))
	e.deliver(fr)
}

// runOne re-executes one recorded case (given as a Result with the vector embedded) in a child-less
// fashion: the caller (Python) supplies the watchdog by running this mode with a timeout.
func runOne() {
	b, err := os.ReadFile(*fCase)
	if err != nil {
		fmt.Fprintln(os.Stderr, err)
		os.Exit(2)
	}
	var in struct {
		Vector Vector `json:"vector"`
		C      int    `json:"c"`
		Seed   int64  `json:"seed"`
		K      int    `json:"k"`
		Mut    int    `json:"mut"`
	}
	if err := json.Unmarshal(b, &in); err != nil {
		fmt.Fprintln(os.Stderr, err)
		os.Exit(2)
	}
	real := os.Stdout
	e, err := newEnv()
	if err != nil {
		fmt.Fprintln(os.Stderr, err)
		os.Exit(2)
	}
	defer e.close()
	if in.Vector.JID != nil {
		in.Vector.ID = *in.Vector.JID
	}
	cases := genCases(&in.Vector, in.Seed, in.K, in.Mut)
	if in.C >= len(cases) {
		fmt.Fprintln(os.Stderr, "case index out of range")
		os.Exit(2)
	}
	f, _ := os.CreateTemp(scratchDir, "walkone")
	defer os.Remove(f.Name())
	cur, _ := os.CreateTemp(scratchDir, "walkcur")
	defer os.Remove(cur.Name())
	r := &runner{e: e, out: bufio.NewWriter(f), outF: f, cur: cur, sum: newSummary(), watchdog: *fWatchdog, skip: map[string]bool{}}
	// in this mode a hang is reported by the watchdog on the saved stdout and the process exits 3
	go func() {
		for {
			time.Sleep(r.watchdog / 6)
			st := atomic.LoadInt64(&r.started)
			if st != 0 && time.Since(time.Unix(0, st)) >= r.watchdog {
				res, _ := r.curRes.Load().(*Result)
				if res != nil {
					res.Outcome = "hang"
					res.Site = spinSite()
					j, _ := json.Marshal(res)
					fmt.Fprintln(real, string(j))
				}
				os.Exit(3)
			}
		}
	}()
	c := cases[in.C]
	v := &in.Vector
	res := &Result{V: v.ID, C: in.C, W: v.W, Cls: v.Cls, Entry: c.Entry, Group: c.Group, Mut: c.Mut, Pred: v.Mech[c.Group]}
	if (c.NeedHook && !dnsHookPresent) || (c.NeedAge && !dnsAgePresent) {
		res.Outcome = "skipped"
		j, _ := json.Marshal(res)
		fmt.Fprintln(real, string(j))
		return
	}
	prepare(c)
	resetSTP()
	resetStorm()
	r.curRes.Store(res)
	atomic.StoreInt64(&r.started, time.Now().UnixNano())
	func() {
		defer func() {
			if p := recover(); p != nil {
				atomic.StoreInt64(&r.started, 0)
				res.Outcome = "panic"
				res.Msg = fmt.Sprint(p)
				st := string(debug.Stack())
				if i := strings.Index(st, "panic("); i >= 0 {
					st = st[i:]
				}
				res.Site = siteOf(st)
			}
		}()
		c.Run(e, c, res)
		atomic.StoreInt64(&r.started, 0)
		if res.Outcome == "" {
			res.Outcome = "ret"
		}
	}()
	j, _ := json.Marshal(res)
	fmt.Fprintln(real, string(j))
}

var _ = rand.Int
