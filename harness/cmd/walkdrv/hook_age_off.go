//go:build !(dnshook && dnsage)

package main

import (
	"time"

	"github.com/irai/packet/handlers/dns_naming"
)

// no hook to age the mDNS response cache: the stateful mcache family is skipped
const dnsAgePresent = false

func ageMDNSCache(h *dns_naming.DNSHandler, d time.Duration) {}
