package main

import (
	"fmt"
	"net/netip"
	"sort"
	"strings"

	"github.com/irai/packet"
	"golang.org/x/net/dns/dnsmessage"
)

// refMsg is the decode of a message by golang.org/x/net/dns/dnsmessage (independent implementation).
type refMsg struct {
	ok      bool
	qname   string
	a, aaaa map[string]recExp
	cname   map[string]string
	ptr     map[string]string // target -> owner
	m4, m6  []nameIP
	dupCN   bool
}

func noDot(s string) string {
	if s == "." {
		return ""
	}
	return strings.TrimSuffix(s, ".")
}

func refParse(msg []byte) (r refMsg) {
	r.a, r.aaaa, r.cname, r.ptr = map[string]recExp{}, map[string]recExp{}, map[string]string{}, map[string]string{}
	var p dnsmessage.Parser
	if _, err := p.Start(msg); err != nil {
		return
	}
	qs, err := p.AllQuestions()
	if err != nil {
		return
	}
	if len(qs) > 0 {
		r.qname = noDot(qs[0].Name.String())
	}
	for sec := 0; sec < 3; sec++ {
		for {
			var h dnsmessage.ResourceHeader
			var err error
			switch sec {
			case 0:
				h, err = p.AnswerHeader()
			case 1:
				h, err = p.AuthorityHeader()
			default:
				h, err = p.AdditionalHeader()
			}
			if err == dnsmessage.ErrSectionDone {
				break
			}
			if err != nil {
				return
			}
			owner := noDot(h.Name.String())
			mname := strings.TrimSuffix(h.Name.String(), ".local.")
			switch h.Type {
			case dnsmessage.TypeA:
				if h.Length != 4 {
					return
				}
				x, err := p.AResource()
				if err != nil {
					return
				}
				ip := netip.AddrFrom4(x.A).String()
				if sec == 0 {
					if _, dup := r.a[ip]; !dup {
						r.a[ip] = recExp{owner, h.TTL}
					}
				}
				r.m4 = append(r.m4, nameIP{mname, ip})
			case dnsmessage.TypeAAAA:
				if h.Length != 16 {
					return
				}
				x, err := p.AAAAResource()
				if err != nil {
					return
				}
				ip := netip.AddrFrom16(x.AAAA).String()
				if sec == 0 {
					if _, dup := r.aaaa[ip]; !dup {
						r.aaaa[ip] = recExp{owner, h.TTL}
					}
				}
				r.m6 = append(r.m6, nameIP{mname, ip})
			case dnsmessage.TypeCNAME:
				x, err := p.CNAMEResource()
				if err != nil {
					return
				}
				if sec == 0 {
					if _, dup := r.cname[owner]; dup {
						r.dupCN = true
					}
					r.cname[owner] = noDot(x.CNAME.String())
				}
			case dnsmessage.TypePTR:
				x, err := p.PTRResource()
				if err != nil {
					return
				}
				if sec == 0 {
					r.ptr[noDot(x.PTR.String())] = owner
				}
			default:
				var err error
				switch sec {
				case 0:
					err = p.SkipAnswer()
				case 1:
					err = p.SkipAuthority()
				default:
					err = p.SkipAdditional()
				}
				if err != nil {
					return
				}
			}
		}
	}
	r.ok = true
	return
}

func addCmp(res *Result, against, what, want, got string, strict bool) {
	if len(want) > 300 {
		want = want[:300]
	}
	if len(got) > 300 {
		got = got[:300]
	}
	res.Cmp = append(res.Cmp, Cmp{Against: against, What: what, Want: want, Got: got, Strict: strict})
}

// verdictCmp applies the reference verdict to "the call reported an error".
// It returns true when the decoded value should be compared as well.
func verdictCmp(res *Result, verdict string, strict bool, cls string, err error) bool {
	switch verdict {
	case "accept":
		if err != nil {
			addCmp(res, "spec", "verdict.rejected", "accept", "error: "+err.Error(), strict)
			return false
		}
		return true
	case "reject":
		if err == nil {
			addCmp(res, "reject", "verdict.accepted", "reject("+cls+")", "no error", strict)
			return false
		}
	}
	return false
}

func runDecodeQuestion(e *env, c *Case, res *Result) {
	p := packet.DNS(c.Payload)
	if p.IsValid() != nil {
		res.Err = true
		return
	}
	x := c.Exp
	off := 12
	if x != nil {
		off = x.Off
	}
	q, _, err := packet.DecodeQuestion(p, off, make([]byte, 0, 64))
	res.Err = err != nil
	if x == nil {
		return
	}
	if verdictCmp(res, x.Verdict, x.Strict, x.Cls, err) {
		if string(q.Name) != x.QName {
			addCmp(res, "spec", "qname", x.QName, string(q.Name), true)
		}
	}
	if err == nil && x.Verdict == "reject" && !x.Strict {
		return
	}
	// independent implementation: only when the name is the first question of the message
	if x.Start1 && err == nil {
		var dp dnsmessage.Parser
		if _, e1 := dp.Start(c.Payload); e1 == nil {
			if dq, e2 := dp.Question(); e2 == nil {
				if noDot(dq.Name.String()) != string(q.Name) {
					addCmp(res, "dnsmessage", "qname", noDot(dq.Name.String()), string(q.Name), x.Verdict == "accept" && x.Strict)
				}
			}
		}
	}
}

func fmtRecs(m map[string]recExp) string {
	var s []string
	for ip, r := range m {
		s = append(s, fmt.Sprintf("%s<-%s/%d", ip, r.Owner, r.TTL))
	}
	sort.Strings(s)
	return strings.Join(s, " ")
}
func fmtMap(m map[string]string) string {
	var s []string
	for k, v := range m {
		s = append(s, k+"->"+v)
	}
	sort.Strings(s)
	return strings.Join(s, " ")
}

func gotRecs(m map[netip.Addr]packet.IPResourceRecord) map[string]recExp {
	out := map[string]recExp{}
	for ip, r := range m {
		out[ip.String()] = recExp{r.Name, r.TTL}
	}
	return out
}

// compareEntry compares a decoded DNSEntry with the specification's value and with dnsmessage's.
func compareEntry(res *Result, x *dnsExp, msg []byte, qname string, ent packet.DNSEntry) {
	ga, g6 := gotRecs(ent.IP4Records), gotRecs(ent.IP6Records)
	gc := map[string]string{}
	for k, r := range ent.CNameRecords {
		gc[k] = r.CName
	}
	gp := map[string]string{}
	for k, r := range ent.PTRRecords {
		gp[k] = r.IP.String()
	}
	strict := x.Verdict == "accept" && x.Strict
	if qname != x.QName {
		addCmp(res, "spec", "qname", x.QName, qname, strict)
	}
	if fmtRecs(ga) != fmtRecs(x.A) {
		addCmp(res, "spec", "A", fmtRecs(x.A), fmtRecs(ga), strict)
	}
	if fmtRecs(g6) != fmtRecs(x.AAAA) {
		addCmp(res, "spec", "AAAA", fmtRecs(x.AAAA), fmtRecs(g6), strict)
	}
	if !x.NoCNAME && fmtMap(gc) != fmtMap(x.CNAME) {
		addCmp(res, "spec", "CNAME", fmtMap(x.CNAME), fmtMap(gc), strict)
	}
	if fmtMap(gp) != fmtMap(x.PTR) {
		addCmp(res, "spec", "PTR", fmtMap(x.PTR), fmtMap(gp), strict)
	}
	r := refParse(msg)
	if !r.ok {
		return
	}
	if qname != r.qname {
		addCmp(res, "dnsmessage", "qname", r.qname, qname, strict)
	}
	if fmtRecs(ga) != fmtRecs(r.a) {
		addCmp(res, "dnsmessage", "A", fmtRecs(r.a), fmtRecs(ga), strict)
	}
	if fmtRecs(g6) != fmtRecs(r.aaaa) {
		addCmp(res, "dnsmessage", "AAAA", fmtRecs(r.aaaa), fmtRecs(g6), strict)
	}
	if !r.dupCN && fmtMap(gc) != fmtMap(r.cname) {
		addCmp(res, "dnsmessage", "CNAME", fmtMap(r.cname), fmtMap(gc), strict)
	}
	// PTR: the table stores target -> address taken from an in-addr.arpa owner
	rp := map[string]string{}
	for tgt, owner := range r.ptr {
		if s := strings.TrimSuffix(owner, ".in-addr.arpa"); s != owner {
			if ip, err := netip.ParseAddr(s); err == nil && ip.Is4() {
				a := ip.As4()
				rp[tgt] = netip.AddrFrom4([4]byte{a[3], a[2], a[1], a[0]}).String()
			}
		}
	}
	if fmtMap(gp) != fmtMap(rp) {
		addCmp(res, "dnsmessage", "PTR", fmtMap(rp), fmtMap(gp), strict)
	}
}

// runDNSDecode is the payload-level path of ProcessDNS: DecodeQuestion + DNSEntry.DecodeAnswers.
func runDNSDecode(e *env, c *Case, res *Result) {
	p := packet.DNS(c.Payload)
	if p.IsValid() != nil {
		res.Err = true
		return
	}
	buf := make([]byte, 0, 64)
	q, idx, err := packet.DecodeQuestion(p, 12, buf)
	qname := string(q.Name) // the scratch buffer is reused by DecodeAnswers (as in ProcessDNS)
	var ent packet.DNSEntry
	if err == nil {
		ent = packet.NewDNSEntry()
		_, _, err = ent.DecodeAnswers(p, idx, buf)
	}
	res.Err = err != nil
	if x := c.Exp; x != nil && x.Kind == "msg" {
		if verdictCmp(res, x.Verdict, x.Strict, x.Cls, err) {
			compareEntry(res, x, c.Payload, qname, ent)
		}
	}
}

func sortNI(l []nameIP) string {
	var s []string
	for _, x := range l {
		s = append(s, x.Name+"="+x.IP)
	}
	sort.Strings(s)
	return strings.Join(s, " ")
}

// runNaming dispatches a parsed frame to the dns_naming handler (fresh handler per case: the
// table and the mDNS response cache must not carry over between cases).
func runNaming(e *env, c *Case, res *Result, fr packet.Frame) {
	if !dnsHookPresent {
		res.Outcome = "skipped"
		return
	}
	h := newDNS(e.s)
	x := c.Exp
	switch fr.PayloadID {
	case packet.PayloadDNS:
		ent, err := h.ProcessDNS(fr)
		res.Err = err != nil
		if x == nil {
			return
		}
		switch x.Kind {
		case "msg":
			if verdictCmp(res, x.Verdict, x.Strict, x.Cls, err) {
				got := h.DNSFind(x.QName)
				qn := got.Name
				if qn == "" && len(x.A)+len(x.AAAA)+len(x.CNAME)+len(x.PTR) == 0 {
					qn = x.QName // nothing extracted: the entry is not stored
				}
				compareEntry(res, x, c.Payload, qn, got)
				if ent.Name != "" && (fmtRecs(gotRecs(ent.IP4Records)) != fmtRecs(gotRecs(got.IP4Records))) {
					addCmp(res, "spec", "returned-entry", fmtRecs(gotRecs(got.IP4Records)), fmtRecs(gotRecs(ent.IP4Records)), true)
				}
			}
		case "name":
			// a question without answers: only the verdict can be observed
			verdictCmp(res, x.Verdict, x.Strict, x.Cls, err)
		}
	case packet.PayloadMDNS, packet.PayloadLLMNR:
		v4, v6, err := h.ProcessMDNS(fr)
		res.Err = err != nil
		if x == nil || x.Kind != "msg" {
			return
		}
		if verdictCmp(res, x.MV, x.MStrict, x.Cls, err) {
			var g4, g6 []nameIP
			for _, n := range v4 {
				if n.Addr.IP.IsValid() {
					g4 = append(g4, nameIP{n.NameEntry.Name, n.Addr.IP.String()})
				}
			}
			for _, n := range v6 {
				g6 = append(g6, nameIP{n.NameEntry.Name, n.Addr.IP.String()})
			}
			if fr.Payload()[2]&0x80 == 0 {
				return // query: names inferred from the question, not part of the reference value
			}
			if sortNI(g4) != sortNI(x.M4) {
				addCmp(res, "spec", "mdns4", sortNI(x.M4), sortNI(g4), x.MStrict)
			}
			if sortNI(g6) != sortNI(x.M6) {
				addCmp(res, "spec", "mdns6", sortNI(x.M6), sortNI(g6), x.MStrict)
			}
		}
	case packet.PayloadNBNS:
		n, err := h.ProcessNBNS(fr.Host, fr.Ether(), fr.Payload())
		nbnsCmp(res, x, n, err)
	case packet.PayloadSSDP:
		_, _, err := h.ProcessSSDP(fr.Host, fr.Ether(), fr.Payload())
		res.Err = err != nil
	}
}

func nbnsCmp(res *Result, x *dnsExp, n packet.NameEntry, err error) {
	res.Err = err != nil
	if x == nil || x.Kind != "nbns" {
		return
	}
	switch x.Verdict {
	case "accept":
		if n.Name != x.NBName {
			addCmp(res, "spec", "nbname", x.NBName, n.Name, x.Strict)
		}
	case "reject": // a short array must not yield a name (error or nothing extracted)
		if n.Name != "" {
			addCmp(res, "reject", "verdict.accepted", "reject("+x.Cls+")", "name "+n.Name, x.Strict)
		}
	}
}

func runNBNS(e *env, c *Case, res *Result) {
	h := newDNS(e.s)
	n, err := h.ProcessNBNS(nil, nil, c.Payload)
	nbnsCmp(res, c.Exp, n, err)
}

func runSSDP(e *env, c *Case, res *Result) {
	h := newDNS(e.s)
	_, _, err := h.ProcessSSDP(nil, packet.Ether(make([]byte, 14)), c.Payload)
	res.Err = err != nil
}
