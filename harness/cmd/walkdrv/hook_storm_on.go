//go:build dhcphook

package main

import "github.com/irai/packet/handlers/dhcp4_spoofer"

// built with tag dhcphook when handlers/dhcp4_spoofer has VerifResetStorm
func resetStorm() { dhcp4_spoofer.VerifResetStorm() }
