package main

import (
	"encoding/json"
	"fmt"
	"math/rand"
	"net"
	"net/netip"
	"runtime"
	"time"

	"github.com/irai/packet"
	"golang.org/x/net/dns/dnsmessage"
	"verifharness/vh"
)

// Stateful families of spec/Walk.tla: a vector is a history; one case executes the whole history.

func valStrings(v *Vector) []string {
	var out []string
	json.Unmarshal(v.Val, &out)
	return out
}

// ---------------------------------------------------------------------------------------------
// mcache: one DNSHandler across mDNS responses, time, unicast DNS responses and lookups

func genMcache(v *Vector, r *rand.Rand, k int) []*Case {
	if k > 0 || len(v.Seq) == 0 {
		return nil
	}
	return []*Case{{Entry: "H.naming.history", Group: "state", Run: runMcache, NeedHook: true, NeedAge: true, Payload: []byte{}}}
}

func mdnsResponse(id uint16, name string, ip [4]byte) []byte {
	b := dnsmessage.NewBuilder(nil, dnsmessage.Header{ID: id, Response: true, Authoritative: true})
	b.EnableCompression()
	b.StartAnswers()
	b.AResource(dnsmessage.ResourceHeader{Name: mustName(name), Class: dnsmessage.ClassINET, TTL: 120}, dnsmessage.AResource{A: ip})
	out, _ := b.Finish()
	return out
}

func runMcache(e *env, c *Case, res *Result) {
	v := c.vec
	h := newDNS(e.s)
	want := valStrings(v)
	var got []string
	qname := "cache-history.example.com"
	for _, el := range v.Seq {
		switch str(el, "k") {
		case "mdns", "bad":
			m, i := num(el, "m"), num(el, "i")
			mac := u0.MAC(fmt.Sprintf("m%d", 20+m))
			ip := u0.IP(fmt.Sprintf("a%d", 20+m))
			id := uint16(num(v.Aux, "id1"))
			if i == 2 {
				id = uint16(num(v.Aux, "id2"))
			}
			msg := mdnsResponse(id, fmt.Sprintf("host%d.local", m), ip.As4())
			if str(el, "k") == "bad" {
				msg = msg[:len(msg)-2] // the A record is cut inside its RDATA: malformed
			}
			fr, err := e.deliver(vh.FrameIP4UDP(mac, mdnsMAC, ip, mdnsIP, 5353, 5353, msg))
			if err != nil {
				got = append(got, "parse-error")
				continue
			}
			v4, _, err := h.ProcessMDNS(fr)
			switch {
			case err != nil:
				got = append(got, "error")
			case len(v4) == 0:
				got = append(got, "cached")
			case len(v4) == 1 && v4[0].NameEntry.Name == fmt.Sprintf("host%d", m) && v4[0].Addr.IP == ip:
				got = append(got, "names")
			default:
				got = append(got, fmt.Sprintf("wrong-names%v", v4))
			}
		case "age":
			ageMDNSCache(h, 6*time.Minute)
			got = append(got, "-")
		case "dns":
			b := dnsmessage.NewBuilder(nil, dnsmessage.Header{ID: 7, Response: true})
			b.EnableCompression()
			b.StartQuestions()
			b.Question(dnsmessage.Question{Name: mustName(qname), Type: dnsmessage.TypeA, Class: dnsmessage.ClassINET})
			b.StartAnswers()
			b.AResource(dnsmessage.ResourceHeader{Name: mustName(qname), Class: dnsmessage.ClassINET, TTL: 60}, dnsmessage.AResource{A: [4]byte{93, 184, 216, 34}})
			msg, _ := b.Finish()
			fr, err := e.deliver(vh.FrameIP4UDP(vh.RouterMAC, cliMAC, netip.MustParseAddr("8.8.8.8"), cliIP, 53, 40001, msg))
			if err != nil {
				got = append(got, "parse-error")
				continue
			}
			ent, err := h.ProcessDNS(fr)
			switch {
			case err != nil:
				got = append(got, "error")
			case ent.Name == "":
				got = append(got, "known") // nothing new: the entry is not returned again
			default:
				got = append(got, "stored")
			}
		case "find":
			if ent := h.DNSFind(qname); len(ent.IP4Records) == 1 {
				got = append(got, "found")
			} else {
				got = append(got, "empty")
			}
		}
	}
	// property level (C17): a well-formed response of a (station, id) that was not successfully processed in the last
	// five minutes must yield its names and addresses, and a malformed one must be rejected with an error; what the cache
	// does beyond that is mechanism
	for j := range want {
		if j >= len(got) {
			break
		}
		if want[j] == "names" && got[j] != "names" {
			addCmp(res, "spec", "history.names", fmt.Sprintf("step %d: %v", j+1, want), fmt.Sprint(got), true)
			break
		}
		if want[j] == "error" && got[j] != "error" {
			addCmp(res, "reject", "history.accepted", fmt.Sprintf("step %d: %v", j+1, want), fmt.Sprint(got), true)
			break
		}
	}
	if fmt.Sprint(got) != fmt.Sprint(want) {
		addCmp(res, "spec", "history", fmt.Sprint(want), fmt.Sprint(got), false)
	}
}

// ---------------------------------------------------------------------------------------------
// ping: the process-wide echo waiter table while frames are parsed

func genPing(v *Vector, r *rand.Rand, k int) []*Case {
	if k > 0 || len(v.Seq) == 0 {
		return nil
	}
	return []*Case{{Entry: "Parse.echo.history", Group: "state", Run: runPing, Payload: []byte{}}}
}

type pendingPing struct {
	ver  int
	id   uint16
	done chan error
}

func waiterIDs() map[uint16]bool {
	m := map[uint16]bool{}
	for _, id := range packet.VerifPingWaiterIDs() {
		m[id] = true
	}
	return m
}

func echoReplyFrame(e *env, ver int, id uint16) []byte {
	echo := vh.Echo(id, 1, []byte("HELLO-NETFILTER"))
	tMAC := u0.MAC("m30")
	if ver == 4 {
		return vh.Ether(vh.OwnMAC, tMAC, 0x0800, vh.IP4(u0.IP("a30"), u0.Cfg.HostIP, 1, 64, 3, vh.ICMP4(0, 0, echo)))
	}
	src := u0.IP("l30")
	return vh.Ether(vh.OwnMAC, tMAC, 0x86dd, vh.IP6(src, vh.HostLLA, 58, 64, vh.ICMP6(src, vh.HostLLA, 129, 0, echo)))
}

func runPing(e *env, c *Case, res *Result) {
	v := c.vec
	// the frames of one step are parsed back to back, as the packet loop does: no other goroutine of this
	// process gets a processor in between (the watchdog still runs: long calls are preempted)
	defer runtime.GOMAXPROCS(runtime.GOMAXPROCS(1))
	var pending []pendingPing
	var got []string
	timeout := 12 * time.Millisecond
	finish := func() {
		for _, p := range pending {
			select {
			case err := <-p.done:
				if err == nil {
					got = append(got, "answered-late")
				} else {
					got = append(got, "timeout")
				}
			case <-time.After(200 * time.Millisecond):
				got = append(got, "stuck")
			}
		}
		pending = nil
	}
	for _, el := range v.Seq {
		switch str(el, "k") {
		case "ping":
			ver := num(el, "n")
			before := waiterIDs()
			p := pendingPing{ver: ver, done: make(chan error, 1)}
			if ver == 4 {
				dst := packet.Addr{MAC: u0.MAC("m30"), IP: u0.IP("a30")}
				go func() { p.done <- e.s.Ping(dst, timeout) }()
			} else {
				src := packet.Addr{MAC: append(net.HardwareAddr{}, vh.OwnMAC...), IP: vh.HostLLA}
				dst := packet.Addr{MAC: u0.MAC("m30"), IP: u0.IP("l30")}
				go func() { p.done <- e.s.Ping6(src, dst, timeout) }()
			}
			// wait until the waiter is registered (the id is only known to the library)
			found := false
			for t0 := time.Now(); time.Since(t0) < 100*time.Millisecond && !found; {
				for id := range waiterIDs() {
					if !before[id] {
						p.id, found = id, true
					}
				}
				if !found {
					runtime.Gosched()
				}
			}
			if !found {
				got = append(got, "not-registered")
				<-p.done
				continue
			}
			pending = append(pending, p)
		case "reply":
			if len(pending) == 0 {
				continue
			}
			p := pending[len(pending)-1]
			pending = pending[:len(pending)-1]
			fr := echoReplyFrame(e, p.ver, p.id)
			for j := 0; j < num(el, "n"); j++ {
				e.deliver(fr) // a panic here is a panic of the packet loop: reported by the caller
			}
			select {
			case err := <-p.done:
				if err == nil {
					got = append(got, "answered")
				} else {
					got = append(got, "timeout")
				}
			case <-time.After(200 * time.Millisecond):
				got = append(got, "stuck")
			}
		case "stale":
			e.deliver(echoReplyFrame(e, 4, 0xfff0))
			e.deliver(echoReplyFrame(e, 6, 0xfff1))
		case "wait":
			finish()
		}
	}
	finish()
	if n, _ := packet.VerifPingWaiters(); n != 0 {
		addCmp(res, "spec", "waiters-left", "0", fmt.Sprint(n), false)
	}
	if want := valStrings(v); fmt.Sprint(got) != fmt.Sprint(want) {
		addCmp(res, "spec", "history", fmt.Sprint(want), fmt.Sprint(got), false)
	}
}
