package main

import (
	"net"
	"sync"
	"time"
)

// failConn wraps the session's connection: the next `fail` writes are refused with a net.Error that is
// either permanent or temporary (write failure injection, spec/Walk.tla aux field wf).
type failConn struct {
	inner net.PacketConn
	mu    sync.Mutex
	fail  int
	temp  bool
	fails int // writes refused so far
}

type writeErr struct{ temp bool }

func (e writeErr) Error() string {
	if e.temp {
		return "verif: injected temporary write failure"
	}
	return "verif: injected permanent write failure"
}
func (e writeErr) Timeout() bool   { return e.temp }
func (e writeErr) Temporary() bool { return e.temp }

var _ net.Error = writeErr{}

func (c *failConn) arm(n int, temp bool) {
	c.mu.Lock()
	c.fail, c.temp = n, temp
	c.mu.Unlock()
}

func (c *failConn) WriteTo(b []byte, addr net.Addr) (int, error) {
	c.mu.Lock()
	if c.fail > 0 {
		c.fail--
		c.fails++
		t := c.temp
		c.mu.Unlock()
		return 0, writeErr{t}
	}
	c.mu.Unlock()
	return c.inner.WriteTo(b, addr)
}
func (c *failConn) ReadFrom(b []byte) (int, net.Addr, error) { return c.inner.ReadFrom(b) }
func (c *failConn) Close() error                             { return c.inner.Close() }
func (c *failConn) LocalAddr() net.Addr                      { return c.inner.LocalAddr() }
func (c *failConn) SetDeadline(t time.Time) error            { return nil }
func (c *failConn) SetReadDeadline(t time.Time) error        { return nil }
func (c *failConn) SetWriteDeadline(t time.Time) error       { return nil }
