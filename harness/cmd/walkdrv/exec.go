package main

import (
	"github.com/irai/packet"
)

// The entry points. Views are called the way the library calls them itself: IsValid first, the
// accessors only on a valid view (assumption recorded in the evidence).

func runRA(e *env, c *Case, res *Result) {
	p := packet.ICMP6RouterAdvertisement(c.Payload)
	if p.IsValid() != nil {
		res.Err = true
		return
	}
	_, err := p.Options()
	res.Err = err != nil
	_ = p.String()
}

func runRS(e *env, c *Case, res *Result) {
	p := packet.ICMP6RouterSolicitation(c.Payload)
	if p.IsValid() != nil {
		res.Err = true
		return
	}
	_, err := p.Options()
	res.Err = err != nil
	_ = p.SourceLLA()
	_ = p.String()
}

func runNDViews(e *env, c *Case, res *Result) {
	b := c.Payload
	if p := packet.ICMP6NeighborAdvertisement(b); p.IsValid() == nil {
		_ = p.TargetLLA()
		_ = p.TargetAddress()
		_ = p.String()
	}
	if p := packet.ICMP6NeighborSolicitation(b); p.IsValid() == nil {
		_ = p.SourceLLA()
		_ = p.TargetAddress()
		_ = p.String()
	}
	if p := packet.ICMP6Redirect(b); p.IsValid() == nil {
		_ = p.TargetLinkLayerAddr()
		_ = p.String()
	}
}

func lldpViews(b []byte, res *Result) {
	p := packet.LLDP(b)
	if p.IsValid() != nil {
		res.Err = true
		return
	}
	_ = p.ChassisID()
	_ = p.PortID()
	for _, t := range []int{1, 2, 3, 5, 7, 8, 127} {
		_ = p.GetPDU(t)
	}
	_ = p.String()
}

func runLLDP(e *env, c *Case, res *Result) { lldpViews(c.Payload, res) }

func runHBH(e *env, c *Case, res *Result) {
	p := packet.HopByHopExtensionHeader(c.Payload)
	if !p.IsValid() {
		res.Err = true
		return
	}
	_, err := p.ParseHopByHopExtensions()
	res.Err = err != nil
}

func runDHCPViews(e *env, c *Case, res *Result) {
	p := packet.DHCP4(c.Payload)
	if p.IsValid() != nil {
		res.Err = true
		return
	}
	o := p.ParseOptions()
	_ = o.HostName()
	_ = o.RequestedIPAddress()
	_ = o.ServerID()
	_ = p.String()
	_ = p.SName()
	_ = p.File()
}

func runICMPViews(e *env, c *Case, res *Result) {
	b := c.Payload
	if p := packet.ICMP(b); p.IsValid() == nil {
		_ = p.String()
		_ = p.Payload()
		_ = p.RestOfHeader()
	}
	if p := packet.ICMPEcho(b); p.IsValid() == nil {
		_ = p.String()
	}
	if p := packet.ICMP4Redirect(b); p.IsValid() == nil {
		_ = p.Addrs()
		_ = p.String()
	}
}

// parse runs Session.Parse under its own recover: a panic there is C01's business.
func parse(e *env, b []byte, res *Result) (fr packet.Frame, ok bool) {
	defer func() {
		if p := recover(); p != nil {
			res.Outcome = "parsepanic"
			ok = false
		}
	}()
	fr, err := e.deliver(b)
	if err != nil {
		res.Err = true
		return fr, false
	}
	return fr, true
}

// runFrame is the packet loop: Parse, then the processor chosen by PayloadID.
func runFrame(e *env, c *Case, res *Result) {
	if c.vec != nil && !c.Mut {
		if wf := str(c.vec.Aux, "wf"); wf == "perm" || wf == "temp" {
			// the reply to this packet cannot be written; afterwards the same packet arrives again and the
			// connection works: the handler must have survived its failed send (a lock left held shows here)
			e.fc.arm(1000, wf == "temp")
			runFrame1(e, c, res)
			e.fc.arm(0, false)
			if res.Outcome != "" {
				return
			}
		}
	}
	runFrame1(e, c, res)
}

func runFrame1(e *env, c *Case, res *Result) {
	fr, ok := parse(e, c.Frame, res)
	if !ok {
		return
	}
	var err error
	switch fr.PayloadID {
	case packet.PayloadARP:
		err = e.arp.ProcessPacket(fr)
	case packet.PayloadDHCP4:
		err = e.dhcp.ProcessPacket(fr)
	case packet.PayloadICMP4:
		err = e.h4.ProcessPacket(fr)
	case packet.PayloadICMP6:
		// only every fourth router advertisement of a process is looked at (icmp6.go:186)
		for i := 0; i < 4; i++ {
			if er := e.h6.ProcessPacket(fr); er != nil {
				err = er
			}
		}
	case packet.Payload8023:
		_, _, err = packet.Process8023Frame(fr, 0)
	case packet.PayloadLLDP:
		lldpViews(fr.Payload(), res)
	case packet.PayloadDNS, packet.PayloadMDNS, packet.PayloadLLMNR, packet.PayloadNBNS, packet.PayloadSSDP:
		runNaming(e, c, res, fr)
		return
	}
	if err != nil {
		res.Err = true
	}
}
