//go:build dnshook && dnsage

package main

import (
	"time"

	"github.com/irai/packet/handlers/dns_naming"
)

// built with -tags verif,dnshook,dnsage when handlers/dns_naming has VerifAgeMDNSCache
const dnsAgePresent = true

func ageMDNSCache(h *dns_naming.DNSHandler, d time.Duration) { h.VerifAgeMDNSCache(d) }
