package main

import (
	"encoding/json"
	"fmt"
	"net/netip"
	"os"
	"sync"
	"sync/atomic"
	"time"

	"github.com/irai/packet"
	"github.com/irai/packet/handlers/dns_naming"
	"golang.org/x/net/dns/dnsmessage"
	"verifharness/vh"
)

// conc mode (spec/WalkConc.tla): the packet loop goroutine feeds DNS and mDNS responses for a small set of
// names whose record sets keep growing, while reader goroutines use the documented goroutine-safe read API
// (DNSFind, DNSExist, PrintDNSTable) of the same handler. The process is a child of the check: an
// unrecoverable runtime error ("fatal error: concurrent map ...") kills it and is the finding.
func runConc() {
	real := os.Stdout
	e, err := newEnv()
	if err != nil {
		fmt.Fprintln(os.Stderr, err)
		os.Exit(2)
	}
	defer e.close()
	if !dnsHookPresent {
		fmt.Fprintln(real, `{"skipped":"dns_naming.VerifNew absent"}`)
		return
	}
	var hp atomic.Pointer[dns_naming.DNSHandler]
	hp.Store(newDNS(e.s))
	names := []string{"alpha.example.com", "beta.example.com", "gamma.local", "delta.example.com"}
	var stop int32
	var reads int64
	var wg sync.WaitGroup
	for g := 0; g < *fReaders; g++ {
		wg.Add(1)
		go func(g int) {
			defer wg.Done()
			for i := 0; atomic.LoadInt32(&stop) == 0; i++ {
				h := hp.Load()
				switch (i + g) % 8 {
				case 0:
					h.DNSExist(netip.AddrFrom4([4]byte{10, 9, byte(i), byte(g)}))
				case 1:
					if i%64 == 1 {
						h.PrintDNSTable()
					}
				default:
					ent := h.DNSFind(names[(i+g)%len(names)])
					// use the copy like a consumer would
					for range ent.IP4Records {
					}
					_ = ent.CNameList()
				}
				atomic.AddInt64(&reads, 1)
			}
		}(g)
	}
	deadline := time.Now().Add(*fDur)
	msgs := 0
	for c := 0; time.Now().Before(deadline); c++ {
		if c%512 == 511 {
			hp.Store(newDNS(e.s)) // keep the record sets small: new table, same readers
		}
		h := hp.Load()
		name := names[c%len(names)]
		b := dnsmessage.NewBuilder(nil, dnsmessage.Header{ID: uint16(c), Response: true})
		b.EnableCompression()
		b.StartQuestions()
		b.Question(dnsmessage.Question{Name: mustName(name), Type: dnsmessage.TypeA, Class: dnsmessage.ClassINET})
		b.StartAnswers()
		hd := dnsmessage.ResourceHeader{Name: mustName(name), Class: dnsmessage.ClassINET, TTL: 30}
		switch c % 4 {
		case 0:
			b.AResource(hd, dnsmessage.AResource{A: [4]byte{10, 9, byte(c >> 8), byte(c)}})
		case 1:
			b.AAAAResource(hd, dnsmessage.AAAAResource{AAAA: [16]byte{0x20, 1, 0xd, 0xb8, 0, 0, 0, 0, 0, 0, 0, 0, 0, 0, byte(c >> 8), byte(c)}})
		case 2:
			hc := hd
			hc.Name = mustName(fmt.Sprintf("alias%d.%s", c%97, name))
			b.CNAMEResource(hc, dnsmessage.CNAMEResource{CNAME: mustName(name)})
			b.AResource(hd, dnsmessage.AResource{A: [4]byte{10, 8, byte(c >> 8), byte(c)}})
		default:
			hp2 := hd
			hp2.Name = mustName(fmt.Sprintf("%d.%d.9.10.in-addr.arpa", c&0xff, (c>>8)&0xff))
			b.PTRResource(hp2, dnsmessage.PTRResource{PTR: mustName(fmt.Sprintf("host%d.%s", c%97, name))})
		}
		msg, err := b.Finish()
		if err != nil {
			continue
		}
		fr, err := e.deliver(vh.FrameIP4UDP(vh.RouterMAC, cliMAC, netip.MustParseAddr("8.8.8.8"), cliIP, 53, 40002, msg))
		if err == nil {
			h.ProcessDNS(fr)
		}
		if c%3 == 0 {
			m := mdnsResponse(uint16(c), "printer.local", [4]byte{192, 168, 0, byte(20 + c%50)})
			if fr, err := e.deliver(vh.FrameIP4UDP(u0.MAC("m21"), mdnsMAC, u0.IP("a21"), mdnsIP, 5353, 5353, m)); err == nil {
				h.ProcessMDNS(fr)
			}
		}
		msgs++
	}
	atomic.StoreInt32(&stop, 1)
	wg.Wait()
	j, _ := json.Marshal(map[string]interface{}{"messages": msgs, "reads": atomic.LoadInt64(&reads), "readers": *fReaders})
	fmt.Fprintln(real, string(j))
	_ = packet.EthMaxSize
}
