//go:build dnshook

package main

import (
	"github.com/irai/packet"
	"github.com/irai/packet/handlers/dns_naming"
)

// built with -tags verif,dnshook when handlers/dns_naming has the verification hook VerifNew
const dnsHookPresent = true

func newDNS(s *packet.Session) *dns_naming.DNSHandler { return dns_naming.VerifNew(s) }
