//go:build !dhcphook

package main

func resetStorm() {}
