// walkdrv binds spec/Walk.tla and spec/Names.tla to the real code (C08, C17).
//
//	walkdrv -mode run    -vectors v.ndjson -out r.ndjson [-k 2] [-mut 2] [-procs 4] [-watchdog 300ms]
//	        every TLC vector is concretised into K encodings, each fed to the payload-level decoders
//	        and, wrapped in a frame, through Session.Parse to the handler chosen by PayloadID, plus M
//	        seeded byte mutations.  Calls run in child worker processes under recover and a per-call
//	        watchdog; a hung worker is killed and restarted after the offending case.
//	walkdrv -mode worker ...     (internal)
//	walkdrv -mode one    -case c.json          re-execute one recorded case (replay / confirmation)
//	walkdrv -mode names  -pairs p.ndjson -hosts h.ndjson -out r.ndjson
//	walkdrv -mode shared|fresh -vectors v.ndjson -out transcript.ndjson     (C10 transcript)
//
// The result summary is one JSON line on stdout; everything else goes to stderr.
package main

import (
	"bufio"
	"encoding/json"
	"flag"
	"fmt"
	"os"
	"os/exec"
	"path/filepath"
	"sort"
	"strconv"
	"strings"
	"sync"
	"syscall"
	"time"
)

// Vector is one line printed by the Export invariant of spec/Walk.tla.
type Vector struct {
	W       string                   `json:"w"`
	Seq     []map[string]interface{} `json:"seq"`
	Aux     map[string]interface{}   `json:"aux"`
	Verdict string                   `json:"verdict"`
	Cls     string                   `json:"cls"`
	Strict  bool                     `json:"strict"`
	Val     json.RawMessage          `json:"val"`
	Mech    map[string]string        `json:"mech"`
	Extra   map[string]interface{}   `json:"extra"`
	JID     *int                     `json:"id"` // id given by the check (position in the full vector list), if any
	ID      int                      `json:"-"`  // id used for seeding and reporting: line number, or JID where the file is a subset
}

func num(m map[string]interface{}, k string) int {
	switch x := m[k].(type) {
	case float64:
		return int(x)
	case int:
		return x
	}
	return 0
}
func str(m map[string]interface{}, k string) string { s, _ := m[k].(string); return s }
func boolean(m map[string]interface{}, k string) bool {
	b, _ := m[k].(bool)
	return b
}

// Result is one line of the result file: only cases whose outcome is not plain "returned, nothing
// to compare or all comparisons fine" are written in full; the rest is counted in Summary.
type Result struct {
	V       int    `json:"v"`              // vector id
	C       int    `json:"c"`              // case index within the vector
	W       string `json:"w"`              // walker
	Cls     string `json:"cls"`            // reference class of the vector ("mut" for mutated inputs)
	Entry   string `json:"entry"`          // entry point
	Group   string `json:"group"`          // mechanism group of the entry point
	Outcome string `json:"outcome"`        // ret | panic | hang | killed
	Site    string `json:"site,omitempty"` // first frame of github.com/irai/packet on the stack
	Msg     string `json:"msg,omitempty"`
	Err     bool   `json:"err"`           // the call reported an error
	Cmp     []Cmp  `json:"cmp,omitempty"` // C17 comparisons that did not match
	Hex     string `json:"hex,omitempty"` // input (payload or frame)
	Mut     bool   `json:"mut,omitempty"`
	Pred    string `json:"pred,omitempty"` // mechanism-level prediction of the spec for this group
	HKey    string `json:"hk,omitempty"`   // hang budget key
}

// Cmp is one failed comparison of a decoded value.
type Cmp struct {
	Against string `json:"against"` // "spec" | "dnsmessage" | "reject"
	What    string `json:"what"`
	Want    string `json:"want"`
	Got     string `json:"got"`
	Strict  bool   `json:"strict"`
}

type Summary struct {
	Vectors    int            `json:"vectors"`
	Cases      int            `json:"cases"`
	Outcomes   map[string]int `json:"outcomes"` // walker/entry/outcome -> n
	Compared   map[string]int `json:"compared"` // walker/entry/against -> comparisons that matched
	Skipped    map[string]int `json:"skipped"`  // key -> cases skipped (known hang class exercised often enough, or hook absent)
	Restarts   int            `json:"restarts"`
	ParsePanic int            `json:"parse_panics"` // panics inside Session.Parse (C01, not C08)
	Pred       map[string]int `json:"pred"`         // walker/group/predicted/observed -> n
	Drift      map[string]int `json:"drift"`        // walker/entry/what/against -> comparisons that differ where the statement does not decide
	Strict     int            `json:"strict_mismatches"`
	Hook       bool           `json:"dns_hook"`
	WallS      float64        `json:"wall_s"`
}

func newSummary() *Summary {
	return &Summary{Outcomes: map[string]int{}, Compared: map[string]int{}, Skipped: map[string]int{}, Pred: map[string]int{}, Drift: map[string]int{}}
}
func (s *Summary) add(o *Summary) {
	s.Vectors += o.Vectors
	s.Cases += o.Cases
	s.Restarts += o.Restarts
	s.ParsePanic += o.ParsePanic
	for k, v := range o.Outcomes {
		s.Outcomes[k] += v
	}
	for k, v := range o.Compared {
		s.Compared[k] += v
	}
	for k, v := range o.Skipped {
		s.Skipped[k] += v
	}
	for k, v := range o.Pred {
		s.Pred[k] += v
	}
	for k, v := range o.Drift {
		s.Drift[k] += v
	}
	s.Strict += o.Strict
}

var (
	fMode       = flag.String("mode", "run", "run | worker | one | names | shared | fresh | conc")
	fVectors    = flag.String("vectors", "", "ndjson file of TLC vectors")
	fOut        = flag.String("out", "", "result file (ndjson)")
	fK          = flag.Int("k", 2, "concrete encodings per vector")
	fMut        = flag.Int("mut", 2, "seeded byte mutations per vector")
	fProcs      = flag.Int("procs", 4, "worker processes")
	fWatchdog   = flag.Duration("watchdog", 300*time.Millisecond, "per-call deadline")
	fFrom       = flag.Int("from", 0, "worker: first vector (index in file)")
	fTo         = flag.Int("to", 0, "worker: one past the last vector")
	fSkip       = flag.Int("skip", 0, "worker: cases of the first vector to skip")
	fSkipKeys   = flag.String("skipkeys", "", "worker: comma separated walker.cls:group keys not to execute any more")
	fCur        = flag.String("cur", "", "worker: progress file")
	fCase       = flag.String("case", "", "one: json file of a Result to re-execute")
	fPairs      = flag.String("pairs", "", "names: pairs vectors")
	fHosts      = flag.String("hosts", "", "names: host histories")
	fHangMax    = flag.Int("hangmax", 6, "stop exercising a (class, group) after this many hangs")
	fMutHangMax = flag.Int("muthangmax", 30, "stop mutating inputs of a (walker, group) after this many hangs")
	fChunk      = flag.Int("chunk", 400, "vectors per worker invocation")
	fSolo       = flag.Int("solo", 0, "the first N vectors get a worker process each (process wide limiters are fresh)")
	fDur        = flag.Duration("dur", 3*time.Second, "conc: duration of the concurrent stage")
	fReaders    = flag.Int("readers", 3, "conc: reader goroutines")
)

func seed() int64 {
	s, err := strconv.ParseInt(os.Getenv("VERIF_SEED"), 10, 64)
	if err != nil {
		return 1
	}
	return s
}

func main() {
	flag.Parse()
	switch *fMode {
	case "run":
		runParent()
	case "worker":
		runWorker()
	case "one":
		runOne()
	case "names":
		runNames()
	case "conc":
		runConc()
	case "shared", "fresh":
		runTranscript(*fMode == "shared")
	default:
		fmt.Fprintln(os.Stderr, "unknown mode")
		os.Exit(2)
	}
}

func readVectors(path string, from, to int) ([]Vector, error) {
	f, err := os.Open(path)
	if err != nil {
		return nil, err
	}
	defer f.Close()
	var out []Vector
	sc := bufio.NewScanner(f)
	sc.Buffer(make([]byte, 1<<20), 1<<26)
	i := 0
	for sc.Scan() {
		if i >= from && (to <= 0 || i < to) {
			var v Vector
			if err := json.Unmarshal(sc.Bytes(), &v); err != nil {
				return nil, fmt.Errorf("vector %d: %v", i, err)
			}
			v.ID = i
			out = append(out, v)
		}
		i++
		if to > 0 && i >= to {
			break
		}
	}
	return out, sc.Err()
}

func countLines(path string) (int, error) {
	f, err := os.Open(path)
	if err != nil {
		return 0, err
	}
	defer f.Close()
	sc := bufio.NewScanner(f)
	sc.Buffer(make([]byte, 1<<20), 1<<26)
	n := 0
	for sc.Scan() {
		n++
	}
	return n, sc.Err()
}

// ---------------------------------------------------------------------------------------------
// parent: split the vector file into chunks, run workers, restart after hangs

type chunk struct{ from, to int }

func runParent() {
	t0 := time.Now()
	total, err := countLines(*fVectors)
	if err != nil {
		fmt.Fprintln(os.Stderr, err)
		os.Exit(2)
	}
	var chunks []chunk
	solo := *fSolo
	if solo > total {
		solo = total
	}
	for a := 0; a < solo; a++ {
		chunks = append(chunks, chunk{a, a + 1})
	}
	for a := solo; a < total; a += *fChunk {
		b := a + *fChunk
		if b > total {
			b = total
		}
		chunks = append(chunks, chunk{a, b})
	}
	dir, _ := os.MkdirTemp(filepath.Dir(*fOut), "walkdrv-")
	defer os.RemoveAll(dir)
	var mu sync.Mutex
	sum := newSummary()
	hangs := map[string]int{} // walker.cls:group -> hangs seen
	var results []string
	infra := ""
	work := make(chan chunk)
	var wg sync.WaitGroup
	for p := 0; p < *fProcs; p++ {
		wg.Add(1)
		go func(p int) {
			defer wg.Done()
			for ch := range work {
				from, skip := ch.from, 0
				attempts := 0
				for from < ch.to {
					attempts++
					if attempts > 5000 {
						mu.Lock()
						infra = "too many restarts in one chunk"
						mu.Unlock()
						break
					}
					mu.Lock()
					var sk []string
					for k, n := range hangs {
						if (strings.HasPrefix(k, "mut:") && n >= *fMutHangMax) || (!strings.HasPrefix(k, "mut:") && n >= *fHangMax) {
							sk = append(sk, k)
						}
					}
					mu.Unlock()
					sort.Strings(sk)
					out := filepath.Join(dir, fmt.Sprintf("w%d-%d-%d.ndjson", p, from, attempts))
					cur := filepath.Join(dir, fmt.Sprintf("cur%d", p))
					os.WriteFile(cur, []byte(fmt.Sprintf("%-10d%-10d", -1, -1)), 0o644)
					cmd := exec.Command(os.Args[0], "-mode", "worker", "-vectors", *fVectors, "-out", out,
						"-from", strconv.Itoa(from), "-to", strconv.Itoa(ch.to), "-skip", strconv.Itoa(skip),
						"-k", strconv.Itoa(*fK), "-mut", strconv.Itoa(*fMut), "-watchdog", fWatchdog.String(),
						"-skipkeys", strings.Join(sk, ","), "-cur", cur)
					cmd.Env = append(os.Environ(), "GOTRACEBACK=all", "GOMAXPROCS=3")
					cmd.Stderr = os.Stderr
					done := make(chan error, 1)
					if err := cmd.Start(); err != nil {
						mu.Lock()
						infra = "cannot start worker: " + err.Error()
						mu.Unlock()
						return
					}
					go func() { done <- cmd.Wait() }()
					killed := false
					// backstop: the worker's own watchdog exits within the deadline; if even that does
					// not happen (runtime wedged) kill it when the progress file stops changing
					last, lastT := "", time.Now()
				wait:
					for {
						select {
						case <-done:
							break wait
						case <-time.After(200 * time.Millisecond):
							b, _ := os.ReadFile(cur)
							if string(b) != last {
								last, lastT = string(b), time.Now()
							} else if time.Since(lastT) > 10*(*fWatchdog)+3*time.Second {
								cmd.Process.Signal(syscall.SIGKILL)
								killed = true
								<-done
								break wait
							}
						}
					}
					code := cmd.ProcessState.ExitCode()
					lines, wsum, stop := readWorkerOut(out)
					mu.Lock()
					results = append(results, lines...)
					if wsum != nil {
						sum.add(wsum)
					}
					for _, l := range lines {
						var r Result
						if json.Unmarshal([]byte(l), &r) == nil && (r.Outcome == "hang" || r.Outcome == "killed") {
							hangs[r.HKey]++
						}
					}
					mu.Unlock()
					if code == 0 && !killed {
						break
					}
					// the worker died: find the case it was executing
					b, _ := os.ReadFile(cur)
					var cv, cc int
					fmt.Sscanf(string(b), "%d %d", &cv, &cc)
					if stop != nil {
						cv, cc = stop.V, stop.C
					} else if cv >= 0 {
						// died without reporting (fatal runtime error or SIGKILL backstop)
						r := Result{V: cv, C: cc, Outcome: "killed", Msg: fmt.Sprintf("worker exit code %d killed=%v", code, killed), Entry: "?", Group: "?", W: "?", Cls: "?"}
						j, _ := json.Marshal(r)
						mu.Lock()
						results = append(results, string(j))
						sum.Outcomes["?/?/killed"]++
						mu.Unlock()
					} else {
						mu.Lock()
						infra = fmt.Sprintf("worker died before its first case (exit code %d)", code)
						mu.Unlock()
						return
					}
					mu.Lock()
					sum.Restarts++
					mu.Unlock()
					from, skip = cv, cc+1
				}
			}
		}(p)
	}
	for _, ch := range chunks {
		work <- ch
	}
	close(work)
	wg.Wait()
	if infra != "" {
		fmt.Fprintln(os.Stderr, "walkdrv: "+infra)
		os.Exit(2)
	}
	sort.Strings(results)
	f, err := os.Create(*fOut)
	if err != nil {
		fmt.Fprintln(os.Stderr, err)
		os.Exit(2)
	}
	w := bufio.NewWriter(f)
	for _, l := range results {
		w.WriteString(l + "\n")
	}
	w.Flush()
	f.Close()
	sum.Hook = dnsHookPresent
	sum.WallS = time.Since(t0).Seconds()
	j, _ := json.Marshal(sum)
	fmt.Println(string(j))
}

// readWorkerOut returns the result lines, the worker's summary (last line, if it finished or hung
// cleanly) and the hang result if the worker stopped on one.
func readWorkerOut(path string) (lines []string, sum *Summary, stop *Result) {
	f, err := os.Open(path)
	if err != nil {
		return nil, nil, nil
	}
	defer f.Close()
	sc := bufio.NewScanner(f)
	sc.Buffer(make([]byte, 1<<20), 1<<26)
	for sc.Scan() {
		l := sc.Text()
		if strings.HasPrefix(l, `{"summary":`) {
			var x struct {
				Summary *Summary `json:"summary"`
			}
			if json.Unmarshal([]byte(l), &x) == nil {
				sum = x.Summary
			}
			continue
		}
		lines = append(lines, l)
		var r Result
		if json.Unmarshal([]byte(l), &r) == nil && r.Outcome == "hang" {
			rr := r
			stop = &rr
		}
	}
	return lines, sum, stop
}
