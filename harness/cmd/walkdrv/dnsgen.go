package main

import (
	"encoding/binary"
	"encoding/json"
	"fmt"
	"math/rand"
	"net/netip"
	"strings"

	"golang.org/x/net/dns/dnsmessage"
	"verifharness/vh"
)

type recExp struct {
	Owner string
	TTL   uint32
}

type nameIP struct {
	Name string
	IP   string
}

// dnsExp is what the specification expects the code to have decoded (C17).
type dnsExp struct {
	Kind    string // "name" | "msg" | "nbns"
	Off     int    // name: offset handed to DecodeQuestion
	Verdict string // reference verdict for this entry point
	Strict  bool
	Cls     string
	QName   string
	A       map[string]recExp // ip -> owner
	AAAA    map[string]recExp
	CNAME   map[string]string // owner -> target
	PTR     map[string]string // target -> ip
	NoCNAME bool              // two CNAME records of one owner: not compared
	M4, M6  []nameIP          // ProcessMDNS
	MV      string            // verdict for ProcessMDNS (whole message)
	MStrict bool
	NBName  string
	Start1  bool // name: decoding starts at offset 12 (frame level possible)
}

// ---------------------------------------------------------------------------------------------
// DNS name walker

func genName(v *Vector, r *rand.Rand, k int) []*Case {
	offs := v.Extra["off"].([]interface{})
	off := func(i int) int { return int(offs[i-1].(float64)) }
	total := num(v.Extra, "total")
	start, tail := num(v.Aux, "start"), num(v.Aux, "tail")
	b := make([]byte, 12)
	binary.BigEndian.PutUint16(b[0:2], uint16(r.Intn(65536)))
	b[2] = 0x81
	b[3] = 0x80
	b[5] = 1 // QDCOUNT 1
	labels := map[int][]string{}
	for i, e := range v.Seq {
		n, to := num(e, "n"), num(e, "to")
		switch str(e, "k") {
		case "L":
			l := letters(r, n)
			labels[i+1] = []string{string(l)}
			b = append(b, byte(n))
			b = append(b, l...)
		case "RUN":
			for j := 0; j < n; j++ {
				l := letters(r, 1)
				labels[i+1] = append(labels[i+1], string(l))
				b = append(b, 1, l[0])
			}
		case "T":
			b = append(b, 0)
		case "P":
			t := total
			if to <= len(v.Seq) {
				t = off(to)
			}
			b = append(b, 0xc0|byte(t>>8), byte(t))
		case "PMID":
			t := off(to) + 1
			b = append(b, 0xc0|byte(t>>8), byte(t))
		case "POOB":
			t := total + 37
			b = append(b, 0xc0|byte(t>>8), byte(t))
		case "R40":
			b = append(b, 0x40|byte(1+r.Intn(60)))
		case "R80":
			b = append(b, 0x80|byte(1+r.Intn(60)))
		case "LCUT":
			b = append(b, 5, 'a', 'b')
		case "PCUT":
			b = append(b, 0xc0)
		}
	}
	b = append(b, []byte{0, 1, 0, 1}[:tail]...)
	if len(b) != total {
		panic(fmt.Sprintf("walkdrv: name layout %d != spec total %d (vector %d)", len(b), total, v.ID))
	}
	var val []int
	json.Unmarshal(v.Val, &val)
	var ls []string
	for _, i := range val {
		ls = append(ls, labels[i]...)
	}
	exp := &dnsExp{Kind: "name", Off: off(start), Verdict: v.Verdict, Strict: v.Strict, Cls: v.Cls, QName: strings.Join(ls, "."), Start1: start == 1}
	out := []*Case{{Entry: "DNS.DecodeQuestion", Group: "question", Payload: b, Run: runDecodeQuestion, Exp: exp}}
	if start == 1 && k == 0 {
		w := udp4(vh.RouterMAC, cliMAC, netip.MustParseAddr("8.8.8.8"), cliIP, 53, 40000+uint16(r.Intn(1000)))
		out = append(out, &Case{Entry: "H.dns", Group: "question_frame", Payload: b, Frame: w.build(b), Run: runFrame, NeedHook: true, Exp: exp, wrap: w})
	}
	return out
}

// ---------------------------------------------------------------------------------------------
// DNS message walker

func encName(name string) []byte {
	var b []byte
	if name == "" {
		return []byte{0}
	}
	for _, l := range strings.Split(name, ".") {
		b = append(b, byte(len(l)))
		b = append(b, l...)
	}
	return append(b, 0)
}

type msgRec struct {
	sec, typ, own, rd string
	owner             string // decoded owner name
	target            string // CNAME / PTR target
	ip                netip.Addr
	ttl               uint32
	ownerBytes, rdata []byte
	tcode             uint16
	txt               []string
}

var typeCode = map[string]uint16{"A": 1, "AAAA": 28, "CNAME": 5, "PTR": 12, "PTRX": 12, "TXT": 16, "NSEC": 47}

func genMsg(v *Vector, r *rand.Rand, k int) []*Case {
	q, resp := str(v.Aux, "q"), boolean(v.Aux, "resp")
	suffix := "example.com"
	if k%2 == 1 {
		suffix = "local"
	}
	qname := string(letters(r, 3+r.Intn(8))) + "." + suffix
	hdr := make([]byte, 12)
	binary.BigEndian.PutUint16(hdr[0:2], uint16(1+r.Intn(65000)))
	if resp {
		hdr[2], hdr[3] = 0x84, 0x00
	}
	nq := map[string]int{"one": 1, "none": 0, "two": 2}[q]
	binary.BigEndian.PutUint16(hdr[4:6], uint16(nq))
	binary.BigEndian.PutUint16(hdr[6:8], uint16(num(v.Extra, "an")))
	binary.BigEndian.PutUint16(hdr[8:10], uint16(num(v.Extra, "ns")))
	binary.BigEndian.PutUint16(hdr[10:12], uint16(num(v.Extra, "ar")))
	b := append([]byte{}, hdr...)
	if nq >= 1 {
		b = append(b, encName(qname)...)
		b = append(b, 0, 1, 0, 1)
	}
	if nq == 2 {
		b = append(b, encName("second."+suffix)...)
		b = append(b, 0, 28, 0, 1)
	}
	recs := make([]*msgRec, len(v.Seq))
	prevOff, prevOwner := 12, qname
	wellformed := true
	for i, e := range v.Seq {
		m := &msgRec{sec: str(e, "sec"), typ: str(e, "typ"), own: str(e, "own"), rd: str(e, "rd"), ttl: uint32(100 + i)}
		recs[i] = m
		m.tcode = typeCode[m.typ]
		tag := fmt.Sprintf("%d%s", i+1, letters(r, 2))
		switch m.own {
		case "inl":
			m.owner = "r" + tag + "." + suffix
			if m.typ == "PTR" {
				m.ip = netip.AddrFrom4([4]byte{10, byte(20 + i), byte(k), byte(1 + r.Intn(250))})
				a := m.ip.As4()
				m.owner = fmt.Sprintf("%d.%d.%d.%d.in-addr.arpa", a[3], a[2], a[1], a[0])
			}
			if m.typ == "PTRX" {
				m.owner = "_svc" + tag + "._tcp.local"
			}
			m.ownerBytes = encName(m.owner)
		case "ptrq":
			m.owner = qname
			m.ownerBytes = []byte{0xc0, 12}
		case "lblptrq":
			m.owner = "s" + tag + "." + qname
			m.ownerBytes = append(append([]byte{byte(len("s" + tag))}, ("s"+tag)...), 0xc0, 12)
		case "ptrprev":
			m.owner = prevOwner
			m.ownerBytes = []byte{0xc0 | byte(prevOff>>8), byte(prevOff)}
		}
		switch m.typ {
		case "A":
			m.ip = netip.AddrFrom4([4]byte{10, byte(i + 1), byte(k), byte(1 + r.Intn(250))})
			m.rdata = m.ip.AsSlice()
		case "AAAA":
			m.ip = netip.AddrFrom16([16]byte{0x20, 0x01, 0x0d, 0xb8, 0, byte(i + 1), 0, byte(k), 0, 0, 0, 0, 0, 0, 0, byte(1 + r.Intn(250))})
			m.rdata = m.ip.AsSlice()
		case "CNAME":
			if k%2 == 1 && nq >= 1 {
				m.target = "c" + tag + "." + qname
				m.rdata = append(append([]byte{byte(len("c" + tag))}, ("c"+tag)...), 0xc0, 12)
			} else {
				m.target = "c" + tag + ".cdn.net"
				m.rdata = encName(m.target)
			}
		case "PTR":
			m.target = "host" + tag + "." + suffix
			m.rdata = encName(m.target)
		case "PTRX":
			m.target = "inst" + tag + "." + m.owner
			m.rdata = encName(m.target)
		case "TXT":
			m.txt = []string{"model=X" + tag, "vers=1", "a=b"}
			for _, t := range m.txt {
				m.rdata = append(m.rdata, byte(len(t)))
				m.rdata = append(m.rdata, t...)
			}
		case "NSEC":
			m.rdata = append(encName(m.owner), 0, 4, 0x40, 0, 0, 8)
		}
		here := len(b)
		fixed := make([]byte, 10)
		binary.BigEndian.PutUint16(fixed[0:2], m.tcode)
		binary.BigEndian.PutUint16(fixed[2:4], 1)
		binary.BigEndian.PutUint32(fixed[4:8], m.ttl)
		rdlen := len(m.rdata)
		data := m.rdata
		switch m.rd {
		case "short":
			rdlen, data = rdlen-1, data[:rdlen-1]
		case "over":
			rdlen += 10
		case "bodycut":
			data = data[:len(data)/2]
		}
		binary.BigEndian.PutUint16(fixed[8:10], uint16(rdlen))
		switch m.rd {
		case "namecut":
			if m.own == "inl" {
				b = append(b, m.ownerBytes[:2]...)
			} else {
				b = append(b, m.ownerBytes[:len(m.ownerBytes)-1]...)
			}
		case "hdrcut":
			b = append(b, m.ownerBytes...)
			b = append(b, fixed[:[]int{0, 5, 9}[(k+i)%3]]...)
		default:
			b = append(b, m.ownerBytes...)
			b = append(b, fixed...)
			b = append(b, data...)
		}
		if m.rd != "ok" {
			wellformed = false
		}
		prevOff, prevOwner = here, m.owner
	}
	// expectations from the specification's reference values
	exp := &dnsExp{Kind: "msg", QName: qname, A: map[string]recExp{}, AAAA: map[string]recExp{}, CNAME: map[string]string{}, PTR: map[string]string{},
		MV: v.Verdict, MStrict: v.Strict, Cls: v.Cls}
	var ref struct {
		Verdict string `json:"verdict"`
		Cls     string `json:"cls"`
		Strict  bool   `json:"strict"`
		Val     []int  `json:"val"`
	}
	jb, _ := json.Marshal(v.Extra["dnsref"])
	json.Unmarshal(jb, &ref)
	exp.Verdict, exp.Strict = ref.Verdict, ref.Strict
	for _, i := range ref.Val {
		m := recs[i-1]
		switch m.typ {
		case "A":
			exp.A[m.ip.String()] = recExp{m.owner, m.ttl}
		case "AAAA":
			exp.AAAA[m.ip.String()] = recExp{m.owner, m.ttl}
		case "CNAME":
			if _, dup := exp.CNAME[m.owner]; dup {
				exp.NoCNAME = true
			}
			exp.CNAME[m.owner] = m.target
		case "PTR":
			exp.PTR[m.target] = m.ip.String()
		}
	}
	var all []int
	json.Unmarshal(v.Val, &all)
	for _, i := range all {
		m := recs[i-1]
		n := strings.TrimSuffix(m.owner+".", ".local.")
		switch m.typ {
		case "A":
			exp.M4 = append(exp.M4, nameIP{n, m.ip.String()})
		case "AAAA":
			exp.M6 = append(exp.M6, nameIP{n, m.ip.String()})
		}
	}
	wd := udp4(vh.RouterMAC, cliMAC, netip.MustParseAddr("8.8.8.8"), cliIP, 53, 40000+uint16(r.Intn(1000)))
	wm := udp4(cliMAC, mdnsMAC, cliIP, mdnsIP, 5353, 5353)
	out := []*Case{
		{Entry: "DNS.decode", Group: "dns", Payload: b, Run: runDNSDecode, Exp: exp},
		{Entry: "H.dns", Group: "dns_frame", Payload: b, Frame: wd.build(b), Run: runFrame, NeedHook: true, Exp: exp, wrap: wd},
		{Entry: "H.mdns", Group: "mdns", Payload: b, Frame: wm.build(b), Run: runFrame, NeedHook: true, Exp: exp, wrap: wm},
	}
	// the same message built by the independent builder of x/net (with name compression)
	if wellformed && str(v.Aux, "cnt") == "exact" && v.Verdict == "accept" && resp {
		if bb, ok := buildWithDnsmessage(hdr, nq, qname, suffix, recs); ok {
			out = append(out,
				&Case{Entry: "H.dns#builder", Group: "dns_frame", Payload: bb, Frame: wd.build(bb), Run: runFrame, NeedHook: true, Exp: exp, wrap: wd},
				&Case{Entry: "H.mdns#builder", Group: "mdns", Payload: bb, Frame: wm.build(bb), Run: runFrame, NeedHook: true, Exp: exp, wrap: wm},
				&Case{Entry: "DNS.decode#builder", Group: "dns", Payload: bb, Run: runDNSDecode, Exp: exp})
		}
	}
	return out
}

func mustName(s string) dnsmessage.Name {
	n, err := dnsmessage.NewName(s + ".")
	if err != nil {
		panic(err)
	}
	return n
}

func buildWithDnsmessage(hdr []byte, nq int, qname, suffix string, recs []*msgRec) (out []byte, ok bool) {
	defer func() {
		if recover() != nil {
			ok = false
		}
	}()
	b := dnsmessage.NewBuilder(nil, dnsmessage.Header{ID: binary.BigEndian.Uint16(hdr[0:2]), Response: true, Authoritative: true})
	b.EnableCompression()
	if err := b.StartQuestions(); err != nil {
		return nil, false
	}
	if nq >= 1 {
		b.Question(dnsmessage.Question{Name: mustName(qname), Type: dnsmessage.TypeA, Class: dnsmessage.ClassINET})
	}
	if nq == 2 {
		b.Question(dnsmessage.Question{Name: mustName("second." + suffix), Type: dnsmessage.TypeAAAA, Class: dnsmessage.ClassINET})
	}
	sec := ""
	for _, m := range recs {
		for sec != m.sec {
			switch sec {
			case "":
				b.StartAnswers()
				sec = "an"
			case "an":
				b.StartAuthorities()
				sec = "ns"
			case "ns":
				b.StartAdditionals()
				sec = "ar"
			}
		}
		h := dnsmessage.ResourceHeader{Name: mustName(m.owner), Class: dnsmessage.ClassINET, TTL: m.ttl}
		var err error
		switch m.typ {
		case "A":
			err = b.AResource(h, dnsmessage.AResource{A: m.ip.As4()})
		case "AAAA":
			err = b.AAAAResource(h, dnsmessage.AAAAResource{AAAA: m.ip.As16()})
		case "CNAME":
			err = b.CNAMEResource(h, dnsmessage.CNAMEResource{CNAME: mustName(m.target)})
		case "PTR", "PTRX":
			err = b.PTRResource(h, dnsmessage.PTRResource{PTR: mustName(m.target)})
		case "TXT":
			err = b.TXTResource(h, dnsmessage.TXTResource{TXT: m.txt})
		default:
			err = b.UnknownResource(h, dnsmessage.UnknownResource{Type: dnsmessage.Type(m.tcode), Data: m.rdata})
		}
		if err != nil {
			return nil, false
		}
	}
	out, err := b.Finish()
	return out, err == nil
}

// ---------------------------------------------------------------------------------------------
// NBNS node status

func nbnsEncodedName(name string) []byte {
	for len(name) < 16 {
		name += " "
	}
	b := []byte{32}
	for i := 0; i < 16; i++ {
		b = append(b, 'A'+(name[i]>>4), 'A'+(name[i]&0x0f))
	}
	return append(b, 0)
}

func genNBNS(v *Vector, r *rand.Rand, k int) []*Case {
	n, x, ans := num(v.Aux, "n"), num(v.Aux, "x"), str(v.Aux, "ans")
	hdr := make([]byte, 12)
	binary.BigEndian.PutUint16(hdr[0:2], uint16(1+r.Intn(65000)))
	var b []byte
	pad := num(v.Aux, "pad")
	names := make([]string, len(v.Seq)+pad)
	if ans == "query" {
		hdr[2], hdr[3] = 0x00, 0x10
		hdr[5] = 1
		b = append(hdr, nbnsEncodedName("*")...)
		b = append(b, 0, 0x21, 0, 1)
	} else {
		hdr[2], hdr[3] = 0x84, 0x00
		hdr[7] = 1
		b = append(hdr, nbnsEncodedName("*")...)
		typ := map[string]byte{"nbstat": 0x21, "nb": 0x20, "other": 0x01}[ans]
		rdata := []byte{byte(n)}
		for i, e := range v.Seq {
			nm := strings.ToUpper(string(letters(r, 4+r.Intn(8))))
			flags := []byte{0x04, 0x00}
			if boolean(e, "g") {
				nm = "WG" + nm
				flags = []byte{0x84, 0x00}
			}
			names[i] = nm
			ent := []byte(nm)
			for len(ent) < 15 {
				ent = append(ent, ' ')
			}
			ent = append(ent, []byte{0x00, 0x20}[k%2]) // suffix: workstation / file server
			rdata = append(rdata, ent...)
			rdata = append(rdata, flags...)
		}
		for j := 0; j < pad; j++ { // further complete entries, all unique names
			nm := fmt.Sprintf("PAD%02d%s", j, strings.ToUpper(string(letters(r, 4))))
			names[len(v.Seq)+j] = nm
			ent := []byte(nm)
			for len(ent) < 15 {
				ent = append(ent, ' ')
			}
			rdata = append(rdata, append(ent, 0x00, 0x04, 0x00)...)
		}
		tailb := []byte(strings.ToUpper(string(letters(r, 15))))
		tailb = append(tailb, 0, 0x04, 0)
		rdata = append(rdata, tailb[:x]...)
		b = append(b, 0, typ, 0, 1, 0, 0, 0, 0, byte(len(rdata)>>8), byte(len(rdata)))
		b = append(b, rdata...)
	}
	exp := &dnsExp{Kind: "nbns", Verdict: v.Verdict, Strict: v.Strict, Cls: v.Cls}
	if ans != "nbstat" {
		exp.Verdict, exp.Strict = "none", false // no node status answer: nothing to extract
	}
	if i := num(v.Extra, "name"); i > 0 && ans == "nbstat" {
		exp.NBName = names[i-1]
	}
	w := udp4(cliMAC, vh.OwnMAC, cliIP, u0.Cfg.HostIP, 137, 137)
	return []*Case{
		{Entry: "NBNS.process", Group: "nbns", Payload: b, Run: runNBNS, NeedHook: true, Exp: exp},
		{Entry: "H.nbns", Group: "nbns", Payload: b, Frame: w.build(b), Run: runFrame, NeedHook: true, Exp: exp, wrap: w},
	}
}
