//go:build !stphook

package main

// no hook to re-arm the STP log limiter: large STP frames are run as the first frame of a worker process
const stpHookPresent = false

func resetSTP() {}
