//go:build stphook

package main

import "github.com/irai/packet"

// built with tag stphook when package packet has VerifResetSTPLog
const stpHookPresent = true

func resetSTP() { packet.VerifResetSTPLog() }
