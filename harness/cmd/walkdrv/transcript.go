package main

import (
	"bufio"
	"encoding/json"
	"fmt"
	"math/rand"
	"os"
	"sort"

	"github.com/irai/packet"
	"verifharness/vh"
)

// shared / fresh mode (input for property C10): the naming histories are delivered either through
// one receive buffer that is scribbled over after every step (shared) or in a fresh buffer per
// packet (fresh). Everything the handler retained (DNS table, returned entries, learned host
// names) is written to the transcript after the scribble; the two transcripts must be equal.
func runTranscript(shared bool) {
	vh.Quiet()
	real := os.Stdout
	if f, err := os.OpenFile(os.DevNull, os.O_WRONLY, 0); err == nil {
		os.Stdout = f
	}
	if !dnsHookPresent {
		fmt.Fprintln(real, `{"skipped":"dns_naming.VerifNew absent"}`)
		return
	}
	vs, err := readVectors(*fVectors, 0, 0)
	if err != nil {
		fmt.Fprintln(os.Stderr, err)
		os.Exit(2)
	}
	out, err := os.Create(*fOut)
	if err != nil {
		fmt.Fprintln(os.Stderr, err)
		os.Exit(2)
	}
	w := bufio.NewWriter(out)
	defer w.Flush()
	e, err := newEnv()
	if err != nil {
		fmt.Fprintln(os.Stderr, err)
		os.Exit(2)
	}
	defer e.close()
	h := newDNS(e.s)
	rx := make([]byte, packet.EthMaxSize)
	rng := rand.New(rand.NewSource(seed()))
	steps := 0
	type keep struct {
		ent  packet.DNSEntry
		v4   []packet.IPNameEntry
		nb   packet.NameEntry
		kind string
	}
	for i := range vs {
		v := &vs[i]
		if v.JID != nil { // a subset of the check's vector list: keep the original identity (it seeds the encoding)
			v.ID = *v.JID
		}
		// only inputs on which every handler returns (no open hang / panic class)
		okv := v.Verdict == "accept"
		for _, m := range v.Mech {
			if m != "ok" {
				okv = false
			}
		}
		if !okv || (v.W != "dnsmsg" && v.W != "nbns") {
			continue
		}
		for _, c := range genCases(v, seed(), 1, 0) {
			if c.Frame == nil || !c.NeedHook {
				continue
			}
			var buf []byte
			if shared {
				buf = rx[:copy(rx, c.Frame)]
			} else {
				buf = append(make([]byte, 0, packet.EthMaxSize), c.Frame...)
			}
			fr, err := e.s.Parse(buf)
			if err != nil {
				continue
			}
			var k keep
			var perr error
			switch fr.PayloadID {
			case packet.PayloadDNS:
				k.kind = "dns"
				k.ent, perr = h.ProcessDNS(fr)
			case packet.PayloadMDNS:
				k.kind = "mdns"
				var v6 []packet.IPNameEntry
				k.v4, v6, perr = h.ProcessMDNS(fr)
				k.v4 = append(k.v4, v6...)
				for _, n := range k.v4 {
					if fr.Host != nil {
						fr.Host.UpdateMDNSName(n.NameEntry)
					}
				}
			case packet.PayloadNBNS:
				k.kind = "nbns"
				k.nb, perr = h.ProcessNBNS(fr.Host, fr.Ether(), fr.Payload())
				if fr.Host != nil && k.nb.Name != "" {
					fr.Host.UpdateNBNSName(k.nb)
				}
			default:
				continue
			}
			host := fr.Host
			if shared { // the packet loop reads the next packet into the same buffer
				p := byte(rng.Intn(256))
				for j := range rx {
					rx[j] = p ^ byte(j*7)
				}
			}
			steps++
			rec := map[string]interface{}{"step": steps, "v": v.ID, "kind": k.kind, "err": perr != nil}
			switch k.kind {
			case "dns":
				rec["returned"] = entryView(k.ent)
				if c.Exp != nil {
					rec["table"] = entryView(h.DNSFind(c.Exp.QName))
				}
			case "mdns":
				var l []string
				for _, n := range k.v4 {
					l = append(l, n.NameEntry.Name+"="+n.Addr.IP.String()+"@"+n.Addr.MAC.String())
				}
				sort.Strings(l)
				rec["names"] = l
			case "nbns":
				rec["name"] = k.nb.Name
			}
			if host != nil {
				rec["host"] = map[string]string{"mdns": host.MDNSName.Name, "nbns": host.NBNSName.Name, "macmdns": host.MACEntry.MDNSName.Name, "mac": host.Addr.MAC.String(), "ip": host.Addr.IP.String()}
			}
			j, _ := json.Marshal(rec)
			w.Write(j)
			w.WriteByte('\n')
		}
	}
	// the whole table at the end
	var names []string
	for n := range h.DNSTable {
		names = append(names, n)
	}
	sort.Strings(names)
	for _, n := range names {
		j, _ := json.Marshal(map[string]interface{}{"final": n, "entry": entryView(h.DNSTable[n])})
		w.Write(j)
		w.WriteByte('\n')
	}
	fmt.Fprintf(real, `{"steps":%d,"table":%d,"shared":%v}`+"\n", steps, len(names), shared)
}

func entryView(e packet.DNSEntry) map[string]interface{} {
	c := map[string]string{}
	for k, r := range e.CNameRecords {
		c[k] = r.Name + ">" + r.CName
	}
	p := map[string]string{}
	for k, r := range e.PTRRecords {
		p[k] = r.Name + ">" + r.IP.String()
	}
	return map[string]interface{}{"name": e.Name, "a": fmtRecs(gotRecs(e.IP4Records)), "aaaa": fmtRecs(gotRecs(e.IP6Records)), "cname": fmtMap(c), "ptr": fmtMap(p)}
}
