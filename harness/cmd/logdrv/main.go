// logdrv binds spec/LogLine.tla (C20) to the real fastlog code of irai/packet.
//
//	logdrv -vectors v.ndjson -behaviours b.ndjson     run all stages, print one JSON summary line on stdout
//	logdrv -case '{"op":...}'                         re-execute one recorded case
//
// Stages
//
//	A  renderer vectors printed by TLC (LogLineVec.tla): the real appender output is compared with the text the
//	   specification expects (property level), with the text the mechanism-level transcription predicts (drift only)
//	   and the specification is compared with the standard library (oracle agreement: a disagreement is an
//	   infrastructure failure, not a verdict).
//	B  sweeps of the real appenders against the standard library (all uint16 values, all byte values, every IPv6
//	   zero layout with seeded group values, seeded uint32 / int / duration / time / string values).
//	C  behaviours of the line state machine exported by TLC (LogLineMC.tla) replayed on real fastlog.Line values:
//	   cursor and panics are observed after every appender; guarded appenders must not panic, must keep the cursor
//	   inside the buffer and must leave earlier fields intact; a line whose fields all fit must equal the
//	   concatenation of its reference-rendered fields.
//	D  String() / FastLog of valid protocol views and table entries under recover.
package main

import (
	"bufio"
	"bytes"
	"encoding/hex"
	"encoding/json"
	"errors"
	"flag"
	"fmt"
	"math/rand"
	"net"
	"net/netip"
	"os"
	"reflect"
	"strconv"
	"strings"
	"time"
	"unsafe"

	"github.com/irai/packet"
	"github.com/irai/packet/fastlog"
	"verifharness/vh"
)

const capBuf = 2048
const prefix = "verif :"

var lg = fastlog.New("verif")

// ---------------------------------------------------------------------------------------------
// observation of the unexported cursor and buffer

func lineIndex(l *fastlog.Line) int {
	return int(reflect.ValueOf(l).Elem().FieldByName("index").Int())
}

func lineBuffer(l *fastlog.Line) []byte {
	f := reflect.ValueOf(l).Elem().FieldByName("buffer")
	p := unsafe.Pointer(f.UnsafeAddr())
	return (*[capBuf]byte)(p)[:]
}

// ---------------------------------------------------------------------------------------------

type failure struct {
	Key  string                 `json:"key"`
	What string                 `json:"what"`
	Case map[string]interface{} `json:"case"`
}

type summary struct {
	Vectors        int            `json:"vectors"`
	VecByType      map[string]int `json:"vectors_by_type"`
	OracleMismatch []string       `json:"oracle_mismatch"`
	AppenderCalls  int            `json:"appender_calls"`
	SweepByKind    map[string]int `json:"sweep_by_kind"`
	Behaviours     int            `json:"behaviours"`
	BehSteps       int            `json:"behaviour_steps"`
	BehPure        int            `json:"behaviours_all_fields_fit"`
	BehPanicsModel int            `json:"behaviours_model_predicts_panic"`
	BehPanicsReal  int            `json:"behaviours_real_panic"`
	MechConform    int            `json:"behaviours_mechanism_conformant"`
	PoolBehaviours int            `json:"pool_behaviours"`
	PoolSteps      int            `json:"pool_behaviour_steps"`
	ConcLines      int            `json:"concurrent_lines"`
	Views          int            `json:"views_rendered"`
	ViewsByType    map[string]int `json:"views_by_type"`
	Drift          []string       `json:"drift"`
	DriftCount     int            `json:"drift_count"`
	Info           []string       `json:"info"`
	Failures       []failure      `json:"failures"`
	FailCount      map[string]int `json:"failure_counts"`
	Distinct       int            `json:"distinct_cases"`
	Samples        []interface{}  `json:"samples"`
}

var (
	sum      = summary{VecByType: map[string]int{}, SweepByKind: map[string]int{}, ViewsByType: map[string]int{}, FailCount: map[string]int{}}
	distinct = map[string]struct{}{}
)

func fail(key, what string, c map[string]interface{}) {
	sum.FailCount[key]++
	if sum.FailCount[key] > 4 {
		return
	}
	sum.Failures = append(sum.Failures, failure{Key: key, What: what, Case: c})
}

// mkKey: named deviations of the specification lead the key (C20:KF_<name>:<appender>), so that one known-findings
// entry `C20:KF_<name>:*` covers every appender that shares the deviating code; everything else is
// C20:<appender>:<class>.
func mkKey(app, class string) string {
	if strings.HasPrefix(class, "KF_") {
		return "C20:" + class + ":" + app
	}
	return "C20:" + app + ":" + class
}

func drift(s string) {
	sum.DriftCount++
	if len(sum.Drift) < 12 {
		sum.Drift = append(sum.Drift, s)
	}
}

// ---------------------------------------------------------------------------------------------
// one appender call on a fresh line; returns the field text (without the module prefix) and a panic value

type fieldCall func(l *fastlog.Line) *fastlog.Line

func render(call fieldCall) (text string, pan interface{}) {
	defer func() {
		if r := recover(); r != nil {
			pan = r
		}
	}()
	l := lg.Msg("")
	call(l)
	s := l.ToString()
	sum.AppenderCalls++
	if !strings.HasPrefix(s, prefix) {
		return s, "module prefix damaged"
	}
	return s[len(prefix):], nil
}

// renderWrite does the same through Write() and the package writer.
func renderWrite(call fieldCall) (text string, pan interface{}) {
	defer func() {
		if r := recover(); r != nil {
			pan = r
		}
	}()
	var buf bytes.Buffer
	old := fastlog.DefaultIOWriter
	fastlog.DefaultIOWriter = &buf
	defer func() { fastlog.DefaultIOWriter = old }()
	l := lg.Msg("")
	call(l)
	l.Write()
	s := buf.String()
	if !strings.HasPrefix(s, prefix) || !strings.HasSuffix(s, "\n") {
		return s, "line written without module prefix or newline"
	}
	return s[len(prefix) : len(s)-1], nil
}

// ---------------------------------------------------------------------------------------------
// standard library oracle (value text only)

func stdIPSlice(ip net.IP) string {
	if len(ip) != 4 && len(ip) != 16 {
		return "nil"
	}
	return ip.String()
}

func stdAddr(a netip.Addr) string {
	if !a.IsValid() {
		return "nil"
	}
	return a.String()
}

func stdMAC(m net.HardwareAddr) string {
	if len(m) != 6 {
		return "nil"
	}
	return m.String()
}

func stdByteArray(b []byte) string {
	parts := make([]string, len(b))
	for i, x := range b {
		parts[i] = fmt.Sprintf("%02x", x)
	}
	return "[" + strings.Join(parts, " ") + "]"
}

func timeOffsetMin(t time.Time) int { _, off := t.Zone(); return off / 60 }

func longestZeroRun(ip net.IP) int {
	best, cur := 0, 0
	for i := 0; i < 16; i += 2 {
		if ip[i] == 0 && ip[i+1] == 0 {
			cur++
			if cur > best {
				best = cur
			}
		} else {
			cur = 0
		}
	}
	return best
}

// ---------------------------------------------------------------------------------------------
// stage A

type vector struct {
	Z  string `json:"z"`
	T  string `json:"t"`
	V  []int  `json:"v"`
	E  string `json:"e"`
	M  string `json:"m"`
	KF string `json:"kf"`
}

func toInts(b []byte) []int {
	a := make([]int, len(b))
	for i, x := range b {
		a[i] = int(x)
	}
	return a
}

func toBytes(a []int) []byte {
	b := make([]byte, len(a))
	for i, x := range a {
		b[i] = byte(x)
	}
	return b
}

// appendersFor returns, for a vector, the real calls to make (label -> call) and the stdlib text of the value.
func appendersFor(v vector) (calls map[string]fieldCall, std string, err error) {
	calls = map[string]fieldCall{}
	b := toBytes(v.V)
	switch v.T {
	case "ip6", "ip6s", "ip4", "ip4c":
		ip := net.IP(b)
		std = stdIPSlice(ip)
		calls["IPSlice"] = func(l *fastlog.Line) *fastlog.Line { return l.IPSlice("n", ip) }
		if v.T == "ip4" || v.T == "ip4c" {
			a := netip.AddrFrom4(*(*[4]byte)(b))
			calls["IP"] = func(l *fastlog.Line) *fastlog.Line { return l.IP("n", a) }
		}
	case "addr6", "addr6s":
		a := netip.AddrFrom16(*(*[16]byte)(b))
		std = stdAddr(a)
		calls["IP"] = func(l *fastlog.Line) *fastlog.Line { return l.IP("n", a) }
	case "mac":
		var m net.HardwareAddr
		if len(b) > 0 {
			m = net.HardwareAddr(b)
		}
		std = stdMAC(m)
		calls["MAC"] = func(l *fastlog.Line) *fastlog.Line { return l.MAC("n", m) }
	case "u8":
		x := uint8(v.V[0])
		std = strconv.FormatUint(uint64(x), 10)
		calls["Uint8"] = func(l *fastlog.Line) *fastlog.Line { return l.Uint8("n", x) }
		calls["Uint16"] = func(l *fastlog.Line) *fastlog.Line { return l.Uint16("n", uint16(x)) }
	case "u16":
		x := uint16(v.V[0])
		std = strconv.FormatUint(uint64(x), 10)
		calls["Uint16"] = func(l *fastlog.Line) *fastlog.Line { return l.Uint16("n", x) }
		calls["Uint32"] = func(l *fastlog.Line) *fastlog.Line { return l.Uint32("n", uint32(x)) }
		calls["Int"] = func(l *fastlog.Line) *fastlog.Line { return l.Int("n", int(x)) }
	case "u32":
		x := uint32(v.V[0])<<16 | uint32(v.V[1])
		std = strconv.FormatUint(uint64(x), 10)
		calls["Uint32"] = func(l *fastlog.Line) *fastlog.Line { return l.Uint32("n", x) }
	case "int":
		x := v.V[0]
		std = strconv.Itoa(x)
		calls["Int"] = func(l *fastlog.Line) *fastlog.Line { return l.Int("n", x) }
	case "u8hex":
		x := uint8(v.V[0])
		std = fmt.Sprintf("0x%02x", x)
		calls["Uint8Hex"] = func(l *fastlog.Line) *fastlog.Line { return l.Uint8Hex("n", x) }
	case "u16hex":
		x := uint16(v.V[0])
		std = fmt.Sprintf("0x%04x", x)
		calls["Uint16Hex"] = func(l *fastlog.Line) *fastlog.Line { return l.Uint16Hex("n", x) }
	case "bool":
		x := v.V[0] == 1
		std = strconv.FormatBool(x)
		calls["Bool"] = func(l *fastlog.Line) *fastlog.Line { return l.Bool("n", x) }
	case "bytes":
		std = stdByteArray(b)
		calls["ByteArray"] = func(l *fastlog.Line) *fastlog.Line { return l.ByteArray("n", b) }
	case "time":
		// a time value is an instant *and* a location; the same instant is rendered in other locations just before
		t := time.Unix(int64(v.V[0]), int64(v.V[1])*1e6).In(time.FixedZone("vec", v.V[2]*60))
		std = t.Format(time.StampMilli)
		calls["Time"] = func(l *fastlog.Line) *fastlog.Line {
			for _, other := range []*time.Location{time.UTC, time.FixedZone("plus10", 36000), time.FixedZone("nfld", -12600)} {
				o := t.In(other)
				if got := lg.Msg("").Time("n", o).ToString(); got != prefix+" n="+o.Format(time.StampMilli) {
					fail("C20:Time:text", fmt.Sprintf("Time renders %q, reference text is %q", got, prefix+" n="+o.Format(time.StampMilli)),
						map[string]interface{}{"op": "vector", "app": "Time", "t": "time", "v": []int{v.V[0], v.V[1], timeOffsetMin(o)}, "e": " n=" + o.Format(time.StampMilli)})
				}
			}
			return l.Time("n", t)
		}
	case "addr6z":
		a := netip.AddrFrom16(*(*[16]byte)(b)).WithZone(v.Z)
		std = stdAddr(a)
		calls["IP"] = func(l *fastlog.Line) *fastlog.Line { return l.IP("n", a) }
		calls["Struct(Addr)"] = nil // rendered in stage D (framing of packet.Addr is not a single field)
		delete(calls, "Struct(Addr)")
	default:
		return nil, "", fmt.Errorf("unknown vector type %q", v.T)
	}
	return calls, std, nil
}

func judgeField(app, class string, got string, pan interface{}, want string, c map[string]interface{}) bool {
	if pan != nil {
		fail("C20:"+app+":panic", fmt.Sprintf("%s panicked on a value whose text fits: %v", app, pan), c)
		return false
	}
	if got != want {
		fail(mkKey(app, class), fmt.Sprintf("%s renders %q, reference text is %q", app, got, want), c)
		return false
	}
	return true
}

func stageA(path string) error {
	f, err := os.Open(path)
	if err != nil {
		return err
	}
	defer f.Close()
	sc := bufio.NewScanner(f)
	sc.Buffer(make([]byte, 1<<20), 1<<24)
	for sc.Scan() {
		var v vector
		if err := json.Unmarshal(sc.Bytes(), &v); err != nil {
			return fmt.Errorf("bad vector: %v", err)
		}
		calls, std, err := appendersFor(v)
		if err != nil {
			return err
		}
		sum.Vectors++
		sum.VecByType[v.T]++
		distinct["v:"+v.T+":"+fmt.Sprint(v.V)] = struct{}{}
		if sum.VecByType[v.T] == 3 && len(sum.Samples) < 8 {
			sum.Samples = append(sum.Samples, map[string]interface{}{"type": v.T, "value": v.V, "expected": v.E, "mechanism": v.M, "kf": v.KF})
		}
		// oracle agreement: specification == standard library
		if v.E != " n="+std {
			if len(sum.OracleMismatch) < 5 {
				sum.OracleMismatch = append(sum.OracleMismatch, fmt.Sprintf("%s %v: specification %q, standard library %q", v.T, v.V, v.E, " n="+std))
			}
			continue
		}
		for app, call := range calls {
			class := "text"
			if v.KF != "none" && app == "IPSlice" {
				class = v.KF
			}
			c := map[string]interface{}{"op": "vector", "app": app, "t": v.T, "v": v.V, "e": v.E, "z": v.Z}
			got, pan := render(call)
			if judgeField(app, class, got, pan, v.E, c) {
				// mechanism conformance is only meaningful where the mechanism text differs from the reference
				if got != v.M && app == "IPSlice" {
					drift(fmt.Sprintf("IPSlice %v: real %q, mechanism model %q (the code no longer matches the transcribed appendIP6)", v.V, got, v.M))
				}
			}
			if sum.Vectors%7 == 0 {
				got2, pan2 := renderWrite(call)
				if pan2 != nil || (pan == nil && got2 != got) {
					fail("C20:Write", fmt.Sprintf("Write() emits %q, ToString() gave %q (%v)", got2, got, pan2), c)
				}
			}
		}
	}
	return sc.Err()
}

// ---------------------------------------------------------------------------------------------
// stage B: sweeps against the standard library

func ip6Class(ip net.IP) string {
	if len(ip) == 16 && ip.To4() == nil && longestZeroRun(ip) == 2 {
		return "KF_IP6RunOfTwo"
	}
	return "text"
}

func sweepField(kind, app, class, want string, call fieldCall, c map[string]interface{}) {
	sum.SweepByKind[kind]++
	got, pan := render(call)
	judgeField(app, class, got, pan, " n="+want, c)
}

func stageB(rng *rand.Rand, thorough bool) {
	// all uint16 values
	for x := 0; x < 65536; x++ {
		v := uint16(x)
		c := map[string]interface{}{"op": "sweep", "kind": "u16", "x": x}
		sweepField("uint16", "Uint16", "text", strconv.Itoa(x), func(l *fastlog.Line) *fastlog.Line { return l.Uint16("n", v) }, c)
		sweepField("uint16hex", "Uint16Hex", "text", fmt.Sprintf("0x%04x", x), func(l *fastlog.Line) *fastlog.Line { return l.Uint16Hex("n", v) }, c)
		// the value as one IPv6 group, at a position that moves with the value
		ip := make(net.IP, 16)
		ip[0], ip[1] = 0x20, 0x01
		for g := 1; g < 8; g++ {
			ip[2*g], ip[2*g+1] = byte(g), byte(0x10*g)
		}
		g := x % 8
		ip[2*g], ip[2*g+1] = byte(x>>8), byte(x)
		cc := map[string]interface{}{"op": "sweep", "kind": "ip6", "ip": hex.EncodeToString(ip)}
		sweepField("ip6group", "IPSlice", ip6Class(ip), stdIPSlice(ip), func(l *fastlog.Line) *fastlog.Line { return l.IPSlice("n", ip) }, cc)
		if thorough || x%16 == 0 {
			sweepField("uint32", "Uint32", "text", strconv.FormatUint(uint64(x)*65537, 10), func(l *fastlog.Line) *fastlog.Line { return l.Uint32("n", uint32(x)*65537) }, c)
			sweepField("int", "Int", "text", strconv.Itoa(x-32768), func(l *fastlog.Line) *fastlog.Line { return l.Int("n", x-32768) }, c)
		}
	}
	// all byte values
	for x := 0; x < 256; x++ {
		b := byte(x)
		c := map[string]interface{}{"op": "sweep", "kind": "u8", "x": x}
		sweepField("uint8", "Uint8", "text", strconv.Itoa(x), func(l *fastlog.Line) *fastlog.Line { return l.Uint8("n", b) }, c)
		sweepField("uint8hex", "Uint8Hex", "text", fmt.Sprintf("0x%02x", x), func(l *fastlog.Line) *fastlog.Line { return l.Uint8Hex("n", b) }, c)
		for pos := 0; pos < 6; pos++ {
			m := net.HardwareAddr{0x02, 0x10, 0xa0, 0x0b, 0xf0, 0x99}
			m[pos] = b
			cm := map[string]interface{}{"op": "sweep", "kind": "mac", "mac": hex.EncodeToString(m)}
			sweepField("mac", "MAC", "text", m.String(), func(l *fastlog.Line) *fastlog.Line { return l.MAC("n", m) }, cm)
		}
		for pos := 0; pos < 4; pos++ {
			ip := net.IP{10, 200, 0, 99}
			ip[pos] = b
			ci := map[string]interface{}{"op": "sweep", "kind": "ip4", "ip": hex.EncodeToString(ip)}
			sweepField("ip4", "IPSlice", "text", ip.String(), func(l *fastlog.Line) *fastlog.Line { return l.IPSlice("n", ip) }, ci)
			ip16 := ip.To16()
			sweepField("ip4in6", "IPSlice", "text", ip.String(), func(l *fastlog.Line) *fastlog.Line { return l.IPSlice("n", ip16) }, ci)
			a := netip.AddrFrom4(*(*[4]byte)(ip))
			sweepField("addr4", "IP", "text", a.String(), func(l *fastlog.Line) *fastlog.Line { return l.IP("n", a) }, ci)
		}
		ba := []byte{b, byte(255 - x), b}
		cb := map[string]interface{}{"op": "sweep", "kind": "bytes", "b": hex.EncodeToString(ba)}
		sweepField("bytearray", "ByteArray", "text", stdByteArray(ba), func(l *fastlog.Line) *fastlog.Line { return l.ByteArray("n", ba) }, cb)
	}
	// every zero layout of an IPv6 address with seeded group values
	per := 8
	if thorough {
		per = 64
	}
	for layout := 0; layout < 256; layout++ {
		for r := 0; r < per; r++ {
			ip := make(net.IP, 16)
			for g := 0; g < 8; g++ {
				if layout>>g&1 == 1 {
					var x int
					switch rng.Intn(4) {
					case 0:
						x = 1 + rng.Intn(15)
					case 1:
						x = 16 + rng.Intn(240)
					case 2:
						x = 256 + rng.Intn(3840)
					default:
						x = 4096 + rng.Intn(61440)
					}
					ip[2*g], ip[2*g+1] = byte(x>>8), byte(x)
				}
			}
			c := map[string]interface{}{"op": "sweep", "kind": "ip6", "ip": hex.EncodeToString(ip)}
			distinct["l:"+hex.EncodeToString(ip)] = struct{}{}
			sweepField("ip6layout", "IPSlice", ip6Class(ip), stdIPSlice(ip), func(l *fastlog.Line) *fastlog.Line { return l.IPSlice("n", ip) }, c)
			a := netip.AddrFrom16(*(*[16]byte)(ip))
			sweepField("addr6layout", "IP", "text", stdAddr(a), func(l *fastlog.Line) *fastlog.Line { return l.IP("n", a) }, c)
			// the same address as the only element of an IP array: name=[<addr>,] (the closing framing is the library's own)
			sum.SweepByKind["iparray1"]++
			got, pan := render(func(l *fastlog.Line) *fastlog.Line { return l.IPArray("n", []net.IP{ip}) })
			if ip.To4() == nil {
				checkArray("IPArray", []net.IP{ip}, got, pan, []string{stdIPSlice(ip)}, map[string]interface{}{"op": "iparray", "ips": []string{hex.EncodeToString(ip)}})
			}
		}
	}
	// seeded values of the remaining types
	n := 2000
	if thorough {
		n = 40000
	}
	for i := 0; i < n; i++ {
		u := rng.Uint32() >> uint(rng.Intn(32))
		c := map[string]interface{}{"op": "sweep", "kind": "u32", "x": u}
		sweepField("uint32", "Uint32", "text", strconv.FormatUint(uint64(u), 10), func(l *fastlog.Line) *fastlog.Line { return l.Uint32("n", u) }, c)
		iv := int(rng.Int63()>>uint(rng.Intn(63))) * (1 - 2*rng.Intn(2))
		if i == 0 {
			iv = -9223372036854775808
		}
		if i == 1 {
			iv = 9223372036854775807
		}
		ci := map[string]interface{}{"op": "sweep", "kind": "int", "x": strconv.Itoa(iv)}
		sweepField("int", "Int", "text", strconv.Itoa(iv), func(l *fastlog.Line) *fastlog.Line { return l.Int("n", iv) }, ci)
		d := time.Duration(rng.Int63()>>uint(rng.Intn(63))) * time.Duration(1-2*rng.Intn(2))
		cd := map[string]interface{}{"op": "sweep", "kind": "duration", "x": strconv.FormatInt(int64(d), 10)}
		sweepField("duration", "Duration", "text", d.String(), func(l *fastlog.Line) *fastlog.Line { return l.Duration("n", d) }, cd)
		t := time.Unix(rng.Int63n(4102444800), rng.Int63n(1e9)).UTC()
		ct := map[string]interface{}{"op": "sweep", "kind": "time", "x": t.Format(time.RFC3339Nano)}
		sweepField("time", "Time", "text", t.Format(time.StampMilli), func(l *fastlog.Line) *fastlog.Line { return l.Time("n", t) }, ct)
		s := randText(rng, rng.Intn(40))
		cs := map[string]interface{}{"op": "sweep", "kind": "string", "x": s}
		sweepField("string", "String", "text", "\""+s+"\"", func(l *fastlog.Line) *fastlog.Line { return l.String("n", s) }, cs)
		sweepField("bool", "Bool", "text", strconv.FormatBool(i%2 == 0), func(l *fastlog.Line) *fastlog.Line { return l.Bool("n", i%2 == 0) }, cs)
	}
	// time values in several locations, rendered back to back (same instant, same second, different location), and
	// zone-qualified addresses with zones of every length 0..24
	locs := []*time.Location{time.UTC, time.Local, time.FixedZone("a", 36000), time.FixedZone("b", -12600), time.FixedZone("c", 20700), time.FixedZone("d", -43200), time.FixedZone("e", 50400)}
	zoneAlpha := "enp0s31f6vlan1234br0wxyz"
	for i := 0; i < n/4; i++ {
		base := time.Unix(rng.Int63n(4102444800), rng.Int63n(1e9))
		for j := 0; j < 4; j++ {
			t := base.Add(time.Duration(rng.Intn(900)) * time.Millisecond).In(locs[rng.Intn(len(locs))])
			ct := map[string]interface{}{"op": "vector", "app": "Time", "t": "time", "v": []int{int(t.Unix()), t.Nanosecond() / 1e6, timeOffsetMin(t)}, "e": " n=" + t.Format(time.StampMilli)}
			sweepField("time-location", "Time", "text", t.Format(time.StampMilli), func(l *fastlog.Line) *fastlog.Line { return l.Time("n", t) }, ct)
		}
		var ab [16]byte
		rng.Read(ab[:])
		ab[0], ab[1] = 0xfe, 0x80
		for z := rng.Intn(3); z > 0; z-- {
			g := 1 + rng.Intn(7)
			ab[2*g], ab[2*g+1] = 0, 0
		}
		zone := zoneAlpha[:i%25]
		a := netip.AddrFrom16(ab).WithZone(zone)
		cz := map[string]interface{}{"op": "vector", "app": "IP", "t": "addr6z", "v": toInts(ab[:]), "z": zone, "e": " n=" + a.String()}
		sweepField("addr6zone", "IP", "text", a.String(), func(l *fastlog.Line) *fastlog.Line { return l.IP("n", a) }, cz)
	}
	// string arrays and IP arrays that fit: elements in order, each rendered as the reference does
	for i := 0; i < n/10; i++ {
		k := rng.Intn(5)
		ss := make([]string, k)
		for j := range ss {
			ss[j] = randText(rng, rng.Intn(12))
		}
		q := make([]string, k)
		for j := range ss {
			q[j] = "\"" + ss[j] + "\""
		}
		sum.SweepByKind["stringarray"]++
		got, pan := render(func(l *fastlog.Line) *fastlog.Line { return l.StringArray("n", ss) })
		checkArray("StringArray", nil, got, pan, q, map[string]interface{}{"op": "stringarray", "ss": ss})
		ips := make([]net.IP, 1+rng.Intn(4))
		txt := make([]string, len(ips))
		hexes := make([]string, len(ips))
		for j := range ips {
			if rng.Intn(4) == 0 {
				ips[j] = net.IPv4(byte(rng.Intn(256)), byte(rng.Intn(256)), byte(rng.Intn(256)), byte(rng.Intn(256))).To4()
			} else {
				ip := make(net.IP, 16)
				rng.Read(ip)
				for z := rng.Intn(4); z > 0; z-- {
					g := rng.Intn(8)
					ip[2*g], ip[2*g+1] = 0, 0
				}
				ips[j] = ip
			}
			txt[j] = stdIPSlice(ips[j])
			hexes[j] = hex.EncodeToString(ips[j])
		}
		sum.SweepByKind["iparray"]++
		got, pan = render(func(l *fastlog.Line) *fastlog.Line { return l.IPArray("n", ips) })
		checkArray("IPArray", ips, got, pan, txt, map[string]interface{}{"op": "iparray", "ips": hexes})
	}
}

func randText(rng *rand.Rand, n int) string {
	const alpha = "abcdefghijklmnopqrstuvwxyzABCDEFGHIJKLMNOPQRSTUVWXYZ0123456789-_.:/ "
	b := make([]byte, n)
	for i := range b {
		b[i] = alpha[rng.Intn(len(alpha))]
	}
	return string(b)
}

// arrayOK: the property-level reading of an array field: ` n=[` elements separated by ", " `]`; the library's own
// habit of leaving the last comma (`,]`) is framing the statement does not constrain.
func arrayOK(got string, elems []string) bool {
	if !strings.HasPrefix(got, " n=[") || !strings.HasSuffix(got, "]") {
		return false
	}
	body := got[len(" n=[") : len(got)-1]
	body = strings.TrimSuffix(body, ",")
	return body == strings.Join(elems, ", ")
}

// arrayClass names a mismatch of an IP array by what is observed: an unterminated array that stops at an IPv4
// element is the early return; otherwise a differing element whose reference text shortens a zero run of two groups
// is the appendIP6 deviation; anything else is a plain text mismatch.
func arrayClass(got string, elems []string, ips []net.IP) string {
	if ips == nil {
		return "text"
	}
	if !strings.HasSuffix(got, "]") {
		for _, ip := range ips {
			if len(ip) == 4 && strings.HasSuffix(got, ip.String()) {
				return "KF_IPArrayReturnsAfterIP4"
			}
		}
		return "text"
	}
	body := strings.TrimSuffix(strings.TrimSuffix(strings.TrimPrefix(got, " n=["), "]"), ",")
	parts := strings.Split(body, ", ")
	if len(parts) != len(elems) {
		return "text"
	}
	onlyRunOfTwo := true
	for i := range parts {
		if parts[i] != elems[i] && ip6Class(ips[i]) != "KF_IP6RunOfTwo" {
			onlyRunOfTwo = false
		}
	}
	if onlyRunOfTwo {
		return "KF_IP6RunOfTwo"
	}
	return "text"
}

func checkArray(app string, ips []net.IP, got string, pan interface{}, elems []string, c map[string]interface{}) {
	if pan != nil {
		fail("C20:"+app+":panic", fmt.Sprintf("%s panicked on an array that fits: %v", app, pan), c)
		return
	}
	if !arrayOK(got, elems) {
		fail(mkKey(app, arrayClass(got, elems, ips)), fmt.Sprintf("%s renders %q, reference elements are %v", app, got, elems), c)
	}
}

// ---------------------------------------------------------------------------------------------
// stage C: behaviours of the line machine

type step struct {
	A   string   `json:"a"`
	N   int      `json:"n"`
	M   int      `json:"m"`
	V   int      `json:"v"`
	C   int      `json:"c"`
	K   int      `json:"k"`
	T   bool     `json:"t"`
	OK  bool     `json:"ok"`
	EK  string   `json:"ek"`
	EKs []string `json:"eks"`
	I   int      `json:"i"`
	P   bool     `json:"p"`
	KF  string   `json:"kf"`
	Fit bool     `json:"fit"`
	R   int      `json:"r"`
}

type behaviour struct {
	H    []step `json:"h"`
	Pure bool   `json:"pure"`
	Ref  int    `json:"ref"`
}

var guarded = map[string]bool{"ByteArray": true, "StringArray": true, "StringArrayMixed": true, "IPArray": true, "IPArrayMixed": true}

// element classes of LogLineMC.tla (EK): concrete addresses with the text length the model assumes. None of them
// has a zero run of exactly two groups, so the reference text and the mechanism text coincide (the zero-run
// deviation is covered by the renderer vectors).
var ekAddr = map[string]net.IP{
	"nil":   nil,
	"bad":   net.IP{1, 2, 3, 4, 5},
	"v4s":   net.IP{1, 2, 3, 4},
	"v4l":   net.IP{192, 168, 100, 200},
	"v6any": net.ParseIP("::"),
	"v6one": net.ParseIP("::1"),
	"v6t27": net.ParseIP("1111:2222:3333:4444:5:6:7:8"),
	"v6t28": net.ParseIP("1111:2222:3333:4444:55:6:7:8"),
	"v6t29": net.ParseIP("1111:2222:3333:4444:55:66:7:8"),
	"v6t38": net.ParseIP("1111:2222:3333:4444:5555:6666:7777:888"),
	"v6t39": net.ParseIP("1111:2222:3333:4444:5555:6666:7777:8888"),
	"v6e26": net.ParseIP("1111:2222:3333:4444:5555::"),
}
var ekLen = map[string]int{"nil": 0, "bad": 3, "v4s": 7, "v4l": 15, "v6any": 2, "v6one": 3, "v6t27": 27, "v6t28": 28, "v6t29": 29, "v6t38": 38, "v6t39": 39, "v6e26": 26}

func ekText(ek string) string {
	ip := ekAddr[ek]
	if ip == nil {
		return ""
	}
	return stdIPSlice(ip)
}

func nameOf(n int) string { return "abcdefghijklmnop"[:n] }

func fill(n int, ch byte) string { return strings.Repeat(string(ch), n) }

func digits(k int, neg bool) int {
	// a value whose decimal text has k characters
	if neg {
		x := 1
		for i := 2; i < k; i++ {
			x *= 10
		}
		return -x
	}
	x := 1
	for i := 1; i < k; i++ {
		x *= 10
	}
	return x
}

// apply performs one modelled step on the real line. It returns the reference text of the field (for arrays the
// element texts) and whether the field is an array.
func apply(l *fastlog.Line, s step, seed int) (ref string, elems []string, isArray bool) {
	name := nameOf(s.N)
	switch s.A {
	case "String":
		v := fill(s.V, 'v')
		l.String(name, v)
		return " " + name + "=\"" + v + "\"", nil, false
	case "ByteArray":
		b := make([]byte, s.M)
		for i := range b {
			b[i] = byte(i*7 + seed)
		}
		l.ByteArray(name, b)
		return " " + name + "=" + stdByteArray(b), nil, false
	case "StringArray", "StringArrayMixed":
		var ss []string
		if s.A == "StringArrayMixed" {
			ss = []string{fill(3, 'x'), fill(2100, 'y'), fill(3, 'z')}
		} else {
			for i := 0; i < s.C; i++ {
				ss = append(ss, fill(s.V, byte('a'+i%26)))
			}
		}
		l.StringArray(name, ss)
		for _, x := range ss {
			elems = append(elems, "\""+x+"\"")
		}
		return " " + name + "=", elems, true
	case "IPArray", "IPArrayMixed":
		var ips []net.IP
		eks := s.EKs
		if s.A == "IPArray" {
			for i := 0; i < s.C; i++ {
				eks = append(eks, s.EK)
			}
		}
		for _, ek := range eks {
			ips = append(ips, ekAddr[ek])
			elems = append(elems, ekText(ek))
		}
		l.IPArray(name, ips)
		return " " + name + "=", elems, true
	case "Uint8":
		x := uint8(digits(s.K, false))
		l.Uint8(name, x)
		return " " + name + "=" + strconv.Itoa(int(x)), nil, false
	case "Uint16":
		x := uint16(digits(s.K, false))
		l.Uint16(name, x)
		return " " + name + "=" + strconv.Itoa(int(x)), nil, false
	case "Uint32":
		x := uint32(digits(s.K, false))
		l.Uint32(name, x)
		return " " + name + "=" + strconv.FormatUint(uint64(x), 10), nil, false
	case "Int":
		x := digits(s.K, s.K > 1)
		l.Int(name, x)
		return " " + name + "=" + strconv.Itoa(x), nil, false
	case "Uint8Hex":
		l.Uint8Hex(name, 0xa7)
		return " " + name + "=0xa7", nil, false
	case "Uint16Hex":
		l.Uint16Hex(name, 0x0fb1)
		return " " + name + "=0x0fb1", nil, false
	case "Bool":
		l.Bool(name, s.T)
		return " " + name + "=" + strconv.FormatBool(s.T), nil, false
	case "MAC":
		var m net.HardwareAddr
		if s.OK {
			m = net.HardwareAddr{0x00, 0x1b, 0xff, 0xa0, 0x09, 0x7e}
		}
		l.MAC(name, m)
		return " " + name + "=" + stdMAC(m), nil, false
	case "IPSlice":
		ip := ekAddr[s.EK]
		l.IPSlice(name, ip)
		return " " + name + "=" + stdIPSlice(ip), nil, false
	case "IP":
		var a netip.Addr
		if ip := ekAddr[s.EK]; ip != nil {
			a, _ = netip.AddrFromSlice(ip)
		}
		l.IP(name, a)
		return " " + name + "=" + stdAddr(a), nil, false
	case "Label":
		l.Label(name)
		return " " + name, nil, false
	case "Bytes":
		v := fill(s.V, 'b')
		l.Bytes(name, []byte(v))
		return " " + name + "=" + v, nil, false
	case "LF":
		l.LF()
		return "\n", nil, false
	}
	panic("logdrv: unknown appender " + s.A)
}

type behResult struct {
	failKey, failWhat string
	mech              bool
	realPanic         bool
	driftNote         string
	info              string
}

// runBehaviour replays one behaviour; it is also the reproduction function of -case.
func runBehaviour(b behaviour, seed int, useWrite bool) (res behResult) {
	res.mech = true
	if len(b.H) == 0 || b.H[0].A != "Msg" {
		res.failKey, res.failWhat = "infra", "behaviour does not start with Msg"
		return
	}
	msg := fill(b.H[0].M, 'm')
	l := lg.Msg(msg)
	want := prefix
	if msg != "" {
		want += " \"" + msg + "\""
	}
	if lineIndex(l) != b.H[0].I {
		res.mech = false
		res.driftNote = fmt.Sprintf("Msg: cursor %d, model %d", lineIndex(l), b.H[0].I)
	}
	exact := true       // every field so far is known exactly (non-array) -> `want` is the exact expected text
	var tail [][]string // not used when exact
	_ = tail
	type seg struct {
		head  string
		elems []string
		arr   bool
	}
	segs := []seg{{head: want}}
	for si, s := range b.H[1:] {
		before := lineIndex(l)
		snapshot := append([]byte{}, lineBuffer(l)[:before]...)
		var ref string
		var elems []string
		var arr bool
		var pan interface{}
		func() {
			defer func() { pan = recover() }()
			ref, elems, arr = apply(l, s, seed+si)
		}()
		after := lineIndex(l)
		segs = append(segs, seg{head: ref, elems: elems, arr: arr})
		if arr {
			exact = false
		}
		if pan != nil {
			res.realPanic = true
			if guarded[s.A] {
				key := mkKey(strings.TrimSuffix(s.A, "Mixed"), classifyPanic(s, fmt.Sprint(pan)))
				res.failKey = key
				res.failWhat = fmt.Sprintf("%s(name %d bytes, %s) at cursor %d panicked: %v", s.A, s.N, argText(s), before, pan)
			} else if s.Fit {
				res.failKey = "C20:" + s.A + ":panic"
				res.failWhat = fmt.Sprintf("%s at cursor %d panicked although its %d characters fit: %v", s.A, before, s.R, pan)
			}
			if !s.P {
				res.mech = false
				res.driftNote = fmt.Sprintf("%s at cursor %d: real panic, model none", s.A, before)
			}
			return
		}
		if s.P {
			res.mech = false
			res.driftNote = fmt.Sprintf("%s at cursor %d: model predicts a panic (%s), the real code does not panic", s.A, before, s.KF)
			// the model has no successor state: judge what we can and stop
			if after > capBuf {
				res.failKey, res.failWhat = "C20:"+s.A+":cursor", fmt.Sprintf("cursor %d beyond the buffer", after)
			}
			return
		}
		if after > capBuf || after < 0 {
			res.failKey = "C20:" + strings.TrimSuffix(s.A, "Mixed") + ":cursor"
			res.failWhat = fmt.Sprintf("%s moved the cursor to %d, outside the %d byte buffer", s.A, after, capBuf)
			return
		}
		if guarded[s.A] && !bytes.Equal(snapshot, lineBuffer(l)[:before]) {
			res.failKey = "C20:" + strings.TrimSuffix(s.A, "Mixed") + ":overwrites-earlier-fields"
			res.failWhat = fmt.Sprintf("%s at cursor %d changed bytes written by earlier fields", s.A, before)
			return
		}
		if after != s.I {
			res.mech = false
			if res.driftNote == "" {
				res.driftNote = fmt.Sprintf("%s(%s) at cursor %d: cursor after %d, model %d", s.A, argText(s), before, after, s.I)
			}
		}
	}
	// the finished line
	idx := lineIndex(l)
	var text string
	var pan interface{}
	func() {
		defer func() { pan = recover() }()
		if useWrite && idx <= capBuf-1 {
			var buf bytes.Buffer
			old := fastlog.DefaultIOWriter
			fastlog.DefaultIOWriter = &buf
			defer func() { fastlog.DefaultIOWriter = old }()
			l.Write()
			text = strings.TrimSuffix(buf.String(), "\n")
			if buf.Len() != idx+1 {
				res.failKey, res.failWhat = "C20:Write", fmt.Sprintf("Write() emitted %d bytes for a line of %d characters", buf.Len(), idx)
			}
		} else {
			text = l.ToString()
		}
	}()
	if pan != nil {
		res.failKey, res.failWhat = "C20:ToString:panic", fmt.Sprintf("finishing a line with cursor %d panicked: %v", idx, pan)
		return
	}
	if res.failKey != "" {
		return
	}
	if b.Pure {
		// every field fitted completely: the line is the concatenation of its reference-rendered fields
		pos := 0
		for k, sg := range segs {
			if !sg.arr {
				if !strings.HasPrefix(text[pos:], sg.head) {
					res.failKey, res.failWhat = keyForText(b, k, text[pos:], sg.head, nil), fmt.Sprintf("field %d: line has %q, reference text is %q", k, clip(text[pos:], len(sg.head)+8), clip(sg.head, 80))
					return
				}
				pos += len(sg.head)
				continue
			}
			// array: head `[` elements `]` with tolerant closing
			exp1 := sg.head + "[" + strings.Join(sg.elems, ", ") + "]"
			exp2 := sg.head + "[" + strings.Join(sg.elems, ", ") + ",]"
			switch {
			case len(sg.elems) > 0 && strings.HasPrefix(text[pos:], exp2):
				pos += len(exp2)
			case strings.HasPrefix(text[pos:], exp1):
				pos += len(exp1)
			default:
				res.failKey, res.failWhat = keyForText(b, k, text[pos:], sg.head, sg.elems), fmt.Sprintf("field %d: line has %q, reference text is %q", k, clip(text[pos:], len(exp1)+8), clip(exp1, 120))
				return
			}
		}
		if pos != len(text) {
			res.failKey, res.failWhat = "C20:line:trailing", fmt.Sprintf("line has %d characters after its last field", len(text)-pos)
		}
	}
	_ = exact
	return
}

// classifyPanic names a panic of a guarded appender by what was observed (appender, arguments, panic text), not by
// what the model predicted, so that the verdict does not depend on the mechanism model being up to date.
func classifyPanic(s step, msg string) string {
	switch s.A {
	case "ByteArray":
		if strings.Contains(msg, "slice bounds out of range [:-") {
			return "KF_ByteArrayNoRoomForMarker" // value[:rem/3] with negative rem/3
		}
	case "IPArray", "IPArrayMixed":
		eks := s.EKs
		if s.A == "IPArray" {
			eks = []string{s.EK}
		}
		long := false
		for _, ek := range eks {
			if strings.HasPrefix(ek, "v6") && ekLen[ek]+2 > 30 { // needs more than the 30 bytes the guard reserves
				long = true
			}
		}
		if long && strings.Contains(msg, "index out of range [2048]") {
			return "KF_IPArrayGuardTooSmall"
		}
	}
	return "panic"
}

func clip(s string, n int) string {
	if n < 0 {
		n = 0
	}
	if len(s) > n {
		return s[:n] + "..."
	}
	return s
}

// keyForText names a text mismatch after the appender of segment k (segment 0 is Msg) by what is observed: an IP
// array whose text stops right after an IPv4 element (no separator, no bracket) is the early return.
func keyForText(b behaviour, k int, rest string, head string, elems []string) string {
	s := b.H[k]
	app := strings.TrimSuffix(s.A, "Mixed")
	if app == "IPArray" {
		eks := s.EKs
		if s.A == "IPArray" {
			eks = nil
			for i := 0; i < s.C; i++ {
				eks = append(eks, s.EK)
			}
		}
		for i, ek := range eks {
			if strings.HasPrefix(ek, "v4") && i < len(elems) {
				pre := head + "[" + strings.Join(elems[:i+1], ", ")
				if strings.HasPrefix(rest, pre) && !strings.HasPrefix(rest[len(pre):], ",") && !strings.HasPrefix(rest[len(pre):], "]") {
					return mkKey("IPArray", "KF_IPArrayReturnsAfterIP4")
				}
				break
			}
		}
	}
	return "C20:" + app + ":text"
}

func argText(s step) string {
	switch s.A {
	case "ByteArray":
		return fmt.Sprintf("%d bytes", s.M)
	case "StringArray":
		return fmt.Sprintf("%d strings of %d", s.C, s.V)
	case "IPArray":
		return fmt.Sprintf("%d x %s", s.C, s.EK)
	case "IPArrayMixed":
		return strings.Join(s.EKs, ",")
	case "String", "Bytes":
		return fmt.Sprintf("value %d", s.V)
	}
	return ""
}

func stageC(path string, seed int) error {
	// sanity: the concrete element classes have the text lengths the model assumes
	for ek, n := range ekLen {
		if ek == "nil" {
			continue
		}
		if got := len(stdIPSlice(ekAddr[ek])); got != n {
			return fmt.Errorf("element class %s: text %q has %d characters, model assumes %d", ek, stdIPSlice(ekAddr[ek]), got, n)
		}
	}
	f, err := os.Open(path)
	if err != nil {
		return err
	}
	defer f.Close()
	sc := bufio.NewScanner(f)
	sc.Buffer(make([]byte, 1<<20), 1<<24)
	n := 0
	for sc.Scan() {
		var b behaviour
		if err := json.Unmarshal(sc.Bytes(), &b); err != nil {
			return fmt.Errorf("bad behaviour: %v", err)
		}
		n++
		sum.Behaviours++
		sum.BehSteps += len(b.H)
		if b.Pure {
			sum.BehPure++
		}
		if b.H[len(b.H)-1].P {
			sum.BehPanicsModel++
		}
		key := string(sc.Bytes())
		if len(b.H) > 1 {
			distinct["b:"+strconv.Itoa(int(fnv(key)))] = struct{}{}
		}
		if (n == 5 || n%4001 == 0) && len(sum.Samples) < 14 {
			sum.Samples = append(sum.Samples, json.RawMessage(append([]byte{}, sc.Bytes()...)))
		}
		res := runBehaviour(b, seed+n, n%2 == 0)
		if res.failKey == "infra" {
			return errors.New(res.failWhat)
		}
		if res.realPanic {
			sum.BehPanicsReal++
		}
		if res.mech {
			sum.MechConform++
		} else {
			drift(res.driftNote)
		}
		if res.failKey != "" {
			// reproduce before reporting
			again := runBehaviour(b, seed+n, n%2 == 0)
			if again.failKey != res.failKey {
				return fmt.Errorf("behaviour failure %s did not reproduce (%s)", res.failKey, again.failKey)
			}
			fail(res.failKey, res.failWhat, map[string]interface{}{"op": "behaviour", "b": json.RawMessage(append([]byte{}, sc.Bytes()...)), "seed": seed + n, "write": n%2 == 0})
		}
	}
	return sc.Err()
}

func fnv(s string) uint32 {
	h := uint32(2166136261)
	for i := 0; i < len(s); i++ {
		h ^= uint32(s[i])
		h *= 16777619
	}
	return h
}

// ---------------------------------------------------------------------------------------------
// stage D: String()/FastLog of valid views and table entries

type stringer interface{ String() string }

var viewSeed int64
var viewThorough bool

func view(name string, mk func() interface{}) {
	var pan interface{}
	var out string
	func() {
		defer func() { pan = recover() }()
		x := mk()
		switch v := x.(type) {
		case stringer:
			out = v.String()
		case fastlog.FastLog:
			out = lg.Msg("").Struct(v).ToString()
		default:
			panic("logdrv: view without String/FastLog: " + name)
		}
		if fl, ok := x.(fastlog.FastLog); ok {
			_ = lg.Msg("view").Struct(fl).ToString()
		}
	}()
	sum.Views++
	sum.ViewsByType[name]++
	if pan != nil {
		fail("C20:String:"+name, fmt.Sprintf("String()/FastLog of a valid %s panicked: %v", name, pan), map[string]interface{}{"op": "view", "name": name, "seed": viewSeed, "thorough": viewThorough})
		return
	}
	if len(out) >= capBuf {
		sum.Info = append(sum.Info, fmt.Sprintf("%s: text of %d characters does not fit, excluded by the statement", name, len(out)))
	}
}

func stageD(seed int64, thorough bool) {
	viewSeed, viewThorough = seed, thorough
	rng := rand.New(rand.NewSource(seed + 1000))
	rounds := 40
	if thorough {
		rounds = 400
	}
	mac := func() net.HardwareAddr { m := make(net.HardwareAddr, 6); rng.Read(m); m[0] &^= 1; return m }
	ip4 := func() netip.Addr { var a [4]byte; rng.Read(a[:]); return netip.AddrFrom4(a) }
	ip6 := func() netip.Addr {
		var a [16]byte
		rng.Read(a[:])
		for z := rng.Intn(6); z > 0; z-- {
			g := rng.Intn(8)
			a[2*g], a[2*g+1] = 0, 0
		}
		if a[0] == 0 && a[1] == 0 {
			a[0] = 0x20
		}
		return netip.AddrFrom16(a)
	}
	payload := func(n int) []byte { b := make([]byte, n); rng.Read(b); return b }
	for r := 0; r < rounds; r++ {
		sm, dm := mac(), mac()
		s4, d4, s6, d6 := ip4(), ip4(), ip6(), ip6()
		plen := []int{0, 1, 8, 64, 300, 700, 1400}[rng.Intn(7)]
		udp := vh.UDP(uint16(rng.Intn(65536)), uint16(rng.Intn(65536)), payload(plen))
		echo4 := vh.ICMP4(8, 0, vh.Echo(uint16(rng.Intn(65536)), uint16(rng.Intn(65536)), payload(plen)))
		echo6 := vh.ICMP6(s6, d6, 128, 0, vh.Echo(uint16(rng.Intn(65536)), 1, payload(plen)))
		ip4f := vh.IP4(s4, d4, 17, 64, uint16(rng.Intn(65536)), udp)
		ip6f := vh.IP6(s6, d6, 17, 64, udp)
		eth4 := vh.Ether(dm, sm, 0x0800, ip4f)
		arp := vh.ARP(uint16(1+rng.Intn(2)), sm, s4, dm, d4)
		view("Ether", func() interface{} { return packet.Ether(eth4) })
		view("IP4", func() interface{} { return packet.IP4(ip4f) })
		view("IP6", func() interface{} { return packet.IP6(ip6f) })
		view("UDP", func() interface{} { return packet.UDP(udp) })
		view("ICMP", func() interface{} { return packet.ICMP(echo4) })
		view("ICMPEcho", func() interface{} { return packet.ICMPEcho(echo4) })
		view("ICMPEcho6", func() interface{} { return packet.ICMPEcho(echo6) })
		view("ARP", func() interface{} { return packet.ARP(arp) })
		view("Addr", func() interface{} { return packet.Addr{MAC: sm, IP: s6, Port: uint16(rng.Intn(3) * 4000)} })
		view("Addr4", func() interface{} { return packet.Addr{MAC: sm, IP: s4} })
		// zone-qualified link-local addresses (what a socket reports for fe80::/10 peers), zones of 1..24 characters
		zone := "enp0s31f6vlan1234br0wxyz"[:1+r%24]
		lla := netip.AddrFrom16([16]byte{0xfe, 0x80, 0x11, 0x11, 0x22, 0x22, 0x33, 0x33, 0x44, 0x44, 0x55, 0x55, 0x66, 0x66, byte(r), 0x77}).WithZone(zone)
		view("Addr(zone)", func() interface{} { return packet.Addr{MAC: sm, IP: lla, Port: 546} })
		view("Notification(zone)", func() interface{} { return packet.Notification{Addr: packet.Addr{MAC: sm, IP: lla}, Online: true} })
		view("MACEntry(zone)", func() interface{} {
			return &packet.MACEntry{MAC: sm, IP4: s4, IP6GUA: s6, IP6LLA: lla, LastSeen: time.Now()}
		})
		view("Host(zone)", func() interface{} {
			return &packet.Host{Addr: packet.Addr{MAC: sm, IP: lla}, MACEntry: &packet.MACEntry{MAC: sm, IP6LLA: lla}, LastSeen: time.Now()}
		})
		view("IPNameEntry(zone)", func() interface{} { return packet.IPNameEntry{Addr: packet.Addr{MAC: sm, IP: lla}} })
		view("NameEntry(expire in location)", func() interface{} {
			return packet.NameEntry{Type: "dhcp", Name: "n", Expire: time.Unix(1709164800+int64(r), 0).In([]*time.Location{time.UTC, time.FixedZone("p", 36000), time.FixedZone("q", -12600)}[r%3])}
		})
		// NDP messages built by the independent builders (with ICMPv6 header)
		tgt := s6.As16()
		na := append([]byte{0x60, 0, 0, 0}, tgt[:]...)
		na = append(na, 2, 1)
		na = append(na, sm...)
		naMsg := vh.ICMP6(s6, d6, 136, 0, na)
		ns := append([]byte{0, 0, 0, 0}, tgt[:]...)
		ns = append(ns, 1, 1)
		ns = append(ns, sm...)
		nsMsg := vh.ICMP6(s6, d6, 135, 0, ns)
		ra := []byte{64, byte(rng.Intn(256)), 0x07, 0x08, 0, 0, 0, 0, 0, 0, 0, 0}
		raMsg := vh.ICMP6(s6, d6, 134, 0, ra)
		rs := append([]byte{0, 0, 0, 0, 1, 1}, sm...)
		rsMsg := vh.ICMP6(s6, d6, 133, 0, rs)
		view("ICMP6NeighborAdvertisement", func() interface{} { return packet.ICMP6NeighborAdvertisement(naMsg) })
		view("ICMP6NeighborSolicitation", func() interface{} { return packet.ICMP6NeighborSolicitation(nsMsg) })
		view("ICMP6RouterAdvertisement", func() interface{} { return packet.ICMP6RouterAdvertisement(raMsg) })
		view("ICMP6RouterSolicitation", func() interface{} { return packet.ICMP6RouterSolicitation(rsMsg) })
		// table entries
		ne := packet.NameEntry{Type: "mdns", Name: randText(rng, rng.Intn(30)), Model: randText(rng, rng.Intn(20)), OS: randText(rng, rng.Intn(10))}
		if rng.Intn(2) == 0 {
			ne.Expire = time.Now().Add(time.Duration(rng.Intn(100000)) * time.Second)
		}
		me := &packet.MACEntry{MAC: sm, Captured: rng.Intn(2) == 0, Online: rng.Intn(2) == 0, IP4: s4, IP6GUA: s6, IP6LLA: d6,
			LastSeen: time.Now().Add(-time.Duration(rng.Intn(100000)) * time.Millisecond), Manufacturer: randText(rng, rng.Intn(24)), MDNSName: ne}
		if rng.Intn(2) == 0 {
			me.IP4Offer = d4
		}
		if rng.Intn(3) == 0 {
			me.IP6GUA = netip.Addr{}
		}
		host := &packet.Host{Addr: packet.Addr{MAC: sm, IP: []netip.Addr{s4, s6}[rng.Intn(2)]}, MACEntry: me, Online: me.Online,
			HuntStage: packet.HuntStage(rng.Intn(4)), LastSeen: me.LastSeen, Manufacturer: me.Manufacturer, DHCP4Name: ne, MDNSName: ne}
		me.HostList = append(me.HostList, host)
		view("NameEntry", func() interface{} { return ne })
		view("MACEntry", func() interface{} { return me })
		view("Host", func() interface{} { return host })
		view("Notification", func() interface{} {
			return packet.Notification{Addr: host.Addr, Online: host.Online, Manufacturer: me.Manufacturer, DHCP4Name: ne, MDNSName: ne, IsRouter: rng.Intn(2) == 0}
		})
		view("IPNameEntry", func() interface{} { return packet.IPNameEntry{Addr: host.Addr, NameEntry: ne} })
	}
}

// ---------------------------------------------------------------------------------------------
// stage F: several lines alive at once, built in every interleaving TLC enumerated (spec/LogLinePool.tla), finished
// through ToString(), Write() with a working writer or Write() with a failing writer. Every line must come out as the
// concatenation of its own fields: what ToString() returns and what Write() hands to the writer.

type poolStep struct {
	A string `json:"a"`
	L int    `json:"l"`
	K int    `json:"k"`
}

type poolBeh struct {
	H []poolStep `json:"h"`
}

// tapWriter records what Write() hands over and fails on demand.
type tapWriter struct {
	got  []byte
	fail bool
}

func (w *tapWriter) Write(b []byte) (int, error) {
	w.got = append([]byte{}, b...)
	if w.fail {
		return 0, errors.New("verif: injected writer failure")
	}
	return len(b), nil
}

func poolField(l *fastlog.Line, line, k int) string {
	switch k % 4 {
	case 1:
		v := line*100000 + k
		l.Int("i", v)
		return " i=" + strconv.Itoa(v)
	case 2:
		v := strings.Repeat(string(rune('a'+line)), 3+line)
		l.String("s", v)
		return " s=\"" + v + "\""
	case 3:
		m := net.HardwareAddr{byte(line), 0x10, 0x20, 0x30, 0x40, byte(k)}
		l.MAC("m", m)
		return " m=" + m.String()
	}
	ip := net.IP{10, byte(line), byte(k), 1}
	l.IPSlice("p", ip)
	return " p=" + ip.String()
}

// runPool replays one interleaving. Returns a description of the first line that is not its own fields.
func runPool(b poolBeh) (bad string, pan interface{}) {
	defer func() {
		if r := recover(); r != nil {
			pan = r
		}
	}()
	old := fastlog.DefaultIOWriter
	defer func() { fastlog.DefaultIOWriter = old }()
	lines := map[int]*fastlog.Line{}
	want := map[int]string{}
	for _, st := range b.H {
		switch st.A {
		case "msg":
			m := fmt.Sprintf("line %d", st.L)
			lines[st.L] = lg.Msg(m)
			want[st.L] = prefix + " \"" + m + "\""
		case "field":
			want[st.L] += poolField(lines[st.L], st.L, st.K)
		case "tostring":
			if got := lines[st.L].ToString(); got != want[st.L] && bad == "" {
				bad = fmt.Sprintf("line %d: ToString() gives %q, its own fields are %q", st.L, got, want[st.L])
			}
		case "write", "writefail":
			w := &tapWriter{fail: st.A == "writefail"}
			fastlog.DefaultIOWriter = w
			lines[st.L].Write()
			if got := strings.TrimSuffix(string(w.got), "\n"); got != want[st.L] && bad == "" {
				bad = fmt.Sprintf("line %d: Write() hands %q to the writer, its own fields are %q", st.L, got, want[st.L])
			}
		}
	}
	return bad, nil
}

func stageF(path string) error {
	f, err := os.Open(path)
	if err != nil {
		return err
	}
	defer f.Close()
	sc := bufio.NewScanner(f)
	sc.Buffer(make([]byte, 1<<20), 1<<24)
	n := 0
	var window []json.RawMessage
	for sc.Scan() {
		var b poolBeh
		if err := json.Unmarshal(sc.Bytes(), &b); err != nil {
			return fmt.Errorf("bad pool behaviour: %v", err)
		}
		n++
		sum.PoolBehaviours++
		sum.PoolSteps += len(b.H)
		distinct["p:"+strconv.Itoa(int(fnv(string(sc.Bytes()))))] = struct{}{}
		if n == 7 || n == 5003 {
			sum.Samples = append(sum.Samples, json.RawMessage(append([]byte{}, sc.Bytes()...)))
		}
		// the pool carries state from one behaviour to the next (a buffer returned twice stays there): a failure is
		// recorded together with the behaviours that preceded it
		window = append(window, json.RawMessage(append([]byte{}, sc.Bytes()...)))
		if len(window) > 60 {
			window = window[len(window)-60:]
		}
		bad, pan := runPool(b)
		if pan != nil {
			bad = fmt.Sprintf("panic: %v", pan)
		}
		if bad != "" {
			fail("C20:lines-not-independent", bad, map[string]interface{}{"op": "pool", "bs": append([]json.RawMessage{}, window...)})
		}
	}
	return sc.Err()
}

// ---------------------------------------------------------------------------------------------
// stage E: lines built concurrently by several goroutines (each line belongs to one goroutine; the pool and any
// scratch storage of the appenders are shared). Every finished line is compared with its reference text.

type failOnDemand struct{}

func (failOnDemand) Write(b []byte) (int, error) {
	if bytes.Contains(b, []byte("failme")) {
		return 0, errors.New("verif: injected writer failure")
	}
	return len(b), nil
}

func stageE(seed int64, thorough bool) (bad int, first string) {
	workers, iters := 8, 4000
	if thorough {
		iters = 40000
	}
	// the package writer fails for lines that ask for it: a failed Write() must still hand its buffer back exactly once
	old := fastlog.DefaultIOWriter
	fastlog.DefaultIOWriter = failOnDemand{}
	defer func() { fastlog.DefaultIOWriter = old }()
	type res struct {
		bad   int
		first string
	}
	out := make(chan res, workers)
	for w := 0; w < workers; w++ {
		go func(w int) {
			r := res{}
			defer func() {
				if p := recover(); p != nil {
					r.bad++
					if r.first == "" {
						r.first = fmt.Sprintf("worker %d panicked: %v", w, p)
					}
				}
				out <- r
			}()
			rng := rand.New(rand.NewSource(seed*977 + int64(w)))
			for i := 0; i < iters; i++ {
				if i%5 == 0 {
					lg.Msg("w").String("k", []string{"failme", "fine"}[i/5%2]).Int("i", i).Write()
				}
				iv := int(rng.Int63()>>uint(rng.Intn(63))) * (1 - 2*rng.Intn(2))
				u := rng.Uint32() >> uint(rng.Intn(32))
				ip := make(net.IP, 16)
				rng.Read(ip)
				for z := rng.Intn(5); z > 0; z-- {
					g := rng.Intn(8)
					ip[2*g], ip[2*g+1] = 0, 0
				}
				m := make(net.HardwareAddr, 6)
				rng.Read(m)
				bs := make([]byte, rng.Intn(12))
				rng.Read(bs)
				a := netip.AddrFrom4([4]byte{byte(rng.Intn(256)), byte(rng.Intn(256)), byte(rng.Intn(256)), byte(rng.Intn(256))})
				d := time.Duration(rng.Int63() >> uint(rng.Intn(63)))
				str := randText(rng, rng.Intn(20))
				want := prefix + " \"c\" i=" + strconv.Itoa(iv) + " u=" + strconv.FormatUint(uint64(u), 10) + " ip=" + stdIPSlice(ip) +
					" m=" + m.String() + " b=" + stdByteArray(bs) + " a=" + a.String() + " d=" + d.String() + " s=\"" + str + "\"" +
					" h=" + fmt.Sprintf("0x%04x", uint16(u)) + " p=" + strconv.Itoa(int(uint16(iv)))
				got := lg.Msg("c").Int("i", iv).Uint32("u", u).IPSlice("ip", ip).MAC("m", m).ByteArray("b", bs).IP("a", a).
					Duration("d", d).String("s", str).Uint16Hex("h", uint16(u)).Uint16("p", uint16(iv)).ToString()
				if got != want {
					r.bad++
					if r.first == "" {
						r.first = fmt.Sprintf("worker %d line %d: got %q want %q", w, i, got, want)
					}
				}
			}
		}(w)
	}
	for w := 0; w < workers; w++ {
		r := <-out
		bad += r.bad
		if first == "" {
			first = r.first
		}
	}
	sum.ConcLines += workers * iters
	return
}

// ---------------------------------------------------------------------------------------------
// -case

func runCase(js string) int {
	var c map[string]interface{}
	dec := json.NewDecoder(strings.NewReader(js))
	dec.UseNumber()
	if err := dec.Decode(&c); err != nil {
		fmt.Fprintln(os.Stderr, "bad case:", err)
		return 2
	}
	res := map[string]interface{}{"reproduced": false}
	emit := func() {
		out, _ := json.Marshal(res)
		fmt.Println(string(out))
	}
	str := func(k string) string { s, _ := c[k].(string); return s }
	before := len(sum.Failures)
	switch str("op") {
	case "vector":
		raw, _ := json.Marshal(c)
		var v vector
		json.Unmarshal(raw, &v)
		v.KF = "none"
		calls, std, err := appendersFor(v)
		if err != nil {
			fmt.Fprintln(os.Stderr, err)
			return 2
		}
		if v.E != " n="+std {
			res["what"] = "oracle disagreement"
			emit()
			return 2
		}
		if call, ok := calls[str("app")]; ok {
			got, pan := render(call)
			judgeField(str("app"), "text", got, pan, v.E, c)
		}
	case "sweep":
		// re-run through the same code paths: the sweep cases are deterministic functions of their recorded value
		replaySweep(c)
	case "iparray":
		var ips []net.IP
		var txt []string
		arr, _ := c["ips"].([]interface{})
		for _, x := range arr {
			b, _ := hex.DecodeString(x.(string))
			ips = append(ips, net.IP(b))
			txt = append(txt, stdIPSlice(net.IP(b)))
		}
		got, pan := render(func(l *fastlog.Line) *fastlog.Line { return l.IPArray("n", ips) })
		checkArray("IPArray", ips, got, pan, txt, c)
	case "stringarray":
		var ss, q []string
		arr, _ := c["ss"].([]interface{})
		for _, x := range arr {
			ss = append(ss, x.(string))
			q = append(q, "\""+x.(string)+"\"")
		}
		got, pan := render(func(l *fastlog.Line) *fastlog.Line { return l.StringArray("n", ss) })
		checkArray("StringArray", nil, got, pan, q, c)
	case "behaviour":
		raw, _ := json.Marshal(c["b"])
		var b behaviour
		if err := json.Unmarshal(raw, &b); err != nil {
			fmt.Fprintln(os.Stderr, err)
			return 2
		}
		seed := 0
		if n, ok := c["seed"].(json.Number); ok {
			x, _ := n.Int64()
			seed = int(x)
		}
		w, _ := c["write"].(bool)
		r := runBehaviour(b, seed, w)
		if r.failKey != "" {
			fail(r.failKey, r.failWhat, nil)
		}
	case "pool":
		raw, _ := json.Marshal(c["bs"])
		var bs []poolBeh
		if err := json.Unmarshal(raw, &bs); err != nil {
			fmt.Fprintln(os.Stderr, err)
			return 2
		}
	attempts:
		for attempt := 0; attempt < 3; attempt++ { // sync.Pool may be emptied by a collection: a few chances
			for _, b := range bs {
				bad, pan := runPool(b)
				if pan != nil {
					bad = fmt.Sprintf("panic: %v", pan)
				}
				if bad != "" {
					fail("C20:lines-not-independent", bad, nil)
					break attempts
				}
			}
		}
	case "concurrent":
		cs := int64(1)
		if n, ok := c["seed"].(json.Number); ok {
			cs, _ = n.Int64()
		}
		th, _ := c["thorough"].(bool)
		for attempt := int64(0); attempt < 5; attempt++ {
			if bad, first := stageE(cs+attempt, th); bad > 0 {
				fail("C20:concurrent", first, nil)
				break
			}
		}
	case "view":
		vs := int64(1)
		if n, ok := c["seed"].(json.Number); ok {
			vs, _ = n.Int64()
		}
		th, _ := c["thorough"].(bool)
		stageD(vs, th)
		var keep []failure
		for _, f := range sum.Failures {
			if strings.HasSuffix(f.Key, ":"+str("name")) {
				keep = append(keep, f)
			}
		}
		sum.Failures = keep
	default:
		fmt.Fprintln(os.Stderr, "unknown op")
		return 2
	}
	if len(sum.Failures) > before {
		res["reproduced"] = true
		res["what"] = sum.Failures[len(sum.Failures)-1].What
		res["key"] = sum.Failures[len(sum.Failures)-1].Key
	}
	emit()
	return 0
}

func replaySweep(c map[string]interface{}) {
	str := func(k string) string { s, _ := c[k].(string); return s }
	num := func(k string) int64 {
		switch v := c[k].(type) {
		case json.Number:
			x, _ := v.Int64()
			return x
		case string:
			x, _ := strconv.ParseInt(v, 10, 64)
			return x
		}
		return 0
	}
	switch str("kind") {
	case "u16":
		x := int(num("x"))
		v := uint16(x)
		sweepField("uint16", "Uint16", "text", strconv.Itoa(x), func(l *fastlog.Line) *fastlog.Line { return l.Uint16("n", v) }, c)
		sweepField("uint16hex", "Uint16Hex", "text", fmt.Sprintf("0x%04x", x), func(l *fastlog.Line) *fastlog.Line { return l.Uint16Hex("n", v) }, c)
		sweepField("uint32", "Uint32", "text", strconv.FormatUint(uint64(x)*65537, 10), func(l *fastlog.Line) *fastlog.Line { return l.Uint32("n", uint32(x)*65537) }, c)
		sweepField("int", "Int", "text", strconv.Itoa(x-32768), func(l *fastlog.Line) *fastlog.Line { return l.Int("n", x-32768) }, c)
	case "u8":
		x := int(num("x"))
		b := byte(x)
		sweepField("uint8", "Uint8", "text", strconv.Itoa(x), func(l *fastlog.Line) *fastlog.Line { return l.Uint8("n", b) }, c)
		sweepField("uint8hex", "Uint8Hex", "text", fmt.Sprintf("0x%02x", x), func(l *fastlog.Line) *fastlog.Line { return l.Uint8Hex("n", b) }, c)
	case "u32":
		u := uint32(num("x"))
		sweepField("uint32", "Uint32", "text", strconv.FormatUint(uint64(u), 10), func(l *fastlog.Line) *fastlog.Line { return l.Uint32("n", u) }, c)
	case "int":
		iv := int(num("x"))
		sweepField("int", "Int", "text", strconv.Itoa(iv), func(l *fastlog.Line) *fastlog.Line { return l.Int("n", iv) }, c)
	case "duration":
		d := time.Duration(num("x"))
		sweepField("duration", "Duration", "text", d.String(), func(l *fastlog.Line) *fastlog.Line { return l.Duration("n", d) }, c)
	case "time":
		t, _ := time.Parse(time.RFC3339Nano, str("x"))
		sweepField("time", "Time", "text", t.Format(time.StampMilli), func(l *fastlog.Line) *fastlog.Line { return l.Time("n", t) }, c)
	case "string":
		s := str("x")
		sweepField("string", "String", "text", "\""+s+"\"", func(l *fastlog.Line) *fastlog.Line { return l.String("n", s) }, c)
	case "mac":
		b, _ := hex.DecodeString(str("mac"))
		m := net.HardwareAddr(b)
		sweepField("mac", "MAC", "text", stdMAC(m), func(l *fastlog.Line) *fastlog.Line { return l.MAC("n", m) }, c)
	case "bytes":
		b, _ := hex.DecodeString(str("b"))
		sweepField("bytearray", "ByteArray", "text", stdByteArray(b), func(l *fastlog.Line) *fastlog.Line { return l.ByteArray("n", b) }, c)
	case "ip4", "ip6":
		b, _ := hex.DecodeString(str("ip"))
		ip := net.IP(b)
		sweepField("ip", "IPSlice", "text", stdIPSlice(ip), func(l *fastlog.Line) *fastlog.Line { return l.IPSlice("n", ip) }, c)
		if a, ok := netip.AddrFromSlice(b); ok {
			sweepField("addr", "IP", "text", stdAddr(a), func(l *fastlog.Line) *fastlog.Line { return l.IP("n", a) }, c)
		}
		if len(b) == 4 {
			ip16 := ip.To16()
			sweepField("ip4in6", "IPSlice", "text", ip.String(), func(l *fastlog.Line) *fastlog.Line { return l.IPSlice("n", ip16) }, c)
		}
	}
}

func main() {
	vectors := flag.String("vectors", "", "ndjson renderer vectors printed by TLC (LogLineVec.tla)")
	behs := flag.String("behaviours", "", "ndjson behaviours printed by TLC (LogLineMC.tla)")
	pools := flag.String("pool", "", "ndjson interleavings printed by TLC (LogLinePool.tla)")
	one := flag.String("case", "", "re-execute one case (JSON)")
	flag.Parse()
	vh.Quiet()
	realStdout := os.Stdout
	if null, err := os.OpenFile(os.DevNull, os.O_WRONLY, 0); err == nil {
		os.Stdout = null
	}
	if *one != "" {
		os.Stdout = realStdout
		os.Exit(runCase(*one))
	}
	seed, _ := strconv.ParseInt(os.Getenv("VERIF_SEED"), 10, 64)
	if seed == 0 {
		seed = 1
	}
	thorough := os.Getenv("VERIF_TIER") == "thorough"
	rng := rand.New(rand.NewSource(seed))
	if *vectors != "" {
		if err := stageA(*vectors); err != nil {
			fmt.Fprintln(os.Stderr, "vectors:", err)
			os.Exit(2)
		}
	}
	if len(sum.OracleMismatch) == 0 {
		stageB(rng, thorough)
		if *behs != "" {
			if err := stageC(*behs, int(seed)); err != nil {
				fmt.Fprintln(os.Stderr, "behaviours:", err)
				os.Exit(2)
			}
		}
		stageD(seed, thorough)
		if *pools != "" {
			if err := stageF(*pools); err != nil {
				fmt.Fprintln(os.Stderr, "pool behaviours:", err)
				os.Exit(2)
			}
		}
		if bad, first := stageE(seed, thorough); bad > 0 {
			fail("C20:concurrent", fmt.Sprintf("%d lines built concurrently differ from their reference text; %s", bad, first),
				map[string]interface{}{"op": "concurrent", "seed": seed, "thorough": thorough})
		}
	}
	sum.Distinct = len(distinct)
	out, _ := json.Marshal(sum)
	fmt.Fprintln(realStdout, string(out))
}
