// pingdrv executes ping scenarios (spec/Ping.tla vocabulary, exported by TLC from spec/PingMC.tla or
// generated from a seed) against the real Session.Ping / Session.Ping6 / Session.Parse and records one
// ndjson line per observable event.  The trace is validated by TLC against spec/PingTrace.tla.
//
//	pingdrv -script s.ndjson -out t.ndjson [-slot 120]
//
// Script lines:
//
//	{"a":"reset","bid":n[,"next":id]}   next: move icmpTable.id there first (replays, wrap-around)
//	{"a":"start","p":"p1","fam":"v4","fail":""|"addr"|"write","burst":0|1,"inline":""|kind}   inline: hand a message of that kind
//	                                     (own identifier) to Parse from inside the connection's WriteTo of this ping
//	{"a":"reply","tgt":"p1"|"noproc","off":k,"kind":"echoReply4|echoReply6|echoRequest|malformed","sub":"..."}
//	{"a":"close","sess":"s2"}    Session.Close of that session (start events carry "sess"; all sessions share the waiter table)
//	{"a":"release","p":"p1"}     a ping started with fail "blockfail" hangs inside the connection's WriteTo; let it fail now
//	{"a":"timeout","p":"p1"}     wait until p's own timer has expired and p returned
//	{"a":"ret","p":"p1"}         wait until p returned
//
// Real time: the k-th "timeout" event of a behaviour is given the absolute deadline k*slot after the
// first start; pings that are completed by a reply get a deadline beyond all of them.  No verdict ever
// depends on a timer race: a message is reported as "early" for a ping only if Parse had returned
// before start+timeout-margin on the monotonic clock (the timer is armed after `start` was read).
package main

import (
	"bufio"
	"encoding/binary"
	"encoding/json"
	"errors"
	"flag"
	"fmt"
	"math/rand"
	"net"
	"net/netip"
	"os"
	"runtime"
	"sort"
	"strconv"
	"sync"
	"time"

	"github.com/irai/packet"
	"verifharness/vh"
)

type action map[string]interface{}

func (a action) s(k string) string {
	if v, ok := a[k]; ok {
		switch x := v.(type) {
		case string:
			return x
		case float64:
			return strconv.Itoa(int(x))
		}
	}
	return ""
}
func (a action) i(k string) int {
	if v, ok := a[k].(float64); ok {
		return int(v)
	}
	return 0
}

type ping struct {
	name    string
	k       int
	fam     string
	fail    string
	timeout time.Duration
	start   time.Time // read immediately before the call (zero until then)
	done    chan struct{}
	id      int // identifier seen on the wire (or leaked), -1 unknown (guarded by driver.mu)
	ret     bool
	inline  string        // kind of the message handed to Parse from inside the connection's WriteTo ("" = none)
	sess    string        // session the ping is called on ("s1", "s2")
	arg     time.Duration // timeout argument handed to Ping (timeout is the effective one: <= 0 or > 10 s mean 2 s)
	rng     *rand.Rand    // for the message handed to Parse from inside this ping's send
	slow    time.Duration // the send hangs this long inside WriteTo and then succeeds
	release chan struct{} // fail == "blockfail": the send hangs inside WriteTo until this is closed, then fails
	freed   bool
}

type driver struct {
	u    *vh.Universe
	s    *packet.Session
	conn *vh.HookConn
	ss   map[string]*sessRec // sessions of the process by name; s / conn are those of "s1"
	rng  *rand.Rand
	slot time.Duration

	smu   sync.Mutex // session map
	injMu sync.Mutex // one injected message at a time
	mu    sync.Mutex // log order
	out   *bufio.Writer
	enc   *json.Encoder
	lines int

	pings   map[string]*ping
	base    time.Time
	slots   map[string]int
	nslots  int
	panics  int
	hangs   int
	rseed   int64 // seed of the current behaviour's random choices (header variants, malformed shapes)
	noDrain bool
	abort   bool
}

type sessRec struct {
	s      *packet.Session
	conn   *vh.HookConn
	closed bool
}

// session returns the named session, creating it when needed (all sessions share the process-wide waiter table).
func (d *driver) session(name string) *sessRec {
	if name == "" {
		name = "s1"
	}
	d.smu.Lock()
	defer d.smu.Unlock()
	if r, ok := d.ss[name]; ok {
		return r
	}
	conn := vh.NewHookConn()
	s, err := packet.Config{Conn: conn, NICInfo: d.u.NICInfo(), ProbeDeadline: 30 * vh.Unit, OfflineDeadline: 60 * vh.Unit,
		PurgeDeadline: 120 * vh.Unit}.NewSession("")
	if err != nil {
		fmt.Fprintln(os.Stderr, err)
		os.Exit(2)
	}
	conn.OnWrite = d.onWrite
	conn.Before = d.beforeWrite
	r := &sessRec{s: s, conn: conn}
	d.ss[name] = r
	if name == "s1" {
		d.s, d.conn = s, conn
	}
	return r
}

// freshSessions replaces the sessions closed by the previous behaviour.
func (d *driver) freshSessions() {
	d.smu.Lock()
	for name, r := range d.ss {
		if r.closed {
			delete(d.ss, name)
		}
	}
	d.smu.Unlock()
	d.session("s1")
}

func (d *driver) conns() []*vh.HookConn {
	d.smu.Lock()
	defer d.smu.Unlock()
	out := []*vh.HookConn{}
	for _, r := range d.ss {
		out = append(out, r.conn)
	}
	return out
}

const margin = 25 * time.Millisecond

var defaultProcs = runtime.GOMAXPROCS(0)

func (d *driver) log(rec map[string]interface{}) {
	// caller holds d.mu
	d.enc.Encode(rec)
	d.lines++
}

func (d *driver) dst(p *ping, fam string) packet.Addr {
	mac := d.u.MAC("m" + strconv.Itoa(p.k))
	if fam == "v4" {
		return packet.Addr{MAC: mac, IP: d.u.IP("a" + strconv.Itoa(p.k))}
	}
	return packet.Addr{MAC: mac, IP: d.u.IP("l" + strconv.Itoa(p.k))}
}

// launch starts the goroutine of one ping; it blocks on gate until released.
func (d *driver) launch(p *ping, gate chan struct{}) {
	go func() {
		var err error
		var t0 time.Time
		rec := map[string]interface{}{"a": "ret", "p": p.name, "to": int(p.timeout / time.Millisecond), "fail": p.fail}
		defer func() {
			if r := recover(); r != nil {
				rec["panic"] = fmt.Sprint(r)
				rec["res"] = "panic"
			}
			d.mu.Lock()
			if _, ok := rec["panic"]; ok {
				d.panics++
				d.abort = true
			}
			rec["el"] = int(time.Since(t0) / time.Millisecond)
			if _, ok := rec["leaked"]; !ok {
				rec["leaked"] = -1
			}
			d.log(rec)
			p.ret = true
			d.mu.Unlock()
			close(p.done)
		}()
		<-gate
		dfam := p.fam
		if p.fail == "addr" { // destination of the other family: the send function refuses it
			if dfam == "v4" {
				dfam = "v6"
			} else {
				dfam = "v4"
			}
		}
		dst := d.dst(p, dfam)
		var before map[uint16]bool
		if p.fail != "" {
			before = map[uint16]bool{}
			for _, x := range packet.VerifPingWaiterIDs() {
				before[x] = true
			}
		}
		d.mu.Lock()
		t0 = time.Now()
		p.start = t0
		d.mu.Unlock()
		sess := d.session(p.sess).s
		if p.fam == "v4" {
			err = sess.Ping(dst, p.arg)
		} else {
			err = sess.Ping6(packet.Addr{MAC: vh.OwnMAC, IP: vh.HostLLA}, dst, p.arg)
		}
		switch {
		case err == nil:
			rec["res"] = "nil"
		case errors.Is(err, packet.ErrTimeout):
			rec["res"] = "timeout"
		default:
			rec["res"] = "error"
			rec["err"] = err.Error()
		}
		if p.fail == "blockfail" {
			// other pings registered meanwhile: the identifier is the one read from the frame
			d.mu.Lock()
			own, shared := p.id, false
			for _, q := range d.pings {
				if q != p && q.id == own {
					shared = true
				}
			}
			d.mu.Unlock()
			for _, x := range packet.VerifPingWaiterIDs() {
				if int(x) == own && !shared {
					rec["leaked"] = own
				}
			}
		} else if p.fail != "" {
			for _, x := range packet.VerifPingWaiterIDs() {
				if !before[x] {
					rec["leaked"] = int(x)
					d.mu.Lock()
					p.id = int(x)
					d.mu.Unlock()
				}
			}
		}
	}()
}

// capture reads echo requests back from the connection and logs the identifier of each.
func (d *driver) capture(want []*ping) {
	deadline := time.Now().Add(60 * time.Millisecond)
	for {
		frames := [][]byte{}
		for _, c := range d.conns() {
			frames = append(frames, c.Take()...)
		}
		for _, f := range frames {
			fam, dip, typ, id, ok := decodeEcho(f)
			if !ok {
				continue
			}
			for _, p := range d.pings {
				if d.idOf(p) >= 0 || p.fail == "addr" || p.fail == "blockfail" {
					continue
				}
				if d.dst(p, fam).IP == dip && fam == p.fam && ((fam == "v4" && typ == 8) || (fam == "v6" && typ == 128)) {
					d.noteSent(p, id)
				}
			}
		}
		missing := false
		for _, p := range want {
			d.mu.Lock()
			r := p.ret
			d.mu.Unlock()
			if d.idOf(p) < 0 && !r && p.fail == "" {
				missing = true
			}
		}
		if !missing || time.Now().After(deadline) {
			return
		}
		time.Sleep(100 * time.Microsecond)
	}
}

func (d *driver) idOf(p *ping) int {
	d.mu.Lock()
	defer d.mu.Unlock()
	return p.id
}

// noteSent records the identifier read back from the wire (once).
func (d *driver) noteSent(p *ping, id int) {
	d.mu.Lock()
	defer d.mu.Unlock()
	if p.id < 0 {
		p.id = id
		d.log(map[string]interface{}{"a": "sent", "p": p.name, "id": id})
	}
}

type errBlocked struct{}

func (errBlocked) Error() string { return "verif: injected write failure after a blocked send" }

// beforeWrite runs at the entry of the connection's WriteTo: the send of a "blockfail" ping hangs here
// (its identifier is already allocated and registered) until the script releases it, and then fails.
func (d *driver) beforeWrite(frame []byte) error {
	fam, dip, typ, id, ok := decodeEcho(frame)
	if !ok || !((fam == "v4" && typ == 8) || (fam == "v6" && typ == 128)) {
		return nil
	}
	d.mu.Lock()
	var hit *ping
	var slow time.Duration
	for _, p := range d.pings {
		if p.fail == "blockfail" && p.fam == fam && d.dst(p, fam).IP == dip {
			hit = p
			if p.id < 0 {
				p.id = id
			}
		}
		if p.slow > 0 && p.fam == fam && d.dst(p, fam).IP == dip {
			slow, p.slow = p.slow, 0
		}
	}
	d.mu.Unlock()
	if slow > 0 {
		time.Sleep(slow) // a send that takes longer than the ping's timeout
	}
	if hit == nil {
		return nil
	}
	<-hit.release
	return errBlocked{}
}

func (d *driver) free(p *ping) {
	d.mu.Lock()
	f := p.freed
	p.freed = true
	d.mu.Unlock()
	if !f && p.release != nil {
		close(p.release)
	}
}

// onWrite runs inside the connection's WriteTo, i.e. inside the send function of the ping that wrote the
// frame: a ping started with "inline" gets its message handed to Parse before its send returns.
func (d *driver) onWrite(frame []byte) {
	fam, dip, typ, id, ok := decodeEcho(frame)
	if !ok || !((fam == "v4" && typ == 8) || (fam == "v6" && typ == 128)) {
		return
	}
	d.mu.Lock()
	var hit *ping
	for _, p := range d.pings {
		if p.inline != "" && p.fam == fam && d.dst(p, fam).IP == dip {
			hit = p
		}
	}
	d.mu.Unlock()
	if hit == nil {
		return
	}
	d.noteSent(hit, id)
	kind := hit.inline
	hit.inline = ""
	d.injectR(hit.rng, kind, "", uint16(id), hit, true)
}

// decodeEcho is an independent decoder of Ethernet/IP/ICMP echo messages.
func decodeEcho(f []byte) (fam string, dst netip.Addr, typ uint8, id int, ok bool) {
	if len(f) < 14 {
		return
	}
	switch binary.BigEndian.Uint16(f[12:14]) {
	case 0x0800:
		ip := f[14:]
		if len(ip) < 20 || ip[9] != 1 {
			return
		}
		ihl := int(ip[0]&0x0f) * 4
		if len(ip) < ihl+8 {
			return
		}
		a, _ := netip.AddrFromSlice(ip[16:20])
		ic := ip[ihl:]
		return "v4", a, ic[0], int(binary.BigEndian.Uint16(ic[4:6])), true
	case 0x86dd:
		ip := f[14:]
		if len(ip) < 48 || ip[6] != 58 {
			return
		}
		a, _ := netip.AddrFromSlice(ip[24:40])
		ic := ip[40:]
		return "v6", a, ic[0], int(binary.BigEndian.Uint16(ic[4:6])), true
	}
	return
}

// replyVariant4 rewrites the IPv4 header of an Ethernet/IPv4/ICMP frame (flags, TOS, TTL, options, padding) and
// fixes the header checksum; the ICMP message is untouched.
func replyVariant4(f []byte, sub string) []byte {
	ip := f[14:]
	fix := func(ip []byte) {
		ihl := int(ip[0]&0x0f) * 4
		ip[10], ip[11] = 0, 0
		binary.BigEndian.PutUint16(ip[10:12], vh.Cksum(ip[:ihl]))
	}
	if sub == "df" || sub == "df+opts" {
		ip[6] |= 0x40 // Don't Fragment
	}
	switch sub {
	case "rsv":
		ip[6] |= 0x80 // reserved bit ("evil bit")
	case "tos":
		ip[1] = 0xb8
	case "ttl1":
		ip[8] = 1
	case "pad": // Ethernet padding after the IP datagram
		fix(ip)
		return append(f, make([]byte, 11)...)
	}
	if sub == "opts" || sub == "df+opts" { // IHL 6: one word of options (NOP NOP NOP EOL)
		out := make([]byte, 0, len(f)+4)
		out = append(out, f[:14+20]...)
		out = append(out, 1, 1, 1, 0)
		out = append(out, f[14+20:]...)
		ip = out[14:]
		ip[0] = 0x46
		binary.BigEndian.PutUint16(ip[2:4], uint16(len(ip)))
		fix(ip)
		return out
	}
	fix(ip)
	return f
}

var malformedSubs = []string{"short4", "short6", "iplen4", "iplen6", "proto4", "type129in4", "type0in6", "tstamp4", "short4b"}

// message builds the frame of one injected ICMP message.
func (d *driver) message(rng *rand.Rand, kind, sub string, id uint16, from *ping) (frame []byte, subOut string) {
	k := 1 + rng.Intn(4)
	if from != nil {
		k = from.k
	}
	mac := d.u.MAC("m" + strconv.Itoa(k))
	a4 := d.u.IP("a" + strconv.Itoa(k))
	l6 := d.u.IP("l" + strconv.Itoa(k))
	data := []byte("HELLO-NETFILTER")
	echo := vh.Echo(id, 1, data)
	v4 := func(typ uint8, body []byte) []byte {
		return vh.Ether(vh.OwnMAC, mac, 0x0800, vh.IP4(a4, d.u.Cfg.HostIP, 1, 64, uint16(rng.Intn(65536)), vh.ICMP4(typ, 0, body)))
	}
	v6 := func(typ uint8, body []byte) []byte {
		return vh.Ether(vh.OwnMAC, mac, 0x86dd, vh.IP6(l6, vh.HostLLA, 58, 64, vh.ICMP6(l6, vh.HostLLA, typ, 0, body)))
	}
	switch kind {
	case "echoReply4":
		// a complete echo reply is one whatever its IPv4 header looks like: header variations a sender's stack may produce
		if sub == "" {
			sub = []string{"", "", "df", "rsv", "tos", "ttl1", "opts", "pad", "df+opts"}[rng.Intn(9)]
		}
		return replyVariant4(v4(0, echo), sub), sub
	case "echoReply6":
		if sub == "" {
			sub = []string{"", "", "tcflow", "hop1"}[rng.Intn(4)]
		}
		b := v6(129, echo)
		switch sub {
		case "tcflow": // traffic class 0xb8, flow label 0x12345
			b[14], b[15], b[16], b[17] = 0x6b, 0x81, 0x23, 0x45
		case "hop1":
			b[14+7] = 1
		}
		return b, sub
	case "echoRequest":
		if sub == "" {
			sub = []string{"req4", "req6"}[rng.Intn(2)]
		}
		if sub == "req4" {
			return v4(8, echo), sub
		}
		return v6(128, echo), sub
	}
	if sub == "" {
		sub = malformedSubs[rng.Intn(len(malformedSubs))]
	}
	switch sub {
	case "short4": // echo reply cut inside the identifier / sequence number: 6 bytes of ICMP
		ic := vh.ICMP4(0, 0, echo)[:6]
		return vh.Ether(vh.OwnMAC, mac, 0x0800, vh.IP4(a4, d.u.Cfg.HostIP, 1, 64, 1, ic)), sub
	case "short4b": // 4 bytes: type, code, checksum only
		ic := vh.ICMP4(0, 0, echo)[:4]
		return vh.Ether(vh.OwnMAC, mac, 0x0800, vh.IP4(a4, d.u.Cfg.HostIP, 1, 64, 1, ic)), sub
	case "short6":
		ic := vh.ICMP6(l6, vh.HostLLA, 129, 0, echo)[:6]
		return vh.Ether(vh.OwnMAC, mac, 0x86dd, vh.IP6(l6, vh.HostLLA, 58, 64, ic)), sub
	case "iplen4": // IPv4 total length beyond the frame
		b := v4(0, echo)
		binary.BigEndian.PutUint16(b[16:18], uint16(len(b)+40))
		return b, sub
	case "iplen6": // IPv6 payload length beyond the frame
		b := v6(129, echo)
		binary.BigEndian.PutUint16(b[18:20], uint16(len(b)+40))
		return b, sub
	case "proto4": // the bytes of an echo reply carried as protocol 253 (experimental), not ICMP
		return vh.Ether(vh.OwnMAC, mac, 0x0800, vh.IP4(a4, d.u.Cfg.HostIP, 253, 64, 1, vh.ICMP4(0, 0, echo))), sub
	case "type129in4": // ICMPv6's echo reply type inside ICMPv4
		return v4(129, echo), sub
	case "type0in6": // ICMPv4's echo reply type inside ICMPv6
		return v6(0, echo), sub
	case "tstamp4": // ICMPv4 timestamp reply: carries an identifier at the same offset, is not an echo reply
		return v4(14, append(append([]byte{}, echo[:4]...), make([]byte, 12)...)), sub
	}
	panic("unknown malformed sub " + sub)
}

func (d *driver) inject(kind, sub string, id uint16, from *ping, logit bool) {
	d.injectR(d.rng, kind, sub, id, from, logit)
}

func (d *driver) injectR(rng *rand.Rand, kind, sub string, id uint16, from *ping, logit bool) {
	// one message at a time (the trace has one inject/parsed pair in flight): the driver's own injections
	// and those made from inside a ping's send function take turns
	d.injMu.Lock()
	defer d.injMu.Unlock()
	frame, sub := d.message(rng, kind, sub, id, from)
	cp := make([]byte, len(frame), len(frame)+rng.Intn(32))
	copy(cp, frame)
	if logit {
		d.mu.Lock()
		d.log(map[string]interface{}{"a": "inject", "id": int(id), "kind": kind, "sub": sub})
		d.mu.Unlock()
	}
	rec := map[string]interface{}{"a": "parsed", "err": ""}
	func() {
		defer func() {
			if r := recover(); r != nil {
				rec["panic"] = fmt.Sprint(r)
			}
		}()
		sess := d.s
		if from != nil {
			sess = d.session(from.sess).s
		}
		if _, err := sess.Parse(cp); err != nil {
			rec["err"] = err.Error()
		}
	}()
	if !logit {
		if _, ok := rec["panic"]; !ok {
			return
		}
		d.mu.Lock() // a panic is always logged
		d.log(map[string]interface{}{"a": "inject", "id": int(id), "kind": kind, "sub": sub})
		d.mu.Unlock()
	}
	d.mu.Lock()
	now := time.Now()
	early := []string{}
	for _, p := range d.pings {
		if !p.start.IsZero() && !p.ret && now.Before(p.start.Add(p.timeout-margin)) {
			early = append(early, p.name)
		}
	}
	sort.Strings(early)
	rec["early"] = early
	if _, ok := rec["panic"]; ok {
		d.panics++
		d.abort = true // the library panicked (possibly holding its lock): nothing after this is meaningful
	}
	d.log(rec)
	d.mu.Unlock()
}

// drain removes leftover waiters by sending an echo reply for each; gives up for good on a tree
// where that does not remove them.
func (d *driver) drain(logit bool) {
	if d.noDrain {
		return
	}
	ids := packet.VerifPingWaiterIDs()
	for _, x := range ids {
		d.inject("echoReply4", "", x, nil, logit)
		if d.abort {
			return
		}
	}
	if n, _ := packet.VerifPingWaiters(); n > 0 && n >= len(ids) {
		d.noDrain = true
	}
}

// wait blocks until p returned; false (and a "hang" line) if it does not within its timeout + 3 s.
func (d *driver) wait(p *ping) bool {
	select {
	case <-p.done:
		return true
	case <-time.After(p.timeout + 3*time.Second):
		d.mu.Lock()
		d.log(map[string]interface{}{"a": "hang", "p": p.name})
		d.hangs++
		d.mu.Unlock()
		return false
	}
}

// behaviour runs one scenario; returns false if the process must stop (a ping hangs).
func (d *driver) behaviour(bid int, want int, evs []action) bool {
	d.freshSessions()
	// move the process-global identifier counter to the requested value (pings that fail to send
	// take an identifier and return at once)
	if want >= 0 {
		for i := 0; i < 70000; i++ {
			if _, next := packet.VerifPingWaiters(); int(next) == want&0xffff {
				break
			}
			t := time.Now()
			if i%2 == 0 {
				d.s.Ping6(packet.Addr{MAC: vh.OwnMAC, IP: vh.HostLLA}, packet.Addr{MAC: vh.RouterMAC, IP: d.u.Cfg.RouterIP}, 20*time.Millisecond)
			} else { // the other entry point as well: should they count separately, both counters stay level
				d.s.Ping(packet.Addr{MAC: vh.RouterMAC, IP: vh.HostLLA}, 20*time.Millisecond)
			}
			if time.Since(t) > 15*time.Millisecond {
				break // this tree does not fail fast on a bad address: leave the counter where it is
			}
			if i%512 == 0 {
				d.drain(false)
			}
			if d.abort {
				return false
			}
		}
	}
	// empty table first (entries leaked by the previous behaviour are removed by an echo reply)
	d.drain(want < 0)
	if d.abort {
		return false
	}
	n, next := packet.VerifPingWaiters()
	for _, c := range d.conns() {
		c.Take()
	}
	d.pings = map[string]*ping{}
	d.slots = map[string]int{}
	d.nslots = 0
	for _, e := range evs {
		if e.s("a") == "timeout" {
			if _, ok := d.slots[e.s("p")]; !ok {
				d.nslots++
				d.slots[e.s("p")] = d.nslots
			}
		}
	}
	// entries that could not be removed (only on a tree whose echoNotify is broken) are not this
	// behaviour's: they are reported as "stale" and left out of the snapshot at the end
	stale := map[uint16]bool{}
	for _, x := range packet.VerifPingWaiterIDs() {
		stale[x] = true
	}
	d.mu.Lock()
	w := []int{}
	d.log(map[string]interface{}{"a": "reset", "bid": bid, "next": int(next), "waiters": w, "stale": n})
	d.mu.Unlock()
	d.base = time.Time{}
	for i := 0; i < len(evs); i++ {
		e := evs[i]
		switch e.s("a") {
		case "start":
			group := []action{e}
			for e.i("burst") == 1 && i+1 < len(evs) && evs[i+1].s("a") == "start" && evs[i+1].i("burst") == 1 && evs[i+1].s("fail") == "" && e.s("fail") == "" {
				i++
				group = append(group, evs[i])
			}
			if d.base.IsZero() {
				d.base = time.Now()
			}
			gate := make(chan struct{})
			started := []*ping{}
			for _, g := range group {
				name := g.s("p")
				k, _ := strconv.Atoi(name[1:])
				p := &ping{name: name, k: k, fam: g.s("fam"), fail: g.s("fail"), done: make(chan struct{}), id: -1, inline: g.s("inline"), release: make(chan struct{}),
					rng: rand.New(rand.NewSource(d.rseed*31 + int64(k)))}
				sl, ok := d.slots[name]
				if !ok {
					sl = d.nslots + 2
				}
				p.timeout = time.Until(d.base.Add(time.Duration(sl) * d.slot))
				if p.timeout < d.slot/2 {
					p.timeout = d.slot / 2
				}
				p.timeout = p.timeout.Truncate(time.Millisecond)
				if g.i("slow") == 1 {
					p.slow = p.timeout + 30*time.Millisecond
				}
				p.sess, p.arg = g.s("sess"), p.timeout
				switch g.s("toarg") { // arguments that mean "the default of two seconds"
				case "zero":
					p.arg, p.timeout = 0, 2*time.Second
				case "neg":
					p.arg, p.timeout = -5*time.Millisecond, 2*time.Second
				case "big":
					p.arg, p.timeout = 11*time.Second, 2*time.Second
				}
				d.session(p.sess)
				d.mu.Lock()
				d.pings[name] = p
				d.log(map[string]interface{}{"a": "start", "p": name, "fam": p.fam, "to": int(p.timeout / time.Millisecond), "fail": p.fail, "burst": len(group), "inline": p.inline,
					"sess": p.sess, "toarg": g.s("toarg")})
				d.mu.Unlock()
				if p.fail == "write" {
					d.session(p.sess).conn.FailN = 1
				}
				d.launch(p, gate)
				started = append(started, p)
			}
			close(gate)
			for _, p := range started {
				if p.fail != "" && p.fail != "blockfail" {
					if !d.wait(p) {
						return false
					}
					d.session(p.sess).conn.FailN = 0
				}
				if p.fail == "blockfail" { // wait until it hangs inside WriteTo (identifier registered)
					for i := 0; i < 2000 && d.idOf(p) < 0; i++ {
						time.Sleep(50 * time.Microsecond)
					}
				}
			}
			d.capture(started)
		case "reply":
			var id uint16
			var from *ping
			if t := e.s("tgt"); t != "" && t != "noproc" {
				p := d.pings[t]
				if p == nil || d.idOf(p) < 0 {
					continue // identifier never observed: nothing to aim at
				}
				id, from = uint16(d.idOf(p)), p
			} else {
				_, next := packet.VerifPingWaiters()
				id = next + uint16(e.i("off"))
			}
			d.inject(e.s("kind"), e.s("sub"), id, from, true)
			if d.abort {
				return false
			}
		case "close": // Session.Close of one session of the process while pings (of this or another session) are pending
			r := d.session(e.s("sess"))
			if !r.closed {
				r.closed = true
				d.mu.Lock()
				d.log(map[string]interface{}{"a": "close", "sess": e.s("sess")})
				d.mu.Unlock()
				go r.s.Close() // sleeps one second at its end
				time.Sleep(15 * time.Millisecond)
			}
		case "release":
			if p := d.pings[e.s("p")]; p != nil {
				d.free(p)
				if !d.wait(p) {
					return false
				}
			}
		case "timeout", "ret":
			if p := d.pings[e.s("p")]; p != nil {
				if !d.wait(p) {
					return false
				}
			}
		}
	}
	for _, p := range d.pings {
		d.free(p)
	}
	for _, p := range d.pings {
		if !d.wait(p) {
			return false
		}
	}
	d.capture(nil)
	d.mu.Lock()
	n, next = packet.VerifPingWaiters()
	w = []int{}
	for _, x := range packet.VerifPingWaiterIDs() {
		if !stale[x] {
			w = append(w, int(x))
		}
	}
	sort.Ints(w)
	d.log(map[string]interface{}{"a": "end", "bid": bid, "waiters": w, "next": int(next), "n": n})
	d.mu.Unlock()
	return true
}

func main() {
	script := flag.String("script", "", "ndjson scenario script")
	outp := flag.String("out", "", "ndjson trace output")
	slot := flag.Int("slot", 120, "time slot in ms")
	flag.Parse()
	seed, _ := strconv.ParseInt(os.Getenv("VERIF_SEED"), 10, 64)
	vh.Quiet()
	realStdout := os.Stdout
	if null, err := os.OpenFile(os.DevNull, os.O_WRONLY, 0); err == nil {
		os.Stdout = null
	}
	in, err := os.Open(*script)
	if err != nil {
		fmt.Fprintln(os.Stderr, err)
		os.Exit(2)
	}
	of, err := os.Create(*outp)
	if err != nil {
		fmt.Fprintln(os.Stderr, err)
		os.Exit(2)
	}
	d := &driver{rng: rand.New(rand.NewSource(seed)), slot: time.Duration(*slot) * time.Millisecond, out: bufio.NewWriterSize(of, 1<<20)}
	d.enc = json.NewEncoder(d.out)
	d.u = &vh.Universe{Cfg: vh.Configs[0]}
	d.ss = map[string]*sessRec{}
	d.session("s1")
	sc := bufio.NewScanner(in)
	sc.Buffer(make([]byte, 1<<20), 1<<24)
	var cur []action
	bid, behaviours, want := -1, 0, -1
	rseed := seed
	ok := true
	flush := func() {
		if bid >= 0 && ok {
			d.rseed = rseed
			d.rng = rand.New(rand.NewSource(rseed))
			ok = d.behaviour(bid, want, cur)
			behaviours++
		}
		cur = nil
	}
	for sc.Scan() && ok {
		var a action
		if err := json.Unmarshal(sc.Bytes(), &a); err != nil {
			fmt.Fprintln(os.Stderr, "bad script line:", err)
			os.Exit(2)
		}
		if a.s("a") == "reset" {
			flush()
			bid = a.i("bid")
			rseed = seed*1000003 + int64(a.i("rseed"))
			want = -1
			if _, has := a["next"]; has {
				want = a.i("next")
			}
			if a.i("procs") > 0 { // scheduler width for this behaviour (sync.Pool and timer effects depend on it)
				runtime.GOMAXPROCS(a.i("procs"))
			} else {
				runtime.GOMAXPROCS(defaultProcs)
			}
			continue
		}
		cur = append(cur, a)
	}
	flush()
	if ok && !d.abort {
		d.drain(true) // what the last behaviour left behind
	}
	d.mu.Lock()
	d.out.Flush()
	d.mu.Unlock()
	of.Close()
	for _, r := range d.ss {
		if !r.closed {
			go r.s.Close()
		}
	}
	res, _ := json.Marshal(map[string]interface{}{"behaviours": behaviours, "lines": d.lines, "panics": d.panics, "hangs": d.hangs})
	fmt.Fprintln(realStdout, string(res))
	_ = net.IPv4zero
}
