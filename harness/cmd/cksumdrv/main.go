// cksumdrv binds spec/Cksum.tla (C15) to the real checksum code of irai/packet.
//
//	cksumdrv -vectors v.ndjson            run all stages, print one JSON summary line on stdout
//	cksumdrv -case '{"op":...}'           re-execute one recorded case (replay / reproduction)
//
// Stages
//  1. oracle validation: the Go transcription of the TLA+ definition (refStored, below) and vh.Cksum must agree
//     with every vector TLC printed (bytes b, expected stored bytes e).  A disagreement is an oracle failure
//     (infrastructure), never a verdict about the library.
//  2. library against TLC's expected bytes on every vector: packet.Checksum, IP4.CalculateChecksum,
//     ICMP.SetChecksum, EncodeIP4+SetPayload / AppendPayload (hdr vectors), EncodeICMPEcho + SetChecksum and
//     Session.ICMP4SendEchoRequest (echo4 vectors), Session.ICMP6SendEchoRequest (echo6 vectors).
//  3. library against the validated transcription: every string of length 3 (thorough: all 2^24, quick: a seeded
//     1/64 sample plus all boundary triples), every single-word perturbation of seeded carriers, seeded random
//     strings of every length 0..1522, split independence of the library's own results.
//  4. frames emitted by the NDP send functions verify to zero under the independent checksum.
package main

import (
	"bufio"
	"bytes"
	"encoding/binary"
	"encoding/hex"
	"encoding/json"
	"errors"
	"flag"
	"fmt"
	"math/rand"
	"net"
	"net/netip"
	"os"
	"reflect"
	"strconv"
	"sync"
	"syscall"
	"time"

	"github.com/irai/packet"
	"verifharness/vh"
)

// ---------------------------------------------------------------------------------------------
// Transcription of spec/Cksum.tla (property level).  Deliberately word-at-a-time with the end-around carry
// applied at every addition, as the TLA+ fold does; no wide accumulator.

func refWords(b []byte) []uint16 {
	n := (len(b) + 1) / 2
	w := make([]uint16, n)
	for i := 1; i <= n; i++ {
		hi := uint16(b[2*i-2])
		lo := uint16(0)
		if 2*i <= len(b) {
			lo = uint16(b[2*i-1])
		}
		w[i-1] = hi*256 + lo
	}
	return w
}

func add1c(x, y uint16) uint16 {
	s := uint32(x) + uint32(y)
	return uint16(s%65536 + s/65536)
}

func refSum(b []byte) uint16 {
	acc := uint16(0)
	for _, w := range refWords(b) {
		acc = add1c(acc, w)
	}
	return acc
}

func refCksum(b []byte) uint16 { return 65535 - refSum(b) }

// refStored: the two bytes in memory order.
func refStored(b []byte) [2]byte { c := refCksum(b); return [2]byte{byte(c / 256), byte(c % 256)} }

// refLibValue: the uint16 the library's Checksum must return (callers store byte(v) first).
func refLibValue(b []byte) uint16 { s := refStored(b); return uint16(s[0]) + 256*uint16(s[1]) }

func swap16(x uint16) uint16 { return x<<8 | x>>8 }

// libStored: what the library would store for buffer b (low byte of the returned value first).
func libStored(b []byte) [2]byte { v := packet.Checksum(b); return [2]byte{byte(v), byte(v >> 8)} }

// ---------------------------------------------------------------------------------------------

type vector struct {
	K   string `json:"k"`
	B   []int  `json:"b"`
	E   []int  `json:"e"`
	Pre string `json:"pre"`
	FB  int    `json:"fb"`
	FM  int    `json:"fm"`
	W   int    `json:"w"`
	Flt string `json:"flt"`
}

type failure struct {
	Key  string                 `json:"key"`
	What string                 `json:"what"`
	Case map[string]interface{} `json:"case"`
}

type summary struct {
	Vectors          int            `json:"vectors"`
	ByKind           map[string]int `json:"by_kind"`
	OracleMismatch   []string       `json:"oracle_mismatch"`
	LibChecks        int            `json:"lib_checks"`
	LibByOp          map[string]int `json:"lib_by_op"`
	Sweep3           int            `json:"sweep_len3"`
	Sweep3Full       bool           `json:"sweep_len3_exhaustive"`
	Perturb          int            `json:"perturbations"`
	Random           int            `json:"random_strings"`
	RandomLens       int            `json:"random_lengths"`
	Splits           int            `json:"split_checks"`
	FoldBE           map[string]int `json:"vectors_by_folds_needed_be"`
	FoldLE           map[string]int `json:"vectors_by_folds_needed_le"`
	Hook             bool           `json:"hook_icmp_send_present"`
	Crit6Sent        int            `json:"crit6_sent_through_hook"`
	Oversize         int            `json:"directed_configs_skipped_oversize"`
	Directed         int            `json:"directed_sends"`
	DirectedByLen    map[string]int `json:"directed_by_icmp6_length"`
	DirectedHit      int            `json:"directed_targets_reached"`
	FullSweeps       map[string]int `json:"full_16bit_sweeps"`
	ConcHeaders      int            `json:"concurrent_headers"`
	ConcFrames       int            `json:"concurrent_frames"`
	WideFold         int            `json:"wide_fold_solved_inputs"`
	LongVectors      int            `json:"long_tlc_vectors"`
	LongInputs       int            `json:"long_inputs"`
	LongSplits       int            `json:"long_split_checks"`
	LongWrapping     int            `json:"long_inputs_with_accumulator_overflow"`
	HdrSweep         int            `json:"hdr_field_sweep"`
	EchoSweep        int            `json:"echo_payload_sweep"`
	Frames           int            `json:"frames_verified"`
	FramesByFn       map[string]int `json:"frames_by_fn"`
	Refused          map[string]int `json:"send_refused"`
	FaultReturned    map[string]int `json:"sends_failed_after_injected_write_error"`
	FaultRecovered   map[string]int `json:"sends_succeeded_after_injected_write_error"`
	FramesAfterFault int            `json:"frames_transmitted_after_injected_write_error"`
	Drift            []string       `json:"drift"`
	Failures         []failure      `json:"failures"`
	DistinctInputs   int            `json:"distinct_inputs"`
	Panics           int            `json:"panics"`
	Samples          []interface{}  `json:"samples"`
}

var (
	sum = summary{ByKind: map[string]int{}, LibByOp: map[string]int{}, FramesByFn: map[string]int{}, Refused: map[string]int{}, FaultReturned: map[string]int{}, FaultRecovered: map[string]int{},
		FoldBE: map[string]int{}, FoldLE: map[string]int{}, DirectedByLen: map[string]int{}, FullSweeps: map[string]int{}}
	perKey   = map[string]int{}
	distinct = map[uint64]struct{}{}
)

func fnv(b []byte) uint64 {
	h := uint64(1469598103934665603)
	for _, x := range b {
		h ^= uint64(x)
		h *= 1099511628211
	}
	return h ^ uint64(len(b))<<48
}

func note(b []byte) {
	if len(b) >= 2 { // non-trivial: at least one complete 16-bit word
		distinct[fnv(b)] = struct{}{}
	}
}

func fail(key, what string, c map[string]interface{}) {
	perKey[key]++
	if perKey[key] > 5 {
		return
	}
	if c != nil && (c["op"] == "send" || c["op"] == "pair") {
		c["fault"] = lastFault
	}
	if c != nil && c["op"] == "send" {
		h := historyCopy()
		if len(h) > 0 {
			h = h[:len(h)-1] // the failing call itself is the case
		}
		c["history"] = h
	}
	sum.Failures = append(sum.Failures, failure{Key: key, What: what, Case: c})
}

func hx(b []byte) string { return hex.EncodeToString(b) }

// tlcCarrier4 is CarByte(4, i) of CksumVec.tla (1-based i).
func tlcCarrier4(n int) []byte {
	b := make([]byte, n)
	for i := 1; i <= n; i++ {
		b[i-1] = byte((i*37 + 11 + (i/7)*101) % 256)
	}
	return b
}

// accWraps: how often a uint32 accumulator adding the little-endian 16-bit words of b overflows (observation used to
// name a Checksum mismatch on very long inputs: Cksum.tla Acc32 / KF_AccumulatorWrap).
func accWraps(b []byte) int {
	var s uint64
	for i := 0; i+1 < len(b); i += 2 {
		s += uint64(b[i+1])<<8 | uint64(b[i])
	}
	if len(b)%2 == 1 {
		s += uint64(b[len(b)-1])
	}
	return int(s >> 32)
}

func cksumKey(b []byte) string {
	if accWraps(b) > 0 {
		return "C15:KF_AccumulatorWrap:Checksum"
	}
	return "C15:Checksum"
}

// longCase describes a long input compactly for replay: generator parameters instead of the bytes.
func longBytes(n int, pat string, seed int64) []byte {
	b := make([]byte, n)
	switch pat {
	case "ff":
		for i := range b {
			b[i] = 0xff
		}
	case "alt":
		for i := range b {
			if i%2 == 1 {
				b[i] = 0xff
			}
		}
	case "inc":
		for i := range b {
			b[i] = byte(i*37 + i/251)
		}
	default:
		rand.New(rand.NewSource(seed)).Read(b)
	}
	return b
}

// ---------------------------------------------------------------------------------------------
// the single operations, used by the stages and by -case

// opChecksum: packet.Checksum on b. Returns got/want stored bytes.
func opChecksum(b []byte) (got, want [2]byte) { return libStored(b), refStored(b) }

// opCalc: IP4.CalculateChecksum on a 20-byte header: checksum of the header with bytes 10,11 taken as zero.
func opCalc(h []byte) (got, want [2]byte) {
	v := packet.IP4(h).CalculateChecksum()
	z := append([]byte{}, h[:20]...)
	z[10], z[11] = 0, 0
	return [2]byte{byte(v), byte(v >> 8)}, refStored(z)
}

// opSetChecksum: zero the field of an ICMP message, store Checksum(message) with ICMP.SetChecksum.
func opSetChecksum(m []byte) (got, want [2]byte, verifies bool) {
	c := append([]byte{}, m...)
	c[2], c[3] = 0, 0
	want = refStored(c)
	packet.ICMP(c).SetChecksum(packet.Checksum(c))
	return [2]byte{c[2], c[3]}, want, refCksum(c) == 0
}

type hdrParams struct {
	TTL      byte
	Proto    byte
	Src, Dst netip.Addr
	PLen     int
}

// opHdr: EncodeIP4 + SetPayload (mode "set") or AppendPayload (mode "append"); returns the 20 header bytes.
func opHdr(p hdrParams, mode string, fill byte) (hdr []byte, err error) {
	buf := make([]byte, 0, 1600)
	ip := packet.EncodeIP4(buf[:20], p.TTL, p.Src, p.Dst)
	payload := make([]byte, p.PLen)
	for i := range payload {
		payload[i] = fill + byte(i)
	}
	var out packet.IP4
	if mode == "set" {
		copy(buf[20:20+p.PLen], payload)
		out = ip.SetPayload(payload, p.Proto)
	} else {
		out, err = ip.AppendPayload(payload, p.Proto)
		if err != nil {
			return nil, err
		}
	}
	if len(out) != 20+p.PLen {
		return nil, fmt.Errorf("unexpected length %d", len(out))
	}
	return append([]byte{}, out[:20]...), nil
}

func pseudo6(src, dst netip.Addr, n int) []byte {
	s, d := src.As16(), dst.As16()
	ph := make([]byte, 40)
	copy(ph[0:16], s[:])
	copy(ph[16:32], d[:])
	binary.BigEndian.PutUint32(ph[32:36], uint32(n))
	ph[39] = 58
	return ph
}

// checkFrame verifies one emitted Ethernet frame with the independent checksum. Returns a description of what is
// wrong ("" if nothing), the ICMP message and the stored ICMP checksum bytes.
func checkFrame(f []byte) (problem string, msg []byte, stored [2]byte, v6 bool, src, dst netip.Addr) {
	if len(f) < 14 {
		return "short frame", nil, stored, false, src, dst
	}
	et := binary.BigEndian.Uint16(f[12:14])
	switch et {
	case 0x0800:
		ip := f[14:]
		if len(ip) < 20 || ip[0] != 0x45 {
			return "not a 20 byte IPv4 header", nil, stored, false, src, dst
		}
		if refCksum(ip[:20]) != 0 || vh.Cksum(ip[:20]) != 0 {
			return "IPv4 header does not sum to zero", nil, stored, false, src, dst
		}
		tl := int(binary.BigEndian.Uint16(ip[2:4]))
		if tl > len(ip) || tl < 20 {
			return "IPv4 total length outside frame", nil, stored, false, src, dst
		}
		src = netip.AddrFrom4(*(*[4]byte)(ip[12:16]))
		dst = netip.AddrFrom4(*(*[4]byte)(ip[16:20]))
		if ip[9] != 1 {
			return "", nil, stored, false, src, dst
		}
		msg = ip[20:tl]
		if len(msg) < 4 {
			return "short ICMP", nil, stored, false, src, dst
		}
		stored = [2]byte{msg[2], msg[3]}
		if refCksum(msg) != 0 || vh.Cksum(msg) != 0 {
			return "ICMPv4 message does not sum to zero", msg, stored, false, src, dst
		}
		return "", msg, stored, false, src, dst
	case 0x86dd:
		ip := f[14:]
		if len(ip) < 40 {
			return "short IPv6", nil, stored, true, src, dst
		}
		pl := int(binary.BigEndian.Uint16(ip[4:6]))
		if 40+pl > len(ip) {
			return "IPv6 payload length outside frame", nil, stored, true, src, dst
		}
		src = netip.AddrFrom16(*(*[16]byte)(ip[8:24]))
		dst = netip.AddrFrom16(*(*[16]byte)(ip[24:40]))
		if ip[6] != 58 {
			return "", nil, stored, true, src, dst
		}
		msg = ip[40 : 40+pl]
		if len(msg) < 4 {
			return "short ICMPv6", nil, stored, true, src, dst
		}
		stored = [2]byte{msg[2], msg[3]}
		all := append(pseudo6(src, dst, len(msg)), msg...)
		if refCksum(all) != 0 || vh.Cksum(all) != 0 {
			return "ICMPv6 message with pseudo-header does not sum to zero", msg, stored, true, src, dst
		}
		return "", msg, stored, true, src, dst
	}
	return "unexpected ethertype", nil, stored, false, src, dst
}

// ---------------------------------------------------------------------------------------------
// session

// faultConn is the session's connection: a recording connection whose next WriteTo calls can be made to fail with a
// chosen error. Only frames of successful writes reach the recording (= the wire); every one of them is verified.
type faultConn struct {
	*vh.RecConn
	mu   sync.Mutex
	next []error
}

func (c *faultConn) WriteTo(b []byte, addr net.Addr) (int, error) {
	c.mu.Lock()
	if len(c.next) > 0 {
		err := c.next[0]
		c.next = c.next[1:]
		c.mu.Unlock()
		return 0, err
	}
	c.mu.Unlock()
	return c.RecConn.WriteTo(b, addr)
}

func (c *faultConn) arm(errs ...error) { c.mu.Lock(); c.next = errs; c.mu.Unlock() }

type tempErr struct{}

func (tempErr) Error() string   { return "verif: injected temporary failure" }
func (tempErr) Timeout() bool   { return true }
func (tempErr) Temporary() bool { return true }

// faultKinds: the write failures injected before a send ("fail then succeed"): the first WriteTo of the call fails with
// the error, later ones succeed.
var faultKinds = []string{"ENOBUFS", "EAGAIN", "wrapped-ENOBUFS", "temporary", "permanent"}

func faultErr(kind string) error {
	switch kind {
	case "ENOBUFS":
		return syscall.ENOBUFS
	case "EAGAIN":
		return syscall.EAGAIN
	case "wrapped-ENOBUFS":
		return &net.OpError{Op: "write", Net: "packet", Err: os.NewSyscallError("sendto", syscall.ENOBUFS)}
	case "temporary":
		return tempErr{}
	case "permanent":
		return errors.New("verif: injected permanent failure")
	}
	return nil
}

type sess struct {
	fc      *faultConn
	noFault bool   // do not add the fail-then-succeed repetition (history replay)
	fault   string // when set, the first WriteTo of the next send fails with this kind of error
	s       *packet.Session
	conn    *vh.RecConn
	hook6   reflect.Value // Session.VerifICMP6SendPacket when /repo carries hooks/cksumlog_icmp_send.patch, else invalid
	hook4   reflect.Value
	quietH  bool // do not record sends in the history (full sweeps)
}

func newSess() (*sess, error) {
	u := &vh.Universe{Cfg: vh.Configs[0]}
	ni := u.NICInfo()
	ni.IFI = &net.Interface{Index: 1, MTU: 1500, Name: "verif0", HardwareAddr: vh.OwnMAC}
	conn := vh.NewRecConn()
	fc := &faultConn{RecConn: conn}
	s, err := packet.Config{Conn: fc, NICInfo: ni, ProbeDeadline: time.Minute, OfflineDeadline: 2 * time.Minute,
		PurgeDeadline: 4 * time.Minute}.NewSession("")
	if err != nil {
		return nil, err
	}
	x := &sess{s: s, conn: conn, fc: fc}
	x.hook6 = reflect.ValueOf(s).MethodByName("VerifICMP6SendPacket")
	x.hook4 = reflect.ValueOf(s).MethodByName("VerifICMP4SendPacket")
	return x, nil
}

// raw hands a complete ICMP message (checksum field zero) to icmp6SendPacket / icmp4SendPacket through the verif hook.
func (x *sess) raw(v6 bool, src, dst packet.Addr, msg []byte) (frames [][]byte, err error, panicked interface{}) {
	if x.fault != "" {
		x.fc.arm(faultErr(x.fault))
		defer x.fc.arm()
	}
	x.conn.Take()
	func() {
		defer func() { panicked = recover() }()
		h := x.hook4
		if v6 {
			h = x.hook6
		}
		out := h.Call([]reflect.Value{reflect.ValueOf(src), reflect.ValueOf(dst), reflect.ValueOf(append([]byte{}, msg...))})
		if e, ok := out[0].Interface().(error); ok && e != nil {
			err = e
		}
	}()
	return x.conn.Take(), err, panicked
}

// rawCase: one message through the hook; the emitted frame must verify and, when exp is given, carry those bytes.
func rawCase(x *sess, v6 bool, src, dst packet.Addr, msg []byte, exp *[2]byte) (bool, string) {
	frames, err, pan := x.raw(v6, src, dst, msg)
	if pan != nil {
		sum.Panics++
		return false, fmt.Sprintf("panic: %v", pan)
	}
	if err != nil || len(frames) == 0 {
		return true, ""
	}
	for _, f := range frames {
		problem, _, stored, _, _, _ := checkFrame(f)
		if problem != "" {
			return false, fmt.Sprintf("%s (ICMP length %d)", problem, len(msg))
		}
		sum.Frames++
		sum.FramesByFn["hook"]++
		if exp != nil && stored != *exp {
			return false, fmt.Sprintf("stored ICMP checksum %02x%02x, specification expects %02x%02x", stored[0], stored[1], exp[0], exp[1])
		}
	}
	return true, ""
}

func (x *sess) close() { go x.s.Close() }

// history is every send call made in this process, in order: the transmit buffers are pooled, so what a send function
// emits may (wrongly) depend on earlier transmissions; a failing case is replayed together with its history.
var history []map[string]interface{}

const historyCap = 600

func sendRec(fn string, src, dst, target packet.Addr, id, seq uint16) map[string]interface{} {
	return map[string]interface{}{"fn": fn, "src": addrJSON(src), "dst": addrJSON(dst), "target": addrJSON(target), "id": id, "seq": seq}
}

func historyCopy() []map[string]interface{} {
	h := history
	if len(h) > historyCap {
		h = h[len(h)-historyCap:]
	}
	return append([]map[string]interface{}{}, h...)
}

// send runs one send function under recover and returns the frames it emitted.
func (x *sess) send(fn string, src, dst, target packet.Addr, id, seq uint16) (frames [][]byte, err error, panicked interface{}) {
	if x.fault != "" {
		x.fc.arm(faultErr(x.fault))
		defer x.fc.arm()
	}
	if !x.quietH {
		rec := sendRec(fn, src, dst, target, id, seq)
		rec["fault"] = x.fault
		history = append(history, rec)
		if len(history) > 4*historyCap {
			history = append([]map[string]interface{}{}, history[len(history)-historyCap:]...)
		}
	}
	x.conn.Take()
	func() {
		defer func() { panicked = recover() }()
		switch fn {
		case "ICMP4SendEchoRequest":
			err = x.s.ICMP4SendEchoRequest(src, dst, id, seq)
		case "ICMP6SendEchoRequest":
			err = x.s.ICMP6SendEchoRequest(src, dst, id, seq)
		case "ICMP6SendNeighborAdvertisement":
			err = x.s.ICMP6SendNeighborAdvertisement(src, dst, target)
		case "ICMP6SendNeighbourSolicitation":
			err = x.s.ICMP6SendNeighbourSolicitation(src, dst, target.IP)
		case "ICMP6SendRouterSolicitation":
			err = x.s.ICMP6SendRouterSolicitation()
		case "ICMP6SendRouterAdvertisement":
			masked := func(a netip.Addr, bits int) net.IP {
				if !a.Is6() {
					a = netip.AddrFrom16(a.As16())
				}
				return net.IP(netip.PrefixFrom(a, bits).Masked().Addr().AsSlice())
			}
			pfx := []packet.PrefixInformation{{PrefixLength: 64, Prefix: masked(target.IP, 64)}}
			var rd *packet.RecursiveDNSServer
			if id%2 == 1 {
				rd = &packet.RecursiveDNSServer{Lifetime: time.Duration(seq) * time.Second, Servers: []net.IP{net.IP(src.IP.AsSlice())}}
			}
			if id%3 == 0 {
				pfx = append(pfx, packet.PrefixInformation{PrefixLength: uint8(48 + id%16), Prefix: masked(dst.IP, int(48+id%16))})
			}
			err = x.s.ICMP6SendRouterAdvertisement(pfx, rd, dst)
		default:
			err = fmt.Errorf("unknown send function %s", fn)
		}
	}()
	return x.conn.Take(), err, panicked
}

func addrJSON(a packet.Addr) map[string]interface{} {
	return map[string]interface{}{"mac": a.MAC.String(), "ip": a.IP.String()}
}

func addrFromJSON(v interface{}) packet.Addr {
	m, _ := v.(map[string]interface{})
	var a packet.Addr
	if s, ok := m["mac"].(string); ok {
		a.MAC, _ = net.ParseMAC(s)
	}
	if s, ok := m["ip"].(string); ok {
		a.IP, _ = netip.ParseAddr(s)
	}
	return a
}

// sendCase executes a send function and checks every emitted frame. expect (optional) = the stored ICMP checksum
// bytes TLC computed together with the message bytes (checksum field zero) they belong to.
// lastFault is the fault dimension of the send that failed last (recorded with the case by fail()).
var lastFault string
var faultRot int

// sendCase executes a send function and checks every frame that reaches the wire: once without any write failure
// and once with the first WriteTo failing ("fail then succeed"; the kind of failure rotates, or is the one given).
// expMsg/exp (optional) = message bytes (checksum field zero) and the stored checksum bytes TLC computed for them.
func sendCase(x *sess, fn string, src, dst, target packet.Addr, id, seq uint16, expMsg []byte, exp *[2]byte) (ok bool, what string) {
	return sendCaseF(x, "", fn, src, dst, target, id, seq, expMsg, exp)
}

func sendCaseF(x *sess, fault string, fn string, src, dst, target packet.Addr, id, seq uint16, expMsg []byte, exp *[2]byte) (ok bool, what string) {
	faults := []string{""}
	if fault != "" {
		faults = []string{fault}
	} else if !x.noFault {
		faultRot++
		faults = append(faults, faultKinds[faultRot%len(faultKinds)])
	}
	for _, fk := range faults {
		lastFault = fk
		x.fault = fk
		frames, err, pan := x.send(fn, src, dst, target, id, seq)
		x.fault = ""
		if pan != nil {
			sum.Panics++
			return false, fmt.Sprintf("panic: %v", pan)
		}
		if err != nil {
			if fk == "" {
				sum.Refused[fn]++
			} else {
				sum.FaultReturned[fk]++
			}
		} else if fk != "" {
			sum.FaultRecovered[fk]++
		}
		// whatever the function returned: every frame that reached the wire must verify
		for _, f := range frames {
			problem, msg, stored, _, _, _ := checkFrame(f)
			if problem != "" {
				if fk != "" {
					problem += " (frame transmitted after the first write failed with " + fk + ")"
				}
				return false, problem
			}
			sum.Frames++
			sum.FramesByFn[fn]++
			if fk != "" {
				sum.FramesAfterFault++
			}
			note(f)
			if exp != nil && msg != nil {
				z := append([]byte{}, msg...)
				z[2], z[3] = 0, 0
				if bytes.Equal(z, expMsg) {
					if stored != *exp {
						return false, fmt.Sprintf("stored ICMP checksum %02x%02x, specification expects %02x%02x", stored[0], stored[1], exp[0], exp[1])
					}
				} else if len(sum.Drift) < 10 {
					sum.Drift = append(sum.Drift, fn+": emitted message differs from the message modelled in CksumVec.tla (checksum verified independently)")
				}
			}
		}
	}
	lastFault = ""
	return true, ""
}

// ---------------------------------------------------------------------------------------------

func ints2bytes(a []int) []byte {
	b := make([]byte, len(a))
	for i, x := range a {
		b[i] = byte(x)
	}
	return b
}

func stage12(path string, x *sess) error {
	f, err := os.Open(path)
	if err != nil {
		return err
	}
	defer f.Close()
	sc := bufio.NewScanner(f)
	sc.Buffer(make([]byte, 1<<20), 1<<26)
	for sc.Scan() {
		var v vector
		if err := json.Unmarshal(sc.Bytes(), &v); err != nil {
			return fmt.Errorf("bad vector line: %v", err)
		}
		if len(v.E) != 2 {
			return fmt.Errorf("vector without expected bytes")
		}
		b := ints2bytes(v.B)
		e := [2]byte{byte(v.E[0]), byte(v.E[1])}
		sum.Vectors++
		sum.ByKind[v.K]++
		sum.FoldBE[strconv.Itoa(v.FB)]++
		sum.FoldLE[strconv.Itoa(v.FM)]++
		note(b)
		if len(sum.Samples) < 6 && (sum.Vectors%9973 == 1 || v.K == "echo6" && sum.ByKind[v.K] == 1 || v.K == "hdr" && sum.ByKind[v.K] == 1) {
			sum.Samples = append(sum.Samples, map[string]interface{}{"kind": v.K, "bytes": hx(b), "expected_stored": hx(e[:])})
		}
		// stage 1: oracle validation against the specification
		if r := refStored(b); r != e {
			if len(sum.OracleMismatch) < 5 {
				sum.OracleMismatch = append(sum.OracleMismatch, fmt.Sprintf("transcription %x != TLC %x on %s", r, e, hx(b)))
			}
			continue
		}
		if c := vh.Cksum(b); [2]byte{byte(c >> 8), byte(c)} != e {
			if len(sum.OracleMismatch) < 5 {
				sum.OracleMismatch = append(sum.OracleMismatch, fmt.Sprintf("vh.Cksum %04x != TLC %x on %s", c, e, hx(b)))
			}
			continue
		}
		// stage 2: the library against TLC's expected bytes
		got, _ := opChecksum(b)
		sum.LibChecks++
		sum.LibByOp["Checksum"]++
		if got != e {
			c := map[string]interface{}{"op": "Checksum", "b": hx(b), "e": hx(e[:])}
			if v.K == "long" {
				c = map[string]interface{}{"op": "long", "n": len(b), "pat": "tlc", "e": hx(e[:])}
			}
			fail(cksumKey(b), fmt.Sprintf("Checksum stores %x, RFC 1071 gives %x (len %d, uint32 accumulator overflows %d times)", got, e, len(b), accWraps(b)), c)
		} else if v.W > 0 && len(sum.Drift) < 10 {
			sum.Drift = append(sum.Drift, fmt.Sprintf("long vector of %d bytes: Cksum.tla Acc32 predicts %d accumulator overflows and a wrong result, the library is right", len(b), v.W))
		}
		if v.K == "long" {
			sum.LongVectors++
			continue
		}
		if len(b) >= 4 {
			g, w, ver := opSetChecksum(b)
			sum.LibChecks++
			sum.LibByOp["ICMP.SetChecksum"]++
			if g != w || !ver {
				fail("C15:ICMP.SetChecksum", fmt.Sprintf("SetChecksum(Checksum(m)) stores %x, want %x, verifies=%v", g, w, ver),
					map[string]interface{}{"op": "SetChecksum", "b": hx(b)})
			}
		}
		if len(b) >= 20 && (v.K == "hdr" || len(b) <= 64) {
			g, w := opCalc(b)
			sum.LibChecks++
			sum.LibByOp["IP4.CalculateChecksum"]++
			if g != w {
				fail("C15:IP4.CalculateChecksum", fmt.Sprintf("CalculateChecksum stores %x, want %x", g, w),
					map[string]interface{}{"op": "Calc", "b": hx(b)})
			}
		}
		switch v.K {
		case "hdr":
			p := hdrParams{TTL: b[8], Proto: b[9], Src: netip.AddrFrom4(*(*[4]byte)(b[12:16])), Dst: netip.AddrFrom4(*(*[4]byte)(b[16:20])),
				PLen: int(binary.BigEndian.Uint16(b[2:4])) - 20}
			for _, mode := range []string{"set", "append"} {
				h, err := opHdr(p, mode, b[8])
				sum.LibChecks++
				sum.LibByOp["IP4."+mode+"Payload"]++
				c := map[string]interface{}{"op": "hdr", "mode": mode, "b": hx(b), "e": hx(e[:])}
				if err != nil {
					fail("C15:IP4."+mode+"Payload", "error: "+err.Error(), c)
					continue
				}
				z := append([]byte{}, h...)
				z[10], z[11] = 0, 0
				if !bytes.Equal(z, b) {
					// the header the library builds is not the header modelled: judge it on its own
					if len(sum.Drift) < 10 {
						sum.Drift = append(sum.Drift, "hdr: library header "+hx(z)+" differs from modelled header "+hx(b))
					}
					if refCksum(h) != 0 {
						fail("C15:IP4."+mode+"Payload", "header does not sum to zero: "+hx(h), c)
					}
					continue
				}
				if [2]byte{h[10], h[11]} != e || refCksum(h) != 0 || vh.Cksum(h) != 0 {
					fail("C15:IP4."+mode+"Payload", fmt.Sprintf("header checksum bytes %02x%02x, specification expects %x", h[10], h[11], e), c)
				}
			}
		case "echo4":
			id, seq := binary.BigEndian.Uint16(b[4:6]), binary.BigEndian.Uint16(b[6:8])
			p := make([]byte, len(b))
			packet.EncodeICMPEcho(p, b[0], b[1], id, seq, b[8:])
			packet.ICMP(p).SetChecksum(packet.Checksum(p))
			sum.LibChecks++
			sum.LibByOp["EncodeICMPEcho+SetChecksum"]++
			if [2]byte{p[2], p[3]} != e {
				fail("C15:ICMP.SetChecksum", fmt.Sprintf("echo message checksum bytes %02x%02x, specification expects %x", p[2], p[3], e),
					map[string]interface{}{"op": "SetChecksum", "b": hx(b)})
			}
			if x != nil {
				for _, pr := range v4pairs {
					src := packet.Addr{MAC: vh.OwnMAC, IP: pr[0]}
					dst := packet.Addr{MAC: vh.RouterMAC, IP: pr[1]}
					sum.LibChecks++
					sum.LibByOp["ICMP4SendEchoRequest"]++
					if ok, what := sendCaseF(x, v.Flt, "ICMP4SendEchoRequest", src, dst, packet.Addr{}, id, seq, b, &e); !ok {
						fail("C15:send:ICMP4SendEchoRequest", what, map[string]interface{}{"op": "send", "fn": "ICMP4SendEchoRequest",
							"src": addrJSON(src), "dst": addrJSON(dst), "id": id, "seq": seq, "msg": hx(b), "e": hx(e[:])})
					}
				}
			}
		case "crit6":
			if x != nil && x.hook6.IsValid() {
				src := packet.Addr{MAC: vh.OwnMAC, IP: netip.AddrFrom16(*(*[16]byte)(b[0:16]))}
				dst := packet.Addr{MAC: vh.RouterMAC, IP: netip.AddrFrom16(*(*[16]byte)(b[16:32]))}
				msg := b[40:]
				sum.LibChecks++
				sum.LibByOp["VerifICMP6SendPacket"]++
				sum.Crit6Sent++
				if ok, what := rawCase(x, true, src, dst, msg, &e); !ok {
					fail("C15:send:icmp6SendPacket", what, map[string]interface{}{"op": "raw6", "src": addrJSON(src), "dst": addrJSON(dst), "msg": hx(msg), "e": hx(e[:])})
				}
			}
		case "pair6":
			if x != nil {
				src := packet.Addr{MAC: vh.OwnMAC, IP: netip.AddrFrom16(*(*[16]byte)(b[0:16]))}
				dst := packet.Addr{MAC: vh.RouterMAC, IP: netip.AddrFrom16(*(*[16]byte)(b[16:32]))}
				msg := b[40:]
				id, seq := binary.BigEndian.Uint16(msg[4:6]), binary.BigEndian.Uint16(msg[6:8])
				sum.LibChecks++
				sum.LibByOp["pair:"+v.Pre]++
				if ok, what := pairCase(x, v.Pre, faultKinds[sum.LibChecks%len(faultKinds)], src, dst, id, seq, msg, &e); !ok {
					fail("C15:send:ICMP6SendEchoRequest", "after "+v.Pre+": "+what, map[string]interface{}{"op": "pair", "pre": v.Pre,
						"src": addrJSON(src), "dst": addrJSON(dst), "id": id, "seq": seq, "msg": hx(msg), "e": hx(e[:])})
				}
			}
		case "echo6":
			if x != nil {
				src := packet.Addr{MAC: vh.OwnMAC, IP: netip.AddrFrom16(*(*[16]byte)(b[0:16]))}
				dst := packet.Addr{MAC: vh.RouterMAC, IP: netip.AddrFrom16(*(*[16]byte)(b[16:32]))}
				msg := b[40:]
				id, seq := binary.BigEndian.Uint16(msg[4:6]), binary.BigEndian.Uint16(msg[6:8])
				sum.LibChecks++
				sum.LibByOp["ICMP6SendEchoRequest"]++
				if ok, what := sendCaseF(x, v.Flt, "ICMP6SendEchoRequest", src, dst, packet.Addr{}, id, seq, msg, &e); !ok {
					fail("C15:send:ICMP6SendEchoRequest", what, map[string]interface{}{"op": "send", "fn": "ICMP6SendEchoRequest",
						"src": addrJSON(src), "dst": addrJSON(dst), "id": id, "seq": seq, "msg": hx(msg), "e": hx(e[:])})
				}
			}
		}
	}
	return sc.Err()
}

var v4pairs = [][2]netip.Addr{
	{netip.MustParseAddr("192.168.0.129"), netip.MustParseAddr("192.168.0.1")},
	{netip.MustParseAddr("10.1.2.17"), netip.MustParseAddr("255.255.255.255")},
	{netip.MustParseAddr("0.0.0.0"), netip.MustParseAddr("172.20.255.254")},
}

func libCheck(b []byte, why string) {
	got, want := opChecksum(b)
	if got != want {
		fail("C15:Checksum", fmt.Sprintf("Checksum stores %x, RFC 1071 gives %x (len %d, %s)", got, want, len(b), why),
			map[string]interface{}{"op": "Checksum", "b": hx(b)})
	}
}

func stage3(rng *rand.Rand, thorough bool) {
	// every string of length 3
	b := make([]byte, 3)
	edge := map[byte]bool{0: true, 1: true, 0x7f: true, 0x80: true, 0xfe: true, 0xff: true}
	pick := uint32(rng.Intn(64))
	for v := uint32(0); v < 1<<24; v++ {
		b[0], b[1], b[2] = byte(v>>16), byte(v>>8), byte(v)
		if !thorough && v%64 != pick && !(edge[b[0]] && edge[b[1]] && edge[b[2]]) {
			continue
		}
		sum.Sweep3++
		got, want := opChecksum(b)
		if got != want {
			fail("C15:Checksum", fmt.Sprintf("Checksum stores %x, RFC 1071 gives %x (len 3)", got, want),
				map[string]interface{}{"op": "Checksum", "b": hx(b)})
		}
	}
	sum.Sweep3Full = thorough
	// single-word perturbations of seeded carriers
	vals := []uint16{0x0000, 0x0001, 0x00ff, 0x0100, 0x7fff, 0x8000, 0xfffe, 0xffff}
	lens := []int{4, 5, 20, 21, 40, 63, 64, 65, 576, 1499, 1500, 1521, 1522}
	carriers := 3
	if thorough {
		carriers = 12
	}
	for _, n := range lens {
		for c := 0; c < carriers; c++ {
			car := make([]byte, n)
			switch c % 3 {
			case 0:
				rng.Read(car)
			case 1:
				for i := range car {
					car[i] = 0xff
				}
			}
			if c >= 3 && c%3 != 0 {
				for i := 0; i < n; i += 1 + rng.Intn(7) {
					car[i] = byte(rng.Intn(256))
				}
			}
			note(car)
			for w := 0; w < (n+1)/2; w++ {
				for _, v := range vals {
					p := append([]byte{}, car...)
					p[2*w] = byte(v >> 8)
					if 2*w+1 < n {
						p[2*w+1] = byte(v)
					}
					sum.Perturb++
					libCheck(p, "perturbation")
				}
			}
		}
	}
	// seeded random strings of every length 0..1522, split independence of the library's own results
	per := 2
	if thorough {
		per = 12
	}
	for n := 0; n <= 1522; n++ {
		sum.RandomLens++
		for r := 0; r < per; r++ {
			s := make([]byte, n)
			rng.Read(s)
			if r%4 == 3 { // many 0xffff words: carry folding
				for i := range s {
					if rng.Intn(8) != 0 {
						s[i] = 0xff
					}
				}
			}
			note(s)
			sum.Random++
			libCheck(s, "random")
			// split independence, stated on the library's results alone (Cksum.tla SplitAt):
			// sum(s) = sum(p) +' (k even ? sum(q) : swap(sum(q)))   with sum = ^stored value read big-endian
			if n > 0 {
				k := rng.Intn(n + 1)
				be := func(x [2]byte) uint16 { return ^(uint16(x[0])<<8 | uint16(x[1])) }
				whole, p, q := be(libStored(s)), be(libStored(s[:k])), be(libStored(s[k:]))
				if k%2 == 1 {
					q = swap16(q)
				}
				sum.Splits++
				// one's-complement equality: 0x0000 and 0xffff are the same number only when all parts are zero
				if comb := add1c(p, q); comb != whole {
					fail("C15:Checksum:split", fmt.Sprintf("library sum of the whole %04x differs from the combination of its parts %04x (split at %d of %d)", whole, comb, k, n),
						map[string]interface{}{"op": "split", "b": hx(s), "k": k})
				}
			}
		}
	}
}

// stageLong: byte strings longer than a datagram, judged by the validated transcription ("for every byte string").
func longOne(n int, pat string, seed int64) {
	b := longBytes(n, pat, seed)
	sum.LongInputs++
	if accWraps(b) > 0 {
		sum.LongWrapping++
	}
	note(b[:64])
	got, want := opChecksum(b)
	c := map[string]interface{}{"op": "long", "n": n, "pat": pat, "seed": seed}
	if got != want {
		fail(cksumKey(b), fmt.Sprintf("Checksum stores %x, RFC 1071 gives %x (len %d, %s content, uint32 accumulator overflows %d times)", got, want, n, pat, accWraps(b)), c)
		return
	}
	// split independence across odd and even boundaries, on the library's own results (no overflow in any part)
	if accWraps(b) == 0 {
		be := func(x [2]byte) uint16 { return ^(uint16(x[0])<<8 | uint16(x[1])) }
		for _, k := range []int{1, 65535, 65536, n / 2, n/2 + 1, n - 1} {
			if k <= 0 || k >= n {
				continue
			}
			whole, p, q := be(libStored(b)), be(libStored(b[:k])), be(libStored(b[k:]))
			if k%2 == 1 {
				q = swap16(q)
			}
			sum.LongSplits++
			if add1c(p, q) != whole {
				c["k"] = k
				fail("C15:Checksum:split", fmt.Sprintf("library sum of %d bytes differs from the combination of its parts split at %d", n, k), c)
				return
			}
		}
	}
}

func stageLong(seed int64, thorough bool) {
	lens := []int{65534, 65535, 65536, 65537, 131070, 131072, 200001}
	pats := []string{"rand", "ff", "alt"}
	if thorough {
		lens = append(lens, 65533, 65538, 98303, 131071, 131073, 131074, 131075, 131076, 131078, 196607, 262144, 524289, 1048576)
		pats = append(pats, "inc", "rand")
	}
	for _, n := range lens {
		for i, p := range pats {
			longOne(n, p, seed*1000+int64(n)+int64(i))
		}
	}
}

// stageWide: critical totals at every fold width a plausible implementation may use.  For 16-bit folds the TLC
// families fold / crit6 and stage 5 do it; here the data is read as 32-bit words (little- and big-endian, what an
// implementation adding wider words into a 64-bit accumulator sees) and as 64-bit words, and the last word is *solved*
// so that folding the wide accumulator lands exactly on 2^w - 1 + e (e = 0..3: no carry, and the smallest carries that
// a fold without end-around carry loses), over constant-fill, ramp and random carriers of many lengths.
func stageWide(rng *rand.Rand, thorough bool) {
	fills := []string{"aa", "55", "ff", "01", "ramp", "rand", "rand"}
	lens := []int{12, 16, 20, 24, 36, 40, 48, 60, 64, 120, 240, 576, 1200, 1500}
	if thorough {
		for n := 12; n <= 1522; n += 4 {
			lens = append(lens, n)
		}
	}
	for _, n := range lens {
		for _, fill := range fills {
			car := make([]byte, n)
			switch fill {
			case "ramp":
				for i := range car {
					car[i] = byte(i)
				}
			case "rand":
				rng.Read(car)
			default:
				v, _ := strconv.ParseUint(fill, 16, 8)
				for i := range car {
					car[i] = byte(v)
				}
			}
			for _, le := range []bool{true, false} {
				// 32-bit words: base = sum of all words but the last
				k := n/4 - 1
				var base uint64
				for j := 0; j < k; j++ {
					if le {
						base += uint64(binary.LittleEndian.Uint32(car[4*j:]))
					} else {
						base += uint64(binary.BigEndian.Uint32(car[4*j:]))
					}
				}
				hb, lb := base>>32, base&0xffffffff
				for e := uint64(0); e <= 3; e++ {
					// want (hb + carry) + ((lb + W) mod 2^32) = 2^32 - 1 + e
					var w uint64
					ok := false
					if t := uint64(1)<<32 - 1 + e; t >= hb && t-hb >= lb && t-hb < 1<<32 {
						w, ok = t-hb-lb, true
					} else if t >= hb+1 && t-hb-1 < lb {
						w, ok = t-hb-1+(1<<32)-lb, true
					}
					if !ok || w >= 1<<32 {
						continue
					}
					b := append([]byte{}, car[:4*(k+1)]...)
					if le {
						binary.LittleEndian.PutUint32(b[4*k:], uint32(w))
					} else {
						binary.BigEndian.PutUint32(b[4*k:], uint32(w))
					}
					sum.WideFold++
					note(b)
					libCheck(b, fmt.Sprintf("32-bit word sum solved to 2^32-1+%d, %s fill", e, fill))
					// the same bytes with an odd tail and as an IPv4 header / ICMP message when long enough
					libCheck(append(b, 0x5a), "32-bit critical total + odd tail")
				}
			}
		}
	}
}

// stage3b: IPv4 header field values and ICMP payloads beyond the TLC classes, judged by the validated transcription:
// every ttl x every protocol (seeded addresses), every payload length 0..1480, echo messages with seeded data of
// every length 0..1472.
func stage3b(rng *rand.Rand, thorough bool) {
	hdrCheck := func(p hdrParams) {
		for _, mode := range []string{"set", "append"} {
			h, err := opHdr(p, mode, byte(p.PLen))
			sum.HdrSweep++
			c := map[string]interface{}{"op": "hdrp", "mode": mode, "ttl": p.TTL, "proto": p.Proto, "src": p.Src.String(), "dst": p.Dst.String(), "plen": p.PLen}
			if err != nil {
				fail("C15:IP4."+mode+"Payload", "error: "+err.Error(), c)
				continue
			}
			z := append([]byte{}, h...)
			z[10], z[11] = 0, 0
			if w := refStored(z); refCksum(h) != 0 || vh.Cksum(h) != 0 || [2]byte{h[10], h[11]} != w {
				fail("C15:IP4."+mode+"Payload", fmt.Sprintf("header %s: checksum bytes %02x%02x, RFC 1071 gives %x", hx(h), h[10], h[11], w), c)
			}
		}
	}
	addr := func() netip.Addr { var a [4]byte; rng.Read(a[:]); return netip.AddrFrom4(a) }
	step := 1
	if !thorough {
		step = 5
	}
	for ttl := 0; ttl < 256; ttl += step {
		for pr := 0; pr < 256; pr++ {
			hdrCheck(hdrParams{TTL: byte(ttl), Proto: byte(pr), Src: addr(), Dst: addr(), PLen: rng.Intn(1481)})
		}
	}
	for pl := 0; pl <= 1480; pl++ {
		hdrCheck(hdrParams{TTL: byte(rng.Intn(256)), Proto: byte(rng.Intn(256)), Src: addr(), Dst: addr(), PLen: pl})
	}
	for n := 0; n <= 1472; n++ {
		data := make([]byte, n)
		rng.Read(data)
		p := make([]byte, 8+n)
		typ := []byte{8, 0, 128, 129}[n%4]
		packet.EncodeICMPEcho(p, typ, byte(rng.Intn(2)), uint16(rng.Intn(65536)), uint16(rng.Intn(65536)), data)
		z := append([]byte{}, p...)
		packet.ICMP(p).SetChecksum(packet.Checksum(p))
		sum.EchoSweep++
		if w := refStored(z); [2]byte{p[2], p[3]} != w || refCksum(p) != 0 {
			fail("C15:ICMP.SetChecksum", fmt.Sprintf("echo message of %d data bytes: checksum bytes %02x%02x, RFC 1071 gives %x", n, p[2], p[3], w),
				map[string]interface{}{"op": "SetChecksum", "b": hx(z)})
		}
	}
}

// pairCase: one transmission `pre` that fills the pooled transmit buffer with non-zero bytes (target address and MAC
// without zero bytes, long echo id), then the echo request whose checksum bytes TLC computed.
func pairCase(x *sess, pre string, fault string, src, dst packet.Addr, id, seq uint16, expMsg []byte, exp *[2]byte) (bool, string) {
	saved := x.noFault
	x.noFault = true
	defer func() { x.noFault = saved }()
	dirty := packet.Addr{MAC: net.HardwareAddr{0x9a, 0x99, 0x98, 0x97, 0x96, 0x95}, IP: netip.MustParseAddr("fe80::9191:9292:9393:9499")}
	psrc, pdst := src, dst
	if pre == "ICMP4SendEchoRequest" {
		psrc = packet.Addr{MAC: vh.OwnMAC, IP: netip.MustParseAddr("153.153.153.153")}
		pdst = packet.Addr{MAC: dirty.MAC, IP: netip.MustParseAddr("145.146.147.148")}
	}
	if ok, what := sendCase(x, pre, psrc, pdst, dirty, 0x9995, 0x9793, nil, nil); !ok {
		return false, "preceding " + pre + ": " + what
	}
	if fault != "" { // the echo request once more, this time with its first write failing
		if ok, what := sendCaseF(x, fault, "ICMP6SendEchoRequest", src, dst, packet.Addr{}, id, seq, expMsg, exp); !ok {
			return false, what
		}
	}
	return sendCase(x, "ICMP6SendEchoRequest", src, dst, packet.Addr{}, id, seq, expMsg, exp)
}

// stageConc: headers completed concurrently on separate buffers (legitimate use: several senders) and echo requests
// sent concurrently through one session. Every result is judged on its own by the validated transcription.
func stageConc(x *sess, seed int64, thorough bool) (bad int, first string, badFrames int, firstFrame string) {
	workers, iters := 8, 20000
	if thorough {
		iters = 200000
	}
	type res struct {
		bad   int
		first string
	}
	out := make(chan res, workers)
	for w := 0; w < workers; w++ {
		go func(w int) {
			r := res{}
			rng := rand.New(rand.NewSource(seed*131 + int64(w)))
			buf := make([]byte, 0, 1600)
			payload := make([]byte, 1480)
			for i := 0; i < iters; i++ {
				var a, b [4]byte
				rng.Read(a[:])
				rng.Read(b[:])
				ttl, proto, pl := byte(rng.Intn(256)), byte(rng.Intn(256)), rng.Intn(1481)
				ip := packet.EncodeIP4(buf[:20], ttl, netip.AddrFrom4(a), netip.AddrFrom4(b))
				var h packet.IP4
				if i%2 == 0 {
					h = ip.SetPayload(payload[:pl], proto)
				} else {
					h, _ = ip.AppendPayload(payload[:pl], proto)
				}
				if len(h) < 20 || refCksum(h[:20]) != 0 {
					r.bad++
					if r.first == "" {
						r.first = fmt.Sprintf("worker %d iteration %d: header %s does not sum to zero", w, i, hx(h[:20]))
					}
				}
			}
			out <- r
		}(w)
	}
	for w := 0; w < workers; w++ {
		r := <-out
		bad += r.bad
		if first == "" {
			first = r.first
		}
	}
	sum.ConcHeaders += workers * iters
	// concurrent echo requests through one session
	if x != nil {
		x.conn.Take()
		n := 200
		done := make(chan struct{}, workers)
		for w := 0; w < workers; w++ {
			go func(w int) {
				defer func() { recover(); done <- struct{}{} }()
				for i := 0; i < n; i++ {
					id, seq := uint16(w*1000+i), uint16(i*7+w)
					if w%2 == 0 {
						x.s.ICMP4SendEchoRequest(packet.Addr{MAC: vh.OwnMAC, IP: netip.AddrFrom4([4]byte{10, byte(w), byte(i), 1})},
							packet.Addr{MAC: vh.RouterMAC, IP: netip.AddrFrom4([4]byte{10, 0, byte(i), byte(w)})}, id, seq)
					} else {
						x.s.ICMP6SendEchoRequest(packet.Addr{MAC: vh.OwnMAC, IP: vh.HostLLA},
							packet.Addr{MAC: vh.RouterMAC, IP: netip.AddrFrom16([16]byte{0xfe, 0x80, 0, 0, 0, 0, 0, 0, 0, 0, 0, 0, byte(w), byte(i), 0x91, 0x99})}, id, seq)
					}
				}
			}(w)
		}
		for w := 0; w < workers; w++ {
			<-done
		}
		for _, f := range x.conn.Take() {
			sum.ConcFrames++
			if problem, _, _, _, _, _ := checkFrame(f); problem != "" {
				badFrames++
				if firstFrame == "" {
					firstFrame = "concurrent echo request: " + problem
				}
			}
		}
	}
	return bad, first, badFrames, firstFrame
}

// ---------------------------------------------------------------------------------------------
// stage 5: directed search.  The one's-complement sum of a message is linear in any aligned 16-bit word of it, so the
// validated transcription can *solve* for the value of a free word (echo id, a word of an announced prefix, a word of
// the target address) that makes the total sum of pseudo-header + message any prescribed value (Cksum.tla Sub1c).
// The prescribed totals are the ones on which an implementation that groups the terms differently and folds once
// too few goes wrong (Cksum.tla FoldsNeeded / FoldClasses): tiny sums, negative zero, their byte swaps.  This is done
// for ICMPv6 length classes far beyond the usual messages: router advertisements with 1..44 prefixes and 0..3 RDNSS
// servers (lengths 80..1496, low length byte over the whole range), and -- through the verif hook -- echo requests of
// ICMPv6 length 198, 199, 255, 256, 454, 511, 1000, 1400, maximal.

var critTotals = []uint16{0x0001, 0x0002, 0x0003, 0x00ff, 0x0100, 0x0200, 0x0300, 0x7fff, 0x8000, 0xfcff, 0xfdff, 0xfeff, 0xfffc, 0xfffd, 0xfffe, 0xffff}

type raCfg struct {
	prefixes, rdnss int
	w               uint16 // bytes 4,5 of the last prefix
	dst             packet.Addr
}

func (x *sess) sendRA(c raCfg) (frame []byte, err error, pan interface{}) {
	if x.fault != "" {
		x.fc.arm(faultErr(x.fault))
		defer x.fc.arm()
	}
	x.conn.Take()
	func() {
		defer func() { pan = recover() }()
		pfx := make([]packet.PrefixInformation, c.prefixes)
		for i := range pfx {
			ip := net.ParseIP("2001:db8:0:1::")
			ip[6], ip[7] = byte((i+1)>>8), byte(i+1)
			pfx[i] = packet.PrefixInformation{PrefixLength: 64, Prefix: ip}
		}
		last := pfx[len(pfx)-1].Prefix
		last[4], last[5] = byte(c.w>>8), byte(c.w)
		var rd *packet.RecursiveDNSServer
		if c.rdnss > 0 {
			rd = &packet.RecursiveDNSServer{Lifetime: 10 * time.Minute}
			for i := 0; i < c.rdnss; i++ {
				rd.Servers = append(rd.Servers, net.ParseIP(fmt.Sprintf("fe80::53:%x", i+1)))
			}
		}
		err = x.s.ICMP6SendRouterAdvertisement(pfx, rd, c.dst)
	}()
	fs := x.conn.Take()
	if len(fs) > 0 {
		frame = fs[0]
	}
	return
}

// totalSum: one's-complement sum (big-endian words) of pseudo-header + ICMPv6 message of an emitted frame with the
// checksum field taken as zero; wOff = offset of a given word inside the message.
func totalSum6(frame []byte) (base uint16, msg []byte, src, dst netip.Addr, ok bool) {
	if len(frame) < 54+4 || binary.BigEndian.Uint16(frame[12:14]) != 0x86dd || frame[14+6] != 58 {
		return 0, nil, src, dst, false
	}
	ip := frame[14:]
	pl := int(binary.BigEndian.Uint16(ip[4:6]))
	if 40+pl > len(ip) {
		return 0, nil, src, dst, false
	}
	src = netip.AddrFrom16(*(*[16]byte)(ip[8:24]))
	dst = netip.AddrFrom16(*(*[16]byte)(ip[24:40]))
	msg = append([]byte{}, ip[40:40+pl]...)
	msg[2], msg[3] = 0, 0
	return refSum(append(pseudo6(src, dst, pl), msg...)), msg, src, dst, true
}

func sub1c(t, y uint16) uint16 { return add1c(t, 65535-y) }

func raFail(c raCfg, what string) {
	fail("C15:send:ICMP6SendRouterAdvertisement", what, map[string]interface{}{"op": "ra", "prefixes": c.prefixes, "rdnss": c.rdnss, "w": c.w, "dst": addrJSON(c.dst)})
}

// raOne sends one RA and judges the frame. Returns the total sum (checksum field zero) when the frame is usable.
func raOne(x *sess, c raCfg) (total uint16, ok bool) {
	if sum.Directed%8 == 3 { // fail-then-succeed: nothing may reach the wire unverified
		x.fault = faultKinds[sum.Directed/8%len(faultKinds)]
		f, _, _ := x.sendRA(c)
		fk := x.fault
		x.fault = ""
		if f != nil {
			sum.FramesAfterFault++
			if problem, _, _, _, _, _ := checkFrame(f); problem != "" {
				raFail(c, problem+" (frame transmitted after the first write failed with "+fk+")")
			}
		}
	}
	f, err, pan := x.sendRA(c)
	if pan != nil {
		sum.Panics++
		raFail(c, fmt.Sprintf("panic: %v", pan))
		return 0, false
	}
	if err != nil || f == nil {
		sum.Refused["ICMP6SendRouterAdvertisement"]++
		return 0, false
	}
	total, msg, _, _, good := totalSum6(f)
	if !good {
		raFail(c, "emitted frame is not an ICMPv6 packet")
		return 0, false
	}
	sum.Directed++
	sum.DirectedByLen[strconv.Itoa(len(msg))]++
	if problem, _, _, _, _, _ := checkFrame(f); problem != "" {
		raFail(c, fmt.Sprintf("%s (router advertisement with %d prefixes, %d RDNSS servers, ICMPv6 length %d, prefix word %#04x, total sum %#04x)",
			problem, c.prefixes, c.rdnss, len(msg), c.w, total))
		return total, false
	}
	sum.Frames++
	sum.FramesByFn["ICMP6SendRouterAdvertisement"]++
	return total, true
}

func stage5(x *sess, rng *rand.Rand, thorough bool) {
	x.quietH = true
	defer func() { x.quietH = false }()
	dsts := []packet.Addr{packet.IP6AllNodesAddr, {MAC: vh.RouterMAC, IP: netip.MustParseAddr("fe80::ffff:ffff:ffff:fffe")}}
	counts := []int{1, 2, 3, 4, 5, 6, 7, 8, 12, 13, 14, 15, 21, 29, 30, 44}
	for _, k := range counts {
		for m := 0; m <= 3; m++ {
			// 16 header+body, 32 per prefix, 8+16m RDNSS, 16 DNSSL, 8 MTU, 8 SLLA; an Ethernet frame carries at most 1460
			// bytes of ICMPv6 (beyond that icmp6SendPacket ignores ErrPayloadTooBig and fails on a nil packet: not a
			// checksum matter, the message is never completed)
			if icmpLen := 16 + 32*k + 32; icmpLen+map[bool]int{false: 0, true: 8 + 16*m}[m > 0] > 1460 {
				sum.Oversize++
				continue
			}
			for _, dst := range dsts {
				c := raCfg{prefixes: k, rdnss: m, w: 0, dst: dst}
				base, ok := raOne(x, c)
				if !ok {
					continue
				}
				for _, t := range critTotals {
					for _, dw := range []uint16{0, 1, 0xffff} {
						c.w = sub1c(t, base) + dw
						if got, ok := raOne(x, c); ok && dw == 0 && got == t {
							sum.DirectedHit++
						}
					}
				}
			}
		}
	}
	// echo requests of long and odd ICMPv6 lengths through the hook, id solved for every critical total
	if x.hook6.IsValid() {
		sum.Hook = true
		src := packet.Addr{MAC: vh.OwnMAC, IP: vh.HostLLA}
		for _, n := range []int{23, 198, 199, 200, 208, 255, 256, 454, 511, 1000, 1400, 1446} {
			for _, dst := range []packet.Addr{{MAC: vh.RouterMAC, IP: netip.MustParseAddr("fe80::1")}, {MAC: vh.RouterMAC, IP: netip.MustParseAddr("2001:db8:ffff:ffff:ffff:ffff:ffff:fffe")}} {
				data := make([]byte, n-8)
				rng.Read(data)
				mk := func(id uint16) []byte {
					p := make([]byte, n)
					packet.EncodeICMPEcho(p, packet.ICMP6TypeEchoRequest, 0, id, 1, data)
					return p
				}
				base := refSum(append(pseudo6(src.IP, dst.IP, n), mk(0)...))
				for _, t := range critTotals {
					for _, dw := range []uint16{0, 1, 0xffff} {
						id := sub1c(t, base) + dw
						msg := mk(id)
						sum.Directed++
						sum.DirectedByLen[strconv.Itoa(n)]++
						if dw == 0 && refSum(append(pseudo6(src.IP, dst.IP, n), msg...)) == t {
							sum.DirectedHit++
						}
						if ok, what := rawCase(x, true, src, dst, msg, nil); !ok {
							fail("C15:send:icmp6SendPacket", what, map[string]interface{}{"op": "raw6", "src": addrJSON(src), "dst": addrJSON(dst), "msg": hx(msg)})
						}
					}
				}
			}
		}
	}
	// the same for ICMPv4 echo requests through icmp4SendPacket (no pseudo-header: the message alone carries the sum)
	if x.hook4.IsValid() {
		src := packet.Addr{MAC: vh.OwnMAC, IP: netip.MustParseAddr("192.168.0.129")}
		dst := packet.Addr{MAC: vh.RouterMAC, IP: netip.MustParseAddr("255.255.255.254")}
		for _, n := range []int{8, 9, 23, 198, 199, 255, 256, 511, 1000, 1472} {
			data := make([]byte, n-8)
			rng.Read(data)
			mk := func(id uint16) []byte {
				p := make([]byte, n)
				packet.EncodeICMPEcho(p, packet.ICMP4TypeEchoRequest, 0, id, 1, data)
				return p
			}
			base := refSum(mk(0))
			for _, t := range critTotals {
				for _, dw := range []uint16{0, 1, 0xffff} {
					msg := mk(sub1c(t, base) + dw)
					sum.Directed++
					sum.DirectedByLen["v4:"+strconv.Itoa(n)]++
					if dw == 0 && refSum(msg) == t {
						sum.DirectedHit++
					}
					if ok, what := rawCase(x, false, src, dst, msg, nil); !ok {
						fail("C15:send:icmp4SendPacket", what, map[string]interface{}{"op": "raw4", "src": addrJSON(src), "dst": addrJSON(dst), "msg": hx(msg)})
					}
				}
			}
		}
	}
	// full sweeps of one 16-bit word: 5-prefix router advertisement (ICMPv6 length 208); thorough: also 13 prefixes
	// (464), 1 prefix, and through the hook every id of a 200 byte and a 23 byte echo request
	sweeps := []raCfg{{prefixes: 5, rdnss: 0, dst: packet.IP6AllNodesAddr}}
	if thorough {
		sweeps = append(sweeps, raCfg{prefixes: 13, rdnss: 0, dst: packet.IP6AllNodesAddr}, raCfg{prefixes: 1, rdnss: 1, dst: packet.IP6AllNodesAddr},
			raCfg{prefixes: 6, rdnss: 2, dst: dsts[1]})
	}
	for _, c := range sweeps {
		for w := 0; w < 65536; w++ {
			c.w = uint16(w)
			raOne(x, c)
		}
		sum.FullSweeps[fmt.Sprintf("RA %d prefixes %d rdnss", c.prefixes, c.rdnss)] = 65536
	}
	if x.hook6.IsValid() {
		lens := []int{200}
		if thorough {
			lens = []int{200, 23, 255, 511}
		}
		src := packet.Addr{MAC: vh.OwnMAC, IP: vh.HostLLA}
		dst := packet.Addr{MAC: vh.RouterMAC, IP: netip.MustParseAddr("fe80::1")}
		for _, n := range lens {
			data := make([]byte, n-8)
			for i := range data {
				data[i] = byte(i)
			}
			for id := 0; id < 65536; id++ {
				p := make([]byte, n)
				packet.EncodeICMPEcho(p, packet.ICMP6TypeEchoRequest, 0, uint16(id), 1, data)
				sum.Directed++
				if ok, what := rawCase(x, true, src, dst, p, nil); !ok {
					fail("C15:send:icmp6SendPacket", what, map[string]interface{}{"op": "raw6", "src": addrJSON(src), "dst": addrJSON(dst), "msg": hx(p)})
				}
			}
			sum.FullSweeps[fmt.Sprintf("echo6 length %d", n)] = 65536
		}
	}
}

func stage4(x *sess, rng *rand.Rand, thorough bool) {
	v6 := []netip.Addr{vh.HostLLA, netip.MustParseAddr("ff02::1"), netip.MustParseAddr("ff02::2"), netip.MustParseAddr("fe80::ffff:ffff:ffff:ffff"),
		netip.MustParseAddr("2001:db8::ffff:ffff"), netip.MustParseAddr("2001:db8:1:2:3:4:5:6"), netip.MustParseAddr("::1"),
		netip.MustParseAddr("ffff:ffff:ffff:ffff:ffff:ffff:ffff:ffff"), netip.MustParseAddr("fe80::1")}
	macs := []net.HardwareAddr{vh.OwnMAC, vh.RouterMAC, {0xff, 0xff, 0xff, 0xff, 0xff, 0xff}, {0, 0, 0, 0, 0, 0}, {0x02, 0xfe, 0xff, 0x00, 0x01, 0x80}}
	fns := []string{"ICMP6SendNeighborAdvertisement", "ICMP6SendNeighbourSolicitation", "ICMP6SendRouterSolicitation", "ICMP6SendRouterAdvertisement",
		"ICMP6SendEchoRequest", "ICMP4SendEchoRequest"}
	rounds := 300
	if thorough {
		rounds = 3000
	}
	for r := 0; r < rounds; r++ {
		fn := fns[r%len(fns)]
		src := packet.Addr{MAC: macs[rng.Intn(len(macs))], IP: v6[rng.Intn(len(v6))]}
		dst := packet.Addr{MAC: macs[rng.Intn(len(macs))], IP: v6[rng.Intn(len(v6))]}
		tgt := packet.Addr{MAC: macs[rng.Intn(len(macs))], IP: v6[rng.Intn(len(v6))]}
		if rng.Intn(3) == 0 {
			var a [16]byte
			rng.Read(a[:])
			tgt.IP = netip.AddrFrom16(a)
		}
		if fn == "ICMP4SendEchoRequest" {
			var a, b [4]byte
			rng.Read(a[:])
			rng.Read(b[:])
			src.IP, dst.IP = netip.AddrFrom4(a), netip.AddrFrom4(b)
		}
		id, seq := uint16(rng.Intn(65536)), uint16(rng.Intn(65536))
		if ok, what := sendCase(x, fn, src, dst, tgt, id, seq, nil, nil); !ok {
			fail("C15:send:"+fn, what, map[string]interface{}{"op": "send", "fn": fn, "src": addrJSON(src), "dst": addrJSON(dst),
				"target": addrJSON(tgt), "id": id, "seq": seq})
		}
	}
}

// ---------------------------------------------------------------------------------------------
// -case: re-execute one case; prints {"reproduced": bool, "what": ...}

func runCase(js string) int {
	var c map[string]interface{}
	if err := json.Unmarshal([]byte(js), &c); err != nil {
		fmt.Fprintln(os.Stderr, "bad case:", err)
		return 2
	}
	str := func(k string) string { s, _ := c[k].(string); return s }
	num := func(k string) int { f, _ := c[k].(float64); return int(f) }
	unhex := func(k string) []byte { b, _ := hex.DecodeString(str(k)); return b }
	res := map[string]interface{}{"reproduced": false}
	defer func() {
		out, _ := json.Marshal(res)
		fmt.Println(string(out))
	}()
	b := unhex("b")
	switch str("op") {
	case "Checksum":
		got, want := opChecksum(b)
		if e := unhex("e"); len(e) == 2 && refStored(b) != [2]byte{e[0], e[1]} {
			res["what"] = "oracle disagrees with recorded expectation"
			return 2
		}
		res["reproduced"] = got != want
		res["what"] = fmt.Sprintf("got %x want %x", got, want)
	case "long":
		if str("pat") == "tlc" {
			// a TLC vector: its bytes are the carriers of CksumVec.tla (all 0xff or PatBytes carrier 4)
			n := num("n")
			want := unhex("e")
			for _, cand := range [][]byte{longBytes(n, "ff", 0), tlcCarrier4(n)} {
				if r := refStored(cand); len(want) == 2 && r == [2]byte{want[0], want[1]} {
					got, _ := opChecksum(cand)
					res["reproduced"] = got != r
					res["what"] = fmt.Sprintf("got %x want %x", got, r)
				}
			}
			break
		}
		lb := longBytes(num("n"), str("pat"), int64(num("seed")))
		got, want := opChecksum(lb)
		res["reproduced"] = got != want
		res["what"] = fmt.Sprintf("got %x want %x (len %d)", got, want, len(lb))
		if k := num("k"); k > 0 && got == want {
			be := func(x [2]byte) uint16 { return ^(uint16(x[0])<<8 | uint16(x[1])) }
			whole, p, q := be(libStored(lb)), be(libStored(lb[:k])), be(libStored(lb[k:]))
			if k%2 == 1 {
				q = swap16(q)
			}
			res["reproduced"] = add1c(p, q) != whole
		}
	case "Calc":
		got, want := opCalc(b)
		res["reproduced"] = got != want
		res["what"] = fmt.Sprintf("got %x want %x", got, want)
	case "SetChecksum":
		got, want, ver := opSetChecksum(b)
		res["reproduced"] = got != want || !ver
		res["what"] = fmt.Sprintf("got %x want %x verifies %v", got, want, ver)
	case "split":
		k := num("k")
		be := func(x [2]byte) uint16 { return ^(uint16(x[0])<<8 | uint16(x[1])) }
		whole, p, q := be(libStored(b)), be(libStored(b[:k])), be(libStored(b[k:]))
		if k%2 == 1 {
			q = swap16(q)
		}
		res["reproduced"] = add1c(p, q) != whole
	case "hdr":
		p := hdrParams{TTL: b[8], Proto: b[9], Src: netip.AddrFrom4(*(*[4]byte)(b[12:16])), Dst: netip.AddrFrom4(*(*[4]byte)(b[16:20])),
			PLen: int(binary.BigEndian.Uint16(b[2:4])) - 20}
		h, err := opHdr(p, str("mode"), b[8])
		if err != nil {
			res["reproduced"] = true
			res["what"] = err.Error()
			break
		}
		res["reproduced"] = refCksum(h) != 0
		res["what"] = "header " + hx(h)
	case "hdrp":
		src, _ := netip.ParseAddr(str("src"))
		dst, _ := netip.ParseAddr(str("dst"))
		h, err := opHdr(hdrParams{TTL: byte(num("ttl")), Proto: byte(num("proto")), Src: src, Dst: dst, PLen: num("plen")}, str("mode"), byte(num("plen")))
		if err != nil {
			res["reproduced"] = true
			res["what"] = err.Error()
			break
		}
		res["reproduced"] = refCksum(h) != 0
		res["what"] = "header " + hx(h)
	case "concurrent":
		x, err := newSess()
		if err != nil {
			fmt.Fprintln(os.Stderr, err)
			return 2
		}
		defer x.close()
		th, _ := c["thorough"].(bool)
		for attempt := 0; attempt < 5; attempt++ { // a race: give it a few chances
			bad, first, badFrames, firstFrame := stageConc(x, int64(num("seed"))+int64(attempt), th)
			if str("what") == "frames" && badFrames > 0 {
				res["reproduced"] = true
				res["what"] = firstFrame
				break
			}
			if str("what") != "frames" && bad > 0 {
				res["reproduced"] = true
				res["what"] = first
				break
			}
		}
	case "ra":
		x, err := newSess()
		if err != nil {
			fmt.Fprintln(os.Stderr, err)
			return 2
		}
		defer x.close()
		before := len(sum.Failures)
		raOne(x, raCfg{prefixes: num("prefixes"), rdnss: num("rdnss"), w: uint16(num("w")), dst: addrFromJSON(c["dst"])})
		if len(sum.Failures) > before {
			res["reproduced"] = true
			res["what"] = sum.Failures[len(sum.Failures)-1].What
		}
	case "raw6", "raw4":
		x, err := newSess()
		if err != nil {
			fmt.Fprintln(os.Stderr, err)
			return 2
		}
		defer x.close()
		if str("op") == "raw4" {
			if !x.hook4.IsValid() {
				fmt.Fprintln(os.Stderr, "hook VerifICMP4SendPacket absent")
				return 2
			}
			ok, what := rawCase(x, false, addrFromJSON(c["src"]), addrFromJSON(c["dst"]), unhex("msg"), nil)
			res["reproduced"] = !ok
			res["what"] = what
			break
		}
		if !x.hook6.IsValid() {
			fmt.Fprintln(os.Stderr, "hook VerifICMP6SendPacket absent")
			return 2
		}
		var exp *[2]byte
		if e := unhex("e"); len(e) == 2 {
			exp = &[2]byte{e[0], e[1]}
		}
		ok, what := rawCase(x, true, addrFromJSON(c["src"]), addrFromJSON(c["dst"]), unhex("msg"), exp)
		res["reproduced"] = !ok
		res["what"] = what
	case "pair":
		x, err := newSess()
		if err != nil {
			fmt.Fprintln(os.Stderr, err)
			return 2
		}
		defer x.close()
		e := unhex("e")
		ok, what := pairCase(x, str("pre"), str("fault"), addrFromJSON(c["src"]), addrFromJSON(c["dst"]), uint16(num("id")), uint16(num("seq")), unhex("msg"), &[2]byte{e[0], e[1]})
		res["reproduced"] = !ok
		res["what"] = what
	case "send":
		x, err := newSess()
		if err != nil {
			fmt.Fprintln(os.Stderr, err)
			return 2
		}
		defer x.close()
		if hs, ok := c["history"].([]interface{}); ok { // re-create the state of the pooled transmit buffers
			for _, h := range hs {
				m, _ := h.(map[string]interface{})
				fn, _ := m["fn"].(string)
				id, _ := m["id"].(float64)
				sq, _ := m["seq"].(float64)
				x.fault, _ = m["fault"].(string)
				x.send(fn, addrFromJSON(m["src"]), addrFromJSON(m["dst"]), addrFromJSON(m["target"]), uint16(id), uint16(sq))
				x.fault = ""
			}
		}
		x.noFault = true
		var exp *[2]byte
		var msg []byte
		if e := unhex("e"); len(e) == 2 {
			exp = &[2]byte{e[0], e[1]}
			msg = unhex("msg")
		}
		ok, what := sendCaseF(x, str("fault"), str("fn"), addrFromJSON(c["src"]), addrFromJSON(c["dst"]), addrFromJSON(c["target"]),
			uint16(num("id")), uint16(num("seq")), msg, exp)
		res["reproduced"] = !ok
		res["what"] = what
	default:
		fmt.Fprintln(os.Stderr, "unknown op")
		return 2
	}
	return 0
}

func main() {
	vectors := flag.String("vectors", "", "ndjson vectors printed by TLC (CksumVec.tla)")
	one := flag.String("case", "", "re-execute one case (JSON)")
	flag.Parse()
	vh.Quiet()
	realStdout := os.Stdout
	if null, err := os.OpenFile(os.DevNull, os.O_WRONLY, 0); err == nil {
		os.Stdout = null
	}
	if *one != "" {
		os.Stdout = realStdout
		os.Exit(runCase(*one))
	}
	seed, _ := strconv.ParseInt(os.Getenv("VERIF_SEED"), 10, 64)
	if seed == 0 {
		seed = 1
	}
	thorough := os.Getenv("VERIF_TIER") == "thorough"
	rng := rand.New(rand.NewSource(seed))
	x, err := newSess()
	if err != nil {
		fmt.Fprintln(os.Stderr, "session:", err)
		os.Exit(2)
	}
	if err := stage12(*vectors, x); err != nil {
		fmt.Fprintln(os.Stderr, "vectors:", err)
		os.Exit(2)
	}
	if len(sum.OracleMismatch) == 0 {
		stage4(x, rng, thorough)
		stage5(x, rng, thorough)
		bad, first, badFrames, firstFrame := stageConc(x, seed, thorough)
		if bad > 0 {
			fail("C15:IP4.CalculateChecksum:concurrent", fmt.Sprintf("%d headers wrong under concurrent use of separate buffers; %s", bad, first),
				map[string]interface{}{"op": "concurrent", "what": "headers", "seed": seed, "thorough": thorough})
		}
		if badFrames > 0 {
			fail("C15:send:concurrent", fmt.Sprintf("%d frames wrong when echo requests are sent concurrently; %s", badFrames, firstFrame),
				map[string]interface{}{"op": "concurrent", "what": "frames", "seed": seed, "thorough": thorough})
		}
		x.close()
		stage3(rng, thorough)
		stage3b(rng, thorough)
		stageLong(seed, thorough)
		stageWide(rng, thorough)
	} else {
		x.close()
	}
	sum.DistinctInputs = len(distinct)
	out, _ := json.Marshal(sum)
	fmt.Fprintln(realStdout, string(out))
}
