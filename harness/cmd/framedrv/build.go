package main

import (
	"encoding/binary"
	"encoding/json"
	"hash/fnv"
	"math/rand"
	"net/netip"
	"sort"
	"strconv"
	"strings"

	"verifharness/vh"
)

// ---- vectors as printed by TLC (spec/FrameVec.tla) ------------------------------------------

type pshape struct {
	Path  string `json:"path"`
	Src   string `json:"src"`
	Sip   string `json:"sip"`
	Etype int    `json:"etype"`
	Flen  int    `json:"flen"`
	Ihl   int    `json:"ihl"`
	Tl    int    `json:"tl"`
	Pl    int    `json:"pl"`
	Proto int    `json:"proto"`
	Sport int    `json:"sport"`
	Dport int    `json:"dport"`
	Doff  int    `json:"doff"`
	Itype int    `json:"itype"`
	Hlen  int    `json:"hlen"`
	Plen  int    `json:"plen"`
	App   string `json:"app"`
	Sha   string `json:"sha"`
}

type outcome struct {
	Err     bool `json:"err"`
	Panic   bool `json:"panic"`
	ID      int  `json:"id"`
	IP4     int  `json:"ip4"`
	IP6     int  `json:"ip6"`
	UDP     int  `json:"udp"`
	TCP     int  `json:"tcp"`
	Pay     int  `json:"pay"`
	HasIP   bool `json:"hasip"`
	Sport   int  `json:"sport"`
	Dport   int  `json:"dport"`
	Tracked bool `json:"tracked"`
}

type prange struct {
	View string `json:"view"`
	G    string `json:"g"`
	Lo   int    `json:"lo"`
	Hi   int    `json:"hi"`
}

type setf struct {
	G string `json:"g"`
	V int    `json:"v"`
}
type rawf struct {
	Off int   `json:"off"`
	B   []int `json:"b"`
}
type mapf struct {
	G     string `json:"g"`
	Items []struct {
		K  int `json:"k"`
		Lo int `json:"lo"`
		Hi int `json:"hi"`
	} `json:"items"`
}

type listf struct {
	G     string `json:"g"`
	Items []struct {
		Lo int `json:"lo"`
		Hi int `json:"hi"`
	} `json:"items"`
}

type vshape struct {
	View   string   `json:"view"`
	Len    int      `json:"len"`
	Set    []setf   `json:"set"`
	Raw    []rawf   `json:"raw"`
	Wf     bool     `json:"wf"`
	Ranges []prange `json:"ranges"`
	Absent []string `json:"absent"`
	Nums   []setf   `json:"nums"`
	Lists  []listf  `json:"lists"`
	Maps   []mapf   `json:"maps"`
}

type fvec struct {
	View    string `json:"view"`
	G       string `json:"g"`
	K       string `json:"k"`
	Off     int    `json:"off"`
	Pattern string `json:"pattern"`
	Bytes   []int  `json:"bytes"`
	Exp     []int  `json:"exp"`
	Mul     int    `json:"mul"`
	Add     int    `json:"add"`
}

type frow struct {
	V   string `json:"v"`
	G   string `json:"g"`
	K   string `json:"k"`
	Off int    `json:"off"`
	N   int    `json:"n"`
	Sh  int    `json:"sh"`
	W   int    `json:"w"`
	Mul int    `json:"mul"`
	Add int    `json:"add"`
}

type allocx struct {
	Quiet     string  `json:"quiet"`
	Log       string  `json:"log"`
	AllocFree bool    `json:"allocFree"`
	HostSet   bool    `json:"hostSet"`
	O         outcome `json:"o"`
}

type metaBase struct {
	View string `json:"view"`
	Len  int    `json:"len"`
	Set  []setf `json:"set"`
	Raw  []rawf `json:"raw"`
}

// vector is one line of the vectors file: the TLC record plus the id given by the check.
type vector struct {
	ID     int             `json:"id"`
	Fam    string          `json:"fam"`
	S      *pshape         `json:"s"`
	O      *outcome        `json:"o"`
	M      *outcome        `json:"m"`
	Dev    string          `json:"dev"`
	Wf     bool            `json:"wf"`
	Ranges []prange        `json:"ranges"`
	Status string          `json:"status"`
	Cfg    string          `json:"cfg"`
	State  string          `json:"state"`
	Log    string          `json:"log"`
	X      *allocx         `json:"x"`
	C      json.RawMessage `json:"c"`
	view   *vshape
	field  *fvec
}

// ---- deterministic randomness -----------------------------------------------------------------

// caseRand seeds the free bytes of one concrete case from VERIF_SEED, the sample index and the
// CONTENT of the abstract case (not its position in the enumeration), so that a replay file
// reproduces the same bytes even when the enumeration order changes.
func caseRand(seed int64, k int, content interface{}) *rand.Rand {
	var m interface{}
	b, _ := json.Marshal(content)
	json.Unmarshal(b, &m)
	canon, _ := json.Marshal(m) // maps are marshalled with sorted keys
	h := fnv.New64a()
	h.Write([]byte(strconv.FormatInt(seed, 10)))
	h.Write([]byte{'|'})
	h.Write([]byte(strconv.Itoa(k)))
	h.Write([]byte{'|'})
	h.Write(canon)
	return rand.New(rand.NewSource(int64(h.Sum64())))
}

// ---- concretisation of Parse shapes -------------------------------------------------------------

type frameBuilder struct {
	b []byte
}

func (f *frameBuilder) put(off int, v ...byte) {
	for i, x := range v {
		if off+i >= 0 && off+i < len(f.b) {
			f.b[off+i] = x
		}
	}
}
func (f *frameBuilder) put16(off int, v int) { f.put(off, byte(v>>8), byte(v)) }

func srcMAC(class string, rng *rand.Rand, u *vh.Universe) []byte {
	switch class {
	case "own":
		return vh.OwnMAC
	case "router":
		return vh.RouterMAC
	case "mcast":
		if rng.Intn(2) == 0 {
			return []byte{0x01, 0x00, 0x5e, 0x00, 0x00, byte(1 + rng.Intn(250))}
		}
		return []byte{0x33, 0x33, 0x00, 0x00, 0x00, byte(1 + rng.Intn(250))}
	case "bcast":
		return []byte{0xff, 0xff, 0xff, 0xff, 0xff, 0xff}
	}
	return u.MAC("m" + strconv.Itoa(1+rng.Intn(6)))
}

func srcIP(class string, rng *rand.Rand, u *vh.Universe) netip.Addr {
	switch class {
	case "lan":
		return u.IP("a" + strconv.Itoa(1+rng.Intn(6)))
	case "hostip":
		return u.Cfg.HostIP
	case "routerip":
		return u.Cfg.RouterIP
	case "offlan":
		return u.IP("x" + strconv.Itoa(1+rng.Intn(3)))
	case "zero":
		return netip.IPv4Unspecified()
	case "bcast4":
		return netip.MustParseAddr("255.255.255.255")
	case "lla":
		return u.IP("l" + strconv.Itoa(1+rng.Intn(4)))
	case "gua":
		return u.IP("g" + strconv.Itoa(1+rng.Intn(4)))
	case "ula":
		return netip.AddrFrom16([16]byte{0xfd, 0x00, 0x12, 0x34, 0, 0, 0, 0, 0, 0, 0, 0, 0, 0, 0x03, byte(1 + rng.Intn(4))})
	case "mcast6":
		return netip.MustParseAddr("ff02::fb")
	case "unspec6":
		return netip.IPv6Unspecified()
	}
	if rng.Intn(2) == 0 {
		return u.IP("a1")
	}
	return u.IP("l1")
}

// buildFrame turns an abstract shape into bytes.  Every byte the shape does not determine is
// random; fields are written only as far as the frame reaches (truncated shapes).
// wellFormed = true keeps the free header bytes canonical (version nibble, fragment word).
func buildFrame(s *pshape, rng *rand.Rand, u *vh.Universe, wellFormed bool, fill string) []byte {
	f := &frameBuilder{b: make([]byte, s.Flen)}
	rng.Read(f.b)
	switch fill { // spec: FreeByteFills
	case "zero":
		for i := range f.b {
			f.b[i] = 0
		}
	case "ones":
		for i := range f.b {
			f.b[i] = 0xff
		}
	}
	// destination: anything
	switch rng.Intn(4) {
	case 0:
		f.put(0, 0xff, 0xff, 0xff, 0xff, 0xff, 0xff)
	case 1:
		f.put(0, vh.OwnMAC...)
	case 2:
		f.put(0, vh.RouterMAC...)
	default:
		f.put(0, byte(rng.Intn(256))&0xfe)
	}
	sm := srcMAC(s.Src, rng, u)
	f.put(6, sm...)
	f.put16(12, s.Etype)
	free := !wellFormed && rng.Intn(4) == 0 // now and then leave the unvalidated bytes random
	if strings.HasPrefix(s.App, "inner-") {
		innerPacket(f, s, rng, u)
		return f.b
	}
	switch s.Path {
	case "ip4":
		o := 14
		ver := 4
		if free {
			ver = rng.Intn(16)
		}
		f.put(o, byte(ver<<4|s.Ihl&0x0f))
		f.put16(o+2, s.Tl)
		if !free {
			f.put(o+6, byte(rng.Intn(2))<<6, 0) // DF or nothing; first fragment
		}
		f.put(o+9, byte(s.Proto))
		ip := srcIP(s.Sip, rng, u).As4()
		f.put(o+12, ip[:]...)
		if s.Ihl >= 5 { // with IHL < 5 the layer-4 header would overlap the fixed IPv4 header
			l4(f, s, o+4*s.Ihl, rng, free)
		}
	case "ip6":
		o := 14
		if !free {
			f.put(o, 0x60|byte(rng.Intn(16)))
		}
		f.put16(o+4, s.Pl)
		f.put(o+6, byte(s.Proto))
		ip := srcIP(s.Sip, rng, u).As16()
		f.put(o+8, ip[:]...)
		if !free {
			f.put(o+24, 0xff, 0x02, 0, 0, 0, 0, 0, 0, 0, 0, 0, 0, 0, 0, 0, 1)
		}
		l4(f, s, o+40, rng, free)
	case "arp":
		o := 14
		if !free {
			f.put16(o, 1)
			f.put16(o+2, 0x0800)
			f.put16(o+6, 1+rng.Intn(2))
		}
		f.put(o+4, byte(s.Hlen), byte(s.Plen))
		ip := srcIP(s.Sip, rng, u).As4()
		switch s.Sha {
		case "own": // the sender fields name the session's own station although another station transmits
			f.put(o+8, vh.OwnMAC...)
			ip = u.Cfg.HostIP.As4()
		case "router":
			f.put(o+8, vh.RouterMAC...)
			ip = u.Cfg.RouterIP.As4()
		case "other":
			f.put(o+8, u.MAC("m"+strconv.Itoa(7+rng.Intn(3)))...)
		default:
			if rng.Intn(4) != 0 {
				f.put(o+8, sm...)
			} else {
				f.put(o+8, u.MAC("m"+strconv.Itoa(7+rng.Intn(3)))...) // sender hardware address differs from the Ethernet source
			}
		}
		f.put(o+14, ip[:]...)
	}
	return f.b
}

// innerPacket writes, after the 802.1Q / 802.1ad tag(s), the inner EtherType and a complete
// well-formed packet of that type from a LAN client (the package must not decode it).
func innerPacket(f *frameBuilder, s *pshape, rng *rand.Rand, u *vh.Universe) {
	o := 18 // payload after one tag
	if s.Etype == 0x88a8 {
		o = 22
		f.put16(16, 0x8100) // inner tag
	}
	n := len(f.b) - o
	if n < 0 {
		n = 0
	}
	switch s.App {
	case "inner-ip4":
		f.put16(o-2, 0x0800)
		f.put(o, 0x45, 0)
		f.put16(o+2, n)
		f.put(o+6, 0, 0, 64, 17)
		ip := srcIP("lan", rng, u).As4()
		f.put(o+12, ip[:]...)
		f.put16(o+20, 68)
		f.put16(o+22, 67)
		f.put16(o+24, n-20)
	case "inner-ip6":
		f.put16(o-2, 0x86dd)
		f.put(o, 0x60, 0, 0, 0)
		f.put16(o+4, n-40)
		f.put(o+6, 17, 255)
		ip := srcIP("lla", rng, u).As16()
		f.put(o+8, ip[:]...)
		f.put16(o+40, 5353)
		f.put16(o+42, 5353)
	case "inner-arp":
		f.put16(o-2, 0x0806)
		f.put16(o, 1)
		f.put16(o+2, 0x0800)
		f.put(o+4, 6, 4, 0, 1)
		f.put(o+8, f.b[6:12]...)
		ip := srcIP("lan", rng, u).As4()
		f.put(o+14, ip[:]...)
	}
}

// appPayload writes structured application content behind the UDP header.
func appPayload(f *frameBuilder, s *pshape, o int, rng *rand.Rand) {
	switch s.App {
	case "dhcp4":
		f.put(o, byte(1+rng.Intn(2)), 1, 6, 0)
		f.put(o+236, 99, 130, 83, 99)
		f.put(o+240, 53, 1, byte(1+rng.Intn(8)), 255)
		for i := o + 244; i < len(f.b); i++ {
			f.b[i] = 0
		}
	}
}

func l4(f *frameBuilder, s *pshape, o int, rng *rand.Rand, free bool) {
	switch s.Proto {
	case 17:
		f.put16(o, s.Sport)
		f.put16(o+2, s.Dport)
		if !free {
			f.put16(o+4, len(f.b)-o)
		}
		appPayload(f, s, o+8, rng)
	case 6:
		f.put16(o, s.Sport)
		f.put16(o+2, s.Dport)
		f.put(o+12, byte(s.Doff<<4)|byte(rng.Intn(2)))
	case 1, 58:
		f.put(o, byte(s.Itype))
		if !free {
			f.put(o+1, 0)
		}
	}
}

// ---- concretisation of view shapes --------------------------------------------------------------

// nonZero fills b with random bytes that are never zero: zero bytes (zero-length options, string
// terminators, end markers) appear only where the specification puts them, which keeps the
// outcome class of every view shape independent of the seed.
func nonZero(b []byte, rng *rand.Rand) {
	for i := range b {
		b[i] = byte(1 + rng.Intn(255))
	}
}

// writeField stores the raw bit-field value v at the position of table row r (inverse of extract).
func writeField(b []byte, r *frow, v int) {
	if r.Off+r.N > len(b) {
		return
	}
	var word uint64
	for i := 0; i < r.N; i++ {
		word = word<<8 | uint64(b[r.Off+i])
	}
	mask := (uint64(1)<<uint(r.W) - 1) << uint(r.Sh)
	word = word&^mask | (uint64(v)<<uint(r.Sh))&mask
	for i := r.N - 1; i >= 0; i-- {
		b[r.Off+i] = byte(word)
		word >>= 8
	}
}

func buildView(view string, n int, set []setf, raw []rawf, rng *rand.Rand, tab *table) []byte {
	b := make([]byte, n)
	nonZero(b, rng)
	sort.Slice(set, func(i, j int) bool { return set[i].G < set[j].G })
	for _, s := range set {
		if r := tab.row(view, s.G); r != nil {
			writeField(b, r, s.V)
		}
	}
	sort.Slice(raw, func(i, j int) bool { return raw[i].Off < raw[j].Off })
	for _, r := range raw {
		for i, x := range r.B {
			if r.Off+i < len(b) {
				b[r.Off+i] = byte(x)
			}
		}
	}
	return b
}

// ---- the field table (from the specification) ---------------------------------------------------

type table struct {
	rows     map[string]*frow // "View.Getter"
	byView   map[string][]*frow
	base     map[string]*metaBase
	uncomp   map[string]bool
	derive   map[string]bool
	classify [][2]string // spec: ClassifyingFields
}

func (t *table) row(view, g string) *frow { return t.rows[view+"."+g] }

// extract evaluates a table row on the bytes of a view: the value the getter must return,
// in the canonical text form used for comparison ("" when the view is too short for the row).
func (t *table) extract(r *frow, b []byte) string {
	if r.Off+r.N > len(b) {
		return ""
	}
	switch r.K {
	case "uint", "bool":
		var word uint64
		for i := 0; i < r.N; i++ {
			word = word<<8 | uint64(b[r.Off+i])
		}
		v := (word >> uint(r.Sh)) & (uint64(1)<<uint(r.W) - 1)
		if r.K == "bool" {
			return strconv.FormatBool(v == 1)
		}
		return strconv.FormatUint(v*uint64(r.Mul)+uint64(r.Add), 10)
	case "bytes", "mac":
		return rangeText(r.Off, r.Off+r.N)
	case "cstr":
		e := r.Off
		for e < r.Off+r.N && b[e] != 0 {
			e++
		}
		return rangeText(r.Off, e)
	case "ip4":
		return netip.AddrFrom4(*(*[4]byte)(b[r.Off : r.Off+4])).String()
	case "ip6":
		return netip.AddrFrom16(*(*[16]byte)(b[r.Off : r.Off+16])).String()
	}
	return ""
}

func rangeText(lo, hi int) string {
	if hi <= lo {
		return "[]"
	}
	return "[" + strconv.Itoa(lo) + ":" + strconv.Itoa(hi) + ")"
}

func be(b []int) uint64 {
	var v uint64
	for _, x := range b {
		v = v<<8 | uint64(x)
	}
	return v
}

var _ = binary.BigEndian

// ---- frames derived from a case (spec: PrefixTransforms) -----------------------------------------

func swapBytes(b []byte, i, j, n int) {
	if i+n > len(b) || j+n > len(b) {
		return
	}
	for k := 0; k < n; k++ {
		b[i+k], b[j+k] = b[j+k], b[i+k]
	}
}

// l4Offset: where the layer-4 header of a decodable IP frame starts, and its protocol (-1: none).
func l4Offset(s *pshape) (int, int) {
	switch s.Path {
	case "ip4":
		if s.Ihl >= 5 {
			return 14 + 4*s.Ihl, s.Proto
		}
	case "ip6":
		return 54, s.Proto
	}
	return -1, -1
}

// reverseFrame: the frame the peer would answer with: MAC, IP addresses and ports swapped.
func reverseFrame(data []byte, s *pshape) []byte {
	b := append([]byte{}, data...)
	swapBytes(b, 0, 6, 6)
	switch s.Path {
	case "ip4":
		swapBytes(b, 26, 30, 4)
	case "ip6":
		swapBytes(b, 22, 38, 16)
	case "arp":
		swapBytes(b, 22, 32, 10)
	}
	if off, proto := l4Offset(s); off > 0 && (proto == 17 || proto == 6) {
		swapBytes(b, off, off+2, 2)
	}
	return b
}

// sameTuple: the same 5-tuple carrying other payload bytes.
func sameTuple(data []byte, s *pshape, rng *rand.Rand) []byte {
	b := append([]byte{}, data...)
	off, proto := l4Offset(s)
	if off < 0 {
		off = 14
	} else if proto == 17 {
		off += 8
	} else if proto == 6 {
		off += 20
	} else {
		off += 8
	}
	if off < len(b) {
		rng.Read(b[off:])
	}
	return b
}

// otherAddresses: the same ports between other IP addresses.
func otherAddresses(data []byte, s *pshape, rng *rand.Rand, u *vh.Universe) []byte {
	b := append([]byte{}, data...)
	switch s.Path {
	case "ip4":
		if len(b) >= 34 {
			a := u.IP("a" + strconv.Itoa(40+rng.Intn(10))).As4()
			copy(b[26:30], a[:])
			rng.Read(b[30:34])
		}
	case "ip6":
		if len(b) >= 54 {
			a := u.IP("l" + strconv.Itoa(40+rng.Intn(10))).As16()
			copy(b[22:38], a[:])
			rng.Read(b[40:54])
		}
	case "arp":
		if len(b) >= 32 {
			a := u.IP("a" + strconv.Itoa(40+rng.Intn(10))).As4()
			copy(b[28:32], a[:])
		}
	}
	return b
}
