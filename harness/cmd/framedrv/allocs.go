package main

import (
	"bufio"
	"encoding/hex"
	"encoding/json"
	"fmt"
	"hash/crc32"
	"math/rand"
	"net"
	"net/netip"
	"runtime"
	"runtime/debug"
	"strconv"
	"strings"
	"testing"
	"time"

	"github.com/irai/packet"
	"github.com/irai/packet/fastlog"
	"verifharness/vh"
)

// runAllocs (C16, second sentence): for every allocation case of the specification (PayloadID class
// x address family x tracking status) build one well-formed frame, bring the session into the
// status the case names, and measure testing.AllocsPerRun around Session.Parse.
//
//	tracked            the source host exists and is online (primed by parsing the frame once)
//	own-mac, off-lan, zero-ip, router-gua, mcast6-src, group-mac, no-ip   untracked by rule
//	new                first frame of the source: creating the host may allocate (not measured)
//
// Must run in a non-race build with logging at error level (vh.Quiet).
func runAllocs(vecs []*vector, tab *table, seed int64, cfg int, ids map[int]bool, out *bufio.Writer) map[string]interface{} {
	u := &vh.Universe{Cfg: vh.Configs[cfg%len(vh.Configs)]}
	// a short (legal) ProbeDeadline: the "quiet" cases are frames of a tracked, online host that was silent
	// for longer than ProbeDeadline and shorter than OfflineDeadline
	s, err := packet.Config{Conn: vh.NewRecConn(), NICInfo: u.NICInfo(), ProbeDeadline: 50 * time.Millisecond,
		OfflineDeadline: time.Minute, PurgeDeadline: time.Hour}.NewSession("")
	if err != nil {
		return map[string]interface{}{"infra": []string{"session: " + err.Error()}}
	}
	emit := func(r rec) {
		b, _ := json.Marshal(r)
		out.Write(b)
		out.WriteByte('\n')
	}
	cnt := map[string]int{}
	for _, v := range vecs {
		if v.Fam != "alloc" || (ids != nil && !ids[v.ID]) {
			continue
		}
		cnt["alloc_cases"]++
		if strings.HasPrefix(v.Status, "ping-pending-") {
			measurePendingPing(v, s, u, seed, emit, cnt)
			continue
		}
		rng := caseRand(seed, 0, v.S)
		data := buildFrame(v.S, rng, u, true, "random")
		buf := make([]byte, len(data), len(data)+64)
		copy(buf, data)
		var fr packet.Frame
		var perr error
		panicked := ""
		parse := func() {
			defer func() {
				if e := recover(); e != nil {
					panicked = fmt.Sprint(e)
				}
			}()
			fr, perr = s.Parse(buf)
		}
		parse() // first frame of this source (creates the host when the rule says so)
		if panicked != "" || perr != nil {
			emit(rec{T: "mm", ID: v.ID, Prop: "C16", What: "alloc-case-rejected", View: "Parse", Exp: "well-formed frame accepted",
				Got: fmt.Sprintf("panic=%q err=%v", panicked, perr), Hex: hex.EncodeToString(data)})
			continue
		}
		if int(fr.PayloadID) != v.X.O.ID {
			emit(rec{T: "drift", ID: v.ID, What: "alloc-case-id", View: "Parse", Exp: fmt.Sprint(v.X.O.ID), Got: fmt.Sprint(int(fr.PayloadID))})
		}
		if (fr.Host != nil) != v.X.HostSet {
			emit(rec{T: "drift", ID: v.ID, What: "tracked", View: "Parse", Exp: fmt.Sprint(v.X.HostSet), Got: fmt.Sprint(fr.Host != nil)})
		}
		if !v.X.AllocFree {
			cnt["alloc_not_required"]++
			continue
		}
		// logger level of the case: "default" = Info, the level a default configured program runs with
		if v.X.Log == "default" {
			packet.Logger.SetLevel(fastlog.LevelInfo)
		} else {
			packet.Logger.SetLevel(fastlog.LevelError)
		}
		if v.Status == "tracked" && (fr.Host == nil || !fr.Host.Online) {
			// the precondition of the case (host tracked and online) could not be established
			emit(rec{T: "drift", ID: v.ID, What: "alloc-precondition", View: "Parse", Exp: "host tracked and online", Got: fmt.Sprint(fr.Host != nil)})
			continue
		}
		var n float64
		if v.X.Quiet == "quiet" {
			host := fr.Host
			n = testing.AllocsPerRun(200, func() {
				past := time.Now().Add(-2 * time.Second) // silent for 2 s: > ProbeDeadline (50 ms), < OfflineDeadline (1 m)
				host.LastSeen, host.MACEntry.LastSeen = past, past
				fr, perr = s.Parse(buf)
			})
			cnt["alloc_measured_quiet"]++
		} else {
			n = testing.AllocsPerRun(200, func() { fr, perr = s.Parse(buf) })
		}
		packet.Logger.SetLevel(fastlog.LevelError)
		cnt["alloc_measured"]++
		cnt["alloc_measured_log_"+v.X.Log]++
		if n != 0 {
			emit(rec{T: "mm", ID: v.ID, Prop: "C16", What: "allocs", View: "Parse", G: v.Status, Exp: "0",
				Got: fmt.Sprintf("%.0f allocations per Parse (PayloadID %d, quiet=%s, logger=%s)", n, int(fr.PayloadID), v.X.Quiet, v.X.Log), Hex: hex.EncodeToString(data)})
		}
		if cnt["alloc_measured"]%40 == 1 {
			emit(rec{T: "sample", ID: v.ID, Hex: hex.EncodeToString(data), Got: fmt.Sprintf("status=%s id=%d allocs=%.0f", v.Status, int(fr.PayloadID), n)})
		}
	}
	packet.Logger.SetLevel(fastlog.LevelError)
	runAllocSets(vecs, u, seed, ids, emit, cnt)
	out.Flush()
	go s.Close()
	return map[string]interface{}{"count": cnt, "infra": []string{}}
}

// ---- steady state with many hosts: interleaved frames (spec: AllocSets) ---------------------------

type allocSet struct {
	Name     string `json:"name"`
	Hosts    int    `json:"hosts"`
	Families string `json:"families"`
}

type dualHost struct {
	mac    net.HardwareAddr
	ip4    netip.Addr // invalid when the LAN has no spare address
	lla    netip.Addr
	frames [][]byte // IPv4/UDP, IPv6/UDP, ARP (as available)
}

func fold(a netip.Addr, how string) byte {
	b := a.As16()
	switch how {
	case "pair-sum-fold":
		var s byte
		for _, x := range b {
			s += x
		}
		return s
	case "pair-low-byte":
		return b[15]
	case "pair-crc8":
		return byte(crc32.ChecksumIEEE(b[:]))
	}
	var s byte
	for _, x := range b {
		s ^= x
	}
	return s
}

// runAllocSets: a fresh session tracks many dual-stack hosts (IPv4 in-LAN address where the LAN has one,
// link-local address with varied low bytes); every set of the specification is measured as a whole:
// AllocsPerRun over one round robin of the frames of its hosts, which must be 0 (so must the per-frame average).
func runAllocSets(vecs []*vector, u *vh.Universe, seed int64, ids map[int]bool, emit func(rec), cnt map[string]int) {
	var sets []*vector
	for _, v := range vecs {
		if v.Fam == "allocset" && (ids == nil || ids[v.ID]) {
			sets = append(sets, v)
		}
	}
	if len(sets) == 0 {
		return
	}
	s, err := packet.Config{Conn: vh.NewRecConn(), NICInfo: u.NICInfo(), ProbeDeadline: time.Minute,
		OfflineDeadline: 2 * time.Minute, PurgeDeadline: time.Hour}.NewSession("")
	if err != nil {
		return
	}
	defer func() { go s.Close() }()
	rng := rand.New(rand.NewSource(seed))
	w := &worker{u: u, s: s}
	const N = 200
	hosts := make([]*dualHost, 0, N)
	for i := 0; i < N; i++ {
		h := &dualHost{mac: net.HardwareAddr{0x02, 0x00, 0x00, 0x09, byte(i >> 8), byte(i)}}
		h.lla = netip.AddrFrom16([16]byte{0xfe, 0x80, 0, 0, 0, 0, 0, 0, 0, 0, 0, byte(rng.Intn(4)), byte(rng.Intn(256)), byte(i >> 4), byte(rng.Intn(256)), byte(i*7 + rng.Intn(3))})
		if i < 189 {
			if ip := u.IP("a" + strconv.Itoa(1+i)); u.Cfg.HomeLAN.Contains(ip) && ip != u.Cfg.HostIP && ip != u.Cfg.RouterIP {
				h.ip4 = ip
			}
		}
		f6 := w.staleFrame(1, rng)
		copy(f6[6:12], h.mac)
		b := h.lla.As16()
		copy(f6[22:38], b[:])
		h.frames = append(h.frames, nil, f6, nil)
		if h.ip4.IsValid() {
			f4 := w.staleFrame(0, rng)
			copy(f4[6:12], h.mac)
			a4 := h.ip4.As4()
			copy(f4[26:30], a4[:])
			fa := w.staleFrame(2, rng)
			copy(fa[6:12], h.mac)
			copy(fa[22:28], h.mac)
			copy(fa[28:32], a4[:])
			h.frames[0], h.frames[2] = f4, fa
		}
		for _, f := range h.frames {
			if f != nil {
				if fr, err := s.Parse(f); err != nil || fr.Host == nil {
					emit(rec{T: "drift", What: "alloc-precondition", View: "Parse", Exp: "host tracked", Got: fmt.Sprint(err)})
				}
			}
		}
		hosts = append(hosts, h)
	}
	pick := func(h *dualHost, fam string) [][]byte {
		var out [][]byte
		add := func(i int) {
			if h.frames[i] != nil {
				out = append(out, h.frames[i])
			}
		}
		switch fam {
		case "ip4":
			add(0)
		case "ip6":
			add(1)
		case "dual":
			add(0)
			add(1)
		default:
			add(0)
			add(1)
			add(2)
		}
		return out
	}
	for _, v := range sets {
		var as allocSet
		if json.Unmarshal(v.C, &as) != nil {
			continue
		}
		var frames [][]byte
		what := as.Name
		if as.Name == "round-robin" {
			for _, h := range hosts[:as.Hosts] {
				frames = append(frames, pick(h, as.Families)...)
			}
			what = fmt.Sprintf("round-robin-%d-%s", as.Hosts, as.Families)
		} else {
			// two hosts whose addresses collide under the fold; "pair-v4-v6-same-fold": an IPv4 and a link-local address
			type ent struct {
				a netip.Addr
				f []byte
			}
			var all []ent
			for _, h := range hosts {
				if h.frames[0] != nil && as.Name != "pair-v4-v6-same-fold" {
					all = append(all, ent{netip.AddrFrom16(h.ip4.As16()), h.frames[0]})
				}
				all = append(all, ent{h.lla, h.frames[1]})
			}
			how := as.Name
			if how == "pair-v4-v6-same-fold" {
				how = "pair-xor-fold"
				for _, h := range hosts {
					if h.frames[0] != nil {
						all = append(all, ent{netip.AddrFrom16(h.ip4.As16()), h.frames[0]})
					}
				}
			}
			seen := map[byte]ent{}
			pairs := 0
			for _, e := range all {
				k := fold(e.a, how)
				if o, ok := seen[k]; ok && o.a != e.a && pairs < 12 {
					if as.Name != "pair-v4-v6-same-fold" || o.a.Is4In6() != e.a.Is4In6() {
						frames = append(frames, o.f, e.f)
						pairs++
					}
				}
				if _, ok := seen[k]; !ok || as.Name == "pair-v4-v6-same-fold" && !e.a.Is4In6() {
					seen[k] = e
				}
			}
		}
		if len(frames) < 2 {
			cnt["allocset_empty"]++
			continue
		}
		n := testing.AllocsPerRun(50, func() {
			for _, f := range frames {
				s.Parse(f)
			}
		})
		cnt["allocset_measured"]++
		cnt["allocset_frames"] += len(frames)
		if n != 0 {
			emit(rec{T: "mm", ID: v.ID, Prop: "C16", What: "allocs", View: "Parse", G: what, Exp: "0",
				Got: fmt.Sprintf("%.0f allocations per round of %d interleaved frames of tracked, online hosts (%s)", n, len(frames), what)})
		}
	}
}

// measurePendingPing (spec: status ping-pending-N): the echo reply of a tracked, online host that wakes a pending
// Ping / Ping6.  Every measured Parse needs a fresh pending ping, so the allocations of the single call are
// counted directly (runtime.MemStats.Mallocs around the call, one P, GC off) and the minimum over the
// repetitions is taken: noise of other goroutines can only add.
func measurePendingPing(v *vector, s *packet.Session, u *vh.Universe, seed int64, emit func(rec), cnt map[string]int) {
	waiters := 1
	if v.Status == "ping-pending-2" {
		waiters = 2
	}
	if v.X.Log == "default" {
		packet.Logger.SetLevel(fastlog.LevelInfo)
	}
	defer packet.Logger.SetLevel(fastlog.LevelError)
	rng := caseRand(seed, 0, v.S)
	data := buildFrame(v.S, rng, u, true, "random")
	off := 54
	if v.S.Path == "ip4" {
		off = 34
	}
	buf := make([]byte, len(data), len(data)+64)
	copy(buf, data)
	buf[off+4], buf[off+5] = 0xff, 0xfe // an id nobody waits for: primes the host
	if fr, err := s.Parse(buf); err != nil || fr.Host == nil || !fr.Host.Online {
		emit(rec{T: "drift", ID: v.ID, What: "alloc-precondition", View: "Parse", Exp: "host tracked and online", Got: fmt.Sprint(err)})
		return
	}
	peer := packet.Addr{MAC: net.HardwareAddr(append([]byte{}, buf[6:12]...))}
	ping := func() {
		if v.S.Path == "ip4" {
			peer.IP = netip.AddrFrom4(*(*[4]byte)(buf[26:30]))
			s.Ping(peer, 2*time.Second)
		} else {
			peer.IP = netip.AddrFrom16(*(*[16]byte)(buf[22:38]))
			s.Ping6(packet.Addr{MAC: vh.OwnMAC, IP: vh.HostLLA}, peer, 2*time.Second)
		}
	}
	best := uint64(1 << 62)
	const reps = 12
	for r := 0; r < reps; r++ {
		before := map[uint16]bool{}
		for _, id := range packet.VerifPingWaiterIDs() {
			before[id] = true
		}
		for i := 0; i < waiters; i++ {
			go ping()
		}
		var ids []uint16
		for i := 0; i < 4000 && len(ids) < waiters; i++ {
			ids = ids[:0]
			for _, x := range packet.VerifPingWaiterIDs() {
				if !before[x] {
					ids = append(ids, x)
				}
			}
			if len(ids) < waiters {
				time.Sleep(100 * time.Microsecond)
			}
		}
		if len(ids) < waiters {
			cnt["ping_pending_not_registered"]++
			continue
		}
		buf[off+4], buf[off+5] = byte(ids[0]>>8), byte(ids[0])
		var m1, m2 runtime.MemStats
		gc := debug.SetGCPercent(-1)
		procs := runtime.GOMAXPROCS(1)
		runtime.ReadMemStats(&m1)
		_, perr := s.Parse(buf)
		runtime.ReadMemStats(&m2)
		runtime.GOMAXPROCS(procs)
		debug.SetGCPercent(gc)
		if perr != nil {
			emit(rec{T: "mm", ID: v.ID, Prop: "C16", What: "alloc-case-rejected", View: "Parse", Exp: "well-formed frame accepted", Got: perr.Error()})
			return
		}
		if d := m2.Mallocs - m1.Mallocs; d < best {
			best = d
		}
		for _, id := range ids[1:] { // wake the other waiters so that the next repetition starts from an empty table
			buf[off+4], buf[off+5] = byte(id>>8), byte(id)
			s.Parse(buf)
		}
		time.Sleep(200 * time.Microsecond)
	}
	if best == 1<<62 {
		return
	}
	cnt["alloc_measured"]++
	cnt["alloc_measured_ping_pending"]++
	if best != 0 {
		emit(rec{T: "mm", ID: v.ID, Prop: "C16", What: "allocs", View: "Parse", G: v.Status, Exp: "0",
			Got: fmt.Sprintf("%d allocations in the Parse of an echo reply that wakes a pending ping (minimum over %d repetitions, %d waiter(s) registered, logger=%s)", best, reps, waiters, v.X.Log),
			Hex: hex.EncodeToString(buf)})
	}
}
