package main

import (
	"bufio"
	"encoding/hex"
	"encoding/json"
	"fmt"
	"testing"
	"time"

	"github.com/irai/packet"
	"github.com/irai/packet/fastlog"
	"verifharness/vh"
)

// runAllocs (C16, second sentence): for every allocation case of the specification (PayloadID class
// x address family x tracking status) build one well-formed frame, bring the session into the
// status the case names, and measure testing.AllocsPerRun around Session.Parse.
//
//	tracked            the source host exists and is online (primed by parsing the frame once)
//	own-mac, off-lan, zero-ip, router-gua, mcast6-src, group-mac, no-ip   untracked by rule
//	new                first frame of the source: creating the host may allocate (not measured)
//
// Must run in a non-race build with logging at error level (vh.Quiet).
func runAllocs(vecs []*vector, tab *table, seed int64, cfg int, ids map[int]bool, out *bufio.Writer) map[string]interface{} {
	u := &vh.Universe{Cfg: vh.Configs[cfg%len(vh.Configs)]}
	// a short (legal) ProbeDeadline: the "quiet" cases are frames of a tracked, online host that was silent
	// for longer than ProbeDeadline and shorter than OfflineDeadline
	s, err := packet.Config{Conn: vh.NewRecConn(), NICInfo: u.NICInfo(), ProbeDeadline: 50 * time.Millisecond,
		OfflineDeadline: time.Minute, PurgeDeadline: time.Hour}.NewSession("")
	if err != nil {
		return map[string]interface{}{"infra": []string{"session: " + err.Error()}}
	}
	emit := func(r rec) {
		b, _ := json.Marshal(r)
		out.Write(b)
		out.WriteByte('\n')
	}
	cnt := map[string]int{}
	for _, v := range vecs {
		if v.Fam != "alloc" || (ids != nil && !ids[v.ID]) {
			continue
		}
		cnt["alloc_cases"]++
		rng := caseRand(seed, 0, v.S)
		data := buildFrame(v.S, rng, u, true)
		buf := make([]byte, len(data), len(data)+64)
		copy(buf, data)
		var fr packet.Frame
		var perr error
		panicked := ""
		parse := func() {
			defer func() {
				if e := recover(); e != nil {
					panicked = fmt.Sprint(e)
				}
			}()
			fr, perr = s.Parse(buf)
		}
		parse() // first frame of this source (creates the host when the rule says so)
		if panicked != "" || perr != nil {
			emit(rec{T: "mm", ID: v.ID, Prop: "C16", What: "alloc-case-rejected", View: "Parse", Exp: "well-formed frame accepted",
				Got: fmt.Sprintf("panic=%q err=%v", panicked, perr), Hex: hex.EncodeToString(data)})
			continue
		}
		if int(fr.PayloadID) != v.X.O.ID {
			emit(rec{T: "drift", ID: v.ID, What: "alloc-case-id", View: "Parse", Exp: fmt.Sprint(v.X.O.ID), Got: fmt.Sprint(int(fr.PayloadID))})
		}
		if (fr.Host != nil) != v.X.HostSet {
			emit(rec{T: "drift", ID: v.ID, What: "tracked", View: "Parse", Exp: fmt.Sprint(v.X.HostSet), Got: fmt.Sprint(fr.Host != nil)})
		}
		if !v.X.AllocFree {
			cnt["alloc_not_required"]++
			continue
		}
		// logger level of the case: "default" = Info, the level a default configured program runs with
		if v.X.Log == "default" {
			packet.Logger.SetLevel(fastlog.LevelInfo)
		} else {
			packet.Logger.SetLevel(fastlog.LevelError)
		}
		if v.Status == "tracked" && (fr.Host == nil || !fr.Host.Online) {
			// the precondition of the case (host tracked and online) could not be established
			emit(rec{T: "drift", ID: v.ID, What: "alloc-precondition", View: "Parse", Exp: "host tracked and online", Got: fmt.Sprint(fr.Host != nil)})
			continue
		}
		var n float64
		if v.X.Quiet == "quiet" {
			host := fr.Host
			n = testing.AllocsPerRun(200, func() {
				past := time.Now().Add(-2 * time.Second) // silent for 2 s: > ProbeDeadline (50 ms), < OfflineDeadline (1 m)
				host.LastSeen, host.MACEntry.LastSeen = past, past
				fr, perr = s.Parse(buf)
			})
			cnt["alloc_measured_quiet"]++
		} else {
			n = testing.AllocsPerRun(200, func() { fr, perr = s.Parse(buf) })
		}
		packet.Logger.SetLevel(fastlog.LevelError)
		cnt["alloc_measured"]++
		cnt["alloc_measured_log_"+v.X.Log]++
		if n != 0 {
			emit(rec{T: "mm", ID: v.ID, Prop: "C16", What: "allocs", View: "Parse", G: v.Status, Exp: "0",
				Got: fmt.Sprintf("%.0f allocations per Parse (PayloadID %d, quiet=%s, logger=%s)", n, int(fr.PayloadID), v.X.Quiet, v.X.Log), Hex: hex.EncodeToString(data)})
		}
		if cnt["alloc_measured"]%40 == 1 {
			emit(rec{T: "sample", ID: v.ID, Hex: hex.EncodeToString(data), Got: fmt.Sprintf("status=%s id=%d allocs=%.0f", v.Status, int(fr.PayloadID), n)})
		}
	}
	out.Flush()
	go s.Close()
	return map[string]interface{}{"count": cnt, "infra": []string{}}
}
