package main

import (
	"fmt"
	"net/netip"
	"reflect"
	"sort"
	"strconv"
	"strings"
	"sync/atomic"
	"time"
	"unsafe"
)

// ---- hang detection: the operation in flight ----------------------------------------------------

var (
	opName  atomic.Value // string: what is being called right now
	opStart atomic.Int64 // unix nanoseconds, 0 = idle
	opVec   atomic.Int64 // id of the vector being processed
)

func begin(op string) {
	opName.Store(op)
	opStart.Store(time.Now().UnixNano())
}
func end() { opStart.Store(0) }

// ---- where a returned slice lies --------------------------------------------------------------

// region describes the buffer a view lives in: the view is [vs, ve), the slice handed to the code
// under test is [b0, bl), its backing array reaches to bc (spare capacity, poisoned).
type region struct {
	vs, ve, b0, bl, bc uintptr
}

func regionOf(buf []byte, view []byte) region {
	var r region
	r.b0 = dataPtr(buf)
	r.bl = r.b0 + uintptr(len(buf))
	r.bc = r.b0 + uintptr(cap(buf))
	r.vs = dataPtr(view)
	r.ve = r.vs + uintptr(len(view))
	return r
}

// sliceText renders a byte slice returned by the code under test relative to the view:
// "[lo:hi)" inside the view, "[]" empty, "OUTSIDE[lo:hi)" when it touches the backing array but
// leaves the view (C01: stays inside the view), "copy:<hex>" when it does not alias the buffer.
func (r region) sliceText(p unsafe.Pointer, n int) (string, bool) {
	if n == 0 {
		return "[]", true
	}
	s := uintptr(p)
	e := s + uintptr(n)
	if s >= r.vs && e <= r.ve {
		return rangeText(int(s-r.vs), int(e-r.vs)), true
	}
	if e > r.b0 && s < r.bc { // overlaps the backing array but not contained in the view
		return "OUTSIDE[" + strconv.FormatInt(int64(s)-int64(r.vs), 10) + ":" + strconv.FormatInt(int64(e)-int64(r.vs), 10) + ")", false
	}
	b := unsafe.Slice((*byte)(p), n)
	if n > 24 {
		return fmt.Sprintf("copy:%x..(%d)", b[:24], n), true
	}
	return fmt.Sprintf("copy:%x", b), true
}

var (
	addrType = reflect.TypeOf(netip.Addr{})
	errType  = reflect.TypeOf((*error)(nil)).Elem()
)

// canon renders one returned value; ok=false when a slice leaves the view.
func (r region) canon(v reflect.Value) (string, bool) {
	t := v.Type()
	switch {
	case t == addrType:
		return v.Interface().(netip.Addr).String(), true
	case t.Implements(errType):
		if v.IsNil() {
			return "nil", true
		}
		return "error", true
	}
	switch v.Kind() {
	case reflect.Bool:
		return strconv.FormatBool(v.Bool()), true
	case reflect.Int, reflect.Int8, reflect.Int16, reflect.Int32, reflect.Int64:
		return strconv.FormatInt(v.Int(), 10), true
	case reflect.Uint, reflect.Uint8, reflect.Uint16, reflect.Uint32, reflect.Uint64:
		return strconv.FormatUint(v.Uint(), 10), true
	case reflect.String:
		return "str", true // renderers: called for totality, value not compared
	case reflect.Slice:
		if t.Elem().Kind() == reflect.Uint8 {
			if v.Len() == 0 {
				return "[]", true
			}
			return r.sliceText(v.UnsafePointer(), v.Len())
		}
		ok := true
		parts := make([]string, 0, v.Len())
		for i := 0; i < v.Len(); i++ {
			s, o := r.canon(v.Index(i))
			parts = append(parts, s)
			ok = ok && o
		}
		return "<" + strings.Join(parts, ",") + ">", ok
	case reflect.Map:
		ok := true
		keys := v.MapKeys()
		parts := make([]string, 0, len(keys))
		for _, k := range keys {
			s, o := r.canon(v.MapIndex(k))
			parts = append(parts, fmt.Sprint(k.Interface())+"="+s)
			ok = ok && o
		}
		sort.Strings(parts)
		return "{" + strings.Join(parts, ",") + "}", ok
	case reflect.Struct:
		return fmt.Sprintf("%v", v.Interface()), true
	}
	return t.String(), true
}

// callResult is the observation of one getter call.
type callResult struct {
	val     string // canonical value, or "PANIC: ..." text
	panicky bool
	outside bool
}

func (r region) call(name string, m reflect.Value) (res callResult) {
	begin(name)
	defer end()
	defer func() {
		if e := recover(); e != nil {
			res = callResult{val: "PANIC: " + fmt.Sprint(e), panicky: true}
		}
	}()
	outs := m.Call(nil)
	parts := make([]string, 0, len(outs))
	ok := true
	for _, o := range outs {
		s, k := r.canon(o)
		parts = append(parts, s)
		ok = ok && k
	}
	return callResult{val: strings.Join(parts, " "), outside: !ok}
}

// viewObs is what was observed on one view: validity and every zero-argument getter.
type viewObs struct {
	valid   bool
	isvalid string // "" valid, else "invalid" or "PANIC: .."
	getters map[string]callResult
}

// observeView calls IsValid and, if it reports a valid view, every zero-argument getter
// (enumerated by reflection).  skip holds "View.Getter" names that hung before.
func observeView(name string, view []byte, buf []byte, skip map[string]bool) viewObs {
	t := viewTypes[name]
	v := reflect.ValueOf(view).Convert(t)
	r := regionOf(buf, view)
	o := viewObs{getters: map[string]callResult{}}
	func() {
		begin(name + ".IsValid")
		defer end()
		defer func() {
			if e := recover(); e != nil {
				o.isvalid = "PANIC: " + fmt.Sprint(e)
			}
		}()
		out := v.MethodByName("IsValid").Call(nil)[0]
		if out.Kind() == reflect.Bool {
			o.valid = out.Bool()
		} else {
			o.valid = out.IsNil()
		}
		if !o.valid {
			o.isvalid = "invalid"
		}
	}()
	if !o.valid {
		return o
	}
	for _, g := range zeroArgGetters(t) {
		if skip[name+"."+g] {
			o.getters[g] = callResult{val: "SKIPPED(hang)"}
			continue
		}
		o.getters[g] = r.call(name+"."+g, v.MethodByName(g))
	}
	return o
}

func (o viewObs) text() string {
	if !o.valid {
		return o.isvalid
	}
	keys := make([]string, 0, len(o.getters))
	for k := range o.getters {
		keys = append(keys, k)
	}
	sort.Strings(keys)
	var sb strings.Builder
	for _, k := range keys {
		v := o.getters[k].val
		sb.WriteString(k)
		sb.WriteByte('=')
		sb.WriteString(v)
		sb.WriteByte(';')
	}
	return sb.String()
}
