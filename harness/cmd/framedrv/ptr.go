//go:build go1.20

package main

import "unsafe"

// dataPtr is the address of the first element of the backing array as seen by the slice
// (unsafe.SliceData; the build constraint raises the language version of this file, the harness
// module itself declares go 1.18).
func dataPtr(b []byte) uintptr { return uintptr(unsafe.Pointer(unsafe.SliceData(b))) }
