package main

import (
	"reflect"
	"sort"

	"github.com/irai/packet"
)

// viewTypes is the registry of the exported view types of package packet (every exported
// []byte type with an IsValid method).  Reflection cannot enumerate the types of a package, so the
// list is explicit; checks/frame_common.py compares it with the `type X []byte` declarations of
// the repository's working tree, and the methods of each type ARE enumerated by reflection, so a
// getter that is added later is called (C01) and reported as "not in the field table" (C02).
var viewTypes = map[string]reflect.Type{
	"Ether":                      reflect.TypeOf(packet.Ether(nil)),
	"IP4":                        reflect.TypeOf(packet.IP4(nil)),
	"IP6":                        reflect.TypeOf(packet.IP6(nil)),
	"UDP":                        reflect.TypeOf(packet.UDP(nil)),
	"TCP":                        reflect.TypeOf(packet.TCP(nil)),
	"ARP":                        reflect.TypeOf(packet.ARP(nil)),
	"ICMP":                       reflect.TypeOf(packet.ICMP(nil)),
	"ICMPEcho":                   reflect.TypeOf(packet.ICMPEcho(nil)),
	"ICMP4Redirect":              reflect.TypeOf(packet.ICMP4Redirect(nil)),
	"ICMP6RouterSolicitation":    reflect.TypeOf(packet.ICMP6RouterSolicitation(nil)),
	"ICMP6RouterAdvertisement":   reflect.TypeOf(packet.ICMP6RouterAdvertisement(nil)),
	"ICMP6NeighborAdvertisement": reflect.TypeOf(packet.ICMP6NeighborAdvertisement(nil)),
	"ICMP6NeighborSolicitation":  reflect.TypeOf(packet.ICMP6NeighborSolicitation(nil)),
	"ICMP6Redirect":              reflect.TypeOf(packet.ICMP6Redirect(nil)),
	"DHCP4":                      reflect.TypeOf(packet.DHCP4(nil)),
	"DNS":                        reflect.TypeOf(packet.DNS(nil)),
	"LLC":                        reflect.TypeOf(packet.LLC(nil)),
	"SNAP":                       reflect.TypeOf(packet.SNAP(nil)),
	"RRCP":                       reflect.TypeOf(packet.RRCP(nil)),
	"LLDP":                       reflect.TypeOf(packet.LLDP(nil)),
	"IEEE1905":                   reflect.TypeOf(packet.IEEE1905(nil)),
	"EthernetPause":              reflect.TypeOf(packet.EthernetPause(nil)),
	"HopByHopExtensionHeader":    reflect.TypeOf(packet.HopByHopExtensionHeader(nil)),
	"Unknown880a":                reflect.TypeOf(packet.Unknown880a(nil)),
}

func viewNames() []string {
	out := make([]string, 0, len(viewTypes))
	for k := range viewTypes {
		out = append(out, k)
	}
	sort.Strings(out)
	return out
}

// zeroArgGetters lists the exported methods of a view type that take no argument and return at
// least one value, except IsValid (the guard itself).
func zeroArgGetters(t reflect.Type) []string {
	var out []string
	for i := 0; i < t.NumMethod(); i++ {
		m := t.Method(i)
		if m.Type.NumIn() != 1 || m.Type.NumOut() == 0 || m.Name == "IsValid" {
			continue
		}
		out = append(out, m.Name)
	}
	sort.Strings(out)
	return out
}
