// framedrv binds spec/Frame.tla to the real parser (properties C01, C02, C16).
//
// The vectors file holds one JSON line per abstract case enumerated by TLC (spec/FrameVec.tla):
// Parse shapes with the reference outcome, view shapes, field bit patterns, the field table,
// allocation cases.  Every case is turned into K byte strings (free bytes from VERIF_SEED), each
// placed in three buffers (cap==len, cap>len with two different poisons), and executed on the
// real code: Session.Parse, every Frame accessor, every zero-argument getter (by reflection) of
// every view whose IsValid()==nil.
//
//	framedrv -vectors v.ndjson -out r.ndjson -k 2 [-j 4]      master: runs killable worker processes
//	framedrv -worker -vectors v.ndjson -from a -to b ...       one worker (recover + hang watchdog)
//	framedrv -allocs -vectors v.ndjson -out r.ndjson           C16 allocation measurement
//	framedrv -list                                              view types and getters found by reflection
//
// Results: ndjson records (see worker.go) in -out, one JSON summary line on stdout.
package main

import (
	"bufio"
	"encoding/json"
	"errors"
	"flag"
	"fmt"
	"io"
	"os"
	"os/exec"
	"strconv"
	"strings"
	"sync"
	"syscall"
	"time"

	"verifharness/vh"
)

func loadVectors(path string) ([]*vector, *table, error) {
	f, err := os.Open(path)
	if err != nil {
		return nil, nil, err
	}
	defer f.Close()
	tab := &table{rows: map[string]*frow{}, byView: map[string][]*frow{}, base: map[string]*metaBase{}, uncomp: map[string]bool{}, derive: map[string]bool{}}
	var vecs []*vector
	sc := bufio.NewScanner(f)
	sc.Buffer(make([]byte, 1<<20), 1<<26)
	for sc.Scan() {
		v := &vector{}
		if err := json.Unmarshal(sc.Bytes(), v); err != nil {
			return nil, nil, fmt.Errorf("bad vector line: %v", err)
		}
		switch v.Fam {
		case "view":
			v.view = &vshape{}
			if err := json.Unmarshal(v.C, v.view); err != nil {
				return nil, nil, err
			}
		case "field":
			v.field = &fvec{}
			if err := json.Unmarshal(v.C, v.field); err != nil {
				return nil, nil, err
			}
		case "table":
			r := &frow{}
			if err := json.Unmarshal(v.C, r); err != nil {
				return nil, nil, err
			}
			tab.rows[r.V+"."+r.G] = r
			tab.byView[r.V] = append(tab.byView[r.V], r)
			continue
		case "meta":
			var m struct {
				Base       []*metaBase `json:"base"`
				Classify   [][]string  `json:"classifying"`
				Uncompared [][]string  `json:"uncompared"`
				Derived    [][]string  `json:"derived"`
			}
			if err := json.Unmarshal(v.C, &m); err != nil {
				return nil, nil, err
			}
			for _, b := range m.Base {
				tab.base[b.View] = b
			}
			for _, p := range m.Classify {
				tab.classify = append(tab.classify, [2]string{p[0], p[1]})
			}
			for _, p := range m.Uncompared {
				tab.uncomp[p[0]+"."+p[1]] = true
			}
			for _, p := range m.Derived {
				tab.derive[p[0]+"."+p[1]] = true
			}
			continue
		}
		vecs = append(vecs, v)
	}
	return vecs, tab, sc.Err()
}

func parseSkip(s string) map[int]map[string]bool {
	out := map[int]map[string]bool{}
	for _, p := range strings.Split(s, ",") {
		i := strings.IndexByte(p, ':')
		if i <= 0 {
			continue
		}
		id, err := strconv.Atoi(p[:i])
		if err != nil {
			continue
		}
		if out[id] == nil {
			out[id] = map[string]bool{}
		}
		out[id][p[i+1:]] = true
	}
	return out
}

type chunk struct{ from, to int }

// master state
type master struct {
	self     string
	vectors  string
	k        int
	deadline time.Duration
	cfg      int
	ids      string
	mu       sync.Mutex
	out      *bufio.Writer
	count    map[string]int
	hangs    int
	crashes  int
	infra    []string
}

func (m *master) write(line []byte) {
	m.mu.Lock()
	m.out.Write(line)
	m.out.WriteByte('\n')
	m.mu.Unlock()
}

// signalled reports a process that was ended by a signal (as opposed to an exit status of its own).
func signalled(err error) bool {
	var ee *exec.ExitError
	if errors.As(err, &ee) {
		if ws, ok := ee.Sys().(syscall.WaitStatus); ok {
			return ws.Signaled()
		}
	}
	return false
}

// runChunk executes the vectors [from, to) in worker processes.  A worker that reports a hang
// (exit 3) or is killed by the backstop timer is restarted at the same vector with the hanging
// operation skipped; a worker that dies otherwise is an infrastructure error unless the Go runtime
// reported a fatal error of the code under test.
func (m *master) runChunk(c chunk) {
	from := c.from
	var skips []string
	retries := map[int]int{}
	for from < c.to {
		args := []string{"-worker", "-vectors", m.vectors, "-from", strconv.Itoa(from), "-to", strconv.Itoa(c.to),
			"-k", strconv.Itoa(m.k), "-deadline", strconv.Itoa(int(m.deadline / time.Millisecond)), "-skip", strings.Join(skips, ","),
			"-cfg", strconv.Itoa(m.cfg), "-ids", m.ids}
		cmd := exec.Command(m.self, args...)
		cmd.Env = os.Environ()
		stdout, _ := cmd.StdoutPipe()
		var stderr strings.Builder
		cmd.Stderr = &stderr
		if err := cmd.Start(); err != nil {
			m.mu.Lock()
			m.infra = append(m.infra, "cannot start worker: "+err.Error())
			m.mu.Unlock()
			return
		}
		lines := make(chan []byte, 1024)
		go func() {
			rd := bufio.NewReaderSize(stdout, 1<<20)
			for {
				l, err := rd.ReadBytes('\n')
				if len(l) > 1 {
					lines <- append([]byte{}, l[:len(l)-1]...)
				}
				if err != nil {
					close(lines)
					return
				}
			}
		}()
		last, hangID, hangOp, killed, done := from, -1, "", false, false
		backstop := 4*m.deadline + 20*time.Second
		timer := time.NewTimer(backstop)
	loop:
		for {
			select {
			case l, ok := <-lines:
				if !ok {
					break loop
				}
				if !timer.Stop() {
					select {
					case <-timer.C:
					default:
					}
				}
				timer.Reset(backstop)
				var r rec
				if json.Unmarshal(l, &r) != nil {
					continue
				}
				switch r.T {
				case "@":
					last = r.ID
				case "hang":
					hangID, hangOp = r.ID, r.Op
					m.write(l)
				case "sum":
					m.mu.Lock()
					for k, v := range r.Count {
						m.count[k] += v
					}
					m.mu.Unlock()
				case "end":
					done = true
				default:
					m.write(l)
				}
			case <-timer.C:
				if !killed {
					// ask the Go runtime for a goroutine dump (SIGQUIT), then make sure it is gone
					cmd.Process.Signal(syscall.SIGQUIT)
					time.AfterFunc(3*time.Second, func() { cmd.Process.Signal(syscall.SIGKILL) })
					killed = true
				}
			}
		}
		timer.Stop()
		err := cmd.Wait()
		if done && err == nil {
			return
		}
		switch {
		case hangID >= 0:
			m.mu.Lock()
			m.hangs++
			m.mu.Unlock()
			retries[hangID]++
			skips = append(skips, strconv.Itoa(hangID)+":"+hangOp)
			from = hangID
			if retries[hangID] > 8 {
				from = hangID + 1
			}
		case killed && retries[-1-last] == 0:
			// no output for the whole backstop period and no hang report: retry the vector once
			// (a stalled machine must not cost a verdict); only a second stall is recorded
			retries[-1-last]++
			from = last
		case killed:
			dump := stderr.String()
			if i := strings.Index(dump, "goroutine 1 ["); i >= 0 {
				dump = dump[i:]
			}
			if len(dump) > 1500 {
				dump = dump[:1500]
			}
			b, _ := json.Marshal(rec{T: "hang", ID: last, Op: "unknown (worker killed by the backstop timer)", Got: dump})
			m.write(b)
			m.mu.Lock()
			m.hangs++
			m.mu.Unlock()
			from = last + 1
		case strings.Contains(stderr.String(), "fatal error:") || strings.Contains(stderr.String(), "goroutine stack exceeds"):
			txt := stderr.String()
			if len(txt) > 600 {
				txt = txt[:600]
			}
			b, _ := json.Marshal(rec{T: "mm", ID: last, Prop: "C01", What: "crash", View: "Parse", Got: txt})
			m.write(b)
			m.mu.Lock()
			m.crashes++
			m.mu.Unlock()
			from = last + 1
		case signalled(err) && retries[-1000000-last] < 2:
			// the worker was ended by a signal nobody in this process sent (an operator's pkill, the OOM killer):
			// an event of the machine, not of the code under test: run the rest of the chunk again from that vector
			retries[-1000000-last]++
			from = last
		default:
			txt := stderr.String()
			if len(txt) > 2000 {
				txt = txt[len(txt)-2000:]
			}
			m.mu.Lock()
			m.infra = append(m.infra, fmt.Sprintf("worker for [%d,%d) died at vector %d: %v\n%s", from, c.to, last, err, txt))
			m.mu.Unlock()
			return
		}
	}
}

func main() {
	list := flag.Bool("list", false, "print the view types and their zero-argument getters (JSON)")
	isWorker := flag.Bool("worker", false, "run as worker process")
	allocs := flag.Bool("allocs", false, "measure allocations of Parse for the alloc cases (C16)")
	vectors := flag.String("vectors", "", "vectors file (ndjson)")
	outp := flag.String("out", "", "result file (ndjson)")
	k := flag.Int("k", 2, "concrete byte strings per abstract case")
	j := flag.Int("j", 4, "parallel worker processes")
	from := flag.Int("from", 0, "first vector id (worker)")
	to := flag.Int("to", 1<<30, "end vector id, exclusive (worker)")
	chunkN := flag.Int("chunk", 400, "vectors per worker process")
	deadline := flag.Int("deadline", 3000, "milliseconds one call may take before it is a hang")
	skip := flag.String("skip", "", "id:operation pairs to skip (operations that hung before)")
	idsFlag := flag.String("ids", "", "comma separated vector ids: run only these (reproduction, replay)")
	cfgFlag := flag.Int("cfg", -1, "NIC configuration index (default: VERIF_SEED modulo the number of configurations)")
	flag.Parse()
	seed, _ := strconv.ParseInt(os.Getenv("VERIF_SEED"), 10, 64)
	if os.Getenv("VERIF_SEED") == "" {
		seed = 1
	}
	if *list {
		out := map[string][]string{}
		for _, n := range viewNames() {
			out[n] = zeroArgGetters(viewTypes[n])
		}
		b, _ := json.Marshal(out)
		fmt.Println(string(b))
		return
	}
	vh.Quiet()
	realStdout := os.Stdout
	if null, err := os.OpenFile(os.DevNull, os.O_WRONLY, 0); err == nil {
		os.Stdout = null // the library prints with fmt.Printf
	}
	vecs, tab, err := loadVectors(*vectors)
	if err != nil {
		fmt.Fprintln(os.Stderr, "vectors:", err)
		os.Exit(2)
	}
	if *cfgFlag < 0 {
		*cfgFlag = int(seed % 3)
		if *cfgFlag < 0 {
			*cfgFlag = 0
		}
	}
	var ids map[int]bool
	if *idsFlag != "" {
		ids = map[int]bool{}
		for _, p := range strings.Split(*idsFlag, ",") {
			if n, err := strconv.Atoi(p); err == nil {
				ids[n] = true
			}
		}
	}
	if *isWorker {
		os.Exit(runWorker(vecs, tab, *from, *to, *k, seed, *cfgFlag, ids, parseSkip(*skip), time.Duration(*deadline)*time.Millisecond, realStdout))
	}
	of, err := os.Create(*outp)
	if err != nil {
		fmt.Fprintln(os.Stderr, err)
		os.Exit(2)
	}
	bw := bufio.NewWriterSize(of, 1<<20)
	if *allocs {
		res := runAllocs(vecs, tab, seed, *cfgFlag, ids, bw)
		bw.Flush()
		of.Close()
		b, _ := json.Marshal(res)
		fmt.Fprintln(realStdout, string(b))
		return
	}
	self, _ := os.Executable()
	m := &master{self: self, vectors: *vectors, k: *k, deadline: time.Duration(*deadline) * time.Millisecond, cfg: *cfgFlag, ids: *idsFlag, out: bw, count: map[string]int{}}
	maxID := -1
	for _, v := range vecs {
		if v.ID > maxID {
			maxID = v.ID
		}
	}
	var chunks []chunk
	lo, hi := 0, maxID+1
	if ids != nil {
		*chunkN = hi + 1 // a handful of vectors: one worker
	}
	for a := lo; a < hi; a += *chunkN {
		b := a + *chunkN
		if b > hi {
			b = hi
		}
		chunks = append(chunks, chunk{a, b})
	}
	ch := make(chan chunk)
	var wg sync.WaitGroup
	for i := 0; i < *j; i++ {
		wg.Add(1)
		go func() {
			defer wg.Done()
			for c := range ch {
				m.runChunk(c)
			}
		}()
	}
	for _, c := range chunks {
		ch <- c
	}
	close(ch)
	wg.Wait()
	bw.Flush()
	of.Close()
	res := map[string]interface{}{"count": m.count, "hangs": m.hangs, "crashes": m.crashes, "infra": m.infra, "vectors": len(vecs), "k": *k}
	b, _ := json.Marshal(res)
	fmt.Fprintln(realStdout, string(b))
	if len(m.infra) > 0 {
		os.Exit(2)
	}
}

var _ = io.Discard
