package main

import (
	"bufio"
	"encoding/hex"
	"encoding/json"
	"fmt"
	"math/rand"
	"net"
	"net/netip"
	"os"
	"reflect"
	"regexp"
	"sort"
	"strconv"
	"strings"
	"sync"
	"time"
	"unsafe"

	"github.com/irai/packet"
	"github.com/irai/packet/fastlog"
	"verifharness/vh"
)

// rec is one line written by a worker.
//
//	t = "@"      progress: vector id about to be processed
//	t = "mm"     the real code contradicts a property-level predicate (prop, what, view, g, exp, got)
//	t = "drift"  the real code departs from the mechanism-level model / a detail no property constrains
//	t = "hang"   an operation did not return within the deadline (written by the watchdog, then exit 3)
//	t = "sample" one concrete case written out
//	t = "sum"    counters
type rec struct {
	T     string         `json:"t"`
	ID    int            `json:"id"`
	K     int            `json:"k"`
	Prop  string         `json:"prop,omitempty"`
	What  string         `json:"what,omitempty"`
	View  string         `json:"view,omitempty"`
	G     string         `json:"g,omitempty"`
	Exp   string         `json:"exp,omitempty"`
	Got   string         `json:"got,omitempty"`
	Hex   string         `json:"hex,omitempty"`
	Op    string         `json:"op,omitempty"`
	Count map[string]int `json:"count,omitempty"`
}

type worker struct {
	seed        int64
	k           int
	tab         *table
	u           *vh.Universe
	s           *packet.Session
	out         *bufio.Writer
	mu          sync.Mutex
	cnt         map[string]int
	hexed       map[string]int
	seen        map[string]int
	skip        map[int]map[string]bool
	curK        int
	frameT      reflect.Type
	extra       map[string]*packet.Session // sessions over the special NIC configurations (nil: NewSession refused it)
	curCfg      string                     // description of the environment of the current vector ("" = default)
	state       string                     // session state class to establish before every concrete case
	skey        string                     // key of the current environment session
	primed      map[string]int
	probeN      int
	lastSession *packet.Session // the session the frames of the current vector went through
	nt          int             // what the current vector exercised: 1 real code executed, 2 value compared (C02), 4 alias checked (C16)
}

func (w *worker) emit(r rec) {
	b, _ := json.Marshal(r)
	w.mu.Lock()
	w.out.Write(b)
	w.out.WriteByte('\n')
	if r.T != "mm" && r.T != "drift" && r.T != "v" {
		w.out.Flush()
	}
	w.mu.Unlock()
}

// classOf: the class of the abstract case a contradiction is attributed to: the named deviation of
// the specification for Parse shapes that have one, else the path / family.
func classOf(v *vector) string {
	if v.Fam == "parse" || v.Fam == "alloc" {
		if v.Dev != "" && v.Dev != "none" {
			return v.Dev
		}
		if v.S != nil {
			return v.S.Path
		}
	}
	return v.Fam
}

var fastlogOverflow = regexp.MustCompile(`\[2048\]|length 2048|capacity 2048|\[:-\d+\]`)

// mm reports a contradiction.  The first records of every kind are written out (the input bytes are
// attached to the first three); beyond that only a counter "x<TAB>prop<TAB>what<TAB>view<TAB>getter<TAB>class<TAB>variant"
// is kept, from which the check rebuilds the key.
func (w *worker) mm(v *vector, prop, what, view, g, exp, got string, input []byte) {
	variant := ""
	if what == "err" {
		variant = exp
	}
	if what == "getter-panic" && g == "String" && fastlogOverflow.MatchString(got) {
		variant = "fastlog"
	}
	ck := strings.Join([]string{prop, what, view, g, classOf(v), variant}, "\t")
	w.cnt["mm_"+prop]++
	w.seen[ck]++
	if w.seen[ck] > 25 {
		w.cnt["x\t"+ck]++
		return
	}
	if w.curCfg != "" {
		got += " [" + w.curCfg + "]"
	}
	r := rec{T: "mm", ID: v.ID, K: w.curK, Prop: prop, What: what, View: view, G: g, Exp: exp, Got: got}
	if w.hexed[ck] < 3 {
		w.hexed[ck]++
		r.Hex = hex.EncodeToString(input)
	}
	w.emit(r)
}

func (w *worker) drift(v *vector, what, view, exp, got string) {
	w.cnt["drift_"+what]++
	w.emit(rec{T: "drift", ID: v.ID, K: w.curK, What: what, View: view, Exp: exp, Got: got})
}

// watchdog: if one call into the code under test does not return, report it and leave; the parent
// restarts after the hanging operation (and SIGKILLs us if even this does not happen).
func (w *worker) watchdog(deadline time.Duration) {
	for {
		time.Sleep(50 * time.Millisecond)
		st := opStart.Load()
		if st != 0 && time.Since(time.Unix(0, st)) > deadline {
			op, _ := opName.Load().(string)
			b, _ := json.Marshal(rec{T: "hang", ID: int(opVec.Load()), K: w.curK, Op: op})
			// do not take w.mu for long: the main goroutine may hold it only while writing
			w.mu.Lock()
			w.out.Write(b)
			w.out.WriteByte('\n')
			w.out.Flush()
			os.Exit(3)
		}
	}
}

// ---- three buffers ------------------------------------------------------------------------------

type tbuf struct {
	b      []byte // the slice handed to the code under test
	poison func(i int) byte
}

func threeBuffers(data []byte, rng *rand.Rand) [3]tbuf {
	n := len(data)
	var out [3]tbuf
	a := make([]byte, n)
	copy(a, data)
	if n == 0 && rng.Intn(2) == 0 {
		a = nil
	}
	out[0] = tbuf{b: a}
	p1 := func(i int) byte { return 0xa5 }
	p2 := func(i int) byte { return byte(0x3c ^ i*7) }
	for j, p := range []func(int) byte{p1, p2} {
		full := make([]byte, n+48+rng.Intn(80)+j*1600)
		copy(full, data)
		for i := n; i < len(full); i++ {
			full[i] = p(i)
		}
		out[j+1] = tbuf{b: full[:n], poison: p}
	}
	return out
}

func (t tbuf) tailIntact() bool {
	if t.poison == nil {
		return true
	}
	full := t.b[:cap(t.b)]
	for i := len(t.b); i < len(full); i++ {
		if full[i] != t.poison(i) {
			return false
		}
	}
	return true
}

// ---- Parse vectors ------------------------------------------------------------------------------

var frameSlices = []string{"Ether", "IP4", "IP6", "UDP", "TCP", "Payload"}

// viewsByPayload: the view types a caller would lay over Frame.Payload() for a PayloadID.
var viewsByPayload = map[int][]string{
	2: {"LLC", "SNAP"}, 3: {"ARP"}, 6: {"ICMP", "ICMPEcho"}, 7: {"ICMP", "ICMPEcho"}, 10: {"DHCP4"},
	12: {"DNS"}, 13: {"DNS"}, 21: {"DNS"}, 23: {"EthernetPause"}, 24: {"RRCP"}, 25: {"LLDP"},
	27: {"IEEE1905"}, 29: {"Unknown880a"},
}

type parseObs struct {
	panicText string
	err       bool
	id        int
	host      bool
	addr      map[string]string     // SrcMAC DstMAC SrcIP DstIP SrcPort DstPort HasIP
	acc       map[string]callResult // Frame accessors (zero-argument methods, by reflection)
	bytes     map[string][]byte     // the slices returned by the six slice accessors
	views     map[string]viewObs    // observed views: Ether IP4 IP6 UDP TCP + payload views
	vbytes    map[string][]byte
	fr        packet.Frame
	srcMAC    []byte // Frame.SrcAddr.MAC / DstAddr.MAC as returned (C16: must alias p[6:12] / p[0:6])
	dstMAC    []byte
}

// doParse calls Session.Parse under recover (and under the hang marker).
func (w *worker) doParse(buf []byte) (fr packet.Frame, err error, panicText string) {
	begin("Parse")
	defer end()
	defer func() {
		if e := recover(); e != nil {
			panicText = fmt.Sprint(e)
		}
	}()
	fr, err = w.s.Parse(buf)
	return
}

func (w *worker) observeParse(v *vector, buf []byte) parseObs {
	fr, err, p := w.doParse(buf)
	return w.observeFrame(v, buf, fr, err, p, false)
}

// observeParseLight: outcome, addresses and Frame accessors only (no getters of the views).
func (w *worker) observeParseLight(v *vector, buf []byte) parseObs {
	fr, err, p := w.doParse(buf)
	return w.observeFrame(v, buf, fr, err, p, true)
}

// observeFrame turns the result of one Parse call into an observation.
func (w *worker) observeFrame(v *vector, buf []byte, fr packet.Frame, err error, panicText string, light bool) (o parseObs) {
	o.addr = map[string]string{}
	o.acc = map[string]callResult{}
	o.bytes = map[string][]byte{}
	o.views = map[string]viewObs{}
	o.vbytes = map[string][]byte{}
	o.panicText = panicText
	if o.panicText != "" {
		return o
	}
	o.err = err != nil
	if o.err {
		return o
	}
	o.id = int(fr.PayloadID)
	o.host = fr.Host != nil
	whole := regionOf(buf, buf)
	mac := func(m []byte) string {
		if len(m) == 0 {
			return "[]"
		}
		s, _ := whole.sliceText(unsafe.Pointer(&m[0]), len(m))
		return s
	}
	o.fr = fr
	o.srcMAC, o.dstMAC = fr.SrcAddr.MAC, fr.DstAddr.MAC
	o.addr["SrcMAC"] = mac(fr.SrcAddr.MAC)
	o.addr["DstMAC"] = mac(fr.DstAddr.MAC)
	o.addr["SrcIP"] = fr.SrcAddr.IP.String()
	o.addr["DstIP"] = fr.DstAddr.IP.String()
	o.addr["SrcPort"] = strconv.Itoa(int(fr.SrcAddr.Port))
	o.addr["DstPort"] = strconv.Itoa(int(fr.DstAddr.Port))
	// every exported zero-argument method of Frame, by reflection
	fv := reflect.ValueOf(fr)
	sk := w.skip[v.ID]
	for i := 0; i < w.frameT.NumMethod(); i++ {
		m := w.frameT.Method(i)
		if m.Type.NumIn() != 1 || m.Type.NumOut() == 0 {
			continue
		}
		if sk["Frame."+m.Name] {
			continue
		}
		o.acc[m.Name] = whole.call("Frame."+m.Name, fv.Method(i))
	}
	if light {
		return o
	}
	// the slices themselves (for the views and for C16)
	get := func(name string, f func() []byte) {
		defer func() { recover() }()
		if !o.acc[name].panicky {
			o.bytes[name] = f()
		}
	}
	get("Ether", func() []byte { return fr.Ether() })
	get("IP4", func() []byte { return fr.IP4() })
	get("IP6", func() []byte { return fr.IP6() })
	get("UDP", func() []byte { return fr.UDP() })
	get("TCP", func() []byte { return fr.TCP() })
	get("Payload", func() []byte { return fr.Payload() })
	for _, name := range []string{"Ether", "IP4", "IP6", "UDP", "TCP"} {
		if b := o.bytes[name]; b != nil {
			o.views[name] = observeView(name, b, buf, sk)
			o.vbytes[name] = b
		}
	}
	if p, ok := o.bytes["Payload"]; ok && p != nil {
		for _, name := range viewsByPayload[o.id] {
			o.views[name] = observeView(name, p, buf, sk)
			o.vbytes[name] = p
		}
	}
	return o
}

// components lists the observation as ordered (component, text) pairs for the comparison across buffers.
func (o parseObs) components(light bool) [][3]string {
	var out [][3]string
	add := func(view, g, val string) { out = append(out, [3]string{view, g, val}) }
	add("Parse", "panic", o.panicText)
	add("Parse", "err", strconv.FormatBool(o.err))
	add("Parse", "PayloadID", strconv.Itoa(o.id))
	for _, k := range sortedKeys(o.addr) {
		add("Parse", k, o.addr[k])
	}
	acc := make([]string, 0, len(o.acc))
	for k := range o.acc {
		acc = append(acc, k)
	}
	sort.Strings(acc)
	for _, k := range acc {
		add("Frame", k, o.acc[k].val)
	}
	if light {
		return out
	}
	vs := make([]string, 0, len(o.views))
	for k := range o.views {
		vs = append(vs, k)
	}
	sort.Strings(vs)
	for _, name := range vs {
		vo := o.views[name]
		add(name, "IsValid", vo.isvalid)
		gs := make([]string, 0, len(vo.getters))
		for g := range vo.getters {
			gs = append(gs, g)
		}
		sort.Strings(gs)
		for _, g := range gs {
			add(name, g, vo.getters[g].val)
		}
	}
	return out
}

func sortedKeys(m map[string]string) []string {
	out := make([]string, 0, len(m))
	for k := range m {
		out = append(out, k)
	}
	sort.Strings(out)
	return out
}

func firstDiff(a, b [][3]string) (view, g, x, y string, differ bool) {
	for i := 0; i < len(a) && i < len(b); i++ {
		if a[i] != b[i] {
			if a[i][0] == b[i][0] && a[i][1] == b[i][1] {
				return a[i][0], a[i][1], a[i][2], b[i][2], true
			}
			return a[i][0], a[i][1], a[i][2], b[i][0] + "." + b[i][1], true
		}
	}
	if len(a) != len(b) {
		return "Parse", "shape", strconv.Itoa(len(a)), strconv.Itoa(len(b)), true
	}
	return "", "", "", "", false
}

func offText(off, end int) string { return rangeText(off, end) }

func startOf(text string) int {
	if !strings.HasPrefix(text, "[") || text == "[]" {
		return -1
	}
	i := strings.IndexByte(text, ':')
	n, err := strconv.Atoi(text[1:i])
	if err != nil {
		return -1
	}
	return n
}

// checkViews compares every getter of every observed valid view with the field table (C02) and
// reports panics and escapes (C01).
func (w *worker) checkViews(v *vector, views map[string]viewObs, vbytes map[string][]byte, ranges []prange, input []byte) {
	names := make([]string, 0, len(views))
	for n := range views {
		names = append(names, n)
	}
	sort.Strings(names)
	for _, name := range names {
		vo := views[name]
		if strings.HasPrefix(vo.isvalid, "PANIC") {
			w.mm(v, "C01", "isvalid-panic", name, "IsValid", "", vo.isvalid, input)
			continue
		}
		if !vo.valid {
			continue
		}
		w.cnt["valid_views"]++
		w.nt |= 1
		w.cnt["valid_"+name]++
		gs := make([]string, 0, len(vo.getters))
		for g := range vo.getters {
			gs = append(gs, g)
		}
		sort.Strings(gs)
		for _, g := range gs {
			cr := vo.getters[g]
			w.cnt["getter_calls"]++
			if cr.panicky {
				w.mm(v, "C01", "getter-panic", name, g, "", cr.val, input)
			}
			if cr.outside {
				w.mm(v, "C01", "outside", name, g, "inside the view", cr.val, input)
			}
		}
		vb := vbytes[name]
		for _, r := range w.tab.byView[name] {
			cr, ok := vo.getters[r.G]
			if !ok {
				w.cnt["getter_missing"]++
				continue
			}
			if cr.panicky || strings.HasPrefix(cr.val, "SKIPPED") {
				continue
			}
			exp := w.tab.extract(r, vb)
			if exp == "" {
				continue
			}
			w.cnt["field_compared"]++
			w.nt |= 2
			if exp != cr.val {
				w.mm(v, "C02", "getter", name, r.G, exp, cr.val, input)
			}
		}
		for _, r := range ranges {
			if r.View != name {
				continue
			}
			cr, ok := vo.getters[r.G]
			if !ok || cr.panicky || strings.HasPrefix(cr.val, "SKIPPED") {
				continue
			}
			hi := r.Hi
			if hi < 0 {
				hi = len(vb)
			}
			w.cnt["range_compared"]++
			if exp := rangeText(r.Lo, hi); exp != cr.val {
				w.mm(v, "C02", "getter", name, r.G, exp, cr.val, input)
			}
		}
	}
}

// staleFrame: a complete well-formed frame of one family, as a previous packet in a reused receive buffer.
func (w *worker) staleFrame(family int, rng *rand.Rand) []byte {
	var s pshape
	switch family % 4 {
	case 0:
		s = pshape{Path: "ip4", Src: "client", Sip: "lan", Etype: 0x0800, Flen: 14 + 20 + 8 + 40, Ihl: 5, Tl: 68, Proto: 17, Sport: 40000, Dport: 53}
	case 1:
		s = pshape{Path: "ip6", Src: "client", Sip: "lla", Etype: 0x86dd, Flen: 14 + 40 + 8 + 30, Pl: 38, Proto: 17, Sport: 5353, Dport: 5353}
	case 2:
		s = pshape{Path: "arp", Src: "client", Sip: "lan", Etype: 0x0806, Flen: 60, Hlen: 6, Plen: 4}
	default:
		s = pshape{Path: "ip4", Src: "router", Sip: "routerip", Etype: 0x0800, Flen: 14 + 20 + 8 + 32, Ihl: 5, Tl: 60, Proto: 1, Itype: 0}
	}
	return buildFrame(&s, rng, w.u, true, "random")
}

// reusedBuffer places data at the start of a receive buffer that still holds the rest of a previously
// received, complete and well-formed frame (same offsets): the normal situation of a read loop that
// reuses its buffer.  The family of the stale frame follows the EtherType of data so that a header cut
// short by len is completed by stale header bytes beyond len.
func (w *worker) reusedBuffer(data []byte, s *pshape, k int, rng *rand.Rand) tbuf {
	fam := k
	switch s.Etype {
	case 0x0800:
		fam = 0
	case 0x86dd:
		fam = 1
	case 0x0806:
		fam = 2
	}
	stale := w.staleFrame(fam, rng)
	n := len(data) + 64
	if len(stale) > n {
		n = len(stale)
	}
	full := make([]byte, n)
	rng.Read(full)
	copy(full, stale)
	saved := make([]byte, n)
	copy(saved, full)
	copy(full, data)
	return tbuf{b: full[:len(data)], poison: func(i int) byte { return saved[i] }}
}

// checkOutcome (C02): error-ness, PayloadID, addresses, presence and start offset of the views and of
// the payload against ParseOutcome(shape).  `seen` suppresses the same report for the other buffers
// of one concrete case.  Returns false when nothing further can be compared.
func (w *worker) checkOutcome(v *vector, o *outcome, a parseObs, data []byte, how string, seen map[string]bool) bool {
	rep := func(what, view, g, exp, got string) {
		if !seen[what+view+g] {
			seen[what+view+g] = true
			w.mm(v, "C02", what, view, g, exp, got+how, data)
		}
	}
	w.cnt["outcomes_compared"]++
	w.nt |= 2
	if a.err != o.Err {
		rep("err", "Parse", "", strconv.FormatBool(o.Err), strconv.FormatBool(a.err))
	}
	if a.err || o.Err {
		return !a.err
	}
	if a.id != o.ID {
		rep("id", "Parse", "PayloadID", strconv.Itoa(o.ID), strconv.Itoa(a.id))
	}
	exp := w.expectedAddrs(o, data)
	for _, kk := range sortedKeys(exp) {
		if exp[kk] != a.addr[kk] {
			rep("addr", "Parse", kk, exp[kk], a.addr[kk])
		}
	}
	if hv := a.acc["HasIP"].val; hv != strconv.FormatBool(o.HasIP) {
		rep("addr", "Parse", "HasIP", strconv.FormatBool(o.HasIP), hv)
	}
	for _, p := range [][2]interface{}{{"IP4", o.IP4}, {"IP6", o.IP6}, {"UDP", o.UDP}, {"TCP", o.TCP}, {"Payload", o.Pay}} {
		name, off := p[0].(string), p[1].(int)
		got := a.acc[name].val
		if a.acc[name].panicky {
			continue
		}
		want := "[]"
		if off > 0 && off < len(data) {
			want = rangeText(off, len(data))
		}
		// property level: presence and start offset; the end (= end of frame) is mechanism level
		if (want == "[]") != (got == "[]") || (want != "[]" && startOf(got) != off) {
			rep("off", "Frame", name, want, got)
		} else if want != got && !seen["view-end"+name] {
			seen["view-end"+name] = true
			w.drift(v, "view-end", name, want, got)
		}
	}
	if a.host != o.Tracked && !seen["tracked"] && (w.state == "" || w.state == "none") {
		seen["tracked"] = true
		w.drift(v, "tracked", "Parse", strconv.FormatBool(o.Tracked), strconv.FormatBool(a.host))
	}
	return true
}

func (w *worker) runParse(v *vector) {
	s, o := v.S, v.O
	w.lastSession = w.s
	for k := 0; k < w.k; k++ {
		w.curK = k
		if w.skip[v.ID]["Parse"] {
			return
		}
		rng := caseRand(w.seed, k, s)
		data := buildFrame(s, rng, w.u, false, fills[k%len(fills)])
		seen := map[string]bool{}
		if w.state != "" && w.state != "none" {
			w.prime(data)
		}
		if s.App == "echo-waiter" {
			w.echoWaiter(v, s, o, data, seen)
		}
		three := threeBuffers(data, rng)
		// four buffers: cap==len, two poisoned tails, and a reused receive buffer with a stale frame behind len
		bufs := []tbuf{three[0], three[1], three[2], w.reusedBuffer(data, s, k, rng)}
		how := []string{"", " (cap>len, poison 1)", " (cap>len, poison 2)", " (reused receive buffer: a previous well-formed frame lies beyond len)"}
		obs := make([]parseObs, len(bufs))
		for i := range bufs {
			if i < 3 {
				obs[i] = w.observeParse(v, bufs[i].b)
			} else {
				obs[i] = w.observeParseLight(v, bufs[i].b)
			}
			w.cnt["parses"]++
			w.nt |= 1
		}
		w.cnt["cases"]++
		a := obs[0]
		// ---- C01: totality, independence from spare capacity, containment ----
		for i := 1; i < len(obs); i++ {
			light := i >= 3
			if view, g, x, y, d := firstDiff(a.components(light), obs[i].components(light)); d {
				w.mm(v, "C01", "cap", view, g, "cap==len: "+x, "cap>len: "+y+how[i], data)
				break
			}
		}
		for i := range bufs {
			if !bufs[i].tailIntact() {
				w.mm(v, "C01", "tail", "Parse", "", "spare capacity untouched", "modified", data)
			}
		}
		// ---- Parse is a function of the frame alone: the same bytes after prefixes derived from the case itself
		// (spec: PrefixTransforms) and after unrelated traffic must decode as the first time (C01 state, C02 outcome)
		if a.panicText == "" {
			prefixes := []struct {
				name   string
				frames [][]byte
			}{
				{"an unrelated frame", [][]byte{w.staleFrame(k+v.ID, rng)}},
				{"its reverse (addresses and ports swapped)", [][]byte{reverseFrame(data, s)}},
				{"the same 5-tuple with another payload", [][]byte{sameTuple(data, s, rng)}},
				{"the same ports between other addresses", [][]byte{otherAddresses(data, s, rng, w.u)}},
				{"its reverse, then ARP and ICMP traffic", [][]byte{reverseFrame(data, s), w.staleFrame(2, rng), w.staleFrame(3, rng)}},
			}
			for _, pf := range prefixes {
				bad := false
				// every prefix starts with unrelated UDP conversations of both families, so that whatever the session
				// remembers about "the last datagram / flow / source" is about someone else when the derived frame arrives
				for _, f := range append([][]byte{w.staleFrame(0, rng), w.staleFrame(1, rng)}, pf.frames...) {
					if _, _, p := w.doParse(f); p != "" {
						bad = true // the derived frame has its own vector class; a panic there is reported there
					}
					w.cnt["parses"]++
				}
				if bad {
					continue
				}
				again := w.observeParseLight(v, append([]byte{}, data...))
				w.cnt["parses"]++
				w.cnt["prefix_checks"]++
				if view, g, x, y, d := firstDiff(a.components(true), again.components(true)); d {
					w.mm(v, "C01", "state", view, g, "first parse: "+x, "same bytes after "+pf.name+": "+y, data)
				}
				if again.panicText == "" {
					w.checkOutcome(v, o, again, data, " (parsed again after "+pf.name+")", seen)
				}
			}
		}
		// report panics / escapes on the buffer that shows them (spare capacity can hide a panic)
		rep := a
		for i := range obs {
			if obs[i].panicText != "" {
				rep = obs[i]
				break
			}
		}
		if rep.panicText != "" {
			w.mm(v, "C01", "panic", "Parse", "", "returns", "PANIC: "+rep.panicText, data)
		} else if !a.err {
			for _, name := range sortedAcc(a.acc) {
				cr := a.acc[name]
				if cr.panicky {
					w.mm(v, "C01", "accessor-panic", "Frame", name, "", cr.val, data)
				}
				if cr.outside {
					w.mm(v, "C01", "outside", "Frame", name, "inside the frame", cr.val, data)
				}
				if strings.HasPrefix(cr.val, "copy:") { // "yields sub-slices of the input"
					w.mm(v, "C01", "not-subslice", "Frame", name, "a sub-slice of the input", cr.val, data)
				}
			}
		}
		// ---- mechanism-level conformance (drift only) ----
		if m := v.M; m != nil {
			conf := (m.Panic == (rep.panicText != "")) && (m.Panic || m.Err == a.err)
			if conf && !m.Panic && !m.Err && !(s.Path == "ip4" && s.Ihl < 5) {
				// (with IHL < 5 the layer-4 header overlaps the IPv4 header: its ports are not those of the shape)
				conf = m.ID == a.id && offsetsMatch(m, a)
			}
			if conf {
				w.cnt["mech_conformant"]++
			} else {
				w.drift(v, "mechanism", "Parse", fmt.Sprintf("%+v", *m), fmt.Sprintf("panic=%q err=%v id=%d", rep.panicText, a.err, a.id))
			}
		}
		// ---- C02: outcome in every buffer; getters of the views in the first ----
		for i := range obs {
			if obs[i].panicText != "" {
				// a panic is neither the error nor the decoded frame the reference demands
				if !seen["panic"] {
					seen["panic"] = true
					exp := "error"
					if !o.Err {
						exp = "PayloadID " + strconv.Itoa(o.ID)
					}
					w.mm(v, "C02", "panic", "Parse", "", exp, "PANIC: "+obs[i].panicText+how[i], data)
				}
				continue
			}
			accepted := w.checkOutcome(v, o, obs[i], data, how[i], seen)
			if i == 0 && accepted {
				// views and getters are checked whenever the real Parse accepted the frame
				w.checkViews(v, a.views, a.vbytes, v.Ranges, data)
			}
		}
		if rep.panicText != "" || a.err || o.Err {
			continue
		}
		// ---- C16: aliasing at the specification's offsets, writes visible both ways ----
		w.checkAlias(v, o, obs[1], bufs[1].b, data)
		w.checkRefetch(v, o, obs[1], bufs[1].b, data)
		if k == 0 && v.ID%500 == 0 {
			w.emit(rec{T: "sample", ID: v.ID, K: k, Hex: hex.EncodeToString(data), Got: fmt.Sprintf("err=%v id=%d %v", a.err, a.id, a.addr)})
		}
	}
}

// echoWaiter puts a ping in flight (Session.Ping in a goroutine registers a waiter in the
// process-wide table), writes the waiter's id into the echo message and parses it twice back to
// back: the first delivery happens WHILE the ping is pending, the second is a duplicate.  Neither
// may panic (C01) and both must decode exactly as the reference says (C02): the outcome of Parse
// must not depend on the process-global waiter table.  The frame then goes through the normal
// observation as well (waiter gone).
func (w *worker) echoWaiter(v *vector, s *pshape, o *outcome, data []byte, seen map[string]bool) {
	before := map[uint16]bool{}
	for _, id := range packet.VerifPingWaiterIDs() {
		before[id] = true
	}
	go w.s.Ping(packet.Addr{MAC: w.u.MAC("m1"), IP: w.u.IP("a1")}, 2*time.Second)
	id, found := uint16(0), false
	for i := 0; i < 2000 && !found; i++ {
		for _, x := range packet.VerifPingWaiterIDs() {
			if !before[x] {
				id, found = x, true
			}
		}
		if !found {
			time.Sleep(100 * time.Microsecond)
		}
	}
	if !found {
		w.cnt["echo_waiter_not_registered"]++
		return
	}
	off := 54
	if s.Path == "ip4" {
		off = 14 + 4*s.Ihl
	}
	if off+6 > len(data) {
		return
	}
	data[off+4], data[off+5] = byte(id>>8), byte(id)
	w.cnt["echo_waiter_cases"]++
	buf1 := append([]byte{}, data...)
	buf2 := append([]byte{}, data...)
	// two deliveries back to back (before the pinging goroutine gets to run), observed afterwards
	fr1, err1, p1 := w.doParse(buf1)
	fr2, err2, p2 := w.doParse(buf2)
	w.cnt["parses"] += 2
	for i, p := range []string{p1, p2} {
		if p != "" {
			w.mm(v, "C01", "panic", "Parse", "", "returns (echo message, delivery "+strconv.Itoa(i+1)+" while a ping waiter with its id is registered)", "PANIC: "+p, data)
		}
	}
	o1 := w.observeFrame(v, buf1, fr1, err1, p1, true)
	o2 := w.observeFrame(v, buf2, fr2, err2, p2, true)
	if p1 == "" {
		w.checkOutcome(v, o, o1, data, " (first delivery while the ping is pending)", seen)
	}
	if p2 == "" {
		w.checkOutcome(v, o, o2, data, " (second delivery of the same echo message)", seen)
	}
	if p1 == "" && p2 == "" { // C01: the result depends only on the bytes, not on the waiter table
		if view, g, x, y, d := firstDiff(o1.components(true), o2.components(true)); d {
			w.mm(v, "C01", "state", view, g, "while a ping with this id is pending: "+x, "same bytes delivered again: "+y, data)
		}
	}
}

func sortedAcc(m map[string]callResult) []string {
	out := make([]string, 0, len(m))
	for k := range m {
		out = append(out, k)
	}
	sort.Strings(out)
	return out
}

func offsetsMatch(m *outcome, a parseObs) bool {
	for _, p := range [][2]interface{}{{"IP4", m.IP4}, {"IP6", m.IP6}, {"UDP", m.UDP}, {"TCP", m.TCP}} {
		got := a.acc[p[0].(string)].val
		off := p[1].(int)
		if (off == 0) != (got == "[]") || (off != 0 && startOf(got) != off) {
			return false
		}
	}
	return true
}

// expectedAddrs: SrcAddr / DstAddr as the reference decoder computes them: the positions come from
// the field table (Ether.Src/Dst, IP4.Src/Dst, IP6.Src/Dst), the ports from the shape.
func (w *worker) expectedAddrs(o *outcome, data []byte) map[string]string {
	e := map[string]string{}
	e["SrcMAC"] = w.tab.extract(w.tab.row("Ether", "Src"), data)
	e["DstMAC"] = w.tab.extract(w.tab.row("Ether", "Dst"), data)
	e["SrcIP"], e["DstIP"] = "invalid IP", "invalid IP"
	if o.IP4 > 0 {
		e["SrcIP"] = w.tab.extract(w.tab.row("IP4", "Src"), data[o.IP4:])
		e["DstIP"] = w.tab.extract(w.tab.row("IP4", "Dst"), data[o.IP4:])
	}
	if o.IP6 > 0 {
		e["SrcIP"] = w.tab.extract(w.tab.row("IP6", "Src"), data[o.IP6:])
		e["DstIP"] = w.tab.extract(w.tab.row("IP6", "Dst"), data[o.IP6:])
	}
	e["SrcPort"], e["DstPort"] = strconv.Itoa(o.Sport), strconv.Itoa(o.Dport)
	return e
}

// checkAlias (C16): every view returned by Parse starts at &buf[offset of the specification], does
// not extend beyond the frame, and a write through the view is visible in the buffer and vice versa.
func (w *worker) checkAlias(v *vector, o *outcome, ob parseObs, buf []byte, data []byte) {
	if ob.panicText != "" || ob.err {
		return
	}
	want := map[string]int{"Ether": 0, "IP4": o.IP4, "IP6": o.IP6, "UDP": o.UDP, "TCP": o.TCP, "Payload": o.Pay, "SrcAddr.MAC": 6, "DstAddr.MAC": 0}
	base := dataPtr(buf)
	views := map[string][]byte{"SrcAddr.MAC": ob.srcMAC, "DstAddr.MAC": ob.dstMAC}
	for k, b := range ob.bytes {
		views[k] = b
	}
	for _, name := range append(append([]string{}, frameSlices...), "SrcAddr.MAC", "DstAddr.MAC") {
		b, ok := views[name]
		off := want[name]
		if !ok || (name != "Ether" && name != "DstAddr.MAC" && off == 0) {
			continue
		}
		if len(b) == 0 {
			continue // empty view at the end of the frame: nothing to alias
		}
		w.cnt["alias_checked"]++
		w.nt |= 4
		p := dataPtr(b)
		if p != base+uintptr(off) {
			w.mm(v, "C16", "alias", "Frame", name, "&buf["+strconv.Itoa(off)+"]", "&buf["+strconv.FormatInt(int64(p)-int64(base), 10)+"]", data)
			continue
		}
		if off+len(b) > len(buf) {
			w.mm(v, "C16", "beyond-frame", "Frame", name, "end <= "+strconv.Itoa(len(buf)), strconv.Itoa(off+len(b)), data)
			continue
		}
		// write through the view, read through the buffer
		old := buf[off]
		b[0] ^= 0xff
		if buf[off] != old^0xff {
			w.mm(v, "C16", "write-view", "Frame", name, "visible in buffer", "not visible", data)
		}
		b[0] ^= 0xff
		// write through the buffer, read through the view
		last := off + len(b) - 1
		old = b[len(b)-1]
		buf[last] ^= 0xff
		if b[len(b)-1] != old^0xff {
			w.mm(v, "C16", "write-buffer", "Frame", name, "visible in view", "not visible", data)
		}
		buf[last] ^= 0xff
	}
}

// refetch returns pointer and length of the six slice accessors of a Frame, fetched now.
func refetch(fr packet.Frame) (out map[string][2]uintptr, panicked string) {
	out = map[string][2]uintptr{}
	defer func() {
		if e := recover(); e != nil {
			panicked = fmt.Sprint(e)
		}
	}()
	put := func(name string, b []byte) { out[name] = [2]uintptr{dataPtr(b), uintptr(len(b))} }
	put("Ether", fr.Ether())
	put("IP4", fr.IP4())
	put("IP6", fr.IP6())
	put("UDP", fr.UDP())
	put("TCP", fr.TCP())
	put("Payload", fr.Payload())
	return out, ""
}

// checkRefetch (C16): the views alias the buffer at the offsets Parse DECODED.  Every header field Parse used
// for classification (spec: ClassifyingFields) is overwritten after the parse, alternately through the buffer and
// through the view that contains it; every accessor re-fetched from the same Frame must return the same pointer
// and length as before the write (only content may change).  The bytes are restored afterwards.
func (w *worker) checkRefetch(v *vector, o *outcome, ob parseObs, buf []byte, data []byte) {
	if ob.panicText != "" || ob.err {
		return
	}
	begin("Frame accessors re-fetched after a header write")
	defer end()
	before, p := refetch(ob.fr)
	if p != "" {
		return // reported by C01 already
	}
	viewOff := map[string]int{"Ether": 0, "IP4": o.IP4, "IP6": o.IP6, "UDP": o.UDP, "TCP": o.TCP}
	if o.ID == 3 {
		viewOff["ARP"] = o.Pay
	}
	if o.ID == 6 || o.ID == 7 {
		viewOff["ICMP"] = o.Pay
	}
	for n, cf := range w.tab.classify {
		base, ok := viewOff[cf[0]]
		r := w.tab.row(cf[0], cf[1])
		if !ok || r == nil || (cf[0] != "Ether" && base == 0) || base+r.Off+r.N > len(buf) {
			continue
		}
		target := buf[base+r.Off : base+r.Off+r.N]
		how := "through the buffer"
		if vb := ob.bytes[cf[0]]; n%2 == 1 && len(vb) >= r.Off+r.N {
			target, how = vb[r.Off:r.Off+r.N], "through the "+cf[0]+" view"
		}
		saved := append([]byte{}, target...)
		for _, pat := range []byte{0xff, 0x00, 0x5a} {
			for i := range target {
				target[i] = saved[i] ^ pat
				if pat == 0x00 {
					target[i] = 0
				}
			}
			after, p := refetch(ob.fr)
			w.cnt["refetch_checks"]++
			w.nt |= 4
			if p != "" {
				w.mm(v, "C16", "refetch-panic", "Frame", cf[0]+"."+cf[1], "accessors return the views Parse decoded", "PANIC: "+p+" after "+cf[0]+"."+cf[1]+" was overwritten "+how, data)
				break
			}
			for _, name := range frameSlices {
				if after[name] != before[name] {
					w.mm(v, "C16", "refetch", "Frame", name, fmt.Sprintf("the same view as before the write (offset %d, len %d)", int64(before[name][0])-int64(dataPtr(buf)), before[name][1]),
						fmt.Sprintf("offset %d, len %d after %s.%s was overwritten %s", int64(after[name][0])-int64(dataPtr(buf)), after[name][1], cf[0], cf[1], how), data)
				}
			}
		}
		copy(target, saved)
	}
}

// ---- view vectors -------------------------------------------------------------------------------

func (w *worker) runView(v *vector) {
	vs := v.view
	for k := 0; k < w.k; k++ {
		w.curK = k
		rng := caseRand(w.seed, k, vs)
		data := buildView(vs.View, vs.Len, vs.Set, vs.Raw, rng, w.tab)
		bufs := threeBuffers(data, rng)
		var obs [3]viewObs
		for i := range bufs {
			obs[i] = observeView(vs.View, bufs[i].b, bufs[i].b, w.skip[v.ID])
		}
		w.cnt["cases"]++
		w.cnt["view_cases"]++
		a := obs[0]
		for i := 1; i < 3; i++ {
			if obs[i].text() != a.text() {
				g := diffGetter(a, obs[i])
				w.mm(v, "C01", "cap", vs.View, g, "cap==len: "+valOf(a, g), "cap>len: "+valOf(obs[i], g), data)
				break
			}
		}
		for i := range bufs {
			if !bufs[i].tailIntact() {
				w.mm(v, "C01", "tail", vs.View, "", "spare capacity untouched", "modified", data)
			}
		}
		if vs.Wf && !a.valid {
			w.drift(v, "wellformed-rejected", vs.View, "IsValid()==nil", a.isvalid)
		}
		if a.valid && !vs.Wf {
			w.cnt["malformed_accepted"]++
		}
		var ranges []prange
		for _, r := range vs.Ranges {
			ranges = append(ranges, prange{View: vs.View, G: r.G, Lo: r.Lo, Hi: r.Hi})
		}
		for _, g := range vs.Absent {
			ranges = append(ranges, prange{View: vs.View, G: g, Lo: 0, Hi: 0})
		}
		w.checkViews(v, map[string]viewObs{vs.View: a}, map[string][]byte{vs.View: bufs[0].b}, ranges, data)
		if !a.valid {
			continue
		}
		for _, n := range vs.Nums {
			if cr, ok := a.getters[n.G]; ok && !cr.panicky {
				w.cnt["range_compared"]++
				if cr.val != strconv.Itoa(n.V) {
					w.mm(v, "C02", "getter", vs.View, n.G, strconv.Itoa(n.V), cr.val, data)
				}
			}
		}
		for _, l := range vs.Lists {
			if cr, ok := a.getters[l.G]; ok && !cr.panicky {
				parts := []string{}
				for _, it := range l.Items {
					parts = append(parts, rangeText(it.Lo, it.Hi))
				}
				exp := "<" + strings.Join(parts, ",") + ">"
				w.cnt["range_compared"]++
				if cr.val != exp {
					w.mm(v, "C02", "getter", vs.View, l.G, exp, cr.val, data)
				}
			}
		}
		for _, mp := range vs.Maps {
			if cr, ok := a.getters[mp.G]; ok && !cr.panicky {
				parts := []string{}
				for _, it := range mp.Items {
					parts = append(parts, strconv.Itoa(it.K)+"="+rangeText(it.Lo, it.Hi))
				}
				sort.Strings(parts)
				exp := "{" + strings.Join(parts, ",") + "}"
				w.cnt["range_compared"]++
				if cr.val != exp {
					w.mm(v, "C02", "getter", vs.View, mp.G, exp, cr.val, data)
				}
			}
		}
		if k == 0 && v.ID%400 == 0 {
			w.emit(rec{T: "sample", ID: v.ID, K: k, Hex: hex.EncodeToString(data), Got: "valid=" + strconv.FormatBool(a.valid)})
		}
	}
}

func diffGetter(a, b viewObs) string {
	if a.isvalid != b.isvalid {
		return "IsValid"
	}
	for g, x := range a.getters {
		if y, ok := b.getters[g]; !ok || y.val != x.val {
			return g
		}
	}
	return "?"
}

func valOf(o viewObs, g string) string {
	if g == "IsValid" {
		return o.isvalid
	}
	return o.getters[g].val
}

// ---- field vectors ------------------------------------------------------------------------------

func (w *worker) runField(v *vector) {
	f := v.field
	base := w.tab.base[f.View]
	if base == nil {
		w.cnt["field_nobase"]++
		return
	}
	kk := w.k
	if kk > 4 {
		kk = 4
	}
	for k := 0; k < kk; k++ {
		w.curK = k
		rng := caseRand(w.seed, k, f)
		data := buildView(f.View, base.Len, append([]setf{}, base.Set...), append([]rawf{}, base.Raw...), rng, w.tab)
		if f.Off+len(f.Bytes) > len(data) {
			continue
		}
		for i, x := range f.Bytes {
			data[f.Off+i] = byte(x)
		}
		buf := make([]byte, len(data), len(data)+32)
		copy(buf, data)
		t := viewTypes[f.View]
		val := reflect.ValueOf(buf).Convert(t)
		vo := observeViewOnly(f.View, val)
		w.cnt["cases"]++
		if !vo {
			w.cnt["field_invalid_base"]++
			continue
		}
		m := val.MethodByName(f.G)
		if !m.IsValid() {
			w.cnt["getter_missing"]++
			continue
		}
		cr := regionOf(buf, buf).call(f.View+"."+f.G, m)
		w.cnt["getter_calls"]++
		if cr.panicky {
			w.mm(v, "C01", "getter-panic", f.View, f.G, "", cr.val, data)
			continue
		}
		var exp string
		if f.K == "bool" {
			exp = strconv.FormatBool(be(f.Exp) == 1)
		} else {
			exp = strconv.FormatUint(be(f.Exp)*uint64(f.Mul)+uint64(f.Add), 10)
		}
		w.cnt["fieldvec_compared"]++
		w.nt |= 3
		if cr.val != exp {
			w.mm(v, "C02", "getter", f.View, f.G, exp, cr.val, data)
		}
	}
}

func observeViewOnly(name string, val reflect.Value) (valid bool) {
	begin(name + ".IsValid")
	defer end()
	defer func() {
		if recover() != nil {
			valid = false
		}
	}()
	out := val.MethodByName("IsValid").Call(nil)[0]
	if out.Kind() == reflect.Bool {
		return out.Bool()
	}
	return out.IsNil()
}

// ---- sessions over special NIC configurations (spec: SessionConfigs) ---------------------------

func nicFor(u *vh.Universe, cfg string) *packet.NICInfo {
	n := u.NICInfo()
	switch cfg {
	case "no-router-mac":
		n.RouterAddr4.MAC = nil
	case "no-host-mac":
		n.HostAddr4.MAC = nil
	case "no-host-lla":
		n.HostLLA = netip.Prefix{}
	case "router-ip-invalid":
		n.RouterAddr4.IP = netip.Addr{}
	case "lan-32":
		n.HomeLAN4 = netip.PrefixFrom(u.Cfg.HostIP, 32)
	case "lan-0":
		n.HomeLAN4 = netip.PrefixFrom(netip.IPv4Unspecified(), 0)
	}
	return n
}

// sessionFor returns the session of a configuration class, or nil when NewSession does not accept
// the configuration on this tree (error or panic): such a configuration cannot reach Parse.
func (w *worker) sessionFor(cfg, state string) *packet.Session {
	key := cfg + "/" + state
	if s, ok := w.extra[key]; ok {
		return s
	}
	var s *packet.Session
	reason := ""
	func() {
		defer func() {
			if e := recover(); e != nil {
				s, reason = nil, "NewSession panics: "+fmt.Sprint(e)
			}
		}()
		var err error
		s, err = packet.Config{Conn: vh.NewRecConn(), NICInfo: nicFor(w.u, cfg), ProbeDeadline: time.Minute,
			OfflineDeadline: 2 * time.Minute, PurgeDeadline: 4 * time.Minute}.NewSession("")
		if err != nil {
			s, reason = nil, "NewSession: "+err.Error()
		}
	}()
	if s == nil {
		w.cnt["cfg_excluded_"+cfg]++
		w.emit(rec{T: "drift", What: "config-excluded", View: cfg, Exp: "NewSession accepts the configuration", Got: reason})
	}
	w.extra[key] = s
	return s
}

// prime establishes the session state class of the current vector for the source of this frame
// through the exported API other subsystems use (spec: SessionStates).
func (w *worker) prime(data []byte) {
	if len(data) < 12 || data[6]&1 != 0 {
		return
	}
	defer func() {
		if e := recover(); e != nil {
			w.cnt["prime_panics"]++
		}
	}()
	mac := append(net.HardwareAddr{}, data[6:12]...)
	lease := w.u.IP("a" + strconv.Itoa(20+int(mac[5])%40))
	name := packet.NameEntry{Type: "dhcp", Name: "verif"}
	switch w.state {
	case "dhcp-ack":
		w.s.DHCPv4Update(mac, lease, name)
	case "dhcp-offer":
		w.s.SetDHCPv4IPOffer(mac, lease, name)
	case "captured":
		w.s.Capture(mac)
	case "captured-dhcp-ack":
		w.s.Capture(mac)
		w.s.DHCPv4Update(mac, lease, name)
	case "host-offline":
		w.doParse(append([]byte{}, data...))
		w.s.VerifPurge(time.Now().Add(3 * time.Minute)) // older than OfflineDeadline (2 m), younger than PurgeDeadline (4 m)
	case "many-macs":
		if w.primed[w.skey+"|many"] == 0 {
			w.primed[w.skey+"|many"] = 1
			for i := 0; i < 320; i++ {
				m := net.HardwareAddr{0x02, 0x00, 0x00, 0x07, byte(i >> 8), byte(i)}
				w.trackHost(m, i, 600+i)
			}
		}
	default:
		if strings.HasPrefix(w.state, "mac-hosts-") {
			n, _ := strconv.Atoi(w.state[len("mac-hosts-"):])
			key := w.skey + "|" + string(mac)
			for i := w.primed[key]; i < n; i++ {
				w.trackHost(mac, i, int(mac[5])*1000+i)
			}
			if w.primed[key] < n {
				w.primed[key] = n
			}
		}
	}
	w.cnt["primed_"+w.state]++
}

// trackHost makes the session track one more address of mac through Parse: the i-th address is an
// in-LAN IPv4 address for even i as long as the LAN has spare ones (a60, a61, ...: never an address the
// shapes use), else a link-local address built from uniq.
func (w *worker) trackHost(mac net.HardwareAddr, i, uniq int) {
	rng := rand.New(rand.NewSource(int64(uniq)))
	if i%2 == 0 && 60+i/2 < 190 {
		if ip := w.u.IP("a" + strconv.Itoa(60+i/2)); w.u.Cfg.HomeLAN.Contains(ip) && ip != w.u.Cfg.HostIP && ip != w.u.Cfg.RouterIP {
			f := w.staleFrame(0, rng)
			copy(f[6:12], mac)
			a := ip.As4()
			copy(f[26:30], a[:])
			w.doParse(f)
			return
		}
	}
	f := w.staleFrame(1, rng)
	copy(f[6:12], mac)
	copy(f[22:38], []byte{0xfe, 0x80, 0, 0, 0, 0, 0, 0, 0, 0, 0, 0x77, byte(uniq >> 16), byte(uniq >> 8), byte(uniq), mac[5]})
	w.doParse(f)
}

var fills = []string{"random", "zero", "ones", "random"}

const probeOp = "Parse(first frame of a never-seen source, after the frames of the case)"

// newSourceProbe: after the frames of a vector, every session used parses the first frame of a source it
// has never seen (host creation: the write path of the tables).  If a frame of the case left the session
// in a state that blocks it (a lock not released), this call does not return and the watchdog attributes
// the hang to the case.
func (w *worker) newSourceProbe(v *vector) {
	if w.skip[v.ID][probeOp] {
		return
	}
	w.probeN++
	f := w.staleFrame(1, rand.New(rand.NewSource(int64(w.probeN))))
	copy(f[6:12], []byte{0x02, 0x00, 0x00, 0x05, byte(w.probeN >> 8), byte(w.probeN)})
	copy(f[22:38], []byte{0xfe, 0x80, 0, 0, 0, 0, 0, 0, 0, 0, 0x99, byte(os.Getpid()), byte(w.probeN >> 16), byte(w.probeN >> 8), byte(w.probeN), 1})
	sessions := []*packet.Session{w.lastSession}
	for _, s := range sessions {
		if s == nil {
			continue
		}
		func() {
			begin(probeOp)
			defer end()
			defer func() {
				if e := recover(); e != nil {
					w.mm(v, "C01", "panic", "Parse", "", "returns (first frame of a never-seen source after the case)", "PANIC: "+fmt.Sprint(e), f)
				}
			}()
			fr, err := s.Parse(f)
			w.cnt["new_source_probes"]++
			if err != nil || fr.Host == nil {
				w.cnt["new_source_probe_untracked"]++
			}
		}()
	}
}

var logLevels = map[string]fastlog.LogLevel{"error": fastlog.LevelError, "info": fastlog.LevelInfo, "debug": fastlog.LevelDebug}

// ---- worker main --------------------------------------------------------------------------------

func runWorker(vecs []*vector, tab *table, from, to, k int, seed int64, cfg int, ids map[int]bool, skip map[int]map[string]bool, deadline time.Duration, out *os.File) int {
	w := &worker{seed: seed, k: k, tab: tab, out: bufio.NewWriterSize(out, 1<<16), cnt: map[string]int{}, hexed: map[string]int{}, seen: map[string]int{},
		skip: skip, frameT: reflect.TypeOf(packet.Frame{}), extra: map[string]*packet.Session{}, primed: map[string]int{}}
	w.u = &vh.Universe{Cfg: vh.Configs[cfg%len(vh.Configs)]}
	s, _, err := vh.NewSession(w.u, 1, 2, 4)
	if err != nil {
		fmt.Fprintln(os.Stderr, "session:", err)
		return 2
	}
	w.s = s
	go w.watchdog(deadline)
	done := 0
	for _, v := range vecs {
		if v.ID < from || v.ID >= to || (ids != nil && !ids[v.ID]) {
			continue
		}
		if done++; done%20 == 0 { // counters are sent as deltas so that a hang loses little
			w.emit(rec{T: "sum", Count: w.cnt})
			w.cnt = map[string]int{}
		}
		opVec.Store(int64(v.ID))
		w.nt = 0
		w.emit(rec{T: "@", ID: v.ID})
		switch v.Fam {
		case "parse":
			if (v.Cfg != "" && v.Cfg != "default") || (v.State != "" && v.State != "none") || (v.Log != "" && v.Log != "error") {
				// an environment case: special NIC configuration, primed session state, logger level
				cs := w.sessionFor(v.Cfg, v.State)
				if cs == nil {
					w.cnt["vectors_cfg_skipped"]++
					break
				}
				w.cnt["vectors_cfgparse"]++
				w.cnt["vectors_env_"+v.Cfg+"_"+v.State+"_"+v.Log]++
				base := w.s
				w.s, w.state, w.skey = cs, v.State, v.Cfg+"/"+v.State
				w.curCfg = "session configuration " + v.Cfg + ", session state " + v.State + ", logger level " + v.Log
				packet.Logger.SetLevel(logLevels[v.Log])
				w.runParse(v)
				packet.Logger.SetLevel(fastlog.LevelError)
				w.s, w.curCfg, w.state = base, "", ""
				break
			}
			w.cnt["vectors_parse"]++
			w.runParse(v)
		case "view":
			w.cnt["vectors_view"]++
			w.runView(v)
		case "field":
			w.cnt["vectors_field"]++
			w.runField(v)
		}
		if v.Fam == "parse" {
			w.newSourceProbe(v)
		}
		w.emit(rec{T: "v", ID: v.ID, K: w.nt})
	}
	w.emit(rec{T: "sum", Count: w.cnt})
	w.emit(rec{T: "end"})
	w.mu.Lock()
	w.out.Flush()
	w.mu.Unlock()
	return 0
}
