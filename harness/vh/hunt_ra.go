package vh

import (
	"encoding/binary"
	"net"
	"net/netip"
)

// Independent encoders for NDP messages and options (RFC 4861, 4191, 8106). Nothing here uses
// the library under test.

// NDPOpt builds one option: type, length in units of 8 octets, body (padded or cut to 8*units-2).
func NDPOpt(typ uint8, units int, body []byte) []byte {
	n := 8*units - 2
	if n < 0 {
		n = 0
	}
	b := make([]byte, 2+n)
	b[0], b[1] = typ, byte(units)
	copy(b[2:], body)
	return b
}

// OptLLA is a source (1) / target (2) link-layer address option body.
func OptLLA(typ uint8, mac net.HardwareAddr, units int) []byte { return NDPOpt(typ, units, mac) }

// OptMTU is an MTU option.
func OptMTU(mtu uint32, units int) []byte {
	body := make([]byte, 6)
	binary.BigEndian.PutUint32(body[2:6], mtu)
	return NDPOpt(5, units, body)
}

// OptPrefix is a prefix information option.
func OptPrefix(plen uint8, onlink, auto bool, valid, preferred uint32, prefix netip.Addr, units int) []byte {
	body := make([]byte, 30)
	body[0] = plen
	if onlink {
		body[1] |= 0x80
	}
	if auto {
		body[1] |= 0x40
	}
	binary.BigEndian.PutUint32(body[2:6], valid)
	binary.BigEndian.PutUint32(body[6:10], preferred)
	p := prefix.As16()
	copy(body[14:30], p[:])
	return NDPOpt(3, units, body)
}

// OptRDNSS is a recursive DNS server option; units <= 0 selects the RFC length 1+2n.
func OptRDNSS(lifetime uint32, servers []netip.Addr, units int) []byte {
	body := make([]byte, 6+16*len(servers))
	binary.BigEndian.PutUint32(body[2:6], lifetime)
	for i, s := range servers {
		a := s.As16()
		copy(body[6+16*i:], a[:])
	}
	if units <= 0 {
		units = 1 + 2*len(servers)
	}
	return NDPOpt(25, units, body)
}

// OptDNSSL is a DNS search list option; units <= 0 selects the minimal padded length.
func OptDNSSL(lifetime uint32, domains []string, units int) []byte {
	body := make([]byte, 6)
	binary.BigEndian.PutUint32(body[2:6], lifetime)
	for _, d := range domains {
		start := 0
		for i := 0; i <= len(d); i++ {
			if i == len(d) || d[i] == '.' {
				body = append(body, byte(i-start))
				body = append(body, d[start:i]...)
				start = i + 1
			}
		}
		body = append(body, 0)
	}
	if units <= 0 {
		units = (len(body) + 2 + 7) / 8
	}
	return NDPOpt(31, units, body)
}

// OptRoute is a route information option (RFC 4191); units in 1..3.
func OptRoute(plen uint8, prf uint8, lifetime uint32, prefix netip.Addr, units int) []byte {
	body := make([]byte, 6+16)
	body[0] = plen
	body[1] = (prf & 3) << 3
	binary.BigEndian.PutUint32(body[2:6], lifetime)
	p := prefix.As16()
	copy(body[6:], p[:])
	return NDPOpt(24, units, body)
}

// RAHeader holds the fixed part of a router advertisement.
type RAHeader struct {
	HopLimit  uint8
	Managed   bool
	Other     bool
	Prf       uint8 // 2 bit router preference
	Lifetime  uint16
	Reachable uint32
	Retrans   uint32
}

// FrameRA builds Ethernet/IPv6/ICMPv6 router advertisement with the given option bytes.
func FrameRA(smac net.HardwareAddr, src netip.Addr, h RAHeader, opts []byte) []byte {
	rest := make([]byte, 12+len(opts))
	rest[0] = h.HopLimit
	if h.Managed {
		rest[1] |= 0x80
	}
	if h.Other {
		rest[1] |= 0x40
	}
	rest[1] |= (h.Prf & 3) << 3
	binary.BigEndian.PutUint16(rest[2:4], h.Lifetime)
	binary.BigEndian.PutUint32(rest[4:8], h.Reachable)
	binary.BigEndian.PutUint32(rest[8:12], h.Retrans)
	copy(rest[12:], opts)
	return Ether(AllNodesM6, smac, 0x86dd, IP6(src, AllNodes6, 58, 255, ICMP6(src, AllNodes6, 134, 0, rest)))
}

// FrameNS builds a neighbour solicitation from src for target (sent to the all-nodes group for simplicity).
func FrameNS(smac net.HardwareAddr, src, target netip.Addr) []byte {
	rest := make([]byte, 4+16)
	t := target.As16()
	copy(rest[4:], t[:])
	rest = append(rest, OptLLA(1, smac, 1)...)
	return Ether(AllNodesM6, smac, 0x86dd, IP6(src, AllNodes6, 58, 255, ICMP6(src, AllNodes6, 135, 0, rest)))
}

// FrameNA builds an unsolicited neighbour advertisement of src for itself.
func FrameNA(smac net.HardwareAddr, src netip.Addr, override bool) []byte {
	rest := make([]byte, 4+16)
	if override {
		rest[0] |= 0x20
	}
	t := src.As16()
	copy(rest[4:], t[:])
	rest = append(rest, OptLLA(2, smac, 1)...)
	return Ether(AllNodesM6, smac, 0x86dd, IP6(src, AllNodes6, 58, 255, ICMP6(src, AllNodes6, 136, 0, rest)))
}

// FrameRS builds a router solicitation.
func FrameRS(smac net.HardwareAddr, src netip.Addr) []byte {
	rest := append(make([]byte, 4), OptLLA(1, smac, 1)...)
	return Ether(AllNodesM6, smac, 0x86dd, IP6(src, AllNodes6, 58, 255, ICMP6(src, AllNodes6, 133, 0, rest)))
}

// FrameEcho6 builds an ICMPv6 echo request.
func FrameEcho6(smac net.HardwareAddr, src netip.Addr) []byte {
	return Ether(AllNodesM6, smac, 0x86dd, IP6(src, AllNodes6, 58, 64, ICMP6(src, AllNodes6, 128, 0, Echo(7, 1, []byte("verif")))))
}
