package vh

// Family "wire" (C03 / C07): NIC configurations and the mapping between the abstract address
// names of spec/Wire.tla and concrete values.

import (
	"fmt"
	"math/rand"
	"net"
	"net/netip"
	"strings"
	"time"

	"github.com/irai/packet"
)

// WireNIC is one NIC configuration of spec/Wire.tla (constant NICs).
type WireNIC struct {
	Name      string
	HostMAC   net.HardwareAddr
	RouterMAC net.HardwareAddr
	HomeLAN   netip.Prefix
	HostIP    netip.Addr
	RouterIP  netip.Addr
	HostLLA   netip.Addr
	MTU       int
}

var WireNICs = map[string]WireNIC{
	"nicA": {Name: "nicA", HostMAC: net.HardwareAddr{0x02, 0x00, 0x00, 0x00, 0x00, 0x01}, RouterMAC: net.HardwareAddr{0x02, 0, 0, 0, 0, 0xfe},
		HomeLAN: netip.MustParsePrefix("192.168.0.0/24"), HostIP: netip.MustParseAddr("192.168.0.129"), RouterIP: netip.MustParseAddr("192.168.0.1"),
		HostLLA: netip.MustParseAddr("fe80::ff:1"), MTU: 1500},
	"nicB": {Name: "nicB", HostMAC: net.HardwareAddr{0x0e, 0x11, 0x22, 0x33, 0x44, 0x55}, RouterMAC: net.HardwareAddr{0x3c, 0x84, 0x6a, 0x10, 0x20, 0x30},
		HomeLAN: netip.MustParsePrefix("10.1.2.16/28"), HostIP: netip.MustParseAddr("10.1.2.17"), RouterIP: netip.MustParseAddr("10.1.2.30"),
		HostLLA: netip.MustParseAddr("fe80::c11:22ff:fe33:4455"), MTU: 1400},
	"nicC": {Name: "nicC", HostMAC: net.HardwareAddr{0xa4, 0x5e, 0x60, 0xff, 0x06, 0x04}, RouterMAC: net.HardwareAddr{0x00, 0x1c, 0x42, 0xaa, 0xbb, 0xcc},
		HomeLAN: netip.MustParsePrefix("172.20.0.0/16"), HostIP: netip.MustParseAddr("172.20.255.254"), RouterIP: netip.MustParseAddr("172.20.0.1"),
		HostLLA: netip.MustParseAddr("fe80::a65e:60ff:feff:604"), MTU: 9000},
}

func (n WireNIC) NICInfo() *packet.NICInfo {
	return &packet.NICInfo{
		IFI:         &net.Interface{Index: 7, MTU: n.MTU, Name: "verif0", HardwareAddr: append(net.HardwareAddr{}, n.HostMAC...)},
		HomeLAN4:    n.HomeLAN,
		HostAddr4:   packet.Addr{MAC: append(net.HardwareAddr{}, n.HostMAC...), IP: n.HostIP},
		RouterAddr4: packet.Addr{MAC: append(net.HardwareAddr{}, n.RouterMAC...), IP: n.RouterIP},
		HostLLA:     netip.PrefixFrom(n.HostLLA, 64),
	}
}

// NewWireSession builds a session over a recording connection for the NIC configuration.
func NewWireSession(n WireNIC) (*packet.Session, *WireConn, error) {
	conn := NewWireConn()
	s, err := packet.Config{Conn: conn, NICInfo: n.NICInfo(), ProbeDeadline: time.Minute, OfflineDeadline: 2 * time.Minute,
		PurgeDeadline: 4 * time.Minute}.NewSession("")
	if err != nil {
		return nil, nil, err
	}
	return s, conn, nil
}

// WireEnv maps abstract names (hostmac, mac1, lan4, lla1, sol:lla1, arg.id ...) to concrete values.
type WireEnv struct {
	NIC  WireNIC
	MACs map[string]net.HardwareAddr
	IPs  map[string]netip.Addr
	Args map[string]string // canonical text of scalar arguments (arg.*)
}

func randUnicastMAC(r *rand.Rand) net.HardwareAddr {
	m := make(net.HardwareAddr, 6)
	r.Read(m)
	m[0] = (m[0] | 0x02) &^ 0x01 // locally administered, unicast
	return m
}

// NewWireEnv draws the concrete values of one instance from the seeded generator.
func NewWireEnv(n WireNIC, r *rand.Rand) *WireEnv {
	e := &WireEnv{NIC: n, MACs: map[string]net.HardwareAddr{}, IPs: map[string]netip.Addr{}, Args: map[string]string{}}
	e.MACs["hostmac"], e.MACs["routermac"] = n.HostMAC, n.RouterMAC
	e.MACs["bcast"] = net.HardwareAddr{0xff, 0xff, 0xff, 0xff, 0xff, 0xff}
	e.MACs["zero"] = net.HardwareAddr{0, 0, 0, 0, 0, 0}
	for _, k := range []string{"mac1", "mac2"} {
		for {
			m := randUnicastMAC(r)
			if m.String() != n.HostMAC.String() && m.String() != n.RouterMAC.String() {
				e.MACs[k] = m
				break
			}
		}
	}
	for _, lit := range []string{"33:33:00:00:00:01", "33:33:00:00:00:02", "01:00:5e:00:00:01", "01:00:5e:00:00:fb", "01:00:5e:00:00:fc", "01:00:5e:7f:ff:fa", "ff:ff:ff:ff:06:04"} {
		m, _ := net.ParseMAC(lit)
		e.MACs[lit] = m
	}
	e.IPs["hostip4"], e.IPs["routerip4"], e.IPs["hostlla"] = n.HostIP, n.RouterIP, n.HostLLA
	e.IPs["zero4"], e.IPs["bcast4"] = netip.IPv4Unspecified(), netip.MustParseAddr("255.255.255.255")
	e.IPs["invalid"] = netip.Addr{}
	for _, lit := range []string{"224.0.0.1", "224.0.0.251", "224.0.0.252", "239.255.255.250", "ff02::1", "ff02::2"} {
		e.IPs[lit] = netip.MustParseAddr(lit)
	}
	// a unicast address of the home LAN that is neither host, router, network nor broadcast
	bits := 32 - n.HomeLAN.Bits()
	base := n.HomeLAN.Masked().Addr().As4()
	for {
		off := uint32(r.Intn(1<<bits-2) + 1)
		v := uint32(base[0])<<24 | uint32(base[1])<<16 | uint32(base[2])<<8 | uint32(base[3])
		v += off
		a := netip.AddrFrom4([4]byte{byte(v >> 24), byte(v >> 16), byte(v >> 8), byte(v)})
		if a != n.HostIP && a != n.RouterIP {
			e.IPs["lan4"] = a
			break
		}
	}
	var l, g [16]byte
	r.Read(l[8:])
	l[0], l[1] = 0xfe, 0x80
	r.Read(g[4:])
	g[0], g[1], g[2], g[3] = 0x20, 0x01, 0x0d, 0xb8
	e.IPs["lla1"], e.IPs["gua1"] = netip.AddrFrom16(l), netip.AddrFrom16(g)
	e.IPs["sol:lla1"] = netip.AddrFrom16([16]byte{0xff, 0x02, 0, 0, 0, 0, 0, 0, 0, 0, 0, 1, 0xff, l[13], l[14], l[15]})
	e.MACs["mc6:sol:lla1"] = net.HardwareAddr{0x33, 0x33, 0xff, l[13], l[14], l[15]}
	e.IPs["sol:gua1"] = netip.AddrFrom16([16]byte{0xff, 0x02, 0, 0, 0, 0, 0, 0, 0, 0, 0, 1, 0xff, g[13], g[14], g[15]})
	e.MACs["mc6:sol:gua1"] = net.HardwareAddr{0x33, 0x33, 0xff, g[13], g[14], g[15]}
	return e
}

// MAC returns the concrete MAC of an abstract name.
func (e *WireEnv) MAC(name string) net.HardwareAddr {
	if m, ok := e.MACs[name]; ok {
		return append(net.HardwareAddr{}, m...)
	}
	panic("wire env: unknown mac " + name)
}

// IP returns the concrete address of an abstract name.
func (e *WireEnv) IP(name string) netip.Addr {
	if a, ok := e.IPs[name]; ok {
		return a
	}
	panic("wire env: unknown ip " + name)
}

// Resolve turns a symbolic expectation value into the canonical text used by AbsFrame.Flatten.
func (e *WireEnv) Resolve(sym string) string {
	if m, ok := e.MACs[sym]; ok {
		return m.String()
	}
	if a, ok := e.IPs[sym]; ok {
		if !a.IsValid() {
			return "invalid IP"
		}
		return a.String()
	}
	if strings.HasPrefix(sym, "arg.") {
		if v, ok := e.Args[sym]; ok {
			return v
		}
		panic(fmt.Sprintf("wire env: argument %s not set", sym))
	}
	return sym
}
