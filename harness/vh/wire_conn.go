package vh

// WireConn is the recording connection of the wire family with write-failure injection: the next writes fail
// with the planned errors (temporary or permanent net.Error) and are NOT recorded -- only frames that reach
// the wire are.  spec/Wire.tla, constant WriteFailures.

import (
	"net"
	"sync"
	"time"
)

type WireConn struct {
	*RecConn
	mu     sync.Mutex
	plan   []error
	Failed int // writes refused so far
}

// WireNetError is a net.Error with a chosen Temporary() answer.
type WireNetError struct{ Temp bool }

func (e *WireNetError) Error() string {
	if e.Temp {
		return "verif: injected temporary write failure (EAGAIN)"
	}
	return "verif: injected permanent write failure"
}
func (e *WireNetError) Timeout() bool   { return false }
func (e *WireNetError) Temporary() bool { return e.Temp }

var _ net.Error = &WireNetError{}

func NewWireConn() *WireConn { return &WireConn{RecConn: NewRecConn()} }

// Plan sets the errors returned by the next writes, one per write; nil clears it.
func (c *WireConn) Plan(errs ...error) {
	c.mu.Lock()
	c.plan = append([]error{}, errs...)
	c.mu.Unlock()
}

// PlanFor translates a failure class of the specification: none | temp1 | perm1 | temp2.
func (c *WireConn) PlanFor(class string) {
	switch class {
	case "temp1":
		c.Plan(&WireNetError{Temp: true})
	case "perm1":
		c.Plan(&WireNetError{Temp: false})
	case "temp2":
		c.Plan(&WireNetError{Temp: true}, &WireNetError{Temp: true})
	default:
		c.Plan()
	}
}

// FailedWrites is the number of writes refused so far.
func (c *WireConn) FailedWrites() int {
	c.mu.Lock()
	defer c.mu.Unlock()
	return c.Failed
}

// Settle waits until n frames were written or, when write failures are armed, until a write was refused and a short
// grace period for a possible retry has passed.
func (c *WireConn) Settle(n int, d time.Duration, failuresArmed bool) {
	f0 := c.FailedWrites()
	deadline := time.Now().Add(d)
	for time.Now().Before(deadline) {
		if c.Len() >= n {
			return
		}
		if failuresArmed && c.FailedWrites() > f0 {
			time.Sleep(30 * time.Millisecond)
			return
		}
		time.Sleep(200 * time.Microsecond)
	}
}

func (c *WireConn) WriteTo(b []byte, addr net.Addr) (int, error) {
	c.mu.Lock()
	if len(c.plan) > 0 {
		err := c.plan[0]
		c.plan = c.plan[1:]
		c.Failed++
		c.mu.Unlock()
		return 0, err
	}
	c.mu.Unlock()
	return c.RecConn.WriteTo(b, addr)
}
