package vh

import (
	"encoding/binary"
	"errors"
	"net"
	"net/netip"
)

// Independent decoder for the DHCP frames written by the code under test (no code shared with the
// library): Ethernet II / IPv4 / UDP / BOOTP with the option sequence in wire order.

// DhcpMsg is one decoded BOOTP/DHCP message.
type DhcpMsg struct {
	EthSrc, EthDst net.HardwareAddr
	IPSrc, IPDst   netip.Addr
	SrcPort        uint16
	DstPort        uint16
	Op             uint8
	XID            []byte
	Flags          uint16
	CIAddr, YIAddr netip.Addr
	SIAddr, GIAddr netip.Addr
	CHAddr         net.HardwareAddr
	Opts           []DHCP4Opt // in wire order, pad/end excluded
	Type           uint8      // option 53 (0 when absent)
	UDPLenOK       bool
	IPLenOK        bool
	CookieOK       bool
	EndSeen        bool
}

var ErrNotDHCP = errors.New("not an IPv4/UDP DHCP frame")

// DecodeDHCPFrame decodes an Ethernet frame carrying DHCP. ErrNotDHCP for anything else.
func DecodeDHCPFrame(b []byte) (*DhcpMsg, error) {
	if len(b) < 14 || binary.BigEndian.Uint16(b[12:14]) != 0x0800 {
		return nil, ErrNotDHCP
	}
	m := &DhcpMsg{EthDst: net.HardwareAddr(append([]byte{}, b[0:6]...)), EthSrc: net.HardwareAddr(append([]byte{}, b[6:12]...))}
	ip := b[14:]
	if len(ip) < 20 || ip[0]>>4 != 4 {
		return nil, ErrNotDHCP
	}
	ihl := int(ip[0]&0x0f) * 4
	if ihl < 20 || len(ip) < ihl || ip[9] != 17 {
		return nil, ErrNotDHCP
	}
	tot := int(binary.BigEndian.Uint16(ip[2:4]))
	m.IPLenOK = tot == len(ip)
	m.IPSrc = netip.AddrFrom4([4]byte{ip[12], ip[13], ip[14], ip[15]})
	m.IPDst = netip.AddrFrom4([4]byte{ip[16], ip[17], ip[18], ip[19]})
	udp := ip[ihl:]
	if len(udp) < 8 {
		return nil, ErrNotDHCP
	}
	m.SrcPort = binary.BigEndian.Uint16(udp[0:2])
	m.DstPort = binary.BigEndian.Uint16(udp[2:4])
	if !((m.SrcPort == 67 || m.SrcPort == 68) && (m.DstPort == 67 || m.DstPort == 68)) {
		return nil, ErrNotDHCP
	}
	m.UDPLenOK = int(binary.BigEndian.Uint16(udp[4:6])) == len(udp)
	p := udp[8:]
	if len(p) < 240 {
		return nil, errors.New("short BOOTP message")
	}
	m.Op = p[0]
	m.XID = append([]byte{}, p[4:8]...)
	m.Flags = binary.BigEndian.Uint16(p[10:12])
	a4 := func(o int) netip.Addr { return netip.AddrFrom4([4]byte{p[o], p[o+1], p[o+2], p[o+3]}) }
	m.CIAddr, m.YIAddr, m.SIAddr, m.GIAddr = a4(12), a4(16), a4(20), a4(24)
	m.CHAddr = net.HardwareAddr(append([]byte{}, p[28:34]...))
	m.CookieOK = p[236] == 99 && p[237] == 130 && p[238] == 83 && p[239] == 99
	o := p[240:]
	for len(o) > 0 {
		c := o[0]
		if c == 255 {
			m.EndSeen = true
			break
		}
		if c == 0 {
			o = o[1:]
			continue
		}
		if len(o) < 2 || len(o) < 2+int(o[1]) {
			return m, errors.New("truncated option")
		}
		d := append([]byte{}, o[2:2+int(o[1])]...)
		m.Opts = append(m.Opts, DHCP4Opt{Code: c, Data: d})
		if c == 53 && len(d) == 1 {
			m.Type = d[0]
		}
		o = o[2+int(o[1]):]
	}
	return m, nil
}

// Opt returns the first option with that code and its position in the option sequence (-1 if absent).
func (m *DhcpMsg) Opt(code uint8) ([]byte, int) {
	for i, o := range m.Opts {
		if o.Code == code {
			return o.Data, i
		}
	}
	return nil, -1
}
