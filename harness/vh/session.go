package vh

import (
	"io"
	"os"
	"time"

	"github.com/irai/packet"
	"github.com/irai/packet/fastlog"
)

// T0 is the origin of virtual time. It lies far in the past so that stamps written by the
// library with time.Now() can be told apart from virtual stamps.
var T0 = time.Date(2001, 1, 1, 0, 0, 0, 0, time.UTC)

// Unit is one unit of virtual time.
const Unit = time.Minute

// Quiet silences the library's logging and stdout printing.
func Quiet() {
	fastlog.DefaultIOWriter = io.Discard
	packet.Logger.SetLevel(fastlog.LevelError)
	if os.Getenv("VERIF_STDOUT") == "" {
		if f, err := os.OpenFile(os.DevNull, os.O_WRONLY, 0); err == nil {
			_ = f // library prints with fmt.Printf in a few places; drivers redirect os.Stdout themselves
		}
	}
}

// NewSession builds a session over a recording connection with deadlines probe/offline/purge in Units.
func NewSession(u *Universe, probe, offline, purge int) (*packet.Session, *RecConn, error) {
	conn := NewRecConn()
	s, err := packet.Config{Conn: conn, NICInfo: u.NICInfo(),
		ProbeDeadline: time.Duration(probe) * Unit, OfflineDeadline: time.Duration(offline) * Unit,
		PurgeDeadline: time.Duration(purge) * Unit}.NewSession("")
	if err != nil {
		return nil, nil, err
	}
	return s, conn, nil
}

// VTime converts a virtual stamp to time.Time.
func VTime(v int) time.Time { return T0.Add(time.Duration(v) * Unit) }

// Never is the stamp reported for "far future" (our own host entry).
const Never = 100000

// Stamp converts a LastSeen value to a virtual stamp. Values written by the library with the
// real clock (recent) are reported as -1 so that the caller can patch them.
func Stamp(t time.Time) int {
	if t.After(time.Now().Add(24 * time.Hour)) {
		return Never
	}
	if t.After(T0.Add(time.Duration(Never) * Unit)) {
		return -1
	}
	return int(t.Sub(T0) / Unit)
}
