package vh

import (
	"encoding/binary"
	"net"
	"net/netip"
)

// Independent frame builders (no code shared with the library under test).

// Cksum is the RFC 1071 checksum, big-endian accumulation in 64 bits.
func Cksum(parts ...[]byte) uint16 {
	var sum uint64
	var odd bool
	var hold byte
	for _, b := range parts {
		for _, x := range b {
			if !odd {
				hold = x
				odd = true
			} else {
				sum += uint64(hold)<<8 | uint64(x)
				odd = false
			}
		}
	}
	if odd {
		sum += uint64(hold) << 8
	}
	for sum>>16 != 0 {
		sum = sum&0xffff + sum>>16
	}
	return ^uint16(sum)
}

func Ether(dst, src net.HardwareAddr, etype uint16, payload []byte) []byte {
	b := make([]byte, 14+len(payload))
	copy(b[0:6], dst)
	copy(b[6:12], src)
	binary.BigEndian.PutUint16(b[12:14], etype)
	copy(b[14:], payload)
	return b
}

func IP4(src, dst netip.Addr, proto uint8, ttl uint8, id uint16, payload []byte) []byte {
	b := make([]byte, 20+len(payload))
	b[0] = 0x45
	binary.BigEndian.PutUint16(b[2:4], uint16(20+len(payload)))
	binary.BigEndian.PutUint16(b[4:6], id)
	b[8] = ttl
	b[9] = proto
	s, d := src.As4(), dst.As4()
	copy(b[12:16], s[:])
	copy(b[16:20], d[:])
	binary.BigEndian.PutUint16(b[10:12], Cksum(b[:20]))
	copy(b[20:], payload)
	return b
}

func IP6(src, dst netip.Addr, next uint8, hop uint8, payload []byte) []byte {
	b := make([]byte, 40+len(payload))
	b[0] = 0x60
	binary.BigEndian.PutUint16(b[4:6], uint16(len(payload)))
	b[6] = next
	b[7] = hop
	s, d := src.As16(), dst.As16()
	copy(b[8:24], s[:])
	copy(b[24:40], d[:])
	copy(b[40:], payload)
	return b
}

func UDP(sport, dport uint16, payload []byte) []byte {
	b := make([]byte, 8+len(payload))
	binary.BigEndian.PutUint16(b[0:2], sport)
	binary.BigEndian.PutUint16(b[2:4], dport)
	binary.BigEndian.PutUint16(b[4:6], uint16(8+len(payload)))
	copy(b[8:], payload)
	return b
}

// ICMP4 builds an ICMPv4 message with a valid checksum.
func ICMP4(typ, code uint8, rest []byte) []byte {
	b := make([]byte, 4+len(rest))
	b[0], b[1] = typ, code
	copy(b[4:], rest)
	binary.BigEndian.PutUint16(b[2:4], Cksum(b))
	return b
}

// ICMP6 builds an ICMPv6 message with a valid pseudo-header checksum.
func ICMP6(src, dst netip.Addr, typ, code uint8, rest []byte) []byte {
	b := make([]byte, 4+len(rest))
	b[0], b[1] = typ, code
	copy(b[4:], rest)
	s, d := src.As16(), dst.As16()
	ph := make([]byte, 8)
	binary.BigEndian.PutUint32(ph[0:4], uint32(len(b)))
	ph[7] = 58
	binary.BigEndian.PutUint16(b[2:4], Cksum(s[:], d[:], ph, b))
	return b
}

// Echo is the rest-of-header and data of an echo request/reply.
func Echo(id, seq uint16, data []byte) []byte {
	b := make([]byte, 4+len(data))
	binary.BigEndian.PutUint16(b[0:2], id)
	binary.BigEndian.PutUint16(b[2:4], seq)
	copy(b[4:], data)
	return b
}

// ARP builds a 28 byte ARP payload.
func ARP(op uint16, sha net.HardwareAddr, spa netip.Addr, tha net.HardwareAddr, tpa netip.Addr) []byte {
	b := make([]byte, 28)
	binary.BigEndian.PutUint16(b[0:2], 1)
	binary.BigEndian.PutUint16(b[2:4], 0x0800)
	b[4], b[5] = 6, 4
	binary.BigEndian.PutUint16(b[6:8], op)
	copy(b[8:14], sha)
	s := spa.As4()
	copy(b[14:18], s[:])
	copy(b[18:24], tha)
	t := tpa.As4()
	copy(b[24:28], t[:])
	return b
}

var (
	Bcast      = net.HardwareAddr{0xff, 0xff, 0xff, 0xff, 0xff, 0xff}
	ZeroMAC    = net.HardwareAddr{0, 0, 0, 0, 0, 0}
	AllNodes6  = netip.MustParseAddr("ff02::1")
	AllNodesM6 = net.HardwareAddr{0x33, 0x33, 0, 0, 0, 1}
)

// DHCP4Opt is one option in wire order.
type DHCP4Opt struct {
	Code uint8
	Data []byte
}

// DHCP4 builds a BOOTP/DHCP message (op 1 request, 2 reply).
func DHCP4(op uint8, xid uint32, flags uint16, ciaddr, yiaddr, siaddr, giaddr netip.Addr, chaddr net.HardwareAddr, opts []DHCP4Opt) []byte {
	b := make([]byte, 240)
	b[0], b[1], b[2] = op, 1, 6
	binary.BigEndian.PutUint32(b[4:8], xid)
	binary.BigEndian.PutUint16(b[10:12], flags)
	put := func(off int, a netip.Addr) {
		if a.Is4() {
			x := a.As4()
			copy(b[off:off+4], x[:])
		}
	}
	put(12, ciaddr)
	put(16, yiaddr)
	put(20, siaddr)
	put(24, giaddr)
	copy(b[28:34], chaddr)
	copy(b[236:240], []byte{99, 130, 83, 99})
	for _, o := range opts {
		b = append(b, o.Code, byte(len(o.Data)))
		b = append(b, o.Data...)
	}
	b = append(b, 255)
	for len(b) < 300 {
		b = append(b, 0)
	}
	return b
}

// FrameIP4UDP is an Ethernet/IPv4/UDP frame.
func FrameIP4UDP(smac, dmac net.HardwareAddr, sip, dip netip.Addr, sport, dport uint16, payload []byte) []byte {
	return Ether(dmac, smac, 0x0800, IP4(sip, dip, 17, 64, 1, UDP(sport, dport, payload)))
}

// FrameIP6UDP is an Ethernet/IPv6/UDP frame.
func FrameIP6UDP(smac, dmac net.HardwareAddr, sip, dip netip.Addr, sport, dport uint16, payload []byte) []byte {
	return Ether(dmac, smac, 0x86dd, IP6(sip, dip, 17, 64, UDP(sport, dport, payload)))
}

// FrameARP is an Ethernet/ARP frame.
func FrameARP(ethSrc, ethDst net.HardwareAddr, op uint16, sha net.HardwareAddr, spa netip.Addr, tha net.HardwareAddr, tpa netip.Addr) []byte {
	return Ether(ethDst, ethSrc, 0x0806, ARP(op, sha, spa, tha, tpa))
}
