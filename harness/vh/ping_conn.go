package vh

import "net"

// HookConn is a RecConn whose WriteTo calls OnWrite (when set) with the frame just written, before
// WriteTo returns to the library: the ping driver (C19) uses it to hand a reply to Session.Parse while
// the caller of Ping is still inside its send function.
type HookConn struct {
	*RecConn
	OnWrite func(frame []byte)
	// Before, when set, runs first; it may block (a send that hangs in the kernel) and a non-nil error
	// makes WriteTo fail without recording the frame.
	Before func(frame []byte) error
}

func NewHookConn() *HookConn { return &HookConn{RecConn: NewRecConn()} }

func (c *HookConn) WriteTo(b []byte, addr net.Addr) (int, error) {
	if c.Before != nil {
		if err := c.Before(b); err != nil {
			return 0, err
		}
	}
	n, err := c.RecConn.WriteTo(b, addr)
	if err == nil && c.OnWrite != nil {
		cp := make([]byte, len(b))
		copy(cp, b)
		c.OnWrite(cp)
	}
	return n, err
}
