package vh

// Independent byte-level reference decoder of complete frames (family "wire", C03 / C07).
//
// Nothing here uses the library under test: offsets and rules are transcribed from the RFCs
// (894 Ethernet II, 826 ARP, 791 IPv4, 792 ICMP, 8200 IPv6, 4443 ICMPv6, 4861 NDP, 768 UDP,
// 2131/2132 DHCPv4, 1035 DNS, 1002 NBNS).  RefDecode either returns an abstract frame or fails:
// a frame is accepted only if it is complete and length-consistent at every layer, the IPv4 header
// checksum verifies and the ICMP / ICMPv6 (pseudo-header) checksum verifies.
//
// CheckWellFormed adds the call-independent predicates of C07 (Ethernet source = host NIC MAC,
// IPv6 multicast destination => 33:33:<low 32 bits>, link-local NDP => hop limit 255).

import (
	"bytes"
	"encoding/binary"
	"encoding/hex"
	"fmt"
	"net"
	"net/netip"
	"sort"
	"strconv"
	"strings"
)

// RefError is a decode or well-formedness failure; Key is a short machine readable reason.
type RefError struct {
	Key string
	Msg string
}

func (e *RefError) Error() string { return e.Key + ": " + e.Msg }

func refErr(key, format string, a ...interface{}) *RefError {
	return &RefError{Key: key, Msg: fmt.Sprintf(format, a...)}
}

type AbsARP struct {
	HType, PType uint16
	HLen, PLen   uint8
	Op           uint16
	SHA, THA     net.HardwareAddr
	SPA, TPA     netip.Addr
}

type AbsIP struct {
	Version  int
	Src, Dst netip.Addr
	Hop      uint8  // TTL or hop limit
	Proto    uint8  // protocol / next header
	ID       uint16 // IPv4 only
	TOS      uint8
	LenField int // IPv4 total length / IPv6 payload length as written in the header
	IHL      int
	FragOff  uint16
	Flags    uint8
}

// RefNDPOpt is one NDP option in wire order (Len in units of 8 bytes, Value without type/len).
type RefNDPOpt struct {
	Type  uint8
	Len   uint8
	Value []byte
}

type AbsICMP struct {
	V6       bool
	Type     uint8
	Code     uint8
	Checksum uint16
	ID, Seq  uint16 // echo
	Data     []byte // echo data
	Body     []byte // everything after the 4 byte ICMP header
	// NDP
	Target   netip.Addr // NS, NA
	R, S, O  bool       // NA flags
	CurHop   uint8      // RA
	RAFlags  uint8
	Lifetime uint16
	Reach    uint32
	Retrans  uint32
	Opts     []RefNDPOpt
}

type AbsUDP struct {
	Sport, Dport uint16
	Len          int
	Checksum     uint16
}

type DHCPOpt struct {
	Code uint8
	Data []byte
}

type AbsDHCP struct {
	Op, HType, HLen, Hops uint8
	XID                   []byte
	Secs, Flags           uint16
	CI, YI, SI, GI        netip.Addr
	CHAddr                net.HardwareAddr
	CHPad                 []byte // chaddr[6:16]
	SName, File           []byte
	Opts                  []DHCPOpt        // in wire order, without pad / end
	Concat                map[uint8][]byte // RFC 3396: the value of a code is the concatenation of all its instances
	End                   bool
	EndOff                int // offset of the End option inside the DHCP message
	Trailer               []byte
	Len                   int
	MsgType               int // -1 if absent
	Dups                  []uint8
	PadBeforeEnd          int
}

type AbsDNS struct {
	ID             uint16
	Flags          uint16
	QD, AN, NS, AR int
	QName          string // labels joined with '.', trailing dot; raw bytes escaped \xNN when not printable
	QNameRaw       []byte // wire form of the first question name
	QType, QClass  uint16
	Rest           int // bytes after the first question (or after the header when QD = 0)
}

// AbsFrame is the abstract frame the reference decoder yields.
type AbsFrame struct {
	Len       int
	EthDst    net.HardwareAddr
	EthSrc    net.HardwareAddr
	EtherType uint16
	Proto     string // arp | icmp4 | icmp6 | udp4 | udp6
	Kind      string // arpreq arpreply echoreq echoreply ns na rs ra icmp:<type> dhcp4 dns mdns llmnr nbns ssdp udp
	Pad       int    // bytes after the end of the network layer packet (Ethernet padding)
	ARP       *AbsARP
	IP        *AbsIP
	ICMP      *AbsICMP
	UDP       *AbsUDP
	DHCP      *AbsDHCP
	DNS       *AbsDNS
	Payload   []byte // innermost payload (UDP payload, echo data)
	Notes     []string
}

func be16(b []byte) uint16 { return binary.BigEndian.Uint16(b) }
func be32(b []byte) uint32 { return binary.BigEndian.Uint32(b) }

// RefDecode decodes a complete Ethernet II frame.
func RefDecode(b []byte) (*AbsFrame, error) {
	f := &AbsFrame{Len: len(b)}
	if len(b) < 14 {
		return nil, refErr("ether.short", "frame of %d bytes has no Ethernet header", len(b))
	}
	f.EthDst = append(net.HardwareAddr{}, b[0:6]...)
	f.EthSrc = append(net.HardwareAddr{}, b[6:12]...)
	f.EtherType = be16(b[12:14])
	p := b[14:]
	switch f.EtherType {
	case 0x0806:
		return f, refARP(f, p)
	case 0x0800:
		return f, refIP4(f, p)
	case 0x86dd:
		return f, refIP6(f, p)
	}
	return nil, refErr("ether.type", "EtherType %#04x is none of ARP, IPv4, IPv6", f.EtherType)
}

func refARP(f *AbsFrame, p []byte) error {
	f.Proto = "arp"
	if len(p) < 28 {
		return refErr("arp.short", "ARP payload of %d bytes, need 28", len(p))
	}
	a := &AbsARP{HType: be16(p[0:2]), PType: be16(p[2:4]), HLen: p[4], PLen: p[5], Op: be16(p[6:8])}
	f.ARP = a
	// the fields are read at their Ethernet/IPv4 positions first so that a caller can still look at
	// them when the header below is rejected
	a.SHA = append(net.HardwareAddr{}, p[8:14]...)
	a.SPA = netip.AddrFrom4([4]byte{p[14], p[15], p[16], p[17]})
	a.THA = append(net.HardwareAddr{}, p[18:24]...)
	a.TPA = netip.AddrFrom4([4]byte{p[24], p[25], p[26], p[27]})
	f.Pad = len(p) - 28
	switch a.Op {
	case 1:
		f.Kind = "arpreq"
	case 2:
		f.Kind = "arpreply"
	default:
		return refErr("arp.op", "operation %d", a.Op)
	}
	if a.HType != 1 || a.PType != 0x0800 {
		return refErr("arp.types", "htype=%d ptype=%#04x, want 1 / 0x0800", a.HType, a.PType)
	}
	if a.HLen != 6 || a.PLen != 4 {
		return refErr("arp.hlenplen", "hlen=%d plen=%d, want 6 / 4", a.HLen, a.PLen)
	}
	return nil
}

func refIP4(f *AbsFrame, p []byte) error {
	if len(p) < 20 {
		return refErr("ip4.short", "IPv4 header truncated (%d bytes)", len(p))
	}
	ip := &AbsIP{Version: int(p[0] >> 4), IHL: int(p[0]&0x0f) * 4, TOS: p[1], LenField: int(be16(p[2:4])), ID: be16(p[4:6]),
		Flags: p[6] >> 5, FragOff: be16(p[6:8]) & 0x1fff, Hop: p[8], Proto: p[9]}
	f.IP = ip
	if ip.Version != 4 {
		return refErr("ip4.version", "version %d under EtherType 0x0800", ip.Version)
	}
	if ip.IHL < 20 || ip.IHL > len(p) {
		return refErr("ip4.ihl", "IHL %d with %d bytes available", ip.IHL, len(p))
	}
	if ip.LenField < ip.IHL || ip.LenField > len(p) {
		return refErr("ip4.totallen", "total length %d, IHL %d, %d bytes available", ip.LenField, ip.IHL, len(p))
	}
	if c := Cksum(p[:ip.IHL]); c != 0 {
		return refErr("ip4.checksum", "IPv4 header checksum does not verify (residual %#04x, field %#04x)", c, be16(p[10:12]))
	}
	ip.Src = netip.AddrFrom4([4]byte{p[12], p[13], p[14], p[15]})
	ip.Dst = netip.AddrFrom4([4]byte{p[16], p[17], p[18], p[19]})
	f.Pad = len(p) - ip.LenField
	if ip.Dst.IsMulticast() && !bytes.Equal(f.EthDst, Mcast4MAC(ip.Dst)) {
		// RFC 1112 6.4; the statement of C07 names the IPv6 mapping only, so this is a note
		f.Notes = append(f.Notes, "mcast4-mac-not-rfc1112")
	}
	if ip.FragOff != 0 || ip.Flags&1 != 0 {
		return refErr("ip4.fragment", "fragmented datagram (offset %d, MF %d)", ip.FragOff, ip.Flags&1)
	}
	body := p[ip.IHL:ip.LenField]
	switch ip.Proto {
	case 1:
		f.Proto = "icmp4"
		return refICMP4(f, body)
	case 17:
		f.Proto = "udp4"
		return refUDP(f, body)
	}
	return refErr("ip4.proto", "IPv4 protocol %d is neither ICMP nor UDP", ip.Proto)
}

func refIP6(f *AbsFrame, p []byte) error {
	if len(p) < 40 {
		return refErr("ip6.short", "IPv6 header truncated (%d bytes)", len(p))
	}
	ip := &AbsIP{Version: int(p[0] >> 4), TOS: p[0]<<4 | p[1]>>4, LenField: int(be16(p[4:6])), Proto: p[6], Hop: p[7], IHL: 40}
	f.IP = ip
	if ip.Version != 6 {
		return refErr("ip6.version", "version %d under EtherType 0x86dd", ip.Version)
	}
	if 40+ip.LenField > len(p) {
		return refErr("ip6.payloadlen", "payload length %d with %d bytes after the header", ip.LenField, len(p)-40)
	}
	var s, d [16]byte
	copy(s[:], p[8:24])
	copy(d[:], p[24:40])
	ip.Src, ip.Dst = netip.AddrFrom16(s), netip.AddrFrom16(d)
	f.Pad = len(p) - 40 - ip.LenField
	body := p[40 : 40+ip.LenField]
	switch ip.Proto {
	case 58:
		f.Proto = "icmp6"
		return refICMP6(f, body)
	case 17:
		f.Proto = "udp6"
		return refUDP(f, body)
	}
	return refErr("ip6.next", "IPv6 next header %d is neither ICMPv6 nor UDP", ip.Proto)
}

func refICMP4(f *AbsFrame, p []byte) error {
	if len(p) < 8 {
		return refErr("icmp4.short", "ICMP message of %d bytes", len(p))
	}
	m := &AbsICMP{Type: p[0], Code: p[1], Checksum: be16(p[2:4]), Body: p[4:]}
	f.ICMP = m
	var ckErr error
	if c := Cksum(p); c != 0 {
		ckErr = refErr("icmp4.checksum", "ICMP checksum does not verify (residual %#04x, field %#04x)", c, m.Checksum)
	}
	switch m.Type {
	case 8, 0:
		m.ID, m.Seq, m.Data = be16(p[4:6]), be16(p[6:8]), p[8:]
		f.Payload = m.Data
		if m.Type == 8 {
			f.Kind = "echoreq"
		} else {
			f.Kind = "echoreply"
		}
		if m.Code != 0 {
			return refErr("icmp4.code", "echo with code %d", m.Code)
		}
	default:
		f.Kind = "icmp:" + strconv.Itoa(int(m.Type))
	}
	return ckErr
}

// pseudo6 is the RFC 8200 section 8.1 pseudo header.
func pseudo6(src, dst netip.Addr, upperLen int, next uint8) []byte {
	ph := make([]byte, 40)
	s, d := src.As16(), dst.As16()
	copy(ph[0:16], s[:])
	copy(ph[16:32], d[:])
	binary.BigEndian.PutUint32(ph[32:36], uint32(upperLen))
	ph[39] = next
	return ph
}

func refNDPOptions(p []byte) ([]RefNDPOpt, error) {
	var out []RefNDPOpt
	for len(p) > 0 {
		if len(p) < 2 {
			return out, refErr("ndp.option.short", "%d stray byte(s) after the last option", len(p))
		}
		l := int(p[1]) * 8
		if l == 0 {
			return out, refErr("ndp.option.zero", "option type %d with length 0", p[0])
		}
		if l > len(p) {
			return out, refErr("ndp.option.long", "option type %d of %d bytes with %d left", p[0], l, len(p))
		}
		out = append(out, RefNDPOpt{Type: p[0], Len: p[1], Value: p[2:l]})
		p = p[l:]
	}
	return out, nil
}

func refICMP6(f *AbsFrame, p []byte) error {
	if len(p) < 4 {
		return refErr("icmp6.short", "ICMPv6 message of %d bytes", len(p))
	}
	m := &AbsICMP{V6: true, Type: p[0], Code: p[1], Checksum: be16(p[2:4]), Body: p[4:]}
	f.ICMP = m
	var ckErr error
	if c := Cksum(pseudo6(f.IP.Src, f.IP.Dst, len(p), 58), p); c != 0 {
		ckErr = refErr("icmp6.checksum", "ICMPv6 pseudo-header checksum does not verify (residual %#04x, field %#04x)", c, m.Checksum)
	}
	var err error
	need := func(n int, what string) error {
		if len(p) < n {
			return refErr("icmp6."+what+".short", "%s of %d bytes, need %d", what, len(p), n)
		}
		return nil
	}
	switch m.Type {
	case 128, 129:
		if err = need(8, "echo"); err != nil {
			return err
		}
		m.ID, m.Seq, m.Data = be16(p[4:6]), be16(p[6:8]), p[8:]
		f.Payload = m.Data
		f.Kind = map[uint8]string{128: "echoreq", 129: "echoreply"}[m.Type]
		if m.Code != 0 {
			return refErr("icmp6.code", "echo with code %d", m.Code)
		}
	case 133: // RS: 4 reserved, options
		f.Kind = "rs"
		if err = need(8, "rs"); err != nil {
			return err
		}
		m.Opts, err = refNDPOptions(p[8:])
	case 134: // RA
		f.Kind = "ra"
		if err = need(16, "ra"); err != nil {
			return err
		}
		m.CurHop, m.RAFlags, m.Lifetime, m.Reach, m.Retrans = p[4], p[5], be16(p[6:8]), be32(p[8:12]), be32(p[12:16])
		m.Opts, err = refNDPOptions(p[16:])
	case 135: // NS
		f.Kind = "ns"
		if err = need(24, "ns"); err != nil {
			return err
		}
		var t [16]byte
		copy(t[:], p[8:24])
		m.Target = netip.AddrFrom16(t)
		m.Opts, err = refNDPOptions(p[24:])
	case 136: // NA
		f.Kind = "na"
		if err = need(24, "na"); err != nil {
			return err
		}
		m.R, m.S, m.O = p[4]&0x80 != 0, p[4]&0x40 != 0, p[4]&0x20 != 0
		var t [16]byte
		copy(t[:], p[8:24])
		m.Target = netip.AddrFrom16(t)
		m.Opts, err = refNDPOptions(p[24:])
	default:
		f.Kind = "icmp:" + strconv.Itoa(int(m.Type))
	}
	if err != nil {
		return err
	}
	if m.Type >= 133 && m.Type <= 136 && m.Code != 0 {
		return refErr("icmp6.code", "NDP message type %d with code %d", m.Type, m.Code)
	}
	return ckErr
}

func refUDP(f *AbsFrame, p []byte) error {
	if len(p) < 8 {
		return refErr("udp.short", "UDP datagram of %d bytes", len(p))
	}
	u := &AbsUDP{Sport: be16(p[0:2]), Dport: be16(p[2:4]), Len: int(be16(p[4:6])), Checksum: be16(p[6:8])}
	f.UDP = u
	if u.Len != len(p) {
		return refErr("udp.len", "UDP length field %d, IP payload %d bytes", u.Len, len(p))
	}
	if u.Checksum != 0 {
		var ph []byte
		if f.IP.Version == 4 {
			s, d := f.IP.Src.As4(), f.IP.Dst.As4()
			ph = append(append(append([]byte{}, s[:]...), d[:]...), 0, 17, byte(len(p)>>8), byte(len(p)))
		} else {
			ph = pseudo6(f.IP.Src, f.IP.Dst, len(p), 17)
		}
		if c := Cksum(ph, p); c != 0 {
			return refErr("udp.checksum", "UDP checksum present but does not verify (residual %#04x)", c)
		}
	} else if f.IP.Version == 6 {
		f.Notes = append(f.Notes, "udp6-zero-checksum")
	}
	body := p[8:]
	f.Payload = body
	f.Kind = "udp"
	has := func(port uint16) bool { return u.Sport == port || u.Dport == port }
	var err error
	switch {
	case f.IP.Version == 4 && (u.Dport == 67 || u.Dport == 68 || u.Sport == 67):
		f.Kind = "dhcp4"
		f.DHCP, err = RefDHCP4(body)
	case has(5353):
		f.Kind = "mdns"
		f.DNS, err = RefDNS(body)
	case has(5355):
		f.Kind = "llmnr"
		f.DNS, err = RefDNS(body)
	case has(53):
		f.Kind = "dns"
		f.DNS, err = RefDNS(body)
	case u.Dport == 137:
		f.Kind = "nbns"
		f.DNS, err = RefDNS(body)
	case has(1900):
		f.Kind = "ssdp"
		err = refSSDP(f, body)
	}
	return err
}

// RefDHCP4 decodes a BOOTP/DHCP message with its option sequence in wire order.
func RefDHCP4(p []byte) (*AbsDHCP, error) {
	if len(p) < 240 {
		return nil, refErr("dhcp.short", "DHCP message of %d bytes, fixed part is 240", len(p))
	}
	d := &AbsDHCP{Op: p[0], HType: p[1], HLen: p[2], Hops: p[3], XID: p[4:8], Secs: be16(p[8:10]), Flags: be16(p[10:12]),
		CI: netip.AddrFrom4([4]byte{p[12], p[13], p[14], p[15]}), YI: netip.AddrFrom4([4]byte{p[16], p[17], p[18], p[19]}),
		SI: netip.AddrFrom4([4]byte{p[20], p[21], p[22], p[23]}), GI: netip.AddrFrom4([4]byte{p[24], p[25], p[26], p[27]}),
		CHAddr: append(net.HardwareAddr{}, p[28:34]...), CHPad: p[34:44], SName: p[44:108], File: p[108:236], Len: len(p), MsgType: -1}
	if d.Op != 1 && d.Op != 2 {
		return d, refErr("dhcp.op", "op %d", d.Op)
	}
	if d.HType != 1 || d.HLen != 6 {
		return d, refErr("dhcp.htype", "htype %d hlen %d", d.HType, d.HLen)
	}
	if !bytes.Equal(p[236:240], []byte{99, 130, 83, 99}) {
		return d, refErr("dhcp.cookie", "magic cookie % x", p[236:240])
	}
	seen := map[uint8]bool{}
	o := p[240:]
	off := 240
	for len(o) > 0 {
		c := o[0]
		if c == 255 {
			d.End, d.EndOff = true, off
			d.Trailer = o[1:]
			break
		}
		if c == 0 {
			d.PadBeforeEnd++
			o, off = o[1:], off+1
			continue
		}
		if len(o) < 2 || len(o) < 2+int(o[1]) {
			return d, refErr("dhcp.option.long", "option %d overruns the message", c)
		}
		n := int(o[1])
		d.Opts = append(d.Opts, DHCPOpt{Code: c, Data: o[2 : 2+n]})
		if d.Concat == nil {
			d.Concat = map[uint8][]byte{}
		}
		d.Concat[c] = append(append([]byte{}, d.Concat[c]...), o[2:2+n]...)
		if seen[c] {
			d.Dups = append(d.Dups, c)
		}
		seen[c] = true
		if c == 53 {
			if n != 1 {
				return d, refErr("dhcp.msgtype", "message type option of length %d", n)
			}
			d.MsgType = int(o[2])
		}
		o, off = o[2+n:], off+2+n
	}
	if !d.End {
		return d, refErr("dhcp.noend", "options are not terminated by End (255)")
	}
	for _, x := range d.Trailer {
		if x != 0 {
			return d, refErr("dhcp.trailer", "non zero bytes after the End option")
		}
	}
	if d.MsgType < 1 || d.MsgType > 8 {
		return d, refErr("dhcp.msgtype", "DHCP message type %d", d.MsgType)
	}
	return d, nil
}

// Opt returns the first option with the code.
func (d *AbsDHCP) Opt(code uint8) ([]byte, bool) {
	for _, o := range d.Opts {
		if o.Code == code {
			return o.Data, true
		}
	}
	return nil, false
}

// Codes is the option code sequence in wire order.
func (d *AbsDHCP) Codes() []int {
	out := make([]int, 0, len(d.Opts))
	for _, o := range d.Opts {
		out = append(out, int(o.Code))
	}
	return out
}

func printableLabel(b []byte) string {
	var sb strings.Builder
	for _, c := range b {
		if c > 0x20 && c < 0x7f && c != '.' && c != '\\' {
			sb.WriteByte(c)
		} else if c == ' ' {
			sb.WriteByte(' ')
		} else {
			fmt.Fprintf(&sb, "\\x%02x", c)
		}
	}
	return sb.String()
}

// RefDNS decodes the DNS header and the first question (RFC 1035 section 4.1).
func RefDNS(p []byte) (*AbsDNS, error) {
	if len(p) < 12 {
		return nil, refErr("dns.short", "DNS message of %d bytes", len(p))
	}
	d := &AbsDNS{ID: be16(p[0:2]), Flags: be16(p[2:4]), QD: int(be16(p[4:6])), AN: int(be16(p[6:8])), NS: int(be16(p[8:10])), AR: int(be16(p[10:12]))}
	i := 12
	if d.QD == 0 {
		d.Rest = len(p) - i
		if d.AN+d.NS+d.AR == 0 {
			return d, refErr("dns.empty", "no question and no records")
		}
		return d, refRRs(p, i, d.AN+d.NS+d.AR)
	}
	start := i
	var labels []string
	for {
		if i >= len(p) {
			return d, refErr("dns.qname", "question name runs past the message")
		}
		l := int(p[i])
		if l == 0 {
			i++
			break
		}
		if l&0xc0 != 0 {
			return d, refErr("dns.qname", "compression pointer or reserved label type %#02x in the first question", l)
		}
		if i+1+l > len(p) {
			return d, refErr("dns.qname", "label of %d bytes runs past the message", l)
		}
		labels = append(labels, printableLabel(p[i+1:i+1+l]))
		i += 1 + l
	}
	d.QNameRaw = p[start:i]
	d.QName = strings.Join(labels, ".") + "."
	if i+4 > len(p) {
		return d, refErr("dns.question", "question type/class truncated")
	}
	d.QType, d.QClass = be16(p[i:i+2]), be16(p[i+2:i+4])
	i += 4
	d.Rest = len(p) - i
	// remaining questions and records must be walkable
	for q := 1; q < d.QD; q++ {
		n, err := skipName(p, i)
		if err != nil {
			return d, err
		}
		i = n + 4
		if i > len(p) {
			return d, refErr("dns.question", "question %d truncated", q+1)
		}
	}
	return d, refRRs(p, i, d.AN+d.NS+d.AR)
}

func skipName(p []byte, i int) (int, error) {
	for {
		if i >= len(p) {
			return 0, refErr("dns.name", "name runs past the message")
		}
		l := int(p[i])
		switch {
		case l == 0:
			return i + 1, nil
		case l&0xc0 == 0xc0:
			if i+2 > len(p) {
				return 0, refErr("dns.name", "truncated pointer")
			}
			return i + 2, nil
		case l&0xc0 != 0:
			return 0, refErr("dns.name", "reserved label type %#02x", l)
		}
		i += 1 + l
	}
}

func refRRs(p []byte, i, n int) error {
	for r := 0; r < n; r++ {
		j, err := skipName(p, i)
		if err != nil {
			return err
		}
		if j+10 > len(p) {
			return refErr("dns.rr", "resource record %d header truncated", r+1)
		}
		rd := int(be16(p[j+8 : j+10]))
		i = j + 10 + rd
		if i > len(p) {
			return refErr("dns.rr", "resource record %d data (%d bytes) runs past the message", r+1, rd)
		}
	}
	if i != len(p) {
		return refErr("dns.trailing", "%d bytes after the last record", len(p)-i)
	}
	return nil
}

func refSSDP(f *AbsFrame, p []byte) error {
	// weakest reading: an HTTP/1.1 request or status line after optional empty lines; header block ends with an empty line
	s := string(p)
	t := strings.TrimLeft(s, "\r\n")
	if len(t) != len(s) {
		f.Notes = append(f.Notes, "ssdp-leading-empty-line")
	}
	line := t
	if k := strings.IndexAny(t, "\r\n"); k >= 0 {
		line = t[:k]
	}
	ok := strings.HasSuffix(line, " HTTP/1.1") && (strings.HasPrefix(line, "M-SEARCH * ") || strings.HasPrefix(line, "NOTIFY * "))
	ok = ok || strings.HasPrefix(line, "HTTP/1.1 ")
	if !ok {
		return refErr("ssdp.startline", "SSDP payload does not start with an HTTP/1.1 start line: %q", line)
	}
	if !strings.HasSuffix(s, "\r\n\r\n") && !strings.HasSuffix(s, "\n\n") {
		return refErr("ssdp.end", "SSDP header block is not terminated by an empty line")
	}
	if !strings.Contains(t, "\r\n") || strings.Count(t, "\n") != strings.Count(t, "\r\n") {
		f.Notes = append(f.Notes, "ssdp-bare-lf")
	}
	return nil
}

// Mcast6MAC is the RFC 2464 section 7 mapping: 33:33 followed by the low 32 bits of the address.
func Mcast6MAC(ip netip.Addr) net.HardwareAddr {
	a := ip.As16()
	return net.HardwareAddr{0x33, 0x33, a[12], a[13], a[14], a[15]}
}

// Mcast4MAC is the RFC 1112 section 6.4 mapping: 01:00:5e followed by the low 23 bits.
func Mcast4MAC(ip netip.Addr) net.HardwareAddr {
	a := ip.As4()
	return net.HardwareAddr{0x01, 0x00, 0x5e, a[1] & 0x7f, a[2], a[3]}
}

func isNDP(f *AbsFrame) bool {
	return f.ICMP != nil && f.ICMP.V6 && f.ICMP.Type >= 133 && f.ICMP.Type <= 137
}

// CheckWellFormed is the call-independent part of the C07 predicate WellFormed(frame, nic):
// the frame decodes under the reference decoder (complete, length-consistent, checksums verify),
// the Ethernet source is the host NIC MAC, an IPv6 multicast destination uses the matching 33:33
// MAC and a link-local NDP message uses hop limit 255.  The returned abstract frame is valid
// whenever decoding itself succeeded (also when a predicate failed).
func CheckWellFormed(frame []byte, hostMAC net.HardwareAddr) (*AbsFrame, error) {
	f, err := RefDecode(frame)
	if err != nil {
		return f, err
	}
	if !bytes.Equal(f.EthSrc, hostMAC) {
		return f, refErr("ethsrc", "Ethernet source %s is not the host NIC MAC %s", f.EthSrc, hostMAC)
	}
	if f.IP != nil && f.IP.Version == 6 && f.IP.Dst.IsMulticast() {
		if want := Mcast6MAC(f.IP.Dst); !bytes.Equal(f.EthDst, want) {
			return f, refErr("mcast6mac", "IPv6 multicast destination %s sent to %s, want %s", f.IP.Dst, f.EthDst, want)
		}
	}
	// weakest reading of "link-local NDP uses hop limit 255": the destination is link-local.
	// RFC 4861 demands 255 for every NDP message; the rest is only noted.
	if isNDP(f) && f.IP.Hop != 255 {
		if f.IP.Dst.IsLinkLocalUnicast() || f.IP.Dst.IsLinkLocalMulticast() {
			return f, refErr("ndphop", "link-local NDP message type %d with hop limit %d", f.ICMP.Type, f.IP.Hop)
		}
		f.Notes = append(f.Notes, "ndp-hop-not-255")
	}
	return f, nil
}

// Flatten renders the abstract frame as field -> canonical text, the form in which it is compared
// with the expectation computed by spec/Wire.tla.
func (f *AbsFrame) Flatten() map[string]string {
	m := map[string]string{"proto": f.Proto, "kind": f.Kind, "ethSrc": f.EthSrc.String(), "ethDst": f.EthDst.String(),
		"len": strconv.Itoa(f.Len), "pad": strconv.Itoa(f.Pad)}
	if ip := f.IP; ip != nil {
		m["ipSrc"], m["ipDst"], m["hop"] = ip.Src.String(), ip.Dst.String(), strconv.Itoa(int(ip.Hop))
		m["ipLen"] = strconv.Itoa(ip.LenField)
	}
	if u := f.UDP; u != nil {
		m["sport"], m["dport"] = strconv.Itoa(int(u.Sport)), strconv.Itoa(int(u.Dport))
		m["udpLen"] = strconv.Itoa(u.Len)
	}
	if a := f.ARP; a != nil {
		m["f.op"] = strconv.Itoa(int(a.Op))
		m["f.sha"], m["f.spa"], m["f.tha"], m["f.tpa"] = a.SHA.String(), a.SPA.String(), a.THA.String(), a.TPA.String()
	}
	if c := f.ICMP; c != nil {
		m["f.type"], m["f.code"] = strconv.Itoa(int(c.Type)), strconv.Itoa(int(c.Code))
		switch f.Kind {
		case "echoreq", "echoreply":
			m["f.id"], m["f.seq"], m["f.data"] = strconv.Itoa(int(c.ID)), strconv.Itoa(int(c.Seq)), string(c.Data)
		case "ns", "na":
			m["f.target"] = c.Target.String()
		}
		if f.Kind == "na" {
			m["f.router"], m["f.solicited"], m["f.override"] = b2s(c.R), b2s(c.S), b2s(c.O)
		}
		if f.Kind == "ra" {
			m["f.curhop"], m["f.lifetime"] = strconv.Itoa(int(c.CurHop)), strconv.Itoa(int(c.Lifetime))
			m["f.raflags"] = strconv.Itoa(int(c.RAFlags))
		}
		if c.V6 {
			types := []string{}
			n := map[uint8]int{}
			for _, o := range c.Opts {
				types = append(types, strconv.Itoa(int(o.Type)))
				n[o.Type]++
				switch o.Type {
				case 1:
					if len(o.Value) == 6 {
						m["f.slla"] = net.HardwareAddr(o.Value).String()
					}
				case 2:
					if len(o.Value) == 6 {
						m["f.tlla"] = net.HardwareAddr(o.Value).String()
					}
				case 5:
					if len(o.Value) == 6 {
						m["f.mtu"] = strconv.Itoa(int(be32(o.Value[2:6])))
					}
				case 3:
					if len(o.Value) == 30 {
						var a [16]byte
						copy(a[:], o.Value[14:30])
						k := "f.prefix" + strconv.Itoa(n[3])
						m[k] = netip.AddrFrom16(a).String() + "/" + strconv.Itoa(int(o.Value[0]))
						m[k+".flags"] = strconv.Itoa(int(o.Value[1]))
						m[k+".valid"] = strconv.Itoa(int(be32(o.Value[2:6])))
						m[k+".preferred"] = strconv.Itoa(int(be32(o.Value[6:10])))
					}
				case 25:
					if len(o.Value) >= 22 {
						var a [16]byte
						copy(a[:], o.Value[6:22])
						m["f.rdnss"] = netip.AddrFrom16(a).String()
						m["f.rdnss.lifetime"] = strconv.Itoa(int(be32(o.Value[2:6])))
					}
				}
			}
			m["f.opts"] = strings.Join(types, ",")
			m["f.nprefix"] = strconv.Itoa(n[3])
		}
	}
	if d := f.DHCP; d != nil {
		m["f.op"], m["f.msgtype"] = strconv.Itoa(int(d.Op)), strconv.Itoa(d.MsgType)
		m["f.xid"], m["f.chaddr"] = hex.EncodeToString(d.XID), d.CHAddr.String()
		m["f.ciaddr"], m["f.yiaddr"], m["f.siaddr"], m["f.giaddr"] = d.CI.String(), d.YI.String(), d.SI.String(), d.GI.String()
		m["f.flags"] = strconv.Itoa(int(d.Flags))
		m["f.dhcplen"] = strconv.Itoa(d.Len)
		codes := []string{}
		for _, o := range d.Opts {
			codes = append(codes, strconv.Itoa(int(o.Code)))
			m["f.opt"+strconv.Itoa(int(o.Code))] = hex.EncodeToString(o.Data)
		}
		m["f.codes"] = strings.Join(codes, ",")
		sorted := append([]string{}, codes...)
		sort.Slice(sorted, func(i, j int) bool { a, _ := strconv.Atoi(sorted[i]); b, _ := strconv.Atoi(sorted[j]); return a < b })
		m["f.codeset"] = strings.Join(sorted, ",")
		m["f.dups"] = strconv.Itoa(len(d.Dups))
	}
	if d := f.DNS; d != nil {
		m["f.id"], m["f.flags"] = strconv.Itoa(int(d.ID)), strconv.Itoa(int(d.Flags))
		m["f.qr"] = strconv.Itoa(int(d.Flags >> 15))
		m["f.qd"], m["f.an"], m["f.ns"], m["f.ar"] = strconv.Itoa(d.QD), strconv.Itoa(d.AN), strconv.Itoa(d.NS), strconv.Itoa(d.AR)
		if d.QD > 0 {
			m["f.qname"], m["f.qtype"], m["f.qclass"] = d.QName, strconv.Itoa(int(d.QType)), strconv.Itoa(int(d.QClass))
		}
	}
	if f.Kind == "ssdp" {
		t := strings.TrimLeft(string(f.Payload), "\r\n")
		if k := strings.IndexAny(t, "\r\n"); k >= 0 {
			t = t[:k]
		}
		m["f.startline"] = t
	}
	if len(f.Notes) > 0 {
		m["notes"] = strings.Join(f.Notes, ",")
	}
	return m
}

func b2s(b bool) string {
	if b {
		return "1"
	}
	return "0"
}
