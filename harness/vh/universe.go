// Package vh holds what every conformance driver shares: the mapping between the small
// universes of the TLA+ specifications and concrete MAC / IP addresses, a recording
// net.PacketConn, independent frame builders, and the projection of the real session
// tables onto the abstract state of spec/Hosts.tla.
package vh

import (
	"fmt"
	"net"
	"net/netip"
	"sort"
	"strconv"
	"strings"

	"github.com/irai/packet"
)

// NICConfig is one concrete network configuration a universe is mapped into.
type NICConfig struct {
	Name     string
	HomeLAN  netip.Prefix
	HostIP   netip.Addr
	RouterIP netip.Addr
	LanBase  netip.Addr // a<K> = LanBase + K
	ExtBase  netip.Addr // x<K> = ExtBase + K (outside HomeLAN)
}

// Configs are the NIC configurations used by the drivers (selected by index).
var Configs = []NICConfig{
	{Name: "lan24", HomeLAN: netip.MustParsePrefix("192.168.0.0/24"), HostIP: netip.MustParseAddr("192.168.0.129"),
		RouterIP: netip.MustParseAddr("192.168.0.1"), LanBase: netip.MustParseAddr("192.168.0.10"), ExtBase: netip.MustParseAddr("172.16.5.0")},
	{Name: "lan28", HomeLAN: netip.MustParsePrefix("10.1.2.16/28"), HostIP: netip.MustParseAddr("10.1.2.17"),
		RouterIP: netip.MustParseAddr("10.1.2.30"), LanBase: netip.MustParseAddr("10.1.2.17"), ExtBase: netip.MustParseAddr("10.1.2.32")},
	{Name: "lan16", HomeLAN: netip.MustParsePrefix("172.20.0.0/16"), HostIP: netip.MustParseAddr("172.20.255.254"),
		RouterIP: netip.MustParseAddr("172.20.0.1"), LanBase: netip.MustParseAddr("172.20.7.0"), ExtBase: netip.MustParseAddr("172.21.0.0")},
}

var (
	OwnMAC    = net.HardwareAddr{0x02, 0x00, 0x00, 0x00, 0x00, 0x01}
	RouterMAC = net.HardwareAddr{0x02, 0x00, 0x00, 0x00, 0x00, 0xfe}
	HostLLA   = netip.MustParseAddr("fe80::ff:1")
)

// Universe maps abstract names to concrete addresses and back.
type Universe struct {
	Cfg NICConfig
}

func addN(a netip.Addr, n int) netip.Addr {
	for i := 0; i < n; i++ {
		a = a.Next()
	}
	return a
}

// MAC maps own, router, m<K>.
func (u *Universe) MAC(name string) net.HardwareAddr {
	switch {
	case name == "own":
		return OwnMAC
	case name == "router":
		return RouterMAC
	case strings.HasPrefix(name, "m"):
		k, err := strconv.Atoi(name[1:])
		if err == nil && k > 0 && k <= 100 {
			return net.HardwareAddr{0x02, 0x00, 0x00, 0x00, 0x01, byte(k)}
		}
		if err == nil && k > 100 && k <= 200 { // m<100+K>: same low four bytes as m<K>, other vendor prefix
			return net.HardwareAddr{0x06, 0x11, 0x00, 0x00, 0x01, byte(k - 100)}
		}
		// hardware addresses that are not Ethernet addresses: they can reach the session only through its API
		// (Capture, Release, SetDHCPv4IPOffer, DHCPv4Update), never through a parsed frame
		if err == nil && k == 201 { // EUI-64 (8 bytes)
			return net.HardwareAddr{0x02, 0x00, 0x00, 0xff, 0xfe, 0x00, 0x01, 0x07}
		}
		if err == nil && k == 202 { // empty address
			return net.HardwareAddr{}
		}
	}
	panic("unknown mac name " + name)
}

// MACName is the inverse of MAC; unknown addresses are returned as "mac:<text>".
func (u *Universe) MACName(mac net.HardwareAddr) string {
	if len(mac) == 6 {
		if string(mac) == string(OwnMAC) {
			return "own"
		}
		if string(mac) == string(RouterMAC) {
			return "router"
		}
		if mac[0] == 2 && mac[1] == 0 && mac[2] == 0 && mac[3] == 0 && mac[4] == 1 && mac[5] > 0 && mac[5] <= 100 {
			return "m" + strconv.Itoa(int(mac[5]))
		}
		if mac[0] == 6 && mac[1] == 0x11 && mac[2] == 0 && mac[3] == 0 && mac[4] == 1 && mac[5] > 0 && mac[5] <= 100 {
			return "m" + strconv.Itoa(100+int(mac[5]))
		}
	}
	if len(mac) == 8 && string(mac) == string(net.HardwareAddr{0x02, 0x00, 0x00, 0xff, 0xfe, 0x00, 0x01, 0x07}) {
		return "m201"
	}
	if len(mac) == 0 {
		return "m202"
	}
	return "mac:" + mac.String()
}

// IP maps hostip, routerip, a<K>, x<K>, l<K>, g<K>, noip.
func (u *Universe) IP(name string) netip.Addr {
	switch {
	case name == "hostip":
		return u.Cfg.HostIP
	case name == "routerip":
		return u.Cfg.RouterIP
	case name == "noip":
		return netip.Addr{}
	case name == "zero":
		return netip.IPv4Unspecified()
	}
	if len(name) >= 2 {
		k, err := strconv.Atoi(name[1:])
		if err == nil && k > 0 && k < 200 {
			switch name[0] {
			case 'a':
				return addN(u.Cfg.LanBase, k)
			case 'x':
				return addN(u.Cfg.ExtBase, k)
			case 'u': // unique local address (fd00::/8): global unicast for tracking purposes
				return netip.AddrFrom16([16]byte{0xfd, 0x00, 0, 0, 0, 0, 0, 0, 0, 0, 0, 0, 0, 0, 0x03, byte(k)})
			case 'q': // IPv4-mapped IPv6 form of a<K>
				return netip.AddrFrom16(addN(u.Cfg.LanBase, k).As16())
			case 'l':
				return netip.AddrFrom16([16]byte{0xfe, 0x80, 0, 0, 0, 0, 0, 0, 0, 0, 0, 0, 0, 0, 0x01, byte(k)})
			case 'g':
				return netip.AddrFrom16([16]byte{0x20, 0x01, 0x0d, 0xb8, 0, 0, 0, 0, 0, 0, 0, 0, 0, 0, 0x02, byte(k)})
			}
		}
	}
	panic("unknown ip name " + name)
}

// IPName is the inverse of IP. The zero and the invalid address are both "noip".
func (u *Universe) IPName(ip netip.Addr) string {
	if !ip.IsValid() || ip.IsUnspecified() {
		return "noip"
	}
	if ip == u.Cfg.HostIP {
		return "hostip"
	}
	if ip == u.Cfg.RouterIP {
		return "routerip"
	}
	if ip.Is4In6() {
		for k := 1; k < 200; k++ {
			if addN(u.Cfg.LanBase, k) == ip.Unmap() {
				return "q" + strconv.Itoa(k)
			}
		}
		return "ip:" + ip.String()
	}
	if ip.Is4() {
		for k := 1; k < 200; k++ {
			if addN(u.Cfg.LanBase, k) == ip {
				return "a" + strconv.Itoa(k)
			}
			if addN(u.Cfg.ExtBase, k) == ip {
				return "x" + strconv.Itoa(k)
			}
		}
	} else {
		b := ip.As16()
		if b[0] == 0xfe && b[1] == 0x80 && b[14] == 1 {
			return "l" + strconv.Itoa(int(b[15]))
		}
		if b[0] == 0x20 && b[1] == 0x01 && b[14] == 2 {
			return "g" + strconv.Itoa(int(b[15]))
		}
		if b[0] == 0xfd && b[1] == 0x00 && b[14] == 3 {
			return "u" + strconv.Itoa(int(b[15]))
		}
	}
	return "ip:" + ip.String()
}

// NICInfo builds the packet.NICInfo of this universe.
func (u *Universe) NICInfo() *packet.NICInfo {
	return &packet.NICInfo{
		HomeLAN4:    u.Cfg.HomeLAN,
		HostAddr4:   packet.Addr{MAC: append(net.HardwareAddr{}, OwnMAC...), IP: u.Cfg.HostIP},
		RouterAddr4: packet.Addr{MAC: append(net.HardwareAddr{}, RouterMAC...), IP: u.Cfg.RouterIP},
		HostLLA:     netip.PrefixFrom(HostLLA, 64),
	}
}

// Names: "noname" is the empty name, n<K> is the concrete name "host-n<K>", n<K>u is the same name in
// upper case ("HOST-N<K>"): two different names that differ only in letter case.
func NameOrNone(s string) string {
	switch {
	case s == "":
		return "noname"
	case strings.HasPrefix(s, "host-"):
		return s[5:]
	case strings.HasPrefix(s, "HOST-"):
		return strings.ToLower(s[5:]) + "u"
	}
	return s
}

func NameValue(s string) string {
	switch {
	case s == "noname":
		return ""
	case len(s) > 1 && s[0] == 'n' && strings.HasSuffix(s, "u"):
		return "HOST-" + strings.ToUpper(s[:len(s)-1])
	case len(s) > 1 && s[0] == 'n':
		return "host-" + s
	}
	return s
}

func SortedKeys(m map[string]bool) []string {
	out := make([]string, 0, len(m))
	for k := range m {
		out = append(out, k)
	}
	sort.Strings(out)
	return out
}

var _ = fmt.Sprintf
