package vh

import (
	"encoding/binary"
	"net"
	"net/netip"
	"sync"
	"sync/atomic"
	"time"

	"golang.org/x/net/dns/dnsmessage"
)

// FeedConn is a net.PacketConn for the concurrency driver (C09): ReadFrom hands out the frames
// pushed by the harness (the packet loop of the application blocks in Session.ReadFrom exactly as
// it does on a raw socket), WriteTo only counts.  Close unblocks ReadFrom with net.ErrClosed.
type FeedConn struct {
	in      chan []byte
	closed  chan struct{}
	once    sync.Once
	Written int64 // frames written by the library (atomic)
	Taken   int64 // frames handed to ReadFrom (atomic)
	Pushed  int64
}

func NewFeedConn(depth int) *FeedConn {
	return &FeedConn{in: make(chan []byte, depth), closed: make(chan struct{})}
}

// Push queues a frame for the packet loop; false if the connection is closed.
func (c *FeedConn) Push(b []byte) bool {
	select {
	case <-c.closed:
		return false
	default:
	}
	select {
	case c.in <- b:
		atomic.AddInt64(&c.Pushed, 1)
		return true
	case <-c.closed:
		return false
	}
}

// Idle reports whether every pushed frame has been taken by ReadFrom.
func (c *FeedConn) Idle() bool {
	return len(c.in) == 0 && atomic.LoadInt64(&c.Taken) == atomic.LoadInt64(&c.Pushed)
}

func (c *FeedConn) ReadFrom(b []byte) (int, net.Addr, error) {
	select {
	case f := <-c.in:
		n := copy(b, f)
		atomic.AddInt64(&c.Taken, 1)
		return n, nil, nil
	case <-c.closed:
		return 0, nil, net.ErrClosed
	}
}

func (c *FeedConn) WriteTo(b []byte, addr net.Addr) (int, error) {
	select {
	case <-c.closed:
		return 0, net.ErrClosed
	default:
	}
	atomic.AddInt64(&c.Written, 1)
	return len(b), nil
}

func (c *FeedConn) Close() error {
	c.once.Do(func() { close(c.closed) })
	return nil
}
func (c *FeedConn) LocalAddr() net.Addr                { return nil }
func (c *FeedConn) SetDeadline(t time.Time) error      { return nil }
func (c *FeedConn) SetReadDeadline(t time.Time) error  { return nil }
func (c *FeedConn) SetWriteDeadline(t time.Time) error { return nil }

// RouterAdvertisement builds the ICMPv6 body (after type/code/checksum) of an RA with a source
// link-layer address option and one /64 prefix information option.
func RouterAdvertisement(mac net.HardwareAddr, prefix netip.Addr, lifetime uint16) []byte {
	b := make([]byte, 12)
	b[0] = 64   // cur hop limit
	b[1] = 0x40 // O flag
	binary.BigEndian.PutUint16(b[2:4], lifetime)
	// source link-layer address option
	b = append(b, 1, 1)
	b = append(b, mac[:6]...)
	// prefix information option
	p := make([]byte, 32)
	p[0], p[1], p[2], p[3] = 3, 4, 64, 0xc0
	binary.BigEndian.PutUint32(p[4:8], 86400)
	binary.BigEndian.PutUint32(p[8:12], 14400)
	a := prefix.As16()
	copy(p[16:32], a[:])
	for i := 24; i < 32; i++ {
		p[i] = 0
	}
	return append(b, p...)
}

// NeighborSolicitation builds the ICMPv6 body of an NS for target with a source LLA option.
func NeighborSolicitation(target netip.Addr, mac net.HardwareAddr) []byte {
	b := make([]byte, 4)
	a := target.As16()
	b = append(b, a[:]...)
	b = append(b, 1, 1)
	return append(b, mac[:6]...)
}

// NeighborAdvertisement builds the ICMPv6 body of an NA for target with a target LLA option.
func NeighborAdvertisement(target netip.Addr, mac net.HardwareAddr, flags byte) []byte {
	b := []byte{flags, 0, 0, 0}
	a := target.As16()
	b = append(b, a[:]...)
	b = append(b, 2, 1)
	return append(b, mac[:6]...)
}

// MDNSResponse builds an mDNS response carrying one A record name.local -> ip.
func MDNSResponse(id uint16, name string, ip netip.Addr) []byte {
	bld := dnsmessage.NewBuilder(nil, dnsmessage.Header{ID: id, Response: true, Authoritative: true})
	bld.EnableCompression()
	bld.StartAnswers()
	n, err := dnsmessage.NewName(name + ".local.")
	if err != nil {
		return nil
	}
	bld.AResource(dnsmessage.ResourceHeader{Name: n, Class: dnsmessage.ClassINET, TTL: 120}, dnsmessage.AResource{A: ip.As4()})
	out, err := bld.Finish()
	if err != nil {
		return nil
	}
	return out
}
