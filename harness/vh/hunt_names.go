package vh

import (
	"bytes"
	"encoding/binary"
	"fmt"
	"net"
	"net/netip"
	"strconv"
	"strings"
)

// Names used by spec/ArpHunt*.tla and spec/Ndp6Hunt*.tla on top of the Universe vocabulary:
//
//	MACs: own router m<K> nilmac (nil slice) bcastmac zeromac mc:<suffix> (33:33:.. multicast)
//	IPs : routerip hostip a<K> x<K> l<K> g<K> noip zero ll<K> (169.254.0.K) bcast4 (255.255.255.255)
//	      r<K> (router link-local fe80::fe:K) allnodes (ff02::1) hostlla (our link-local address)
var (
	Bcast4    = netip.MustParseAddr("255.255.255.255")
	AllNodes  = netip.MustParseAddr("ff02::1")
	routerLLA = [16]byte{0xfe, 0x80, 0, 0, 0, 0, 0, 0, 0, 0, 0, 0, 0, 0, 0xfe, 0}
	// IPv6 addresses that are neither link-local unicast nor global unicast test addresses of the Universe
	otherV6 = map[string]netip.Addr{
		"unspec6": netip.MustParseAddr("::"),
		"loop6":   netip.MustParseAddr("::1"),
		"mc5":     netip.MustParseAddr("ff05::2"),
		"map4":    netip.MustParseAddr("::ffff:192.168.0.77"),
		"ula1":    netip.MustParseAddr("fd00:1234::1"),
		// link-local unicast (fe80::/10) outside the usual fe80::/64 + interface id shape, and with a zone
		"lx1": netip.MustParseAddr("fe80:0:0:1::2:2"),
		"lx2": netip.MustParseAddr("febf::3:3"),
		"lz1": netip.MustParseAddr("fe80::101").WithZone("eth0"), // l1 (fe80::101) as an API argument carrying a zone
	}
)

// HuntMAC maps a name of the hunt specifications to a MAC (nil for "nilmac").
func (u *Universe) HuntMAC(name string) net.HardwareAddr {
	switch name {
	case "nilmac":
		return nil
	case "bcastmac":
		return append(net.HardwareAddr{}, Bcast...)
	case "zeromac":
		return append(net.HardwareAddr{}, ZeroMAC...)
	}
	if strings.HasPrefix(name, "rm") { // router MACs rm1, rm2
		k, err := strconv.Atoi(name[2:])
		if err == nil && k > 0 && k < 250 {
			return net.HardwareAddr{0x02, 0x00, 0x00, 0x00, 0x02, byte(k)}
		}
	}
	return append(net.HardwareAddr{}, u.MAC(name)...)
}

// HuntMACName is the inverse of HuntMAC.
func (u *Universe) HuntMACName(mac net.HardwareAddr) string {
	switch {
	case len(mac) == 0:
		return "nilmac"
	case bytes.Equal(mac, Bcast):
		return "bcastmac"
	case bytes.Equal(mac, ZeroMAC):
		return "zeromac"
	case len(mac) == 6 && mac[0] == 2 && mac[1] == 0 && mac[2] == 0 && mac[3] == 0 && mac[4] == 2 && mac[5] > 0 && mac[5] < 250:
		return "rm" + strconv.Itoa(int(mac[5]))
	}
	return u.MACName(mac)
}

// HuntIP maps a name of the hunt specifications to an address.
func (u *Universe) HuntIP(name string) netip.Addr {
	switch name {
	case "bcast4":
		return Bcast4
	case "allnodes":
		return AllNodes
	case "hostlla":
		return HostLLA
	}
	if a, ok := otherV6[name]; ok {
		return a
	}
	if strings.HasPrefix(name, "ll") {
		k, err := strconv.Atoi(name[2:])
		if err == nil && k > 0 && k < 250 {
			return netip.AddrFrom4([4]byte{169, 254, 0, byte(k)})
		}
	}
	if strings.HasPrefix(name, "r") && name != "routerip" {
		k, err := strconv.Atoi(name[1:])
		if err == nil && k > 0 && k < 250 {
			b := routerLLA
			b[15] = byte(k)
			return netip.AddrFrom16(b)
		}
	}
	return u.IP(name)
}

// HuntIPName is the inverse of HuntIP ("zero" for the unspecified IPv4 address, "noip" for the invalid one).
func (u *Universe) HuntIPName(ip netip.Addr) string {
	switch {
	case !ip.IsValid():
		return "noip"
	case ip == netip.IPv4Unspecified():
		return "zero"
	case ip == Bcast4:
		return "bcast4"
	case ip == AllNodes:
		return "allnodes"
	case ip == HostLLA:
		return "hostlla"
	}
	for n, a := range otherV6 {
		if a == ip {
			return n
		}
	}
	if ip.Is4() {
		b := ip.As4()
		if b[0] == 169 && b[1] == 254 && b[2] == 0 && b[3] > 0 && b[3] < 250 {
			return "ll" + strconv.Itoa(int(b[3]))
		}
	} else {
		b := ip.As16()
		if bytes.Equal(b[:15], routerLLA[:15]) && b[15] > 0 && b[15] < 250 {
			return "r" + strconv.Itoa(int(b[15]))
		}
	}
	return u.IPName(ip)
}

// ArpFrame is the abstract ARP frame of spec/ArpHunt.tla.
type ArpFrame struct {
	Op  int    `json:"op"`
	Ed  string `json:"ed"` // Ethernet destination
	Es  string `json:"es"` // Ethernet source
	Sm  string `json:"sm"`
	Si  string `json:"si"`
	Tm  string `json:"tm"`
	Ti  string `json:"ti"`
	Bad string `json:"bad,omitempty"`
}

// DecodeARP is an independent decoder for Ethernet/ARP frames (no library code).
func (u *Universe) DecodeARP(b []byte) ArpFrame {
	f := ArpFrame{}
	if len(b) < 14+28 {
		f.Bad = fmt.Sprintf("short frame len=%d", len(b))
		return f
	}
	f.Ed = u.HuntMACName(net.HardwareAddr(b[0:6]))
	f.Es = u.HuntMACName(net.HardwareAddr(b[6:12]))
	if et := binary.BigEndian.Uint16(b[12:14]); et != 0x0806 {
		f.Bad = fmt.Sprintf("ethertype %#04x", et)
		return f
	}
	a := b[14:]
	if binary.BigEndian.Uint16(a[0:2]) != 1 || binary.BigEndian.Uint16(a[2:4]) != 0x0800 || a[4] != 6 || a[5] != 4 {
		f.Bad = "arp header"
	}
	if len(a) != 28 {
		f.Bad = fmt.Sprintf("arp length %d", len(a))
	}
	f.Op = int(binary.BigEndian.Uint16(a[6:8]))
	f.Sm = u.HuntMACName(net.HardwareAddr(a[8:14]))
	f.Si = u.HuntIPName(netip.AddrFrom4([4]byte{a[14], a[15], a[16], a[17]}))
	f.Tm = u.HuntMACName(net.HardwareAddr(a[18:24]))
	f.Ti = u.HuntIPName(netip.AddrFrom4([4]byte{a[24], a[25], a[26], a[27]}))
	return f
}

// NAFrame is the abstract ICMPv6 frame of spec/Ndp6Hunt.tla (neighbour advertisements in full,
// other ICMPv6 types by type only).
type NAFrame struct {
	Type  int    `json:"type"`
	Ed    string `json:"ed"`
	Es    string `json:"es"`
	Src   string `json:"src"`
	Dst   string `json:"dst"`
	Hop   int    `json:"hop"`
	Tgt   string `json:"tgt"`  // NA target address
	Tlla  string `json:"tlla"` // target link-layer address option ("nilmac" if absent)
	Over  bool   `json:"over"`
	Sol   bool   `json:"sol"`
	Rtr   bool   `json:"rtr"`
	CkOK  bool   `json:"ckok"`
	Bad   string `json:"bad,omitempty"`
	Other string `json:"other,omitempty"`
}

// DecodeICMP6 is an independent decoder for Ethernet/IPv6/ICMPv6 frames (no library code).
func (u *Universe) DecodeICMP6(b []byte) NAFrame {
	f := NAFrame{Tlla: "nilmac", Tgt: "noip"}
	if len(b) < 14+40+4 {
		f.Bad = fmt.Sprintf("short frame len=%d", len(b))
		return f
	}
	f.Ed = u.HuntMACName(net.HardwareAddr(b[0:6]))
	f.Es = u.HuntMACName(net.HardwareAddr(b[6:12]))
	if et := binary.BigEndian.Uint16(b[12:14]); et != 0x86dd {
		f.Bad = fmt.Sprintf("ethertype %#04x", et)
		return f
	}
	ip := b[14:]
	if ip[0]>>4 != 6 || ip[6] != 58 {
		f.Bad = "not ipv6/icmpv6"
		return f
	}
	plen := int(binary.BigEndian.Uint16(ip[4:6]))
	if plen != len(ip)-40 {
		f.Bad = fmt.Sprintf("payload length %d of %d", plen, len(ip)-40)
		return f
	}
	f.Hop = int(ip[7])
	var s, d [16]byte
	copy(s[:], ip[8:24])
	copy(d[:], ip[24:40])
	f.Src = u.HuntIPName(netip.AddrFrom16(s))
	f.Dst = u.HuntIPName(netip.AddrFrom16(d))
	m := ip[40:]
	f.Type = int(m[0])
	ph := make([]byte, 8)
	binary.BigEndian.PutUint32(ph[0:4], uint32(len(m)))
	ph[7] = 58
	f.CkOK = Cksum(s[:], d[:], ph, m) == 0
	if f.Type != 136 {
		f.Other = fmt.Sprintf("icmp6 type %d", f.Type)
		return f
	}
	if len(m) < 24 {
		f.Bad = "short NA"
		return f
	}
	f.Rtr, f.Sol, f.Over = m[4]&0x80 != 0, m[4]&0x40 != 0, m[4]&0x20 != 0
	var t [16]byte
	copy(t[:], m[8:24])
	f.Tgt = u.HuntIPName(netip.AddrFrom16(t))
	for o := m[24:]; len(o) > 0; {
		if len(o) < 2 || o[1] == 0 || int(o[1])*8 > len(o) {
			f.Bad = "NA options"
			break
		}
		if o[0] == 2 && o[1] == 1 {
			f.Tlla = u.HuntMACName(net.HardwareAddr(o[2:8]))
		}
		o = o[int(o[1])*8:]
	}
	return f
}
