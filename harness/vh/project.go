package vh

import (
	"sort"

	"github.com/irai/packet"
)

// HostP is the projection of one packet.Host onto spec/Hosts.tla.
type HostP struct {
	IP    string            `json:"ip"`
	MAC   string            `json:"mac"`  // address of the MAC entry the host points to
	AMAC  string            `json:"amac"` // the host's own Addr.MAC (must equal MAC)
	On    bool              `json:"on"`
	Dirty bool              `json:"dirty"`
	Seen  int               `json:"seen"`
	Names map[string]string `json:"names"`
}

// MacP is the projection of one packet.MACEntry.
type MacP struct {
	MAC   string            `json:"mac"`
	IP4   string            `json:"ip4"`
	On    bool              `json:"on"`
	Cap   bool              `json:"cap"`
	Rt    bool              `json:"rt"`
	Offer string            `json:"offer"`
	Names map[string]string `json:"names"`
	List  []string          `json:"list"`
}

// NoteP is the projection of one packet.Notification.
type NoteP struct {
	IP    string            `json:"ip"`
	MAC   string            `json:"mac"`
	On    bool              `json:"on"`
	Rt    bool              `json:"rt"`
	Names map[string]string `json:"names"`
}

// Triple is one (mac, ip, online) triple visible through the query API.
type Triple struct {
	MAC string `json:"mac"`
	IP  string `json:"ip"`
	On  bool   `json:"on"`
}

func names5(d, m, s, l, n packet.NameEntry) map[string]string {
	out := map[string]string{}
	for k, v := range map[string]string{"dhcp": d.Name, "mdns": m.Name, "ssdp": s.Name, "llmnr": l.Name, "nbns": n.Name} {
		if v != "" {
			out[k] = NameOrNone(v) // absent slot = no name learned
		}
	}
	return out
}

// ProjectTables reads the raw tables (single threaded drivers only).
func ProjectTables(u *Universe, s *packet.Session) ([]HostP, []MacP) {
	hosts := make([]HostP, 0, len(s.HostTable.Table))
	for ip, h := range s.HostTable.Table {
		hp := HostP{IP: u.IPName(ip), MAC: "mac:nil", AMAC: u.MACName(h.Addr.MAC), On: h.Online, Dirty: packet.VerifHostDirty(h), Seen: Stamp(h.LastSeen),
			Names: names5(h.DHCP4Name, h.MDNSName, h.SSDPName, h.LLMNRName, h.NBNSName)}
		if h.MACEntry != nil {
			hp.MAC = u.MACName(h.MACEntry.MAC)
		}
		if h.Addr.IP != ip {
			hp.IP = "ip:misindexed:" + ip.String() + "/" + h.Addr.IP.String()
		}
		hosts = append(hosts, hp)
	}
	sort.Slice(hosts, func(i, j int) bool { return hosts[i].IP < hosts[j].IP })
	macs := make([]MacP, 0, len(s.MACTable.Table))
	for _, e := range s.MACTable.Table {
		mp := MacP{MAC: u.MACName(e.MAC), IP4: u.IPName(e.IP4), On: e.Online, Cap: e.Captured, Rt: e.IsRouter, Offer: u.IPName(e.IP4Offer),
			Names: names5(e.DHCP4Name, e.MDNSName, e.SSDPName, e.LLMNRName, e.NBNSName), List: []string{}}
		for _, h := range e.HostList {
			n := u.IPName(h.Addr.IP)
			if s.HostTable.Table[h.Addr.IP] != h {
				n = "ip:stale:" + h.Addr.IP.String() // listed host is not the indexed host
			}
			if h.MACEntry != e {
				n = "ip:foreign:" + h.Addr.IP.String()
			}
			mp.List = append(mp.List, n)
		}
		macs = append(macs, mp)
	}
	sort.SliceStable(macs, func(i, j int) bool { return macs[i].MAC < macs[j].MAC })
	return hosts, macs
}

// ProjectAPI reads the (mac, ip, online) triples through the exported query API only and
// cross-checks FindIP, IPAddrs and FindByMAC against GetHosts.
func ProjectAPI(u *Universe, s *packet.Session) []Triple {
	out := []Triple{}
	for _, h := range s.GetHosts() {
		t := Triple{MAC: u.MACName(h.MACEntry.MAC), IP: u.IPName(h.Addr.IP), On: h.Online}
		if s.FindIP(h.Addr.IP) != h {
			t.IP = "ip:findip-mismatch:" + h.Addr.IP.String()
		}
		found := false
		for _, a := range s.IPAddrs(h.MACEntry.MAC) {
			if a.IP == h.Addr.IP {
				found = true
			}
		}
		if !found {
			t.IP = "ip:ipaddrs-missing:" + h.Addr.IP.String()
		}
		found = false
		for _, a := range s.FindByMAC(h.MACEntry.MAC) {
			if a.IP == h.Addr.IP {
				found = true
			}
		}
		if !found {
			t.IP = "ip:findbymac-missing:" + h.Addr.IP.String()
		}
		if e := s.FindMACEntry(h.MACEntry.MAC); e != h.MACEntry {
			t.MAC = "mac:findmacentry-mismatch"
		}
		out = append(out, t)
	}
	sort.Slice(out, func(i, j int) bool { return out[i].IP < out[j].IP })
	return out
}

// ProjectNote projects a notification.
func ProjectNote(u *Universe, n packet.Notification) NoteP {
	return NoteP{IP: u.IPName(n.Addr.IP), MAC: u.MACName(n.Addr.MAC), On: n.Online, Rt: n.IsRouter,
		Names: names5(n.DHCP4Name, n.MDNSName, n.SSDPName, n.LLMNRName, n.NBNSName)}
}
