package vh

import (
	"net"
	"net/netip"
	"strconv"
	"strings"
)

// Concrete network configurations for spec/Dhcp.tla. Abstract addresses are integers:
// offset inside the home LAN (0 = network address, N1-1 = broadcast), DhcpExtBase+i for the i-th
// address outside the LAN, DhcpNoA for "no address" (invalid or 0.0.0.0), DhcpBcastA for
// 255.255.255.255, DhcpUnknownA for anything else.
const (
	DhcpExtBase  = 1000
	DhcpNoA      = 9000
	DhcpBcastA   = 9999
	DhcpUnknownA = 7777
)

// DhcpNet is one home LAN / netfilter subnet pair.
type DhcpNet struct {
	Name      string
	Home      netip.Prefix
	Netfilter netip.Prefix // Netfilter.Addr() is our own address (gateway of the netfilter subnet)
	Router    netip.Addr
	DNS       netip.Addr   // configured DNS server handed to clients that are not captured
	Ext       []netip.Addr // addresses outside the home LAN
}

// DhcpNets: 0,1 have the same shape (home /29, netfilter /30 upper half, host at the low edge of
// net2), 2 is home /28 with netfilter /29 in the lower half, 3 is home /24 with netfilter /25,
// 4 is home /24 with a /26 in the middle.
var DhcpNets = []DhcpNet{
	{Name: "h29n30", Home: netip.MustParsePrefix("10.1.2.16/29"), Netfilter: netip.MustParsePrefix("10.1.2.21/30"),
		Router: netip.MustParseAddr("10.1.2.17"), DNS: netip.MustParseAddr("8.8.4.4"),
		Ext: []netip.Addr{netip.MustParseAddr("10.1.2.33"), netip.MustParseAddr("172.16.9.9")}},
	{Name: "h29n30b", Home: netip.MustParsePrefix("192.168.77.8/29"), Netfilter: netip.MustParsePrefix("192.168.77.13/30"),
		Router: netip.MustParseAddr("192.168.77.9"), DNS: netip.MustParseAddr("9.9.9.9"),
		Ext: []netip.Addr{netip.MustParseAddr("192.168.77.17"), netip.MustParseAddr("192.168.78.10")}},
	{Name: "h28n29", Home: netip.MustParsePrefix("10.1.2.16/28"), Netfilter: netip.MustParsePrefix("10.1.2.18/29"),
		Router: netip.MustParseAddr("10.1.2.25"), DNS: netip.MustParseAddr("8.8.4.4"),
		Ext: []netip.Addr{netip.MustParseAddr("10.1.2.33"), netip.MustParseAddr("172.16.9.9")}},
	{Name: "h24n25", Home: netip.MustParsePrefix("192.168.0.0/24"), Netfilter: netip.MustParsePrefix("192.168.0.129/25"),
		Router: netip.MustParseAddr("192.168.0.1"), DNS: netip.MustParseAddr("8.8.8.8"),
		Ext: []netip.Addr{netip.MustParseAddr("192.168.1.20"), netip.MustParseAddr("10.0.0.7")}},
	{Name: "h24n26", Home: netip.MustParsePrefix("172.20.4.0/24"), Netfilter: netip.MustParsePrefix("172.20.4.70/26"),
		Router: netip.MustParseAddr("172.20.4.254"), DNS: netip.MustParseAddr("1.0.0.1"),
		Ext: []netip.Addr{netip.MustParseAddr("172.20.5.1"), netip.MustParseAddr("10.0.0.7")}},
	// 5: home LAN shorter than /24 (x.y.0.255 and x.y.1.0 are ordinary host addresses), netfilter /25 in the last quarter
	{Name: "h23n25", Home: netip.MustParsePrefix("10.9.0.0/23"), Netfilter: netip.MustParsePrefix("10.9.1.129/25"),
		Router: netip.MustParseAddr("10.9.0.1"), DNS: netip.MustParseAddr("8.8.4.4"),
		Ext: []netip.Addr{netip.MustParseAddr("10.9.2.1"), netip.MustParseAddr("10.8.255.255")}},
}

// DhcpAltDNS is the DNS server of the changed configuration (action "reconf").
var DhcpAltDNS = netip.MustParseAddr("149.112.112.112")

func ip4u(a netip.Addr) uint32 {
	b := a.As4()
	return uint32(b[0])<<24 | uint32(b[1])<<16 | uint32(b[2])<<8 | uint32(b[3])
}

func u4ip(u uint32) netip.Addr {
	return netip.AddrFrom4([4]byte{byte(u >> 24), byte(u >> 16), byte(u >> 8), byte(u)})
}

func (n DhcpNet) HostIP() netip.Addr { return n.Netfilter.Addr() }
func (n DhcpNet) N1() int            { return 1 << (32 - n.Home.Bits()) }
func (n DhcpNet) Net2Lo() int {
	return int(ip4u(n.Netfilter.Masked().Addr()) - ip4u(n.Home.Masked().Addr()))
}
func (n DhcpNet) Net2Hi() int { return n.Net2Lo() + (1 << (32 - n.Netfilter.Bits())) - 1 }

// Abs maps a concrete address to the abstract integer.
func (n DhcpNet) Abs(a netip.Addr) int {
	if !a.IsValid() || a.IsUnspecified() {
		return DhcpNoA
	}
	a = a.Unmap()
	if !a.Is4() {
		return DhcpUnknownA
	}
	if n.Home.Masked().Contains(a) {
		return int(ip4u(a) - ip4u(n.Home.Masked().Addr()))
	}
	if a == netip.AddrFrom4([4]byte{255, 255, 255, 255}) {
		return DhcpBcastA
	}
	for i, e := range n.Ext {
		if e == a {
			return DhcpExtBase + i
		}
	}
	return DhcpUnknownA
}

// Conc maps an abstract address to a concrete one (NoA -> 0.0.0.0, the unknown address -> 203.0.113.77).
// ok is false for a value outside the universe of this network (a script error).
func (n DhcpNet) Conc(v int) (a netip.Addr, ok bool) {
	switch {
	case v == DhcpNoA:
		return netip.IPv4Unspecified(), true
	case v == DhcpBcastA:
		return netip.AddrFrom4([4]byte{255, 255, 255, 255}), true
	case v == DhcpUnknownA:
		return netip.AddrFrom4([4]byte{203, 0, 113, 77}), true
	case v >= DhcpExtBase && v < DhcpExtBase+len(n.Ext):
		return n.Ext[v-DhcpExtBase], true
	case v >= 0 && v < n.N1():
		return u4ip(ip4u(n.Home.Masked().Addr()) + uint32(v)), true
	}
	return netip.Addr{}, false
}

func (n DhcpNet) Mask(which int) []byte {
	bits := n.Home.Bits()
	if which == 2 {
		bits = n.Netfilter.Bits()
	}
	return []byte(net.CIDRMask(bits, 32))
}

// Universe returns the vh.Universe (NIC configuration) of this network.
func (n DhcpNet) Universe() *Universe {
	return &Universe{Cfg: NICConfig{Name: n.Name, HomeLAN: n.Home.Masked(), HostIP: n.HostIP(), RouterIP: n.Router,
		LanBase: n.Home.Masked().Addr(), ExtBase: n.Ext[0]}}
}

// Client tokens: "c<N>" names both a client identifier and a MAC. "stranger" is a host outside DHCP.
func DhcpMAC(name string) net.HardwareAddr {
	switch name {
	case "own":
		return OwnMAC
	case "router":
		return RouterMAC
	case "stranger":
		return net.HardwareAddr{0x02, 0x00, 0x00, 0x00, 0x02, 0x01}
	}
	if strings.HasPrefix(name, "c") {
		if k, err := strconv.Atoi(name[1:]); err == nil && k > 0 && k < 250 {
			return net.HardwareAddr{0x02, 0x00, 0x00, 0x00, 0x01, byte(k)}
		}
	}
	panic("dhcp: unknown mac name " + name)
}

func DhcpMACName(mac net.HardwareAddr) string {
	if len(mac) == 6 {
		switch {
		case string(mac) == string(OwnMAC):
			return "own"
		case string(mac) == string(RouterMAC):
			return "router"
		case mac[0] == 2 && mac[1] == 0 && mac[2] == 0 && mac[3] == 0 && mac[4] == 2 && mac[5] == 1:
			return "stranger"
		case mac[0] == 2 && mac[1] == 0 && mac[2] == 0 && mac[3] == 0 && mac[4] == 1 && mac[5] > 0 && mac[5] < 250:
			return "c" + strconv.Itoa(int(mac[5]))
		}
	}
	return "mac:" + mac.String()
}

// DhcpCID is the client identifier of token c<N>: the bare MAC for even N (what the server derives
// from chaddr when option 61 is absent), type byte 1 + MAC for odd N.
func DhcpCID(name string) []byte {
	mac := DhcpMAC(name)
	k, _ := strconv.Atoi(name[1:])
	if k%2 == 0 {
		return append([]byte{}, mac...)
	}
	return append([]byte{1}, mac...)
}

func DhcpCIDName(id []byte) string {
	switch len(id) {
	case 6:
		if n := DhcpMACName(net.HardwareAddr(id)); strings.HasPrefix(n, "c") {
			if k, _ := strconv.Atoi(n[1:]); k%2 == 0 {
				return n
			}
		}
	case 7:
		if id[0] == 1 {
			if n := DhcpMACName(net.HardwareAddr(id[1:])); strings.HasPrefix(n, "c") {
				if k, _ := strconv.Atoi(n[1:]); k%2 == 1 {
					return n
				}
			}
		}
	}
	return "cid:" + strconv.Quote(string(id))
}

// DhcpXID maps "x<N>" to a transaction id and back.
func DhcpXID(name string) uint32 {
	if strings.HasPrefix(name, "x") {
		if k, err := strconv.Atoi(name[1:]); err == nil && k > 0 && k < 250 {
			return 0xA1B20000 | uint32(k)
		}
	}
	panic("dhcp: unknown xid name " + name)
}

func DhcpXIDName(x []byte) string {
	if len(x) == 0 {
		return "nox"
	}
	if len(x) == 4 && x[0] == 0xA1 && x[1] == 0xB2 && x[2] == 0 && x[3] > 0 && x[3] < 250 {
		return "x" + strconv.Itoa(int(x[3]))
	}
	return "xid:" + strconv.Quote(string(x))
}
