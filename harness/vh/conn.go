package vh

import (
	"net"
	"sync"
	"time"
)

// RecConn is a net.PacketConn that records every frame written to it.
type RecConn struct {
	mu     sync.Mutex
	frames [][]byte
	dsts   []string
	closed bool
	rd     chan struct{}
	FailN  int // if > 0, the next FailN writes fail
}

func NewRecConn() *RecConn { return &RecConn{rd: make(chan struct{})} }

type errWrite struct{}

func (errWrite) Error() string { return "verif: injected write failure" }

func (c *RecConn) WriteTo(b []byte, addr net.Addr) (int, error) {
	c.mu.Lock()
	defer c.mu.Unlock()
	if c.FailN > 0 {
		c.FailN--
		return 0, errWrite{}
	}
	cp := make([]byte, len(b))
	copy(cp, b)
	c.frames = append(c.frames, cp)
	d := ""
	if addr != nil {
		d = addr.String()
	}
	c.dsts = append(c.dsts, d)
	return len(b), nil
}

// SetFail makes the next n writes fail.
func (c *RecConn) SetFail(n int) {
	c.mu.Lock()
	c.FailN = n
	c.mu.Unlock()
}

// Take returns and clears the recorded frames.
func (c *RecConn) Take() [][]byte {
	c.mu.Lock()
	defer c.mu.Unlock()
	f := c.frames
	c.frames = nil
	c.dsts = nil
	return f
}

func (c *RecConn) Len() int {
	c.mu.Lock()
	defer c.mu.Unlock()
	return len(c.frames)
}

// WaitLen waits until at least n frames are recorded or the timeout expires.
func (c *RecConn) WaitLen(n int, d time.Duration) bool {
	deadline := time.Now().Add(d)
	for time.Now().Before(deadline) {
		if c.Len() >= n {
			return true
		}
		time.Sleep(200 * time.Microsecond)
	}
	return c.Len() >= n
}

func (c *RecConn) ReadFrom(b []byte) (int, net.Addr, error) {
	<-c.rd
	return 0, nil, net.ErrClosed
}

func (c *RecConn) Close() error {
	c.mu.Lock()
	defer c.mu.Unlock()
	if !c.closed {
		c.closed = true
		close(c.rd)
	}
	return nil
}
func (c *RecConn) LocalAddr() net.Addr                { return nil }
func (c *RecConn) SetDeadline(t time.Time) error      { return nil }
func (c *RecConn) SetReadDeadline(t time.Time) error  { return nil }
func (c *RecConn) SetWriteDeadline(t time.Time) error { return nil }
