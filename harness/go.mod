module verifharness

go 1.18

require (
	github.com/irai/packet v0.0.0
	gitlab.com/golang-commonmark/puny v0.0.0-20191124015043-9f83538fa04f
	golang.org/x/net v0.34.0
	gopkg.in/yaml.v2 v2.4.0
)

require (
	github.com/mdlayher/netx v0.0.0-20230430222610-7e21880baee8 // indirect
	github.com/vishvananda/netlink v1.3.0 // indirect
	github.com/vishvananda/netns v0.0.5 // indirect
	golang.org/x/sys v0.29.0 // indirect
)

replace github.com/irai/packet => /repo
