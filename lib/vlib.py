"""Common machinery for the /verif checks.

Every check is `bin/check <ID> quick|thorough` (or `--replay <path>`).  A check
 1. runs TLC on a TLA+ module of /verif/spec (model side),
 2. builds a Go driver from /verif/harness against /repo's *current working tree*
    with `-tags verif` (implementation side),
 3. binds the two (behaviour replay, trace validation, vector comparison),
 4. writes /verif/evidence/<ID>.json and exits 0 / 1 (VIOLATION) / 2 (infrastructure).

Verdict rule (DESIGN 1.2): VIOLATION only for a contradiction between an execution of the
real code and a property-level predicate; everything else that goes wrong is exit 2.
"""
import hashlib
import json
import os
import re
import shutil
import signal
import subprocess
import sys
import tempfile
import time

VERIF = os.path.dirname(os.path.dirname(os.path.abspath(__file__)))
REPO = os.environ.get("VERIF_REPO", "/repo")
SPEC = os.path.join(VERIF, "spec")
HARNESS = os.path.join(VERIF, "harness")
TLAJAR = "/opt/veriftools/tla/tla2tools.jar:/opt/veriftools/tla/CommunityModules-deps.jar"

# Evidence and replay files describe /repo itself; runs against a scratch copy of the repository
# (mutation experiments, VERIF_REPO=...) write theirs elsewhere so they never masquerade as evidence.
OUTROOT = VERIF if os.path.realpath(REPO) == "/repo" else os.path.join("/tmp", "verif-scratch-out")

GOENV = {"GOFLAGS": "-mod=mod", "GOPROXY": "off", "GOSUMDB": "off", "GOTOOLCHAIN": "local"}


class InfraError(Exception):
    """Anything that prevents a verdict: exit 2, never a violation."""


def log(*a):
    print(*a, file=sys.stderr, flush=True)


def sh(cmd, cwd=None, env=None, timeout=None, check=True, capture=True, stdin=None):
    e = dict(os.environ)
    e.update(GOENV)
    if env:
        e.update(env)
    try:
        p = subprocess.run(cmd, cwd=cwd, env=e, timeout=timeout, input=stdin,
                           stdout=subprocess.PIPE if capture else None,
                           stderr=subprocess.STDOUT if capture else None,
                           shell=isinstance(cmd, str), text=True, errors="replace")
    except subprocess.TimeoutExpired as ex:
        raise InfraError("timeout after %ss: %s" % (timeout, cmd)) from ex
    if check and p.returncode != 0:
        raise InfraError("command failed (%d): %s\n%s" % (p.returncode, cmd, (p.stdout or "")[-4000:]))
    return p


class TLCResult:
    def __init__(self):
        self.ok = False            # completed without error
        self.violated = None       # name of violated invariant / property
        self.generated = 0
        self.distinct = 0
        self.left = 0
        self.depth = 0
        self.out = ""
        self.json = []             # decoded lines printed by PrintT(ToJson(..)) / VJ markers
        self.wall = 0.0
        self.coverage_zero = []
        self.error = None

    def summary(self):
        return {"generated": self.generated, "distinct": self.distinct, "depth": self.depth,
                "ok": self.ok, "violated": self.violated, "wall_s": round(self.wall, 2)}


_JSONLINE = re.compile(r'^"?(\{.*\}|\[.*\])"?$')


def _unquote_tla(s):
    """PrintT of a TLA+ string prints it in quotes with \\" escapes; undo that."""
    s = s.strip()
    if s.startswith('"') and s.endswith('"'):
        s = s[1:-1]
        s = s.replace('\\"', '"').replace("\\\\", "\\")
    return s


def parse_tlc_output(out, res):
    for line in out.splitlines():
        m = re.search(r"(\d+) states generated, (\d+) distinct states found, (\d+) states left on queue", line)
        if m:
            res.generated, res.distinct, res.left = int(m.group(1)), int(m.group(2)), int(m.group(3))
        m = re.search(r"The depth of the complete state graph search is (\d+)", line)
        if m:
            res.depth = int(m.group(1))
        m = re.search(r"Error: Invariant (\S+) is violated", line)
        if m:
            res.violated = m.group(1)
        m = re.search(r"Error: Action property (\S+) is violated", line)
        if m:
            res.violated = m.group(1)
        if "Error: Temporal properties were violated" in line:
            res.violated = res.violated or "TemporalProperty"
        if "Error: Deadlock reached" in line:
            res.violated = res.violated or "Deadlock"
        if line.startswith("Error:") and res.error is None:
            res.error = line
        st = line.strip()
        if st.startswith('"{') or st.startswith("{") or st.startswith('"[{') :
            try:
                res.json.append(json.loads(_unquote_tla(st)))
            except Exception:
                pass
    if "Model checking completed. No error has been found." in out or \
       re.search(r"Finished in .*", out) and res.error is None and res.violated is None:
        res.ok = res.error is None and res.violated is None
    return res


def tlc(ctx, module, cfg=None, workers=None, timeout=900, simulate=None, depth=None,
        files=None, extra=None, heap=None, coverage=False, deadlock=None, dfid=None, seed=None,
        jprops=None, keep_out=True):
    """Run TLC on /verif/spec/<module>.tla with config <cfg> in a scratch copy of the spec dir.
    files: {name: content or source path} written next to the specs (trace files etc)."""
    d = tempfile.mkdtemp(prefix="tlc-", dir=ctx.scratch)
    for f in os.listdir(SPEC):
        if f.endswith(".tla") or f.endswith(".cfg"):
            shutil.copy(os.path.join(SPEC, f), d)
    for name, content in (files or {}).items():
        p = os.path.join(d, name)
        if isinstance(content, (bytes, bytearray)):
            open(p, "wb").write(content)
        elif os.path.sep in content and os.path.exists(content):
            shutil.copy(content, p)
        else:
            open(p, "w").write(content)
    cfg = cfg or (module + ".cfg")
    meta = os.path.join(d, "meta")
    w = str(workers or ctx.workers)
    # TLC unpacks its standard modules into java.io.tmpdir (/tmp/tlc-<n>) and never removes them: keep that inside the scratch
    cmd = ["java", "-XX:+UseParallelGC", "-Xss64m", "-Djava.io.tmpdir=" + d]
    if heap:
        cmd.append("-Xmx" + heap)
    for k, v in (jprops or {}).items():
        cmd.append("-D%s=%s" % (k, v))
    cmd += ["-cp", TLAJAR, "tlc2.TLC", "-metadir", meta, "-workers", w, "-config", cfg, "-noGenerateSpecTE"]
    if simulate:
        cmd += ["-simulate", simulate]
    if depth:
        cmd += ["-depth", str(depth)]
    if seed is not None:
        cmd += ["-seed", str(seed)]
    if coverage:
        cmd += ["-coverage", "1"]
    if deadlock is False:
        cmd += ["-deadlock"]
    if dfid:
        cmd += ["-dfid", str(dfid)]
    cmd += list(extra or [])
    cmd.append(module)
    res = TLCResult()
    t0 = time.time()
    outp = os.path.join(d, "tlc.out")
    with open(outp, "w") as fo:
        try:
            p = subprocess.Popen(cmd, cwd=d, stdout=fo, stderr=subprocess.STDOUT, start_new_session=True)
            try:
                p.wait(timeout=timeout)
            except subprocess.TimeoutExpired:
                os.killpg(p.pid, signal.SIGKILL)
                p.wait()
                res.wall = time.time() - t0
                res.out = open(outp, errors="replace").read()
                parse_tlc_output(res.out, res)
                res.ok = False
                res.error = "timeout"
                res.timed_out = True
                return res
        except OSError as ex:
            raise InfraError("cannot start TLC: %s" % ex)
    res.wall = time.time() - t0
    res.rc = p.returncode
    res.out = open(outp, errors="replace").read()
    res.dir = d
    parse_tlc_output(res.out, res)
    if coverage:
        res.coverage_zero = re.findall(r"^<(\w+) line[^\n]*: 0:0$", res.out, re.M)
    shutil.rmtree(meta, ignore_errors=True)
    if not keep_out:
        res.out = res.out[-20000:]
    return res


def tlc_expect_ok(ctx, module, **kw):
    """Run TLC, require completion without error; a model-side failure is an infrastructure
    error (exit 2) unless the caller handles res.violated itself."""
    r = tlc(ctx, module, **kw)
    if not r.ok:
        raise InfraError("TLC %s did not complete cleanly: violated=%s error=%s\n%s" %
                         (module, r.violated, r.error, r.out[-3000:]))
    return r


def harness_dir(ctx):
    """The harness module replaces github.com/irai/packet => /repo.  When VERIF_REPO points at a
    scratch copy of the repository (mutation testing), build from a scratch copy of the harness
    whose go.mod points there instead."""
    if os.path.realpath(REPO) == "/repo":
        return HARNESS
    d = os.path.join(ctx.scratch, "harness")
    if not os.path.exists(d):
        shutil.copytree(HARNESS, d, ignore=shutil.ignore_patterns("bin"))
        gm = open(os.path.join(d, "go.mod")).read().replace("=> /repo", "=> " + os.path.realpath(REPO))
        open(os.path.join(d, "go.mod"), "w").write(gm)
    return d


def go_build(ctx, pkg, race=False, tags="verif"):
    """Build /verif/harness/cmd/<pkg> against the repository working tree. Returns binary path."""
    out = os.path.join(ctx.scratch, "bin", pkg + ("-race" if race else ""))
    if os.path.exists(out):
        return out
    os.makedirs(os.path.dirname(out), exist_ok=True)
    hd = harness_dir(ctx)
    gosum = os.path.join(hd, "go.sum")
    if not os.path.exists(gosum):
        shutil.copy(os.path.join(REPO, "go.sum"), gosum)
    cmd = ["go", "build", "-tags", tags]
    if race:
        cmd.append("-race")
    cmd += ["-o", out, "./cmd/" + pkg]
    p = sh(cmd, cwd=hd, timeout=900, check=False)
    if p.returncode != 0:
        raise InfraError("harness build failed (does the repository still compile with -tags verif?):\n" + p.stdout[-6000:])
    return out


def run_driver(ctx, binary, args, timeout=600, stdin=None, env=None, ok_codes=(0,)):
    """Run a Go driver. Drivers print their result as JSON on the last stdout line, everything
    else goes to stderr."""
    e = dict(os.environ)
    e.update({"VERIF_SEED": str(ctx.seed), "VERIF_TIER": ctx.tier})
    if env:
        e.update(env)
    try:
        p = subprocess.run([binary] + [str(a) for a in args], env=e, timeout=timeout, input=stdin,
                           stdout=subprocess.PIPE, stderr=subprocess.PIPE, text=True, errors="replace")
    except subprocess.TimeoutExpired as ex:
        raise InfraError("driver timeout %ss: %s %s" % (timeout, binary, args)) from ex
    if p.returncode not in ok_codes:
        raise InfraError("driver %s exited %d\nstderr:\n%s\nstdout:\n%s" %
                         (os.path.basename(binary), p.returncode, p.stderr[-4000:], p.stdout[-2000:]))
    return p


def load_known():
    """known_findings.json plus known_findings.d/*.json (one file per property family)."""
    out = []
    p = os.path.join(VERIF, "known_findings.json")
    if os.path.exists(p):
        out += json.load(open(p))
    d = os.path.join(VERIF, "known_findings.d")
    if os.path.isdir(d):
        for f in sorted(os.listdir(d)):
            if f.endswith(".json"):
                out += json.load(open(os.path.join(d, f)))
    return out


class Ctx:
    def __init__(self, pid, tier, seed, level):
        self.pid, self.tier, self.seed, self.level = pid, tier, seed, level
        self.scratch = tempfile.mkdtemp(prefix="verif-%s-" % pid)
        self.workers = min(16, os.cpu_count() or 4)
        self.t0 = time.time()
        self.violations = []
        self.known_seen = {}
        self.coverage = {}
        self.assumptions = []
        self.known = [k for k in load_known() if k.get("property") == pid]
        self.quick = tier == "quick"

    # ---- verdicts -------------------------------------------------------
    def report(self, key, what, replay_obj):
        """A contradiction between the real code and a property-level predicate.
        key: machine-matchable signature.  Listed open finding -> KNOWN-FINDING, else VIOLATION."""
        for k in self.known:
            if k.get("status") == "open" and _key_match(k["key"], key):
                if k["key"] not in self.known_seen:
                    self.known_seen[k["key"]] = {"count": 0, "what": k.get("what", what)}
                self.known_seen[k["key"]]["count"] += 1
                return "known"
        if len(self.violations) < 50:
            path = self.save_replay(key, what, replay_obj)
            self.violations.append({"key": key, "what": what, "replay": path})
            print("VIOLATION property=%s replay=%s" % (self.pid, path), flush=True)
            log("  violation key=%s: %s" % (key, what))
        return "violation"

    def save_replay(self, key, what, obj):
        d = os.path.join(OUTROOT, "replays", self.pid)
        os.makedirs(d, exist_ok=True)
        blob = json.dumps({"property": self.pid, "key": key, "what": what, "seed": self.seed,
                           "tier": self.tier, "replay": obj}, indent=1, sort_keys=True, default=str)
        h = hashlib.sha1(blob.encode()).hexdigest()[:12]
        path = os.path.join(d, "%s.json" % h)
        open(path, "w").write(blob)
        return path

    # ---- evidence -------------------------------------------------------
    def finish(self):
        for key, v in sorted(self.known_seen.items()):
            print("KNOWN-FINDING: property=%s %s %s (seen %d times)" % (self.pid, key, v["what"], v["count"]), flush=True)
        cov = dict(self.coverage)
        cov.setdefault("samples", [])
        cov["known_findings_seen"] = {k: v["count"] for k, v in self.known_seen.items()}
        ev = {"property_id": self.pid, "tier": self.tier, "seed": self.seed, "level": self.level,
              "coverage": cov, "assumptions": self.assumptions,
              "wall_s": round(time.time() - self.t0, 2), "violations": len(self.violations)}
        # checks outside the listed properties (X01..: components no listed property covers) keep their evidence apart
        edir = os.path.join(OUTROOT, "evidence", "extras") if self.pid.startswith("X") else os.path.join(OUTROOT, "evidence")
        os.makedirs(edir, exist_ok=True)
        p = os.path.join(edir, "%s.json" % self.pid)
        with open(p + ".tmp", "w") as f:
            json.dump(ev, f, indent=1, sort_keys=True, default=str)
            f.write("\n")
        os.replace(p + ".tmp", p)
        return 1 if self.violations else 0

    def cleanup(self):
        shutil.rmtree(self.scratch, ignore_errors=True)


def _key_match(pattern, key):
    """known-finding keys may end in '*' (prefix match); otherwise exact."""
    if pattern.endswith("*"):
        return key.startswith(pattern[:-1])
    return pattern == key


def digest(obj):
    return hashlib.sha1(json.dumps(obj, sort_keys=True, default=str).encode()).hexdigest()[:16]


def read_ndjson(path):
    out = []
    with open(path) as f:
        for line in f:
            line = line.strip()
            if line:
                out.append(json.loads(line))
    return out


def write_ndjson(path, recs):
    with open(path, "w") as f:
        for r in recs:
            f.write(json.dumps(r, sort_keys=True, separators=(",", ":")) + "\n")
