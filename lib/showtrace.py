#!/usr/bin/env python3
"""showtrace.py trace.ndjson LINE  -- print the behaviour containing LINE (1-based) up to LINE"""
import json, sys
def show(path, line, out=sys.stdout):
    L = []
    with open(path) as f:
        for i, x in enumerate(f):
            if i >= line: break
            L.append(x)
    j = line - 1
    while j > 0 and json.loads(L[j]).get('a') != 'reset': j -= 1
    for k in range(j, line):
        e = json.loads(L[k])
        print(k + 1, {x: e[x] for x in e if x not in ('hosts', 'macs', 'api')}, file=out)
        print('   hosts', [(h['ip'], h['mac'], 'on' if h['on'] else 'off', 'dirty' if h['dirty'] else '-', h['seen'], h['names']) for h in e.get('hosts', [])], file=out)
        print('   macs ', [(m['mac'], m['ip4'], 'on' if m['on'] else 'off', 'cap' if m['cap'] else '-', m['offer'], m['list'], m['names']) for m in e.get('macs', [])], file=out)
if __name__ == '__main__':
    show(sys.argv[1], int(sys.argv[2]))
