------------------------------- MODULE AddrVec -------------------------------
(* X02 -- vectors for the value type Addr (addr.go): String / FastLog / Network are total functions of
   (MAC, IP, Port), including the zero value.  One TLC state per descriptor; Export prints the descriptor and the token
   sequence of the text that Text demands; the driver maps the kinds to concrete values and their known text. *)
EXTENDS Naturals, Sequences, TLC, Json

CONSTANTS MacKinds,   \* subset of MacAll
          IpKinds,    \* subset of IpAll
          Ports
VARIABLE d

MacAll == {"nil", "empty", "len1", "len5", "len6", "len6zero", "len6bcast", "len7", "len8", "len20"}
IpAll  == {"invalid", "v4", "v4zero", "v4bcast", "v6", "v6zero", "v6zone", "v4in6"}
Is6(k) == k \in {"len6", "len6zero", "len6bcast"}
Valid(k) == k # "invalid"

\* Addr.String(): Logger.Msg("") of module "packet" followed by Addr.FastLog: mac, ip, and port only when non-zero
Text(macIs6, ipValid, port) ==
   <<"packet:", " mac=", IF macIs6 THEN "MAC" ELSE "nil", " ip=", IF ipValid THEN "IP" ELSE "nil">>
   \o (IF port # 0 THEN <<" port=", "PORT">> ELSE <<>>)

ASSUME MacKinds \subseteq MacAll /\ IpKinds \subseteq IpAll

VInit == d \in [mac : MacKinds, ip : IpKinds, port : Ports]
VNext == UNCHANGED d
VSpec == VInit /\ [][VNext]_d

VExport == PrintT(ToJson([mac |-> d.mac, ip |-> d.ip, port |-> d.port, network |-> "raw",
                          text |-> Text(Is6(d.mac), Valid(d.ip), d.port)]))
\* the zero value Addr{} is part of the enumeration whenever the cfg lists "nil", "invalid" and port 0
ZeroCovered == ("nil" \in MacKinds /\ "invalid" \in IpKinds /\ 0 \in Ports)
=============================================================================
