---------------------------- MODULE ArpHuntTrace ----------------------------
(* Trace validation of executions of the real arp_spoofer.Handler against ArpHunt.tla.
   Mode "M" (mechanism): every logged step must be the step ArpHunt.tla takes: the hunt list, the
     loop positions, the membership decision of each check and the emitted frames must equal the
     specification's.  The property predicates (Verdict) are evaluated on the way.
   Mode "P" (property): the observables (frames, hunt list, step record) are adopted from the
     log; only the property level is computed, from the logged arguments alone.
   Two vocabularies - gated lines (start stop close offer tick check act recv) written by the
   harness-driven replays, and real-time lines (prefix rt.) written from the hook events of runs with
   the genuine 6 s ticker. There the tick is not logged and, in mode M, the loop instance that
   produced a frame is an unlogged variable inferred by TLC.
   Many behaviours are concatenated; a "reset" line starts the next one. *)
EXTENDS ArpHunt, Json

CONSTANTS Mode, TraceFile
VARIABLES ln,      \* next line to consume
          skip     \* the current behaviour contradicted a property-level predicate: its remaining lines are skipped
tvars == <<hunt, loops, closed, offer, hostOf, pend, captured, out, ev, refHunt, refClosed, refOffer, rl, poisoned, pre, ln, skip>>

Trace == ndJsonDeserialize(TraceFile)
HW == 1                                  \* TLC register: highest line consumed
VI == 2                                  \* TLC register: sequence of property failures <<line, predicate>>, one per behaviour
E == Trace[ln]

Range(s) == {s[i] : i \in 1..Len(s)}
MacU == Targets \cup {NilMAC}
IpU  == IP4 \cup {V6, NoIP}
FrameMacU == MACS \cup {BcastMAC, NilMAC}

\* ---- decoding of the logged observables (everything must be inside the universe)
FrameOK(f) == /\ f.ed \in FrameMacU /\ f.sm \in FrameMacU /\ f.tm \in FrameMacU
              /\ f.si \in IpU /\ f.ti \in IpU /\ f.op \in {1, 2}
LFrames == [i \in 1..Len(E.frames) |-> Frame(E.frames[i].op, E.frames[i].ed, E.frames[i].sm, E.frames[i].si, E.frames[i].tm, E.frames[i].ti)]
\* a frame with an address outside the universe is still a frame: it fails the property predicates (or the
\* mechanism comparison) on its merits instead of making the line unreadable
FramesOK == \A i \in 1..Len(E.frames) : E.frames[i].op \in {1, 2}
HasList == "hunt" \in DOMAIN E
ListOK == /\ \A i \in 1..Len(E.hunt) : E.hunt[i].mac \in Targets /\ E.hunt[i].ip \in IpU
          /\ \A i, j \in 1..Len(E.hunt) : i # j => E.hunt[i].mac # E.hunt[j].mac
LHunt == [m \in Targets |-> IF \E i \in 1..Len(E.hunt) : E.hunt[i].mac = m
                            THEN E.hunt[CHOOSE i \in 1..Len(E.hunt) : E.hunt[i].mac = m].ip ELSE NoIP]
PcObs(pc) == IF pc \in {"send", "correct"} THEN "act" ELSE pc
PcsMatch == "pcs" \in DOMAIN E => [i \in 1..Len(loops') |-> PcObs(loops'[i].pc)] = E.pcs

Live == ~skip /\ Verdict = "none"
IsEvent(a) == Live /\ ln <= Len(Trace) /\ E.a = a /\ ln' = ln + 1 /\ ~("panic" \in DOMAIN E) /\ FramesOK /\ skip' = FALSE

\* Do(mm, rec, rr): mechanism mode checks the mechanism action against the log; property mode
\* adopts the observables.  rec is the step record as the log shows it.
Do(mm, rec, rr) ==
  /\ IF Mode = "M"
     THEN /\ mm /\ ev' = rec /\ out' = LFrames /\ PcsMatch
          /\ (HasList => ListOK /\ hunt' = LHunt)
     ELSE /\ ev' = rec /\ out' = LFrames
          /\ UNCHANGED <<loops, closed, offer, hostOf, pend, captured>>
  /\ rr
  /\ (Mode # "M" =>
        hunt' = IF HasList /\ ListOK THEN LHunt
                ELSE IF HasList THEN [m \in Targets |-> NoIP]          \* unreadable list: fails P_ListMatches unless nothing is hunted
                ELSE [m \in Targets |-> IF m \in refHunt' THEN RouterIP ELSE NoIP])   \* list not observed on this line

Note == [kind |-> "note"]

\* ---- gated vocabulary
\* a property failure of the state just reached is recorded once, by whichever step leaves that state
RecordFailure == (~skip /\ Verdict # "none") => TLCSet(VI, Append(TLCGet(VI), <<ln - 1, Verdict>>))
TReset == /\ ln <= Len(Trace) /\ E.a = "reset" /\ ln' = ln + 1 /\ skip' = FALSE /\ RecordFailure
          /\ hunt' = [m \in Targets |-> NoIP] /\ loops' = <<>> /\ closed' = FALSE
          /\ offer' = [m \in Targets |-> NoIP] /\ hostOf' = [ip \in LanIPs |-> NilMAC] /\ pend' = [m \in Targets |-> <<>>] /\ captured' = {} /\ out' = <<>> /\ ev' = [kind |-> "init"]
          /\ refHunt' = {} /\ refClosed' = FALSE /\ refOffer' = [m \in Targets |-> NoIP]
          /\ rl' = <<>> /\ poisoned' = [m \in Targets |-> "ok"] /\ pre' = NoPre

TStart == /\ (IsEvent("start") \/ IsEvent("rt.start")) /\ E.mac \in MacU /\ E.ip \in IpU
          /\ Do(StartHuntM(E.mac, E.ip),
                [kind |-> "start", mac |-> E.mac, ip |-> E.ip, err |-> E.err, spawned |-> E.spawned],
                StartHuntR(E.mac, E.ip, E.spawned))
TStop == /\ (IsEvent("stop") \/ IsEvent("rt.stop")) /\ E.mac \in MacU
         /\ Do(StopHuntM(E.mac), [kind |-> "stop", mac |-> E.mac], StopHuntR(E.mac))
TClose == /\ (IsEvent("close") \/ IsEvent("rt.close"))
          /\ Do(CloseAndWakeM /\ E.stuck = <<>>, [kind |-> "close", stuck |-> Range(E.stuck)], CloseR)
TOffer == /\ IsEvent("offer") /\ E.mac \in Targets /\ E.ip \in IpU
          /\ Do(OfferM(E.mac, E.ip), [kind |-> "offer", mac |-> E.mac, ip |-> E.ip], OfferR(E.mac, E.ip))
LoopKnown == E.l \in 1..Len(rl)
TTick == /\ IsEvent("tick") /\ LoopKnown
         /\ Do(TickM(E.l), [kind |-> "tick", l |-> E.l], IdleR)
TCheck == /\ IsEvent("check") /\ LoopKnown /\ E.tgt \in MacU
          /\ Do(LoopCheckM(E.l, E.tgt), [kind |-> "check", l |-> E.l, hunting |-> E.hunting, tgt |-> E.tgt], LoopCheckR(E.l))
TAct == /\ IsEvent("act") /\ LoopKnown
        /\ Do(LoopActM(E.l, TRUE), [kind |-> "act", l |-> E.l, done |-> E.done], LoopActR(E.l))
TRecv == /\ IsEvent("recv") /\ E.sm \in Targets /\ E.es \in Targets /\ E.si \in IpU /\ E.ti \in IpU
         /\ Do(RecvM(E.op, E.es, E.sm, E.si, E.ti),
               [kind |-> "recv", op |-> E.op, es |-> E.es, sm |-> E.sm, si |-> E.si, ti |-> E.ti], RecvR)
TCapture == /\ (IsEvent("capture") \/ IsEvent("release")) /\ E.mac \in Targets
            /\ Do(CaptureM(E.mac, E.a = "capture"), [kind |-> "capture", mac |-> E.mac, on |-> E.a = "capture"], IdleR)
\* E.n overlapping StartHunt calls for one address, released together and joined
TCStart == /\ IsEvent("cstart") /\ E.mac \in MacU /\ E.ip \in IpU
           /\ Do(ConcStartM(E.mac, E.ip, E.n),
                 [kind |-> "cstart", mac |-> E.mac, ip |-> E.ip, n |-> E.n, errs |-> E.errs, spawned |-> E.spawned],
                 StartHuntR(E.mac, E.ip, E.spawned))

\* ---- real-time vocabulary (hook events in the order of the handler mutex; frames from the connection)
NoteStep(cond) == /\ (Mode = "M" => cond) /\ ev' = Note /\ out' = <<>> /\ IdleR
                  /\ UNCHANGED <<hunt, loops, closed, offer, hostOf, pend, captured>>
TRtLoop == /\ IsEvent("rt.loop") /\ LoopKnown
           /\ NoteStep(loops[E.l].mac = E.mac /\ rl[E.l].mac = E.mac)
TRtCheck == /\ IsEvent("rt.check") /\ LoopKnown /\ E.tgt \in MacU
            /\ Do(LoopCheckFromM(E.l, E.tgt, {"check", "wait"}),
                  [kind |-> "check", l |-> E.l, hunting |-> E.hunting, tgt |-> E.tgt], LoopCheckR(E.l))
\* one frame written by some loop: in mode M the loop is inferred, in mode P it is the loop the
\* harness attributed the write to (goroutine of the writer)
TRtFrame == /\ IsEvent("rt.frame") /\ Len(E.frames) = 1
            /\ IF Mode = "M"
               THEN \E k \in 1..Len(loops) :
                       Do(LoopActM(k, FALSE), [kind |-> "act", l |-> k, done |-> loops[k].pc = "correct"], LoopActR(k))
               ELSE /\ E.l \in 1..Len(rl)
                    /\ Do(TRUE, [kind |-> "act", l |-> E.l, done |-> FrameKind(LFrames[1]) = "restore"], LoopActR(E.l))
\* the loop goroutine returned: either it already ended with its corrective frame, or it ends silently now
TRtDone == /\ IsEvent("rt.done") /\ LoopKnown /\ E.frames = <<>>
           /\ IF rl[E.l].alive
              THEN Do(LoopActM(E.l, FALSE), [kind |-> "act", l |-> E.l, done |-> TRUE], LoopActR(E.l))
              ELSE NoteStep(loops[E.l].pc = "done")

\* the library panicked inside this step (reported by the check itself); the driver abandons the
\* behaviour, the next line is a reset
TPanic == /\ Live /\ ln <= Len(Trace) /\ "panic" \in DOMAIN E /\ ln' = ln + 1
          /\ UNCHANGED vars /\ skip' = FALSE

\* the line just consumed contradicted a property-level predicate: record it once and skip the
\* rest of this behaviour (the next reset line starts afresh), so that one run reports every behaviour
TSkip == /\ ~Live /\ ln <= Len(Trace) /\ E.a # "reset" /\ ln' = ln + 1 /\ skip' = TRUE
         /\ RecordFailure
         /\ UNCHANGED vars

TraceInit == /\ ln = 1 /\ skip = FALSE /\ TLCSet(HW, 0) /\ TLCSet(VI, <<>>) /\ Init

TraceNext == \/ TPanic \/ TSkip \/ TReset \/ TStart \/ TStop \/ TClose \/ TOffer \/ TTick \/ TCheck \/ TAct \/ TRecv \/ TCStart \/ TCapture
             \/ TRtLoop \/ TRtCheck \/ TRtFrame \/ TRtDone

TraceSpec == TraceInit /\ [][TraceNext]_tvars

Mark == TLCSet(HW, IF ln - 1 > TLCGet(HW) THEN ln - 1 ELSE TLCGet(HW))   \* CONSTRAINT, always TRUE

\* A failure on the very last line has no successor step to record it: the postcondition cannot see
\* the state, so the CONSTRAINT Last records it.
Last == (ln = Len(Trace) + 1 /\ ~skip /\ Verdict # "none") => TLCSet(VI, Append(TLCGet(VI), <<ln - 1, Verdict>>))

TraceAccepted ==
  /\ \A i \in 1..Len(TLCGet(VI)) : Print(<<"PROPERTY", TLCGet(VI)[i][2], "line", TLCGet(VI)[i][1]>>, TRUE)
  /\ IF TLCGet(HW) = Len(Trace) THEN Print(<<"ACCEPTED", Len(Trace), "failures", Len(TLCGet(VI))>>, TRUE)
     ELSE Print(<<"REJECTED", "line", TLCGet(HW) + 1>>, FALSE)
=============================================================================
