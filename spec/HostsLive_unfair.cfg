SPECIFICATION LSpecUnfair
CONSTANTS
  Own = own
  Router = router
  Clients = {m1, m2}
  HostIP = hostip
  RouterIP = routerip
  LanIPs = {a1, a2}
  ExtIPs = {}
  LLAs = {l1}
  GUAs = {}
  Slots = {dhcp}
  Dhcp = dhcp
  Llmnr = llmnr
  Names = {n1}
  NoIP = noip
  NoName = noname
  ProbeD = 1
  OfflineD = 2
  PurgeD = 4
  Never = 100000
  Budget = 1
INVARIANTS LiveTypeOK C04_Equal C05_All
PROPERTIES AgesOutM
CHECK_DEADLOCK FALSE
