SPECIFICATION Spec
CONSTANTS
  TraceFile = "snapshots.ndjson"
INVARIANT Done
CHECK_DEADLOCK FALSE
