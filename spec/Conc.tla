-------------------------------- MODULE Conc --------------------------------
(***************************************************************************)
(* Lock protocol of irai/packet under the supported concurrency pattern    *)
(* (session.go, hosttable.go, mactable.go, layer_frame.go:152-259,415-465, *)
(* notification.go; handler flags of handlers/arp_spoofer/spoof.go and     *)
(* handlers/icmp_spoofer/icmp6.go).                                        *)
(*                                                                         *)
(* One process per goroutine:                                              *)
(*   loop    for every frame: Parse (findOrCreateHostWithLock fast / slow   *)
(*           path, unlocked read of Host.Online, onlineTransition) then     *)
(*           Notify (notify read phase, makeOffline of siblings, write      *)
(*           phase)                                                         *)
(*   purge   one round of Session.purge(now): GetHosts snapshot, per-row    *)
(*           scan, makeOffline, delete under the session write lock         *)
(*   api[i]  one query / control call each (FindIP, GetHosts, PrintTable,   *)
(*           IPAddrs, FindByMAC, FindMACEntry, Capture, Release,            *)
(*           IsCaptured, DHCPv4IPOffer, SetDHCPv4IPOffer); entries returned *)
(*           by a query are read under the row lock as hosttable.go:22-24   *)
(*           demands                                                        *)
(*   arp, closer, ra   ARP spoof loop, Handler.Close / Handler6.Close,      *)
(*           the RA branch of Handler6.ProcessPacket (handler flags)        *)
(*                                                                         *)
(* Every action is one lock operation or one critical section / unlocked   *)
(* region of the code and carries its access set Acc(p): records           *)
(* [loc, w, site] over abstract locations (host h: seen online dirty,       *)
(* MAC entry m: seen online ip4 offer captured list, the two tables,        *)
(* handler flags).  site is the `function/field` name the race detector's  *)
(* reports are normalised to (checks/conc_common.py), so that the set of    *)
(* racing pairs TLC computes here and the set observed on the real code     *)
(* speak the same language.                                                 *)
(*                                                                         *)
(* Hosts and MAC entries are objects with identity (a deleted host is       *)
(* still referenced by the frame that found it), the tables hold ids.       *)
(* Lock discipline: Fixed = FALSE is the code as it is; Fixed = TRUE is a   *)
(* repaired discipline (every access to a host / MAC entry field under the  *)
(* row lock of its entry, table structure under the session lock, purge     *)
(* re-checks under both) for which RaceFree and PurgeDeleteStale hold.      *)
(***************************************************************************)
EXTENDS Naturals, Sequences, FiniteSets, TLC

CONSTANTS MACs, IPs, NoIP, NoProc,     \* MACs, IPs: sets of positive naturals (0 = none)
          Frames,       \* sequence of [mac, ip]: what the packet loop receives
          ApiProcs,     \* API caller processes (a set; may be empty)
          ApiOps,       \* operations an API caller may perform (it performs one)
          InitHosts,    \* set of [mac, ip, online, seen]: the tables before the run
          FrameTime,    \* time.Now() of the packet loop
          PurgeNow, OfflineD, PurgeD,
          Handlers,     \* TRUE: include the handler-flag processes
          Fixed,
          NestedRLock   \* TRUE: a shape the code must not take -- notify's sibling scan read-locks the row again (an accessor
                        \* that locks for itself, called under the caller's RLock): with Go's writer preference the inner
                        \* RLock queues behind a pending Lock() and nothing moves any more; TLC must report the deadlock

VARIABLES h6Mu, h6Closed,    \* Handler6.Mutex, Handler6.closed
          sessClosed,        \* Session.Close ran: closeChan and the notification channel C are closed
          htab,     \* IPs -> host id | 0                  HostTable.Table
          mtab,     \* set of MAC entry ids                 MACTable.Table
          hobj,     \* host id -> [ip, m, online, dirty, seen]
          mobj,     \* MAC entry id -> [mac, online, ip4, offer, captured, seen, list]
          nextH, nextM,
          sess,     \* session RWMutex  [w, r]
          row,      \* MAC entry id -> row RWMutex
          pc, loc,  \* per process program counter and locals
          arpMu, hunting, arpClosed, closeChanClosed, h6Chan,   \* handler state
          staleDel, \* purge deleted a host that was online or fresh at deletion
          panicked  \* printHostTable's consistency panic fired

vars == <<htab, mtab, hobj, mobj, nextH, nextM, sess, row, pc, loc,
          arpMu, hunting, arpClosed, closeChanClosed, h6Chan, h6Mu, h6Closed, sessClosed, staleDel, panicked>>

NF == Len(Frames)
HIds == 1..(Cardinality(InitHosts) + NF)
MIds == 1..(Cardinality(MACs) + NF)
HProcs == IF Handlers THEN {"arp", "ndp", "closer", "ra", "ish", "sth", "nsth"} ELSE {}
Procs == {"loop", "purge"} \cup ApiProcs \cup HProcs

Range(s) == {s[i] : i \in 1..Len(s)}
SeqRemove(s, x) == SelectSeq(s, LAMBDA e : e # x)
RECURSIVE SetToSeq(_)
SetToSeq(S) == IF S = {} THEN <<>> ELSE LET x == CHOOSE y \in S : \A z \in S : y <= z IN <<x>> \o SetToSeq(S \ {x})

-----------------------------------------------------------------------------
(* RW mutexes with Go's writer preference: a pending Lock() blocks new RLock()s.
   The pending writers are derived from the program counters. *)
Free == [w |-> NoProc, r |-> {}]
SessWPcs == {"foc_w", "pg_w", "api_w"}
RowWPcs  == {"mo_w", "nt_w", "ot_w", "pgd_w", "fs_lock", "api_wrow_w", "foc_seen_w"}
SessWaiting == {p \in Procs : pc[p] \in SessWPcs}
RowWaiting(m) == {p \in Procs : pc[p] \in RowWPcs /\ loc[p].m = m}
CanSessR == sess.w = NoProc /\ SessWaiting = {}
CanSessW == sess.w = NoProc /\ sess.r = {}
CanRowR(m) == row[m].w = NoProc /\ RowWaiting(m) = {}
CanRowW(m) == row[m].w = NoProc /\ row[m].r = {}

HoldsSess(p) == sess.w = p \/ p \in sess.r
HoldsRow(p)  == \E m \in MIds : row[m].w = p \/ p \in row[m].r

-----------------------------------------------------------------------------
(* data operators *)
NoHost == [ip |-> NoIP, m |-> 0, online |-> FALSE, dirty |-> FALSE, seen |-> 0]
NoMac  == [mac |-> 0, online |-> FALSE, ip4 |-> NoIP, offer |-> NoIP, captured |-> FALSE, seen |-> 0, list |-> <<>>]
Lookup(ip) == htab[ip]
FindMac(mac) == IF \E m \in mtab : mobj[m].mac = mac THEN CHOOSE m \in mtab : mobj[m].mac = mac ELSE 0

L0 == [host |-> 0, found |-> 0, m |-> 0, fi |-> 0, flag |-> FALSE, todo |-> <<>>, off |-> <<>>, del |-> <<>>,
       op |-> "none", arg |-> 0, ip |-> NoIP, ret |-> "none", hunt |-> FALSE, rows |-> {}]

\* the initial tables
InitIdx == SetToSeq({h.ip : h \in InitHosts})     \* requires IPs to be ordered (naturals)
Init ==
  LET n  == Cardinality(InitHosts)
      hs == [i \in 1..n |-> CHOOSE h \in InitHosts : h.ip = InitIdx[i]]
      ms == SetToSeq({hs[i].mac : i \in 1..n})
      mid(mac) == CHOOSE j \in 1..Len(ms) : ms[j] = mac
  IN /\ htab = [ip \in IPs |-> IF \E i \in 1..n : hs[i].ip = ip THEN CHOOSE i \in 1..n : hs[i].ip = ip ELSE 0]
     /\ hobj = [i \in HIds |-> IF i <= n THEN [ip |-> hs[i].ip, m |-> mid(hs[i].mac), online |-> hs[i].online,
                                                dirty |-> FALSE, seen |-> hs[i].seen] ELSE NoHost]
     /\ mtab = 1..Len(ms)
     /\ mobj = [j \in MIds |-> IF j <= Len(ms)
                  THEN [mac |-> ms[j], online |-> \E i \in 1..n : hs[i].mac = ms[j] /\ hs[i].online,
                        \* MACEntry.IP4: the online address, else the last address seen (the largest here)
                        ip4 |-> IF \E i \in 1..n : hs[i].mac = ms[j] /\ hs[i].online
                                THEN hs[CHOOSE i \in 1..n : hs[i].mac = ms[j] /\ hs[i].online].ip
                                ELSE hs[CHOOSE i \in 1..n : hs[i].mac = ms[j] /\ \A k \in 1..n : hs[k].mac = ms[j] => hs[k].ip <= hs[i].ip].ip,
                        offer |-> NoIP, captured |-> FALSE, seen |-> 0,
                        list |-> SetToSeq({i \in 1..n : hs[i].mac = ms[j]})]
                  ELSE NoMac]
     /\ nextH = n + 1 /\ nextM = Len(ms) + 1
     /\ sess = Free /\ row = [m \in MIds |-> Free]
     /\ pc = [p \in Procs |-> IF p = "loop" THEN "idle" ELSE IF p = "purge" THEN "pg_r"
                               ELSE IF p \in ApiProcs THEN "api_pick" ELSE IF p = "arp" THEN "arp_lock"
                               ELSE IF p = "closer" THEN "cl_arp" ELSE IF p = "ndp" THEN "ndp_lock"
                               ELSE IF p = "ish" THEN "ish_read" ELSE IF p = "sth" THEN "sth_lock" ELSE IF p = "nsth" THEN "nsth_lock"
                               ELSE "ra_read"]
     /\ loc = [p \in Procs |-> L0]
     /\ arpMu = NoProc /\ hunting = TRUE /\ arpClosed = FALSE /\ closeChanClosed = FALSE /\ h6Chan = 0
     /\ h6Mu = NoProc /\ h6Closed = FALSE /\ sessClosed = FALSE
     /\ staleDel = FALSE /\ panicked = FALSE

Goto(p, l)     == pc' = [pc EXCEPT ![p] = l]
SetLoc(p, f)   == loc' = [loc EXCEPT ![p] = f]
Data  == <<htab, mtab, hobj, mobj, nextH, nextM>>
HVars == <<arpMu, hunting, arpClosed, closeChanClosed, h6Chan, h6Mu, h6Closed, sessClosed>>
Flags == <<staleDel, panicked>>

\* lock steps
SessRLock(p, nxt)   == CanSessR /\ sess' = [sess EXCEPT !.r = @ \cup {p}] /\ Goto(p, nxt)
SessWLock(p, nxt)   == CanSessW /\ sess' = [sess EXCEPT !.w = p] /\ Goto(p, nxt)
RowRLock(p, m, nxt) == CanRowR(m) /\ row' = [row EXCEPT ![m].r = @ \cup {p}] /\ Goto(p, nxt)
RowWLock(p, m, nxt) == CanRowW(m) /\ row' = [row EXCEPT ![m].w = p] /\ Goto(p, nxt)
SessRUnlock(p) == sess' = [sess EXCEPT !.r = @ \ {p}]
SessWUnlock(p) == sess' = [sess EXCEPT !.w = NoProc]
RowRUnlock(p, m) == row' = [row EXCEPT ![m].r = @ \ {p}]
RowWUnlock(p, m) == row' = [row EXCEPT ![m].w = NoProc]

-----------------------------------------------------------------------------
(* deleteHost(ip) under the session write lock: unlink, delete from the index, delete the MAC
   entry with its last host.  Returns the new <<htab, mtab, mobj>>. *)
DeleteHost(ht, mt, mo, ip) ==
  IF ht[ip] = 0 THEN [ht |-> ht, mt |-> mt, mo |-> mo]
  ELSE LET h == ht[ip]
           m == hobj[h].m
           l2 == SeqRemove(mo[m].list, h)
       IN [ht |-> [ht EXCEPT ![ip] = 0],
           mt |-> IF l2 = <<>> THEN mt \ {m} ELSE mt,
           mo |-> [mo EXCEPT ![m].list = l2]]

\* makeOffline body (row write lock held): host.Online = false; dirty = false; MACEntry.Online = any host online
MakeOfflineBody(v) ==
  LET m  == hobj[v].m
      h1 == [hobj EXCEPT ![v].online = FALSE, ![v].dirty = FALSE]
  IN /\ hobj' = h1
     /\ mobj' = [mobj EXCEPT ![m].online = \E x \in Range(mobj[m].list) : h1[x].online]

-----------------------------------------------------------------------------
(* packet loop *)
F(p) == Frames[loc[p].fi]

LoopNext ==
  LET p == "loop" IN
  \/ /\ pc[p] = "idle" /\ loc[p].fi < NF
     /\ SetLoc(p, [L0 EXCEPT !.fi = loc[p].fi + 1]) /\ Goto(p, "foc_r")
     /\ UNCHANGED <<Data, sess, row, HVars, Flags>>
  \/ /\ pc[p] = "idle" /\ loc[p].fi = NF /\ Goto(p, "done")
     /\ UNCHANGED <<Data, sess, row, loc, HVars, Flags>>
  \* findOrCreateHostWithLock: h.mutex.RLock()
  \/ /\ pc[p] = "foc_r" /\ SessRLock(p, "foc_fast") /\ UNCHANGED <<Data, row, loc, HVars, Flags>>
  \* fast path: lookup, LastSeen = now on a hit (under the session READ lock), RUnlock
  \/ /\ pc[p] = "foc_fast"
     /\ LET h == Lookup(F(p).ip)
            hit == h # 0 /\ mobj[hobj[h].m].mac = F(p).mac
        IN IF hit
           THEN IF Fixed
                THEN /\ SetLoc(p, [loc[p] EXCEPT !.host = h, !.m = hobj[h].m]) /\ Goto(p, "foc_seen_w")
                     /\ UNCHANGED <<Data, sess>>
                ELSE /\ hobj' = [hobj EXCEPT ![h].seen = FrameTime]
                     /\ mobj' = [mobj EXCEPT ![hobj[h].m].seen = FrameTime]
                     /\ SessRUnlock(p)
                     /\ SetLoc(p, [loc[p] EXCEPT !.host = h, !.m = hobj[h].m]) /\ Goto(p, "parse_online")
                     /\ UNCHANGED <<htab, mtab, nextH, nextM>>
           ELSE /\ SessRUnlock(p) /\ SetLoc(p, [loc[p] EXCEPT !.found = h]) /\ Goto(p, "foc_g")
                /\ UNCHANGED Data
     /\ UNCHANGED <<row, HVars, Flags>>
  \* (repaired) stamp under the row write lock while still holding the session read lock
  \/ /\ pc[p] = "foc_seen_w" /\ RowWLock(p, loc[p].m, "foc_seen") /\ UNCHANGED <<Data, sess, loc, HVars, Flags>>
  \/ /\ pc[p] = "foc_seen"
     /\ hobj' = [hobj EXCEPT ![loc[p].host].seen = FrameTime] /\ mobj' = [mobj EXCEPT ![loc[p].m].seen = FrameTime]
     /\ RowWUnlock(p, loc[p].m) /\ SessRUnlock(p) /\ Goto(p, "parse_online")
     /\ UNCHANGED <<htab, mtab, nextH, nextM, loc, HVars, Flags>>
  \* gate "foc.upgrade": between the RUnlock and the Lock call nobody holds or waits for anything
  \/ /\ pc[p] = "foc_g" /\ Goto(p, "foc_w") /\ UNCHANGED <<Data, sess, row, loc, HVars, Flags>>
  \* slow path: h.mutex.Lock()  (from here on the loop is a pending writer)
  \/ /\ pc[p] = "foc_w" /\ SessWLock(p, IF Fixed THEN "fs_plan" ELSE "foc_slow") /\ UNCHANGED <<Data, row, loc, HVars, Flags>>
  \* (repaired) take the row write locks of the entries whose list / fields are about to change, in id order
  \/ /\ pc[p] = "fs_plan"
     /\ LET em == FindMac(F(p).mac)
            rs == (IF em # 0 THEN {em} ELSE {}) \cup (IF loc[p].found # 0 /\ htab[F(p).ip] # 0 THEN {hobj[htab[F(p).ip]].m} ELSE {})
        IN IF rs = {} THEN Goto(p, "foc_slow") /\ UNCHANGED loc
           ELSE SetLoc(p, [loc[p] EXCEPT !.todo = SetToSeq(rs), !.m = SetToSeq(rs)[1], !.rows = rs]) /\ Goto(p, "fs_lock")
     /\ UNCHANGED <<Data, sess, row, HVars, Flags>>
  \/ /\ pc[p] = "fs_lock" /\ CanRowW(loc[p].m)
     /\ row' = [row EXCEPT ![loc[p].m].w = p]
     /\ IF Len(loc[p].todo) = 1 THEN Goto(p, "foc_slow") /\ SetLoc(p, [loc[p] EXCEPT !.todo = <<>>])
        ELSE SetLoc(p, [loc[p] EXCEPT !.todo = Tail(@), !.m = loc[p].todo[2]]) /\ UNCHANGED pc
     /\ UNCHANGED <<Data, sess, HVars, Flags>>
  \/ /\ pc[p] = "foc_slow"
     /\ LET d  == IF loc[p].found # 0 THEN DeleteHost(htab, mtab, mobj, F(p).ip)
                  ELSE [ht |-> htab, mt |-> mtab, mo |-> mobj]
            em == IF \E m \in d.mt : d.mo[m].mac = F(p).mac THEN CHOOSE m \in d.mt : d.mo[m].mac = F(p).mac ELSE 0
            m  == IF em # 0 THEN em ELSE nextM
            mo1 == IF em # 0 THEN d.mo ELSE [d.mo EXCEPT ![nextM] = [NoMac EXCEPT !.mac = F(p).mac]]
            h  == nextH
        IN /\ hobj' = [hobj EXCEPT ![h] = [ip |-> F(p).ip, m |-> m, online |-> FALSE, dirty |-> TRUE, seen |-> FrameTime]]
           /\ mobj' = [mo1 EXCEPT ![m].list = Append(@, h), ![m].seen = FrameTime]
           /\ htab' = [d.ht EXCEPT ![F(p).ip] = h]
           /\ mtab' = d.mt \cup {m}
           /\ nextH' = nextH + 1 /\ nextM' = IF em # 0 THEN nextM ELSE nextM + 1
           /\ SetLoc(p, [loc[p] EXCEPT !.host = h, !.m = m, !.rows = {}])
     /\ SessWUnlock(p) /\ Goto(p, "parse_online")
     /\ row' = [m \in MIds |-> IF m \in loc[p].rows THEN [row[m] EXCEPT !.w = NoProc] ELSE row[m]]
     /\ UNCHANGED <<HVars, Flags>>
  \* Parse: `if !frame.Host.Online {` read without any lock
  \/ /\ pc[p] = "parse_online"
     /\ IF Fixed THEN Goto(p, "ot_w") /\ UNCHANGED loc
        ELSE IF hobj[loc[p].host].online THEN Goto(p, "nt_r") /\ UNCHANGED loc
        ELSE Goto(p, "ot_a") /\ SetLoc(p, [loc[p] EXCEPT !.flag = TRUE])
     /\ UNCHANGED <<Data, sess, row, HVars, Flags>>
  \* onlineTransition, no lock: MACEntry.Online = true
  \/ /\ pc[p] = "ot_a"
     /\ IF hobj[loc[p].host].online THEN Goto(p, "nt_r") /\ UNCHANGED Data
        ELSE mobj' = [mobj EXCEPT ![loc[p].m].online = TRUE] /\ Goto(p, "ot_b") /\ UNCHANGED <<htab, mtab, hobj, nextH, nextM>>
     /\ UNCHANGED <<sess, row, loc, HVars, Flags>>
  \* host.Online = true; host.dirty = true
  \/ /\ pc[p] = "ot_b"
     /\ hobj' = [hobj EXCEPT ![loc[p].host].online = TRUE, ![loc[p].host].dirty = TRUE]
     /\ Goto(p, "ot_c") /\ UNCHANGED <<htab, mtab, mobj, nextH, nextM, sess, row, loc, HVars, Flags>>
  \* IPv4 changed: MACEntry.IP4 = ip; every other online IPv4 host of the list goes offline + dirty
  \/ /\ pc[p] = "ot_c"
     /\ LET h == loc[p].host
            m == loc[p].m
        IN IF hobj[h].ip # mobj[m].ip4
           THEN /\ mobj' = [mobj EXCEPT ![m].ip4 = hobj[h].ip]
                /\ hobj' = [x \in HIds |-> IF x \in Range(mobj[m].list) /\ x # h /\ hobj[x].ip # hobj[h].ip /\ hobj[x].online
                                           THEN [hobj[x] EXCEPT !.online = FALSE, !.dirty = TRUE] ELSE hobj[x]]
           ELSE UNCHANGED <<hobj, mobj>>
     /\ IF Fixed THEN RowWUnlock(p, loc[p].m) ELSE UNCHANGED row
     /\ Goto(p, "nt_r") /\ UNCHANGED <<htab, mtab, nextH, nextM, sess, loc, HVars, Flags>>
  \* (repaired) the Online test and the whole transition under the row write lock
  \/ /\ pc[p] = "ot_w" /\ RowWLock(p, loc[p].m, "ot_chk") /\ UNCHANGED <<Data, sess, loc, HVars, Flags>>
  \/ /\ pc[p] = "ot_chk"
     /\ IF hobj[loc[p].host].online THEN RowWUnlock(p, loc[p].m) /\ Goto(p, "nt_r") /\ UNCHANGED <<Data, loc>>
        ELSE /\ mobj' = [mobj EXCEPT ![loc[p].m].online = TRUE]
             /\ hobj' = [hobj EXCEPT ![loc[p].host].online = TRUE, ![loc[p].host].dirty = TRUE]
             /\ SetLoc(p, [loc[p] EXCEPT !.flag = TRUE]) /\ Goto(p, "ot_c") /\ UNCHANGED <<htab, mtab, nextH, nextM, row>>
     /\ UNCHANGED <<sess, HVars, Flags>>
  \* Notify -> notify: Row.RLock()
  \/ /\ pc[p] = "nt_r" /\ RowRLock(p, loc[p].m, IF NestedRLock THEN "nt_rr" ELSE "nt_read") /\ UNCHANGED <<Data, sess, loc, HVars, Flags>>
  \* (NestedRLock) inner RLock(); RUnlock() of the same row while the outer read lock is held: admitted only if no writer waits
  \/ /\ pc[p] = "nt_rr" /\ CanRowR(loc[p].m) /\ Goto(p, "nt_read") /\ UNCHANGED <<Data, sess, row, loc, HVars, Flags>>
  \* read phase: dirty? which siblings are offline and dirty?  RUnlock
  \/ /\ pc[p] = "nt_read"
     /\ LET h == loc[p].host
            m == loc[p].m
        IN IF ~hobj[h].dirty THEN Goto(p, "idle") /\ UNCHANGED loc
           ELSE /\ SetLoc(p, [loc[p] EXCEPT !.off = IF loc[p].flag
                                   THEN SelectSeq(mobj[m].list, LAMBDA v : ~hobj[v].online /\ hobj[v].dirty) ELSE <<>>])
                /\ Goto(p, "nt_off")
     /\ RowRUnlock(p, loc[p].m) /\ UNCHANGED <<Data, sess, HVars, Flags>>
  \/ /\ pc[p] = "nt_off"
     /\ IF loc[p].off = <<>> THEN Goto(p, "nt_g") /\ UNCHANGED loc
        ELSE SetLoc(p, [loc[p] EXCEPT !.ret = "nt_off"]) /\ Goto(p, "mo_w")
     /\ UNCHANGED <<Data, sess, row, HVars, Flags>>
  \* gate "notify.write"
  \/ /\ pc[p] = "nt_g" /\ Goto(p, "nt_w") /\ UNCHANGED <<Data, sess, row, loc, HVars, Flags>>
  \* write phase: Row.Lock(); toNotification; dirty = false; Unlock
  \/ /\ pc[p] = "nt_w" /\ RowWLock(p, loc[p].m, "nt_write") /\ UNCHANGED <<Data, sess, loc, HVars, Flags>>
  \/ /\ pc[p] = "nt_write"
     /\ hobj' = [hobj EXCEPT ![loc[p].host].dirty = FALSE]
     /\ RowWUnlock(p, loc[p].m) /\ Goto(p, "idle")
     /\ panicked' = (panicked \/ sessClosed)          \* sendNotification: h.C <- n on a closed channel
     /\ UNCHANGED <<htab, mtab, mobj, nextH, nextM, sess, loc, HVars, staleDel>>

\* makeOffline(head of loc[p].off) shared by loop and purge: Row.Lock(); body; Unlock; return to loc[p].ret
MakeOfflineNext(p) ==
  LET v == Head(loc[p].off)
      m == hobj[v].m
  IN
  \/ /\ pc[p] = "mo_w" /\ loc[p].m = m /\ RowWLock(p, m, "mo_body") /\ UNCHANGED <<Data, sess, loc, HVars, Flags>>
  \/ /\ pc[p] = "mo_w" /\ loc[p].m # m          \* (cannot happen in these universes: siblings share the entry)
     /\ SetLoc(p, [loc[p] EXCEPT !.m = m]) /\ UNCHANGED <<Data, sess, row, pc, HVars, Flags>>
  \/ /\ pc[p] = "mo_body" /\ MakeOfflineBody(v)
     /\ RowWUnlock(p, m) /\ SetLoc(p, [loc[p] EXCEPT !.off = Tail(@)]) /\ Goto(p, loc[p].ret)
     /\ panicked' = (panicked \/ sessClosed)          \* sendNotification after the Unlock
     /\ UNCHANGED <<htab, mtab, nextH, nextM, sess, HVars, staleDel>>

-----------------------------------------------------------------------------
(* purge(now) *)
OfflineCut == PurgeNow - OfflineD
DeleteCut  == PurgeNow - PurgeD
Stale(h) == ~hobj[h].online /\ hobj[h].seen < DeleteCut

PurgeNext ==
  LET p == "purge" IN
  \* table := h.GetHosts()
  \/ /\ pc[p] = "pg_r" /\ SessRLock(p, "pg_list") /\ UNCHANGED <<Data, row, loc, HVars, Flags>>
  \/ /\ pc[p] = "pg_list"
     /\ SetLoc(p, [loc[p] EXCEPT !.todo = SetToSeq({htab[ip] : ip \in {i \in IPs : htab[i] # 0}})])
     /\ SessRUnlock(p) /\ Goto(p, "pg_next") /\ UNCHANGED <<Data, row, HVars, Flags>>
  \/ /\ pc[p] = "pg_next"
     /\ IF loc[p].todo = <<>> THEN Goto(p, "pg_og") /\ UNCHANGED loc
        ELSE SetLoc(p, [loc[p] EXCEPT !.host = Head(loc[p].todo), !.m = hobj[Head(loc[p].todo)].m, !.todo = Tail(@)]) /\ Goto(p, "pg_row_r")
     /\ UNCHANGED <<Data, sess, row, HVars, Flags>>
  \* e.MACEntry.Row.RLock(); classify; RUnlock
  \/ /\ pc[p] = "pg_row_r" /\ RowRLock(p, loc[p].m, "pg_scan") /\ UNCHANGED <<Data, sess, loc, HVars, Flags>>
  \/ /\ pc[p] = "pg_scan"
     /\ LET h == loc[p].host IN
        SetLoc(p, [loc[p] EXCEPT !.del = IF Stale(h) THEN Append(@, hobj[h].ip) ELSE @,
                                 !.off = IF hobj[h].online /\ hobj[h].seen < OfflineCut THEN Append(@, h) ELSE @])
     /\ RowRUnlock(p, loc[p].m) /\ Goto(p, "pg_next") /\ UNCHANGED <<Data, sess, HVars, Flags>>
  \* gate "purge.offline": the scan is over, the makeOffline calls have not started
  \/ /\ pc[p] = "pg_og" /\ Goto(p, "pg_off") /\ UNCHANGED <<Data, sess, row, loc, HVars, Flags>>
  \/ /\ pc[p] = "pg_off"
     /\ IF loc[p].off = <<>> THEN Goto(p, IF loc[p].del = <<>> THEN "done" ELSE "pg_g") /\ UNCHANGED loc
        ELSE SetLoc(p, [loc[p] EXCEPT !.ret = "pg_off", !.m = hobj[Head(loc[p].off)].m]) /\ Goto(p, "mo_w")
     /\ UNCHANGED <<Data, sess, row, HVars, Flags>>
  \* gate "purge.delete"
  \/ /\ pc[p] = "pg_g" /\ Goto(p, "pg_w") /\ UNCHANGED <<Data, sess, row, loc, HVars, Flags>>
  \* h.mutex.Lock(); for v in purge { deleteHost(v) }; Unlock
  \/ /\ pc[p] = "pg_w" /\ SessWLock(p, "pg_del") /\ UNCHANGED <<Data, row, loc, HVars, Flags>>
  \/ /\ pc[p] = "pg_del" /\ ~Fixed
     /\ LET RECURSIVE Del(_, _, _, _)
            Del(ht, mt, mo, s) == IF s = <<>> THEN [ht |-> ht, mt |-> mt, mo |-> mo]
                                  ELSE LET d == DeleteHost(ht, mt, mo, Head(s)) IN Del(d.ht, d.mt, d.mo, Tail(s))
            d == Del(htab, mtab, mobj, loc[p].del)
        IN /\ htab' = d.ht /\ mtab' = d.mt /\ mobj' = d.mo
           /\ staleDel' = (staleDel \/ \E ip \in Range(loc[p].del) : htab[ip] # 0 /\ ~Stale(htab[ip]))
     /\ SessWUnlock(p) /\ Goto(p, "done")
     /\ UNCHANGED <<hobj, nextH, nextM, row, loc, HVars, panicked>>
  \* (repaired) delete one address at a time: take the row write lock, re-check, delete
  \/ /\ pc[p] = "pg_del" /\ Fixed
     /\ IF loc[p].del = <<>> THEN SessWUnlock(p) /\ Goto(p, "done") /\ UNCHANGED loc
        ELSE IF htab[Head(loc[p].del)] = 0 THEN SetLoc(p, [loc[p] EXCEPT !.del = Tail(@)]) /\ UNCHANGED <<sess, pc>>
        ELSE SetLoc(p, [loc[p] EXCEPT !.m = hobj[htab[Head(loc[p].del)]].m]) /\ Goto(p, "pgd_w") /\ UNCHANGED sess
     /\ UNCHANGED <<Data, row, HVars, Flags>>
  \/ /\ pc[p] = "pgd_w" /\ RowWLock(p, loc[p].m, "pgd_body") /\ UNCHANGED <<Data, sess, loc, HVars, Flags>>
  \/ /\ pc[p] = "pgd_body"
     /\ LET ip == Head(loc[p].del)
            d  == DeleteHost(htab, mtab, mobj, ip)
        IN IF Stale(htab[ip]) THEN htab' = d.ht /\ mtab' = d.mt /\ mobj' = d.mo
           ELSE UNCHANGED <<htab, mtab, mobj>>
     /\ RowWUnlock(p, loc[p].m) /\ SetLoc(p, [loc[p] EXCEPT !.del = Tail(@)]) /\ Goto(p, "pg_del")
     /\ UNCHANGED <<hobj, nextH, nextM, sess, HVars, Flags>>

-----------------------------------------------------------------------------
(* API callers: one call each *)
ReadOps  == {"FindIP", "GetHosts", "PrintTable", "IPAddrs", "FindByMAC", "FindMACEntry", "IsCaptured", "DHCPv4IPOffer"}
WriteOps == {"Capture", "Release", "SetDHCPv4IPOffer"}

ApiNext(p) ==
  \/ /\ pc[p] = "api_pick"
     /\ \E op \in ApiOps, mac \in MACs, ip \in IPs :
          /\ (op \in {"FindIP", "GetHosts", "PrintTable"} => mac = CHOOSE x \in MACs : \A y \in MACs : x <= y)   \* argument not used
          /\ (op \notin {"FindIP", "SetDHCPv4IPOffer"} => ip = CHOOSE x \in IPs : \A y \in IPs : x <= y)
          /\ SetLoc(p, [L0 EXCEPT !.op = op, !.arg = mac, !.ip = ip])
          /\ Goto(p, IF op \in WriteOps THEN "api_w" ELSE "api_r")
     /\ UNCHANGED <<Data, sess, row, HVars, Flags>>
  \/ /\ pc[p] = "api_r" /\ SessRLock(p, "api_rbody") /\ UNCHANGED <<Data, row, loc, HVars, Flags>>
  \/ /\ pc[p] = "api_w" /\ SessWLock(p, IF Fixed THEN "api_wplan" ELSE "api_wbody") /\ UNCHANGED <<Data, row, loc, HVars, Flags>>
  \* (repaired) fields of an existing entry are changed under its row write lock as well
  \/ /\ pc[p] = "api_wplan"
     /\ IF FindMac(loc[p].arg) = 0 THEN Goto(p, "api_wbody") /\ UNCHANGED loc
        ELSE SetLoc(p, [loc[p] EXCEPT !.m = FindMac(loc[p].arg), !.rows = {FindMac(loc[p].arg)}]) /\ Goto(p, "api_wrow_w")
     /\ UNCHANGED <<Data, sess, row, HVars, Flags>>
  \/ /\ pc[p] = "api_wrow_w" /\ RowWLock(p, loc[p].m, "api_wbody") /\ UNCHANGED <<Data, sess, loc, HVars, Flags>>
  \* the read critical section; what is returned to the caller is then read under the row lock
  \/ /\ pc[p] = "api_rbody"
     /\ LET op == loc[p].op
            m  == FindMac(loc[p].arg)
            hs == CASE op = "FindIP" -> IF htab[loc[p].ip] # 0 THEN <<htab[loc[p].ip]>> ELSE <<>>
                    [] op = "GetHosts" -> SetToSeq({htab[ip] : ip \in {i \in IPs : htab[i] # 0}})
                    [] OTHER -> <<>>
        IN /\ SetLoc(p, [loc[p] EXCEPT !.todo = hs, !.m = IF op = "FindMACEntry" THEN m ELSE 0])
           /\ panicked' = (panicked \/ (op = "PrintTable" /\
                  Cardinality({ip \in IPs : htab[ip] # 0}) #
                    Cardinality({<<mm, i>> \in mtab \X (1..Cardinality(HIds)) : i <= Len(mobj[mm].list)})))
           /\ Goto(p, IF Fixed /\ op = "PrintTable" THEN "api_pnext"
                       ELSE IF hs # <<>> THEN "api_next" ELSE IF op = "FindMACEntry" /\ m # 0 THEN "api_mrow_r" ELSE "done")
     /\ IF Fixed /\ loc[p].op = "PrintTable" THEN UNCHANGED sess ELSE SessRUnlock(p)
     /\ UNCHANGED <<Data, row, HVars, staleDel>>
  \* (repaired) PrintTable: every entry and its hosts under the entry's row read lock, session read lock held
  \/ /\ pc[p] = "api_pnext"
     /\ LET rest == {m \in mtab : m \notin loc[p].rows} IN
        IF rest = {} THEN SessRUnlock(p) /\ Goto(p, "done") /\ UNCHANGED loc
        ELSE SetLoc(p, [loc[p] EXCEPT !.m = SetToSeq(rest)[1], !.rows = @ \cup {SetToSeq(rest)[1]}]) /\ Goto(p, "api_prow_r") /\ UNCHANGED sess
     /\ UNCHANGED <<Data, row, HVars, Flags>>
  \/ /\ pc[p] = "api_prow_r" /\ RowRLock(p, loc[p].m, "api_pread") /\ UNCHANGED <<Data, sess, loc, HVars, Flags>>
  \/ /\ pc[p] = "api_pread" /\ RowRUnlock(p, loc[p].m) /\ Goto(p, "api_pnext") /\ UNCHANGED <<Data, sess, loc, HVars, Flags>>
  \/ /\ pc[p] = "api_next"
     /\ IF loc[p].todo = <<>> THEN Goto(p, "done") /\ UNCHANGED loc
        ELSE SetLoc(p, [loc[p] EXCEPT !.host = Head(loc[p].todo), !.m = hobj[Head(loc[p].todo)].m, !.todo = Tail(@)]) /\ Goto(p, "api_hrow_r")
     /\ UNCHANGED <<Data, sess, row, HVars, Flags>>
  \/ /\ pc[p] = "api_hrow_r" /\ RowRLock(p, loc[p].m, "api_hread") /\ UNCHANGED <<Data, sess, loc, HVars, Flags>>
  \/ /\ pc[p] = "api_hread" /\ RowRUnlock(p, loc[p].m) /\ Goto(p, "api_next") /\ UNCHANGED <<Data, sess, loc, HVars, Flags>>
  \/ /\ pc[p] = "api_mrow_r" /\ RowRLock(p, loc[p].m, "api_mread") /\ UNCHANGED <<Data, sess, loc, HVars, Flags>>
  \/ /\ pc[p] = "api_mread" /\ RowRUnlock(p, loc[p].m) /\ Goto(p, "done") /\ UNCHANGED <<Data, sess, loc, HVars, Flags>>
  \* the write critical section: MACTable.findOrCreate + field update
  \/ /\ pc[p] = "api_wbody"
     /\ LET op == loc[p].op
            em == FindMac(loc[p].arg)
            create == em = 0 /\ op # "Release"
            m  == IF em # 0 THEN em ELSE nextM
            mo1 == IF create THEN [mobj EXCEPT ![nextM] = [NoMac EXCEPT !.mac = loc[p].arg]] ELSE mobj
        IN /\ mobj' = CASE op = "Capture" -> [mo1 EXCEPT ![m].captured = TRUE]
                        [] op = "Release" -> IF em # 0 THEN [mo1 EXCEPT ![m].captured = FALSE] ELSE mo1
                        [] OTHER -> [mo1 EXCEPT ![m].offer = loc[p].ip]
           /\ mtab' = IF create THEN mtab \cup {nextM} ELSE mtab
           /\ nextM' = IF create THEN nextM + 1 ELSE nextM
     /\ SessWUnlock(p) /\ Goto(p, "done")
     /\ row' = [m \in MIds |-> IF m \in loc[p].rows THEN [row[m] EXCEPT !.w = NoProc] ELSE row[m]]
     /\ UNCHANGED <<htab, hobj, nextH, loc, HVars, Flags>>

-----------------------------------------------------------------------------
(* handler flags: ARP spoof loop, Close, RA branch of Handler6.ProcessPacket *)
HandlerNext ==
  \* ARP spoofLoop: arpMutex.Lock(); _, hunting = huntList[mac]; closed := h.closed; Unlock()   (f0fba2f)
  \/ /\ pc["arp"] = "arp_lock" /\ arpMu = NoProc /\ arpMu' = "arp" /\ Goto("arp", "arp_check")
     /\ UNCHANGED <<Data, sess, row, loc, hunting, arpClosed, closeChanClosed, h6Chan, h6Mu, h6Closed, sessClosed, Flags>>
  \/ /\ pc["arp"] = "arp_check" /\ SetLoc("arp", [loc["arp"] EXCEPT !.hunt = hunting, !.flag = arpClosed]) /\ arpMu' = NoProc
     /\ Goto("arp", "arp_act")
     /\ UNCHANGED <<Data, sess, row, hunting, arpClosed, closeChanClosed, h6Chan, h6Mu, h6Closed, sessClosed, Flags>>
  \* `if !hunting || closed {` on the values read under the mutex
  \/ /\ pc["arp"] = "arp_act"
     /\ Goto("arp", IF ~loc["arp"].hunt \/ loc["arp"].flag THEN "done" ELSE "arp_select")
     /\ UNCHANGED <<Data, sess, row, loc, HVars, Flags>>
  \* select { case <-h.closeChan: ; case <-ticker: }   (the 6 s ticker does not fire within a run)
  \/ /\ pc["arp"] = "arp_select" /\ closeChanClosed
     /\ Goto("arp", "arp_lock") /\ UNCHANGED <<Data, sess, row, loc, HVars, Flags>>
  \* ICMPv6 spoofLoop: h.Lock(); wake := h.closeChan; if huntList.Index(mac) == -1 || h.closed { Unlock; return }; ...; Unlock  (96b01bc)
  \/ /\ pc["ndp"] = "ndp_lock" /\ h6Mu = NoProc /\ h6Mu' = "ndp" /\ Goto("ndp", "ndp_check")
     /\ UNCHANGED <<Data, sess, row, loc, arpMu, hunting, arpClosed, closeChanClosed, h6Chan, h6Closed, sessClosed, Flags>>
  \/ /\ pc["ndp"] = "ndp_check" /\ h6Mu' = NoProc /\ Goto("ndp", IF h6Closed THEN "done" ELSE "ndp_wait")
     /\ SetLoc("ndp", [loc["ndp"] EXCEPT !.fi = h6Chan])          \* the channel value read under the mutex
     /\ UNCHANGED <<Data, sess, row, arpMu, hunting, arpClosed, closeChanClosed, h6Chan, h6Closed, sessClosed, Flags>>
  \* select { case <-wake: ...}: wakes up when the channel it read has been closed (by an RA or by Close)
  \/ /\ pc["ndp"] = "ndp_wait" /\ (h6Chan > loc["ndp"].fi \/ h6Closed)
     /\ Goto("ndp", "ndp_lock") /\ UNCHANGED <<Data, sess, row, loc, HVars, Flags>>
  \* arp_spoofer.Handler.IsHunting: arpMutex.RLock(); findHuntByIP; RUnlock()   (bc9b0bc)
  \/ /\ pc["ish"] = "ish_read" /\ arpMu = NoProc /\ arpMu' = "ish" /\ Goto("ish", "ish_body")
     /\ UNCHANGED <<Data, sess, row, loc, hunting, arpClosed, closeChanClosed, h6Chan, h6Mu, h6Closed, sessClosed, Flags>>
  \/ /\ pc["ish"] = "ish_body" /\ arpMu' = NoProc /\ Goto("ish", "done")
     /\ UNCHANGED <<Data, sess, row, loc, hunting, arpClosed, closeChanClosed, h6Chan, h6Mu, h6Closed, sessClosed, Flags>>
  \* arp_spoofer.Handler.StartHunt: arpMutex.Lock(); h.huntList[mac] = addr; Unlock()
  \/ /\ pc["sth"] = "sth_lock" /\ arpMu = NoProc /\ arpMu' = "sth" /\ Goto("sth", "sth_write")
     /\ UNCHANGED <<Data, sess, row, loc, hunting, arpClosed, closeChanClosed, h6Chan, h6Mu, h6Closed, sessClosed, Flags>>
  \/ /\ pc["sth"] = "sth_write" /\ arpMu' = NoProc /\ Goto("sth", "done")
     /\ UNCHANGED <<Data, sess, row, loc, hunting, arpClosed, closeChanClosed, h6Chan, h6Mu, h6Closed, sessClosed, Flags>>
  \* icmp_spoofer.Handler6.StartHunt: h.Lock(); h.huntList.Add(addr); Unlock()
  \/ /\ pc["nsth"] = "nsth_lock" /\ h6Mu = NoProc /\ h6Mu' = "nsth" /\ Goto("nsth", "nsth_write")
     /\ UNCHANGED <<Data, sess, row, loc, arpMu, hunting, arpClosed, closeChanClosed, h6Chan, h6Closed, sessClosed, Flags>>
  \/ /\ pc["nsth"] = "nsth_write" /\ h6Mu' = NoProc /\ Goto("nsth", "done")
     /\ UNCHANGED <<Data, sess, row, loc, arpMu, hunting, arpClosed, closeChanClosed, h6Chan, h6Closed, sessClosed, Flags>>
  \* arp Handler.Close: arpMutex.Lock(); h.closed = true; close(h.closeChan); Unlock()   (f0fba2f)
  \/ /\ pc["closer"] = "cl_arp" /\ arpMu = NoProc /\ arpMu' = "closer" /\ Goto("closer", "cl_arp_body")
     /\ UNCHANGED <<Data, sess, row, loc, hunting, arpClosed, closeChanClosed, h6Chan, h6Mu, h6Closed, sessClosed, Flags>>
  \/ /\ pc["closer"] = "cl_arp_body" /\ arpClosed' = TRUE /\ closeChanClosed' = TRUE /\ arpMu' = NoProc /\ Goto("closer", "cl_h6")
     /\ UNCHANGED <<Data, sess, row, loc, hunting, h6Chan, h6Mu, h6Closed, sessClosed, Flags>>
  \* Handler6.Close: h.Lock(); h.closed = true; close(h.closeChan); Unlock()   (96b01bc)
  \/ /\ pc["closer"] = "cl_h6" /\ h6Mu = NoProc /\ h6Mu' = "closer" /\ Goto("closer", "cl_h6_body")
     /\ UNCHANGED <<Data, sess, row, loc, arpMu, hunting, arpClosed, closeChanClosed, h6Chan, h6Closed, sessClosed, Flags>>
  \/ /\ pc["closer"] = "cl_h6_body" /\ h6Closed' = TRUE /\ h6Mu' = NoProc /\ Goto("closer", "cl_sess")
     /\ SetLoc("closer", [loc["closer"] EXCEPT !.fi = h6Chan + 1])        \* which channel value Close closed (+1; 0 = none)
     /\ UNCHANGED <<Data, sess, row, arpMu, hunting, arpClosed, closeChanClosed, h6Chan, sessClosed, Flags>>
  \* Session.Close: h.closed = true; close(h.closeChan); close(h.C); h.Conn.Close()
  \/ /\ pc["closer"] = "cl_sess" /\ sessClosed' = TRUE /\ Goto("closer", "done")
     /\ UNCHANGED <<Data, sess, row, loc, arpMu, hunting, arpClosed, closeChanClosed, h6Chan, h6Mu, h6Closed, Flags>>
  \* RA branch (96b01bc): h.Lock(); if h.huntList.Len() > 0 && !h.closed { ch := h.closeChan; h.closeChan = make(chan bool); close(ch) }; Unlock()
  \/ /\ pc["ra"] = "ra_read" /\ h6Mu = NoProc /\ h6Mu' = "ra" /\ Goto("ra", "ra_swap")
     /\ UNCHANGED <<Data, sess, row, loc, arpMu, hunting, arpClosed, closeChanClosed, h6Chan, h6Closed, sessClosed, Flags>>
  \/ /\ pc["ra"] = "ra_swap" /\ h6Mu' = NoProc /\ Goto("ra", "done")
     /\ IF ~h6Closed
        THEN /\ h6Chan' = h6Chan + 1
             /\ panicked' = (panicked \/ loc["closer"].fi = h6Chan + 1)      \* close(ch) of a channel Close closed (unreachable now)
        ELSE UNCHANGED <<h6Chan, panicked>>
     /\ UNCHANGED <<Data, sess, row, loc, arpMu, hunting, arpClosed, closeChanClosed, h6Closed, sessClosed, staleDel>>

AllDone == \A p \in Procs : pc[p] = "done"
Terminated == AllDone /\ UNCHANGED vars

Next == \/ LoopNext \/ PurgeNext
        \/ MakeOfflineNext("loop") \/ MakeOfflineNext("purge")
        \/ \E p \in ApiProcs : ApiNext(p)
        \/ (Handlers /\ HandlerNext)
        \/ Terminated

Spec == Init /\ [][Next]_vars

-----------------------------------------------------------------------------
(* access sets: what the NEXT step of p reads and writes, with the site name of the access.
   Lock steps access nothing.  loc: <<"h", id, field>>, <<"m", id, field>>, <<"htab">>, <<"mtab">>, <<flag>> *)
A(l, w, s) == [loc |-> l, w |-> w, site |-> s]
HF(h, f) == <<"h", h, f>>
MF(m, f) == <<"m", m, f>>
HostReads(hs, fn) == UNION {{A(HF(h, "online"), FALSE, fn \o "/Online"), A(HF(h, "seen"), FALSE, fn \o "/LastSeen"),
                             A(HF(h, "dirty"), FALSE, IF fn = "harness.readHost" THEN "Host.Dirty/dirty" ELSE fn \o "/dirty")} : h \in hs}
MacReads(ms, fn) == UNION {{A(MF(m, "online"), FALSE, fn \o "/Online"), A(MF(m, "ip4"), FALSE, fn \o "/IP4"),
                            A(MF(m, "offer"), FALSE, fn \o "/IP4Offer"), A(MF(m, "captured"), FALSE, fn \o "/Captured"),
                            A(MF(m, "seen"), FALSE, fn \o "/LastSeen"), A(MF(m, "list"), FALSE, fn \o "/HostList")} : m \in ms}
MakeOfflineAcc(v) ==
  LET m == hobj[v].m IN
  {A(HF(v, "online"), TRUE, "Session.makeOffline/Online"), A(HF(v, "dirty"), TRUE, "Session.makeOffline/dirty"),
   A(HF(v, "online"), FALSE, "toNotification/Online"),
   A(MF(m, "list"), FALSE, "Session.makeOffline/HostList"), A(MF(m, "online"), TRUE, "Session.makeOffline/Online")}
  \cup {A(HF(x, "online"), FALSE, "Session.makeOffline/Online") : x \in Range(mobj[m].list)}
DeleteAcc(ip) ==
  IF htab[ip] = 0 THEN {A(<<"htab">>, FALSE, "Session.findIP/Table")}
  ELSE {A(<<"htab">>, FALSE, "Session.findIP/Table"), A(<<"htab">>, TRUE, "Session.deleteHost/Table"),
        A(MF(hobj[htab[ip]].m, "list"), TRUE, "MACEntry.unlink/HostList"), A(<<"mtab">>, TRUE, "MACTable.delete/Table")}

Acc(p) ==
  LET c == pc[p]
      h == loc[p].host
      m == loc[p].m
  IN CASE c = "foc_fast" ->
            LET x == Lookup(F(p).ip) IN
            {A(<<"htab">>, FALSE, "Session.findOrCreateHostWithLock/Table")}
            \cup (IF x # 0 /\ mobj[hobj[x].m].mac = F(p).mac /\ ~Fixed
                  THEN {A(HF(x, "seen"), TRUE, "Session.findOrCreateHostWithLock/LastSeen"),
                        A(MF(hobj[x].m, "seen"), TRUE, "Session.findOrCreateHostWithLock/LastSeen")} ELSE {})
       [] c = "foc_seen" -> {A(HF(h, "seen"), TRUE, "Session.findOrCreateHostWithLock/LastSeen"),
                             A(MF(m, "seen"), TRUE, "Session.findOrCreateHostWithLock/LastSeen")}
       [] c = "foc_slow" ->
            LET em == FindMac(F(p).mac)
                mm == IF em # 0 THEN em ELSE nextM
            IN {A(<<"htab">>, TRUE, "Session.findOrCreateHostWithLock/Table"), A(<<"mtab">>, TRUE, "MACTable.findOrCreate/Table"),
                A(MF(mm, "list"), TRUE, "Session.findOrCreateHostWithLock/HostList"),
                A(MF(mm, "seen"), TRUE, "Session.findOrCreateHostWithLock/LastSeen"),
                A(HF(nextH, "online"), TRUE, "Session.findOrCreateHostWithLock/Online"),
                A(HF(nextH, "dirty"), TRUE, "Session.findOrCreateHostWithLock/dirty"),
                A(HF(nextH, "seen"), TRUE, "Session.findOrCreateHostWithLock/LastSeen")}
               \cup (IF loc[p].found # 0 THEN DeleteAcc(F(p).ip) ELSE {})
       [] c = "parse_online" -> IF Fixed THEN {} ELSE {A(HF(h, "online"), FALSE, "Session.Parse/Online")}
       [] c = "ot_a" -> {A(HF(h, "online"), FALSE, "Session.onlineTransition/Online")}
                        \cup (IF hobj[h].online THEN {} ELSE {A(MF(m, "online"), TRUE, "Session.onlineTransition/Online")})
       [] c = "ot_chk" -> {A(HF(h, "online"), TRUE, "Session.onlineTransition/Online"), A(HF(h, "dirty"), TRUE, "Session.onlineTransition/dirty"),
                           A(MF(m, "online"), TRUE, "Session.onlineTransition/Online")}
       [] c = "ot_b" -> {A(HF(h, "online"), TRUE, "Session.onlineTransition/Online"), A(HF(h, "dirty"), TRUE, "Session.onlineTransition/dirty")}
       [] c = "ot_c" -> {A(MF(m, "ip4"), FALSE, "Session.onlineTransition/IP4")}
                        \cup (IF hobj[h].ip # mobj[m].ip4
                              THEN {A(MF(m, "ip4"), TRUE, "Session.onlineTransition/IP4"), A(MF(m, "list"), FALSE, "Session.onlineTransition/HostList")}
                                   \cup UNION {{A(HF(x, "online"), FALSE, "Session.onlineTransition/Online")}
                                               \cup (IF x # h /\ hobj[x].ip # hobj[h].ip /\ hobj[x].online
                                                     THEN {A(HF(x, "online"), TRUE, "Session.onlineTransition/Online"),
                                                           A(HF(x, "dirty"), TRUE, "Session.onlineTransition/dirty")} ELSE {})
                                               : x \in Range(mobj[m].list)}
                              ELSE {})
       [] c = "nt_read" -> {A(HF(h, "dirty"), FALSE, "Session.notify/dirty")}
                           \cup (IF hobj[h].dirty /\ loc[p].flag
                                 THEN {A(MF(m, "list"), FALSE, "Session.notify/HostList")}
                                      \cup UNION {{A(HF(x, "online"), FALSE, "Session.notify/Online"), A(HF(x, "dirty"), FALSE, "Session.notify/dirty")}
                                                  : x \in Range(mobj[m].list)}
                                 ELSE {})
       [] c = "nt_write" -> {A(HF(h, "online"), FALSE, "toNotification/Online"), A(HF(h, "dirty"), TRUE, "Session.notify/dirty")}
       [] c = "mo_body" -> MakeOfflineAcc(Head(loc[p].off))
       [] c = "pg_list" -> {A(<<"htab">>, FALSE, "Session.GetHosts/Table")}
       [] c = "pg_scan" -> {A(HF(h, "online"), FALSE, "Session.purge/Online"), A(HF(h, "seen"), FALSE, "Session.purge/LastSeen")}
       [] c = "pg_del" -> IF Fixed THEN {A(<<"htab">>, FALSE, "Session.findIP/Table")} ELSE UNION {DeleteAcc(ip) : ip \in Range(loc[p].del)}
       [] c = "pgd_body" -> DeleteAcc(Head(loc[p].del)) \cup {A(HF(htab[Head(loc[p].del)], "online"), FALSE, "Session.purge/Online"),
                                                              A(HF(htab[Head(loc[p].del)], "seen"), FALSE, "Session.purge/LastSeen")}
       [] c = "api_rbody" ->
            LET op == loc[p].op
                mm == FindMac(loc[p].arg)
            IN CASE op \in {"FindIP", "GetHosts", "FindByMAC"} -> {A(<<"htab">>, FALSE, "Session." \o op \o "/Table")}
                 [] op = "PrintTable" ->
                      {A(<<"mtab">>, FALSE, "Session.printMACTable/Table"), A(<<"htab">>, FALSE, "Session.printHostTable/Table")}
                      \cup (IF Fixed THEN {} ELSE MacReads(mtab, "MACEntry.FastLog")
                                                   \cup HostReads(UNION {Range(mobj[x].list) : x \in mtab}, "Host.FastLog"))
                 [] op = "IPAddrs" -> {A(<<"mtab">>, FALSE, "MACTable.findMAC/Table")}
                                      \cup (IF mm # 0 THEN {A(MF(mm, "list"), FALSE, "Session.IPAddrs/HostList")} ELSE {})
                 [] op = "FindMACEntry" -> {A(<<"mtab">>, FALSE, "MACTable.findMAC/Table")}
                 [] op = "IsCaptured" -> {A(<<"mtab">>, FALSE, "MACTable.findMAC/Table")}
                                         \cup (IF mm # 0 THEN {A(MF(mm, "captured"), FALSE, "Session.IsCaptured/Captured")} ELSE {})
                 [] op = "DHCPv4IPOffer" -> {A(<<"mtab">>, FALSE, "MACTable.findMAC/Table")}
                                            \cup (IF mm # 0 THEN {A(MF(mm, "offer"), FALSE, "Session.DHCPv4IPOffer/IP4Offer")} ELSE {})
                 [] OTHER -> {}
       [] c = "api_pread" -> MacReads({m}, "MACEntry.FastLog") \cup HostReads(Range(mobj[m].list), "Host.FastLog")
       [] c = "api_hread" -> HostReads({h}, "harness.readHost")
       [] c = "api_mread" -> MacReads({m}, "harness.readMAC")
       [] c = "api_wbody" ->
            LET op == loc[p].op
                em == FindMac(loc[p].arg)
                mm == IF em # 0 THEN em ELSE nextM
            IN {A(<<"mtab">>, em = 0 /\ op # "Release", "MACTable.findOrCreate/Table")}
               \cup (CASE op = "Capture" -> {A(MF(mm, "captured"), TRUE, "Session.Capture/Captured")}
                       [] op = "Release" -> IF em # 0 THEN {A(MF(mm, "captured"), TRUE, "Session.Release/Captured")} ELSE {}
                       [] OTHER -> {A(MF(mm, "offer"), TRUE, "Session.SetDHCPv4IPOffer/IP4Offer")})
       [] c = "arp_check" -> {A(<<"arp.huntList">>, FALSE, "arp_spoofer.Handler.spoofLoop/huntList"), A(<<"arp.closed">>, FALSE, "arp_spoofer.Handler.spoofLoop/closed")}
       [] c = "ish_body" -> {A(<<"arp.huntList">>, FALSE, "arp_spoofer.Handler.findHuntByIP/huntList")}
       [] c = "sth_write" -> {A(<<"arp.huntList">>, TRUE, "arp_spoofer.Handler.StartHunt/huntList")}
       [] c = "nsth_write" -> {A(<<"h6.huntList">>, TRUE, "AddrList.Add/list")}
       [] c = "cl_arp_body" -> {A(<<"arp.closed">>, TRUE, "arp_spoofer.Handler.Close/closed")}
       [] c = "cl_h6_body" -> {A(<<"h6.closed">>, TRUE, "icmp_spoofer.Handler6.Close/closed"), A(<<"h6.closeChan">>, FALSE, "icmp_spoofer.Handler6.Close/closeChan")}
       [] c = "ra_swap" -> {A(<<"h6.huntList">>, FALSE, "AddrList.Len/list"), A(<<"h6.closed">>, FALSE, "icmp_spoofer.Handler6.ProcessPacket/closed")}
                           \cup (IF ~h6Closed THEN {A(<<"h6.closeChan">>, TRUE, "icmp_spoofer.Handler6.ProcessPacket/closeChan")} ELSE {})
       [] c = "ndp_check" -> {A(<<"h6.closed">>, FALSE, "icmp_spoofer.Handler6.spoofLoop/closed"), A(<<"h6.huntList">>, FALSE, "AddrList.Index/list"),
                              A(<<"h6.closeChan">>, FALSE, "icmp_spoofer.Handler6.spoofLoop/closeChan")}
       [] c = "arp_select" -> {}
       [] OTHER -> {}

\* a data race: two processes whose next steps are both enabled, access one location, one of them writing
\* Go type that owns a location (for the Type.field name of a race)
TypeOf(l) == CASE l[1] = "h" -> "Host" [] l[1] = "m" -> "MACEntry" [] l[1] = "htab" -> "HostTable" [] l[1] = "mtab" -> "MACTable"
               [] l[1] \in {"arp.closed", "arp.huntList"} -> "arp_spoofer.Handler"
               [] l[1] \in {"h6.closed", "h6.closeChan"} -> "icmp_spoofer.Handler6"
               [] l[1] = "h6.huntList" -> "AddrList" [] OTHER -> "?"
\* (the result is a set of [t: owning type, sites: unordered pair {siteA, siteB}]; equal sites give a singleton)
Races ==
  UNION {UNION {{[t |-> TypeOf(a.loc), sites |-> {a.site, b.site}] : b \in {y \in Acc(pq[2]) : y.loc = a.loc /\ (y.w \/ a.w)}} : a \in Acc(pq[1])}
         : pq \in {x \in Procs \X Procs : x[1] # x[2]}}

-----------------------------------------------------------------------------
(* invariants *)
TypeOK == /\ \A ip \in IPs : htab[ip] \in HIds \cup {0}
          /\ mtab \subseteq MIds
          /\ loc["loop"].fi \in 0..NF

RaceFree == Races = {}

\* session lock before row lock: nobody asks for the session lock while holding a row lock
LockOrder == \A p \in Procs : pc[p] \in (SessWPcs \cup {"foc_r", "pg_r", "api_r"}) => ~HoldsRow(p)

\* a host is deleted by purge only if it is still offline and stale when it is deleted
PurgeDeleteStale == ~staleDel
\* printHostTable's consistency panic, send on the closed notification channel
NoPanic == ~panicked

\* the C05_* shape of spec/Hosts.tla on the object tables, at quiescent points
LiveH == {htab[ip] : ip \in {i \in IPs : htab[i] # 0}}
C05_ListBack == \A m \in mtab : /\ \A i \in 1..Len(mobj[m].list) : mobj[m].list[i] \in LiveH /\ hobj[mobj[m].list[i]].m = m
                                /\ \A i, j \in 1..Len(mobj[m].list) : i # j => mobj[m].list[i] # mobj[m].list[j]
C05_OneMac == \A h \in LiveH : hobj[h].m \in mtab /\ h \in Range(mobj[hobj[h].m].list) /\ htab[hobj[h].ip] = h
C05_OnlineImpliesMacOnline == \A h \in LiveH : hobj[h].online => mobj[hobj[h].m].online
C05_Count == Cardinality(LiveH) = Cardinality({<<m, i>> \in mtab \X (1..Cardinality(HIds)) : i <= Len(mobj[m].list)})
C05_Structure == C05_ListBack /\ C05_OneMac /\ C05_Count
Quiescent == /\ pc["loop"] \in {"idle", "done"} /\ pc["purge"] \in {"pg_r", "done"}
             /\ \A p \in ApiProcs : pc[p] \in {"api_pick", "done"}
C05_AtQuiescence == Quiescent => C05_Structure /\ C05_OnlineImpliesMacOnline
C05_StructureAtQuiescence == Quiescent => C05_Structure
C05_OnlineAtQuiescence == Quiescent => C05_OnlineImpliesMacOnline
\* the structure is only ever changed under the session write lock: it holds whenever nobody holds that lock
C05_StructureUnlessWriter == sess.w = NoProc => C05_Structure

\* Close stops the loops: once Close returned, a loop blocked in its select has its wake-up channel
\* closed (and will then see `closed`); together with TLC's deadlock check (the only terminal state is
\* AllDone) this says that every loop ends after Close
CloseStops == Handlers => /\ (pc["closer"] = "done" /\ pc["arp"] = "arp_select") => closeChanClosed
                          /\ (pc["closer"] = "done" /\ pc["ndp"] = "ndp_wait") => h6Closed
\* the handler flags and lists are race free since bc9b0bc / f0fba2f / 96b01bc
HandlersRaceFree == \A r \in Races : r.t \notin {"arp_spoofer.Handler", "icmp_spoofer.Handler6", "AddrList"}
=============================================================================
