SPECIFICATION Spec
CONSTANTS
  Caps = {42}
  NSmall = {0}
  PortClasses = {"plain"}
  DhcpCodes = {1, 3, 6, 12, 33, 43, 51, 121}
  MaxOpts = 4
  ReqCodes = {1, 3, 6, 43, 53}
  MaxReq = 2
  DhcpCaps = {299, 300, 301, 1472}
  BigCode = 43
  BigLens = {0, 1, 64, 254, 255}
  IdClasses = {"rand"}
  WriteFailures = {"none"}
  NICs = {"nicA"}
  Parts = {"dhcp"}
INVARIANTS Export ModelOK
CHECK_DEADLOCK FALSE
