------------------------------ MODULE FrameVec ------------------------------
(***************************************************************************)
(* Enumerator of Frame.tla: one TLC state per abstract case.  TLC          *)
(*   - enumerates the whole class product of the selected family,          *)
(*   - checks on every case that the reference is total and well typed     *)
(*     (OutcomeTotal) and that the mechanism-level transcription of Parse  *)
(*     differs from the reference on exactly the named deviation classes   *)
(*     (DeviationsNamed),                                                  *)
(*   - checks once (ASSUME ModelChecks) that the UDP port table is a       *)
(*     function, that every PayloadID and every named deviation is reached *)
(*     by some shape, that the field table has one row per getter,         *)
(*   - prints one JSON vector per case (PrintT(ToJson(..)) from the        *)
(*     invariant Export, evaluated once per distinct state).               *)
(* The Go driver harness/cmd/framedrv turns every vector into K byte       *)
(* strings and runs the real code on them.                                 *)
(***************************************************************************)
EXTENDS Frame, Json

CONSTANT Family          \* "all" | "parse" | "cfgparse" | "view" | "field" | "alloc" | "table"
VARIABLE v

Meta == [uncompared |-> Uncompared, uncomparedEverywhere |-> UncomparedEverywhere,
         derived |-> DerivedGetters, views |-> ViewNames,
         base |-> {[view |-> n, len |-> BaseView[n].len, set |-> BaseView[n].set, raw |-> BaseView[n].raw] : n \in ViewNames},
         precedenceOverlaps |-> Cardinality(PrecedenceOverlaps), portPairs |-> Cardinality(PortClasses \X PortClasses),
         deviations |-> NamedDeviations \ {"none"}, fills |-> FreeByteFills, prefixes |-> PrefixTransforms, classifying |-> ClassifyingFields]

Tag(f, S) == {[fam |-> f, c |-> x] : x \in S}
Vectors ==
  CASE Family = "parse" -> Tag("parse", ParseShapes)
    [] Family = "view"  -> Tag("view", ViewShapes)
    [] Family = "field" -> Tag("field", FieldVectors)
    [] Family = "alloc" -> Tag("alloc", AllocCases)
    [] Family = "cfgparse" -> Tag("cfgparse", ConfigCases)
    [] Family = "table" -> Tag("table", FieldTable) \cup {[fam |-> "meta", c |-> Meta]}
    [] Family = "all"   -> Tag("parse", ParseShapes) \cup Tag("view", ViewShapes) \cup Tag("field", FieldVectors)
                           \cup Tag("alloc", AllocCases) \cup Tag("table", FieldTable) \cup {[fam |-> "meta", c |-> Meta]}
                           \cup Tag("cfgparse", ConfigCases) \cup Tag("allocset", AllocSets)

Init == v \in Vectors
Next == UNCHANGED v
Spec == Init /\ [][Next]_v

----------------------------------------------------------------------------
OffsetsOK(s, o) ==
  /\ o.id \in PayloadIDs
  /\ o.pay >= 14 /\ o.pay <= s.flen
  /\ ~(o.ip4 > 0 /\ o.ip6 > 0)
  /\ o.hasip = (o.ip4 > 0 \/ o.ip6 > 0)
  /\ (o.ip4 > 0 => o.ip4 = 14 /\ o.ip4 + 20 <= o.pay)
  /\ (o.ip6 > 0 => o.ip6 = 14 /\ o.ip6 + 40 <= o.pay)
  /\ (o.udp > 0 => o.hasip /\ o.udp + 8 <= s.flen /\ o.pay \in {o.udp, o.udp + 8} /\ o.tcp = 0)
  /\ (o.tcp > 0 => o.hasip /\ o.tcp + 20 <= s.flen /\ o.pay = o.tcp)
  /\ (o.tracked => o.hasip \/ o.id = PARP)

(* the reference is total (evaluates on every shape) and well typed *)
OutcomeTotal ==
  CASE v.fam = "parse" -> LET o == ParseOutcome(v.c) IN o.err \in BOOLEAN /\ (~o.err => OffsetsOK(v.c, o))
    [] v.fam = "alloc" -> LET o == ParseOutcome(v.c.s) IN ~o.err /\ OffsetsOK(v.c.s, o) /\ WellFormed(v.c.s)
    [] v.fam = "cfgparse" -> LET o == WithCfg(ParseOutcome(v.c.s), v.c.s, v.c.env.cfg) IN o.err \in BOOLEAN /\ (~o.err => OffsetsOK(v.c.s, o))
    [] OTHER -> TRUE

(* mechanism against property level: the transcription of Parse as written differs from the      *)
(* reference on exactly the named classes                                                        *)
DeviationsNamed ==
  /\ v.fam = "parse" => Deviation(v.c) \in NamedDeviations
  /\ v.fam = "cfgparse" => Deviation(v.c.s) \in NamedDeviations

FieldVectorOK ==
  v.fam = "field" => /\ \A i \in DOMAIN v.c.bytes : v.c.bytes[i] \in 0..255
                     /\ \A i \in DOMAIN v.c.exp : v.c.exp[i] \in 0..255

ViewShapeOK ==
  v.fam = "view" => LET x == v.c IN
                    /\ x.view \in ViewNames
                    /\ \A f \in x.set : \E r \in FieldTable : r.v = x.view /\ r.g = f.g /\ r.k \in {"uint", "bool"}
                    /\ \A r \in x.ranges : 0 <= r.lo /\ r.lo <= r.hi /\ r.hi <= x.len
                    /\ \A y \in x.raw : \A i \in DOMAIN y.b : y.b[i] \in 0..255
                    /\ \A mp \in x.maps : \A e \in mp.items : 0 <= e.lo /\ e.lo <= e.hi /\ e.hi <= x.len

Export ==
  PrintT(ToJson(
    CASE v.fam = "parse" -> [fam |-> "parse", s |-> v.c, o |-> ParseOutcome(v.c), m |-> ParseM(v.c), dev |-> Deviation(v.c),
                             strictErr |-> StrictErr(v.c), wf |-> WellFormed(v.c), ranges |-> ParseRanges(v.c),
                             cfg |-> "default", state |-> "none", log |-> "error"]
      [] v.fam = "cfgparse" -> [fam |-> "parse", s |-> v.c.s, o |-> WithCfg(ParseOutcome(v.c.s), v.c.s, v.c.env.cfg),
                                m |-> WithCfg(ParseM(v.c.s), v.c.s, v.c.env.cfg), dev |-> Deviation(v.c.s), strictErr |-> StrictErr(v.c.s),
                                wf |-> WellFormed(v.c.s), ranges |-> ParseRanges(v.c.s),
                                cfg |-> v.c.env.cfg, state |-> v.c.env.state, log |-> v.c.env.log]
      [] v.fam = "alloc" -> [fam |-> "alloc", s |-> v.c.s, status |-> v.c.status, x |-> AllocExpect(v.c), ranges |-> ParseRanges(v.c.s)]
      [] OTHER -> v))

----------------------------------------------------------------------------
(* model-side checks, evaluated once per run that includes the parse family *)
ModelChecks ==
  /\ PortTableDisjoint
  /\ PortTableIsFunction
  /\ \A id \in PayloadIDs : \E s \in ParseShapes : ~ParseOutcome(s).err /\ ParseOutcome(s).id = id     \* every PayloadID reachable
  /\ \A d \in NamedDeviations : \E s \in ParseShapes : Deviation(s) = d                                 \* every deviation witnessed
  /\ \A r1, r2 \in FieldTable : (r1.v = r2.v /\ r1.g = r2.g) => r1 = r2                                  \* one row per getter
  /\ \A id \in PayloadIDs \ {PEther, P8023} :
        \E c \in AllocCases : ParseOutcome(c.s).id = id /\ c.status \in {"tracked", "no-ip"}             \* C16 covers every class
  /\ (Uncompared \cup DerivedGetters) \cap {<<r.v, r.g>> : r \in FieldTable} = {}
  /\ ClassifyingFields \subseteq {<<r.v, r.g>> : r \in FieldTable}
ASSUME Family \in {"parse", "all"} => ModelChecks
=============================================================================
