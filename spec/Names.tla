------------------------------- MODULE Names -------------------------------
(* C17, second half: the NameEntry merge algebra and the five Update*Name sources.

   Mode "pairs": every pair (e, n) of name entries over the attributes Name, Model, OS, Manufacturer
   with values {"", a, b} and near-equal variants of a (other letter case, trailing blank, blank only;
   ValSet "full" adds trailing tab, CR LF and dot; at most one variant per entry) is one initial state; the lemmas NoErase, ChangeIff, Idempotent are
   invariants (checked by TLC on all 405 * 405 = 164025 pairs; 729 * 729 with ValSet "full") and each pair is exported with the
   reference result.

   Mode "hosts": two hosts of one MAC address, five naming sources.  Actions: Update(h, s, n)
   (Host.Update<S>Name) and Notify(h) (the packet loop reporting the host, which clears the dirty
   flag).  Mechanism variables mirror hosttable.go:211-269 (merge into the host slot; when modified
   set dirty and merge the host slot into the MAC entry slot).  Property-level variables follow the
   statement only: `known` (attributes that have been non-empty can never be empty again) and
   `changed` (some attribute of the host changed since the last report).                      *)
EXTENDS Naturals, Sequences, FiniteSets, TLC, Json

CONSTANTS Mode,       \* "pairs" | "hosts"
          MaxDepth,   \* hosts mode: length of the update histories
          UpdSet,     \* hosts mode: "small" | "full": the name entries used by Update
          ValSet      \* "small" | "full": the attribute values

Attrs  == {"Name", "Model", "OS", "Manufacturer"}
\* Values are tokens; the driver spells them: a = "host-a", b = "host-b", and the near-equal variants of a:
\* A = other letter case, a_sp = trailing blank, sp = one blank only (a non-empty value!), a_tab = trailing tab,
\* a_crlf = trailing CR LF, a. = trailing dot.  An entry has at most one attribute with a near-equal variant
\* (the attributes are merged independently; they interact only through the modified flag).
Base   == {"", "a", "b"}
Exotic == {"A", "a_sp", "sp"} \cup (IF ValSet = "full" THEN {"a_tab", "a_crlf", "a."} ELSE {})
Vals   == Base \cup Exotic
Entry  == {e \in [Attrs -> Vals] : Cardinality({x \in Attrs : e[x] \in Exotic}) <= 1}
Empty  == [x \in Attrs |-> ""]
Hosts  == {"h1", "h2"}
Srcs   == {"DHCP4", "MDNS", "SSDP", "LLMNR", "NBNS"}

\* Merge as the statement describes it: a learned non-empty attribute replaces the stored one,
\* an empty one leaves it alone; modified iff the stored entry changed.
MergeE(e, n) == [x \in Attrs |-> IF n[x] # "" THEN n[x] ELSE e[x]]
MergeM(e, n) == MergeE(e, n) # e
Merge(e, n)  == [e |-> MergeE(e, n), m |-> MergeM(e, n)]

\* the three lemmas, as predicates over one application  (e, n) -> (r, m)
NoEraseP(e, r)       == \A x \in Attrs : e[x] # "" => r[x] # ""
ChangeIffP(e, r, m)  == m <=> (r # e)
IdempotentP(r, n)    == Merge(r, n) = [e |-> r, m |-> FALSE]

VARIABLES pe, pn,                       \* pairs mode
          host, mac, dirty,             \* hosts mode, mechanism: host[h][s], mac[s], dirty[h]
          known, changed,               \* hosts mode, property level
          depth, hist
vars == <<pe, pn, host, mac, dirty, known, changed, depth, hist>>

E(n, mo, os, ma) == [x \in Attrs |-> CASE x = "Name" -> n [] x = "Model" -> mo [] x = "OS" -> os [] OTHER -> ma]
Updates == {E("a", "", "", ""), E("A", "", "", ""), E("a_sp", "", "", ""), E("", "a", "", ""), E("a", "", "b", "a")}
           \cup (IF UpdSet = "full" THEN {Empty, E("sp", "", "", ""), E("b", "", "", "")} ELSE {})
Slots0 == [s \in Srcs |-> Empty]

Init == /\ depth = 0 /\ hist = <<>>
        /\ host = [h \in Hosts |-> Slots0] /\ mac = Slots0 /\ dirty = [h \in Hosts |-> FALSE]
        /\ known = [h \in Hosts |-> [s \in Srcs |-> {}]] /\ changed = [h \in Hosts |-> FALSE]
        /\ IF Mode = "pairs" THEN pe \in Entry /\ pn \in Entry ELSE pe = Empty /\ pn = Empty

\* Host.Update<S>Name(n)
Update(h, s, n) ==
  LET r == Merge(host[h][s], n) IN
  /\ host' = [host EXCEPT ![h][s] = r.e]
  /\ dirty' = [dirty EXCEPT ![h] = @ \/ r.m]
  /\ mac' = IF r.m THEN [mac EXCEPT ![s] = MergeE(@, r.e)] ELSE mac
  \* property level: what the statement lets an observer conclude
  /\ known' = [known EXCEPT ![h][s] = @ \cup {x \in Attrs : n[x] # ""}]
  /\ changed' = [changed EXCEPT ![h] = @ \/ (\E x \in Attrs : n[x] # "" /\ n[x] # host[h][s][x])]
  /\ hist' = Append(hist, [a |-> "upd", h |-> h, s |-> s, n |-> n,
                           exp |-> [host |-> r.e, mod |-> r.m, mac |-> mac'[s], dirty |-> dirty'[h]]])

Notify(h) ==
  /\ dirty' = [dirty EXCEPT ![h] = FALSE] /\ changed' = [changed EXCEPT ![h] = FALSE]
  /\ UNCHANGED <<host, mac, known>>
  /\ hist' = Append(hist, [a |-> "notify", h |-> h, s |-> "-", n |-> Empty,
                           exp |-> [host |-> Empty, mod |-> FALSE, mac |-> Empty, dirty |-> FALSE]])

Next == /\ Mode = "hosts" /\ depth < MaxDepth /\ depth' = depth + 1 /\ UNCHANGED <<pe, pn>>
        /\ \/ \E h \in Hosts, s \in Srcs, n \in Updates : Update(h, s, n)
           \/ \E h \in Hosts : Notify(h)
Spec == Init /\ [][Next]_vars

TypeOK == depth \in 0..MaxDepth /\ pe \in Entry /\ pn \in Entry

\* ---- pairs mode: the lemmas on every pair
NoErase    == Mode = "pairs" => NoEraseP(pe, MergeE(pe, pn))
ChangeIff  == Mode = "pairs" => ChangeIffP(pe, MergeE(pe, pn), MergeM(pe, pn))
Idempotent == Mode = "pairs" => IdempotentP(MergeE(pe, pn), pn)
\* a merge changes nothing but what the learned entry names
OnlyNamed  == Mode = "pairs" => \A x \in Attrs : pn[x] = "" => MergeE(pe, pn)[x] = pe[x]

\* ---- hosts mode: mechanism against the property level
C17_NoErase  == Mode = "hosts" => \A h \in Hosts, s \in Srcs : \A x \in known[h][s] : host[h][s][x] # "" /\ mac[s][x] # ""
C17_DirtyIff == Mode = "hosts" => \A h \in Hosts : dirty[h] = changed[h]
C17_MacCopy  == Mode = "hosts" => \A s \in Srcs, x \in Attrs : mac[s][x] # "" => \E h \in Hosts : x \in known[h][s]

ExportPairs == Mode = "pairs" => PrintT(ToJson([e |-> pe, n |-> pn, r |-> MergeE(pe, pn), m |-> MergeM(pe, pn)]))
ExportHosts == (Mode = "hosts" /\ depth = MaxDepth) => PrintT(ToJson(hist))
=============================================================================
