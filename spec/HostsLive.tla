----------------------------- MODULE HostsLive -----------------------------
(* Liveness of the ageing rules of C04 / C06 on the model of Hosts.tla (model level only; the safety
   checks bind the model to the code).  Finitely many frames arrive (Budget), the clock advances and the
   purge pass runs fairly.  Then every tracked address except our own eventually goes offline, is
   notified offline exactly once after its last online notification, and is removed: the tables
   (mechanism) and the reference (property level) both end up holding our own entry only, and the
   ledger of what was last notified per address says "offline" (or nothing) for every address.
   The clock stops advancing once nothing is left to age, which keeps the state space finite. *)
EXTENDS Hosts

CONSTANT Budget
VARIABLES budget, phase
lvars == <<hosts, macs, frame, notes, now, ref, refNames, refLast, expect, budget, phase>>

Tracked    == {ip \in IPS : hosts[ip] # Nil /\ ip # HostIP}
RefTracked == {e.ip : e \in {x \in ref : x.ip # HostIP}}

LInit == Init /\ budget = Budget /\ phase = "idle"

LFrame == /\ phase = "idle" /\ budget > 0 /\ budget' = budget - 1 /\ UNCHANGED phase
          /\ \E s \in Clients \cup {Router}, ip \in IPS : FrameStep(s, s, ip, Dhcp, NoName)
LAck   == /\ phase = "idle" /\ budget > 0 /\ budget' = budget - 1 /\ UNCHANGED phase
          /\ \E mc \in Clients, ip \in LanIPs : DhcpAckStep(mc, ip, NoName)
LAdv   == /\ phase = "idle" /\ (Tracked # {} \/ RefTracked # {})
          /\ Advance(1) /\ phase' = "purge" /\ UNCHANGED budget
LPurge == /\ phase = "purge" /\ Purge /\ phase' = "idle" /\ UNCHANGED budget

LNext == LFrame \/ LAck \/ LAdv \/ LPurge
\* Weak fairness of the clock and of the purge pass, written without ENABLED (both enabling conditions are the
\* state predicates below: Advance and Purge are total), which keeps TLC's liveness checker on state predicates.
EnAdv   == phase = "idle" /\ (Tracked # {} \/ RefTracked # {})
EnPurge == phase = "purge"
\* LAdv is the only step into phase "purge" and LPurge the only step out of it, so "taken infinitely often" is a
\* state property too.
Fair == /\ ([]<>~EnAdv \/ []<>EnPurge)
        /\ []<>~EnPurge
LSpec == LInit /\ [][LNext]_lvars /\ Fair
LSpecUnfair == LInit /\ [][LNext]_lvars     \* vacuity guard: without fairness the properties must fail

\* ---- temporal properties ----
AgesOutM == <>[](Tracked = {})                      \* mechanism: the tables drain
AgesOutR == <>[](RefTracked = {})                   \* property level: the reference drains
\* C06, eventually: nothing is left "last notified online" for an address that is gone
LedgerSettles == <>[](\A ip \in IPS \ {HostIP} : refLast[ip] = Nil \/ ~refLast[ip].online)
\* every address that is tracked is eventually untracked (leads-to form)
EachAgesOut == \A ip \in IPS \ {HostIP} : (hosts[ip] # Nil) ~> (hosts[ip] = Nil)

\* the safety invariants still hold along these behaviours
LiveTypeOK == budget \in 0..Budget /\ phase \in {"idle", "purge"}
=============================================================================
