----------------------------- MODULE ArpHuntMC -----------------------------
(* Bounded model of ArpHunt.tla.
   Full mode (Bounded = FALSE): the complete finite graph of all Start/Stop/Close/offer sequences
   over three targets (two sharing an IP) interleaved with every loop step and every class of
   received ARP packet, limited only by the number of loop instances ever spawned (MaxLoops).
   Walk mode (Bounded = TRUE): depth-bounded, with an action history for behaviour export.
   Property predicates are evaluated on EVERY transition (bad' = Verdict'), so that hiding the
   per-step outputs (out, ev, pre) from the VIEW loses nothing. *)
EXTENDS ArpHunt, Json

CONSTANTS T1, T2, T3, A1, A2,       \* the members of Targets / LanIPs by name
          MaxLoops, MaxDepth, Bounded, ExportEvery,
          WithOffer,                \* include SetDHCPv4IPOffer calls
          CaptureMACs,              \* MACs the application may flag with Session.Capture / Release (environment; a pure product in the graph)
          NarrowES,                 \* TRUE: received packets always have Ethernet source = ARP sender (the big 3-loop configuration)
          RecvOps, RecvSI, RecvTI   \* received packets: operations, sender addresses, target addresses
VARIABLES bad, depth, hist
mcvars == <<hunt, loops, closed, offer, hostOf, pend, captured, out, ev, refHunt, refClosed, refOffer, rl, poisoned, pre, bad, depth, hist>>

\* t1 and t2 share address a1 (DESIGN #23); t1 may also be started under a second address
StartChoices == {<<T1, A1>>, <<T2, A1>>, <<T3, A2>>, <<T1, A2>>, <<NilMAC, A1>>, <<T3, V6>>, <<T2, NoIP>>}
OfferChoices == {<<T3, A1>>, <<T3, A2>>, <<T3, NoIP>>, <<T1, A2>>, <<T1, V6>>}

Step(rec) == /\ bad' = IF bad # "none" THEN bad ELSE Verdict'
             /\ depth' = IF Bounded THEN depth + 1 ELSE depth
             /\ hist' = IF Bounded THEN Append(hist, rec) ELSE hist

MCInit == Init /\ bad = "none" /\ depth = 0 /\ hist = <<>>

MCNext == (~Bounded \/ depth < MaxDepth) /\
  \/ \E c \in StartChoices :
        /\ (c[1] # NilMAC /\ c[2] \in IP4 /\ ~Hunted(c[1])) => Len(loops) < MaxLoops
        /\ ~RacyStart      \* in the deviation variant every StartHunt is scheck followed by sinsert
        /\ StartHunt(c[1], c[2]) /\ Step([a |-> "start", mac |-> c[1], ip |-> c[2]])
  \/ \E c \in {<<T1, A1>>, <<T2, A1>>, <<NilMAC, A1>>} :
        /\ ~RacyStart
        /\ (c[1] # NilMAC /\ ~Hunted(c[1])) => Len(loops) < MaxLoops
        /\ ConcStart(c[1], c[2], 4) /\ Step([a |-> "cstart", mac |-> c[1], ip |-> c[2], n |-> 4])
  \/ \E c \in {<<T1, A1>>, <<T2, A1>>} :
        /\ Len(loops) + Len(pend[T1]) + Len(pend[T2]) < MaxLoops
        /\ StartCheck(c[1], c[2]) /\ Step([a |-> "scheck", mac |-> c[1], ip |-> c[2]])
  \/ \E m \in Targets : StartInsert(m) /\ Step([a |-> "sinsert", mac |-> m])
  \/ \E m \in Targets : StopHunt(m) /\ Step([a |-> "stop", mac |-> m])
  \/ \E m \in CaptureMACs :
        \/ m \notin captured /\ Capture(m, TRUE) /\ Step([a |-> "capture", mac |-> m])
        \/ m \in captured /\ Capture(m, FALSE) /\ Step([a |-> "release", mac |-> m])
  \/ ~closed /\ Close /\ Step([a |-> "close"])
  \/ WithOffer /\ \E c \in OfferChoices : offer[c[1]] # c[2] /\ Offer(c[1], c[2]) /\ Step([a |-> "offer", mac |-> c[1], ip |-> c[2]])
  \/ \E l \in 1..Len(loops) :
        \/ \E t \in Targets \cup {NilMAC} : LoopCheck(l, t) /\ Step([a |-> "check", l |-> l, tgt |-> t])
        \/ LoopAct(l) /\ Step([a |-> "act", l |-> l])
        \/ ~closed /\ Tick(l) /\ Step([a |-> "tick", l |-> l])
        \/ WakeOnClose(l) /\ Step([a |-> "wake", l |-> l])
  \/ /\ RecvOps # {}
     /\ \E op \in RecvOps, sm \in Targets, si \in RecvSI, ti \in RecvTI :
         \E es \in (IF NarrowES THEN {sm} ELSE Targets) :
           Recv(op, es, sm, si, ti) /\ Step([a |-> "recv", op |-> op, es |-> es, sm |-> sm, si |-> si, ti |-> ti])

MCSpec == MCInit /\ [][MCNext]_mcvars

TypeOK == /\ Len(loops) <= MaxLoops /\ Len(rl) = Len(loops)
          /\ \A l \in 1..Len(loops) : loops[l].pc \in {"check", "send", "correct", "wait", "done"}
          /\ \A l \in 1..Len(loops) : rl[l].alive = (loops[l].pc # "done") /\ rl[l].mac = loops[l].mac

\* one named invariant per property-level predicate
C13_ForgedOnlyToHunted == bad # "C13_ForgedOnlyToHunted"
C13_RejectOnlyIf       == bad # "C13_RejectOnlyIf"
C13_CloseStops         == bad # "C13_CloseStops"
C13_UndoWithinOneCycle == bad \notin {"C13_UndoWithinOneCycle_continue", "C13_UndoWithinOneCycle_restore", "C13_UndoWithinOneCycle_quiet"}
C13_Idempotent         == bad \notin {"C13_Idempotent", "C13_Idempotent_list"}
C07_WellFormedOut      == WellFormedOut
\* mechanism level: a loop never serves a MAC other than its own unless the lookup is by IP
LoopServesOwnMac == ByMac => \A l \in 1..Len(loops) : loops[l].pc = "send" => loops[l].tgt = loops[l].mac

\* behaviour export (walk mode): evaluated once per distinct (VIEW) state; always TRUE
Export == (Bounded /\ depth = MaxDepth /\ (ExportEvery = 1 \/ RandomElement(1..ExportEvery) = 1)) => PrintT(ToJson(hist))
\* counterexample export: the history that first contradicts a property-level predicate
ExportBad == (Bounded /\ bad # "none" /\ ev.kind # "init") => PrintT(ToJson([bad |-> bad, hist |-> hist]))

NotBad == bad = "none"     \* CONSTRAINT of the counterexample-export configuration: do not expand beyond a failure

View == <<hunt, loops, closed, offer, hostOf, pend, captured, refHunt, refClosed, refOffer, rl, poisoned, bad, depth>>

-----------------------------------------------------------------------------
(* fairness configuration: after StopHunt / Close every loop instance ends *)
LiveNext ==
  \/ \E c \in {<<T1, A1>>, <<T2, A1>>} : Len(loops) < MaxLoops /\ StartHunt(c[1], c[2]) /\ UNCHANGED <<bad, depth, hist>>
  \/ \E m \in {T1, T2} : StopHunt(m) /\ UNCHANGED <<bad, depth, hist>>
  \/ ~closed /\ Close /\ UNCHANGED <<bad, depth, hist>>
  \/ \E l \in 1..Len(loops) :
        \/ \E t \in Targets \cup {NilMAC} : LoopCheck(l, t) /\ UNCHANGED <<bad, depth, hist>>
        \/ LoopAct(l) /\ UNCHANGED <<bad, depth, hist>>
        \/ Tick(l) /\ UNCHANGED <<bad, depth, hist>>
LoopStep(l) == /\ l <= Len(loops)
               /\ \/ \E t \in Targets \cup {NilMAC} : LoopCheck(l, t)
                  \/ LoopAct(l)
                  \/ Tick(l)
               /\ UNCHANGED <<bad, depth, hist>>
LiveSpec == MCInit /\ [][LiveNext]_mcvars /\ \A l \in 1..MaxLoops : WF_mcvars(LoopStep(l))
Ended(l) == l <= Len(loops) /\ loops[l].pc = "done"
StopLeadsToDone  == \A l \in 1..MaxLoops :
                      (l <= Len(loops) /\ loops[l].mac \notin refHunt) ~> (Ended(l) \/ (l <= Len(loops) /\ loops[l].mac \in refHunt))
CloseLeadsToDone == \A l \in 1..MaxLoops : (closed /\ l <= Len(loops)) ~> Ended(l)
=============================================================================
