------------------------------ MODULE Ndp6RaVec ------------------------------
(***************************************************************************)
(* Router learning exactness (third sentence of C14), direction C.          *)
(* The module is (1) an enumerator of router advertisements at the level    *)
(* of abstract option items (prefix information, MTU, RDNSS, DNSSL, route   *)
(* information, source link-layer address, unknown type; each well formed   *)
(* or with a wrong length) and (2) an independent reference decoder         *)
(* (RFC 4861 4.2/4.6, RFC 4191 2.2/2.3, RFC 8106 5.1-5.3) that walks the     *)
(* item sequence and yields the Router record a faithful implementation     *)
(* must hold after the advertisement.  One TLC state = one vector.          *)
(*                                                                         *)
(* Reading for malformed options (the statement only speaks of what "an     *)
(* independent decoder reads"): a decoder may either drop the whole         *)
(* advertisement or skip the malformed option; it may not read values out   *)
(* of it.  `mayDrop` says that the first is permitted, `ref` is the second.  *)
(***************************************************************************)
EXTENDS Naturals, Sequences, FiniteSets, TLC, Json

CONSTANTS MaxLen,        \* longest option list
          MaxSecond,     \* longest option list of the second advertisement of an update vector
          Part           \* "single" | "update" | "many"

P1 == [id |-> "pfxA", kind |-> "prefix", units |-> 4, plen |-> 64, onlink |-> TRUE, auto |-> TRUE,
       valid |-> 7200, pref |-> 1800, prefix |-> "2001:db8:1::"]
P2 == [id |-> "pfxB", kind |-> "prefix", units |-> 4, plen |-> 48, onlink |-> FALSE, auto |-> TRUE,
       valid |-> 2147483647, pref |-> 0, prefix |-> "fd00:aa:bb::"]
PBad == [id |-> "pfxShort", kind |-> "prefix", units |-> 3, plen |-> 64, onlink |-> TRUE, auto |-> FALSE,
         valid |-> 600, pref |-> 300, prefix |-> "2001:db8:2::"]
M1 == [id |-> "mtu", kind |-> "mtu", units |-> 1, mtu |-> 1480]
MBad == [id |-> "mtuLong", kind |-> "mtu", units |-> 2, mtu |-> 9000]
D1 == [id |-> "rdnss1", kind |-> "rdnss", units |-> 3, life |-> 600, servers |-> <<"2606:4700:4700::1111">>]
D2 == [id |-> "rdnss2", kind |-> "rdnss", units |-> 5, life |-> 2147483647, servers |-> <<"2001:4860:4860::8888", "fe80::53">>]
DEven == [id |-> "rdnssEven", kind |-> "rdnss", units |-> 4, life |-> 900, servers |-> <<"2001:db8::53">>]   \* (Length-1) odd
DShort == [id |-> "rdnssShort", kind |-> "rdnss", units |-> 1, life |-> 900, servers |-> <<>>]
S1 == [id |-> "dnssl1", kind |-> "dnssl", units |-> 0, life |-> 1200, domains |-> <<"lan">>]
S2 == [id |-> "dnssl2", kind |-> "dnssl", units |-> 0, life |-> 60, domains |-> <<"home.arpa", "corp.example.com">>]
SBad == [id |-> "dnsslShort", kind |-> "dnssl", units |-> 1, life |-> 60, domains |-> <<>>]
R1 == [id |-> "route", kind |-> "route", units |-> 2, plen |-> 64, prf |-> 1, life |-> 300, prefix |-> "2001:db8:9::"]
RBad == [id |-> "routeBad", kind |-> "route", units |-> 1, plen |-> 96, prf |-> 0, life |-> 300, prefix |-> "2001:db8:9::"]
L1 == [id |-> "slla", kind |-> "slla", units |-> 1, mac |-> "02:00:00:00:09:01"]
LBad == [id |-> "sllaLong", kind |-> "slla", units |-> 2, mac |-> "02:00:00:00:09:02"]
U1 == [id |-> "unk", kind |-> "unknown", units |-> 1, type |-> 200]
U2 == [id |-> "unkLong", kind |-> "unknown", units |-> 3, type |-> 14]

\* ---- items whose counts and length bytes cross the boundaries of 8-bit arithmetic (31/32/33 units = 248/256/264
\* bytes, 15/16/17/31/32 addresses, long domain lists, many prefixes); they are not part of the list product
Servers(n) == [i \in 1..n |-> "2001:db8:53::" \o ToString(i)]
RdnssN(n) == [id |-> "rdnss" \o ToString(n), kind |-> "rdnss", units |-> 1 + 2 * n, life |-> 1200, servers |-> Servers(n)]
Domains(n) == [i \in 1..n |-> "d" \o ToString(i) \o ".example.net"]
DnsslN(n) == [id |-> "dnssl" \o ToString(n), kind |-> "dnssl", units |-> 0, life |-> 300, domains |-> Domains(n)]
UnkN(u) == [id |-> "unk" \o ToString(u), kind |-> "unknown", units |-> u, type |-> 200]
PfxN(i) == [id |-> "pfx" \o ToString(i), kind |-> "prefix", units |-> 4, plen |-> 64, onlink |-> TRUE, auto |-> (i % 2 = 0),
            valid |-> 1000 + i, pref |-> 500 + i, prefix |-> "2001:db8:" \o ToString(i) \o "::"]
ManyPrefixes(n) == [i \in 1..n |-> PfxN(i)]
BigItems == {RdnssN(n) : n \in {15, 16, 17, 31, 32, 40}} \cup {DnsslN(n) : n \in {12, 15, 16, 30}}
            \cup {UnkN(u) : u \in {31, 32, 33, 64, 160}}
            \cup {[id |-> "mtu33", kind |-> "mtu", units |-> 33, mtu |-> 1400],
                  [id |-> "slla33", kind |-> "slla", units |-> 33, mac |-> "02:00:00:00:09:03"],
                  [id |-> "pfx36", kind |-> "prefix", units |-> 36, plen |-> 64, onlink |-> TRUE, auto |-> TRUE,
                   valid |-> 600, pref |-> 300, prefix |-> "2001:db8:3::"]}
BigLists == {<<it>> : it \in BigItems} \cup {<<L1, it>> : it \in BigItems} \cup {<<it, M1, P1>> : it \in BigItems}
            \cup {ManyPrefixes(9), ManyPrefixes(33), <<D1>> \o ManyPrefixes(17) \o <<S1>>}

Items == {P1, P2, PBad, M1, MBad, D1, D2, DEven, DShort, S1, S2, SBad, R1, RBad, L1, LBad, U1, U2}
Singletons == {"mtu", "rdnss", "dnssl", "slla"}

H(i, m, o, prf, hop, life, reach, retrans) ==
  [id |-> i, managed |-> m, other |-> o, prf |-> prf, hop |-> hop, life |-> life, reach |-> reach, retrans |-> retrans]
Headers == << H("h1", FALSE, FALSE, 0, 64, 1800, 0, 0),
              H("h2", TRUE, FALSE, 1, 255, 65535, 3600000, 1000),
              H("h3", FALSE, TRUE, 3, 0, 0, 30000, 2147483647),
              H("h4", TRUE, TRUE, 2, 1, 9000, 1, 1),                  \* preference 10 is reserved
              H("h5", TRUE, TRUE, 0, 64, 1, 2147483647, 0),
              H("h6", FALSE, FALSE, 1, 32, 600, 0, 120000) >>

-----------------------------------------------------------------------------
(* the reference decoder *)

\* RFC validity of one option item given its type and length field
Valid(it) ==
  CASE it.kind = "slla"    -> it.units = 1                                  \* RFC 4861 4.6.1, Ethernet
    [] it.kind = "mtu"     -> it.units = 1                                  \* RFC 4861 4.6.4
    [] it.kind = "prefix"  -> it.units = 4                                  \* RFC 4861 4.6.2
    [] it.kind = "rdnss"   -> it.units >= 3 /\ (it.units - 1) % 2 = 0       \* RFC 8106 5.3.1
    [] it.kind = "dnssl"   -> it.units = 0 \/ it.units >= 2                 \* RFC 8106 5.3.1 (0: natural length)
    [] it.kind = "route"   -> \/ it.plen = 0 /\ it.units \in 1..3           \* RFC 4191 2.3
                              \/ it.plen \in 1..64 /\ it.units \in 2..3
                              \/ it.plen \in 65..128 /\ it.units = 3
    [] OTHER               -> TRUE                                          \* unknown types are skipped

Of(opts, k) == SelectSeq(opts, LAMBDA it : it.kind = k /\ Valid(it))
None == [none |-> TRUE]
LastOf(opts, k) == IF Of(opts, k) = <<>> THEN None ELSE Of(opts, k)[Len(Of(opts, k))]

RefOf(h, opts) ==
  [managed |-> h.managed, other |-> h.other,
   prf |-> IF h.prf = 2 THEN {0, 2} ELSE {h.prf},          \* RFC 4191 2.2: reserved is read as medium (or kept raw)
   hop |-> h.hop, life |-> h.life, reach |-> h.reach, retrans |-> h.retrans,
   prefixes |-> [i \in 1..Len(Of(opts, "prefix")) |->
                   LET p == Of(opts, "prefix")[i] IN
                   [plen |-> p.plen, onlink |-> p.onlink, auto |-> p.auto, valid |-> p.valid, pref |-> p.pref, prefix |-> p.prefix]],
   mtu |-> IF LastOf(opts, "mtu") = None THEN 0 ELSE LastOf(opts, "mtu").mtu,
   rdnss |-> IF LastOf(opts, "rdnss") = None THEN None
             ELSE [life |-> LastOf(opts, "rdnss").life, servers |-> LastOf(opts, "rdnss").servers],
   dnssl |-> IF LastOf(opts, "dnssl") = None THEN None
             ELSE [life |-> LastOf(opts, "dnssl").life, domains |-> LastOf(opts, "dnssl").domains],
   slla |-> IF LastOf(opts, "slla") = None THEN "" ELSE LastOf(opts, "slla").mac]

MayDrop(opts) == \E i \in 1..Len(opts) : ~Valid(opts[i])

-----------------------------------------------------------------------------
(* the enumerator *)

AtMostOne(opts) == \A i, j \in 1..Len(opts) : (i # j /\ opts[i].kind \in Singletons) => opts[i].kind # opts[j].kind
RECURSIVE SeqsUpTo(_)
SeqsUpTo(n) == IF n = 0 THEN {<<>>}
               ELSE LET S == SeqsUpTo(n - 1) IN S \cup {Append(s, it) : s \in {t \in S : Len(t) = n - 1}, it \in Items}
Lists(n) == {s \in SeqsUpTo(n) : AtMostOne(s)}

RECURSIVE Weight(_)
Weight(s) == IF s = <<>> THEN 0 ELSE Len(Head(s).id) + 3 * Len(s) + Weight(Tail(s))
HeaderFor(s) == Headers[(Weight(s) % Len(Headers)) + 1]

Rich == <<L1, P1, M1, D1, S1, R1, P2>>

VARIABLE v
SingleVectors == {[first |-> None, h |-> HeaderFor(s), opts |-> s] : s \in Lists(MaxLen)}
                 \cup {[first |-> None, h |-> Headers[i], opts |-> o] : i \in 1..Len(Headers), o \in {<<>>, Rich}}
                 \cup {[first |-> None, h |-> Headers[1], opts |-> o] : o \in BigLists}
\* macChange: the second advertisement comes from another Ethernet source (a router whose MAC changes)
UpdateVectors == {[first |-> [h |-> Headers[2], opts |-> f], h |-> HeaderFor(s), opts |-> s, macChange |-> mc] :
                     f \in {<<>>, Rich}, s \in Lists(MaxSecond), mc \in BOOLEAN}
\* many routers: n distinct sources advertise the same content one after the other; afterwards the table must
\* hold ALL n of them, each with the reference record (count classes around a plausible table bound of 8)
ManyVectors == {[first |-> None, h |-> Headers[hi], opts |-> o, many |-> n] :
                   n \in {1, 2, 8, 9, 12}, hi \in {1, 3}, o \in {<<>>, <<M1>>, <<L1, P1>>, <<P1, D1, S1>>}}
\* permutation pairs: the second advertisement of the same router has the same header, the same length and -- the
\* Internet checksum being a commutative sum of 16-bit words -- the same ICMPv6 checksum as the first, because it
\* is the first with aligned field values permuted; the reference records differ
P1x == [P1 EXCEPT !.valid = P2.valid, !.pref = P2.pref]          \* two prefixes with exchanged lifetimes
P2x == [P2 EXCEPT !.valid = P1.valid, !.pref = P1.pref]
P1y == [P1 EXCEPT !.prefix = P2.prefix]                         \* ... with exchanged prefix bits
P2y == [P2 EXCEPT !.prefix = P1.prefix]
D2s == [D2 EXCEPT !.servers = <<D2.servers[2], D2.servers[1]>>] \* RDNSS servers swapped
PermPairs == {<< <<P1, P2>>, <<P1x, P2x>> >>, << <<P1, P2>>, <<P1y, P2y>> >>, << <<P1, P2>>, <<P2, P1>> >>,
              << <<L1, D2, M1>>, <<L1, D2s, M1>> >>, << <<D2, P1, P2>>, <<D2s, P2x, P1x>> >>,
              << <<L1, P1, P2, D2>>, <<D2s, P2, L1, P1>> >>}
PermVectors == {[first |-> [h |-> Headers[hi], opts |-> pp[1]], h |-> Headers[hi], opts |-> pp[2], macChange |-> FALSE, perm |-> TRUE] :
                   pp \in PermPairs, hi \in {1, 2}}

Init == v \in IF Part = "single" THEN SingleVectors ELSE IF Part = "update" THEN UpdateVectors \cup PermVectors ELSE ManyVectors
Next == UNCHANGED v
Spec == Init /\ [][Next]_v

\* the reference termination measure: the walk consumes the list item by item
WalkTerminates == Len(v.opts) <= (IF Part = "update" /\ ~("perm" \in DOMAIN v) THEN MaxSecond ELSE 40)

Vector ==
  LET firstRef == IF v.first = None THEN None
                  ELSE [ref |-> RefOf(v.first.h, v.first.opts), mayDrop |-> MayDrop(v.first.opts)]
  IN [first |-> v.first, h |-> v.h, opts |-> v.opts, macChange |-> ("macChange" \in DOMAIN v /\ v.macChange),
      many |-> IF "many" \in DOMAIN v THEN v.many ELSE 0,
      perm |-> ("perm" \in DOMAIN v /\ v.perm),
      ref |-> RefOf(v.h, v.opts), mayDrop |-> MayDrop(v.opts), firstRef |-> firstRef]
Export == PrintT(ToJson(Vector))
=============================================================================
