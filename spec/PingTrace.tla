----------------------------- MODULE PingTrace -----------------------------
(* Trace validation of executions of the real Session.Ping / Ping6 / Parse (harness/cmd/pingdrv)
   against Ping.tla.

   Logged lines (one JSON object per line, in the order of the driver's log mutex):
     reset   next, waiters        a new behaviour starts; icmpTable is empty, icmpTable.id = next
     start   p, fam, to           a goroutine is about to call Ping (fam v4) / Ping6 (fam v6), timeout to ms
     sent    p, id                the echo request of p was read back from the connection: identifier id
     inject  id, kind, sub        an ICMP message is about to be handed to Session.Parse
     parsed  early, err           Parse returned; early = pings whose timer has certainly not fired yet
                                  (now < start + timeout - margin on the monotonic clock)
     ret     p, res, el           Ping returned nil / timeout / error after el ms
     end     waiters, next        all pings returned; snapshot of the waiter table
   Not logged (inferred by TLC in mode "M"): Register, Send, the send failure variant, Deliver
   (the instant echoNotify runs inside Parse), TimerFires, Wake, Cleanup, Return.

   Mode "M" (mechanism): the logged lines must be explained by a behaviour of Ping.tla.
   Mode "P" (property): only the reference variables are computed, from the logged arguments.
   The property-level predicates (T_C19) are evaluated in both modes. *)
EXTENDS Ping, Json

CONSTANTS Mode, TraceFile
VARIABLES l,     \* next line
          inj    \* the message being parsed: Nil | [id, kind, done]
tvars == <<table, nextID, pc, id, fam, closed, recv, res, panic, ref, l, inj>>

Trace == ndJsonDeserialize(TraceFile)
HW == 1                                  \* TLC register: highest line consumed
VI == 2                                  \* TLC register: first property failure <<line, which>>
E == Trace[l]
Nil == [nil |-> TRUE]
SeqSet(s) == {s[i] : i \in 1..Len(s)}

IsEvent(a) == l <= Len(Trace) /\ E.a = a /\ l' = l + 1
M == Mode = "M"
Mech(act) == IF M THEN act ELSE UNCHANGED mech

TReset == /\ IsEvent("reset")
          /\ (M => (\A p \in Procs : pc[p] \in {"idle", "done"}) /\ E.waiters = <<>>)
          /\ table' = {} /\ nextID' = E.next
          /\ pc' = [p \in Procs |-> "idle"] /\ id' = [p \in Procs |-> NoId]
          /\ fam' = [p \in Procs |-> "v4"]
          /\ closed' = [p \in Procs |-> FALSE] /\ recv' = [p \in Procs |-> FALSE]
          /\ res' = [p \in Procs |-> "none"] /\ panic' = FALSE
          /\ ref' = [p \in Procs |-> RefInit] /\ inj' = Nil

TStart == /\ IsEvent("start") /\ E.p \in Procs /\ E.fam \in Fams
          /\ Mech(StartM(E.p, E.fam)) /\ StartR(E.p, E.fam) /\ UNCHANGED inj

\* the request seen on the wire carries the identifier the ping registered
TSent == /\ IsEvent("sent")
         /\ (M => pc[E.p] \notin {"idle", "start", "registered"} /\ id[E.p] = E.id)
         /\ UNCHANGED mech /\ IdentR(E.p, E.id) /\ UNCHANGED inj

\* from this line on the message may be parsed
TInject == /\ IsEvent("inject") /\ inj = Nil /\ E.kind \in Kinds
           /\ inj' = [id |-> E.id, kind |-> E.kind, done |-> FALSE]
           /\ UNCHANGED mech /\ ReplyR(E.id, E.kind, {})

\* by this line it has been parsed (no panic); E.early: timers that have certainly not fired
TParsed == /\ IsEvent("parsed") /\ inj # Nil /\ ~("panic" \in DOMAIN E)
           /\ (M => inj.done)
           /\ inj' = Nil
           /\ UNCHANGED mech /\ ReplyR(inj.id, inj.kind, SeqSet(E.early))

\* for a ping whose send failed the driver reports the identifier it left in the table (or -1)
TRet == /\ IsEvent("ret") /\ ~("panic" \in DOMAIN E)
        /\ (M => pc[E.p] = "done" /\ res[E.p] = E.res)
        /\ UNCHANGED mech /\ UNCHANGED inj
        /\ ref' = [ref EXCEPT ![E.p].st = "returned", ![E.p].res = E.res,
                              ![E.p].id = IF E.res = "error" /\ E.leaked >= 0 THEN E.leaked ELSE @]

\* Session.Close of some session of the process (the one a pending ping was called on, or another one): no effect
TClose == /\ IsEvent("close") /\ Mech(CloseSessionM) /\ UNCHANGED <<ref, inj>>

TEnd == /\ IsEvent("end")
        /\ (M => /\ \A p \in Procs : pc[p] \in {"idle", "done"}
                 /\ TableIds = SeqSet(E.waiters) /\ nextID = E.next)
        /\ UNCHANGED <<mech, ref, inj>>

\* a line that reports a panic / hang is reported by the check itself; the driver abandons the behaviour
TAbort == /\ l <= Len(Trace) /\ ("panic" \in DOMAIN E \/ E.a = "hang") /\ l' = l + 1
          /\ UNCHANGED <<mech, ref>> /\ inj' = Nil

\* ---- unlogged steps of the mechanism (mode M only)
Hidden(act) == M /\ act /\ UNCHANGED <<ref, l, inj>>
IRegister == \E p \in Procs : Hidden(RegisterM(p))
ISend     == \E p \in Procs : Hidden(SendM(p))
ISendFail == \E p \in Procs : Hidden(KF_SendFailsLeakM(p)) \/ Hidden(SendFailsCleanM(p))
IWake     == \E p \in Procs : Hidden(WakeM(p))
ITimer    == \E p \in Procs : Hidden(TimerFiresM(p))
ICleanup  == \E p \in Procs : Hidden(CleanupM(p))
IReturn   == \E p \in Procs : Hidden(ReturnM(p))
IDeliver  == /\ M /\ inj # Nil /\ ~inj.done
             /\ ParseM(inj.id, inj.kind) /\ inj' = [inj EXCEPT !.done = TRUE] /\ UNCHANGED <<ref, l>>

TraceInit == /\ l = 1 /\ TLCSet(HW, 0) /\ TLCSet(VI, <<>>)
             /\ Init /\ inj = Nil

TraceNext == \/ TReset \/ TStart \/ TSent \/ TInject \/ TParsed \/ TRet \/ TClose \/ TEnd \/ TAbort
             \/ IRegister \/ ISend \/ ISendFail \/ IWake \/ ITimer \/ ICleanup \/ IReturn \/ IDeliver

TraceSpec == TraceInit /\ [][TraceNext]_tvars

Mark == TLCSet(HW, IF l - 1 > TLCGet(HW) THEN l - 1 ELSE TLCGet(HW))   \* CONSTRAINT, always TRUE

\* ---- property-level predicates on the state reached after consuming line l-1 (evaluated from a
\* CONSTRAINT: the first failure is recorded in register VI and the state is pruned)
Started == l > 1
LE == Trace[l - 1]
\* ErrTimeout is not returned before the timeout has elapsed
T_Latency == (LE.a = "ret" /\ LE.res = "timeout") => LE.el >= LE.to
\* no waiter is left behind -- except what the named deviation KF_SendFailsLeak leaves: the entry of a
\* ping whose send failed (those are counted by the check from the "end" lines and reported under
\* their own key; anything else left in the table fails here)
T_NoLeak  == LE.a = "end" => \A i \in SeqSet(LE.waiters) : \E p \in Procs : ref[p].res = "error" /\ ref[p].id = i
\* a non-timeout error is returned only when the send failed
T_Error   == (LE.a = "ret" /\ LE.res = "error") => LE.fail # ""
Failed == IF ~C19_NilIffOwnReply THEN "C19_NilIffOwnReply"
          ELSE IF ~C19_DistinctIds THEN "C19_DistinctIds"
          ELSE IF ~T_Latency THEN "C19_TimeoutEarly"
          ELSE IF ~T_NoLeak THEN "C19_NoLeak"
          ELSE IF ~T_Error THEN "C19_UnexpectedError"
          ELSE "none"
Props == IF ~Started \/ LE.a = "reset" \/ "panic" \in DOMAIN LE \/ Failed = "none" THEN TRUE
         ELSE TLCSet(VI, <<l - 1, Failed>>) /\ FALSE

TraceAccepted ==
  IF TLCGet(VI) # <<>> THEN Print(<<"PROPERTY", TLCGet(VI)[2], "line", TLCGet(VI)[1]>>, FALSE)
  ELSE IF TLCGet(HW) = Len(Trace) THEN Print(<<"ACCEPTED", Len(Trace)>>, TRUE)
  ELSE Print(<<"REJECTED", "line", TLCGet(HW) + 1>>, FALSE)
=============================================================================
