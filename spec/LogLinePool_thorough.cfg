SPECIFICATION Spec
CONSTANTS
  NLines = 4
  MaxFields = 1
  PutsOnWriteError = 1
  ExportEvery = 40
INVARIANTS C20_LinesIndependent PoolSound Export
CHECK_DEADLOCK FALSE
