SPECIFICATION TraceSpec
CONSTANTS
  Mode = "M"
  TraceFile = "trace.ndjson"
  Procs = {"p1", "p2", "p3", "p4"}
  NoProc = "noproc"
  IdSpace = 65536
  FirstId = 1
  LeakOnSendError = TRUE
CONSTRAINT Mark
CONSTRAINT Props
POSTCONDITION TraceAccepted
CHECK_DEADLOCK FALSE
