------------------------------- MODULE Radvs -------------------------------
(***************************************************************************)
(* X06: the router-advertisement server of handlers/icmp_spoofer            *)
(* (icmp6radv.go: Handler6.StartRADVS, RADVS.SendRA, RADVS.Stop,            *)
(* sendAdvertistementLoop) and the advertisement it emits                   *)
(* (layer_icmp6_ndp.go: Session.ICMP6SendRouterAdvertisement).              *)
(*                                                                         *)
(* Part "vec" -- the emitted advertisement as a function of the             *)
(* configuration.  A configuration is what a caller hands to StartRADVS     *)
(* (managed, other, prefixes, rdnss) plus the interface MTU.  `Ra(c)` is    *)
(* the record the CODE emits (mechanism level), `Want(c)` the record in     *)
(* which every field is traced to its configuration input (property level). *)
(* They differ at two sites:                                                *)
(*   KfFlagsIgnored            managed / other are stored in the Router     *)
(*                             record and never reach the wire (M = O = 0)  *)
(*   KfPrefixAttributesIgnored OnLink, Autonomous, ValidLifetime and        *)
(*                             PreferredLifetime of a configured prefix are *)
(*                             replaced by 1, 1, 2 h, 30 min                *)
(* Observed: no advertisement at all without a prefix (ObsNoPrefixNoRA);    *)
(* CurHopLimit 64, router lifetime 30 min, DNSSL "lan" 20 min are constants *)
(* of the send function (the Router record's CurHopLimit 1 etc. are unused).*)
(* One TLC state = one configuration vector.                                *)
(*                                                                         *)
(* Part "life" -- life cycle.  Every Start creates an instance with its own *)
(* stop channel (capacity 1) and its own loop goroutine, but all instances  *)
(* of a handler share ONE Router record (found by the NIC's link-local      *)
(* address), so the configuration of the latest Start is what every         *)
(* instance advertises.  Stop is a send on the stop channel.                *)
(* Property level: (L1) after Stop returned the instance's loop ends and    *)
(* writes nothing more; (L2) Stop never blocks, however often it is called  *)
(* -- before commit 5a0211c the third Stop blocked for ever (KfStopBlocks,   *)
(* constant StopNonBlocking = FALSE); (L3) an                                *)
(* instance advertises its own configuration -- KfSharedRouterRecord;       *)
(* (L4) Handler6.Close ends the servers -- the code leaves them running     *)
(* (KfCloseLeavesServers); (L5) a router solicitation is answered -- the    *)
(* handler ignores it (ObsNoSolicitedRA: the package calls the server       *)
(* "incomplete", so this one is recorded as observed behaviour only).       *)
(***************************************************************************)
EXTENDS Naturals, Sequences, FiniteSets, TLC, Json

CONSTANTS StopNonBlocking, \* BOOLEAN: Stop is a non-blocking send (commit 5a0211c); FALSE = the code before that commit
                           \* (known finding X06:StopBlocks open: the third Stop of an instance blocks for ever)
          Part,          \* "vec" | "life"
          MaxPrefixes,   \* vec: longest prefix list
          MaxDepth,      \* life: calls per behaviour
          MaxInst,       \* life: Start calls per behaviour
          WithTick       \* life: the two minute ticker fires (real time: only a few such behaviours are replayed)

\* ------------------------------------------------------------------------ configurations
PA == [id |-> "pA", prefix |-> "2001:db8:1::", plen |-> 64, onlink |-> TRUE, auto |-> TRUE, valid |-> 7200, pref |-> 1800, masked |-> TRUE]
PB == [id |-> "pB", prefix |-> "fd00:aa:bb::", plen |-> 48, onlink |-> FALSE, auto |-> FALSE, valid |-> 600, pref |-> 300, masked |-> TRUE]
PC == [id |-> "pC", prefix |-> "2001:db8:2:1::", plen |-> 56, onlink |-> TRUE, auto |-> FALSE, valid |-> 86400, pref |-> 14400, masked |-> FALSE]
PZ == [id |-> "pZ", prefix |-> "::", plen |-> 0, onlink |-> FALSE, auto |-> TRUE, valid |-> 7200, pref |-> 1800, masked |-> TRUE]
PrefixPool == {PA, PB, PC, PZ}
RNone == [id |-> "none", life |-> 0, servers |-> <<>>]
R1 == [id |-> "r1", life |-> 600, servers |-> <<"2606:4700:4700::1111">>]
R2 == [id |-> "r2", life |-> 1800, servers |-> <<"2606:4700:4700::1111", "2606:4700:4700::1001">>]
R0 == [id |-> "r0", life |-> 600, servers |-> <<>>]              \* an option without servers cannot be encoded
RdnssPool == {RNone, R1, R2, R0}
MTUs == {1500, 1280, 9000}

SeqsUpTo(S, n) == UNION {[1..m -> S] : m \in 0..n}

\* ------------------------------------------------------------------------ the advertisement
EncodeError(c) == \/ (c.rdnss.id # "none" /\ Len(c.rdnss.servers) = 0)
                  \/ \E i \in 1..Len(c.prefixes) : ~c.prefixes[i].masked
\* ICMP6SendRouterAdvertisement: nothing (and nil) without a prefix; an option that cannot be encoded fails the call
Outcome(c) == IF Len(c.prefixes) = 0 THEN "silent" ELSE IF EncodeError(c) THEN "error" ELSE "sent"

RdnssOpt(c) == IF c.rdnss.id = "none" THEN <<>> ELSE <<[t |-> "rdnss", life |-> c.rdnss.life, servers |-> c.rdnss.servers]>>
FixedTail(c) == <<[t |-> "dnssl", life |-> 1200, domains |-> <<"lan">>], [t |-> "mtu", mtu |-> c.mtu], [t |-> "slla", mac |-> "own"]>>
PiCode(p) == [t |-> "prefix", prefix |-> p.prefix, plen |-> p.plen, onlink |-> TRUE, auto |-> TRUE, valid |-> 7200, pref |-> 1800]
PiWant(p) == [t |-> "prefix", prefix |-> p.prefix, plen |-> p.plen, onlink |-> p.onlink, auto |-> p.auto, valid |-> p.valid, pref |-> p.pref]
Header(m, o) == [curhop |-> 64, managed |-> m, other |-> o, prf |-> 0, lifetime |-> 1800, reach |-> 0, retrans |-> 0,
                 ipsrc |-> "hostlla", ipdst |-> "ff02::1", hop |-> 255, ethdst |-> "33:33:00:00:00:01", ethsrc |-> "own"]
\* mechanism level: what the code writes
Ra(c) == [hdr |-> Header(FALSE, FALSE), opts |-> RdnssOpt(c) \o [i \in 1..Len(c.prefixes) |-> PiCode(c.prefixes[i])] \o FixedTail(c)]
\* property level: every configurable field traced to its input
Want(c) == [hdr |-> Header(c.managed, c.other), opts |-> RdnssOpt(c) \o [i \in 1..Len(c.prefixes) |-> PiWant(c.prefixes[i])] \o FixedTail(c)]
Sites(c) == (IF Ra(c).hdr # Want(c).hdr THEN {"KfFlagsIgnored"} ELSE {})
            \cup (IF \E i \in 1..Len(c.prefixes) : PiCode(c.prefixes[i]) # PiWant(c.prefixes[i]) THEN {"KfPrefixAttributesIgnored"} ELSE {})

\* lemmas about the reference itself (checked on every vector)
OptionOrder(c) == LET o == Ra(c).opts IN
   /\ Len(o) = Len(RdnssOpt(c)) + Len(c.prefixes) + 3
   /\ \A i \in 1..Len(c.prefixes) : o[Len(RdnssOpt(c)) + i].prefix = c.prefixes[i].prefix /\ o[Len(RdnssOpt(c)) + i].plen = c.prefixes[i].plen
   /\ o[Len(o)].t = "slla" /\ o[Len(o) - 1].mtu = c.mtu
SitesExact(c) == /\ ("KfFlagsIgnored" \in Sites(c)) <=> (c.managed \/ c.other)
                 /\ ("KfPrefixAttributesIgnored" \in Sites(c)) <=> (\E i \in 1..Len(c.prefixes) : c.prefixes[i].id \in {"pB", "pC", "pZ"})

\* ------------------------------------------------------------------------ variables (both parts share them)
VARIABLES vec,            \* vec: the configuration of this state
          inst,           \* life: <<[cfg, loop ("running" | "ended"), buf (0 | 1), stops (0..3)]>>, one per Start
          rc,             \* life: the handler's single Router record: configuration of the latest Start ("none" before)
          hclosed,        \* life: Handler6.Close was called
          out,            \* life: outcome of the last call
          depth, hist, dead
vars == <<vec, inst, rc, hclosed, out, depth, hist, dead>>

NoCfg == [id |-> "none"]
CA == [id |-> "cA", managed |-> TRUE, other |-> FALSE, prefixes |-> <<PA>>, rdnss |-> RNone, mtu |-> 1500]
CB == [id |-> "cB", managed |-> FALSE, other |-> TRUE, prefixes |-> <<PB, PA>>, rdnss |-> R1, mtu |-> 1500]
CE == [id |-> "cE", managed |-> FALSE, other |-> FALSE, prefixes |-> <<>>, rdnss |-> R1, mtu |-> 1500]      \* no prefix: silent
LifeCfgs == {CA, CB, CE}

VecInit == /\ Part = "vec"
           /\ vec \in [managed : BOOLEAN, other : BOOLEAN, prefixes : SeqsUpTo(PrefixPool, MaxPrefixes), rdnss : RdnssPool, mtu : MTUs]
           /\ inst = <<>> /\ rc = NoCfg /\ hclosed = FALSE /\ out = [res |-> "none"] /\ depth = 0 /\ hist = <<>> /\ dead = FALSE
LifeInit == /\ Part = "life"
            /\ vec = NoCfg /\ inst = <<>> /\ rc = NoCfg /\ hclosed = FALSE /\ out = [res |-> "none"] /\ depth = 0 /\ hist = <<>> /\ dead = FALSE

\* the advertisements one send of the shared record yields: <<>> or <<id of the advertised configuration>>
Adv == IF rc.id # "none" /\ Outcome(rc) = "sent" THEN <<rc.id>> ELSE <<>>
Running == {i \in 1..Len(inst) : inst[i].loop = "running"}
Step(call, o, sites) == /\ depth' = depth + 1
                        /\ out' = o
                        /\ hist' = Append(hist, call @@ [exp |-> o, kf |-> sites, live |-> Cardinality({i \in 1..Len(inst') : inst'[i].loop = "running"})])

\* startRADVS: the Router record is rewritten, a new loop starts and advertises at once
Start(c) == /\ Len(inst) < MaxInst
            /\ rc' = c
            /\ inst' = Append(inst, [cfg |-> c.id, loop |-> "running", buf |-> 0, stops |-> 0])
            /\ Step([a |-> "start", x |-> c.id, i |-> Len(inst) + 1],
                    [res |-> "ok", ras |-> IF Outcome(c) = "sent" THEN <<c.id>> ELSE <<>>], {})
            /\ UNCHANGED <<vec, hclosed, dead>>
\* SendRA works on the shared record, whatever the state of the instance
SendRA(i) == /\ i \in 1..Len(inst)
             /\ UNCHANGED <<vec, inst, rc, hclosed, dead>>
             /\ Step([a |-> "sendra", x |-> inst[i].cfg, i |-> i], [res |-> "ok", ras |-> Adv],
                     IF rc.id # inst[i].cfg /\ (Adv # <<>> \/ inst[i].cfg # "cE") THEN {"KfSharedRouterRecord"} ELSE {})
\* `stops` counts the Stop calls of an instance up to three, so that the view tells the third Stop from the second
Bump(n) == IF n < 3 THEN n + 1 ELSE n
\* Stop: send on a channel of capacity 1 that only the running loop reads; blocking before commit 5a0211c, non-blocking since
Stop(i) == /\ i \in 1..Len(inst)
           /\ CASE inst[i].loop = "running" -> /\ inst' = [inst EXCEPT ![i].loop = "ended", ![i].stops = Bump(@)]
                                               /\ Step([a |-> "stop", x |-> inst[i].cfg, i |-> i], [res |-> "ok", ras |-> <<>>], {}) /\ dead' = dead
                [] inst[i].buf = 0          -> /\ inst' = [inst EXCEPT ![i].buf = 1, ![i].stops = Bump(@)]
                                               /\ Step([a |-> "stop", x |-> inst[i].cfg, i |-> i], [res |-> "ok", ras |-> <<>>], {}) /\ dead' = dead
                [] StopNonBlocking          -> /\ inst' = [inst EXCEPT ![i].stops = Bump(@)]                     \* a stop request is pending already: dropped
                                               /\ Step([a |-> "stop", x |-> inst[i].cfg, i |-> i], [res |-> "ok", ras |-> <<>>], {}) /\ dead' = dead
                [] OTHER                    -> /\ inst' = inst
                                               /\ Step([a |-> "stop", x |-> inst[i].cfg, i |-> i], [res |-> "blocked", ras |-> <<>>], {"KfStopBlocks"}) /\ dead' = TRUE
           /\ UNCHANGED <<vec, rc, hclosed>>
\* a router solicitation from a host reaches Handler6.ProcessPacket: nothing happens
Solicit == /\ UNCHANGED <<vec, inst, rc, hclosed, dead>>
           /\ Step([a |-> "rs", x |-> "", i |-> 0], [res |-> "ok", ras |-> <<>>], IF Running # {} THEN {"ObsNoSolicitedRA"} ELSE {})
\* Handler6.Close: the loops listen to their stop channels only
HClose == /\ hclosed' = TRUE
          /\ UNCHANGED <<vec, inst, rc, dead>>
          /\ Step([a |-> "hclose", x |-> "", i |-> 0], [res |-> "ok", ras |-> <<>>], IF Running # {} THEN {"KfCloseLeavesServers"} ELSE {})
\* the ticker (RetransTimer = 2 min) of every running loop fires once
Tick == /\ WithTick /\ Running # {}
        /\ UNCHANGED <<vec, inst, rc, hclosed, dead>>
        /\ Step([a |-> "tick", x |-> "", i |-> 0], [res |-> "ok", ras |-> [j \in 1..(Cardinality(Running) * Len(Adv)) |-> rc.id]], {})

LifeNext == /\ Part = "life" /\ depth < MaxDepth /\ ~dead
            /\ \/ \E c \in LifeCfgs : Start(c)
               \/ \E i \in 1..MaxInst : SendRA(i) \/ Stop(i)
               \/ Solicit \/ HClose \/ Tick
Init == VecInit \/ LifeInit
Next == LifeNext
Spec == Init /\ [][Next]_vars

\* ------------------------------------------------------------------------ invariants
VecLemmas == Part = "vec" => (OptionOrder(vec) /\ SitesExact(vec))
VecExport == Part = "vec" => PrintT(ToJson([cfg |-> vec, outcome |-> Outcome(vec), ra |-> Ra(vec), want |-> Want(vec), kf |-> Sites(vec)]))
\* mechanism: a stop token is buffered only for a loop that has ended, and every instance advertises the latest configuration
BufOnlyWhenEnded == \A i \in 1..Len(inst) : inst[i].buf = 1 => inst[i].loop = "ended"
LatestWins == Len(inst) > 0 => rc.id = inst[Len(inst)].cfg
\* property level (L1): Stop that returned leaves the instance without a loop
\* property level (L2), an invariant iff StopNonBlocking
StopNeverBlocks == StopNonBlocking => out.res # "blocked"
StopEndsLoop == (Len(hist) > 0 /\ hist[Len(hist)].a = "stop" /\ out.res = "ok") => inst[hist[Len(hist)].i].loop = "ended"
DepthOK == depth \in 0..MaxDepth
ViewLast == <<inst, rc, hclosed, dead, IF Len(hist) = 0 THEN <<>> ELSE <<hist[Len(hist)].a, hist[Len(hist)].x, hist[Len(hist)].i>>>>
LifeExport == (Part = "life" /\ depth > 0) => PrintT(ToJson(hist))
LifeCfgExport == (Part = "life" /\ depth = 0) => PrintT(ToJson([lifecfgs |-> LifeCfgs]))
=============================================================================
